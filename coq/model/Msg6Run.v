(* Msg6Run.v — executable cases tying lib/Msg6Codec.v to the library's DHCPv6 codec:
   C6Dec: a datagram and what dhcpv6.FromBytes made of it (the library may reject more than the
   generic TLV layer does - typed options have their own checks - so only accepted datagrams bind);
   C6Enc: a reply the server sent, as parsed packet, and its bytes on the wire. *)
From Coq Require Import List NArith.
From Verif Require Import Base Net Msg6 IpcalcRun Msg6Codec.
Import ListNotations.
Open Scope N_scope.

Inductive c6case :=
| C6Dec (wire : bytes) (res : option pkt6)
| C6Enc (p : pkt6) (wire : bytes).

Definition check_c6case (c : c6case) : bool :=
  match c with
  | C6Dec wire res =>
      match decode6 wire, res with
      | Some a, Some b => pkt6_eqb a b
      | _, None => true
      | None, Some _ => false
      end
  | C6Enc p wire => match enc_pkt6 p with Some b => bytes_eqb b wire | None => false end
  end.

Definition mismatches (l : list c6case) : list nat := mismatch_idx check_c6case l 0.
