(* C12 — DHCPv6 replies match their request; relayed requests get a mirrored Relay-Reply.
   handle6 is the model of server/handle.go HandleMsg6 on the parse result of the datagram, for
   ANY list of handlers.  A packet is a stack of relay layers (any depth) around an innermost
   message; stub6_spec is the literal type table.  id_preserving is what every built-in DHCPv6
   plugin handler satisfies (proved per plugin in the plugin developments). *)
From Verif Require Import Base BaseProofs Net Msg6 Chain ChainProofs Server4 Server4Proofs Server6 Server6Run Server6Proofs Server6Examples Assembly AsmRefine6 Msg4Codec Msg6Codec Msg6CodecProofs.
Open Scope N_scope.

Theorem reply6_type_table :
  forall m : imsg, stub6 m = stub6_spec m.
Proof. exact (@Server6Proofs.reply6_type_table). Qed.
Print Assumptions reply6_type_table.

Theorem reply6_stub_carries :
  forall m r : imsg,
  stub6 m = Some r ->
  i_xid r = i_xid m /\
  o6_get OPT_CLIENTID (i_opts r) = o6_get OPT_CLIENTID (i_opts m) /\
  (i_type r = MT_ADVERTISE \/ i_type r = MT_REPLY) /\
  (i_type r = MT_ADVERTISE <-> i_type m = MT_SOLICIT /\ o6_get OPT_RAPID (i_opts m) = None) /\
  (o6_get OPT_RAPID (i_opts r) <> None <->
  i_type m = MT_SOLICIT /\ o6_get OPT_RAPID (i_opts m) <> None).
Proof. exact (@Server6Proofs.reply6_stub_carries). Qed.
Print Assumptions reply6_stub_carries.

Theorem reply6_only_supported :
  forall (hs : list handler6) (lif : Z) (oob : option Z) (pip : bytes)
  (pport : Z) (parsed : option pkt6) (p : pkt6) (dip : bytes) (dport : Z)
  (ifx : option Z) (log : list (nat * option pkt6)),
  handle6 hs lif oob pip pport parsed = (Sent6 p dip dport ifx, log) ->
  exists (d : pkt6) (msg : imsg),
  parsed = Some d /\
  p_inner d = Some msg /\
  stub6_spec msg <> None /\
  dip = pip /\ dport = pport /\ ifx = (if is_link_local pip then pick_if lif oob else None).
Proof. exact (@Server6Proofs.reply6_only_supported). Qed.
Print Assumptions reply6_only_supported.

Theorem reply6_matches_request :
  forall (hs : list handler6) (lif : Z) (oob : option Z) (pip : bytes)
  (pport : Z) (d p : pkt6) (dip : bytes) (dport : Z) (ifx : option Z)
  (log : list (nat * option pkt6)),
  Forall id_preserving hs ->
  handle6 hs lif oob pip pport (Some d) = (Sent6 p dip dport ifx, log) ->
  exists msg rm : imsg,
  p_inner d = Some msg /\
  p_inner p = Some rm /\
  i_xid rm = i_xid msg /\
  o6_get OPT_CLIENTID (i_opts rm) = o6_get OPT_CLIENTID (i_opts msg) /\
  o6_get OPT_CLIENTID (i_opts msg) <> None /\
  (i_type msg = MT_SOLICIT /\
  o6_get OPT_RAPID (i_opts msg) = None /\
  i_type rm = MT_ADVERTISE /\ o6_get OPT_RAPID (i_opts rm) = None \/
  i_type msg = MT_SOLICIT /\
  o6_get OPT_RAPID (i_opts msg) <> None /\
  i_type rm = MT_REPLY /\ o6_get OPT_RAPID (i_opts rm) <> None \/
  In (i_type msg) reply_types /\ i_type rm = MT_REPLY).
Proof. exact (@Server6Proofs.reply6_matches_request). Qed.
Print Assumptions reply6_matches_request.

Theorem relay_reply_mirrors :
  forall (hs : list (handler pkt6 pkt6)) (lif : Z) (oob : option Z)
  (pip : bytes) (pport : Z) (d : pkt6) (msg r0 : imsg) (rsp : pkt6)
  (rm : imsg) (log : list (nat * option pkt6)) (l0 : layer) (ls : list layer),
  p_inner d = Some msg ->
  stub6 msg = Some r0 ->
  run_chain6 hs 0 d (Some {| p_layers := []; p_inner := Some r0 |}) = (Some rsp, log) ->
  p_layers d = l0 :: ls ->
  p_layers rsp = [] ->
  p_inner rsp = Some rm ->
  (l_type l0 = MT_RELAYFORW ->
  exists p : pkt6,
  handle6 hs lif oob pip pport (Some d) =
  (Sent6 p pip pport (if is_link_local pip then pick_if lif oob else None), log) /\
  mirrors (p_layers d) (p_layers p) /\
  length (p_layers p) = length (p_layers d) /\ p_inner p = Some rm) /\
  (l_type l0 <> MT_RELAYFORW -> handle6 hs lif oob pip pport (Some d) = (NoSend6 5, log)).
Proof. exact (@Server6Proofs.relay_reply_mirrors). Qed.
Print Assumptions relay_reply_mirrors.

Theorem direct_reply_unwrapped :
  forall (hs : list (handler pkt6 pkt6)) (lif : Z) (oob : option Z)
  (pip : bytes) (pport : Z) (d : pkt6) (msg r0 : imsg) (rsp : pkt6)
  (log : list (nat * option pkt6)),
  p_inner d = Some msg ->
  stub6 msg = Some r0 ->
  run_chain6 hs 0 d (Some {| p_layers := []; p_inner := Some r0 |}) = (Some rsp, log) ->
  p_layers d = [] ->
  handle6 hs lif oob pip pport (Some d) =
  (Sent6 rsp pip pport (if is_link_local pip then pick_if lif oob else None), log).
Proof. exact (@Server6Proofs.direct_reply_unwrapped). Qed.
Print Assumptions direct_reply_unwrapped.

Theorem listener_always_has_interface :
  forall (zone : option Z) (rx : Z),
  (forall i : Z, zone = Some i -> i <> 0%Z) ->
  rx <> 0%Z ->
  let
  '(lif, cm) := listen_model zone in
  pick_if lif (rx_oob cm rx) = Some match zone with
  | Some i => i
  | None => rx
  end.
Proof. exact (@Server4Proofs.listener_always_has_interface). Qed.
Print Assumptions listener_always_has_interface.


Theorem assembled_is_handle6 :
  forall (dec_pds : imsg -> list (bytes * list PrefixPlugin.hint))
  (enc_iapd : bytes * list PrefixPlugin.lease -> bytes) (is : list inst6)
  (lif now : Z) (oob : option Z) (pip : bytes) (pport : Z) (parsed : option pkt6)
  (is' : list inst6) (o : outcome6),
  srv6_step dec_pds enc_iapd is lif now oob pip pport parsed = (is', o) ->
  o <> O6Panic ->
  fst (handle6 (map (as_handler6 dec_pds enc_iapd now) is) lif oob pip pport parsed) =
  out6_of o.
Proof. exact (@AsmRefine6.srv6_refines_handle6). Qed.
Print Assumptions assembled_is_handle6.

Theorem instances_identity_preserving :
  forall (dec_pds : imsg -> list (bytes * list PrefixPlugin.hint))
  (enc_iapd : bytes * list PrefixPlugin.lease -> bytes) (now : Z)
  (i : inst6), id_preserving (as_handler6 dec_pds enc_iapd now i).
Proof. exact (@AsmRefine6.inst6_id_preserving). Qed.
Print Assumptions instances_identity_preserving.

Theorem assembled_reply6_matches_request :
  forall (dec_pds : imsg -> list (bytes * list PrefixPlugin.hint))
  (enc_iapd : bytes * list PrefixPlugin.lease -> bytes) (is : list inst6)
  (lif now : Z) (oob : option Z) (pip : bytes) (pport : Z) (d : pkt6)
  (is' : list inst6) (p : pkt6) (dip : bytes) (dport : Z) (ifx : option Z),
  srv6_step dec_pds enc_iapd is lif now oob pip pport (Some d) = (is', O6Sent p dip dport ifx) ->
  exists msg rm : imsg,
  p_inner d = Some msg /\
  p_inner p = Some rm /\
  i_xid rm = i_xid msg /\
  o6_get OPT_CLIENTID (i_opts rm) = o6_get OPT_CLIENTID (i_opts msg) /\
  o6_get OPT_CLIENTID (i_opts msg) <> None /\
  (i_type msg = MT_SOLICIT /\
  o6_get OPT_RAPID (i_opts msg) = None /\
  i_type rm = MT_ADVERTISE /\ o6_get OPT_RAPID (i_opts rm) = None \/
  i_type msg = MT_SOLICIT /\
  o6_get OPT_RAPID (i_opts msg) <> None /\
  i_type rm = MT_REPLY /\ o6_get OPT_RAPID (i_opts rm) <> None \/
  In (i_type msg) reply_types /\ i_type rm = MT_REPLY).
Proof. exact (@AsmRefine6.assembled_reply6_matches_request). Qed.
Print Assumptions assembled_reply6_matches_request.

Theorem assembled_sent_is_handle6_sent :
  forall (dec_pds : imsg -> list (bytes * list PrefixPlugin.hint))
  (enc_iapd : bytes * list PrefixPlugin.lease -> bytes) (is : list inst6)
  (lif now : Z) (oob : option Z) (pip : bytes) (pport : Z) (d : pkt6)
  (is' : list inst6) (p : pkt6) (dip : bytes) (dport : Z) (ifx : option Z),
  srv6_step dec_pds enc_iapd is lif now oob pip pport (Some d) = (is', O6Sent p dip dport ifx) ->
  exists log : list (nat * option pkt6),
  handle6 (map (as_handler6 dec_pds enc_iapd now) is) lif oob pip pport (Some d) =
  (Sent6 p dip dport ifx, log).
Proof. exact (@AsmRefine6.assembled_sent_is_handle6_sent). Qed.
Print Assumptions assembled_sent_is_handle6_sent.

Theorem dhcp6_options_roundtrip :
  forall o : opts6,
  wf_opts6 o ->
  forall fuel : nat, (length o < fuel)%nat -> dec_opts6 fuel (enc_opts6 o) = Some o.
Proof. exact (@Msg6CodecProofs.dec_enc_opts6). Qed.
Print Assumptions dhcp6_options_roundtrip.

Theorem dhcp6_packet_roundtrip :
  forall (ls : list layer) (inner : option imsg) (b : bytes),
  Forall wf_layer ls ->
  (forall m : imsg, inner = Some m -> wf_imsg m) ->
  fits ls inner ->
  enc_nest ls inner = Some b ->
  forall fuel : nat,
  (length ls < fuel)%nat -> dec_pkt6 fuel b = Some {| p_layers := ls; p_inner := inner |}.
Proof. exact (@Msg6CodecProofs.dec_enc_pkt6). Qed.
Print Assumptions dhcp6_packet_roundtrip.

Theorem dhcp6_wire_roundtrip :
  forall (p : pkt6) (b : bytes),
  Forall wf_layer (p_layers p) ->
  (forall m : imsg, p_inner p = Some m -> wf_imsg m) ->
  fits (p_layers p) (p_inner p) -> enc_pkt6 p = Some b -> decode6 b = Some p.
Proof. exact (@Msg6CodecProofs.decode6_encode6). Qed.
Print Assumptions dhcp6_wire_roundtrip.

(* Non-vacuity (proofs/Server6Examples.v) *)
Example hypotheses_satisfiable :
  fst (handle6 (map beh6_fn [B6Mark 1]) 0 (Some 4%Z) ([254;128] ++ zeros 13 ++ [77]) 547 (Some ex_d)) =
  Sent6 {| p_layers := [ {| l_type := MT_RELAYREPL; l_hop := 1; l_link := zeros 15 ++ [7]; l_peer := [254;128] ++ zeros 13 ++ [9]; l_opts := [(OPT_IFACEID, [101;116;104;48])] |};
                         {| l_type := MT_RELAYREPL; l_hop := 0; l_link := zeros 16; l_peer := [254;128] ++ zeros 13 ++ [1]; l_opts := [(OPT_IFACEID, [9]); (OPT_REMOTEID, [0;0;0;9;1])] |} ];
           p_inner := Some {| i_type := MT_REPLY; i_xid := 11259375; i_opts := [(OPT_CLIENTID, ex_cid); (OPT_RAPID, []); (201, [1])] |} |}
        ([254;128] ++ zeros 13 ++ [77]) 547 (Some 4%Z) /\
  Forall id_preserving (map beh6_fn [B6Pass; B6StopNil]).
Proof. exact (conj ex_run6 ex_id_preserving). Qed.
