(* Opt4Run.v — executable cases tying the TLV codec model (proofs/Opt4Codec.v) to the library:
   CEnc: an option map and the bytes dhcpv4.Options.ToBytes wrote for it;
   CDec: the option bytes of a datagram and what dhcpv4.FromBytes made of them. *)
From Coq Require Import List NArith.
From Verif Require Import Base Net Msg4 IpcalcRun Opt4Codec Msg4Codec.
Import ListNotations.
Open Scope N_scope.

Inductive ccase :=
| CEnc (o : list (N * bytes)) (wire : bytes)
| CDec (wire : bytes) (res : option (list (N * bytes)))
(* whole messages: what ToBytes wrote for a message; what FromBytes made of a datagram *)
| CMEnc (m : msg4) (wire : bytes)
| CMDec (wire : bytes) (res : option msg4).

Definition check_ccase (c : ccase) : bool :=
  match c with
  | CEnc o wire => bytes_eqb (enc_opts o) wire
  | CDec wire res =>
      match decode wire, res with
      | None, None => true
      | Some a, Some b => opts_eqb a b
      | _, _ => false
      end
  | CMEnc m wire => match enc_msg m with Ok b => bytes_eqb b wire | _ => false end
  | CMDec wire res =>
      match dec_msg wire, res with
      | None, None => true
      | Some a, Some b => msg4_eqb a b
      | _, _ => false
      end
  end.

Definition mismatches (l : list ccase) : list nat := mismatch_idx check_ccase l 0.
