// implrun runs the implementation (built from /repo's current tree with -tags verif)
// on generated inputs and histories, evaluates each property's statement on what it
// observed (monitors), and writes the same inputs with the observed outputs as Coq
// case files that the model is then run on (correspondence, DESIGN.md §3.2).
package main

import (
	"flag"
	"fmt"
	"os"
	"strconv"
)

var runners = map[string]func(*Ctx){}
var replayers = map[string]func(path string) int{}

func main() {
	if len(os.Args) >= 2 && os.Args[1] == "replay" {
		if len(os.Args) != 4 {
			fmt.Fprintln(os.Stderr, "usage: implrun replay <Cxx> <file>")
			os.Exit(2)
		}
		f, ok := replayers[os.Args[2]]
		if !ok {
			fmt.Fprintln(os.Stderr, "no replayer for", os.Args[2])
			os.Exit(2)
		}
		os.Exit(f(os.Args[3]))
	}
	prop := flag.String("prop", "", "property id")
	seedS := flag.String("seed", "1", "seed")
	tier := flag.String("tier", "quick", "quick|thorough")
	out := flag.String("out", "", "output directory")
	flag.Parse()
	seed, _ := strconv.ParseUint(*seedS, 10, 64)
	f, ok := runners[*prop]
	if !ok || *out == "" {
		fmt.Fprintln(os.Stderr, "usage: implrun -prop Cxx -seed n -tier quick|thorough -out dir")
		os.Exit(2)
	}
	os.MkdirAll(*out, 0o755)
	ctx := NewCtx(*prop, seed, *tier, *out)
	f(ctx)
	ctx.Finish()
}
