(* C15 — DHCPv4 replies are addressed per RFC 2131 section 4.1.
   One theorem per row of the table (relay / NAK / ciaddr / broadcast flag / link-level),
   plus the port and interface-pinning rule, for ANY handlers; lif is the index of the
   interface the listener is bound to (0 = unbound), oob the interface index of the control
   message the request arrived with. *)
From Verif Require Import Base BaseProofs Net Msg4 Chain ChainProofs Server4 Server4Run Server4Proofs Server4Examples Assembly AssemblyProofs AsmRefine Opt4Codec Msg4Codec Frame Opt4Proofs Msg4CodecProofs FrameProofs FrameWf.
Open Scope N_scope.

Theorem dest4_relay :
  forall (hs : list handler4) (lif : Z) (oob : option Z) (req m : msg4)
  (log : list (nat * option msg4)) (d : dest4),
  handle4 hs lif oob (Some req) = (Sent d m, log) ->
  is_unspecified (m_giaddr req) = false ->
  d =
  DUdp (m_giaddr req) 67
  (if ip_equal (m_giaddr req) bcast4 || is_link_local (m_giaddr req)
  then pick_if lif oob
  else None).
Proof. exact Server4Proofs.dest4_relay. Qed.
Print Assumptions dest4_relay.

Theorem dest4_nak :
  forall (hs : list handler4) (lif : Z) (oob : option Z) (req m : msg4)
  (log : list (nat * option msg4)) (d : dest4),
  handle4 hs lif oob (Some req) = (Sent d m, log) ->
  is_unspecified (m_giaddr req) = true ->
  msg_type m = 6 -> d = DUdp bcast4 68 (pick_if lif oob).
Proof. exact Server4Proofs.dest4_nak. Qed.
Print Assumptions dest4_nak.

Theorem dest4_ciaddr :
  forall (hs : list handler4) (lif : Z) (oob : option Z) (req m : msg4)
  (log : list (nat * option msg4)) (d : dest4),
  handle4 hs lif oob (Some req) = (Sent d m, log) ->
  is_unspecified (m_giaddr req) = true ->
  msg_type m <> 6 ->
  is_unspecified (m_ciaddr req) = false ->
  d =
  DUdp (m_ciaddr req) 68
  (if ip_equal (m_ciaddr req) bcast4 || is_link_local (m_ciaddr req)
  then pick_if lif oob
  else None).
Proof. exact Server4Proofs.dest4_ciaddr. Qed.
Print Assumptions dest4_ciaddr.

Theorem dest4_bflag :
  forall (hs : list handler4) (lif : Z) (oob : option Z) (req m : msg4)
  (log : list (nat * option msg4)) (d : dest4),
  handle4 hs lif oob (Some req) = (Sent d m, log) ->
  is_unspecified (m_giaddr req) = true ->
  msg_type m <> 6 ->
  is_unspecified (m_ciaddr req) = true ->
  is_broadcast req = true -> d = DUdp bcast4 68 (pick_if lif oob).
Proof. exact Server4Proofs.dest4_bflag. Qed.
Print Assumptions dest4_bflag.

Theorem dest4_l2 :
  forall (hs : list handler4) (lif : Z) (oob : option Z) (req m : msg4)
  (log : list (nat * option msg4)),
  m_op req = 1 ->
  forall r0 : msg4,
  start4 req = Some r0 ->
  run_chain4 hs 0 req (Some r0) = (Some m, log) ->
  is_unspecified (m_giaddr req) = true ->
  msg_type m <> 6 ->
  is_unspecified (m_ciaddr req) = true ->
  is_broadcast req = false ->
  handle4 hs lif oob (Some req) =
  (match pick_if lif oob with
  | Some i => Sent (DL2 i) m
  | None => NoSend 5
  end, log).
Proof. exact Server4Proofs.dest4_l2. Qed.
Print Assumptions dest4_l2.

Theorem dest4_port_and_pin :
  forall (hs : list handler4) (lif : Z) (oob : option Z) (req m : msg4)
  (log : list (nat * option msg4)) (ip : bytes) (port : Z) (ifx : option Z),
  handle4 hs lif oob (Some req) = (Sent (DUdp ip port ifx) m, log) ->
  port = (if is_unspecified (m_giaddr req) then 68%Z else 67%Z) /\
  ifx = (if ip_equal ip bcast4 || is_link_local ip then pick_if lif oob else None).
Proof. exact Server4Proofs.dest4_port_and_pin. Qed.
Print Assumptions dest4_port_and_pin.

Theorem pick_if_table :
  forall (lif : Z) (oob : option Z),
  pick_if lif oob =
  (if (lif =? 0)%Z
  then match oob with
  | Some i => if (i =? 0)%Z then None else Some i
  | None => None
  end
  else Some lif).
Proof. exact Server4Proofs.pick_if_table. Qed.
Print Assumptions pick_if_table.

Theorem l2_frame_fields :
  forall resp : msg4,
  l2_frame resp =
  {|
  f_dst_mac := m_chaddr resp;
  f_src_ip := m_siaddr resp;
  f_dst_ip := m_yiaddr resp;
  f_sport := 67;
  f_dport := 68
  |}.
Proof. exact Server4Proofs.l2_frame_fields. Qed.
Print Assumptions l2_frame_fields.


Theorem listener_always_has_interface :
  forall (zone : option Z) (rx : Z),
  (forall i : Z, zone = Some i -> i <> 0%Z) ->
  rx <> 0%Z ->
  let
  '(lif, cm) := listen_model zone in
  pick_if lif (rx_oob cm rx) = Some match zone with
  | Some i => i
  | None => rx
  end.
Proof. exact (@Server4Proofs.listener_always_has_interface). Qed.
Print Assumptions listener_always_has_interface.

Theorem assembled_sent_is_handle4_sent :
  forall (is : list inst4) (lif now : Z) (oob : option Z) (req : msg4)
  (is' : list inst4) (d : dest4) (m : msg4),
  srv4_step is lif now oob (Some req) = (is', O4Sent d m) ->
  exists log : list (nat * option msg4),
  handle4 (map (as_handler4 now) is) lif oob (Some req) = (Sent d m, log).
Proof. exact (@AsmRefine.assembled_sent_is_handle4_sent). Qed.
Print Assumptions assembled_sent_is_handle4_sent.

Theorem assembled_dest4_relay :
  forall (is : list inst4) (lif now : Z) (oob : option Z) (req : msg4)
  (is' : list inst4) (d : dest4) (m : msg4),
  srv4_step is lif now oob (Some req) = (is', O4Sent d m) ->
  is_unspecified (m_giaddr req) = false ->
  d =
  DUdp (m_giaddr req) 67
  (if ip_equal (m_giaddr req) bcast4 || is_link_local (m_giaddr req)
  then pick_if lif oob
  else None).
Proof. exact (@AsmRefine.assembled_dest4_relay). Qed.
Print Assumptions assembled_dest4_relay.

Theorem l2_frame_view :
  forall (src_mac : bytes) (m : msg4) (p f : bytes),
  enc_body m = Ok p ->
  wf_bytes p ->
  wf_bytes (m_siaddr m) ->
  wf_bytes (m_yiaddr m) ->
  enc_frame src_mac m = Ok f ->
  exists si yi : bytes,
  to4 (m_siaddr m) = Some si /\
  to4 (m_yiaddr m) = Some yi /\
  length f = (42 + length p)%nat /\ dec_frame f = Some (expected_view src_mac m si yi p).
Proof. exact (@FrameProofs.frame_view). Qed.
Print Assumptions l2_frame_view.

Theorem l2_frame_ip_checksum :
  forall tl a0 a1 a2 a3 b0 b1 b2 b3 : N,
  wf_bytes [a0; a1; a2; a3] ->
  wf_bytes [b0; b1; b2; b3] ->
  fold16 (sum16 (ip_hdr tl [a0; a1; a2; a3] [b0; b1; b2; b3])) = 65535.
Proof. exact (@FrameProofs.ip_checksum_ok). Qed.
Print Assumptions l2_frame_ip_checksum.

Theorem l2_frame_udp_checksum :
  forall (a0 a1 a2 a3 b0 b1 b2 b3 : N) (p : bytes),
  wf_bytes [a0; a1; a2; a3] ->
  wf_bytes [b0; b1; b2; b3] ->
  wf_bytes p ->
  N.of_nat (length p) <= 65507 ->
  let ulen := 8 + N.of_nat (length p) in
  fold16
  (udp_sum [a0; a1; a2; a3] [b0; b1; b2; b3] ulen
  (udp_hdr [a0; a1; a2; a3] [b0; b1; b2; b3] p ++ p)) = 65535.
Proof. exact (@FrameProofs.udp_checksum_ok). Qed.
Print Assumptions l2_frame_udp_checksum.

Theorem l2_frame_payload_is_reply :
  forall (m : msg4) (p : bytes),
  wf_msg m -> enc_body m = Ok p -> dec_msg p = Some (wire_msg m) /\ enc_msg m = Ok (pad_min p).
Proof. exact (@FrameProofs.frame_payload_is_reply). Qed.
Print Assumptions l2_frame_payload_is_reply.

Theorem l2_frame_error_cases :
  forall (src_mac : bytes) (m : msg4) (p : bytes),
  enc_body m = Ok p ->
  N.of_nat (length p) <= 65507 ->
  (exists f : bytes, enc_frame src_mac m = Ok f) <->
  lenb (m_chaddr m) 6 = true /\
  lenb src_mac 6 = true /\ to4 (m_siaddr m) <> None /\ to4 (m_yiaddr m) <> None.
Proof. exact (@FrameProofs.frame_error_cases). Qed.
Print Assumptions l2_frame_error_cases.

Theorem l2_frame_panics_only_with_tobytes :
  forall (src_mac : bytes) (m : msg4), enc_frame src_mac m = Panic -> enc_body m = Panic.
Proof. exact (@FrameProofs.frame_panics_only_with_tobytes). Qed.
Print Assumptions l2_frame_panics_only_with_tobytes.

Theorem checksum_verifies :
  forall t : N, t + 65535 < 4294967296 -> fold16 (t + csum16 t) = 65535.
Proof. exact (@FrameProofs.csum_verifies). Qed.
Print Assumptions checksum_verifies.

Theorem serialised_reply_is_bytes :
  forall (m : msg4) (p : bytes), bytes_msg m -> enc_body m = Ok p -> wf_bytes p.
Proof. exact (@FrameWf.enc_body_wf). Qed.
Print Assumptions serialised_reply_is_bytes.

Theorem l2_frame_view_of_reply :
  forall (src_mac : bytes) (m : msg4) (f : bytes),
  bytes_msg m ->
  enc_frame src_mac m = Ok f ->
  exists p si yi : bytes,
  enc_body m = Ok p /\
  to4 (m_siaddr m) = Some si /\
  to4 (m_yiaddr m) = Some yi /\
  length f = (42 + length p)%nat /\ dec_frame f = Some (expected_view src_mac m si yi p).
Proof. exact (@FrameWf.frame_view_of_reply). Qed.
Print Assumptions l2_frame_view_of_reply.

Theorem l2_reply_reaches_client :
  forall (src_mac : bytes) (m : msg4) (f : bytes),
  bytes_msg m ->
  wf_msg m ->
  enc_frame src_mac m = Ok f ->
  exists v : fview,
  dec_frame f = Some v /\
  v_dst_mac v = m_chaddr m /\
  v_etype v = 2048 /\
  v_proto v = 17 /\
  to4 (m_siaddr m) = Some (v_src_ip v) /\
  to4 (m_yiaddr m) = Some (v_dst_ip v) /\
  v_sport v = 67 /\
  v_dport v = 68 /\
  v_ipck_ok v = true /\
  v_udpck_ok v = true /\
  N.of_nat (length f) = 14 + v_totlen v /\
  v_totlen v = 20 + v_ulen v /\ dec_msg (v_payload v) = Some (wire_msg m).
Proof. exact (@FrameWf.l2_reply_reaches_client). Qed.
Print Assumptions l2_reply_reaches_client.

(* Non-vacuity (proofs/Server4Examples.v): a DISCOVER through the chain [mark; set yiaddr; stop; mark]
   on an unbound listener is answered by a link-level OFFER on the receiving interface, the fourth
   handler never runs; a relayed REQUEST turned into a NAK goes to the relay agent on port 67;
   header-preserving handlers exist; LoadPlugins skips a DHCPv6-only plugin and fails on a failing setup. *)
Example hypotheses_satisfiable :
  (exists m, handle4 ex_chain 0 (Some 5%Z) (Some ex_req) = (Sent (DL2 5%Z) m, [(0%nat, Some (upd_opt (reply_stub ex_req) 53 [2]));
      (1%nat, Some (upd_opt (upd_opt (reply_stub ex_req) 53 [2]) 225 [1]));
      (2%nat, Some (set_yiaddr (upd_opt (upd_opt (reply_stub ex_req) 53 [2]) 225 [1]) [10;0;0;9]))]) /\
    m_yiaddr m = [10;0;0;9] /\ msg_type m = 2 /\ m_xid m = 305419896 /\ opt_get 61 (m_opts m) = Some [1;2;3]) /\
  Forall hdr_preserving (map beh_fn [BMark 1; BSetYi [10;0;0;9]; BNak; BStopNil]) /\
  load_plugins reg None (Some [(n_vtest, [[109]; [51]]); (n_v6only, []); (n_dual, [])]) = Some ([BMark 3; BPass], []) /\
  load_plugins reg (Some [(n_fail, [[101]])]) (Some [(n_vtest, [[112]])]) = None.
Proof. exact (conj ex_run4 (conj ex_hdr_preserving (conj ex_load ex_load_err))). Qed.
