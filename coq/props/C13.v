(* C13 — Plugins run in configured order until one stops the chain.
   run_chain4 is the dispatch loop of HandleMsg4 with an invocation log; the theorems hold for
   arbitrary handler functions.  load_plugins models plugins.LoadPlugins over an arbitrary
   registry (names, optional per-protocol setup functions that may fail or return nil). *)
From Verif Require Import Base BaseProofs Net Msg4 Chain ChainProofs Server4 Server4Run Server4Proofs Server4Examples Alloc Plugins4 Plugins6 RangePlugin PrefixPlugin FilePlugin Assembly NilStop.
Open Scope N_scope.

Theorem chain_order :
  forall (Q R : Type) (hs : list (handler Q R)) (req : Q) (r0 : option R),
  map fst (snd (run_chain hs 0 req r0)) = seq 0 (length (snd (run_chain hs 0 req r0))) /\
  (length (snd (run_chain hs 0 req r0)) <= length hs)%nat.
Proof. exact (@ChainProofs.chain_order). Qed.
Print Assumptions chain_order.

Theorem chain_threading :
  forall (Q R : Type) (hs : list (handler Q R)) (req : Q) (r0 : option R)
  (i : nat) (h : handler Q R) (ri : option R),
  nth_error hs i = Some h ->
  nth_error (snd (run_chain hs 0 req r0)) i = Some (i, ri) ->
  (i = 0%nat -> ri = r0) /\
  (if snd (h req ri)
  then
  length (snd (run_chain hs 0 req r0)) = S i /\ fst (run_chain hs 0 req r0) = fst (h req ri)
  else
  nth_error (snd (run_chain hs 0 req r0)) (S i) = Some (S i, fst (h req ri)) /\
  (S i < length hs)%nat \/
  S i = length hs /\
  length (snd (run_chain hs 0 req r0)) = S i /\ fst (run_chain hs 0 req r0) = fst (h req ri)).
Proof. exact (@ChainProofs.chain_threading). Qed.
Print Assumptions chain_threading.

Theorem chain_prefix_no_stop :
  forall (Q R : Type) (hs : list (handler Q R)) (req : Q) (r0 : option R)
  (i j : nat) (rj : option R) (hj : handler Q R),
  (j < i)%nat ->
  (i < length (snd (run_chain hs 0 req r0)))%nat ->
  nth_error hs j = Some hj ->
  nth_error (snd (run_chain hs 0 req r0)) j = Some (j, rj) -> snd (hj req rj) = false.
Proof. exact (@ChainProofs.chain_prefix_no_stop). Qed.
Print Assumptions chain_prefix_no_stop.

Theorem chain_result_sent :
  forall (hs : list handler4) (lif : Z) (oob : option Z) (parsed : option msg4)
  (d : dest4) (m : msg4) (log : list (nat * option msg4)),
  handle4 hs lif oob parsed = (Sent d m, log) ->
  exists req r0 : msg4,
  parsed = Some req /\
  m_op req = 1 /\
  (msg_type req = 1 \/ msg_type req = 3) /\
  start4 req = Some r0 /\ run_chain4 hs 0 req (Some r0) = (Some m, log).
Proof. exact (@Server4Proofs.reply4_only_to_requests). Qed.
Print Assumptions chain_result_sent.

Theorem load_list_ok :
  forall (H4 H6 H : Type) (reg : list (plugin H4 H6))
  (sel : plugin H4 H6 -> option (list bytes -> setup_res H))
  (conf : list (bytes * list bytes)) (hs : list H),
  load_list reg sel conf = Some hs <-> loaded reg sel conf hs.
Proof. exact (@Server4Proofs.load_list_ok). Qed.
Print Assumptions load_list_ok.

Theorem load_list_err :
  forall (H4 H6 H : Type) (reg : list (plugin H4 H6))
  (sel : plugin H4 H6 -> option (list bytes -> setup_res H))
  (conf : list (bytes * list bytes)),
  load_list reg sel conf = None <-> Exists (bad_item reg sel) conf.
Proof. exact (@Server4Proofs.load_list_err). Qed.
Print Assumptions load_list_err.

Theorem load_plugins_exact :
  forall (H4 H6 : Type) (reg : list (plugin H4 H6))
  (c6 c4 : option (list (bytes * list bytes))) (h4 : list H4) (h6 : list H6),
  load_plugins reg c6 c4 = Some (h4, h6) <->
  (c6 <> None \/ c4 <> None) /\
  match c6 with
  | Some l => loaded reg p_setup6 l h6
  | None => h6 = []
  end /\ match c4 with
  | Some l => loaded reg p_setup4 l h4
  | None => h4 = []
  end.
Proof. exact (@Server4Proofs.load_plugins_exact). Qed.
Print Assumptions load_plugins_exact.


Theorem builtin4_nil_only_with_stop :
  forall (now : Z) (i : inst4) (req resp : msg4) (i' : inst4) (stop : bool),
  inst4_call now i req (Some resp) = (i', Ok (None, stop)) -> stop = true.
Proof. exact (@NilStop.builtin4_nil_only_with_stop). Qed.
Print Assumptions builtin4_nil_only_with_stop.

Theorem builtin6_nil_only_with_stop :
  forall (dec_pds : Msg6.imsg -> list (bytes * list hint))
  (enc_iapd : bytes * list lease -> bytes) (now : Z) (i : inst6)
  (req resp : Msg6.pkt6) (i' : inst6) (stop : bool),
  inst6_call dec_pds enc_iapd now i req (Some resp) = (i', Ok (None, stop)) -> stop = true.
Proof. exact (@NilStop.builtin6_nil_only_with_stop). Qed.
Print Assumptions builtin6_nil_only_with_stop.

(* Non-vacuity (proofs/Server4Examples.v): a DISCOVER through the chain [mark; set yiaddr; stop; mark]
   on an unbound listener is answered by a link-level OFFER on the receiving interface, the fourth
   handler never runs; a relayed REQUEST turned into a NAK goes to the relay agent on port 67;
   header-preserving handlers exist; LoadPlugins skips a DHCPv6-only plugin and fails on a failing setup. *)
Example hypotheses_satisfiable :
  (exists m, handle4 ex_chain 0 (Some 5%Z) (Some ex_req) = (Sent (DL2 5%Z) m, [(0%nat, Some (upd_opt (reply_stub ex_req) 53 [2]));
      (1%nat, Some (upd_opt (upd_opt (reply_stub ex_req) 53 [2]) 225 [1]));
      (2%nat, Some (set_yiaddr (upd_opt (upd_opt (reply_stub ex_req) 53 [2]) 225 [1]) [10;0;0;9]))]) /\
    m_yiaddr m = [10;0;0;9] /\ msg_type m = 2 /\ m_xid m = 305419896 /\ opt_get 61 (m_opts m) = Some [1;2;3]) /\
  Forall hdr_preserving (map beh_fn [BMark 1; BSetYi [10;0;0;9]; BNak; BStopNil]) /\
  load_plugins reg None (Some [(n_vtest, [[109]; [51]]); (n_v6only, []); (n_dual, [])]) = Some ([BMark 3; BPass], []) /\
  load_plugins reg (Some [(n_fail, [[101]])]) (Some [(n_vtest, [[112]])]) = None.
Proof. exact (conj ex_run4 (conj ex_hdr_preserving (conj ex_load ex_load_err))). Qed.
