(* Plugins6.v — models of the stateless DHCPv6 plugins: dns, searchdomains, nbp, sleep, server_id *)
From Verif Require Import Base Net Msg6 Plugins4.
Open Scope N_scope.

(* resp.UpdateOption on a DHCPv6 value: a message's own options, a relay message's own options *)
Definition resp_update (c : N) (v : bytes) (p : pkt6) : pkt6 :=
  match p_layers p, p_inner p with
  | [], Some m => {| p_layers := []; p_inner := Some {| i_type := i_type m; i_xid := i_xid m; i_opts := o6_update c v (i_opts m) |} |}
  | l :: ls, _ => {| p_layers := {| l_type := l_type l; l_hop := l_hop l; l_link := l_link l; l_peer := l_peer l;
                                    l_opts := o6_update c v (l_opts l) |} :: ls; p_inner := p_inner p |}
  | [], None => p
  end.

(* the option request list: all ORO options merged, 16-bit codes *)
Fixpoint dec16 (l : bytes) : list N :=
  match l with
  | a :: b :: l' => (a * 256 + b) :: dec16 l'
  | _ => []
  end.
Definition oro (m : imsg) : list N := flat_map dec16 (o6_all OPT_ORO (i_opts m)).
Definition oro_has (c : N) (m : imsg) : bool := existsb (N.eqb c) (oro m).

(* OptDNS: the 16-byte forms concatenated *)
Definition enc_ips6 (ips : list bytes) : bytes :=
  flat_map (fun ip => match to16 ip with Some x => x | None => [] end) ips.

(* OptBootFileParam: 16-bit length prefixed strings *)
Definition enc_params (ps : list bytes) : bytes :=
  flat_map (fun p => be_bytes 2 (N.of_nat (length p) mod 65536) ++ p) ps.

Inductive plug6 :=
| P6Dns (ips : list bytes)
| P6Search (labels : list bytes)
| P6Nbp (opt59 : option bytes) (opt60 : option bytes)     (* payloads *)
| P6Sleep (d : Z)
| P6ServerID (duid : bytes).

Definition h6res := res (option pkt6 * bool).

Definition drop_types_with_sid : list N := [MT_SOLICIT; MT_CONFIRM; MT_REBIND].
Definition drop_types_without_sid : list N := [MT_REQUEST; MT_RENEW; MT_DECLINE; MT_RELEASE].

Definition plug6_handler (p : plug6) (req resp : pkt6) : h6res :=
  match p with
  | P6Dns ips =>
      match p_inner req with
      | None => Ok (None, true)
      | Some m => Ok (Some (if oro_has 23 m then resp_update 23 (enc_ips6 ips) resp else resp), false)
      end
  | P6Search labels => Ok (Some (resp_update 24 (enc_labels labels) resp), false)
  | P6Nbp o59 o60 =>
      match o59 with
      | None => Ok (Some resp, true)
      | Some v59 =>
          match p_inner req with
          | None => Ok (None, true)
          | Some m =>
              Ok (Some (fold_left (fun r code =>
                          if code =? 59 then resp_update 59 v59 r
                          else if code =? 60 then match o60 with Some v60 => resp_update 60 v60 r | None => r end
                          else r) (oro m) resp), true)
          end
      end
  | P6Sleep _ => Ok (Some resp, false)
  | P6ServerID own =>
      match p_inner req with
      | None => Ok (None, true)
      | Some m =>
          match o6_get OPT_SERVERID (i_opts m) with
          | Some sid =>
              if existsb (N.eqb (i_type m)) drop_types_with_sid then Ok (None, true)
              else if negb (bytes_eqb sid own) then Ok (None, true)
              else Ok (Some (resp_update OPT_SERVERID own resp), false)
          | None =>
              if existsb (N.eqb (i_type m)) drop_types_without_sid then Ok (None, true)
              else Ok (Some (resp_update OPT_SERVERID own resp), false)
          end
      end
  end.
