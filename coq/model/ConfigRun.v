(* ConfigRun.v — executable cases for the config.Load correspondence (C18) *)
From Verif Require Import Base Net IpcalcRun Setup PluginRun Config.
Open Scope N_scope.

Definition ua_eqb (a b : udpaddr) : bool :=
  bytes_eqb (ua_ip a) (ua_ip b) && (ua_port a =? ua_port b)%Z && bytes_eqb (ua_zone a) (ua_zone b).

Fixpoint list_eqb {A} (f : A -> A -> bool) (a b : list A) : bool :=
  match a, b with
  | [], [] => true
  | x :: a', y :: b' => f x y && list_eqb f a' b'
  | _, _ => false
  end.

Definition plug_eqb (a b : bytes * list bytes) : bool :=
  bytes_eqb (fst a) (fst b) && list_eqb bytes_eqb (snd a) (snd b).

Definition sect := option (list udpaddr * list (bytes * list bytes)).
Definition sect_eqb (a b : sect) : bool :=
  match a, b with
  | None, None => true
  | Some (l1, p1), Some (l2, p2) => list_eqb ua_eqb l1 l2 && list_eqb plug_eqb p1 p2
  | _, _ => false
  end.

(* observed: the two sections, or the class of the error *)
Inductive cobs := OLoaded (s6 s4 : sect) | OError (class : N).

Inductive ccase := CConf (t : tables) (ifaces : list (bytes * bool * bool)) (root : yv) (obs : cobs)
                 | CSplit (hp : bytes) (obs : option (bytes * bytes * bytes)).

Definition check_ccase (c : ccase) : bool :=
  match c with
  | CConf t ifs root obs =>
      match load_config (oracles_of t) ifs root, obs with
      | COk (s6, s4), OLoaded o6 o4 => sect_eqb s6 o6 && sect_eqb s4 o4
      | CErr e, OError e' => e =? e'
      | _, _ => false
      end
  | CSplit hp obs =>
      match split_host_port hp, obs with
      | None, None => true
      | Some (a, z, p), Some (a', z', p') => bytes_eqb a a' && bytes_eqb z z' && bytes_eqb p p'
      | _, _ => false
      end
  end.

Definition mismatches (l : list ccase) : list nat := mismatch_idx check_ccase l 0.
