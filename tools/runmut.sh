#!/bin/bash
# runmut.sh <patch.diff> <Cxx> [Cyy ...] : apply a seeded change to /repo, run the quick checks, undo.
PATCH=$1; shift
cd /verif
git -C /repo apply $(realpath $PATCH) || { echo "patch does not apply to /repo"; exit 2; }
for P in "$@"; do
  OUT=$(VERIF_NOEVIDENCE=1 timeout 3000 ./check $P --tier quick 2>&1); RC=$?
  echo "== $P rc=$RC: $(echo "$OUT" | grep -E 'VIOLATION|^OK|BUILD-ERROR|KNOWN' | head -3 | tr '\n' ' ')"
  echo "$OUT" | grep -E '^violation:|no longer checks|mismatch' | head -4
done
git -C /repo checkout -- .
# leave the generated files in the state of the clean tree
/verif/.bin/go2v -repo /repo -out /verif/coq/gen >/dev/null 2>&1
