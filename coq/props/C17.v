(* C17 — Option plugins emit the configured values, only to clients entitled to them.
   One contract per plugin: the handler result as an explicit function of the entitlement
   condition; upd_opt_exactly says what "adds exactly (code -> value), once" means; the
   decode theorems show the encodings carry the configured values. *)
From Verif Require Import Base BaseProofs Net NetProofs Msg4 Msg6 Chain ChainProofs Server4 Server4Proofs Server6 Server6Proofs Plugins4 Plugins6 Setup PluginRun PluginProofs PluginSpecs PluginExamples LabelCodec RouteCodec.
Open Scope N_scope.

Theorem upd_opt_exactly :
  forall (r : msg4) (c : N) (v : bytes),
  opt_get c (m_opts (upd_opt r c v)) = Some v /\
  count_code c (m_opts (upd_opt r c v)) = 1%nat /\
  (forall c' : N, c' <> c -> opt_get c' (m_opts (upd_opt r c v)) = opt_get c' (m_opts r)) /\
  m_op (upd_opt r c v) = m_op r /\
  m_xid (upd_opt r c v) = m_xid r /\
  m_yiaddr (upd_opt r c v) = m_yiaddr r /\
  m_siaddr (upd_opt r c v) = m_siaddr r /\
  m_giaddr (upd_opt r c v) = m_giaddr r /\
  m_ciaddr (upd_opt r c v) = m_ciaddr r /\
  m_chaddr (upd_opt r c v) = m_chaddr r /\
  m_flags (upd_opt r c v) = m_flags r /\
  m_htype (upd_opt r c v) = m_htype r /\
  m_file (upd_opt r c v) = m_file r /\ m_sname (upd_opt r c v) = m_sname r.
Proof. exact (@PluginSpecs.upd_opt_exactly). Qed.
Print Assumptions upd_opt_exactly.

Theorem dns4_adds_exactly :
  forall (req resp : msg4) (ips : list bytes),
  plug4_handler (PDns ips) req resp =
  Ok (Some (if is_requested 6 req then upd_opt resp 6 (enc_ips4 ips) else resp), false).
Proof. exact (@PluginSpecs.dns4_adds_exactly). Qed.
Print Assumptions dns4_adds_exactly.

Theorem mtu_adds_exactly :
  forall (req resp : msg4) (mtu : Z),
  plug4_handler (PMtu mtu) req resp =
  Ok (Some (if is_requested 26 req then upd_opt resp 26 (enc_u16 mtu) else resp), false).
Proof. exact (@PluginSpecs.mtu_adds_exactly). Qed.
Print Assumptions mtu_adds_exactly.

Theorem netmask_adds_exactly :
  forall (req resp : msg4) (mask : bytes),
  plug4_handler (PNetmask mask) req resp = Ok (Some (upd_opt resp 1 mask), false).
Proof. exact (@PluginSpecs.netmask_adds_exactly). Qed.
Print Assumptions netmask_adds_exactly.

Theorem router_adds_exactly :
  forall (req resp : msg4) (ips : list bytes),
  plug4_handler (PRouter ips) req resp = Ok (Some (upd_opt resp 3 (enc_ips4 ips)), false).
Proof. exact (@PluginSpecs.router_adds_exactly). Qed.
Print Assumptions router_adds_exactly.

Theorem searchdomains4_adds_exactly :
  forall (req resp : msg4) (ls : list bytes),
  plug4_handler (PSearch ls) req resp = Ok (Some (upd_opt resp 119 (enc_labels ls)), false).
Proof. exact (@PluginSpecs.searchdomains4_adds_exactly). Qed.
Print Assumptions searchdomains4_adds_exactly.

Theorem staticroute_adds_exactly :
  forall (req resp : msg4) (rs : list route) (v : bytes),
  rs <> [] ->
  enc_routes rs = Ok v ->
  plug4_handler (PStaticRoute rs) req resp = Ok (Some (upd_opt resp 121 v), false).
Proof. exact (@PluginSpecs.staticroute_adds_exactly). Qed.
Print Assumptions staticroute_adds_exactly.

Theorem leasetime_adds_exactly :
  forall (req resp : msg4) (d : Z),
  m_op req = 1 ->
  plug4_handler (PLeaseTime d) req resp =
  Ok (Some (if opt_has 51 (m_opts resp) then resp else upd_opt resp 51 (enc_dur d)), false).
Proof. exact (@PluginSpecs.leasetime_adds_exactly). Qed.
Print Assumptions leasetime_adds_exactly.

Theorem ipv6only_table :
  forall (req resp : msg4) (w : Z),
  plug4_handler (PIPv6Only w) req resp =
  (if is_listed 108 req
  then Ok (Some (upd_opt resp 108 (enc_dur w)), true)
  else Ok (Some resp, false)).
Proof. exact (@PluginSpecs.ipv6only_table). Qed.
Print Assumptions ipv6only_table.

Theorem ipv6only_needs_explicit_list :
  forall (req resp : msg4) (w : Z),
  prl req = None -> plug4_handler (PIPv6Only w) req resp = Ok (Some resp, false).
Proof. exact (@PluginSpecs.ipv6only_needs_explicit_list). Qed.
Print Assumptions ipv6only_needs_explicit_list.

Theorem autoconfigure_table :
  forall (req resp : msg4) (v : N),
  plug4_handler (PAutoconf v) req resp =
  (if negb (msg_type resp =? 2) || negb (is_unspecified (m_yiaddr resp))
  then Ok (Some resp, false)
  else
  match opt_get 116 (m_opts req) with
  | Some [_] => Ok (Some (upd_opt resp 116 [v]), false)
  | _ => Ok (None, true)
  end).
Proof. exact (@PluginSpecs.autoconfigure_table). Qed.
Print Assumptions autoconfigure_table.

Theorem nbp4_table :
  forall (req resp : msg4) (o66 : option bytes) (v67 : bytes),
  plug4_handler (PNbp o66 (Some v67)) req resp =
  Ok
  (Some
  (let r1 :=
  match o66 with
  | Some v66 => if is_requested 66 req then upd_opt resp 66 v66 else resp
  | None => resp
  end in
  if is_requested 67 req then upd_opt r1 67 v67 else r1), true).
Proof. exact (@PluginSpecs.nbp4_table). Qed.
Print Assumptions nbp4_table.

Theorem sleep4_unchanged :
  forall (req resp : msg4) (d : Z), plug4_handler (PSleep d) req resp = Ok (Some resp, false).
Proof. exact (@PluginSpecs.sleep4_unchanged). Qed.
Print Assumptions sleep4_unchanged.

Theorem is_requested_spec :
  forall (c : N) (req : msg4),
  is_requested c req = match prl req with
  | Some l => existsb (N.eqb c) l
  | None => true
  end /\
  is_listed c req = match prl req with
  | Some l => existsb (N.eqb c) l
  | None => false
  end.
Proof. exact (@PluginSpecs.is_requested_spec). Qed.
Print Assumptions is_requested_spec.

Theorem enc_u16_decodes :
  forall m : Z,
  (0 <= m < 65536)%Z -> length (enc_u16 m) = 2%nat /\ be_val (enc_u16 m) = Z.to_N m.
Proof. exact (@PluginSpecs.enc_u16_decodes). Qed.
Print Assumptions enc_u16_decodes.

Theorem enc_dur_decodes :
  forall d : Z,
  (0 <= d)%Z ->
  (d ÷ 1000000000 < 4294967296)%Z ->
  length (enc_dur d) = 4%nat /\ be_val (enc_dur d) = Z.to_N (d ÷ 1000000000).
Proof. exact (@PluginSpecs.enc_dur_decodes). Qed.
Print Assumptions enc_dur_decodes.

Theorem enc_ips4_decodes :
  forall ips : list bytes,
  Forall (fun ip : bytes => to4 ip <> None) ips ->
  length (enc_ips4 ips) = (4 * length ips)%nat /\
  (forall (i : nat) (ip : bytes),
  nth_error ips i = Some ip -> Some (firstn 4 (skipn (4 * i) (enc_ips4 ips))) = to4 ip).
Proof. exact (@PluginSpecs.enc_ips4_decodes). Qed.
Print Assumptions enc_ips4_decodes.

Theorem plug4_hdr_preserving :
  forall p : plug4, hdr_preserving (lift4 p).
Proof. exact (@PluginProofs.plug4_hdr_preserving). Qed.
Print Assumptions plug4_hdr_preserving.


Theorem searchdomains_decode :
  forall (ds : list bytes) (fuel : nat),
  Forall domain_ok ds ->
  (length (enc_labels ds) < fuel)%nat ->
  dec_names fuel (enc_labels ds) [] = Some (map (fun d : bytes => split_dot d []) ds).
Proof. exact (@LabelCodec.dec_enc_labels). Qed.
Print Assumptions searchdomains_decode.

Theorem staticroutes_decode :
  forall rs : list route,
  Forall route_ok rs ->
  exists b : bytes,
  enc_routes rs = Ok b /\
  (forall fuel : nat, (length b < fuel)%nat -> dec_routes fuel b = Some (map route_view rs)).
Proof. exact (@RouteCodec.dec_enc_routes). Qed.
Print Assumptions staticroutes_decode.

(* Non-vacuity (proofs/PluginExamples.v): accepted configurations exist *)
Example hypotheses_satisfiable :
  (setup4 (oracles_of ex_tables) NStaticRoute [[49;48;46;48;46;48;46;48;47;56;44;49;48;46;48;46;48;46;49]] =
    SetOk (PStaticRoute [{| rt_dest := [10;0;0;0]; rt_mask := [255;0;0;0]; rt_router := v4in6_prefix ++ [10;0;0;1] |}]) /\
   enc_routes [{| rt_dest := [10;0;0;0]; rt_mask := [255;0;0;0]; rt_router := v4in6_prefix ++ [10;0;0;1] |}] = Ok [8;10;10;0;0;1]) /\
  setup6 (oracles_of ex_tables) NServerID [[76;76]; [48;48;58;49;49;58;50;50;58;51;51;58;52;52;58;53;53]] =
    Some (SetOk (P6ServerID [0;3;0;1;0;17;34;51;68;85])) /\
  setup4 (oracles_of ex_tables) NServerID [[49;48;46;48;46;48;46;49]] = SetOk (PServerID [10;0;0;1]).
Proof. exact (conj ex_staticroute (conj ex_serverid6 ex_serverid4)). Qed.
