#!/usr/bin/env python3
"""tools/mkmut.py Cxx  -> creates a scratch worktree /tmp/mut-Cxx of /repo HEAD and prints the sub-agent prompt."""
import json, sys, subprocess, os
pid = sys.argv[1]
props = {json.loads(l)['id']: json.loads(l) for l in open('/verif/properties.jsonl')}
p = props[pid]
wt = '/tmp/mut-%s' % pid
if not os.path.exists(wt):
    subprocess.check_call(['git', '-C', '/repo', 'worktree', 'add', '--detach', '-q', wt, 'HEAD'])
os.makedirs(wt + '-out', exist_ok=True)
text = json.dumps({k: p[k] for k in ('title', 'statement', 'quantifier', 'why_tests_cant', 'anchors')}, indent=1)
print(f"""You are helping to evaluate a verification effort for the Go project coredhcp (a plugin-based DHCPv4/DHCPv6 server). Your job is to play the role of a developer who introduces a subtle, realistic bug.

You have your own scratch git worktree of the repository at {wt} (work ONLY there and in {wt}-out; never touch /repo, and do not read or use anything under /verif). The sandbox has no network. In every shell call first run:
  export GOFLAGS=-mod=mod GOPROXY=off GOSUMDB=off GOTOOLCHAIN=local
The existing test suite is run with:  cd {wt} && go test -vet=off -count=1 ./...

Here is a semantic property of the code base that should hold (JSON):

{text}

TASK. Produce up to 3 DIFFERENT source changes (different mechanisms / code sites, each independent of the others, each applied to the pristine worktree) to the non-test Go code of coredhcp, each of which
  (a) still compiles (go build ./... and go vet-free `go test -vet=off -count=1 ./...` both succeed, i.e. ALL existing tests still pass, unedited), also with `-tags verif` (go build -tags verif ./...),
  (b) breaks the property above (a genuine violation of its statement, not merely a refactoring), and
  (c) is SUBTLE: it must need something specific to manifest - a particular input or boundary value, a multi-step sequence of operations, a particular interleaving, a crash/restart at a particular point, an unusual configuration, or two cooperating sites that each look fine alone - not something that ordinary use would expose at once. Think of plausible developer mistakes: off-by-one at a boundary, a dropped guard, a wrong comparison operator, a misplaced unlock, a condition inverted for a rare case, state updated in the wrong order, a truncation, a table entry changed.
Do not touch files ending in _test.go, files named verif_hook.go, go.mod or go.sum. Keep each change small (a few lines).

For each change number i (1..3) write into {wt}-out/m<i>/ :
  - patch.diff : output of `git diff` in the worktree for that change alone (it must apply with `git apply` to a pristine checkout of the same commit);
  - a demonstration: either a Go test file (say demo_test.go, with a comment at the top telling in which package directory of the repository it has to be placed) or a small main program with instructions, that FAILS (non-zero exit / failing test) with the change applied and PASSES on the pristine tree. Verify both yourself.
  - meta.json : {{"property": "{pid}", "summary": "<what the change does>", "needs": "<what specific input/sequence/interleaving is needed for it to manifest>", "demo": "<exact commands to run the demonstration>", "files_changed": [...]}}
After writing each change's outputs, restore the worktree to pristine (git -C {wt} checkout -- . ; remove untracked demo files) before the next change. When done, leave the worktree pristine and reply with a short list of what you produced (one line per change). Do not commit anything.""")
