(* Alloc4Proofs.v — the IPv4 range allocator refines the index-level allocator *)
From Verif Require Import Base BaseProofs Net Bitset IdxAlloc BitsetProofs Ipcalc IpcalcRun Alloc AllocRun.
From Coq Require Import Lia ZifyN ZifyNat ZifyBool.
Open Scope N_scope.

Definition n4 (a : a4) : N := a4_end a - a4_start a + 1.

Definition ainv4 (a : a4) : Prop :=
  a4_start a <= a4_end a /\ a4_end a < W32 /\ binv (a4_bm a) (n4 a).

Definition hint_idx4 (a : a4) (hip : bytes) : N :=
  match to_offset4 a hip with Ok o => o | _ => 0 end.

Definition abs_op4 (a : a4) (o : aop) : iop :=
  match o with
  | OAlloc hip _ => IAlloc (Some (hint_idx4 a hip))
  | OFree pip _ => IFree (match to_offset4 a pip with Ok o => Some o | _ => None end)
  end.

Definition conc_out4 (a : a4) (r : iout) : aout :=
  match r with
  | IAllocOk i => RAlloc (Ok (be_bytes 4 (a4_start a + i), mask32))
  | IAllocFull => RAlloc (Err ENoAddr)
  | IFreeOk _ => RFree (Ok tt)
  | IFreeErr true => RFree (Err EDoubleFree)
  | IFreeErr false => RFree (Err ENotInRange)
  end.

Lemma u32_sub_small x y : y <= x -> x < W32 -> u32_sub x y = x - y.
Proof.
  unfold u32_sub, W32. intros H1 H2.
  rewrite (N.mod_small y) by lia.
  replace (x + 4294967296 - y) with (x - y + 1 * 4294967296) by lia.
  rewrite N.mod_add by discriminate. apply N.mod_small. lia.
Qed.

Lemma to_offset4_ok a ip o : ainv4 a -> to_offset4 a ip = Ok o ->
  o < n4 a /\ exists ip4, to4 ip = Some ip4 /\ be_u32_of ip4 = a4_start a + o.
Proof.
  intros (H1 & H2 & _) H. unfold to_offset4 in H. destruct (to4 ip) as [ip4|]; [|discriminate].
  destruct ((be_u32_of ip4 <? a4_start a) || (a4_end a <? be_u32_of ip4)) eqn:C; [discriminate|].
  injection H as <-. rewrite u32_sub_small by lia. unfold n4. split; [lia|].
  exists ip4. split; [reflexivity|lia].
Qed.

Lemma op_ok4 a o : ainv4 a -> op_ok (n4 a) (abs_op4 a o).
Proof.
  intros Ha. destruct o as [hip hm|pip pm]; cbn.
  - unfold hint_idx4. destruct (to_offset4 a hip) eqn:E.
    + apply (to_offset4_ok a hip _ Ha E).
    + destruct Ha as (H1 & _). unfold n4. lia.
    + destruct Ha as (H1 & _). unfold n4. lia.
  - destruct (to_offset4 a pip) eqn:E; cbn; auto. apply (to_offset4_ok a pip _ Ha E).
Qed.

Lemma with_bm4_id a : with_bm4 a (a4_bm a) = a.
Proof. destruct a; reflexivity. Qed.

(* one concrete step = the index-level step between two pure translations *)
Lemma step4_refines a o : ainv4 a ->
  step4 a o = (with_bm4 a (fst (istep (a4_bm a) (abs_op4 a o))),
               conc_out4 a (snd (istep (a4_bm a) (abs_op4 a o)))).
Proof.
  intros Ha. pose proof (op_ok4 a o Ha) as Hok.
  destruct Ha as (H1 & H2 & Hb).
  destruct (istep (a4_bm a) (abs_op4 a o)) as [b' r] eqn:E.
  pose proof (istep_spec _ _ _ _ _ Hb Hok E) as (_ & Hr & _).
  destruct o as [hip hm|pip pm]; cbn [step4 abs_op4] in *.
  - unfold allocate4. fold (hint_idx4 a hip).
    cbn [istep] in E. unfold ipick in E.
    destruct (if negb (bs_test (a4_bm a) (hint_idx4 a hip)) then Some (hint_idx4 a hip)
              else bs_next_clear (a4_bm a)) as [next|]; injection E as <- <-; cbn [fst snd conc_out4].
    + destruct Hr as (Hlt & _). unfold to_ip4, n4 in *.
      rewrite (N.mod_small next) by lia.
      rewrite u32_sub_small by lia.
      replace (a4_end a - a4_start a <? next) with false by lia.
      unfold u32_add. rewrite N.mod_small by lia. reflexivity.
    + rewrite with_bm4_id. reflexivity.
  - unfold free4. destruct (to_offset4 a pip) as [off| |]; cbn [istep] in E.
    + destruct (negb (bs_test (a4_bm a) off)); injection E as <- <-; cbn [fst snd conc_out4];
        rewrite ?with_bm4_id; reflexivity.
    + injection E as <- <-. cbn [fst snd conc_out4]. rewrite with_bm4_id. reflexivity.
    + injection E as <- <-. cbn [fst snd conc_out4]. rewrite with_bm4_id. reflexivity.
Qed.

Lemma step4_inv a o : ainv4 a -> ainv4 (fst (step4 a o)).
Proof.
  intros Ha. rewrite (step4_refines a o Ha). cbn [fst].
  pose proof (op_ok4 a o Ha) as Hok. destruct Ha as (H1 & H2 & Hb).
  split; [exact H1|]. split; [exact H2|]. cbn [a4_bm with_bm4].
  change (n4 (with_bm4 a (fst (istep (a4_bm a) (abs_op4 a o))))) with (n4 a).
  apply istep_inv; assumption.
Qed.

(* static fields never change, so abs_op4 / conc_out4 are the same along a run *)
Lemma abs_op4_with_bm a b o : abs_op4 (with_bm4 a b) o = abs_op4 a o.
Proof. destruct o; reflexivity. Qed.
Lemma conc_out4_with_bm a b r : conc_out4 (with_bm4 a b) r = conc_out4 a r.
Proof. destruct r; reflexivity. Qed.

(* no operation of a valid allocator panics, so `run` never stops early *)
Lemma conc_out4_no_panic a r : conc_out4 a r <> RAlloc Panic /\ conc_out4 a r <> RFree Panic.
Proof. destruct r as [| | |[|]]; cbn; split; discriminate. Qed.

Lemma run4_refines a ops : ainv4 a ->
  run step4 a ops = map (conc_out4 a) (irun (a4_bm a) (map (abs_op4 a) ops)).
Proof.
  revert a. induction ops as [|o ops IH]; intros a Ha; [reflexivity|].
  cbn [run map irun]. rewrite (step4_refines a o Ha).
  destruct (istep (a4_bm a) (abs_op4 a o)) as [b' r] eqn:E. cbn [fst snd map].
  assert (Ha' : ainv4 (with_bm4 a b')).
  { pose proof (step4_inv a o Ha) as I. rewrite (step4_refines a o Ha), E in I. exact I. }
  specialize (IH (with_bm4 a b') Ha'). cbn [a4_bm with_bm4] in IH.
  assert (Em : map (abs_op4 (with_bm4 a b')) ops = map (abs_op4 a) ops).
  { apply map_ext. intros; apply abs_op4_with_bm. }
  assert (Ec : map (conc_out4 (with_bm4 a b')) (irun b' (map (abs_op4 a) ops)) =
               map (conc_out4 a) (irun b' (map (abs_op4 a) ops))).
  { apply map_ext. intros; apply conc_out4_with_bm. }
  rewrite Em, Ec in IH. rewrite IH.
  destruct (conc_out4_no_panic a r) as [N1 N2].
  destruct (conc_out4 a r) as [[?|?|]|[?|?|]]; try reflexivity; congruence.
Qed.

(* the constructor establishes the invariant *)
Lemma to4_length ip ip4 : to4 ip = Some ip4 -> length ip4 = 4%nat.
Proof.
  unfold to4, lenb. destruct (Nat.eqb (length ip) 4) eqn:E4.
  - intros H; injection H as H; subst ip4. apply Nat.eqb_eq in E4. exact E4.
  - destruct (Nat.eqb (length ip) 16) eqn:E16; cbn [andb]; [|discriminate].
    destruct (bytes_eqb (firstn 12 ip) v4in6_prefix); [|discriminate].
    intros H. assert (E : ip4 = skipn 12 ip) by congruence. subst ip4.
    rewrite skipn_length. apply Nat.eqb_eq in E16. lia.
Qed.

Lemma to4_wf ip ip4 : wf_bytes ip -> to4 ip = Some ip4 -> wf_bytes ip4.
Proof.
  unfold to4. intros W. destruct (lenb ip 4); [intros H; injection H as H; subst ip4; exact W|].
  destruct (lenb ip 16 && bytes_eqb (firstn 12 ip) v4in6_prefix); [|discriminate].
  intros H. assert (E : ip4 = skipn 12 ip) by congruence. subst ip4. apply wf_bytes_skipn. exact W.
Qed.

Lemma be_u32_bound ip4 : wf_bytes ip4 -> length ip4 = 4%nat -> be_u32_of ip4 < W32.
Proof.
  intros W L. unfold be_u32_of. rewrite firstn_all2 by lia.
  pose proof (be_val_bound ip4 W) as B. rewrite L in B. exact B.
Qed.

Lemma new4_inv s e a : wf_bytes s -> wf_bytes e -> new4 s e = Ok a -> ainv4 a.
Proof.
  intros Ws We H. unfold new4 in H.
  destruct (to4 s) as [s4|] eqn:Es; [|discriminate]. destruct (to4 e) as [e4|] eqn:Ee; [|discriminate].
  destruct (be_u32_of e4 <? be_u32_of s4) eqn:C; [discriminate|]. injection H as <-.
  pose proof (be_u32_bound e4 (to4_wf e e4 We Ee) (to4_length e e4 Ee)) as Be.
  apply N.ltb_ge in C.
  unfold ainv4, n4. cbn [a4_start a4_end a4_bm]. split; [exact C|]. split; [exact Be|].
  rewrite u32_sub_small by assumption. apply binv_new.
Qed.
