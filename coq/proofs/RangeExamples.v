(* RangeExamples.v — concrete histories showing the hypotheses of C02/C03 are satisfiable *)
From Verif Require Import Base BaseProofs Net Bitset Alloc Msg4 RangePlugin RangeRun RangeProofs RangeTheorems.
From Coq Require Import Permutation.
Open Scope N_scope.

Definition ex_s : bytes := [10;0;0;1].
Definition ex_e : bytes := [10;0;0;2].
Definition ex_lease : Z := 3600000000000%Z.
Definition ex_st0 : rstate :=
  match range_setup ex_s ex_e ex_lease [] with Ok st => st | _ =>
    {| rs_alloc := {| a4_start := 0; a4_end := 0; a4_bm := bs_new 0 |}; rs_lease := 0; rs_recs := []; rs_db := [] |} end.
(* three clients (a 5-byte and a 1-byte decimal-looking hardware address among them) on a
   2-address range, with a restart in the middle: the third client is dropped *)
Definition ex_hops : list hop :=
  [HReq 1000%Z [1;2;3;4;5] [104]; HReq 2000%Z [7] []; HRestart (fun l => rev l);
   HReq 3000%Z [1;2;3;4;5] []; HReq 4000%Z [9;9;9;9;9;9] []; HReq 5000%Z [7] [49;50;51]].

Lemma ex_setup : range_setup ex_s ex_e ex_lease [] = Ok ex_st0.
Proof. vm_compute. reflexivity. Qed.

Lemma ex_wf : wf_bytes ex_s /\ wf_bytes ex_e /\ Forall wf_hop ex_hops.
Proof.
  split; [repeat constructor|]. split; [repeat constructor|].
  repeat constructor. intros l. apply Permutation_rev.
Qed.

Lemma ex_run : snd (hrun ex_s ex_e ex_st0 ex_hops) =
  [HReply [10;0;0;1] (Some [0;0;14;16]); HReply [10;0;0;2] (Some [0;0;14;16]); HRestarted;
   HReply [10;0;0;1] (Some [0;0;14;16]); HDrop; HReply [10;0;0;2] (Some [0;0;14;16])].
Proof. vm_compute. reflexivity. Qed.
