# Per-property configuration of ./check.  props = the file holding only the property
# theorems; run_models = executable model files the correspondence check evaluates.
TRUSTED_COMMON = [
    'Coq 8.16.1 kernel (coqc); vm_compute for finite-domain proofs, witnesses and the correspondence evaluation; native_compute not used',
    'no axioms: every property theorem prints "Closed under the global context" (checked on every run)',
    'correspondence check: Go generators, printing of observed values as Gallina terms, canonicalisation (harness/cmd/implrun)',
    'go2v translator/extractors (harness/cmd/go2v) and the hand-written Gallina meanings of Go library calls in coq/lib/Base.v',
]

PROPS = {
    'C20': {
        'props': 'props/C20.v',
        'run_models': ['model/IpcalcRun.v'],
        'trusted': ['modelled not verified: bytes.Compare, binary.BigEndian.Uint64/PutUint64, bits.Sub64/Add64/Mul64 (lib/Base.v), slice capacity = length'],
        'assumes': ['addresses are 16-byte slices whose capacity equals their length'],
        'level_text': 'Theorems offset_exact, addprefixes_exact, offset_addprefixes_inverse (coq/props/C20.v) are proved for all 128-bit operands, all p in 0..128 and all n < 2^64 about IpcalcGen.Offset/AddPrefixes, the Gallina definitions go2v regenerates from plugins/allocators/ipcalc.go on every run (bridge lemmas to the hand model re-checked each run); additionally the implementation and the model are run on the same structured cases and a math/big monitor restates the property on the implementation.',
        'level_note': 'Trusted: Coq kernel; the go2v translator and its Gallina meanings of bytes.Compare, BigEndian.Uint64/PutUint64, bits.Sub64/Add64/Mul64, Go shift semantics (lib/Base.v), all differentially tested against the real functions by the correspondence stage; slices are assumed to have capacity = length. No axioms.',
        'technique': 'Coq proof over a model regenerated from the Go source by a translator (go2v) + differential correspondence + math/big monitor',
    },
}

ALLOC_TRUSTED = ['modelled not verified: bits-and-blooms/bitset New/Test/Set/Clear/NextClear (lib/Bitset.v); net.IP.To4/To16/Mask, IPMask.Size, CIDRMask, IPNet.Contains (lib/Net.v, byte-wise as in the Go source; the numeric meaning of Contains for CIDR masks is proved in proofs/NetProofs.v); sync.Mutex',
                 'scope of the IPv6 theorems: pools as net.ParseCIDR yields them (native IPv6 16-byte base aligned to its mask, page-pool < 64); v4-mapped pools, pools handed an IPv4 CIDR and constructor rejections are covered by the correspondence check only']
ALLOC_ASSUME = ['hint and freed prefix bytes are < 256 (Go byte); IPv6 theorems assume a valid6 pool; v4-mapped addresses are never inside a native IPv6 pool for net.IPNet.Contains (documented in DESIGN.md C07)']

def _alloc(pid, text, thms):
    return {
        'props': 'props/%s.v' % pid,
        'run_models': ['model/AllocRun.v'],
        'trusted': ALLOC_TRUSTED, 'assumes': ALLOC_ASSUME,
        'level_text': text + ' Theorems (coq/props/%s.v): %s; proved for every pool geometry and every history (induction over the op list, refinement of both Go allocators to one index-level allocator over a bitset with a NoDup/in-range invariant). The models of bitmap.go / bitmap_ipv4.go are run against the real allocators on generated histories (hints free/taken/outside/malformed; frees outstanding/sub-prefix/unallocated/below/above/malformed), and independent monitors restate the property on the implementation.' % (pid, thms),
        'level_note': 'Trusted: Coq kernel; the hand-written Gallina model of the two allocators, of the bitset library subset and of the net helpers, tied to the code by the differential correspondence on every run (not by translation); generator quality bounds that tie. All schedules: each Allocate/Free is one critical section under the allocator mutex (lock discipline re-extracted from the source, C16). No axioms.',
        'technique': 'Coq proof (invariant + refinement to an abstract index allocator, induction over histories) + differential correspondence of the executable model against the Go allocators + monitors',
    }

PROPS['C04'] = _alloc('C04', 'No block is issued twice without a successful Free of it in between; outstanding blocks are pairwise disjoint.', 'alloc4_no_double_issue, alloc6_no_double_issue, outstanding6_disjoint, blocks_disjoint, irun_no_double_issue')
PROPS['C05'] = _alloc('C05', 'Every allocation is a block of the pool of the right length; Allocate fails (no address available, state unchanged) iff all N blocks are outstanding; no other error or panic.', 'alloc4_in_range, alloc4_fails_iff_full, alloc6_shape, alloc6_fails_iff_full, new6_valid, new4_inv')
PROPS['C06'] = _alloc('C06', 'Free succeeds iff the prefix names an outstanding block, then releases exactly it; otherwise error and no effect, for prefixes at any distance below/above the pool.', 'free4_ok_iff, to_offset4_iff, free6_ok_iff, free_idx6_outside, free_idx6_inside')
PROPS['C07'] = _alloc('C07', 'A hint naming a free block is honoured exactly (4- and 16-byte IPv4 forms, any IPv6 address inside the block).', 'hint4_honoured, hint6_honoured, hint_idx6_inside, hint4_names')
