(* ConcFile.v — C10 under every schedule: requests handled while the lease file is being refreshed
   (handlers and reloads are one critical section each on the table) are each answered from the
   table as it stands after some of the reloads - the last content that loaded at that point of a
   serial order, never a mixture. *)
From Coq Require Import List Arith Lia Permutation.
From Verif Require Import Base Msg4 Msg6 Setup FilePlugin FileRun FileProofs Conc ConcProofs.
Import ListNotations.
Local Open Scope nat_scope.

Section Nth.
Variables (St A R : Type) (f : St -> A -> St * R).
Lemma srun_nth : forall l s k a, nth_error l k = Some a ->
  nth_error (snd (srun St A R f s l)) k = Some (snd (f (fst (srun St A R f s (firstn k l))) a)).
Proof.
  induction l as [|x l IH]; intros s k a H; [destruct k; discriminate|].
  destruct k as [|k]; cbn [nth_error] in H.
  - injection H as ->. cbn [srun firstn fst]. destruct (f s a) as [s1 r]. destruct (srun St A R f s1 l). reflexivity.
  - cbn [srun firstn]. destruct (f s x) as [s1 r]. specialize (IH s1 k a H).
    destruct (srun St A R f s1 l) as [s2 rs]. destruct (srun St A R f s1 (firstn k l)) as [s3 rs3].
    cbn [snd fst nth_error] in *. exact IH.
Qed.
End Nth.

Lemma ffinal_srun O t ops : ffinal O t ops = fst (srun _ _ _ (fstep O) t ops).
Proof.
  revert t; induction ops as [|o ops IH]; intro t; cbn [ffinal srun]; [reflexivity|].
  destruct (fstep O t o) as [t1 r]. cbn [fst]. rewrite IH. destruct (srun _ _ _ (fstep O) t1 ops). reflexivity.
Qed.

Section ConcFile.
Variables (O : oracles) (v6 : bool) (t0 : ftable).
Variable ops : list fop.             (* in flight: requests and refresh events of one instance *)
Hypothesis Hproto : Forall (same_proto v6) ops.

Let cops := map (aop _ _ _ (fstep O)) ops.

Theorem file_concurrent sched :
  all_done _ _ _ cops (run _ _ _ cops t0 sched) ->
  exists sigma, Permutation sigma (seq 0 (length ops)) /\
    let hist := pick _ ops sigma in
    let c := run _ _ _ cops t0 sched in
    (* the table afterwards is the last content that loaded, in the serial order *)
    sh _ _ _ c = last_good O v6 t0 hist /\
    (* every operation saw the table left by the operations ordered before it *)
    forall t r, nth_error (thr _ _ _ c) t = Some (Done _ _ _ r) ->
      exists k o, nth_error sigma k = Some t /\ nth_error ops t = Some o /\
        r = Some (snd (fstep O (last_good O v6 t0 (firstn k hist)) o)).
Proof.
  intros Hd. destruct (atomic_serialisable _ _ _ (fstep O) ops t0 sched Hd) as (sigma & Hp & Hs & _ & Hr).
  exists sigma. split; [exact Hp|]. cbn zeta. unfold cops.
  assert (Hf : Forall (fun t => t < length ops) sigma).
  { apply Forall_forall. intros t Ht. apply (Permutation_in _ Hp) in Ht. apply in_seq in Ht. lia. }
  assert (Hw : forall k, Forall (same_proto v6) (firstn k (pick _ ops sigma))).
  { intros k. apply Forall_forall. intros o Ho. apply (In_nth_error) in Ho. destruct Ho as (j & Hj).
    assert (In o (pick _ ops sigma)).
    { apply nth_error_In with (n := j). rewrite <- Hj. symmetry.
      destruct (Nat.lt_ge_cases j k) as [L|G].
      - revert Hj. generalize (pick _ ops sigma). intros l. revert j k L. induction l as [|x l IHl]; intros j k L Hj.
        + rewrite firstn_nil in Hj. destruct j; discriminate.
        + destruct k; [lia|]. destruct j; [reflexivity|]. cbn [firstn nth_error] in *. apply (IHl j k); [lia|exact Hj].
      - exfalso. assert (length (firstn k (pick _ ops sigma)) <= k) by apply firstn_le_length.
        assert (nth_error (firstn k (pick _ ops sigma)) j = None) by (apply nth_error_None; lia). congruence. }
    unfold pick in H. apply in_flat_map in H. destruct H as (t & _ & Ho).
    destruct (nth_error ops t) as [a|] eqn:Ea; [|destruct Ho]. destruct Ho as [<-|[]].
    rewrite Forall_forall in Hproto. apply Hproto. eapply nth_error_In; exact Ea. }
  split.
  - rewrite Hs, <- ffinal_srun. apply file_single_instance.
    rewrite <- (firstn_all (pick _ ops sigma)). apply Hw.
  - intros t r Ht. destruct (Hr t r Ht) as (k & H1 & H2 & H3 & H4).
    destruct (nth_error ops t) as [o|] eqn:Eo.
    + exists k, o. split; [exact H1|]. split; [reflexivity|].
      rewrite H3. rewrite (srun_nth _ _ _ (fstep O) _ t0 k o H2).
      rewrite <- ffinal_srun. rewrite (file_single_instance O v6 _ t0 (Hw k)). reflexivity.
    + exfalso. apply nth_error_None in Eo. rewrite Forall_forall in Hf.
      specialize (Hf t (nth_error_In _ _ H1)). lia.
Qed.
End ConcFile.
