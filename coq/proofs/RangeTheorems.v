(* RangeTheorems.v — C02 and C03 over every history of requests and restarts *)
From Verif Require Import Base BaseProofs Net NetProofs Bitset IdxAlloc BitsetProofs Ipcalc IpcalcRun Alloc AllocRun Alloc4Proofs Msg4 RangePlugin RangeRun RangeProofs.
From Coq Require Import Lia ZifyN ZifyNat ZifyBool Permutation.
Open Scope N_scope.

(* ---------- histories ---------- *)
Inductive hop :=
| HReq (now : Z) (c host : bytes)                                   (* DISCOVER or REQUEST from chaddr c *)
| HRestart (ord : list (bytes * rec) -> list (bytes * rec)).        (* restart on the database as written so far *)

Inductive hout :=
| HReply (y : bytes) (o51 : option bytes)
| HDrop
| HRestarted
| HFail.                                                            (* panic, or start-up error *)

Definition wf_hop (o : hop) : Prop :=
  match o with
  | HReq _ c _ => wf_bytes c
  | HRestart ord => forall l, Permutation l (ord l)
  end.

Definition hstep (s e : bytes) (st : rstate) (o : hop) : rstate * hout :=
  match o with
  | HReq now c host =>
      match range_handler st now (req_of c host) empty_msg with
      | (st', Ok (Some m, _)) => (st', HReply (m_yiaddr m) (opt_get 51 (m_opts m)))
      | (st', Ok (None, _)) => (st', HDrop)
      | (st', _) => (st', HFail)
      end
  | HRestart ord =>
      match range_setup_ord ord s e (rs_lease st) (rs_db st) with
      | Ok st' => (st', HRestarted)
      | _ => (st, HFail)
      end
  end.

Fixpoint hrun (s e : bytes) (st : rstate) (ops : list hop) : rstate * list hout :=
  match ops with
  | [] => (st, [])
  | o :: ops' => let '(st1, r) := hstep s e st o in
                 let '(st2, rs) := hrun s e st1 ops' in (st2, r :: rs)
  end.

Lemma hrun_app s e st ops1 ops2 :
  hrun s e st (ops1 ++ ops2) =
  let '(st1, r1) := hrun s e st ops1 in let '(st2, r2) := hrun s e st1 ops2 in (st2, r1 ++ r2).
Proof.
  revert st. induction ops1 as [|o ops1 IH]; intros st; cbn [app hrun].
  - destruct (hrun s e st ops2); reflexivity.
  - destruct (hstep s e st o) as [st1 r]. rewrite IH. destruct (hrun s e st1 ops1) as [st2 r1].
    destruct (hrun s e st2 ops2); reflexivity.
Qed.

Lemma hrun_length s e st ops : length (snd (hrun s e st ops)) = length ops.
Proof.
  revert st. induction ops as [|o ops IH]; intros st; cbn [hrun]; [reflexivity|].
  destruct (hstep s e st o) as [st1 r]. specialize (IH st1). destruct (hrun s e st1 ops). cbn [snd length] in *. congruence.
Qed.

(* the (client, address) pairs of the replies of a history *)
Fixpoint replies (ops : list hop) (outs : list hout) : list (bytes * bytes) :=
  match ops, outs with
  | HReq _ c _ :: ops', HReply y _ :: outs' => (c, y) :: replies ops' outs'
  | _ :: ops', _ :: outs' => replies ops' outs'
  | _, _ => []
  end.

(* ---------- what holds of every reachable state ---------- *)
Definition good (s e : bytes) (lease : Z) (st : rstate) : Prop :=
  rinv st /\ cfg_ok s e st /\ rs_lease st = lease.

Lemma binv_count_le b n : binv b n -> N.of_nat (length (bits b)) <= n.
Proof.
  intros (_ & Nd & Hb).
  assert (H : (length (bits b) <= length (nrange (N.to_nat n)))%nat).
  { apply NoDup_incl_length; [exact Nd|]. intros i Hi. apply nrange_In. apply Hb in Hi. lia. }
  assert (L : forall m, length (nrange m) = m).
  { induction m as [|m IHm]; [reflexivity|]. cbn [nrange]. rewrite app_length, IHm. cbn [length]. lia. }
  rewrite L in H. lia.
Qed.

Lemma bindings_fst st : map fst (bindings st) = map fst (rs_recs st).
Proof. unfold bindings. rewrite map_map. reflexivity. Qed.

Lemma NoDup_map_in {A B} (f : A -> B) (l : list A) :
  (forall x y, In x l -> In y l -> f x = f y -> x = y) -> NoDup l -> NoDup (map f l).
Proof.
  induction l as [|a l IH]; intros Hinj Nd; cbn [map]; [constructor|].
  inversion Nd as [|? ? Hn Nd']; subst. constructor.
  - intros Hc. apply in_map_iff in Hc. destruct Hc as (x & Ex & Hx).
    assert (x = a) by (apply Hinj; [right; exact Hx|left; reflexivity|exact Ex]). subst x. contradiction.
  - apply IH; [|exact Nd']. intros x y Hx Hy. apply Hinj; right; assumption.
Qed.

Lemma bindings_snd_NoDup st : rinv st -> NoDup (map snd (bindings st)).
Proof.
  intros [Ha _ _ _ _ (idxs & E & Nd & Hi)]. unfold bindings. rewrite map_map. cbn [snd]. rewrite E.
  apply NoDup_map_in; [|exact Nd].
  intros x y Hx Hy H. apply Hi in Hx, Hy. destruct Ha as (H1 & H2 & _ & _ & Hb). apply Hb in Hx, Hy.
  unfold n4 in *. assert (a4_start (rs_alloc st) + x = a4_start (rs_alloc st) + y) by (apply be_bytes4_inj_local; try lia; exact H).
  lia.
Qed.

Lemma In_fst_unique {A B} (l : list (A * B)) k v1 v2 : NoDup (map fst l) -> In (k, v1) l -> In (k, v2) l -> v1 = v2.
Proof.
  induction l as [|[k' v'] l IH]; intros Nd H1 H2; [destruct H1|].
  cbn [map fst] in Nd. inversion Nd as [|? ? Hn Nd']; subst.
  destruct H1 as [H1|H1], H2 as [H2|H2].
  - congruence.
  - exfalso. apply Hn. injection H1 as -> _. apply in_map_iff. exists (k, v2). split; [reflexivity|exact H2].
  - exfalso. apply Hn. injection H2 as -> _. apply in_map_iff. exists (k, v1). split; [reflexivity|exact H1].
  - exact (IH Nd' H1 H2).
Qed.

Lemma In_snd_unique {A B} (l : list (A * B)) k1 k2 v : NoDup (map snd l) -> In (k1, v) l -> In (k2, v) l -> k1 = k2.
Proof.
  induction l as [|[k' v'] l IH]; intros Nd H1 H2; [destruct H1|].
  cbn [map snd] in Nd. inversion Nd as [|? ? Hn Nd']; subst.
  destruct H1 as [H1|H1], H2 as [H2|H2].
  - congruence.
  - exfalso. apply Hn. injection H1 as _ ->. apply in_map_iff. exists (k2, v). split; [reflexivity|exact H2].
  - exfalso. apply Hn. injection H2 as _ ->. apply in_map_iff. exists (k1, v). split; [reflexivity|exact H1].
  - exact (IH Nd' H1 H2).
Qed.

(* one step of a history *)
Lemma hstep_good s e lease st o : good s e lease st -> wf_hop o ->
  let '(st', r) := hstep s e st o in
  good s e lease st' /\ r <> HFail /\
  (forall p, In p (bindings st) -> In p (bindings st')) /\
  match o, r with
  | HReq now c host, HReply y o51 =>
      In (mac_string c, y) (bindings st') /\ o51 = Some (lease_opt lease) /\
      (exists r', recs_get (mac_string c) (rs_recs st') = Some r' /\ (now + lease - NS < rc_exp r' * NS)%Z) /\
      (recs_get (mac_string c) (rs_recs st) = None -> N.of_nat (length (rs_recs st)) < n4 (rs_alloc st))
  | HReq now c host, HDrop =>
      st' = st /\ ~ In (mac_string c) (map fst (bindings st)) /\ N.of_nat (length (rs_recs st)) = n4 (rs_alloc st)
  | HRestart _, HRestarted => bindings st' = bindings st /\ rs_db st' = rs_db st
  | _, _ => False
  end.
Proof.
  intros (I & C & L) W. destruct o as [now c host|ord]; cbn [hstep wf_hop] in *.
  - pose proof (handler_step st now c host empty_msg I W) as H. cbv zeta in H.
    destruct (range_handler st now (req_of c host) empty_msg) as [st' [[[m|] stop]|er|]]; try contradiction.
    + destruct H as (_ & I' & (S1 & S2 & S3) & Hb & H51 & Hcase & Hexp).
      split; [|split; [discriminate|split]].
      * split; [exact I'|]. split; [|congruence].
        destruct C as (s4 & e4 & a0 & Q1 & Q2 & Q3 & Q4 & Q5 & Q6 & Q7 & Q8). exists s4, e4, a0.
        split; [exact Q1|]. split; [exact Q2|]. split; [exact Q3|]. split; [exact Q4|]. split; [exact Q5|].
        split; [exact Q6|]. split; congruence.
      * intros p Hp. destruct Hcase as [(_ & ->)|(_ & -> & _)]; [exact Hp|apply in_or_app; left; exact Hp].
      * split; [exact Hb|]. split; [rewrite H51, L; reflexivity|]. split.
        -- destruct Hexp as (r' & G & E). exists r'. split; [exact G|]. rewrite <- L. exact E.
        -- intros G0. destruct Hcase as [(G1 & _)|(_ & Eb & _)]; [contradiction|].
           pose proof (rinv_count st' I') as Cn. pose proof (rinv_count st I) as Cn0.
           destruct I' as [Ha' _ _ _ _ _]. destruct Ha' as (_ & _ & Hbv).
           pose proof (binv_count_le _ _ Hbv) as Le. unfold n4 in *. rewrite S2, S3 in Le.
           assert (length (rs_recs st') = S (length (rs_recs st))).
           { rewrite <- (map_length (fun kr => (fst kr, ip4_of (snd kr))) (rs_recs st')).
             change (map (fun kr => (fst kr, ip4_of (snd kr))) (rs_recs st')) with (bindings st'). rewrite Eb.
             rewrite app_length. unfold bindings. rewrite map_length. cbn [length]. lia. }
           lia.
    + destruct H as (_ & -> & G & Hfull). split; [split; [exact I|split; [exact C|exact L]]|].
      split; [discriminate|]. split; [auto|]. split; [reflexivity|]. split; [|exact Hfull].
      rewrite bindings_fst. apply recs_get_none. exact G.
  - destruct (restart_ok ord s e (rs_lease st) st W I C) as (st' & R & I' & C' & L' & Hdb & _ & Hb).
    rewrite R. split; [split; [exact I'|split; [exact C'|congruence]]|].
    split; [discriminate|]. split; [rewrite Hb; auto|]. split; [exact Hb|exact Hdb].
Qed.

(* every reply of a history is a binding of the final state, and no step fails *)
Lemma hrun_good s e lease : forall ops st, good s e lease st -> Forall wf_hop ops ->
  let '(st', outs) := hrun s e st ops in
  good s e lease st' /\ ~ In HFail outs /\
  (forall p, In p (bindings st) -> In p (bindings st')) /\
  (forall c y, In (c, y) (replies ops outs) -> In (mac_string c, y) (bindings st')) /\
  Forall (fun r => match r with HReply _ o51 => o51 = Some (lease_opt lease) | _ => True end) outs.
Proof.
  induction ops as [|o ops IH]; intros st G W; cbn [hrun].
  - split; [exact G|]. split; [intros []|]. split; [auto|]. split; [intros c y []|constructor].
  - pose proof (hstep_good s e lease st o G (Forall_inv W)) as H.
    destruct (hstep s e st o) as [st1 r]. destruct H as (G1 & Hnf & Hmono & Hcase).
    specialize (IH st1 G1 (Forall_inv_tail W)). destruct (hrun s e st1 ops) as [st2 rs].
    destruct IH as (G2 & Hnf2 & Hmono2 & Hrep & H51).
    split; [exact G2|]. split; [intros [Hc|Hc]; [congruence|contradiction]|].
    split; [intros p Hp; apply Hmono2, Hmono, Hp|]. split.
    + intros c y Hin. destruct o as [now c0 host|ord]; destruct r as [y0 o51| | |]; cbn [replies] in Hin;
        try (apply Hrep; exact Hin); try contradiction.
      destruct Hin as [Hin|Hin]; [|apply Hrep; exact Hin]. injection Hin as <- <-.
      apply Hmono2. exact (proj1 Hcase).
    + constructor; [|exact H51]. destruct o as [now c0 host|ord]; destruct r as [y0 o51| | |]; try exact I; try contradiction.
      exact (proj1 (proj2 Hcase)).
Qed.

(* ---------- start-up on an empty database ---------- *)
Lemma setup_good s e lease st0 : wf_bytes s -> wf_bytes e ->
  range_setup s e lease [] = Ok st0 -> good s e lease st0 /\ bindings st0 = [].
Proof.
  intros Ws We H. unfold range_setup, range_setup_ord in H.
  destruct (to4 s) as [s4|] eqn:Es; [|discriminate]. destruct (to4 e) as [e4|] eqn:Ee; [|discriminate].
  destruct (be_u32_of e4 <=? be_u32_of s4) eqn:Hlt; [discriminate|].
  destruct (new4 s e) as [a0|er|] eqn:Hnew; try discriminate.
  cbn [load_records remark] in H. injection H as <-.
  pose proof (new4_inv s e a0 Ws We Hnew) as Ha0.
  assert (Hb0 : bits (a4_bm a0) = []).
  { unfold new4 in Hnew. rewrite Es, Ee in Hnew. destruct (be_u32_of e4 <? be_u32_of s4); [discriminate|].
    injection Hnew as <-. reflexivity. }
  split; [|reflexivity]. split; [|split; [|reflexivity]].
  - constructor; cbn [rs_alloc rs_recs rs_db map].
    + exact Ha0.
    + constructor.
    + constructor.
    + reflexivity.
    + constructor.
    + exists []. cbn [map]. split; [reflexivity|]. split; [constructor|]. intros i. rewrite Hb0. tauto.
  - exists s4, e4, a0. cbn [rs_alloc].
    split; [exact Es|]. split; [exact Ee|]. split; [exact Hlt|]. split; [exact Hnew|]. split; [exact Ha0|].
    split; [exact Hb0|]. split; reflexivity.
Qed.

(* ====================== C02 ====================== *)
Section C02.
Variables (s e : bytes) (lease : Z) (st0 : rstate).
Hypothesis Ws : wf_bytes s.
Hypothesis We : wf_bytes e.
Hypothesis Hsetup : range_setup s e lease [] = Ok st0.
Variable ops : list hop.
Hypothesis Wops : Forall wf_hop ops.

Let stN := fst (hrun s e st0 ops).
Let outs := snd (hrun s e st0 ops).

Lemma c02_facts :
  good s e lease stN /\ ~ In HFail outs /\
  (forall c y, In (c, y) (replies ops outs) -> In (mac_string c, y) (bindings stN)) /\
  Forall (fun r => match r with HReply _ o51 => o51 = Some (lease_opt lease) | _ => True end) outs.
Proof.
  destruct (setup_good s e lease st0 Ws We Hsetup) as (G0 & _).
  pose proof (hrun_good s e lease ops st0 G0 Wops) as H. unfold stN, outs.
  destruct (hrun s e st0 ops) as [st' o']. cbn [fst snd]. destruct H as (G & Hnf & _ & Hr & H51).
  split; [exact G|]. split; [exact Hnf|]. split; [exact Hr|exact H51].
Qed.

(* no request panics and no restart fails, in any history *)
Theorem range_never_fails : ~ In HFail outs.
Proof. exact (proj1 (proj2 c02_facts)). Qed.

(* every address offered or acknowledged lies in the configured range *)
Theorem range_in_range c y : In (c, y) (replies ops outs) ->
  length y = 4%nat /\ be_val (to4_or_nil s) <= be_val y <= be_val (to4_or_nil e).
Proof.
  intros H. destruct c02_facts as ((I & C & _) & _ & Hr & _). apply Hr in H.
  destruct (bindings_in_range stN _ _ I H) as (i & -> & _ & Hrange).
  split; [apply be_bytes_length|].
  destruct C as (s4 & e4 & a0 & Q1 & Q2 & _ & Q4 & _ & _ & Q7 & Q8).
  unfold new4 in Q4. rewrite Q1, Q2 in Q4. destruct (be_u32_of e4 <? be_u32_of s4); [discriminate|].
  injection Q4 as <-. cbn [a4_start a4_end] in *. unfold to4_or_nil. rewrite Q1, Q2.
  unfold be_u32_of in *. rewrite !firstn_all2 in Q7, Q8 by (rewrite (to4_length _ _ Q1) || rewrite (to4_length _ _ Q2); lia).
  rewrite <- Q7, <- Q8. exact Hrange.
Qed.

(* one client per address, one address per client: two replies carry the same address
   exactly when they answer the same hardware address *)
Theorem range_unique_sticky c1 y1 c2 y2 : wf_bytes c1 -> wf_bytes c2 ->
  In (c1, y1) (replies ops outs) -> In (c2, y2) (replies ops outs) -> (c1 = c2 <-> y1 = y2).
Proof.
  intros W1 W2 H1 H2. destruct c02_facts as ((I & _ & _) & _ & Hr & _). apply Hr in H1, H2. split.
  - intros <-. apply (In_fst_unique (bindings stN) (mac_string c1)); [|exact H1|exact H2].
    rewrite bindings_fst. destruct I as [_ _ Hn _ _ _]. exact Hn.
  - intros <-. apply mac_string_inj; [exact W1|exact W2|].
    apply (In_snd_unique (bindings stN) _ _ y1); [apply bindings_snd_NoDup; exact I|exact H1|exact H2].
Qed.

(* every reply carries the configured lease time *)
Theorem range_lease_time : Forall (fun r => match r with HReply _ o51 => o51 = Some (lease_opt lease) | _ => True end) outs.
Proof. exact (proj2 (proj2 (proj2 c02_facts))). Qed.
End C02.

(* exhaustion: a request is dropped only when its client is unknown and every address of the
   range is bound; a client that was ever answered is never dropped; an unknown client is
   served as long as an address is free *)
Theorem range_exhaustion s e lease st0 : wf_bytes s -> wf_bytes e -> range_setup s e lease [] = Ok st0 ->
  forall ops now c host, Forall wf_hop ops -> wf_bytes c ->
  let st := fst (hrun s e st0 ops) in
  let outs := snd (hrun s e st0 ops) in
  let known := In (mac_string c) (map fst (bindings st)) in
  let full := N.of_nat (length (bindings st)) = be_val (to4_or_nil e) - be_val (to4_or_nil s) + 1 in
  ((exists y, In (c, y) (replies ops outs)) -> known) /\
  match snd (hstep s e st (HReq now c host)) with
  | HReply y _ => known \/ ~ full
  | HDrop => ~ known /\ full
  | _ => False
  end.
Proof.
  intros Ws We Hs ops now c host Wops Wc. cbv zeta.
  destruct (setup_good s e lease st0 Ws We Hs) as (G0 & _).
  pose proof (hrun_good s e lease ops st0 G0 Wops) as H.
  destruct (hrun s e st0 ops) as [st outs]. cbn [fst snd]. destruct H as (G & _ & _ & Hr & _).
  split.
  { intros (y & Hy). apply Hr in Hy. apply in_map_iff. exists (mac_string c, y). split; [reflexivity|exact Hy]. }
  pose proof (hstep_good s e lease st (HReq now c host) G Wc) as H.
  destruct (hstep s e st (HReq now c host)) as [st' r]. cbn [snd]. destruct H as (_ & Hnf & _ & Hcase).
  assert (Hn : n4 (rs_alloc st) = be_val (to4_or_nil e) - be_val (to4_or_nil s) + 1).
  { destruct G as (_ & (s4 & e4 & a0 & Q1 & Q2 & _ & Q4 & _ & _ & Q7 & Q8) & _).
    unfold new4 in Q4. rewrite Q1, Q2 in Q4. destruct (be_u32_of e4 <? be_u32_of s4); [discriminate|].
    injection Q4 as <-. cbn [a4_start a4_end] in *. unfold n4, to4_or_nil. rewrite Q1, Q2, Q7, Q8.
    unfold be_u32_of. rewrite !firstn_all2 by (rewrite (to4_length _ _ Q1) || rewrite (to4_length _ _ Q2); lia). reflexivity. }
  assert (Hlen : length (bindings st) = length (rs_recs st)) by (unfold bindings; apply map_length).
  destruct r as [y o51| | |].
  - destruct Hcase as (_ & _ & _ & Hfree).
    destruct (recs_get (mac_string c) (rs_recs st)) eqn:Gt.
    + left. rewrite bindings_fst. apply recs_get_some in Gt. apply in_map_iff.
      exists (mac_string c, r). split; [reflexivity|exact Gt].
    + right. specialize (Hfree eq_refl). rewrite Hlen, <- Hn. lia.
  - destruct Hcase as (_ & Hnk & Hfull). split; [exact Hnk|]. rewrite Hlen, <- Hn. exact Hfull.
  - contradiction.
  - congruence.
Qed.

(* ====================== C03 ====================== *)
(* At every point of every history, restarting on the database written so far succeeds and
   restores exactly the bindings handed out so far, whatever the re-marking order. *)
Theorem restart_restores s e lease st0 : wf_bytes s -> wf_bytes e -> range_setup s e lease [] = Ok st0 ->
  forall ops ord, Forall wf_hop ops -> (forall l, Permutation l (ord l)) ->
  let st := fst (hrun s e st0 ops) in
  let outs := snd (hrun s e st0 ops) in
  exists st', range_setup_ord ord s e lease (rs_db st) = Ok st' /\
    bindings st' = bindings st /\
    (* nothing lost: every reply of the history is a binding after the restart *)
    (forall c y, In (c, y) (replies ops outs) -> In (mac_string c, y) (bindings st')) /\
    (* nothing changed or duplicated: the restored table is a bijection client <-> address *)
    NoDup (map fst (bindings st')) /\ NoDup (map snd (bindings st')) /\
    (* nothing invented: every restored binding was handed out in some reply *)
    (forall k y, In (k, y) (bindings st') -> exists c, k = mac_string c /\ In (c, y) (replies ops outs)).
Proof.
  intros Ws We Hs ops ord Wops Word. cbv zeta.
  destruct (setup_good s e lease st0 Ws We Hs) as (G0 & B0).
  (* generalise: every binding of a reachable state comes from a reply or from the start state *)
  assert (Hinv : forall ops st1, good s e lease st1 -> Forall wf_hop ops ->
            forall k y, In (k, y) (bindings (fst (hrun s e st1 ops))) ->
            In (k, y) (bindings st1) \/ exists c, k = mac_string c /\ In (c, y) (replies ops (snd (hrun s e st1 ops)))).
  { clear. induction ops as [|o ops IH]; intros st1 G W k y Hin; cbn [hrun fst snd] in *; [left; exact Hin|].
    pose proof (hstep_good s e lease st1 o G (Forall_inv W)) as H.
    destruct (hstep s e st1 o) as [st2 r] eqn:Est. destruct H as (G2 & Hnf & Hmono & Hcase).
    specialize (IH st2 G2 (Forall_inv_tail W) k y). destruct (hrun s e st2 ops) as [st3 rs]. cbn [fst snd] in *.
    destruct (IH Hin) as [Hb|(c & -> & Hc)].
    - destruct o as [now c0 host|ord0]; destruct r as [y0 o51| | |]; try contradiction.
      + (* reply: bindings st2 = bindings st1 or one more *)
        cbn [hstep] in Est. pose proof (handler_step st1 now c0 host empty_msg (proj1 G) (Forall_inv W)) as HS. cbv zeta in HS.
        destruct (range_handler st1 now (req_of c0 host) empty_msg) as [stx [[[m|] stop]|er|]]; try discriminate.
        injection Est as -> <- _. destruct HS as (_ & _ & _ & _ & _ & Hc & _).
        destruct Hc as [(_ & Eb)|(_ & Eb & _)]; rewrite Eb in Hb; [left; exact Hb|].
        apply in_app_or in Hb. destruct Hb as [Hb|[Hb|[]]]; [left; exact Hb|]. right.
        injection Hb as <- <-. exists c0. split; [reflexivity|]. cbn [replies]. left. reflexivity.
      + destruct Hcase as (-> & _). left. exact Hb.
      + destruct Hcase as (Eb & _). rewrite Eb in Hb. left. exact Hb.
    - right. exists c. split; [reflexivity|].
      destruct o as [now c0 host|ord0]; destruct r as [y0 o51| | |]; cbn [replies]; try exact Hc; try contradiction.
      right. exact Hc. }
  pose proof (hrun_good s e lease ops st0 G0 Wops) as H.
  specialize (Hinv ops st0 G0 Wops).
  destruct (hrun s e st0 ops) as [st outs]. cbn [fst snd] in *. destruct H as ((I & C & L) & _ & _ & Hr & _).
  destruct (restart_ok ord s e lease st Word I C) as (st' & R & I' & _ & _ & _ & _ & Hb).
  exists st'. split; [exact R|]. split; [exact Hb|]. split; [intros c y Hin; rewrite Hb; apply Hr; exact Hin|].
  split; [rewrite bindings_fst; destruct I' as [_ _ Hn _ _ _]; exact Hn|].
  split; [apply bindings_snd_NoDup; exact I'|].
  intros k y Hin. rewrite Hb in Hin. destruct (Hinv k y Hin) as [H0|H0]; [rewrite B0 in H0; destruct H0|exact H0].
Qed.

(* The stored expiry covers the lease most recently promised: after a reply at clock reading
   `now`, the row of that client in leases4 has expiry > now + lease - 1 s. *)
Theorem expiry_covers_promise s e lease st0 : wf_bytes s -> wf_bytes e -> range_setup s e lease [] = Ok st0 ->
  forall ops now c host, Forall wf_hop ops -> wf_bytes c ->
  let st := fst (hrun s e st0 ops) in
  match hstep s e st (HReq now c host) with
  | (st', HReply y _) =>
      exists row, In row (rs_db st') /\ r_mac row = mac_affinity (mac_string c) /\ r_ip row = y /\
                  (now + lease - NS < r_exp row * NS)%Z
  | _ => True
  end.
Proof.
  intros Ws We Hs ops now c host Wops Wc. cbv zeta.
  destruct (setup_good s e lease st0 Ws We Hs) as (G0 & _).
  pose proof (hrun_good s e lease ops st0 G0 Wops) as H.
  destruct (hrun s e st0 ops) as [st outs]. cbn [fst]. destruct H as (G & _).
  pose proof (hstep_good s e lease st (HReq now c host) G Wc) as H.
  destruct (hstep s e st (HReq now c host)) as [st' r]. destruct H as ((I' & _ & _) & _ & _ & Hcase).
  destruct r as [y o51| | |]; try exact I.
  destruct Hcase as (Hb & _ & (r' & Gr & Hexp) & _).
  exists (dbrow (mac_string c, r')). split.
  - destruct I' as [_ _ _ Hdb _ _]. rewrite Hdb. apply in_map. apply recs_get_some. exact Gr.
  - cbn [dbrow r_mac r_ip r_exp fst snd]. split; [reflexivity|]. split; [|exact Hexp].
    apply recs_get_some in Gr.
    apply (In_fst_unique (bindings st') (mac_string c)); [rewrite bindings_fst; destruct I' as [_ _ Hn _ _ _]; exact Hn| |exact Hb].
    unfold bindings. apply in_map_iff. exists (mac_string c, r'). split; [reflexivity|exact Gr].
Qed.
