(* ConcPrefix.v — C08 under every schedule: k concurrent messages through prefix.Handle (one
   critical section each, after any sequential history) are answered as some serial history, so
   prefixes delegated to different clients never overlap and all lie in the pool. *)
From Coq Require Import List Arith Lia Permutation.
From Verif Require Import Base PrefixPlugin PrefixProofs PrefixTheorems Conc ConcProofs.
Import ListNotations.
Local Open Scope nat_scope.

Definition pstep (st : pstate) (m : pmsg) : pstate * pd_out :=
  match m with PMsg now c pds => prefix_handle now st c pds end.

Lemma prun_srun st ms : prun st ms = srun _ _ _ pstep st ms.
Proof.
  revert st; induction ms as [|[now c pds] ms IH]; intro st; cbn [prun srun pstep]; [reflexivity|].
  destruct (prefix_handle now st c pds) as [st1 o]. rewrite IH. reflexivity.
Qed.

Lemma delegated_nth ms : forall os i now c pds outs l,
  nth_error ms i = Some (PMsg now (Some c) pds) -> nth_error os i = Some (PResp outs) ->
  In l (flat_map snd outs) -> In (c, l) (delegated ms os).
Proof.
  induction ms as [|[n0 c0 p0] ms IH]; intros os i now c pds outs l H1 H2 Hl; [destruct i; discriminate|].
  destruct os as [|o os]; [destruct i; discriminate|].
  destruct i as [|i]; cbn [nth_error] in H1, H2.
  - injection H1 as -> -> ->. injection H2 as ->. cbn [delegated]. apply in_or_app. left.
    apply in_map_iff. exists l. split; [reflexivity|exact Hl].
  - pose proof (IH os i now c pds outs l H1 H2 Hl) as Hin. cbn [delegated].
    destruct c0 as [c0|]; [destruct o; try exact Hin; apply in_or_app; right; exact Hin|exact Hin].
Qed.

Section ConcPrefix.
Variables (pip : bytes) (L P : N) (st0 : pstate).
Hypothesis Hpool : BaseProofs.wf_ip16 pip /\ Net.to4 pip = None /\ (L <= P)%N /\ (P <= 128)%N /\ (P - L < 64)%N /\
                   (IpcalcProofs.v pip mod IpcalcProofs.Bsz L = 0)%N.
Hypothesis Hsetup : prefix_setup pip (Net.cidr_bytes 16 L) (Z.of_N P) = Ok st0.
Variable prev : list pmsg.          (* handled before, one at a time *)
Variable msgs : list pmsg.          (* in flight now, one goroutine each *)
Hypothesis Wprev : Forall wf_pmsg prev.
Hypothesis Wmsgs : Forall wf_pmsg msgs.

Let s1 := fst (prun st0 prev).
Let cops := map (aop _ _ _ pstep) msgs.

Theorem prefix_concurrent_serial sched :
  all_done _ _ _ cops (run _ _ _ cops s1 sched) ->
  exists sigma, Permutation sigma (seq 0 (length msgs)) /\
    let hist := prev ++ pick _ msgs sigma in
    let c := run _ _ _ cops s1 sched in
    Forall wf_pmsg hist /\
    sh _ _ _ c = fst (prun st0 hist) /\
    lock _ _ _ c = None /\
    forall t r, nth_error (thr _ _ _ c) t = Some (Done _ _ _ r) ->
      exists k, nth_error sigma k = Some t /\
                nth_error hist (length prev + k) = nth_error msgs t /\
                r = nth_error (snd (prun st0 hist)) (length prev + k) /\ r <> None.
Proof.
  intros Hd. destruct (atomic_serialisable _ _ _ pstep msgs s1 sched Hd) as (sigma & Hp & Hs & Hl & Hr).
  exists sigma. split; [exact Hp|]. cbn zeta.
  assert (Hf : Forall (fun t => t < length msgs) sigma).
  { apply Forall_forall. intros t Ht. apply (Permutation_in _ Hp) in Ht. apply in_seq in Ht. lia. }
  assert (Hw : Forall wf_pmsg (pick _ msgs sigma)).
  { apply Forall_forall. intros o Ho. unfold pick in Ho. apply in_flat_map in Ho. destruct Ho as (t & _ & Ho).
    destruct (nth_error msgs t) as [a|] eqn:Ea; [|destruct Ho]. destruct Ho as [<-|[]].
    rewrite Forall_forall in Wmsgs. apply Wmsgs. eapply nth_error_In; exact Ea. }
  split; [apply Forall_app; split; assumption|].
  rewrite !prun_srun, srun_app. rewrite <- prun_srun.
  destruct (prun st0 prev) as [sp rp] eqn:Ep.
  assert (Lp : length rp = length prev).
  { pose proof (srun_length _ _ _ pstep st0 prev) as Ls. rewrite <- prun_srun, Ep in Ls. exact Ls. }
  assert (Es1 : s1 = sp) by (unfold s1; rewrite ?Ep; reflexivity).
  unfold cops. rewrite Es1 in Hs, Hr, Hl |- *.
  destruct (srun _ _ _ pstep sp (pick _ msgs sigma)) as [sq rq] eqn:Eq. cbn [fst snd] in *.
  split; [exact Hs|]. split; [exact Hl|].
  intros t r Ht. destruct (Hr t r Ht) as (k & H1 & H2 & H3 & H4). exists k.
  split; [exact H1|]. split; [|split; [|exact H4]].
  - rewrite nth_error_app2 by lia. replace (length prev + k - length prev) with k by lia. exact H2.
  - rewrite nth_error_app2 by lia. replace (length prev + k - length rp) with k by lia. exact H3.
Qed.

(* what C08 promises, for messages answered concurrently: no panic, every delegated prefix in the
   pool, prefixes delegated to different clients disjoint *)
Theorem prefix_concurrent_c08 sched :
  all_done _ _ _ cops (run _ _ _ cops s1 sched) ->
  let c := run _ _ _ cops s1 sched in
  (forall t, nth_error (thr _ _ _ c) t <> Some (Done _ _ _ (Some PPanic))) /\
  forall t1 t2 n1 c1 p1 n2 c2 p2 o1 o2 l1 l2,
    nth_error msgs t1 = Some (PMsg n1 (Some c1) p1) -> nth_error msgs t2 = Some (PMsg n2 (Some c2) p2) ->
    nth_error (thr _ _ _ c) t1 = Some (Done _ _ _ (Some (PResp o1))) ->
    nth_error (thr _ _ _ c) t2 = Some (Done _ _ _ (Some (PResp o2))) ->
    In l1 (flat_map snd o1) -> In l2 (flat_map snd o2) -> c1 <> c2 ->
    (IpcalcProofs.v (ls_ip l1) + IpcalcProofs.Bsz P <= IpcalcProofs.v (ls_ip l2) \/
     IpcalcProofs.v (ls_ip l2) + IpcalcProofs.Bsz P <= IpcalcProofs.v (ls_ip l1))%N.
Proof.
  intros Hd. destruct (prefix_concurrent_serial sched Hd) as (sigma & Hp & Hw & Hs & Hl & Hr).
  cbn zeta in *. set (hist := prev ++ pick _ msgs sigma) in *.
  split.
  - intros t Ht. destruct (Hr t _ Ht) as (k & _ & _ & H3 & _).
    apply (pd_never_panics pip L P st0 Hpool Hsetup hist Hw).
    symmetry in H3. eapply nth_error_In; exact H3.
  - intros t1 t2 n1 c1 p1 n2 c2 p2 o1 o2 l1 l2 Q1 Q2 T1 T2 I1 I2 Hne.
    destruct (Hr t1 _ T1) as (k1 & _ & A1 & B1 & _). destruct (Hr t2 _ T2) as (k2 & _ & A2 & B2 & _).
    rewrite Q1 in A1. rewrite Q2 in A2. symmetry in B1, B2.
    pose proof (delegated_nth hist _ _ _ _ _ _ _ A1 B1 I1) as D1.
    pose proof (delegated_nth hist _ _ _ _ _ _ _ A2 B2 I2) as D2.
    exact (pd_disjoint_clients pip L P st0 Hpool Hsetup hist Hw c1 l1 c2 l2 Hne D1 D2).
Qed.
End ConcPrefix.
