(* Server6Proofs.v — theorems about HandleMsg6 (C12) *)
From Verif Require Import Base BaseProofs Net Msg6 Chain ChainProofs Server4 Server6.
From Coq Require Import Lia ZifyN ZifyNat ZifyBool.
Open Scope N_scope.

(* ---------- the type table (RFC 8415), over every type value ---------- *)
Definition reply_types : list N := [MT_REQUEST; MT_CONFIRM; MT_RENEW; MT_REBIND; MT_RELEASE; MT_INFOREQ].

Definition stub6_spec (m : imsg) : option imsg :=
  match o6_get OPT_CLIENTID (i_opts m) with
  | None => None                                                    (* no client identifier: never answered *)
  | Some cid =>
      if i_type m =? MT_SOLICIT then
        Some (match o6_get OPT_RAPID (i_opts m) with
              | None => {| i_type := MT_ADVERTISE; i_xid := i_xid m; i_opts := [(OPT_CLIENTID, cid)] |}
              | Some _ => {| i_type := MT_REPLY; i_xid := i_xid m; i_opts := [(OPT_CLIENTID, cid); (OPT_RAPID, [])] |}
              end)
      else if existsb (N.eqb (i_type m)) reply_types then
        Some {| i_type := MT_REPLY; i_xid := i_xid m; i_opts := [(OPT_CLIENTID, cid)] |}
      else None
  end.

Theorem reply6_type_table m : stub6 m = stub6_spec m.
Proof.
  unfold stub6, stub6_spec, reply_types. cbn [existsb].
  destruct (i_type m =? MT_SOLICIT) eqn:E1.
  - destruct (o6_get OPT_RAPID (i_opts m)); destruct (o6_get OPT_CLIENTID (i_opts m)); reflexivity.
  - rewrite Bool.orb_false_r.
    destruct ((i_type m =? MT_REQUEST) || (i_type m =? MT_CONFIRM) || (i_type m =? MT_RENEW) ||
              (i_type m =? MT_REBIND) || (i_type m =? MT_RELEASE) || (i_type m =? MT_INFOREQ)) eqn:E2.
    + assert (E3 : (i_type m =? MT_REQUEST) || ((i_type m =? MT_CONFIRM) || ((i_type m =? MT_RENEW) ||
              ((i_type m =? MT_REBIND) || ((i_type m =? MT_RELEASE) || (i_type m =? MT_INFOREQ))))) = true)
        by (rewrite !Bool.orb_assoc; exact E2).
      rewrite E3. destruct (o6_get OPT_CLIENTID (i_opts m)); reflexivity.
    + assert (E3 : (i_type m =? MT_REQUEST) || ((i_type m =? MT_CONFIRM) || ((i_type m =? MT_RENEW) ||
              ((i_type m =? MT_REBIND) || ((i_type m =? MT_RELEASE) || (i_type m =? MT_INFOREQ))))) = false)
        by (rewrite !Bool.orb_assoc; exact E2).
      rewrite E3. destruct (o6_get OPT_CLIENTID (i_opts m)); reflexivity.
Qed.

(* the stub carries the transaction id and the client identifier, and nothing else but Rapid Commit *)
Theorem reply6_stub_carries m r : stub6 m = Some r ->
  i_xid r = i_xid m /\ o6_get OPT_CLIENTID (i_opts r) = o6_get OPT_CLIENTID (i_opts m) /\
  (i_type r = MT_ADVERTISE \/ i_type r = MT_REPLY) /\
  (i_type r = MT_ADVERTISE <-> (i_type m = MT_SOLICIT /\ o6_get OPT_RAPID (i_opts m) = None)) /\
  (o6_get OPT_RAPID (i_opts r) <> None <-> (i_type m = MT_SOLICIT /\ o6_get OPT_RAPID (i_opts m) <> None)).
Proof.
  rewrite reply6_type_table. unfold stub6_spec.
  destruct (o6_get OPT_CLIENTID (i_opts m)) as [cid|] eqn:Ec; [|discriminate].
  destruct (i_type m =? MT_SOLICIT) eqn:E1.
  - apply N.eqb_eq in E1. destruct (o6_get OPT_RAPID (i_opts m)) as [rc|] eqn:Er; intros H; injection H as <-;
      cbn [i_xid i_type i_opts o6_get]; unfold OPT_CLIENTID, OPT_RAPID, MT_REPLY, MT_ADVERTISE, MT_SOLICIT in *;
      cbn [N.eqb Pos.eqb]; intuition (try discriminate; try congruence).
  - apply N.eqb_neq in E1. destruct (existsb (N.eqb (i_type m)) reply_types); [|discriminate].
    intros H. injection H as <-. cbn [i_xid i_type i_opts o6_get].
    unfold OPT_CLIENTID, OPT_RAPID, MT_REPLY, MT_ADVERTISE, MT_SOLICIT in *; cbn [N.eqb Pos.eqb];
      intuition (try discriminate; try congruence).
Qed.

(* ---------- HandleMsg6 ---------- *)
Lemma handle6_sent hs lif oob pip pport parsed p dip dport ifx log :
  handle6 hs lif oob pip pport parsed = (Sent6 p dip dport ifx, log) ->
  exists d msg r0 rsp, parsed = Some d /\ p_inner d = Some msg /\ stub6 msg = Some r0 /\
    run_chain6 hs 0 d (Some {| p_layers := []; p_inner := Some r0 |}) = (Some rsp, log) /\
    dip = pip /\ dport = pport /\ ifx = (if is_link_local pip then pick_if lif oob else None) /\
    (p = rsp \/ (exists rm, p_layers rsp = [] /\ p_inner rsp = Some rm /\
                 p = {| p_layers := relay_reply_layers (p_layers d); p_inner := Some rm |})).
Proof.
  intros H. unfold handle6 in H. destruct parsed as [d|]; [|discriminate].
  destruct (p_inner d) as [msg|] eqn:Ei; [|discriminate].
  destruct (stub6 msg) as [r0|] eqn:Es; [|discriminate].
  destruct (run_chain6 hs 0 d (Some {| p_layers := []; p_inner := Some r0 |})) as [resp lg] eqn:Ec.
  destruct resp as [rsp|]; [|discriminate].
  exists d, msg, r0, rsp. split; [reflexivity|]. split; [exact Ei|]. split; [exact Es|].
  destruct (is_relay d).
  - destruct (p_layers rsp) as [|rl rls] eqn:El.
    + destruct (p_inner rsp) as [rm|] eqn:Em.
      * destruct (p_layers d) as [|l0 ls] eqn:Ed; [discriminate|].
        destruct (l_type l0 =? MT_RELAYFORW); [|discriminate]. injection H as <- <- <- <- <-.
        split; [exact Ec|]. split; [reflexivity|]. split; [reflexivity|]. split; [reflexivity|]. right. exists rm. repeat split; reflexivity.
      * injection H as <- <- <- <- <-. split; [exact Ec|]. split; [reflexivity|]. split; [reflexivity|]. split; [reflexivity|]. left. reflexivity.
    + injection H as <- <- <- <- <-. split; [exact Ec|]. split; [reflexivity|]. split; [reflexivity|]. split; [reflexivity|]. left. reflexivity.
  - injection H as <- <- <- <- <-. split; [exact Ec|]. split; [reflexivity|]. split; [reflexivity|]. split; [reflexivity|]. left. reflexivity.
Qed.

(* Nothing is sent except for a packet that parsed, has an innermost message of a supported
   type with a client identifier - for any handlers; the datagram goes back to the source
   address and port; it is pinned to an interface exactly when that address is link-local
   (the bound interface, else the receiving one). *)
Theorem reply6_only_supported hs lif oob pip pport parsed p dip dport ifx log :
  handle6 hs lif oob pip pport parsed = (Sent6 p dip dport ifx, log) ->
  exists d msg, parsed = Some d /\ p_inner d = Some msg /\ stub6_spec msg <> None /\
    dip = pip /\ dport = pport /\ ifx = (if is_link_local pip then pick_if lif oob else None).
Proof.
  intros H. destruct (handle6_sent _ _ _ _ _ _ _ _ _ _ _ H) as (d & msg & r0 & rsp & Hp & Hi & Hs & _ & Hd & Hpt & Hx & _).
  exists d, msg. rewrite <- reply6_type_table, Hs. repeat split; auto. discriminate.
Qed.

(* ---------- relayed requests: a mirrored Relay-Reply, by induction on the nesting depth ---------- *)
Inductive mirrors : list layer -> list layer -> Prop :=
| mir_nil : mirrors [] []
| mir_cons l ls l' ls' :
    l_type l' = MT_RELAYREPL -> l_link l' = l_link l -> l_peer l' = l_peer l ->
    o6_get OPT_IFACEID (l_opts l') = o6_get OPT_IFACEID (l_opts l) ->
    o6_get OPT_REMOTEID (l_opts l') = o6_get OPT_REMOTEID (l_opts l) ->
    (forall c, c <> OPT_IFACEID -> c <> OPT_REMOTEID -> o6_get c (l_opts l') = None) ->
    l_hop l' = N.of_nat (length ls) ->
    mirrors ls ls' -> mirrors (l :: ls) (l' :: ls').

Lemma o6_get_cons_ne c k v (o : opts6) : k <> c -> o6_get c ((k, v) :: o) = o6_get c o.
Proof. intros H. cbn [o6_get]. destruct (k =? c) eqn:E; [apply N.eqb_eq in E; contradiction|reflexivity]. Qed.

Lemma reply_layer_opts_spec l :
  o6_get OPT_IFACEID (reply_layer_opts l) = o6_get OPT_IFACEID (l_opts l) /\
  o6_get OPT_REMOTEID (reply_layer_opts l) = o6_get OPT_REMOTEID (l_opts l) /\
  (forall c, c <> OPT_IFACEID -> c <> OPT_REMOTEID -> o6_get c (reply_layer_opts l) = None).
Proof.
  unfold reply_layer_opts.
  destruct (o6_get OPT_IFACEID (l_opts l)) as [a|]; destruct (o6_get OPT_REMOTEID (l_opts l)) as [b|]; cbn [app];
    (split; [reflexivity|]); (split; [reflexivity|]); intros c H1 H2;
    rewrite ?o6_get_cons_ne by congruence; reflexivity.
Qed.

Theorem relay_reply_layers_mirror ls : mirrors ls (relay_reply_layers ls).
Proof.
  induction ls as [|l ls IH]; cbn [relay_reply_layers]; [constructor|].
  destruct (reply_layer_opts_spec l) as (H1 & H2 & H3).
  constructor; cbn [l_type l_link l_peer l_opts l_hop]; auto.
Qed.

Lemma mirrors_length a b : mirrors a b -> length a = length b.
Proof. induction 1; cbn [length]; congruence. Qed.

(* what HandleMsg6 does with a relayed request when the chain returns a plain message *)
Lemma handle6_relay hs lif oob pip pport d msg r0 rsp rm log l0 ls :
  p_inner d = Some msg -> stub6 msg = Some r0 ->
  run_chain6 hs 0 d (Some {| p_layers := []; p_inner := Some r0 |}) = (Some rsp, log) ->
  p_layers d = l0 :: ls -> p_layers rsp = [] -> p_inner rsp = Some rm ->
  handle6 hs lif oob pip pport (Some d) =
  (if l_type l0 =? MT_RELAYFORW
   then Sent6 {| p_layers := relay_reply_layers (l0 :: ls); p_inner := Some rm |} pip pport
              (if is_link_local pip then pick_if lif oob else None)
   else NoSend6 5, log).
Proof.
  intros Hi Hs Hc Hd Hl Hm. unfold handle6. rewrite Hi, Hs, Hc. unfold is_relay. rewrite Hd, Hl, Hm.
  destruct (l_type l0 =? MT_RELAYFORW); reflexivity.
Qed.

(* A request relayed through n Relay-Forward layers (any n), answered by the chain with a plain
   message rm, goes out as n Relay-Reply layers that mirror, per layer, link-address,
   peer-address, Interface-ID (and Remote-ID) and carry nothing else, enclosing rm; an outer
   layer that is not a Relay-Forward is not answered. *)
Theorem relay_reply_mirrors hs lif oob pip pport d msg r0 rsp rm log l0 ls :
  p_inner d = Some msg -> stub6 msg = Some r0 ->
  run_chain6 hs 0 d (Some {| p_layers := []; p_inner := Some r0 |}) = (Some rsp, log) ->
  p_layers d = l0 :: ls -> p_layers rsp = [] -> p_inner rsp = Some rm ->
  (l_type l0 = MT_RELAYFORW ->
   exists p, handle6 hs lif oob pip pport (Some d) =
               (Sent6 p pip pport (if is_link_local pip then pick_if lif oob else None), log) /\
             mirrors (p_layers d) (p_layers p) /\ length (p_layers p) = length (p_layers d) /\ p_inner p = Some rm) /\
  (l_type l0 <> MT_RELAYFORW -> handle6 hs lif oob pip pport (Some d) = (NoSend6 5, log)).
Proof.
  intros Hi Hs Hc Hd Hl Hm. rewrite (handle6_relay _ lif oob pip pport _ _ _ _ _ _ _ _ Hi Hs Hc Hd Hl Hm). split.
  - intros Ht. rewrite Ht. cbn [N.eqb MT_RELAYFORW Pos.eqb]. eexists. split; [reflexivity|].
    cbn [p_layers p_inner]. rewrite Hd. split; [apply relay_reply_layers_mirror|].
    split; [symmetry; apply mirrors_length; apply relay_reply_layers_mirror|reflexivity].
  - intros Ht. apply N.eqb_neq in Ht. rewrite Ht. reflexivity.
Qed.

(* a direct (non-relayed) request: the response of the chain is sent as it is *)
Theorem direct_reply_unwrapped hs lif oob pip pport d msg r0 rsp log :
  p_inner d = Some msg -> stub6 msg = Some r0 ->
  run_chain6 hs 0 d (Some {| p_layers := []; p_inner := Some r0 |}) = (Some rsp, log) -> p_layers d = [] ->
  handle6 hs lif oob pip pport (Some d) = (Sent6 rsp pip pport (if is_link_local pip then pick_if lif oob else None), log).
Proof.
  intros Hi Hs Hc Hd. unfold handle6. rewrite Hi, Hs, Hc. unfold is_relay. rewrite Hd. reflexivity.
Qed.

(* ---------- replies match the request through chains of well-behaved handlers ---------- *)
(* a handler keeps the reply identity: nil only with stop; otherwise a plain message with the
   same type, transaction id and client identifier *)
Definition keeps_id (a b : pkt6) : Prop :=
  p_layers a = [] /\ p_layers b = [] /\
  match p_inner a, p_inner b with
  | Some x, Some y => i_type x = i_type y /\ i_xid x = i_xid y /\
                      o6_get OPT_CLIENTID (i_opts x) = o6_get OPT_CLIENTID (i_opts y) /\
                      ((o6_get OPT_RAPID (i_opts x) = None) <-> (o6_get OPT_RAPID (i_opts y) = None))
  | _, _ => False
  end.

Definition id_preserving (h : handler6) : Prop :=
  forall req r, p_layers r = [] -> p_inner r <> None ->
    match h req (Some r) with
    | (Some r', _) => keeps_id r' r
    | (None, stop) => stop = true
    end.

Lemma chain_keeps_id hs : Forall id_preserving hs -> forall k req r0 m log,
  p_layers r0 = [] -> p_inner r0 <> None ->
  run_chain6 hs k req (Some r0) = (Some m, log) -> keeps_id m r0.
Proof.
  induction hs as [|h hs IH]; intros F k req r0 m log Hl Hn H; cbn [run_chain] in H.
  - injection H as <- _. unfold keeps_id. rewrite Hl. destruct (p_inner r0); [|contradiction]. intuition.
  - pose proof (Forall_inv F req r0 Hl Hn) as Hh. destruct (h req (Some r0)) as [[r1|] stop].
    + assert (K1 : p_layers r1 = [] /\ p_inner r1 <> None).
      { destruct Hh as (A & _ & B). split; [exact A|]. destruct (p_inner r1); [discriminate|]. destruct (p_inner r0); contradiction. }
      destruct stop.
      * injection H as <- _. exact Hh.
      * destruct (run_chain6 hs (S k) req (Some r1)) as [r' lg] eqn:E. injection H as -> _.
        pose proof (IH (Forall_inv_tail F) _ _ _ _ _ (proj1 K1) (proj2 K1) E) as K2.
        unfold keeps_id in *. destruct K2 as (A1 & A2 & A3). destruct Hh as (B1 & B2 & B3).
        split; [exact A1|]. split; [exact B2|].
        destruct (p_inner m), (p_inner r1), (p_inner r0); try contradiction.
        destruct A3 as (T1 & T2 & T3 & T4). destruct B3 as (U1 & U2 & U3 & U4). repeat split; try congruence; tauto.
    + subst stop. discriminate H.
Qed.

(* Every reply produced through a chain of identity-preserving handlers (all built-in plugins
   are) answers a supported client message and carries its transaction id and client identifier:
   ADVERTISE for SOLICIT, REPLY echoing Rapid Commit for SOLICIT with Rapid Commit, REPLY for
   REQUEST, CONFIRM, RENEW, REBIND, RELEASE and INFORMATION-REQUEST. *)
Theorem reply6_matches_request hs lif oob pip pport d p dip dport ifx log : Forall id_preserving hs ->
  handle6 hs lif oob pip pport (Some d) = (Sent6 p dip dport ifx, log) ->
  exists msg rm, p_inner d = Some msg /\ p_inner p = Some rm /\
    i_xid rm = i_xid msg /\ o6_get OPT_CLIENTID (i_opts rm) = o6_get OPT_CLIENTID (i_opts msg) /\
    o6_get OPT_CLIENTID (i_opts msg) <> None /\
    ((i_type msg = MT_SOLICIT /\ o6_get OPT_RAPID (i_opts msg) = None /\ i_type rm = MT_ADVERTISE /\ o6_get OPT_RAPID (i_opts rm) = None) \/
     (i_type msg = MT_SOLICIT /\ o6_get OPT_RAPID (i_opts msg) <> None /\ i_type rm = MT_REPLY /\ o6_get OPT_RAPID (i_opts rm) <> None) \/
     (In (i_type msg) reply_types /\ i_type rm = MT_REPLY)).
Proof.
  intros F H. destruct (handle6_sent _ _ _ _ _ _ _ _ _ _ _ H) as (d' & msg & r0 & rsp & Hp & Hi & Hs & Hc & _ & _ & _ & Hcase).
  injection Hp as <-.
  pose proof (chain_keeps_id hs F 0%nat d {| p_layers := []; p_inner := Some r0 |} rsp log eq_refl ltac:(discriminate) Hc) as K.
  destruct K as (K1 & _ & K3). cbn [p_inner] in K3. destruct (p_inner rsp) as [rm|] eqn:Em; [|contradiction].
  destruct K3 as (T1 & T2 & T3 & T4).
  assert (Hpi : p_inner p = Some rm).
  { destruct Hcase as [->|(rm' & _ & Hm' & ->)]; [exact Em|cbn [p_inner]; congruence]. }
  exists msg, rm. split; [exact Hi|]. split; [exact Hpi|].
  destruct (reply6_stub_carries msg r0 Hs) as (S1 & S2 & S3 & S4 & S5).
  split; [congruence|]. split; [congruence|].
  assert (Hcid : o6_get OPT_CLIENTID (i_opts msg) <> None).
  { rewrite reply6_type_table in Hs. unfold stub6_spec in Hs. destruct (o6_get OPT_CLIENTID (i_opts msg)); [discriminate|discriminate]. }
  split; [exact Hcid|].
  rewrite reply6_type_table in Hs. unfold stub6_spec in Hs.
  destruct (o6_get OPT_CLIENTID (i_opts msg)) as [cid|]; [|discriminate].
  destruct (i_type msg =? MT_SOLICIT) eqn:E1.
  - apply N.eqb_eq in E1. destruct (o6_get OPT_RAPID (i_opts msg)) as [rc|] eqn:Er; injection Hs as <-; cbn [i_type i_opts o6_get] in *.
    + right. left. split; [exact E1|]. split; [discriminate|]. split; [exact T1|].
      intros Hn. apply T4 in Hn. unfold OPT_RAPID, OPT_CLIENTID in Hn. cbn in Hn. discriminate.
    + left. split; [exact E1|]. split; [reflexivity|]. split; [exact T1|]. apply T4. reflexivity.
  - destruct (existsb (N.eqb (i_type msg)) reply_types) eqn:E2; [|discriminate]. injection Hs as <-. cbn [i_type] in *.
    right. right. split; [|exact T1]. apply existsb_exists in E2. destruct E2 as (x & Hx & Ex). apply N.eqb_eq in Ex. subst x. exact Hx.
Qed.
