package main

// Concurrent phase of C04 (also used by C16): many goroutines call Allocate/Free on one
// allocator at the same moment.  Monitors: within a round no block is returned twice; a
// free hinted block is returned at most once; no-hint allocations of G goroutines return,
// as a set, G distinct blocks.  Under the -race build the race detector watches the same calls.

import (
	"github.com/coredhcp/coredhcp/plugins/allocators/bitmap"
	"fmt"
	"net"
	"os"
	"runtime"
	"sync"
	"sync/atomic"
)

type concRes struct {
	ip  net.IP
	err error
}

func runAllocConcurrent(c *Ctx, rounds int) {
	type mk func() (*pool, error)
	pools := []mk{
		func() (*pool, error) { return mkPool4(net.ParseIP("10.1.0.0"), net.ParseIP("10.1.0.63")) },
		func() (*pool, error) { return mkPool6("2001:db8:0:100::/56", 64) },
		func() (*pool, error) { return mkPool6("2001:db8::/120", 124) },
	}
	G := 8
	if runtime.GOMAXPROCS(0) < 2 {
		c.Notes = append(c.Notes, "concurrent phase: only one CPU available, interleavings are limited")
	}
	for pi, m := range pools {
		p, err := m()
		if err != nil {
			c.Violate("harness-setup", "concurrent phase: "+err.Error(), nil)
			continue
		}
		n := int(p.n.Int64())
		var round, done int64
		res := make([]concRes, G)
		hints := make([]net.IPNet, G)
		mode := make([]int, G) // 0 allocate with hints[g], 1 free res[g]
		stop := int64(0)
		var wg sync.WaitGroup
		for g := 0; g < G; g++ {
			wg.Add(1)
			go func(g int) {
				defer wg.Done()
				my := int64(0)
				for {
					for atomic.LoadInt64(&round) == my {
						if atomic.LoadInt64(&stop) != 0 {
							return
						}
						runtime.Gosched()
					}
					my++
					if mode[g] == 0 {
						ipn, err := p.a.Allocate(hints[g])
						res[g] = concRes{ipn.IP, err}
					} else if res[g].err == nil && res[g].ip != nil {
						ferr := p.a.Free(net.IPNet{IP: res[g].ip, Mask: net.CIDRMask(p.pageOrMax(), p.bitsLen())})
						res[g] = concRes{nil, ferr}
					}
					atomic.AddInt64(&done, 1)
				}
			}(g)
		}
		step := func() {
			atomic.StoreInt64(&done, 0)
			atomic.AddInt64(&round, 1)
			for atomic.LoadInt64(&done) != int64(G) {
				runtime.Gosched()
			}
		}
		bad := 0
		for r := 0; r < rounds && bad < 3; r++ {
			b := r % n
			sameHint := r%3 != 2
			for g := 0; g < G; g++ {
				mode[g] = 0
				if sameHint {
					hints[g] = net.IPNet{IP: net.IP(p.blockBase(uint64(b))), Mask: net.CIDRMask(p.pageOrMax(), p.bitsLen())}
				} else {
					hints[g] = net.IPNet{}
				}
			}
			step()
			seen := map[uint64]int{}
			for g := 0; g < G; g++ {
				if res[g].err != nil {
					if n >= G {
						bad++
						c.vio("C04", "concurrent-alloc-fails", fmt.Sprintf("%s: concurrent Allocate failed with %d of %d blocks free: %v", p.desc, n, n, res[g].err), map[string]interface{}{"pool": p.desc, "round": r, "goroutines": G})
					}
					continue
				}
				idx, ok := p.blockOf(res[g].ip)
				if !ok {
					bad++
					c.vio("C05", "alloc-outside-pool", fmt.Sprintf("%s: concurrent Allocate returned %v outside the pool", p.desc, res[g].ip), nil)
					continue
				}
				if prev, dup := seen[idx]; dup {
					bad++
					for _, prop := range []string{"C04", "C05"} { // two holders of one block: not disjoint (C04), and more allocations satisfied than there are blocks behind them (C05)
						c.vio(prop, "double-issue-concurrent", fmt.Sprintf("%s: goroutines %d and %d were both given block %d (%v) in the same round (%s)", p.desc, prev, g, idx, res[g].ip, map[bool]string{true: "all hinting that free block", false: "no hint"}[sameHint]),
							map[string]interface{}{"pool": p.desc, "round": r, "goroutines": G, "same_hint": sameHint, "block": idx})
					}
				}
				seen[idx] = g
			}
			if !sameHint && len(seen) == G {
				// any serial order of G no-hint Allocates on an empty pool returns blocks 0..G-1
				for i := 0; i < G; i++ {
					if _, ok := seen[uint64(i)]; !ok {
						bad++
						c.vio("C16", "not-serialisable", fmt.Sprintf("%s: %d concurrent no-hint Allocates on an empty pool did not return blocks 0..%d", p.desc, G, G-1), nil)
						break
					}
				}
			}
			var justFreed []net.IP
			for g := 0; g < G; g++ {
				mode[g] = 1
				if res[g].err == nil && res[g].ip != nil {
					justFreed = append(justFreed, res[g].ip)
				}
			}
			step()
			for g := 0; g < G; g++ {
				if res[g].err != nil {
					bad++
					c.vio("C06", "concurrent-free-fails", fmt.Sprintf("%s: Free of a block just allocated failed: %v", p.desc, res[g].err), nil)
				}
				res[g] = concRes{}
			}
			// every one of those simultaneous Free calls (distinct blocks, one bitmap word) returned: each
			// block must now be free - a second Free of it has to report a double free
			for _, ip := range justFreed {
				if err := p.a.Free(net.IPNet{IP: ip, Mask: net.CIDRMask(p.pageOrMax(), p.bitsLen())}); err == nil {
					bad++
					c.vio("C06", "concurrent-free-lost", fmt.Sprintf("%s: %d goroutines freed distinct outstanding blocks at the same moment and every Free returned nil, but block %v was still marked as outstanding afterwards (a second Free succeeded): one release was lost", p.desc, G, ip),
						map[string]interface{}{"pool": p.desc, "round": r, "goroutines": G})
				}
			}
			if r%4 == 0 {
				// all goroutines free ONE outstanding block at the same moment: exactly one Free succeeds
				blk := net.IPNet{IP: net.IP(p.blockBase(uint64(b))), Mask: net.CIDRMask(p.pageOrMax(), p.bitsLen())}
				if got, err := p.a.Allocate(blk); err == nil {
					for g := 0; g < G; g++ {
						mode[g] = 1
						res[g] = concRes{got.IP, nil}
					}
					step()
					okc := 0
					for g := 0; g < G; g++ {
						if res[g].err == nil {
							okc++
						}
						res[g] = concRes{}
					}
					if okc != 1 {
						bad++
						c.vio("C06", "concurrent-double-free", fmt.Sprintf("%s: %d of %d simultaneous Free calls of one outstanding block (%v) succeeded; exactly one may", p.desc, okc, G, got.IP),
							map[string]interface{}{"pool": p.desc, "round": r, "goroutines": G, "block": b})
					}
				}
			}
			if r%4 == 2 && n >= 2*G {
				// half of the goroutines free their block while the other half allocate neighbouring free
				// blocks by hint, all at the same moment; afterwards every freed block must be free again
				// (a hint naming it is honoured) and every hinted block must have been returned
				h := G / 2
				okSetup := true
				for g := 0; g < h; g++ {
					blk := net.IPNet{IP: net.IP(p.blockBase(uint64(g))), Mask: net.CIDRMask(p.pageOrMax(), p.bitsLen())}
					got, err := p.a.Allocate(blk)
					if err != nil {
						okSetup = false
						break
					}
					mode[g] = 1
					res[g] = concRes{got.IP, nil}
				}
				if okSetup {
					for g := h; g < G; g++ {
						mode[g] = 0
						hints[g] = net.IPNet{IP: net.IP(p.blockBase(uint64(G + g))), Mask: net.CIDRMask(p.pageOrMax(), p.bitsLen())}
					}
					step()
					in := map[string]interface{}{"pool": p.desc, "round": r, "freeing": h, "allocating by hint": G - h}
					for g := 0; g < h; g++ {
						if res[g].err != nil {
							bad++
							c.vio("C06", "concurrent-free-fails", fmt.Sprintf("%s: Free of an outstanding block failed while other blocks were being allocated: %v", p.desc, res[g].err), in)
						}
					}
					for g := h; g < G; g++ {
						idx, ok := p.blockOf(res[g].ip)
						if res[g].err != nil || !ok || idx != uint64(G+g) {
							bad++
							c.vio("C07", "hint-not-honoured", fmt.Sprintf("%s: a hint naming the free block %d was answered with %v (%v) while other blocks were being freed", p.desc, G+g, res[g].ip, res[g].err), in)
						}
					}
					for g := 0; g < h; g++ {
						blk := net.IPNet{IP: net.IP(p.blockBase(uint64(g))), Mask: net.CIDRMask(p.pageOrMax(), p.bitsLen())}
						got, err := p.a.Allocate(blk)
						idx, ok := p.blockOf(got.IP)
						if err != nil || !ok || idx != uint64(g) {
							bad++
							c.vio("C07", "hint-not-honoured", fmt.Sprintf("%s: block %d was freed successfully (concurrently with allocations in the same bitmap word) but a hint naming it is answered with %v (%v): the release was lost", p.desc, g, got.IP, err), in)
						}
						if err == nil {
							p.a.Free(net.IPNet{IP: got.IP, Mask: net.CIDRMask(p.pageOrMax(), p.bitsLen())})
						}
					}
					for g := h; g < G; g++ {
						if res[g].err == nil && res[g].ip != nil {
							p.a.Free(net.IPNet{IP: res[g].ip, Mask: net.CIDRMask(p.pageOrMax(), p.bitsLen())})
						}
					}
				}
				for g := 0; g < G; g++ {
					res[g] = concRes{}
				}
			}
			c.Evals++
		}
		atomic.StoreInt64(&stop, 1)
		wg.Wait()
		c.Count(fmt.Sprintf("concurrent-rounds:pool%d", pi))
		c.Dist[fmt.Sprintf("concurrent-rounds:pool%d", pi)] = rounds
	}
	// the very first Allocate calls on a FRESH allocator, made at the same moment (a server that has
	// just started and hears several new clients at once): distinct addresses
	trials := c.Scale(1500, 20000)
	for tr := 0; tr < trials; tr++ {
		a, err := bitmap.NewIPv4Allocator(net.IP{10, 5, 0, 1}, net.IP{10, 5, 0, 40})
		if err != nil {
			break
		}
		const K = 4
		var start int32
		var wg sync.WaitGroup
		got := make([]net.IP, K)
		for g := 0; g < K; g++ {
			wg.Add(1)
			go func(g int) {
				defer wg.Done()
				for atomic.LoadInt32(&start) == 0 {
				}
				if n, err := a.Allocate(net.IPNet{}); err == nil {
					got[g] = n.IP
				}
			}(g)
		}
		atomic.StoreInt32(&start, 1)
		wg.Wait()
		seenIP := map[string]int{}
		dup := false
		for g, ip := range got {
			if ip == nil {
				c.vio("C04", "concurrent-alloc-fails", "one of the first 4 simultaneous Allocate calls on a fresh 40-address allocator failed", nil)
				dup = true
				break
			}
			if prev, ok := seenIP[ip.String()]; ok {
				c.vio("C04", "double-issue-concurrent", fmt.Sprintf("fresh IPv4 allocator: goroutines %d and %d, making the very first Allocate calls at the same moment, were both given %v", prev, g, ip), map[string]interface{}{"trial": tr})
				dup = true
				break
			}
			seenIP[ip.String()] = g
		}
		c.Evals++
		if dup {
			break
		}
	}
	c.Dist["concurrent-first-allocations:trials"] = trials
	c.Extra["concurrent_phase"] = fmt.Sprintf("%d goroutines x %d rounds x %d pools (2/3 of the rounds: all goroutines hint the same free block; 1/3: no hint), GOMAXPROCS=%d, race detector: %v", G, rounds, len(pools), runtime.GOMAXPROCS(0), os.Getenv("VERIF_RACE") == "1")
}

func (p *pool) pageOrMax() int {
	if p.v6 {
		return p.page
	}
	return 32
}
func (p *pool) bitsLen() int {
	if p.v6 {
		return 128
	}
	return 32
}
