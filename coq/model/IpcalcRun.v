(* IpcalcRun.v — case type and comparison function for the C20 correspondence check *)
From Verif Require Import Base Ipcalc.
Open Scope N_scope.

Definition res_eqb {A} (eqb : A -> A -> bool) (x y : res A) : bool :=
  match x, y with
  | Ok a, Ok b => eqb a b
  | Err e, Err f => err_eqb e f
  | Panic, Panic => true
  | _, _ => false
  end.

Fixpoint mismatch_idx {A} (chk : A -> bool) (l : list A) (i : nat) : list nat :=
  match l with
  | [] => []
  | c :: l' => if chk c then mismatch_idx chk l' (S i) else i :: mismatch_idx chk l' (S i)
  end.

Inductive case :=
| COff (a b : bytes) (p : Z) (out : res N)
| CAdd (ip : bytes) (n u : N) (out : res bytes).

Definition check_case (c : case) : bool :=
  match c with
  | COff a b p out => res_eqb N.eqb (offset a b p) out
  | CAdd ip n u out => res_eqb bytes_eqb (add_prefixes ip n u) out
  end.

Definition mismatches (l : list case) : list nat := mismatch_idx check_case l 0.
