package main

// Start mode of the chain child: the configuration is handed to server.Start, exactly as
// cmds/coredhcp does - plugins.LoadPlugins once, one listener per listen address, every listener's
// own receive loop on a real socket - and the datagrams travel through the loopback interface.
// DHCPv4 datagrams are relayed ones (giaddr = an address of ours on port 67, so the reply comes
// back to a socket we hold); DHCPv6 replies return to the client socket's address and port.

import (
	"encoding/hex"
	"fmt"
	"net"
	"os"
	"path/filepath"
	"strings"
	"time"

	"github.com/coredhcp/coredhcp/config"
	"github.com/coredhcp/coredhcp/plugins"
	"github.com/coredhcp/coredhcp/server"
)

func startMain(spec chainSpec, res *chainResult) {
	dir, err := os.MkdirTemp(workDir(), "start")
	if err != nil {
		res.SetupErr = "harness: " + err.Error()
		return
	}
	defer os.RemoveAll(dir)
	for name, content := range spec.Files {
		os.WriteFile(filepath.Join(dir, name), []byte(content), 0o644)
	}
	for _, pl := range builtin {
		if err := plugins.RegisterPlugin(pl); err != nil {
			res.SetupErr = "harness: register: " + err.Error()
			return
		}
	}
	pcs := func(ps []chainPlug) []config.PluginConfig {
		var out []config.PluginConfig
		for _, p := range ps {
			args := make([]string, len(p.Args))
			for i, a := range p.Args {
				args[i] = strings.ReplaceAll(a, "$DIR", dir)
			}
			out = append(out, config.PluginConfig{Name: p.Name, Args: args})
		}
		return out
	}
	n := spec.Listeners
	if n < 1 {
		n = 1
	}
	conf := &config.Config{}
	var addrs4, addrs6 []net.UDPAddr
	if len(spec.Plugins4) > 0 {
		for i := 0; i < n; i++ {
			addrs4 = append(addrs4, net.UDPAddr{IP: net.ParseIP(fmt.Sprintf("%s.%d", spec.Net4, i+1)).To4(), Port: spec.Port})
		}
		conf.Server4 = &config.ServerConfig{Addresses: addrs4, Plugins: pcs(spec.Plugins4)}
	}
	if len(spec.Plugins6) > 0 {
		for i := 0; i < n; i++ {
			addrs6 = append(addrs6, net.UDPAddr{IP: net.IPv6loopback, Port: spec.Port + 1 + i})
		}
		conf.Server6 = &config.ServerConfig{Addresses: addrs6, Plugins: pcs(spec.Plugins6)}
	}
	var relay, client6 *net.UDPConn
	if conf.Server4 != nil {
		relay, err = net.ListenUDP("udp4", &net.UDPAddr{IP: net.ParseIP(spec.Net4 + ".8").To4(), Port: 67})
		if err != nil {
			res.SetupErr = "harness-socket: " + err.Error()
			return
		}
		defer relay.Close()
	}
	if conf.Server6 != nil {
		client6, err = net.ListenUDP("udp6", &net.UDPAddr{IP: net.IPv6loopback, Port: 0})
		if err != nil {
			res.SetupErr = "harness-socket: " + err.Error()
			return
		}
		defer client6.Close()
		res.Peer6Port = client6.LocalAddr().(*net.UDPAddr).Port
	}
	var srv *server.Servers
	func() {
		defer func() {
			if r := recover(); r != nil {
				err = fmt.Errorf("start panic: %v", r)
			}
		}()
		srv, err = server.Start(conf)
	}()
	if err != nil {
		if strings.Contains(err.Error(), "address already in use") || strings.Contains(err.Error(), "bind:") {
			res.SetupErr = "harness-socket: " + err.Error()
		} else {
			res.SetupErr = err.Error()
		}
		return
	}
	wd := time.Duration(spec.WatchdogMs) * time.Millisecond
	if wd == 0 {
		wd = 400 * time.Millisecond
	}
	buf := make([]byte, 70000)
	drain := func(c *net.UDPConn) {
		if c == nil {
			return
		}
		for {
			c.SetReadDeadline(time.Now().Add(time.Millisecond))
			if _, _, err := c.ReadFromUDP(buf); err != nil {
				return
			}
		}
	}
	for _, dg := range spec.Dgrams {
		var o chainOut
		raw, _ := hex.DecodeString(dg.Hex)
		via := dg.Via
		if via < 0 || via >= n {
			via = 0
		}
		t0 := time.Now()
		var conn *net.UDPConn
		var dst *net.UDPAddr
		if dg.Proto == 4 {
			conn, dst = relay, &addrs4[via]
		} else {
			conn, dst = client6, &addrs6[via]
		}
		if conn == nil {
			res.Outs = append(res.Outs, o)
			continue
		}
		drain(conn)
		if _, err := conn.WriteToUDP(raw, dst); err != nil {
			o.Panic = "harness: send: " + err.Error()
			res.Outs = append(res.Outs, o)
			continue
		}
		conn.SetReadDeadline(time.Now().Add(wd))
		if k, _, err := conn.ReadFromUDP(buf); err == nil {
			o.Sends = append(o.Sends, chainSend{Payload: hex.EncodeToString(buf[:k]), Dst: conn.LocalAddr().String(), IfIndex: -1})
			// a second reply to the same datagram?
			conn.SetReadDeadline(time.Now().Add(30 * time.Millisecond))
			if k2, _, err := conn.ReadFromUDP(buf); err == nil {
				o.Sends = append(o.Sends, chainSend{Payload: hex.EncodeToString(buf[:k2]), Dst: conn.LocalAddr().String(), IfIndex: -1})
			}
		}
		o.Millis = time.Since(t0).Milliseconds()
		res.Outs = append(res.Outs, o)
	}
	// shut down as cmds/coredhcp would on a listener error: Close, then Wait must come back
	done := make(chan struct{})
	go func() {
		srv.Close()
		srv.Wait()
		close(done)
	}()
	select {
	case <-done:
	case <-time.After(5 * time.Second):
		res.CloseHang = true
	}
}
