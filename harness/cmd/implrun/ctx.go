package main

// Shared plumbing of the implementation-side runner: one PRNG, Coq case files,
// monitors (violations of a property's statement seen on the implementation),
// measured input distribution, samples.

import (
	"crypto/sha256"
	"encoding/hex"
	"encoding/json"
	"fmt"
	"os"
	"path/filepath"
	"sort"
	"strings"
)

// ---- PRNG: xorshift64*, every random choice of a run derives from VERIF_SEED ----
type Rng struct{ s uint64 }

func NewRng(seed uint64) *Rng {
	r := &Rng{s: seed*0x9E3779B97F4A7C15 + 0xD1B54A32D192ED03}
	if r.s == 0 {
		r.s = 1
	}
	for i := 0; i < 4; i++ {
		r.U64()
	}
	return r
}
func (r *Rng) U64() uint64 {
	r.s ^= r.s >> 12
	r.s ^= r.s << 25
	r.s ^= r.s >> 27
	return r.s * 0x2545F4914F6CDD1D
}
func (r *Rng) Intn(n int) int {
	if n <= 0 {
		return 0
	}
	return int(r.U64() % uint64(n))
}
func (r *Rng) Bool() bool     { return r.U64()&1 == 1 }
func (r *Rng) Pct(p int) bool { return r.Intn(100) < p }
func (r *Rng) Pick(n int) int { return r.Intn(n) }
func (r *Rng) Bytes(n int) []byte {
	b := make([]byte, n)
	for i := range b {
		b[i] = byte(r.U64())
	}
	return b
}

type Violation struct {
	Kind  string      `json:"kind"`  // stable class name, matched against known_findings.jsonl
	What  string      `json:"what"`  // human-readable description
	Input interface{} `json:"input"` // replayable input / history
}

type Ctx struct {
	Prop   string
	Seed   uint64
	Tier   string
	OutDir string
	R      *Rng

	caseBuf   []string
	caseFiles int
	caseHdr   string // Require Import ... and the name of the check function
	caseFn    string
	shard     int
	concurrent bool // C16: violations of the lease guarantees found under concurrent load count for this property

	Evals      int
	distinct   map[string]bool
	Dist       map[string]int
	Samples    []interface{}
	Violations []Violation
	Notes      []string
	Extra      map[string]interface{}
}

func NewCtx(prop string, seed uint64, tier, out string) *Ctx {
	return &Ctx{Prop: prop, Seed: seed, Tier: tier, OutDir: out, R: NewRng(seed),
		Violations: []Violation{}, Samples: []interface{}{}, distinct: map[string]bool{}, Dist: map[string]int{}, Extra: map[string]interface{}{}, shard: 400}
}

func (c *Ctx) Thorough() bool { return c.Tier == "thorough" }

// Scale returns q in the quick tier and t in the thorough tier.
func (c *Ctx) Scale(q, t int) int {
	if c.Thorough() {
		return t
	}
	return q
}

func (c *Ctx) Count(key string) { c.Dist[key]++ }

// Eval records one evaluated case; canon is its canonical text (for the distinct count),
// nontrivial says whether it counts as non-trivial by the property's rule.
func (c *Ctx) Eval(canon string, nontrivial bool) {
	c.Evals++
	if nontrivial {
		h := sha256.Sum256([]byte(canon))
		c.distinct[hex.EncodeToString(h[:8])] = true
	}
}

// Breadcrumb records the case about to run, so that a crash of the whole process (fatal
// runtime error, out of memory) can be attributed to an input by the orchestrator.
func (c *Ctx) Breadcrumb(v interface{}) {
	b, _ := json.Marshal(v)
	os.WriteFile(filepath.Join(c.OutDir, "current.json"), b, 0o644)
}

func (c *Ctx) Sample(s interface{}) {
	if len(c.Samples) < 6 {
		c.Samples = append(c.Samples, s)
	}
}

func (c *Ctx) Violate(kind, what string, input interface{}) {
	// keep the first few per kind
	n := 0
	for _, v := range c.Violations {
		if v.Kind == kind {
			n++
		}
	}
	c.Dist["violation:"+kind]++
	if n < 5 {
		c.Violations = append(c.Violations, Violation{kind, what, input})
	}
}

// ---- Coq case files ----
// SetCases fixes the header of the case files of this run: the modules to import
// and the name of a function `fn : list T -> list nat` returning the indices of
// the cases on which model and implementation disagree.
func (c *Ctx) SetCases(imports, fn string) {
	c.flushCases() // a run may produce several groups of cases, each with its own check function
	c.caseHdr = imports
	c.caseFn = fn
}

// AddCase appends one case, written as a Gallina term of the case type.
func (c *Ctx) AddCase(term string) {
	c.caseBuf = append(c.caseBuf, term)
	if len(c.caseBuf) >= c.shard {
		c.flushCases()
	}
}

func (c *Ctx) flushCases() {
	if len(c.caseBuf) == 0 {
		return
	}
	name := fmt.Sprintf("cases_%03d.v", c.caseFiles)
	var sb strings.Builder
	sb.WriteString("(* written by implrun: inputs the implementation ran, with what it returned *)\n")
	sb.WriteString(c.caseHdr + "\n")
	sb.WriteString("Open Scope N_scope.\n")
	sb.WriteString("Definition cases := [\n")
	for i, t := range c.caseBuf {
		if i > 0 {
			sb.WriteString(";\n")
		}
		sb.WriteString("  " + t)
	}
	sb.WriteString("\n].\n")
	sb.WriteString("Definition M := Eval vm_compute in " + c.caseFn + " cases.\nPrint M.\n")
	sb.WriteString(fmt.Sprintf("(* NCASES %d *)\n", len(c.caseBuf)))
	if err := os.WriteFile(filepath.Join(c.OutDir, name), []byte(sb.String()), 0o644); err != nil {
		fatal(err)
	}
	// keep the terms so a mismatch index can be mapped back to the case
	idx, _ := json.Marshal(c.caseBuf)
	os.WriteFile(filepath.Join(c.OutDir, name+".json"), idx, 0o644)
	c.caseFiles++
	c.caseBuf = nil
}

func (c *Ctx) Finish() {
	c.flushCases()
	keys := make([]string, 0, len(c.Dist))
	for k := range c.Dist {
		keys = append(keys, k)
	}
	sort.Strings(keys)
	out := map[string]interface{}{
		"property": c.Prop, "seed": c.Seed, "tier": c.Tier,
		"evaluations": c.Evals, "distinct_nontrivial": len(c.distinct),
		"distribution": c.Dist, "samples": c.Samples, "violations": c.Violations,
		"case_files": c.caseFiles, "notes": c.Notes, "extra": c.Extra,
	}
	b, _ := json.MarshalIndent(out, "", " ")
	if err := os.WriteFile(filepath.Join(c.OutDir, "impl.json"), b, 0o644); err != nil {
		fatal(err)
	}
}

func fatal(err error) {
	fmt.Fprintln(os.Stderr, "implrun:", err)
	os.Exit(3)
}

// ---- Gallina printers ----
func vBytes(b []byte) string {
	if b == nil || len(b) == 0 {
		return "[]"
	}
	var sb strings.Builder
	sb.WriteByte('[')
	for i, x := range b {
		if i > 0 {
			sb.WriteByte(';')
		}
		fmt.Fprintf(&sb, "%d", x)
	}
	sb.WriteByte(']')
	return sb.String()
}
func vZ(i int64) string {
	if i < 0 {
		return fmt.Sprintf("(%d)%%Z", i)
	}
	return fmt.Sprintf("%d%%Z", i)
}
func vN(u uint64) string { return fmt.Sprintf("%d", u) }
func vBool(b bool) string {
	if b {
		return "true"
	}
	return "false"
}
func vOpt(present bool, s string) string {
	if !present {
		return "None"
	}
	return "(Some " + s + ")"
}
func vList(items []string) string { return "[" + strings.Join(items, "; ") + "]" }
func vStr(s string) string {
	// strings are modelled as byte lists
	return vBytes([]byte(s))
}
