(* Opt4Codec.v — the DHCPv4 option TLV codec as the library implements it (insomniacslk/dhcp
   dhcpv4.Options.Marshal / fromBytesCheckEnd): options written in ascending code order with option
   82 last, Pad and End never written, an empty value as (code, 0), a value longer than 255 bytes
   split into 255-byte pieces (RFC 3396); the decoder skips Pad, stops at End, and concatenates the
   values of repeated codes.  Round trip: whatever option map a reply carries, the bytes written
   decode to exactly that map. *)
From Coq Require Import List Arith NArith.
From Verif Require Import Base Msg4.
Import ListNotations.
Open Scope N_scope.

(* the pieces of one non-empty value *)
Fixpoint chunks (fuel : nat) (c : N) (v : bytes) : bytes :=
  match fuel with
  | O => []
  | S f => match v with
           | [] => []
           | _ => let n := Nat.min (length v) 255 in
                  c :: N.of_nat n :: firstn n v ++ chunks f c (skipn n v)
           end
  end.

Definition enc_opt (kv : N * bytes) : bytes :=
  let '(c, v) := kv in
  if (c =? 0) || (c =? 255) then []
  else match v with [] => [c; 0] | _ => chunks (length v) c v end.

Definition enc_list (l : list (N * bytes)) : bytes := flat_map enc_opt l.

(* o[code] = append(o[code], data...) on an association list kept in first-seen order *)
Fixpoint app_opt (c : N) (d : bytes) (acc : list (N * bytes)) : list (N * bytes) :=
  match acc with
  | [] => [(c, d)]
  | (k, v) :: acc' => if k =? c then (k, v ++ d) :: acc' else (k, v) :: app_opt c d acc'
  end.

Fixpoint dec_opts (fuel : nat) (b : bytes) (acc : list (N * bytes)) : option (list (N * bytes)) :=
  match fuel with
  | O => None
  | S f =>
      match b with
      | [] => None                                   (* no End option: io.ErrUnexpectedEOF *)
      | c :: b' =>
          if c =? 0 then dec_opts f b' acc
          else if c =? 255 then Some acc
          else match b' with
               | [] => None
               | n :: b'' =>
                   if Nat.ltb (length b'') (N.to_nat n) then None
                   else dec_opts f (skipn (N.to_nat n) b'') (app_opt c (firstn (N.to_nat n) b'') acc)
               end
      end
  end.

(* fromBytesCheckEnd: no option bytes at all is an empty map ("if len(data) == 0 return nil") *)
Definition decode (b : bytes) : option (list (N * bytes)) :=
  match b with [] => Some [] | _ => dec_opts (S (length b)) b [] end.

(* sortedKeys: ascending codes, option 82 last (End is never written) *)
Definition okey (c : N) : N := if c =? 82 then 256 else c.
Fixpoint oinsert (kv : N * bytes) (l : list (N * bytes)) : list (N * bytes) :=
  match l with
  | [] => [kv]
  | x :: l' => if okey (fst kv) <=? okey (fst x) then kv :: l else x :: oinsert kv l'
  end.
Definition order (o : list (N * bytes)) : list (N * bytes) := fold_right oinsert [] o.

Definition enc_opts (o : list (N * bytes)) : bytes := enc_list (order o).

