(* Msg6CodecProofs.v — round trip of the DHCPv6 wire-format model (lib/Msg6Codec.v): what the
   encoder writes for a packet - relay layers around a message, each layer's Relay Message option
   first - decodes to exactly that packet, at every nesting depth. *)
From Coq Require Import List Arith NArith Bool Lia ZifyN ZifyNat ZifyBool.
From Verif Require Import Base BaseProofs Net NetProofs Msg6 Msg4Codec Msg4CodecProofs Msg6Codec.
Import ListNotations.
Open Scope N_scope.
Ltac Zify.zify_post_hook ::= Z.div_mod_to_equations.

Lemma be_bytes2 x : be_bytes 2 x = [x / 256 mod 256; x mod 256].
Proof. reflexivity. Qed.

Lemma be_bytes3 x : be_bytes 3 x = [x / 256 / 256 mod 256; x / 256 mod 256; x mod 256].
Proof. reflexivity. Qed.

Definition wf_opts6 (o : opts6) : Prop :=
  Forall (fun kv => fst kv < 65536 /\ N.of_nat (length (snd kv)) < 65536) o.

Lemma enc_opts6_length o : (length o <= length (enc_opts6 o))%nat.
Proof.
  induction o as [|[c d] o IH]; [cbn; lia|]. unfold enc_opts6 in *. cbn [flat_map]. unfold enc_opt6 at 1.
  rewrite !app_length, !be_bytes_length. cbn [length]. lia.
Qed.

Lemma dec_enc_opts6 o : wf_opts6 o -> forall fuel, (length o < fuel)%nat -> dec_opts6 fuel (enc_opts6 o) = Some o.
Proof.
  induction 1 as [|[c d] o [Hc Hd] _ IH]; intros fuel Hf.
  - destruct fuel; [lia|]. reflexivity.
  - destruct fuel as [|f]; [lia|]. cbn [fst snd] in *. unfold enc_opts6. cbn [flat_map]. unfold enc_opt6 at 1. cbn [fst snd].
    rewrite !be_bytes2. cbn [app dec_opts6].
    assert (En : N.to_nat (N.of_nat (length d) / 256 mod 256 * 256 + N.of_nat (length d) mod 256) = length d) by lia.
    rewrite En. rewrite app_length.
    destruct (Nat.ltb_spec (length d + length (flat_map enc_opt6 o)) (length d)) as [Hlt|_]; [lia|].
    rewrite skipn_app_exact by reflexivity. fold (enc_opts6 o). rewrite IH by (cbn [length] in Hf; lia).
    rewrite firstn_app_exact by reflexivity.
    f_equal. f_equal. f_equal. lia.
Qed.

Record wf_imsg (m : imsg) : Prop := {
  wi_type : i_type m < 256; wi_msg : is_relay_type (i_type m) = false;
  wi_xid : i_xid m < 16777216; wi_opts : wf_opts6 (i_opts m) }.

Record wf_layer (l : layer) : Prop := {
  wl_type : is_relay_type (l_type l) = true; wl_hop : l_hop l < 256;
  wl_link : length (l_link l) = 16%nat; wl_peer : length (l_peer l) = 16%nat;
  wl_opts : wf_opts6 (l_opts l);
  wl_no9 : Forall (fun kv => fst kv <> OPT_RELAYMSG) (l_opts l) }.

(* every enclosed packet fits the 16-bit length of the Relay Message option around it *)
Fixpoint fits (ls : list layer) (inner : option imsg) : Prop :=
  match ls with
  | [] => True
  | _ :: ls' => match enc_nest ls' inner with Some nb => N.of_nat (length nb) < 65536 | None => True end /\ fits ls' inner
  end.

Lemma relay_type_small t : is_relay_type t = true -> t mod 256 = t.
Proof.
  unfold is_relay_type, MT_RELAYFORW, MT_RELAYREPL. intros H. apply orb_true_iff in H.
  destruct H as [H|H]; apply N.eqb_eq in H; subst t; reflexivity.
Qed.

Lemma filter_no9 (o : opts6) : Forall (fun kv => fst kv <> OPT_RELAYMSG) o ->
  filter (fun kv => negb (fst kv =? OPT_RELAYMSG)) o = o.
Proof.
  induction 1 as [|kv o H _ IH]; [reflexivity|]. cbn [filter].
  destruct (N.eqb_spec (fst kv) OPT_RELAYMSG) as [E|_]; [contradiction|]. cbn [negb]. rewrite IH. reflexivity.
Qed.

Lemma o6_get_no9 (o : opts6) : Forall (fun kv => fst kv <> OPT_RELAYMSG) o -> o6_get OPT_RELAYMSG o = None.
Proof.
  induction 1 as [|[k v] o H _ IH]; [reflexivity|]. cbn [o6_get]. cbn [fst] in H.
  destruct (N.eqb_spec k OPT_RELAYMSG) as [E|_]; [contradiction|]. exact IH.
Qed.

Lemma pad16 b : length b = 16%nat -> pad_to 16 b = b.
Proof. intros H. unfold pad_to. rewrite firstn_all2 by lia. rewrite H. cbn [Nat.sub repeat]. apply app_nil_r. Qed.

Lemma dec_enc_imsg m fuel : wf_imsg m -> (0 < fuel)%nat ->
  dec_pkt6 fuel (enc_imsg m) = Some {| p_layers := []; p_inner := Some m |}.
Proof.
  intros [Ht Hm Hx Ho] Hf. destruct fuel as [|f]; [lia|]. unfold enc_imsg. rewrite be_bytes3. cbn [app dec_pkt6].
  rewrite N.mod_small by exact Ht. rewrite Hm. cbn [length].
  destruct (Nat.ltb_spec (S (S (S (length (enc_opts6 (i_opts m)))))) 3) as [Hl|_]; [lia|].
  cbn [skipn firstn]. rewrite dec_enc_opts6; [|exact Ho|pose proof (enc_opts6_length (i_opts m)); lia].
  f_equal. f_equal. f_equal. destruct m as [t x o]. cbn [i_type i_xid i_opts] in *. f_equal.
  unfold be_val. cbn [fold_left]. lia.
Qed.

Theorem dec_enc_pkt6 ls : forall inner b, Forall wf_layer ls -> (forall m, inner = Some m -> wf_imsg m) ->
  fits ls inner -> enc_nest ls inner = Some b ->
  forall fuel, (length ls < fuel)%nat -> dec_pkt6 fuel b = Some {| p_layers := ls; p_inner := inner |}.
Proof.
  induction ls as [|l ls IH]; intros inner b Hl Hi Hfit Henc fuel Hfuel.
  - cbn [enc_nest] in Henc. destruct inner as [m|]; [|discriminate]. cbn [option_map] in Henc. injection Henc as <-.
    apply dec_enc_imsg; [apply Hi; reflexivity|exact Hfuel].
  - inversion Hl as [|? ? Hwl Hls]; subst. destruct Hwl as [Ht Hh Hlk Hpr Ho H9].
    cbn [enc_nest] in Henc. injection Henc as <-. destruct Hfit as [Hsz Hfit].
    destruct fuel as [|f]; [lia|]. unfold enc_layer.
    rewrite (relay_type_small _ Ht), (N.mod_small (l_hop l) 256 Hh), (pad16 _ Hlk), (pad16 _ Hpr).
    cbn [app dec_pkt6]. rewrite Ht.
    set (optsb := match enc_nest ls inner with Some nb => enc_opt6 (OPT_RELAYMSG, nb) | None => [] end ++ enc_opts6 (l_opts l)).
    set (rest := l_hop l :: l_link l ++ l_peer l ++ optsb).
    assert (Lrest : length rest = (33 + length optsb)%nat).
    { unfold rest. cbn [length]. rewrite !app_length, Hlk, Hpr. lia. }
    destruct (Nat.ltb_spec (length rest) 33) as [Hlt|_]; [lia|].
    assert (Eskip : skipn 33 rest = optsb).
    { unfold rest. change 33%nat with (S 32). rewrite skipn_cons. rewrite (app_assoc (l_link l)). apply skipn_app_exact. rewrite app_length, Hlk, Hpr. reflexivity. }
    assert (Elink : fld rest 1 16 = l_link l).
    { unfold rest, fld. change 1%nat with (S 0). rewrite skipn_cons, skipn_O. apply firstn_app_exact. exact Hlk. }
    assert (Epeer : fld rest 17 16 = l_peer l).
    { unfold rest, fld. change 17%nat with (S 16). rewrite skipn_cons. rewrite skipn_app_exact by exact Hlk. apply firstn_app_exact. exact Hpr. }
    assert (Ehop : nth 0 rest 0 = l_hop l) by reflexivity.
    rewrite Eskip, Elink, Epeer, Ehop.
    destruct (enc_nest ls inner) as [nb|] eqn:En.
    + (* an enclosed packet: the Relay Message option comes first *)
      assert (Eopts : optsb = enc_opts6 ((OPT_RELAYMSG, nb) :: l_opts l)) by reflexivity.
      rewrite Eopts. rewrite dec_enc_opts6.
      * cbn [o6_get fst]. change (OPT_RELAYMSG =? OPT_RELAYMSG) with true. cbv iota.
        rewrite (IH inner nb Hls Hi Hfit En f) by (cbn [length] in Hfuel; lia).
        cbn [p_layers p_inner filter fst]. change (negb (OPT_RELAYMSG =? OPT_RELAYMSG)) with false. cbv iota.
        rewrite (filter_no9 _ H9). destruct l; reflexivity.
      * constructor; [cbn [fst snd]; split; [unfold OPT_RELAYMSG; lia|exact Hsz]|exact Ho].
      * pose proof (enc_opts6_length ((OPT_RELAYMSG, nb) :: l_opts l)) as Hle. rewrite <- Eopts in Hle. lia.
    + (* the innermost relay layer without an enclosed packet *)
      destruct ls as [|l2 ls2]; [|discriminate En]. cbn [enc_nest] in En. destruct inner as [m|]; [discriminate En|].
      assert (Eopts : optsb = enc_opts6 (l_opts l)) by reflexivity. rewrite Eopts.
      rewrite dec_enc_opts6; [|exact Ho|pose proof (enc_opts6_length (l_opts l)) as Hle; rewrite <- Eopts in Hle; lia].
      rewrite (o6_get_no9 _ H9), (filter_no9 _ H9). destruct l; reflexivity.
Qed.

(* FromBytes (ToBytes p) = p for every well-formed packet the server can send *)
Corollary decode6_encode6 p b : Forall wf_layer (p_layers p) -> (forall m, p_inner p = Some m -> wf_imsg m) ->
  fits (p_layers p) (p_inner p) -> enc_pkt6 p = Some b -> decode6 b = Some p.
Proof.
  intros Hl Hi Hf He. unfold decode6. destruct p as [ls inner]. unfold enc_pkt6 in He. cbn [p_layers p_inner] in *.
  apply (dec_enc_pkt6 ls inner b Hl Hi Hf He).
  (* nesting depth is below the length of the datagram *)
  clear Hl Hi Hf. revert b He. induction ls as [|l ls IH]; intros b He; [cbn; lia|].
  cbn [enc_nest] in He. injection He as <-. unfold enc_layer. cbn [app length]. rewrite !app_length.
  destruct (enc_nest ls inner) as [nb|] eqn:En.
  - specialize (IH nb eq_refl). unfold enc_opt6. cbn [snd]. rewrite !app_length. cbn [length] in *. lia.
  - destruct ls; [cbn [length]; lia|discriminate En].
Qed.

(* non-vacuity: an ADVERTISE inside two Relay-Reply layers *)
Definition ex_pkt : pkt6 :=
  {| p_layers := [ {| l_type := 13; l_hop := 1; l_link := repeat 32 16; l_peer := repeat 254 16; l_opts := [(18, [1;2;3])] |};
                   {| l_type := 13; l_hop := 0; l_link := repeat 0 16; l_peer := repeat 1 16; l_opts := [] |} ];
     p_inner := Some {| i_type := 2; i_xid := 11259375; i_opts := [(1, [0;3;0;1;2;0;0;0;0;1]); (2, [0;3;0;1;0;222;173;190;239;0])] |} |}.
Example ex_pkt_roundtrip :
  match enc_pkt6 ex_pkt with Some b => decode6 b = Some ex_pkt /\ length b = 115%nat | None => False end.
Proof. vm_compute. split; reflexivity. Qed.
