(* Conc.v — the reduction behind "all schedules" (C16): threads that each run one operation made of
   a critical section (a list of micro-steps on the shared state and a thread-local store) under
   ONE mutex.  Every interleaving of the micro-steps, at any granularity, ends in the state and
   results of running the critical sections one after the other in the order the lock was taken. *)
From Coq Require Import List Arith Lia Permutation.
Import ListNotations.

Section Conc.
Variables (St Lo Re : Type).

Record op := { o_init : Lo; o_crit : list (St * Lo -> St * Lo); o_res : Lo -> Re }.

Inductive tstate := Idle | Running (rest : list (St * Lo -> St * Lo)) (l : Lo) | Done (r : Re).

Record cfg := { sh : St; lock : option nat; thr : list tstate }.

Variable ops : list op.
Variable s0 : St.

Fixpoint upd {A} (n : nat) (x : A) (l : list A) : list A :=
  match l, n with
  | [], _ => []
  | _ :: l', O => x :: l'
  | y :: l', S n' => y :: upd n' x l'
  end.

(* thread t takes its next micro-step if it can: an idle thread needs the lock to be free; only
   the holder runs micro-steps; a holder with nothing left releases the lock and is done *)
Definition step (c : cfg) (t : nat) : cfg :=
  match nth_error ops t, nth_error (thr c) t with
  | Some o, Some Idle =>
      match lock c with
      | None => {| sh := sh c; lock := Some t; thr := upd t (Running (o_crit o) (o_init o)) (thr c) |}
      | Some _ => c                                   (* blocked *)
      end
  | Some o, Some (Running [] l) => {| sh := sh c; lock := None; thr := upd t (Done (o_res o l)) (thr c) |}
  | Some o, Some (Running (f :: rest) l) =>
      let '(s', l') := f (sh c, l) in {| sh := s'; lock := lock c; thr := upd t (Running rest l') (thr c) |}
  | _, _ => c
  end.

Definition init_cfg : cfg := {| sh := s0; lock := None; thr := map (fun _ => Idle) ops |}.
Definition run (sched : list nat) : cfg := fold_left step sched init_cfg.

(* the serial semantics *)
Definition run_micro (ms : list (St * Lo -> St * Lo)) (x : St * Lo) : St * Lo := fold_left (fun x f => f x) ms x.
Definition astep (s : St) (o : op) : St * Re := let '(s', l') := run_micro (o_crit o) (s, o_init o) in (s', o_res o l').

Fixpoint serial (sigma : list nat) (s : St) : St * list (nat * Re) :=
  match sigma with
  | [] => (s, [])
  | t :: sg => match nth_error ops t with
               | Some o => let '(s1, r) := astep s o in let '(s2, rs) := serial sg s1 in (s2, (t, r) :: rs)
               | None => serial sg s
               end
  end.

Lemma serial_snoc sigma t o s : nth_error ops t = Some o ->
  serial (sigma ++ [t]) s = let '(s1, rs) := serial sigma s in let '(s2, r) := astep s1 o in (s2, rs ++ [(t, r)]).
Proof.
  intros Ho. revert s. induction sigma as [|u sg IH]; intros s; cbn [app serial].
  - rewrite Ho. destruct (astep s o). reflexivity.
  - destruct (nth_error ops u) as [ou|]; [|apply IH]. destruct (astep s ou) as [s1 r]. rewrite IH.
    destruct (serial sg s1) as [s2 rs]. destruct (astep s2 o). reflexivity.
Qed.

Lemma upd_length {A} n (x : A) l : length (upd n x l) = length l.
Proof. revert n. induction l as [|y l IH]; intros n; [destruct n; reflexivity|]. destruct n; cbn [upd length]; [reflexivity|rewrite IH; reflexivity]. Qed.

Lemma nth_upd_same {A} n (x : A) l : n < length l -> nth_error (upd n x l) n = Some x.
Proof. revert n. induction l as [|y l IH]; intros n H; [cbn in H; lia|]. destruct n; cbn [upd nth_error]; [reflexivity|apply IH; cbn in H; lia]. Qed.

Lemma nth_upd_other {A} n m (x : A) l : n <> m -> nth_error (upd n x l) m = nth_error l m.
Proof.
  revert n m. induction l as [|y l IH]; intros n m H; [destruct n; reflexivity|].
  destruct n, m; cbn [upd nth_error]; try reflexivity; [congruence|apply IH; lia].
Qed.

(* the invariant: sigma = the threads that have released the lock, in order of acquisition *)
Definition Inv (c : cfg) : Prop :=
  length (thr c) = length ops /\
  exists sigma, NoDup sigma /\
    (forall t, In t sigma -> exists r, nth_error (thr c) t = Some (Done r) /\ In (t, r) (snd (serial sigma s0))) /\
    (forall t, t < length ops -> ~ In t sigma -> lock c <> Some t -> nth_error (thr c) t = Some Idle) /\
    match lock c with
    | None => sh c = fst (serial sigma s0)
    | Some t => ~ In t sigma /\ exists o rest l pre,
                  nth_error ops t = Some o /\ nth_error (thr c) t = Some (Running rest l) /\
                  o_crit o = pre ++ rest /\ (sh c, l) = run_micro pre (fst (serial sigma s0), o_init o)
    end.

Lemma inv_init : Inv init_cfg.
Proof.
  split; [cbn; apply map_length|]. exists []. split; [constructor|]. split; [intros t []|]. split; [|reflexivity].
  intros t Ht _ _. cbn [init_cfg thr]. rewrite nth_error_map. destruct (nth_error ops t) eqn:E; [reflexivity|].
  apply nth_error_None in E. lia.
Qed.

Lemma nth_error_lt {A} (l : list A) n x : nth_error l n = Some x -> n < length l.
Proof. intros H. apply nth_error_Some. congruence. Qed.

Lemma NoDup_app_single_nat (l : list nat) x : NoDup l -> ~ In x l -> NoDup (l ++ [x]).
Proof.
  intros Hn Hx. induction l as [|y l IH]; cbn [app]; [constructor; [intros []|constructor]|].
  inversion Hn as [|? ? Hy Hl]; subst. constructor.
  - rewrite in_app_iff. intros [H|[H|[]]]; [contradiction|]. subst. apply Hx. left. reflexivity.
  - apply IH; [exact Hl|]. intros H. apply Hx. right. exact H.
Qed.

Lemma inv_step c t : Inv c -> Inv (step c t).
Proof.
  intros (Hlen & sigma & Nd & Hdone & Hidle & Hlock). unfold step.
  destruct (nth_error ops t) as [o|] eqn:Eo; [|split; [exact Hlen|exists sigma; auto]].
  destruct (nth_error (thr c) t) as [[|rest l|r]|] eqn:Et; try (split; [exact Hlen|exists sigma; auto]).
  - (* idle *)
    destruct (lock c) as [h|] eqn:El; [split; [exact Hlen|exists sigma; rewrite El; auto]|].
    assert (Htl : t < length (thr c)) by (eapply nth_error_lt; eassumption).
    assert (Hns : ~ In t sigma).
    { intros Hin. destruct (Hdone t Hin) as (r & Hr & _). congruence. }
    split; [cbn [thr]; rewrite upd_length; exact Hlen|]. exists sigma. split; [exact Nd|]. cbn [lock thr sh]. split; [|split].
    + intros u Hu. destruct (Hdone u Hu) as (r & Hr & Hin). exists r. split; [|exact Hin].
      rewrite nth_upd_other; [exact Hr|]. intros <-. contradiction.
    + intros u Hu Hnu Hlu. rewrite nth_upd_other by congruence. apply Hidle; [exact Hu|exact Hnu|first [rewrite El; discriminate|discriminate]].
    + split; [exact Hns|]. exists o, (o_crit o), (o_init o), []. split; [exact Eo|]. split; [apply nth_upd_same; exact Htl|].
      split; [reflexivity|]. cbn [run_micro fold_left]. try rewrite El in Hlock. rewrite Hlock. reflexivity.
  - (* running: t holds the lock *)
    assert (Hh : lock c = Some t).
    { destruct (lock c) as [h|] eqn:El.
      - destruct (Nat.eq_dec h t) as [->|Hne]; [reflexivity|]. exfalso.
        destruct (in_dec Nat.eq_dec t sigma) as [Hin|Hnin].
        + destruct (Hdone t Hin) as (r & Hr & _). congruence.
        + rewrite (Hidle t (nth_error_lt _ _ _ Eo) Hnin) in Et; [discriminate|congruence].
      - exfalso. destruct (in_dec Nat.eq_dec t sigma) as [Hin|Hnin].
        + destruct (Hdone t Hin) as (r & Hr & _). congruence.
        + rewrite (Hidle t (nth_error_lt _ _ _ Eo) Hnin) in Et; [discriminate|discriminate]. }
    rewrite Hh in Hlock. destruct Hlock as (Hns & o' & rest' & l' & pre & Eo' & Et' & Ecrit & Erun).
    assert (o' = o) by congruence. subst o'. assert (rest' = rest /\ l' = l) as [-> ->] by (split; congruence).
    assert (Htl : t < length (thr c)) by (eapply nth_error_lt; eassumption).
    destruct rest as [|f rest].
    + (* release: t joins sigma *)
      split; [cbn [thr]; rewrite upd_length; exact Hlen|]. exists (sigma ++ [t]).
      rewrite app_nil_r in Ecrit.
      assert (Es : serial (sigma ++ [t]) s0 = (sh c, snd (serial sigma s0) ++ [(t, o_res o l)])).
      { rewrite (serial_snoc sigma t o s0 Eo). destruct (serial sigma s0) as [ss rs]. cbn [fst snd] in *.
        unfold astep. rewrite Ecrit, <- Erun. reflexivity. }
      split; [apply NoDup_app_single_nat; assumption|]. cbn [lock thr sh]. rewrite Es. cbn [fst snd]. split; [|split; [|reflexivity]].
      * intros u Hu. apply in_app_or in Hu. destruct Hu as [Hu|[<-|[]]].
        -- destruct (Hdone u Hu) as (r & Hr & Hin). exists r. split; [|apply in_or_app; left; exact Hin].
           rewrite nth_upd_other; [exact Hr|]. intros <-. contradiction.
        -- exists (o_res o l). split; [apply nth_upd_same; exact Htl|apply in_or_app; right; left; reflexivity].
      * intros u Hu Hnu _. assert (u <> t) by (intros ->; apply Hnu; apply in_or_app; right; left; reflexivity).
        rewrite nth_upd_other by congruence. apply Hidle; [exact Hu| |congruence].
        intros Hin. apply Hnu. apply in_or_app. left. exact Hin.
    + (* one micro-step *)
      destruct (f (sh c, l)) as [s' l2] eqn:Ef.
      split; [cbn [thr]; rewrite upd_length; exact Hlen|]. exists sigma. split; [exact Nd|]. cbn [lock thr sh]. rewrite Hh. split; [|split].
      * intros u Hu. destruct (Hdone u Hu) as (r & Hr & Hin). exists r. split; [|exact Hin].
        rewrite nth_upd_other; [exact Hr|]. intros <-. contradiction.
      * intros u Hu Hnu Hlu. rewrite nth_upd_other by congruence. apply Hidle; [exact Hu|exact Hnu|rewrite Hh; exact Hlu].
      * split; [exact Hns|]. exists o, rest, l2, (pre ++ [f]). split; [exact Eo|]. split; [apply nth_upd_same; exact Htl|].
        split; [rewrite <- app_assoc; exact Ecrit|]. unfold run_micro in *. rewrite fold_left_app, <- Erun. cbn [fold_left]. symmetry. exact Ef.
Qed.

Lemma inv_run sched : Inv (run sched).
Proof.
  unfold run. assert (H : forall c, Inv c -> Inv (fold_left step sched c)).
  { induction sched as [|t sched IH]; intros c Hc; [exact Hc|]. cbn [fold_left]. apply IH. apply inv_step. exact Hc. }
  apply H. apply inv_init.
Qed.

Definition all_done (c : cfg) : Prop := forall t, t < length ops -> exists r, nth_error (thr c) t = Some (Done r).

(* Every schedule that runs all threads to completion - whatever the interleaving of their
   micro-steps - leaves the shared state, and gives every thread the result, of running the
   critical sections one at a time in some order sigma (the order in which the lock was taken). *)
Theorem serialisable sched : all_done (run sched) ->
  exists sigma, Permutation sigma (seq 0 (length ops)) /\
    sh (run sched) = fst (serial sigma s0) /\
    lock (run sched) = None /\
    forall t r, nth_error (thr (run sched)) t = Some (Done r) -> In (t, r) (snd (serial sigma s0)).
Proof.
  intros Hd. destruct (inv_run sched) as (Hlen & sigma & Nd & Hdone & Hidle & Hlock). exists sigma.
  assert (Hall : forall t, t < length ops -> In t sigma).
  { intros t Ht. destruct (in_dec Nat.eq_dec t sigma) as [Hin|Hnin]; [exact Hin|]. exfalso.
    destruct (Hd t Ht) as (r & Hr). destruct (lock (run sched)) as [h|] eqn:El.
    - destruct (Nat.eq_dec h t) as [->|Hne].
      + destruct Hlock as (_ & o & rest & l & pre & _ & Hrun & _). congruence.
      + rewrite (Hidle t Ht Hnin) in Hr; [discriminate|congruence].
    - rewrite (Hidle t Ht Hnin) in Hr; [discriminate|discriminate]. }
  assert (Hsub : forall t, In t sigma -> t < length ops).
  { intros t Hin. destruct (Hdone t Hin) as (r & Hr & _). rewrite <- Hlen. eapply nth_error_lt. exact Hr. }
  assert (Hnone : lock (run sched) = None).
  { destruct (lock (run sched)) as [h|] eqn:El; [|reflexivity]. exfalso.
    destruct Hlock as (Hns & o & rest & l & pre & Ho & _). apply Hns. apply Hall. eapply nth_error_lt. exact Ho. }
  split.
  - apply NoDup_Permutation; [exact Nd|apply seq_NoDup|]. intros t. rewrite in_seq. split; [intros H; split; [lia|apply Hsub; exact H]|intros [_ H]; apply Hall; exact H].
  - rewrite Hnone in Hlock. split; [exact Hlock|]. split; [exact Hnone|].
    intros t r Hr. assert (Ht : t < length ops) by (rewrite <- Hlen; eapply nth_error_lt; exact Hr).
    destruct (Hdone t (Hall t Ht)) as (r' & Hr' & Hin). assert (r' = r) by congruence. subst r'. exact Hin.
Qed.

Lemma classic_not_all_done c sigma :
  (forall t, In t sigma -> exists r, nth_error (thr c) t = Some (Done r) /\ In (t, r) (snd (serial sigma s0))) ->
  ~ all_done c -> exists t, t < length ops /\ ~ In t sigma.
Proof.
  intros Hdone Hnd.
  assert (H : forall n, n <= length ops -> (forall t, t < n -> In t sigma) \/ exists t, t < n /\ ~ In t sigma).
  { induction n as [|n IH]; intros Hn; [left; intros t Ht; lia|].
    destruct (IH ltac:(lia)) as [Hall|(t & Ht & Hni)]; [|right; exists t; split; [lia|exact Hni]].
    destruct (in_dec Nat.eq_dec n sigma) as [Hin|Hnin]; [left; intros t Ht; destruct (Nat.eq_dec t n) as [->|]; [exact Hin|apply Hall; lia]|right; exists n; split; [lia|exact Hnin]]. }
  destruct (H (length ops) (Nat.le_refl _)) as [Hall|(t & Ht & Hn)]; [|exists t; split; assumption].
  exfalso. apply Hnd. intros t Ht. destruct (Hdone t (Hall t Ht)) as (r & Hr & _). exists r. exact Hr.
Qed.

(* no schedule can get stuck: while some thread is not done, some thread can take a step that
   changes the configuration (the lock holder, or - when the lock is free - any idle thread) *)
Theorem progress c : Inv c -> ~ all_done c -> exists t, step c t <> c.
Proof.
  intros (Hlen & sigma & Nd & Hdone & Hidle & Hlock) Hnd. destruct (lock c) as [h|] eqn:El.
  - destruct Hlock as (_ & o & rest & l & pre & Ho & Hr & _). exists h. unfold step. rewrite Ho, Hr.
    destruct rest as [|f rest]; [intros Hc; rewrite <- Hc in El; discriminate|].
    destruct (f (sh c, l)) as [s' l2]. intros Hc. assert (E : nth_error (thr c) h = Some (Running rest l2)).
    { rewrite <- Hc at 1. cbn [thr]. apply nth_upd_same. eapply nth_error_lt. exact Hr. }
    rewrite Hr in E. injection E as E _. clear - E. revert f E. induction rest as [|x rest IH]; intros f E; [discriminate|].
    injection E as _ E. exact (IH x E).
  - (* some thread is not done; it is not in sigma, hence idle *)
    assert (Hex : exists t, t < length ops /\ ~ In t sigma).
    { destruct (classic_not_all_done c sigma Hdone Hnd) as (t & Ht & Hn). exists t. split; assumption. }
    destruct Hex as (t & Ht & Hn). exists t. unfold step.
    destruct (nth_error ops t) as [o|] eqn:Eo; [|apply nth_error_None in Eo; lia].
    rewrite (Hidle t Ht Hn), El by (rewrite ?El; discriminate). intros Hc. rewrite <- Hc in El. discriminate.
Qed.
End Conc.
