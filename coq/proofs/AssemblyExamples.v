(* AssemblyExamples.v — non-vacuity for C01: a concrete chain (dns, the range plugin on a
   2-address range, router) is valid, and a history with a malformed datagram, a BOOTREPLY, three
   clients (the third finds the range exhausted) and a renewal runs to one outcome each. *)
From Verif Require Import Base Net Msg4 Setup PluginRun Server4 Plugins4 RangePlugin RangeRun RangeExamples Assembly AssemblyProofs.
Open Scope N_scope.

Definition ex_T : tables :=
  {| t_ip := [([49;46;49;46;49;46;49], Some [1;1;1;1]); ([49;48;46;48;46;48;46;57], Some [10;0;0;9])];
     t_cidr := []; t_dur := []; t_atoi := []; t_mac := []; t_url := [] |}.

Definition ex_dns : plug4 := PDns [[1;1;1;1]].
Definition ex_router : plug4 := PRouter [[10;0;0;9]].

Lemma ex_dns_setup : setup4 (oracles_of ex_T) NDns [[49;46;49;46;49;46;49]] = SetOk ex_dns.
Proof. vm_compute. reflexivity. Qed.
Lemma ex_router_setup : setup4 (oracles_of ex_T) NRouter [[49;48;46;48;46;48;46;57]] = SetOk ex_router.
Proof. vm_compute. reflexivity. Qed.

Definition ex_chain : list inst4 := [I4Plug ex_dns; I4Range ex_st0; I4Plug ex_router].

Lemma ex_chain_ok : Forall inst4_ok ex_chain.
Proof.
  apply Forall_cons; [exact (plug4_inst_ok _ _ _ _ ex_dns_setup)|].
  apply Forall_cons; [apply (range_inst_ok ex_s ex_e ex_lease ex_st0); [repeat constructor|repeat constructor|exact ex_setup]|].
  apply Forall_cons; [exact (plug4_inst_ok _ _ _ _ ex_router_setup)|apply Forall_nil].
Qed.

Definition ex_req (mt : N) (c : bytes) : msg4 :=
  {| m_op := 1; m_htype := 1; m_hops := 0; m_xid := 7; m_secs := 0; m_flags := 32768;
     m_ciaddr := [0;0;0;0]; m_yiaddr := [0;0;0;0]; m_siaddr := [0;0;0;0]; m_giaddr := [0;0;0;0];
     m_chaddr := c; m_sname := []; m_file := []; m_opts := [(53, [mt]); (55, [3;6])] |}.

Definition ex_hist : list dgram4 :=
  [ (1000%Z, None, None);                                                 (* does not parse *)
    (1000%Z, None, Some (ex_req 2 [2;0;0;0;0;1]));                          (* an OFFER sent to the server *)
    (2000%Z, None, Some (ex_req 1 [2;0;0;0;0;1]));
    (3000%Z, None, Some (ex_req 1 [2;0;0;0;0;2]));
    (4000%Z, None, Some (ex_req 1 [2;0;0;0;0;3]));                          (* range exhausted *)
    (5000%Z, None, Some (ex_req 3 [2;0;0;0;0;1])) ].                        (* renewal still served *)

Definition ex_kind (o : outcome4) : N * bytes :=
  match o with O4Sent _ m => (1, m_yiaddr m) | O4Drop w => (0, [w]) | O4Panic => (2, []) end.

Lemma ex_hist_wf : Forall wf_dgram4 ex_hist.
Proof. repeat constructor. Qed.

Lemma ex_outcomes :
  map ex_kind (snd (srv4_run ex_chain 0 ex_hist)) =
  [(0, [1]); (0, [3]); (1, [10;0;0;1]); (1, [10;0;0;2]); (0, [4]); (1, [10;0;0;1])].
Proof. vm_compute. reflexivity. Qed.
