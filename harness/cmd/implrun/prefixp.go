package main

// C08, C09: message histories through the prefix plugin (Plugin.Setup6, or a Handler built by
// the verif hook so that its records can be read), messages built on the wire.

import (
	"bytes"
	"encoding/binary"
	"fmt"
	"math/big"
	"net"
	"sort"
	"strings"
	"sync"
	"time"

	"github.com/coredhcp/coredhcp/handler"
	"github.com/coredhcp/coredhcp/plugins/allocators/bitmap"
	"github.com/coredhcp/coredhcp/plugins/prefix"
	"github.com/insomniacslk/dhcp/dhcpv6"
	"github.com/insomniacslk/dhcp/iana"
)

func init() {
	runners["C08"] = runPrefix
	runners["C09"] = runPrefix
}

type pdHint struct {
	life         uint32 // preferred and valid lifetime the client puts into the IAPrefix (seconds)
	absentPrefix bool   // IAPrefix with length 0: the library yields a nil prefix
	ip           net.IP
	plen         int
	class        string
}

type pdIA struct {
	iaid  [4]byte
	hints []pdHint
	other int // 1: a status-code sub-option, 2: an unknown sub-option next to (or instead of) the IAPrefix options
}

// wire form of an IA_PD option payload
func iapdPayload(ia pdIA) []byte {
	var b bytes.Buffer
	b.Write(ia.iaid[:])
	b.Write(make([]byte, 8)) // T1, T2
	for _, h := range ia.hints {
		var p bytes.Buffer
		binary.Write(&p, binary.BigEndian, h.life) // preferred lifetime
		binary.Write(&p, binary.BigEndian, h.life) // valid lifetime
		if h.absentPrefix {
			p.WriteByte(0)
			p.Write(make([]byte, 16))
		} else {
			p.WriteByte(byte(h.plen))
			ip := h.ip.To16()
			if ip == nil {
				ip = make([]byte, 16)
			}
			p.Write(ip)
		}
		binary.Write(&b, binary.BigEndian, uint16(dhcpv6.OptionIAPrefix))
		binary.Write(&b, binary.BigEndian, uint16(p.Len()))
		b.Write(p.Bytes())
	}
	switch ia.other {
	case 1: // Status Code option (13): status 0, empty message
		b.Write([]byte{0, 13, 0, 2, 0, 0})
	case 2: // an option code nobody knows
		b.Write([]byte{0xfd, 0xe8, 0, 3, 1, 2, 3})
	}
	return b.Bytes()
}

func vHint(h *dhcpv6.OptIAPrefix) string {
	if h.Prefix == nil {
		return "None"
	}
	return fmt.Sprintf("(Some (%s, %s))", vBytes(h.Prefix.IP), vBytes(h.Prefix.Mask))
}

type pfxPool struct {
	cidr string
	page int
}

type pfxKey struct {
	ip   string
	ones int
}

func runPrefix(c *Ctx) {
	c.SetCases("From Verif Require Import Base PrefixPlugin PrefixRun.", "PrefixRun.mismatches")
	c.shard = 30
	defer func() {
		// the same plugin instance behind two listeners of a server started with server.Start
		c.SetCases(asmCasesHdr, "AsmRun.mismatches")
		c.shard = 12
		startScenarioPD(c)
	}()
	r := c.R
	pools := []pfxPool{{"2001:db8::/62", 64}, {"2001:db8:0:100::/56", 64}, {"2001:db8:0:218::/60", 64} /* written with host bits set */, {"fd00::/126", 128}, {"2001:db8:1::/48", 56}, {"2001:db8::/63", 64}, {"2001:db8:ffff:ff00::/61", 64}, {"fd00::/48", 64}}
	nh := c.Scale(60, 1500)
	for hi := 0; hi < nh; hi++ {
		runPrefixHistory(c, hi, pools[r.Intn(len(pools))], 1+r.Intn(c.Scale(30, 40)), nil)
	}
	// scripted: hint-less, ::/0, two prefixes in one message then renewing only the second
	for k, pl := range pools[:3] {
		p2 := pdHint{absentPrefix: true, class: "length-0"}
		runPrefixHistory(c, 9000+2*k, pl, 10, []pfxScript{
			{client: 0, ias: []pdIA{{iaid: [4]byte{0, 0, 0, 1}}}},
			{client: 0, ias: []pdIA{{iaid: [4]byte{0, 0, 0, 1}, other: 1}}},
			{client: 0, ias: []pdIA{{iaid: [4]byte{0, 0, 0, 1}, other: 2}}},
			{client: 0, ias: []pdIA{{iaid: [4]byte{0, 0, 0, 1}, hints: []pdHint{p2}}}},
			{client: 0, ias: []pdIA{{iaid: [4]byte{0, 0, 0, 1}}}},
			{client: 1, ias: []pdIA{{iaid: [4]byte{0, 0, 0, 1}}, {iaid: [4]byte{0, 0, 0, 2}, hints: []pdHint{{ip: net.IPv6zero, plen: pl.page + 8, class: "length-only"}}}}},
			{client: 1, ias: []pdIA{{iaid: [4]byte{0, 0, 0, 2}, hints: []pdHint{{class: "second-held"}}}}},
			{client: 1, ias: []pdIA{{iaid: [4]byte{0, 0, 0, 2}, hints: []pdHint{{class: "second-held"}}}}},
			{client: 1, ias: []pdIA{{iaid: [4]byte{0, 0, 0, 1}, hints: []pdHint{p2}}}},
			{client: 0, ias: []pdIA{{iaid: [4]byte{0, 0, 0, 9}, hints: []pdHint{p2, p2, p2}}}},
			{client: 0, ias: []pdIA{{iaid: [4]byte{0, 0, 0, 9}, hints: []pdHint{p2, p2, p2}}}},
			{client: 0, ias: []pdIA{{iaid: [4]byte{0, 0, 0, 9}, hints: []pdHint{p2, p2, p2}}}},
		})
	}
	runPrefixGate(c)
	runPrefixConcurrent(c, c.Scale(20, 300))
	c.Extra["rule"] = "histories of 1..40 DHCPv6 messages from 1..6 clients through the prefix plugin (odd histories through Plugin.Setup6, even ones through a Handler built by the verif hook so that its records are read back), each with 0..3 IA_PDs of 0..3 hints drawn from {none, length-only, length 0 (nil prefix on the wire), in-pool free, held by self (exact), held by another client, out of pool, longer than the allocation size, duplicate, length > 128}, direct or relayed, on pools small enough to exhaust; concurrent phase: the same client's hint-less request from 8 goroutines at once; non-trivial = distinct history with >= 2 messages and >= 1 delegation"
}

type pfxScript struct {
	client int
	ias    []pdIA
	relay  int
	noCid  bool
}

func runPrefixHistory(c *Ctx, hi int, pl pfxPool, nmsgs int, script []pfxScript) {
	r := c.R
	_, pn, _ := net.ParseCIDR(pl.cidr)
	var h6 handler.Handler6
	var hook *prefix.Handler
	if hi%2 == 1 {
		var err error
		sizeArg := fmt.Sprint(pl.page)
		switch hi % 8 { // the allocation length as an operator may write it: a decimal number however it is padded or signed
		case 3:
			sizeArg = fmt.Sprintf("%03d", pl.page)
		case 7:
			sizeArg = fmt.Sprintf("+%d", pl.page)
		}
		h6, err = prefix.Plugin.Setup6(pl.cidr, sizeArg)
		if err != nil {
			c.Violate("harness-setup", "prefix Setup6 failed: "+err.Error(), nil)
			return
		}
	} else {
		alloc, err := bitmap.NewBitmapAllocator(*pn, pl.page)
		if err != nil {
			c.Violate("harness-setup", "NewBitmapAllocator failed: "+err.Error(), nil)
			return
		}
		hook = prefix.NewVerifHandler(alloc)
		h6 = hook.Handle
	}
	poolOnes, _ := pn.Mask.Size()
	nblocks := 1 << uint(pl.page-poolOnes)
	base := new(big.Int).SetBytes(pn.IP.To16())
	blockOf := func(ip net.IP) (int, bool) {
		v := new(big.Int).SetBytes(ip.To16())
		d := new(big.Int).Sub(v, base)
		if d.Sign() < 0 {
			return 0, false
		}
		low := new(big.Int).And(d, new(big.Int).Sub(new(big.Int).Lsh(big.NewInt(1), uint(128-pl.page)), big.NewInt(1)))
		d.Rsh(d, uint(128-pl.page))
		if d.Cmp(big.NewInt(int64(nblocks))) >= 0 {
			return 0, false
		}
		return int(d.Int64()), low.Sign() == 0
	}
	blockIP := func(i int) net.IP {
		v := new(big.Int).Lsh(big.NewInt(int64(i)), uint(128-pl.page))
		v.Add(v, base)
		b := v.Bytes()
		out := make([]byte, 16)
		copy(out[16-len(b):], b)
		return out
	}
	ncl := 1 + r.Intn(6)
	if script != nil && ncl < 2 {
		ncl = 2
	}
	duids := []dhcpv6.DUID{}
	for i := 0; i < ncl; i++ {
		switch {
		case i >= 2 && i%4 >= 2: // the link-layer address of client 0 under two hardware types without a registered name
			duids = append(duids, &dhcpv6.DUIDLL{HWType: iana.HWType(198 + i%4), LinkLayerAddr: net.HardwareAddr{2, 0, 0, 0, byte(hi), 0}})
		default:
			duids = append(duids, &dhcpv6.DUIDLL{HWType: iana.HWTypeEthernet, LinkLayerAddr: net.HardwareAddr{2, 0, 0, 0, byte(hi), byte(i)}})
		}
	}
	held := make([]map[pfxKey]bool, ncl) // what replies told each client it holds
	for i := range held {
		held[i] = map[pfxKey]bool{}
	}
	owner := map[int]int{} // block -> client
	var ops, outs, opS []string
	rec := func() map[string]interface{} {
		return map[string]interface{}{"pool": pl.cidr, "allocation_length": pl.page, "messages": opS, "replies": outs}
	}
	genHint := func(cl int) pdHint {
		switch r.Intn(10) {
		case 0:
			return pdHint{absentPrefix: true, class: "length-0"}
		case 1:
			return pdHint{ip: net.IPv6zero, plen: []int{pl.page, pl.page + 8, 48, 64, 127}[r.Intn(5)], class: "length-only"}
		case 2:
			return pdHint{ip: blockIP(r.Intn(nblocks)), plen: pl.page, class: "in-pool"}
		case 3, 4:
			// exact: something this client holds
			for k := range held[cl] {
				return pdHint{ip: net.ParseIP(k.ip), plen: k.ones, class: "held-by-self"}
			}
			return pdHint{ip: blockIP(r.Intn(nblocks)), plen: pl.page, class: "in-pool"}
		case 5:
			for o := range held {
				if o != cl {
					for k := range held[o] {
						return pdHint{ip: net.ParseIP(k.ip), plen: k.ones, class: "held-by-other"}
					}
				}
			}
			return pdHint{ip: net.ParseIP("2001:dead::"), plen: pl.page, class: "out-of-pool"}
		case 6:
			return pdHint{ip: net.ParseIP("2001:dead::"), plen: pl.page, class: "out-of-pool"}
		case 7:
			ip := blockIP(r.Intn(nblocks))
			if pl.page+16 <= 128 {
				ip[(pl.page/8)+1] |= 0x5a
				return pdHint{ip: ip, plen: pl.page + 16, class: "longer-than-allocation"}
			}
			return pdHint{ip: ip, plen: pl.page, class: "in-pool"}
		case 8:
			if strings.HasPrefix(pl.cidr, "fd00::/48") && r.Bool() {
				// shorter than the pool itself and not canonical: the address with its host bits cut is the pool
				// base, the address as written is far outside
				return pdHint{ip: net.ParseIP("fdff:ffff:ffff:ffff::"), plen: 8, class: "short-non-canonical"}
			}
			return pdHint{ip: blockIP(r.Intn(nblocks)), plen: 200, class: "length-over-128"}
		}
		return pdHint{ip: blockIP(r.Intn(nblocks)), plen: pl.page - 4, class: "shorter-than-allocation"}
	}
	for mi := 0; mi < nmsgs; mi++ {
		var sc pfxScript
		if script != nil {
			if mi >= len(script) {
				break
			}
			sc = script[mi]
		} else {
			sc.client = r.Intn(ncl)
			sc.relay = []int{0, 0, 0, 1, 2}[r.Intn(5)]
			sc.noCid = r.Pct(3)
			nia := []int{1, 1, 1, 0, 2, 3}[r.Intn(6)]
			for k := 0; k < nia; k++ {
				ia := pdIA{}
				copy(ia.iaid[:], r.Bytes(4))
				nhint := []int{0, 0, 1, 1, 1, 2, 3}[r.Intn(7)]
				for j := 0; j < nhint; j++ {
					h := genHint(sc.client)
					if r.Pct(30) {
						h.life = []uint32{60, 1, 3600, 86400, 0xffffffff}[r.Intn(5)]
					}
					if j > 0 && r.Pct(15) {
						h = ia.hints[0]
						h.class = "duplicate"
					}
					ia.hints = append(ia.hints, h)
				}
				if r.Pct(25) {
					ia.other = 1 + r.Intn(2) // e.g. a renewing client echoing the status code it was sent
					c.Count("iapd-with-other-suboption")
				}
				sc.ias = append(sc.ias, ia)
			}
			// retransmission of the previous message now and then
		}
		for ai := range sc.ias {
			for hj := range sc.ias[ai].hints {
				if sc.ias[ai].hints[hj].class == "second-held" {
					ks := []pfxKey{}
					for k := range held[sc.client] {
						ks = append(ks, k)
					}
					sort.Slice(ks, func(a, b int) bool { return ks[a].ip+fmt.Sprint(ks[a].ones) < ks[b].ip+fmt.Sprint(ks[b].ones) })
					if len(ks) > 0 {
						k := ks[len(ks)-1]
						sc.ias[ai].hints[hj] = pdHint{ip: net.ParseIP(k.ip), plen: k.ones, class: "held-by-self"}
					} else {
						sc.ias[ai].hints[hj] = pdHint{absentPrefix: true, class: "length-0"}
					}
				}
			}
		}
		m := &dhcpv6.Message{MessageType: []dhcpv6.MessageType{dhcpv6.MessageTypeSolicit, dhcpv6.MessageTypeRequest, dhcpv6.MessageTypeRenew}[r.Intn(3)]}
		copy(m.TransactionID[:], r.Bytes(3))
		if !sc.noCid {
			m.AddOption(dhcpv6.OptClientID(duids[sc.client]))
		}
		classes := []string{}
		for _, ia := range sc.ias {
			m.AddOption(&dhcpv6.OptionGeneric{OptionCode: dhcpv6.OptionIAPD, OptionData: iapdPayload(ia)})
			if len(ia.hints) == 0 {
				classes = append(classes, "no-hint")
				c.Count("hint:no-hint")
			}
			for _, h := range ia.hints {
				classes = append(classes, h.class)
				c.Count("hint:" + h.class)
			}
		}
		var d dhcpv6.DHCPv6 = m
		for k := 0; k < sc.relay; k++ {
			d, _ = dhcpv6.EncapsulateRelay(d, dhcpv6.MessageTypeRelayForward, net.IP(r.Bytes(16)), net.IP(r.Bytes(16)))
		}
		req, perr := dhcpv6.FromBytes(d.ToBytes())
		if perr != nil {
			continue
		}
		inner, _ := req.GetInnerMessage()
		resp0 := &dhcpv6.Message{MessageType: dhcpv6.MessageTypeReply, TransactionID: inner.TransactionID}
		// the model's view of the request
		clientTxt := "None"
		if cid := inner.Options.ClientID(); cid != nil {
			clientTxt = "(Some " + vBytes(cid.ToBytes()) + ")"
		}
		pdItems := []string{}
		reqIAs := inner.Options.IAPD()
		for _, ia := range reqIAs {
			hs := []string{}
			for _, p := range ia.Options.Prefixes() {
				hs = append(hs, vHint(p))
			}
			pdItems = append(pdItems, fmt.Sprintf("(%s, %s)", vBytes(ia.IaId[:]), vList(hs)))
		}
		// the hints as the client sent them (the handler may write into the request: it replaces a nil prefix)
		type hintInfo struct {
			isNil bool
			key   pfxKey
			ip    net.IP
		}
		reqInfo := make([][]hintInfo, len(reqIAs))
		for k, ia := range reqIAs {
			for _, p := range ia.Options.Prefixes() {
				if p.Prefix == nil {
					reqInfo[k] = append(reqInfo[k], hintInfo{isNil: true})
				} else {
					ones, _ := p.Prefix.Mask.Size()
					reqInfo[k] = append(reqInfo[k], hintInfo{key: pfxKey{p.Prefix.IP.String(), ones}, ip: append(net.IP{}, p.Prefix.IP...)})
				}
			}
		}
		c.Breadcrumb(rec())
		if hook != nil && !sc.noCid && r.Pct(25) {
			// time lapse: the client's leases ran out some time ago (their record stays)
			back := []time.Duration{30 * time.Minute, 2 * time.Hour, 61 * time.Minute}[r.Intn(3)]
			hook.Lock()
			ls := hook.Records[string(duids[sc.client].ToBytes())]
			for i := range ls {
				ls[i].Expire = ls[i].Expire.Add(-back)
			}
			hook.Unlock()
			if len(ls) > 0 {
				c.Count("time-lapse:" + back.String())
				opS = append(opS, fmt.Sprintf("(client %d: %v pass)", sc.client, back))
			}
		}
		t0 := time.Now()
		var out dhcpv6.DHCPv6
		var stop, panicked bool
		var pv interface{}
		done := make(chan struct{})
		go func() {
			defer close(done)
			defer func() {
				if x := recover(); x != nil {
					panicked, pv = true, x
				}
			}()
			out, stop = h6(req, resp0)
		}()
		select {
		case <-done:
		case <-time.After(10 * time.Second):
			c.Violate("prefix-handler-blocked", "the prefix handler did not return within 10 s (a lock left held by an earlier request?)", rec())
			return
		}
		ops = append(ops, fmt.Sprintf("PReq %s %s %s", vZ(t0.UnixNano()), clientTxt, vList(pdItems)))
		opS = append(opS, fmt.Sprintf("client %d relay-depth %d IA_PDs %d hints %v", sc.client, sc.relay, len(sc.ias), classes))
		switch {
		case panicked:
			outs = append(outs, "OPanic")
			c.vio("C09", "prefix-handler-panic", fmt.Sprintf("the prefix handler panics: %v", pv), rec())
			mi = nmsgs
			continue
		case out == nil:
			outs = append(outs, "ODrop")
			c.Count("result:drop")
			if !stop {
				c.vio("C13", "nil-without-stop", "prefix: nil response without stop", rec())
			}
			if !sc.noCid {
				c.vio("C08", "prefix-dropped", "a request with a client identifier was dropped", rec())
			}
			continue
		}
		c.Count("result:reply")
		// observed reply, as it parses back from the wire
		back, berr := dhcpv6.FromBytes(out.ToBytes())
		if berr != nil {
			c.vio("C08", "reply-unparseable", "the reply does not parse: "+berr.Error(), rec())
			return
		}
		bm, _ := back.GetInnerMessage()
		respIAs := bm.Options.IAPD()
		obsItems := []string{}
		for _, ia := range respIAs {
			ps := []string{}
			for _, p := range ia.Options.Prefixes() {
				if p.Prefix != nil {
					ps = append(ps, fmt.Sprintf("(%s, %s)", vBytes(p.Prefix.IP), vBytes(p.Prefix.Mask)))
				}
			}
			obsItems = append(obsItems, fmt.Sprintf("(%s, %s)", vBytes(ia.IaId[:]), vList(ps)))
		}
		outs = append(outs, "OResp "+vList(obsItems))
		// ---------------- monitors ----------------
		if len(respIAs) != len(reqIAs) {
			c.vio("C08", "iapd-count", fmt.Sprintf("%d IA_PD options in the request, %d in the reply", len(reqIAs), len(respIAs)), rec())
			continue
		}
		var recsNow map[string][]string
		if hook != nil {
			recsNow = hook.VerifRecords()
		}
		cl := sc.client
		heldBefore := map[pfxKey]bool{}
		for k := range held[cl] {
			heldBefore[k] = true
		}
		newThisMsg := map[pfxKey]bool{}
		for k, ia := range respIAs {
			if ia.IaId != reqIAs[k].IaId {
				c.vio("C08", "iapd-iaid", fmt.Sprintf("IA_PD %d of the reply has IAID %x, the request has %x", k, ia.IaId, reqIAs[k].IaId), rec())
			}
			prefs := ia.Options.Prefixes()
			if len(prefs) == 0 {
				st := ia.Options.Status()
				if st == nil || st.StatusCode != iana.StatusNoPrefixAvail {
					c.vio("C08", "iapd-empty", fmt.Sprintf("IA_PD %d of the reply has neither a prefix nor a NoPrefixAvail status", k), rec())
				}
			}
			got := map[pfxKey]bool{}
			for _, p := range prefs {
				if p.Prefix == nil {
					c.vio("C08", "prefix-malformed", "a delegated prefix has length 0", rec())
					continue
				}
				ones, bits := p.Prefix.Mask.Size()
				blk, aligned := blockOf(p.Prefix.IP)
				if !pn.Contains(p.Prefix.IP) || bits != 128 {
					c.vio("C08", "prefix-outside-pool", fmt.Sprintf("delegated %v is not inside the pool %s", p.Prefix, pl.cidr), rec())
					continue
				}
				if !aligned || ones < pl.page {
					c.vio("C08", "prefix-shape", fmt.Sprintf("delegated %v is not aligned to / larger than the allocation size /%d", p.Prefix, pl.page), rec())
				}
				// every delegated prefix is valid for the full hour from now (never less than what remained,
				// whatever lifetime the client wrote into its hint)
				if p.PreferredLifetime <= 3590*time.Second || p.PreferredLifetime != p.ValidLifetime || p.ValidLifetime > 3600*time.Second {
					c.Violate("prefix-lifetime", fmt.Sprintf("delegated %v has preferred %v valid %v (every delegation is valid for the hour from now: never shorter than what remained)", p.Prefix, p.PreferredLifetime, p.ValidLifetime), rec())
				}
				if o, ok := owner[blk]; ok && o != cl {
					c.vio("C08", "prefix-overlap", fmt.Sprintf("block %d (%v) delegated to client %d while client %d holds it", blk, p.Prefix, cl, o), rec())
				}
				owner[blk] = cl
				key := pfxKey{p.Prefix.IP.String(), ones}
				got[key] = true
				held[cl][key] = true
				if recsNow != nil && !sc.noCid {
					found := false
					for _, s := range recsNow[string(duids[cl].ToBytes())] {
						if s == p.Prefix.String() {
							found = true
						}
					}
					if !found {
						c.vio("C09", "prefix-not-remembered", fmt.Sprintf("%v was delegated to client %d in this reply but is not in its record afterwards", p.Prefix, cl), rec())
					}
				}
			}
			// C09: renewals and repeats
			reqHints := reqInfo[k]
			hintless := len(reqHints) == 0 || (len(reqHints) == 1 && reqHints[0].isNil)
			for _, hp := range reqHints {
				if hp.isNil {
					continue
				}
				key := hp.key
				if heldBefore[key] && !got[key] {
					// an exact hint for a prefix the client holds - unless another IA_PD of this message was already answered with it
					already := false
					for kk := 0; kk < k; kk++ {
						for _, q := range respIAs[kk].Options.Prefixes() {
							if q.Prefix != nil && q.Prefix.IP.Equal(hp.ip) {
								already = true
							}
						}
					}
					if !already {
						c.vio("C09", "renewal-not-honoured", fmt.Sprintf("client %d holds %s/%d and asked for exactly it, the IA_PD was answered with %v", cl, key.ip, key.ones, keysOf(got)), rec())
					}
				}
			}
			// an IA_PD made only of hints for exactly-held prefixes (or of no hint) must not be given a new prefix
			onlyKnown := len(heldBefore) > 0
			for _, hp := range reqHints {
				if hp.isNil {
					continue
				}
				if !heldBefore[hp.key] {
					onlyKnown = false
				}
			}
			if onlyKnown {
				// each empty hint takes one held prefix (the last one all that is left): new prefixes
				// are only due when there are more empty hints than held prefixes not asked for by name
				empties, named := 0, map[pfxKey]bool{}
				for _, hp := range reqHints {
					if hp.isNil {
						empties++
					} else {
						named[hp.key] = true
					}
				}
				if len(reqHints) == 0 {
					empties = 1
				}
				allowed := empties - (len(heldBefore) - len(named))
				if allowed < 0 {
					allowed = 0
				}
				fresh := []string{}
				for key := range got {
					if !heldBefore[key] && !newThisMsg[key] {
						fresh = append(fresh, fmt.Sprintf("%s/%d", key.ip, key.ones))
					}
				}
				if len(fresh) > allowed {
					c.vio("C09", "retransmit-consumes-block", fmt.Sprintf("client %d holds %v and sent an IA_PD asking only for what it holds or for nothing in particular (%d hints, %d of them empty); it was given %d new prefixes %v where at most %d are due", cl, keysOf(heldBefore), len(reqHints), empties, len(fresh), fresh, allowed), rec())
				}
			}
			for key := range got {
				if !heldBefore[key] {
					newThisMsg[key] = true
				}
			}
			if hintless && len(respIAs) == 1 && len(heldBefore) > 0 {
				for key := range got {
					if !heldBefore[key] {
						c.vio("C09", "hintless-new-prefix", fmt.Sprintf("client %d holds %v; its hint-less IA_PD was answered with the new prefix %v", cl, keysOf(heldBefore), key), rec())
					}
				}
				for key := range heldBefore {
					if !got[key] {
						c.vio("C09", "hintless-missing-prefix", fmt.Sprintf("client %d holds %v; its hint-less IA_PD was not answered with %v", cl, keysOf(heldBefore), key), rec())
					}
				}
			}
		}
	}
	c.AddCase(fmt.Sprintf("CPfx %s %s %s %s %s", vBytes(pn.IP), vBytes(pn.Mask), vZ(int64(pl.page)), vList(ops), vList(outs)))
	ndel := 0
	for _, h := range held {
		ndel += len(h)
	}
	c.Eval(pl.cidr+strings.Join(ops, ";"), len(ops) >= 2 && ndel >= 1)
	c.Count(fmt.Sprintf("pool-blocks:%d", nblocks))
	if hi%11 == 0 {
		k := len(opS)
		if k > 4 {
			k = 4
		}
		c.Sample(map[string]interface{}{"pool": pl.cidr, "allocation_length": pl.page, "clients": ncl, "messages(first 4)": opS[:k], "replies(first 4)": outs[:k], "length": len(opS)})
	}
}

func keysOf(m map[pfxKey]bool) []string {
	out := []string{}
	for k := range m {
		out = append(out, fmt.Sprintf("%s/%d", k.ip, k.ones))
	}
	sort.Strings(out)
	return out
}

// runPrefixConcurrent: the same client's hint-less request from G goroutines at the same moment
// must give every goroutine the same single prefix and use one block; different clients get
// different blocks.
func runPrefixConcurrent(c *Ctx, rounds int) {
	G := 8
	for ri := 0; ri < rounds; ri++ {
		h6, err := prefix.Plugin.Setup6("2001:db8:0:100::/56", "64")
		if err != nil {
			return
		}
		same := ri%2 == 0
		res := make([][]string, G)
		var wg sync.WaitGroup
		start := make(chan struct{})
		for g := 0; g < G; g++ {
			wg.Add(1)
			go func(g int) {
				defer wg.Done()
				defer func() { recover() }()
				mac := net.HardwareAddr{2, 9, 9, byte(ri), 0, 0}
				if !same {
					mac[5] = byte(g)
				}
				m := &dhcpv6.Message{MessageType: dhcpv6.MessageTypeSolicit}
				m.AddOption(dhcpv6.OptClientID(&dhcpv6.DUIDLL{HWType: iana.HWTypeEthernet, LinkLayerAddr: mac}))
				m.AddOption(&dhcpv6.OptionGeneric{OptionCode: dhcpv6.OptionIAPD, OptionData: iapdPayload(pdIA{iaid: [4]byte{0, 0, 0, 1}})})
				req, _ := dhcpv6.FromBytes(m.ToBytes())
				resp := &dhcpv6.Message{MessageType: dhcpv6.MessageTypeAdvertise}
				<-start
				out, _ := h6(req, resp)
				if out == nil {
					return
				}
				om, _ := out.GetInnerMessage()
				for _, ia := range om.Options.IAPD() {
					for _, p := range ia.Options.Prefixes() {
						res[g] = append(res[g], p.Prefix.String())
					}
				}
			}(g)
		}
		close(start)
		wg.Wait()
		c.Evals++
		input := map[string]interface{}{"goroutines": G, "same_client": same, "replies": res}
		seen := map[string]int{}
		for g := 0; g < G; g++ {
			if len(res[g]) != 1 {
				c.vio("C09", "concurrent-reply-shape", fmt.Sprintf("concurrent hint-less requests: goroutine %d was answered with %v", g, res[g]), input)
				continue
			}
			seen[res[g][0]]++
		}
		if same && len(seen) > 1 {
			c.vio("C09", "concurrent-same-client", fmt.Sprintf("the same client's hint-less request and its concurrent retransmissions were answered with different prefixes %v", res), input)
		}
		if !same && len(seen) != G {
			c.vio("C08", "prefix-overlap", fmt.Sprintf("%d different clients asking concurrently were given only %d different prefixes: %v", G, len(seen), res), input)
		}
		// afterwards the client(s) must get the same prefix again
	}
	c.Dist["concurrent-prefix-rounds"] = rounds
}

// slowAlloc sleeps inside Allocate (the caller holds the plugin lock meanwhile).  A goroutine that
// has waited for a sync.Mutex for more than 1 ms is handed the lock directly when it is released,
// so if the handler gave the lock up between the IA_PDs of one message, the other message would
// get in at exactly that point.
type slowAlloc struct {
	inner interface {
		Allocate(hint net.IPNet) (net.IPNet, error)
		Free(net.IPNet) error
	}
}

func (s *slowAlloc) Allocate(hint net.IPNet) (net.IPNet, error) {
	time.Sleep(3 * time.Millisecond)
	return s.inner.Allocate(hint)
}
func (s *slowAlloc) Free(p net.IPNet) error { return s.inner.Free(p) }

// runPrefixMultiIA: two clients each send one message with four IA_PDs hinting the four blocks of
// the pool, at the same moment.  Whichever message is handled first takes all four blocks; in every
// one-at-a-time order of the two MESSAGES one client gets four prefixes and the other none.
func runPrefixMultiIA(c *Ctx, rounds int) {
	for ri := 0; ri < rounds; ri++ {
		_, pn, _ := net.ParseCIDR("2001:db8:0:100::/62")
		inner, err := bitmap.NewBitmapAllocator(*pn, 64)
		if err != nil {
			return
		}
		h := prefix.NewVerifHandler(&slowAlloc{inner: inner})
		mk := func(cl byte) dhcpv6.DHCPv6 {
			m := &dhcpv6.Message{MessageType: dhcpv6.MessageTypeSolicit}
			m.AddOption(dhcpv6.OptClientID(&dhcpv6.DUIDLL{HWType: iana.HWTypeEthernet, LinkLayerAddr: net.HardwareAddr{2, 8, 9, byte(ri), 0, cl}}))
			for k := 0; k < 4; k++ {
				ip := net.ParseIP(fmt.Sprintf("2001:db8:0:10%d::", k))
				m.AddOption(&dhcpv6.OptionGeneric{OptionCode: dhcpv6.OptionIAPD, OptionData: iapdPayload(pdIA{iaid: [4]byte{0, 0, 0, byte(k + 1)}, hints: []pdHint{{ip: ip, plen: 64}}})})
			}
			req, _ := dhcpv6.FromBytes(m.ToBytes())
			return req
		}
		got := make([][]string, 2)
		var wg sync.WaitGroup
		start := make(chan struct{})
		for k := 0; k < 2; k++ {
			wg.Add(1)
			go func(k int) {
				defer wg.Done()
				defer func() { recover() }()
				req := mk(byte(k + 1))
				<-start
				out, _ := h.Handle(req, &dhcpv6.Message{MessageType: dhcpv6.MessageTypeAdvertise})
				if out == nil {
					return
				}
				om, _ := out.GetInnerMessage()
				for _, ia := range om.Options.IAPD() {
					for _, p := range ia.Options.Prefixes() {
						got[k] = append(got[k], p.Prefix.String())
					}
				}
			}(k)
		}
		close(start)
		wg.Wait()
		c.Evals++
		c.Count("multi-iapd-round")
		if len(got[0]) != 0 && len(got[1]) != 0 {
			c.vio("C16", "message-not-atomic", fmt.Sprintf("two messages with four IA_PDs each, handled concurrently on a 4-block pool, were given %d and %d prefixes (%v / %v): in every one-at-a-time order of the messages one client gets all four", len(got[0]), len(got[1]), got[0], got[1]),
				map[string]interface{}{"pool": "2001:db8:0:100::/62 /64", "client 1": got[0], "client 2": got[1]})
		}
	}
}

// gateAlloc lets the harness hold a message inside the allocator.
type gateAlloc struct {
	inner interface {
		Allocate(hint net.IPNet) (net.IPNet, error)
		Free(net.IPNet) error
	}
	entered chan int
	release chan struct{}
	gated   int32
	mu      sync.Mutex
	n       int
}

func (g *gateAlloc) Allocate(hint net.IPNet) (net.IPNet, error) {
	g.mu.Lock()
	g.n++
	k := g.n
	first := g.gated == 0
	g.gated = 1
	g.mu.Unlock()
	g.entered <- k
	if first {
		<-g.release
	}
	return g.inner.Allocate(hint)
}
func (g *gateAlloc) Free(p net.IPNet) error { return g.inner.Free(p) }

// runPrefixGate forces the interleaving "a second message arrives while the first one is inside
// the allocator": with one critical section per message the second cannot get in before the
// first has recorded its lease, so a client and its retransmission get the same prefix.
func runPrefixGate(c *Ctx) {
	for _, same := range []bool{true, false} {
		_, pn, _ := net.ParseCIDR("2001:db8:0:100::/56")
		inner, err := bitmap.NewBitmapAllocator(*pn, 64)
		if err != nil {
			return
		}
		g := &gateAlloc{inner: inner, entered: make(chan int, 8), release: make(chan struct{})}
		h := prefix.NewVerifHandler(g)
		mk := func(i byte) dhcpv6.DHCPv6 {
			m := &dhcpv6.Message{MessageType: dhcpv6.MessageTypeSolicit}
			m.AddOption(dhcpv6.OptClientID(&dhcpv6.DUIDLL{HWType: iana.HWTypeEthernet, LinkLayerAddr: net.HardwareAddr{2, 8, 8, 0, 0, i}}))
			m.AddOption(&dhcpv6.OptionGeneric{OptionCode: dhcpv6.OptionIAPD, OptionData: iapdPayload(pdIA{iaid: [4]byte{0, 0, 0, 1}})})
			req, _ := dhcpv6.FromBytes(m.ToBytes())
			return req
		}
		res := make([][]string, 2)
		var wg sync.WaitGroup
		run := func(k int, cl byte) {
			defer wg.Done()
			defer func() { recover() }()
			out, _ := h.Handle(mk(cl), &dhcpv6.Message{MessageType: dhcpv6.MessageTypeAdvertise})
			if out == nil {
				return
			}
			om, _ := out.GetInnerMessage()
			for _, ia := range om.Options.IAPD() {
				for _, p := range ia.Options.Prefixes() {
					res[k] = append(res[k], p.Prefix.String())
				}
			}
		}
		wg.Add(1)
		go run(0, 1)
		<-g.entered // the first message is inside Allocate, and stays there
		second := byte(1)
		if !same {
			second = 2
		}
		wg.Add(1)
		go run(1, second)
		overlapped := false
		select {
		case <-g.entered:
			overlapped = true // the second message got into the allocator while the first was still inside
		case <-time.After(150 * time.Millisecond):
		}
		close(g.release)
		wg.Wait()
		c.Evals++
		c.Count("forced-interleaving")
		input := map[string]interface{}{"schedule": "message 1 held inside Allocate; message 2 (same client: " + fmt.Sprint(same) + ") started; then message 1 released", "replies": res, "second_entered_allocator_meanwhile": overlapped}
		if overlapped {
			c.vio("C16", "critical-section-open", "a second message entered the allocator while the first was between its record lookup and its record update (the plugin lock does not cover the whole message)", input)
		}
		if same && (len(res[0]) != 1 || len(res[1]) != 1 || res[0][0] != res[1][0]) {
			c.vio("C09", "concurrent-same-client", fmt.Sprintf("a client's hint-less request and its retransmission, arriving while the first was being handled, were answered with %v and %v", res[0], res[1]), input)
		}
		if !same && len(res[0]) == 1 && len(res[1]) == 1 && res[0][0] == res[1][0] {
			c.vio("C08", "prefix-overlap", fmt.Sprintf("two clients handled concurrently were both given %v", res[0]), input)
		}
	}
}
