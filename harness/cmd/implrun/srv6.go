package main

// C12 (and the DHCPv6 half of C13): raw datagrams through HandleMsg6 via the capture hook.

import (
	"os"
	"bytes"
	"errors"
	"fmt"
	"net"
	"strings"

	"github.com/coredhcp/coredhcp/handler"
	"github.com/coredhcp/coredhcp/server"
	"github.com/insomniacslk/dhcp/dhcpv6"
	"github.com/insomniacslk/dhcp/iana"
	"golang.org/x/net/ipv6"
)

func init() {
	runners["C12"] = func(c *Ctx) {
		runSrv6(c)
		runServeLoop6(c, c.Scale(12, 300)) // the same statement through the receive loop on a real socket
		emitCodec6(c)                      // every datagram and reply of the run against the wire-format model
	}
}

// ---- Gallina printers ----
// optCanon, when set, replaces the payload of an option by a canonical form (C01: IA_PD)
var optCanon func(o dhcpv6.Option) ([]byte, bool)

func vOpts6(opts dhcpv6.Options, skipRelayMsg bool) string {
	items := []string{}
	for _, o := range opts {
		if skipRelayMsg && o.Code() == dhcpv6.OptionRelayMsg {
			continue
		}
		if optCanon != nil {
			if b, ok := optCanon(o); ok {
				items = append(items, fmt.Sprintf("(%d, %s)", uint16(o.Code()), vBytes(b)))
				continue
			}
		}
		items = append(items, fmt.Sprintf("(%d, %s)", uint16(o.Code()), vBytes(o.ToBytes())))
	}
	return vListRuns(items)
}

// vListRuns prints a list, runs of 16 or more identical items as `repeat item n` (a zero-padded
// datagram parses into thousands of empty options; Coq elaborates long list literals slowly)
func vListRuns(items []string) string {
	long := false
	for i := 0; i < len(items); {
		j := i
		for j < len(items) && items[j] == items[i] {
			j++
		}
		if j-i >= 16 {
			long = true
		}
		i = j
	}
	if !long {
		return vList(items)
	}
	parts := []string{}
	cur := []string{}
	for i := 0; i < len(items); {
		j := i
		for j < len(items) && items[j] == items[i] {
			j++
		}
		if j-i >= 16 {
			if len(cur) > 0 {
				parts = append(parts, vList(cur))
				cur = nil
			}
			parts = append(parts, fmt.Sprintf("repeat %s (N.to_nat %d)", items[i], j-i))
		} else {
			cur = append(cur, items[i:j]...)
		}
		i = j
	}
	if len(cur) > 0 {
		parts = append(parts, vList(cur))
	}
	return "(" + strings.Join(parts, " ++ ") + ")"
}

func vIMsg(m *dhcpv6.Message) string {
	xid := uint32(m.TransactionID[0])<<16 | uint32(m.TransactionID[1])<<8 | uint32(m.TransactionID[2])
	return fmt.Sprintf("{| i_type := %d; i_xid := %d; i_opts := %s |}", uint8(m.MessageType), xid, vOpts6(m.Options.Options, false))
}

// vPkt6 prints a parsed packet as layers + innermost message, following the first Relay Message option.
func vPkt6(d dhcpv6.DHCPv6) (string, int) {
	layers := []string{}
	for d != nil && d.IsRelay() {
		rm := d.(*dhcpv6.RelayMessage)
		layers = append(layers, fmt.Sprintf("{| l_type := %d; l_hop := %d; l_link := %s; l_peer := %s; l_opts := %s |}",
			uint8(rm.MessageType), rm.HopCount, vBytes(rm.LinkAddr), vBytes(rm.PeerAddr), vOpts6(rm.Options.Options, true)))
		inner := rm.Options.RelayMessage()
		if inner == nil {
			return fmt.Sprintf("{| p_layers := %s; p_inner := None |}", vList(layers)), len(layers)
		}
		d = inner
	}
	return fmt.Sprintf("{| p_layers := %s; p_inner := Some %s |}", vList(layers), vIMsg(d.(*dhcpv6.Message))), len(layers)
}

type v6inv struct {
	idx    int
	depth  int // relay depth of the request the handler received
	resp   dhcpv6.DHCPv6
	ret    dhcpv6.DHCPv6
	stop   bool
	digest string
}

func digest6(r dhcpv6.DHCPv6) string {
	if r == nil {
		return "None"
	}
	n := 0
	d := r
	for d != nil && d.IsRelay() {
		n++
		d = d.(*dhcpv6.RelayMessage).Options.RelayMessage()
	}
	items := []string{}
	if m, ok := d.(*dhcpv6.Message); ok && m != nil {
		for _, o := range m.Options.Options {
			if uint16(o.Code()) >= 200 {
				items = append(items, fmt.Sprintf("(%d, %s)", uint16(o.Code()), vBytes(o.ToBytes())))
			}
		}
	}
	return fmt.Sprintf("(Some (%d%%nat, %s))", n, vList(items))
}

type sbeh6 struct {
	coq string
	tag string
	par int
}

func mkHandler6(idx int, b sbeh6, log *[]v6inv) handler.Handler6 {
	return func(req, resp dhcpv6.DHCPv6) (ret dhcpv6.DHCPv6, stop bool) {
		depth := 0
		for d := req; d != nil && d.IsRelay(); d = d.(*dhcpv6.RelayMessage).Options.RelayMessage() {
			depth++
		}
		in := v6inv{idx: idx, depth: depth, resp: resp, digest: digest6(resp)}
		defer func() {
			in.ret, in.stop = ret, stop
			*log = append(*log, in)
		}()
		plain := func() *dhcpv6.Message {
			if m, ok := resp.(*dhcpv6.Message); ok {
				return m
			}
			return nil
		}
		switch b.tag {
		case "p":
			return resp, false
		case "m":
			if resp == nil {
				return nil, false
			}
			if m := plain(); m != nil {
				m.AddOption(&dhcpv6.OptionGeneric{OptionCode: dhcpv6.OptionCode(200 + b.par), OptionData: []byte{byte(b.par)}})
			}
			return resp, false
		case "r":
			n := &dhcpv6.Message{MessageType: dhcpv6.MessageTypeReply}
			if im, err := req.GetInnerMessage(); err == nil {
				n.TransactionID = im.TransactionID
			}
			n.AddOption(&dhcpv6.OptionGeneric{OptionCode: 240, OptionData: []byte{byte(b.par)}})
			return n, false
		case "s":
			if resp == nil {
				return nil, true
			}
			if m := plain(); m != nil {
				m.AddOption(&dhcpv6.OptionGeneric{OptionCode: 230, OptionData: []byte{byte(b.par)}})
			}
			return resp, true
		case "x":
			return nil, true
		case "n":
			return nil, false
		case "R":
			if resp == nil {
				return nil, false
			}
			if m := plain(); m != nil {
				rm := &dhcpv6.RelayMessage{MessageType: dhcpv6.MessageTypeRelayReply, LinkAddr: net.ParseIP("::1"), PeerAddr: net.ParseIP("::2")}
				rm.AddOption(dhcpv6.OptRelayMessage(m))
				return rm, false
			}
			return resp, false
		}
		return resp, false
	}
}

type sent6 struct {
	payload []byte
	cm      *ipv6.ControlMessage
	dst     net.Addr
}

// datagrams and replies of the run, for the wire-format correspondence (model/Msg6Run.v)
var codec6Cases []string

func emitCodec6(c *Ctx) {
	c.SetCases("From Verif Require Import Base Msg6 Msg6Codec Msg6Run.", "Msg6Run.mismatches")
	c.shard = 150
	seen := map[string]bool{}
	for _, t := range codec6Cases {
		if seen[t] {
			continue
		}
		seen[t] = true
		c.AddCase(t)
		c.Count("codec6:" + t[:5])
	}
	codec6Cases = nil
}

func runDatagram6(c *Ctx, chain []sbeh6, lif int, oob *int, peer *net.UDPAddr, raw []byte, label string) {
	installHook()
	var lg []v6inv
	hs := []handler.Handler6{}
	names := []string{}
	for i, b := range chain {
		hs = append(hs, mkHandler6(i, b, &lg))
		names = append(names, b.coq)
	}
	var sents []sent6
	l := server.NewVerifListener6(hs, net.Interface{Index: lif}, func(p []byte, cm *ipv6.ControlMessage, dst net.Addr) {
		sents = append(sents, sent6{p, cm, dst})
	})
	defer l.Close()
	var cm *ipv6.ControlMessage
	oobTxt := "None"
	if oob != nil {
		cm = &ipv6.ControlMessage{IfIndex: *oob}
		oobTxt = "(Some " + vZ(int64(*oob)) + ")"
	}
	input := map[string]interface{}{"datagram_hex": fmt.Sprintf("%x", raw), "chain": names, "listener_ifindex": lif, "oob_ifindex": oobTxt, "peer": peer.String(), "case": label}
	c.Breadcrumb(input)
	panicked, pv := false, interface{}(nil)
	func() {
		defer func() {
			if r := recover(); r != nil {
				panicked, pv = true, r
			}
		}()
		l.Handle(raw, cm, peer)
	}()
	if panicked {
		c.Violate("handle6-panic", fmt.Sprintf("HandleMsg6 panicked: %v (chain %v)", pv, names), input)
		return
	}
	d, perr := dhcpv6.FromBytes(raw)
	parsedTxt, depth := "None", 0
	if perr == nil {
		var t string
		t, depth = vPkt6(d)
		parsedTxt = "(Some " + t + ")"
	}
	if len(raw) < 3000 {
		codec6Cases = append(codec6Cases, fmt.Sprintf("C6Dec %s %s", vBytes(raw), parsedTxt))
	}
	sentTxt := "None"
	var resp dhcpv6.DHCPv6
	switch {
	case len(sents) > 1:
		c.Violate("more-than-one-reply", fmt.Sprintf("%d datagrams written for one request", len(sents)), input)
		return
	case len(sents) == 1:
		s := sents[0]
		ua, _ := s.dst.(*net.UDPAddr)
		var e2 error
		resp, e2 = dhcpv6.FromBytes(s.payload)
		if e2 != nil || ua == nil {
			c.Violate("reply-unparseable", fmt.Sprintf("the reply does not parse: %v", e2), input)
			return
		}
		ifx := "None"
		if s.cm != nil {
			ifx = "(Some " + vZ(int64(s.cm.IfIndex)) + ")"
		}
		pt, _ := vPkt6(resp)
		if len(s.payload) < 3000 {
			codec6Cases = append(codec6Cases, fmt.Sprintf("C6Enc %s %s", pt, vBytes(s.payload)))
		}
		sentTxt = fmt.Sprintf("(Some (%s, %s, %s, %s))", pt, vBytes(ua.IP.To16()), vZ(int64(ua.Port)), ifx)
	}
	logItems := []string{}
	for _, in := range lg {
		logItems = append(logItems, fmt.Sprintf("(%d%%nat, %d%%nat, %s)", in.idx, in.depth, in.digest))
	}
	c.AddCase(fmt.Sprintf("CS6 %s %s %s %s %s %s %s %s", vList(names), vZ(int64(lif)), oobTxt, vBytes(peer.IP.To16()), vZ(int64(peer.Port)), parsedTxt, sentTxt, vList(logItems)))
	c.Eval(fmt.Sprintf("%x|%v|%d|%s|%s", raw, names, lif, oobTxt, peer), perr == nil)
	c.Count("case6:" + label)
	c.Count(fmt.Sprintf("relay-depth:%d", depth))
	if len(sents) == 1 {
		c.Count("outcome6:reply")
	} else {
		c.Count("outcome6:no-reply")
	}
	if c.Evals%89 == 0 {
		c.Sample(map[string]interface{}{"case": label, "chain": names, "datagram_hex": fmt.Sprintf("%x", raw), "peer": peer.String(), "relay_depth": depth, "replied": len(sents) == 1})
	}
	// ---------------- monitors (C12) ----------------
	if len(sents) == 1 {
		if perr != nil {
			c.vio("C12", "reply-to-unparseable", "a datagram the library rejects was answered", input)
			return
		}
		inner, ierr := d.GetInnerMessage()
		if ierr != nil {
			c.vio("C12", "reply-without-inner", "a relay packet without an inner message was answered", input)
			return
		}
		ua := sents[0].dst.(*net.UDPAddr)
		if !ua.IP.Equal(peer.IP) || ua.Port != peer.Port || ua.Zone != peer.Zone {
			c.vio("C12", "dest6-not-source", fmt.Sprintf("reply sent to %v, the request came from %v", ua, peer), input)
		}
		wantIf := 0
		if peer.IP.IsLinkLocalUnicast() {
			wantIf = lif
			if wantIf == 0 && oob != nil {
				wantIf = *oob
			}
		}
		gotIf, pinned := 0, sents[0].cm != nil
		if pinned {
			gotIf = sents[0].cm.IfIndex
		}
		if peer.IP.IsLinkLocalUnicast() && gotIf != wantIf {
			c.vio("C12", "dest6-interface", fmt.Sprintf("reply to the link-local address %v pinned to interface %d, expected %d", peer.IP, gotIf, wantIf), input)
		}
		if !peer.IP.IsLinkLocalUnicast() && pinned {
			c.vio("C12", "dest6-pinned-global", fmt.Sprintf("reply to %v is pinned to interface %d", peer.IP, gotIf), input)
		}
		// the plain-message chains: type table, xid, client id, relay mirroring
		wellBehaved := true
		for _, b := range chain {
			if b.tag == "r" || b.tag == "R" || b.tag == "n" {
				wellBehaved = false
			}
		}
		if wellBehaved {
			rinner, rerr := resp.GetInnerMessage()
			if rerr != nil {
				c.vio("C12", "reply6-no-inner", "the reply has no inner message", input)
				return
			}
			t := inner.MessageType
			rapid := inner.GetOneOption(dhcpv6.OptionRapidCommit) != nil
			want := dhcpv6.MessageTypeNone
			switch t {
			case dhcpv6.MessageTypeSolicit:
				want = dhcpv6.MessageTypeAdvertise
				if rapid {
					want = dhcpv6.MessageTypeReply
				}
			case dhcpv6.MessageTypeRequest, dhcpv6.MessageTypeConfirm, dhcpv6.MessageTypeRenew, dhcpv6.MessageTypeRebind,
				dhcpv6.MessageTypeRelease, dhcpv6.MessageTypeInformationRequest:
				want = dhcpv6.MessageTypeReply
			}
			if want == dhcpv6.MessageTypeNone {
				c.vio("C12", "reply6-unsupported-type", fmt.Sprintf("message type %d was answered", t), input)
			} else if rinner.MessageType != want {
				c.vio("C12", "reply6-wrong-type", fmt.Sprintf("message type %d (rapid commit %v) answered with type %d, expected %d", t, rapid, rinner.MessageType, want), input)
			}
			if t == dhcpv6.MessageTypeSolicit && rapid != (rinner.GetOneOption(dhcpv6.OptionRapidCommit) != nil) {
				c.vio("C12", "reply6-rapid-commit", fmt.Sprintf("Rapid Commit in the SOLICIT: %v, in the reply: %v", rapid, !rapid), input)
			}
			if rinner.TransactionID != inner.TransactionID {
				c.vio("C12", "reply6-xid", "the reply does not carry the transaction id of the request", input)
			}
			cid := inner.GetOneOption(dhcpv6.OptionClientID)
			rcid := rinner.GetOneOption(dhcpv6.OptionClientID)
			if cid == nil || rcid == nil || !bytes.Equal(cid.ToBytes(), rcid.ToBytes()) {
				c.vio("C12", "reply6-client-id", "the reply does not carry the client identifier of the request", input)
			}
			// relay mirroring, layer by layer
			rq, rp := d, resp
			for li := 0; ; li++ {
				if rq.IsRelay() != rp.IsRelay() {
					c.vio("C12", "relay-depth", fmt.Sprintf("request relayed through %d layers, reply nesting differs at layer %d", depth, li), input)
					break
				}
				if !rq.IsRelay() {
					break
				}
				a, b := rq.(*dhcpv6.RelayMessage), rp.(*dhcpv6.RelayMessage)
				if b.MessageType != dhcpv6.MessageTypeRelayReply {
					c.vio("C12", "relay-type", fmt.Sprintf("layer %d of the reply has type %d", li, b.MessageType), input)
				}
				if !a.LinkAddr.Equal(b.LinkAddr) || !a.PeerAddr.Equal(b.PeerAddr) {
					c.vio("C12", "relay-addresses", fmt.Sprintf("layer %d: link/peer address %v/%v answered with %v/%v", li, a.LinkAddr, a.PeerAddr, b.LinkAddr, b.PeerAddr), input)
				}
				ia, ib := a.GetOneOption(dhcpv6.OptionInterfaceID), b.GetOneOption(dhcpv6.OptionInterfaceID)
				if (ia == nil) != (ib == nil) || (ia != nil && !bytes.Equal(ia.ToBytes(), ib.ToBytes())) {
					c.vio("C12", "relay-interface-id", fmt.Sprintf("layer %d: Interface-ID not mirrored", li), input)
				}
				rq, rp = a.Options.RelayMessage(), b.Options.RelayMessage()
				if rq == nil || rp == nil {
					break
				}
			}
		}
	}
	// C13 (DHCPv6 half): order, stop, request identity
	if perr == nil {
		stopped := false
		for k, in := range lg {
			if in.idx != k {
				c.vio("C13", "chain-order", fmt.Sprintf("DHCPv6: invocation %d ran handler %d", k, in.idx), input)
				break
			}
			if stopped {
				c.vio("C13", "chain-after-stop", fmt.Sprintf("DHCPv6: handler %d ran after stop", in.idx), input)
			}
			if in.depth != depth {
				c.vio("C13", "chain-request", fmt.Sprintf("DHCPv6: handler %d received a request with %d relay layers, the datagram has %d", in.idx, in.depth, depth), input)
			}
			if k > 0 && in.resp != lg[k-1].ret {
				c.vio("C13", "chain-threading", fmt.Sprintf("DHCPv6: handler %d was not handed the response returned by handler %d", in.idx, in.idx-1), input)
			}
			stopped = in.stop
		}
	}
}

type req6spec struct {
	mtype   uint8
	xid     [3]byte
	cid     dhcpv6.DUID // nil = absent
	rapid   bool
	extra   []dhcpv6.Option
	layers  []relaySpec // outermost first
	noInner bool        // innermost relay carries no Relay Message option
}

type relaySpec struct {
	mtype      dhcpv6.MessageType
	link, peer net.IP
	ifaceID    []byte // nil = absent
	remoteID   []byte
	hop        uint8
}

func buildReq6(s req6spec) []byte {
	m := &dhcpv6.Message{MessageType: dhcpv6.MessageType(s.mtype), TransactionID: dhcpv6.TransactionID(s.xid)}
	if s.cid != nil {
		m.AddOption(dhcpv6.OptClientID(s.cid))
	}
	if s.rapid {
		m.AddOption(&dhcpv6.OptionGeneric{OptionCode: dhcpv6.OptionRapidCommit})
	}
	for _, o := range s.extra {
		m.AddOption(o)
	}
	var d dhcpv6.DHCPv6 = m
	for i := len(s.layers) - 1; i >= 0; i-- {
		ls := s.layers[i]
		rm := &dhcpv6.RelayMessage{MessageType: ls.mtype, HopCount: ls.hop, LinkAddr: ls.link, PeerAddr: ls.peer}
		if ls.ifaceID != nil {
			rm.AddOption(dhcpv6.OptInterfaceID(ls.ifaceID))
		}
		if !(s.noInner && i == len(s.layers)-1) {
			rm.AddOption(dhcpv6.OptRelayMessage(d))
		}
		if ls.remoteID != nil {
			rm.AddOption(&dhcpv6.OptRemoteID{EnterpriseNumber: 9, RemoteID: ls.remoteID})
		}
		d = rm
	}
	return d.ToBytes()
}

func randDUID(c *Ctx) dhcpv6.DUID {
	r := c.R
	switch r.Intn(4) {
	case 0:
		return &dhcpv6.DUIDLL{HWType: iana.HWTypeEthernet, LinkLayerAddr: net.HardwareAddr(r.Bytes(6))}
	case 1:
		return &dhcpv6.DUIDLLT{HWType: iana.HWTypeEthernet, Time: uint32(r.U64()), LinkLayerAddr: net.HardwareAddr(r.Bytes(6))}
	case 2:
		return &dhcpv6.DUIDEN{EnterpriseNumber: uint32(r.Intn(70000)), EnterpriseIdentifier: r.Bytes(1 + r.Intn(8))}
	}
	var u [16]byte
	copy(u[:], r.Bytes(16))
	return &dhcpv6.DUIDUUID{UUID: u}
}

func randLayers(c *Ctx, n int) []relaySpec {
	r := c.R
	out := []relaySpec{}
	for i := 0; i < n; i++ {
		ls := relaySpec{mtype: dhcpv6.MessageTypeRelayForward, link: net.IP(r.Bytes(16)), peer: net.IP(r.Bytes(16)), hop: uint8(r.Intn(8))}
		if (i > 0 && r.Pct(10)) || (i == 0 && r.Pct(6)) {
			ls.mtype = dhcpv6.MessageTypeRelayReply // (also as the outermost layer: a Relay-Reply sent to the server)
		}
		if r.Pct(60) {
			ls.ifaceID = r.Bytes(1 + r.Intn(6))
		}
		if r.Pct(30) {
			ls.remoteID = r.Bytes(1 + r.Intn(6))
		}
		out = append(out, ls)
	}
	return out
}

func runSrv6(c *Ctx) {
	c.SetCases("From Verif Require Import Base Msg6 Server4 Server6 Server6Run.", "Server6Run.mismatches")
	c.shard = 250
	r := c.R
	intp := func(i int) *int { return &i }
	peers := []*net.UDPAddr{{IP: net.ParseIP("2001:db8::99"), Port: 546}, {IP: net.ParseIP("fe80::1234"), Port: 546, Zone: ""},
		{IP: net.ParseIP("2001:db8::77"), Port: 5546}, {IP: net.ParseIP("fe80::9"), Port: 40000},
		{IP: net.ParseIP("fd12:3456:789a::547"), Port: 547}, {IP: net.ParseIP("fec0::1"), Port: 546}, {IP: net.ParseIP("ff02::1:2"), Port: 546}}
	pass := sbeh6{"B6Pass", "p", 0}
	mark := func(i int) sbeh6 { return sbeh6{fmt.Sprintf("B6Mark %d", i), "m", i} }
	repl := func(i int) sbeh6 { return sbeh6{fmt.Sprintf("B6Replace %d", i), "r", i} }
	stop := func(i int) sbeh6 { return sbeh6{fmt.Sprintf("B6Stop %d", i), "s", i} }
	stopnil := sbeh6{"B6StopNil", "x", 0}
	bnil := sbeh6{"B6Nil", "n", 0}
	relayresp := sbeh6{"B6RelayResp", "R", 0}
	// (1) the type table: every message type x client id x rapid commit x depth 0..4 x peer x listener
	for t := 0; t < 256; t++ {
		if t == 12 || t == 13 {
			continue
		}
		for _, hasCid := range []bool{true, false} {
			for _, rapid := range []bool{false, true} {
				if !c.Thorough() && t > 14 && t%7 != 0 && (rapid || !hasCid) {
					continue
				}
				depth := r.Intn(5)
				if t > 14 && !c.Thorough() {
					depth = r.Intn(2)
				}
				s := req6spec{mtype: uint8(t), rapid: rapid, layers: randLayers(c, depth)}
				copy(s.xid[:], r.Bytes(3))
				if hasCid {
					s.cid = randDUID(c)
				}
				var oob *int
				if r.Bool() {
					oob = intp([]int{0, 7002}[r.Intn(2)])
				}
				runDatagram6(c, []sbeh6{mark(1)}, []int{0, 7001}[r.Intn(2)], oob, peers[r.Intn(len(peers))], buildReq6(s), "type-table")
			}
		}
	}
	// (2) relay nesting, every depth 0..4 (thorough: ..8), odd shapes
	maxd := c.Scale(4, 8)
	for depth := 0; depth <= maxd; depth++ {
		for k := 0; k < c.Scale(40, 300); k++ {
			s := req6spec{mtype: []uint8{1, 3, 5, 11, 1, 4}[r.Intn(6)], rapid: r.Pct(30), cid: randDUID(c), layers: randLayers(c, depth)}
			copy(s.xid[:], r.Bytes(3))
			if depth > 0 && r.Pct(8) {
				s.layers[0].mtype = dhcpv6.MessageTypeRelayReply // outer layer is not a Relay-Forward
			}
			if depth > 0 && r.Pct(6) {
				s.noInner = true
			}
			var chain []sbeh6
			switch r.Intn(5) {
			case 0:
				chain = []sbeh6{pass, mark(2)}
			case 1:
				chain = []sbeh6{mark(1), stop(2), mark(3)}
			case 2:
				chain = []sbeh6{relayresp}
			case 3:
				chain = []sbeh6{mark(1), repl(2)}
			}
			var oob *int
			if r.Bool() {
				oob = intp([]int{0, 7002, 7003}[r.Intn(3)])
			}
			runDatagram6(c, chain, []int{0, 7001}[r.Intn(2)], oob, peers[r.Intn(len(peers))], buildReq6(s), "relay-nesting")
		}
	}
	// (3) chains
	all := func(i int) []sbeh6 { return []sbeh6{pass, mark(i), repl(i), stop(i), stopnil, bnil, relayresp} }
	for i := 0; i < c.Scale(300, 5000); i++ {
		n := r.Intn(5)
		var ch []sbeh6
		for k := 0; k < n; k++ {
			a := all(k)
			ch = append(ch, a[r.Intn(len(a))])
		}
		s := req6spec{mtype: []uint8{1, 3, 5, 11}[r.Intn(4)], cid: randDUID(c), layers: randLayers(c, r.Intn(3))}
		copy(s.xid[:], r.Bytes(3))
		runDatagram6(c, ch, 7001, nil, peers[r.Intn(len(peers))], buildReq6(s), "chain-random")
	}
	// (4) malformed
	for i := 0; i < c.Scale(120, 2000); i++ {
		s := req6spec{mtype: 1, cid: randDUID(c), layers: randLayers(c, r.Intn(3))}
		raw := buildReq6(s)
		switch r.Intn(4) {
		case 0:
			raw = raw[:r.Intn(len(raw))]
		case 1:
			raw[r.Intn(len(raw))] ^= byte(1 << r.Intn(8))
		case 2:
			raw = r.Bytes(r.Intn(200))
		case 3:
			raw = append(raw, r.Bytes(1+r.Intn(6))...)
		}
		runDatagram6(c, []sbeh6{mark(0)}, 7001, nil, peers[0], raw, "malformed")
	}
	runListen6(c)
	c.Extra["rule"] = "datagrams through HandleMsg6 via the capture hook: all message-type bytes (except 12/13, which parse as relays) x client-id present/absent x Rapid Commit x relay depth 0..4 x global/link-local source x bound/unbound listener x control message; relay nesting depth 0..4 (thorough 0..8) with random link/peer addresses, Interface-ID/Remote-ID present or not, inner layers of type 13, outer layer of type 13, missing inner message; random chains of <=4 synthetic handlers over 7 behaviours; malformed datagrams; real sockets opened through listen6; non-trivial = distinct case whose datagram parses"
}

func runListen6(c *Ctx) {
	lo, err := net.InterfaceByName("lo")
	if err != nil {
		return
	}
	type lcase struct {
		ip   net.IP
		zone string
	}
	for _, lc := range []lcase{{net.ParseIP("::1"), ""}, {net.IPv6unspecified, ""}, {net.ParseIP("::1"), "lo"},
		{net.ParseIP("ff02::1:2"), "lo"}, {net.ParseIP("ff05::1:3"), "lo"}} {
		var sents []sent6
		l, err := server.VerifListen6(&net.UDPAddr{IP: lc.ip, Port: 0, Zone: lc.zone}, nil, func(p []byte, cm *ipv6.ControlMessage, dst net.Addr) {
			sents = append(sents, sent6{p, cm, dst})
		})
		if err != nil {
			c.Notes = append(c.Notes, fmt.Sprintf("listen6(%v%%%s) failed: %v", lc.ip, lc.zone, err))
			c.Count("listen6:unavailable")
			continue
		}
		if lc.ip.IsMulticast() {
			// a listener on All_DHCP_Relay_Agents_and_Servers / All_DHCP_Servers hears relayed requests only as a
			// member of the group on its interface (the kernel lists memberships in /proc/net/igmp6)
			c.Evals++
			if member, known := groupMember("lo", lc.ip); known && !member {
				c.vio("C12", "listen6-group-not-joined", fmt.Sprintf("the listener opened on [%v%%%s] has not joined that multicast group on the interface: requests relayed to the group never reach it, so they are never answered", lc.ip, lc.zone),
					map[string]interface{}{"listen": fmt.Sprintf("[%v%%%s]", lc.ip, lc.zone)})
			} else if known {
				c.Count("listen6:group-joined")
			}
			l.CloseSocket()
			continue
		}
		port := l.LocalAddr().(*net.UDPAddr).Port
		cl, err := net.DialUDP("udp6", nil, &net.UDPAddr{IP: net.ParseIP("::1"), Port: port})
		if err != nil {
			l.CloseSocket()
			continue
		}
		s := req6spec{mtype: 1, cid: randDUID(c)}
		cl.Write(buildReq6(s))
		type rx struct {
			data []byte
			oob  *ipv6.ControlMessage
			peer *net.UDPAddr
			err  error
		}
		ch := make(chan rx, 1)
		go func() {
			d, o, p, e := l.Receive()
			ch <- rx{d, o, p, e}
		}()
		var got rx
		select {
		case got = <-ch:
		case <-timeAfter(2000):
			got.err = errors.New("timeout")
		}
		cl.Close()
		if got.err != nil {
			c.Notes = append(c.Notes, fmt.Sprintf("listen6(%v%%%s): probe not received: %v", lc.ip, lc.zone, got.err))
			l.CloseSocket()
			continue
		}
		zoneTxt, oobTxt := "None", "None"
		if lc.zone != "" {
			zoneTxt = "(Some " + vZ(int64(lo.Index)) + ")"
		}
		if got.oob != nil {
			oobTxt = "(Some " + vZ(int64(got.oob.IfIndex)) + ")"
		}
		c.AddCase(fmt.Sprintf("CListen6 %s %s %s %s", zoneTxt, vZ(int64(lo.Index)), vZ(int64(l.IfIndex())), oobTxt))
		c.Eval("listen6|"+lc.ip.String()+"|"+lc.zone, true)
		c.Count("case6:listen6-socket")
		// had the same datagram come from a link-local source, the reply must be pinned to the receiving interface
		l.Handle(got.data, got.oob, &net.UDPAddr{IP: net.ParseIP("fe80::55"), Port: 546})
		input := map[string]interface{}{"listen": fmt.Sprintf("[%v%%%s]", lc.ip, lc.zone)}
		if len(sents) != 1 {
			c.vio("C12", "reply6-missing", "probe SOLICIT not answered", input)
		} else if sents[0].cm == nil || sents[0].cm.IfIndex != lo.Index {
			c.vio("C12", "dest6-interface", fmt.Sprintf("listener opened on [%v] (zone %q): reply to a link-local client is not pinned to the receiving interface %d (listener index %d, control message %s)", lc.ip, lc.zone, lo.Index, l.IfIndex(), oobTxt), input)
		}
		l.CloseSocket()
	}
	_ = strings.Join
}

// groupMember: is the interface a member of the IPv6 multicast group, as /proc/net/igmp6 lists it
// (known = false when the file cannot be read)
func groupMember(ifname string, group net.IP) (member bool, known bool) {
	data, err := os.ReadFile("/proc/net/igmp6")
	if err != nil {
		return false, false
	}
	want := fmt.Sprintf("%x", []byte(group.To16()))
	for _, ln := range strings.Split(string(data), "\n") {
		f := strings.Fields(ln)
		if len(f) >= 3 && f[1] == ifname && strings.EqualFold(f[2], want) {
			return true, true
		}
	}
	return false, true
}
