(* Server6Examples.v — concrete runs showing the hypotheses of the C12 theorems are met *)
From Verif Require Import Base Net Msg6 Chain Server4 Server6 Server6Run Server6Proofs.
Open Scope N_scope.

Definition ex_cid : bytes := [0;3;0;1;2;0;0;0;0;1].
Definition ex_sol : imsg := {| i_type := MT_SOLICIT; i_xid := 11259375; i_opts := [(OPT_CLIENTID, ex_cid); (OPT_RAPID, []); (OPT_ORO, [0;23])] |}.
Definition ex_l0 : layer := {| l_type := MT_RELAYFORW; l_hop := 1; l_link := zeros 15 ++ [7]; l_peer := [254;128] ++ zeros 13 ++ [9]; l_opts := [(OPT_IFACEID, [101;116;104;48])] |}.
Definition ex_l1 : layer := {| l_type := MT_RELAYFORW; l_hop := 0; l_link := zeros 16; l_peer := [254;128] ++ zeros 13 ++ [1]; l_opts := [(OPT_REMOTEID, [0;0;0;9;1]); (OPT_IFACEID, [9])] |}.
Definition ex_d : pkt6 := {| p_layers := [ex_l0; ex_l1]; p_inner := Some ex_sol |}.

(* a SOLICIT with Rapid Commit relayed through two layers, from a link-local relay, on an
   unbound listener: a REPLY echoing Rapid Commit inside two mirrored Relay-Reply layers,
   back to the source, pinned to the receiving interface 4 *)
Lemma ex_run6 :
  fst (handle6 (map beh6_fn [B6Mark 1]) 0 (Some 4%Z) ([254;128] ++ zeros 13 ++ [77]) 547 (Some ex_d)) =
  Sent6 {| p_layers := [ {| l_type := MT_RELAYREPL; l_hop := 1; l_link := zeros 15 ++ [7]; l_peer := [254;128] ++ zeros 13 ++ [9]; l_opts := [(OPT_IFACEID, [101;116;104;48])] |};
                         {| l_type := MT_RELAYREPL; l_hop := 0; l_link := zeros 16; l_peer := [254;128] ++ zeros 13 ++ [1]; l_opts := [(OPT_IFACEID, [9]); (OPT_REMOTEID, [0;0;0;9;1])] |} ];
           p_inner := Some {| i_type := MT_REPLY; i_xid := 11259375; i_opts := [(OPT_CLIENTID, ex_cid); (OPT_RAPID, []); (201, [1])] |} |}
        ([254;128] ++ zeros 13 ++ [77]) 547 (Some 4%Z).
Proof. vm_compute. reflexivity. Qed.

Lemma ex_id_preserving : Forall id_preserving (map beh6_fn [B6Pass; B6StopNil]).
Proof.
  cbn [map]. apply Forall_cons; [|apply Forall_cons; [|apply Forall_nil]]; intros req r Hl Hn; cbn [beh6_fn].
  - unfold keeps_id. rewrite Hl. destruct (p_inner r); [|contradiction]. intuition.
  - reflexivity.
Qed.
