(* Server4Run.v — executable cases for the HandleMsg4 / LoadPlugins correspondence (C11, C13, C15) *)
From Verif Require Import Base Net Msg4 IpcalcRun Chain Server4.
Open Scope N_scope.

(* the synthetic plugins the harness registers through plugins.RegisterPlugin *)
Inductive beh :=
| BPass | BMark (i : N) | BReplace (i : N) | BStop (i : N) | BStopNil | BNil
| BSetYi (ip : bytes) | BNak | BSetType (t : N).

Definition beh_fn (b : beh) : handler4 := fun req resp =>
  match b, resp with
  | BPass, r => (r, false)
  | BMark i, Some r => (Some (upd_opt r (224 + i) [i]), false)
  | BReplace i, r =>
      let t := match r with Some x => msg_type x | None => 2 end in
      (Some (upd_opt (upd_opt (reply_stub req) 53 [t]) 240 [i]), false)
  | BStop i, Some r => (Some (upd_opt r 230 [i]), true)
  | BStop _, None => (None, true)
  | BStopNil, _ => (None, true)
  | BNil, _ => (None, false)
  | BSetYi ip, Some r => (Some (set_yiaddr r ip), false)
  | BNak, Some r => (Some (upd_opt r 53 [6]), false)
  | BSetType t, Some r => (Some (upd_opt r 53 [t]), false)
  | _, None => (None, false)
  end.

(* what a serialised and re-parsed message looks like *)
Definition norm_ip (ip : bytes) : bytes := match to4 ip with Some x => x | None => zero4 end.
Definition wire4 (m : msg4) : msg4 :=
  {| m_op := m_op m; m_htype := m_htype m; m_hops := m_hops m; m_xid := m_xid m; m_secs := m_secs m;
     m_flags := m_flags m; m_ciaddr := norm_ip (m_ciaddr m); m_yiaddr := norm_ip (m_yiaddr m);
     m_siaddr := norm_ip (m_siaddr m); m_giaddr := norm_ip (m_giaddr m);
     m_chaddr := firstn 16 (m_chaddr m); m_sname := m_sname m; m_file := m_file m; m_opts := m_opts m |}.

(* digest of the response a handler was handed: None = nil, else its type and marker options *)
Definition digest (r : option msg4) : option (list (N * bytes)) :=
  match r with
  | None => None
  | Some m => Some (filter (fun kv => (fst kv =? 53) || (224 <=? fst kv)) (m_opts m))
  end.

Definition digest_eqb (a b : option (list (N * bytes))) : bool :=
  match a, b with
  | None, None => true
  | Some x, Some y => opts_eqb x y
  | _, _ => false
  end.

Inductive obs_dest := ODUdp (ip : bytes) (port : Z) (ifidx : option Z) | ODL2 (ifidx : Z) | ONone.

Definition optz_eqb (a b : option Z) : bool :=
  match a, b with None, None => true | Some x, Some y => (x =? y)%Z | _, _ => false end.

Fixpoint log_eqb (a : list (nat * option msg4)) (b : list (nat * option (list (N * bytes)))) : bool :=
  match a, b with
  | [], [] => true
  | (i, r) :: a', (j, d) :: b' => Nat.eqb i j && digest_eqb (digest r) d && log_eqb a' b'
  | _, _ => false
  end.

(* one datagram: chain, listener interface index, control-message interface index, parsed
   request (None = the library rejected the bytes), observed destination / payload / log *)
Inductive s4case :=
| CS4 (chain : list beh) (lif : Z) (oob : option Z) (parsed : option msg4)
      (dest : obs_dest) (payload : option msg4) (log : list (nat * option (list (N * bytes))))
(* LoadPlugins: per protocol an optional list of (plugin name, args); observed: None = error,
   else the behaviours of the DHCPv4 handlers and the number of DHCPv6 handlers *)
| CLoad (c6 c4 : option (list (bytes * list bytes))) (res : option (list beh * nat))
(* a real listener opened by listen4/listen6: zone interface index (None = no zone), the
   interface a probe datagram arrived on; observed Interface.Index, control message of the probe *)
| CListen (zone : option Z) (rx : Z) (obs_lif : Z) (obs_oob : option Z).

(* the registry of synthetic plugins: vtest (DHCPv4 only: args = one behaviour), v6only, dual, vfail *)
Definition str (l : list N) : bytes := l.
Definition n_vtest : bytes := [118;116;101;115;116].            (* "vtest" *)
Definition n_v6only : bytes := [118;54;111;110;108;121].        (* "v6only" *)
Definition n_dual : bytes := [118;100;117;97;108].              (* "vdual" *)
Definition n_fail : bytes := [118;102;97;105;108].              (* "vfail" *)

(* the harness encodes a behaviour in the plugin arguments as [tag; param]; the model decodes it *)
Definition beh_of_args (args : list bytes) : option beh :=
  match args with
  | [[112]] => Some BPass                       (* "p" *)
  | [[109]; [i]] => Some (BMark (i - 48))        (* "m" digit *)
  | [[114]; [i]] => Some (BReplace (i - 48))     (* "r" digit *)
  | [[115]; [i]] => Some (BStop (i - 48))        (* "s" digit *)
  | [[120]] => Some BStopNil                    (* "x" *)
  | [[110]] => Some BNil                        (* "n" *)
  | [[107]] => Some BNak                        (* "k" *)
  | _ => None
  end.

Definition reg : list (plugin beh nat) :=
  [ {| p_name := n_vtest; p_setup4 := Some (fun args => match beh_of_args args with Some b => SOk b | None => SErr end); p_setup6 := None |};
    {| p_name := n_v6only; p_setup4 := None; p_setup6 := Some (fun _ => SOk 6%nat) |};
    {| p_name := n_dual; p_setup4 := Some (fun _ => SOk BPass); p_setup6 := Some (fun _ => SOk 66%nat) |};
    {| p_name := n_fail;
       (* "e" = error, "h" = error although a handler is returned, else nil handler *)
       p_setup4 := Some (fun args => match args with [[101]] | [[104]] => SErr | _ => SNil end);
       p_setup6 := Some (fun args => match args with [[101]] | [[104]] => SErr | _ => SNil end) |} ].

Definition beh_eqb (a b : beh) : bool :=
  match a, b with
  | BPass, BPass | BStopNil, BStopNil | BNil, BNil | BNak, BNak => true
  | BMark i, BMark j | BReplace i, BReplace j | BStop i, BStop j | BSetType i, BSetType j => i =? j
  | BSetYi x, BSetYi y => bytes_eqb x y
  | _, _ => false
  end.

Fixpoint behs_eqb (a b : list beh) : bool :=
  match a, b with
  | [], [] => true
  | x :: a', y :: b' => beh_eqb x y && behs_eqb a' b'
  | _, _ => false
  end.

Definition check_s4case (c : s4case) : bool :=
  match c with
  | CS4 chain lif oob parsed dest payload log =>
      let '(o, lg) := handle4 (map beh_fn chain) lif oob parsed in
      log_eqb lg log &&
      match o, dest, payload with
      | NoSend _, ONone, None => true
      | Sent (DUdp ip port ifx) m, ODUdp ip' port' ifx', Some m' =>
          bytes_eqb (norm_ip ip) ip' && (port =? port')%Z && optz_eqb ifx ifx' && msg4_eqb (wire4 m) m'
      | Sent (DL2 i) m, ODL2 i', None => (i =? i')%Z
      | _, _, _ => false
      end
  | CListen zone rx obs_lif obs_oob =>
      let '(lif, cm) := listen_model zone in
      (lif =? obs_lif)%Z && optz_eqb (rx_oob cm rx) obs_oob
  | CLoad c6 c4 res =>
      match load_plugins reg c6 c4, res with
      | None, None => true
      | Some (h4, h6), Some (b4, n6) => behs_eqb h4 b4 && Nat.eqb (length h6) n6
      | _, _ => false
      end
  end.

Definition mismatches (l : list s4case) : list nat := mismatch_idx check_s4case l 0.
