(* Net.v — executable models of the Go `net` helpers coredhcp relies on.
   Standard-library behaviour: modelled, validated differentially, trusted (DESIGN.md §7).
   A nil net.IP / net.IPMask is the empty byte string. *)
From Verif Require Import Base.
Open Scope N_scope.

Definition lenb (l : bytes) (n : nat) : bool := Nat.eqb (length l) n.

Definition v4in6_prefix : bytes := [0;0;0;0;0;0;0;0;0;0;255;255].

(* net.IP.To4: the 4-byte form, or None (nil) *)
Definition to4 (ip : bytes) : option bytes :=
  if lenb ip 4 then Some ip
  else if lenb ip 16 && bytes_eqb (firstn 12 ip) v4in6_prefix then Some (skipn 12 ip)
  else None.

(* net.IP.To16 *)
Definition to16 (ip : bytes) : option bytes :=
  if lenb ip 4 then Some (v4in6_prefix ++ ip)
  else if lenb ip 16 then Some ip
  else None.

(* number of leading one bits of a byte of the form 1..10..0 *)
Definition byte_ones (v : N) : option N :=
  match v with
  | 0 => Some 0 | 128 => Some 1 | 192 => Some 2 | 224 => Some 3 | 240 => Some 4
  | 248 => Some 5 | 252 => Some 6 | 254 => Some 7 | _ => None
  end.

(* net.simpleMaskLength: None stands for -1 *)
Fixpoint simple_mask_len (m : bytes) : option N :=
  match m with
  | [] => Some 0
  | v :: m' =>
      if v =? 255 then option_map (N.add 8) (simple_mask_len m')
      else match byte_ones v with
           | Some k => if all_zero m' then Some k else None
           | None => None
           end
  end.

(* net.IPMask.Size: (ones, bits), (0, 0) for a non-canonical mask *)
Definition mask_size (m : bytes) : Z * Z :=
  match simple_mask_len m with
  | Some n => (Z.of_N n, Z.of_nat (length m) * 8)%Z
  | None => (0, 0)%Z
  end.

Definition mask_byte (k : N) : N := 256 - 2 ^ (8 - k).     (* k leading ones, k <= 8 *)

(* n mask bytes for `ones` leading one bits *)
Fixpoint cidr_bytes (n : nat) (ones : N) : bytes :=
  match n with
  | O => []
  | S n' => if 8 <=? ones then 255 :: cidr_bytes n' (ones - 8)
            else mask_byte ones :: cidr_bytes n' 0
  end.

(* net.CIDRMask(ones, bits); nil for an invalid request *)
Definition cidr_mask (ones bits : Z) : bytes :=
  if negb ((bits =? 32) || (bits =? 128))%Z then []
  else if ((ones <? 0) || (bits <? ones))%Z then []
  else cidr_bytes (Z.to_nat (bits / 8)) (Z.to_N ones).

Fixpoint and_bytes (a m : bytes) : bytes :=
  match a, m with
  | x :: a', y :: m' => N.land x y :: and_bytes a' m'
  | _, _ => []
  end.

(* net.IP.Mask; None = nil *)
Definition ip_mask (ip mask : bytes) : option bytes :=
  let mask := if lenb mask 16 && lenb ip 4 && forallb (fun b => b =? 255) (firstn 12 mask)
              then skipn 12 mask else mask in
  let ip := if lenb mask 4 && lenb ip 16 && bytes_eqb (firstn 12 ip) v4in6_prefix
            then skipn 12 ip else ip in
  if Nat.eqb (length ip) (length mask) then Some (and_bytes ip mask) else None.

Definition network_number_and_mask (nip nmask : bytes) : option (bytes * bytes) :=
  let oip := match to4 nip with
             | Some x => Some x
             | None => if lenb nip 16 then Some nip else None
             end in
  match oip with
  | None => None
  | Some ip =>
      if lenb nmask 4 then (if lenb ip 4 then Some (ip, nmask) else None)
      else if lenb nmask 16 then (if lenb ip 4 then Some (ip, skipn 12 nmask) else Some (ip, nmask))
      else None
  end.

(* net.IPNet.Contains *)
Definition contains (nip nmask ip : bytes) : bool :=
  match network_number_and_mask nip nmask with
  | None => false
  | Some (nn, m) =>
      let ip' := match to4 ip with Some x => x | None => ip end in
      Nat.eqb (length ip') (length nn) && bytes_eqb (and_bytes nn m) (and_bytes ip' m)
  end.

(* net.IP.Equal *)
Definition ip_equal (a b : bytes) : bool :=
  if Nat.eqb (length a) (length b) then bytes_eqb a b
  else if lenb a 4 && lenb b 16 then bytes_eqb (firstn 12 b) v4in6_prefix && bytes_eqb a (skipn 12 b)
  else if lenb a 16 && lenb b 4 then bytes_eqb (firstn 12 a) v4in6_prefix && bytes_eqb (skipn 12 a) b
  else false.

Definition is_unspecified (ip : bytes) : bool :=
  ip_equal ip [0;0;0;0] || ip_equal ip (zeros 16).
