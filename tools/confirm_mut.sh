#!/bin/bash
# confirm_mut.sh <Cxx> <mi> : confirm a seeded change in its scratch worktree /tmp/mut-Cxx:
# compiles (with and without -tags verif), existing tests pass, demo fails with the change and passes without.
export GOFLAGS=-mod=mod GOPROXY=off GOSUMDB=off GOTOOLCHAIN=local
P=$1; M=$2; WT=/tmp/mut-$P; OUT=/tmp/mut-$P-out/$M
cd $WT || exit 2
git checkout -q -- . ; git clean -fdq
DEMO=$(ls $OUT/*_test.go 2>/dev/null | head -1)
if [ -z "$DEMO" ]; then echo "RESULT $P/$M no-go-test-demo (manual)"; exit 3; fi
# package directory: first existing directory path mentioned in the demo or meta
DIR=""
for cand in $(grep -ohE '(plugins|server|config|handler|logger|cmds)(/[A-Za-z0-9_]+)*' $DEMO $OUT/meta.json | awk '{print length, $0}' | sort -rn | cut -d' ' -f2- ); do
  if [ -d "$WT/$cand" ]; then PK=$(grep -m1 '^package ' $DEMO | awk '{print $2}' | sed 's/_test$//'); 
     if ls $WT/$cand/*.go 2>/dev/null | xargs grep -l "^package $PK\b" >/dev/null 2>&1; then DIR=$cand; break; fi; fi
done
if [ -z "$DIR" ]; then echo "RESULT $P/$M cannot-locate-package"; exit 3; fi
cp $DEMO $WT/$DIR/zz_demo_test.go
TESTS=$(grep -oE '^func (Test[A-Za-z0-9_]+)' $DEMO | awk '{print $2}' | paste -sd'|')
TAGS=""; grep -q "go:build verif" $DEMO && TAGS="-tags verif"
RACE=""; grep -qi '"demo".*-race' $OUT/meta.json && RACE="-race"
run_demo() { (cd $WT/$DIR && timeout 900 go test $TAGS $RACE -vet=off -count=1 -run "^($TESTS)\$" . >/tmp/mut-demo.log 2>&1); }
run_demo; PRISTINE=$?
git apply $OUT/patch.diff || { echo "RESULT $P/$M patch-does-not-apply"; rm -f $WT/$DIR/zz_demo_test.go; exit 3; }
run_demo; MUT=$?
rm -f $WT/$DIR/zz_demo_test.go
go build ./... >/tmp/mut-build.log 2>&1 && go build -tags verif ./... >>/tmp/mut-build.log 2>&1; B=$?
timeout 900 go test -vet=off -count=1 ./... >/tmp/mut-test.log 2>&1; T=$?
git checkout -q -- . ; git clean -fdq
echo "RESULT $P/$M dir=$DIR demo_pristine_rc=$PRISTINE demo_mutant_rc=$MUT build_rc=$B tests_rc=$T"
[ $PRISTINE -eq 0 ] && [ $MUT -ne 0 ] && [ $B -eq 0 ] && [ $T -eq 0 ]
