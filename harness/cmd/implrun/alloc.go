package main

// C04–C07: histories of Allocate/Free on both bitmap allocators.  The monitors keep
// their own record of outstanding blocks (math/big arithmetic, independent of the
// model) and restate each property on what the implementation returned.

import (
	"errors"
	"fmt"
	"math/big"
	"net"
	"os"
	"strings"

	"github.com/coredhcp/coredhcp/plugins/allocators"
	"github.com/coredhcp/coredhcp/plugins/allocators/bitmap"
)

func init() {
	for _, p := range []string{"C04", "C05", "C06", "C07"} {
		runners[p] = runAlloc
	}
}

func allocErr(err error) string {
	var df *allocators.ErrDoubleFree
	switch {
	case errors.Is(err, allocators.ErrNoAddrAvail):
		return "ENoAddr"
	case errors.As(err, &df):
		return "EDoubleFree"
	case strings.HasPrefix(err.Error(), "BUG:"):
		return "EBug"
	case strings.HasPrefix(err.Error(), "Could not find prefix in pool"), strings.Contains(err.Error(), "outside of allowed range"):
		return "ENotInRange"
	case errors.Is(err, allocators.ErrOverflow):
		return "EOverflow"
	case strings.Contains(err.Error(), "needs 128-bit"):
		return "ENeed128"
	}
	return "EOther"
}

type pool struct {
	v6      bool
	a       allocators.Allocator
	base    *big.Int // value of the first address
	shift   uint     // log2 of the block size in addresses
	n       *big.Int // number of blocks
	page    int
	ctorTxt string // Coq text of the constructor arguments
	desc    string
	mapped  bool // v4-mapped IPv6 pool
}

type aop struct {
	alloc    bool
	ip, mask []byte
	class    string
}

func (o aop) coq() string {
	if o.alloc {
		return fmt.Sprintf("OAlloc %s %s", vBytes(o.ip), vBytes(o.mask))
	}
	return fmt.Sprintf("OFree %s %s", vBytes(o.ip), vBytes(o.mask))
}

func (o aop) String() string {
	k := "Free"
	if o.alloc {
		k = "Allocate"
	}
	return fmt.Sprintf("%s(%v/%x)[%s]", k, net.IP(o.ip), o.mask, o.class)
}

// blockOf returns the block index of addr if it lies in the pool.
func (p *pool) blockOf(addr []byte) (uint64, bool) {
	var v *big.Int
	if p.v6 {
		ip := net.IP(addr).To16()
		if ip == nil {
			return 0, false
		}
		if !p.mapped && net.IP(addr).To4() != nil {
			return 0, false // a v4(-mapped) address is never inside a native IPv6 pool
		}
		v = bigOf(ip)
	} else {
		ip := net.IP(addr).To4()
		if ip == nil {
			return 0, false
		}
		v = bigOf(ip)
	}
	d := new(big.Int).Sub(v, p.base)
	if d.Sign() < 0 {
		return 0, false
	}
	d.Rsh(d, p.shift)
	if d.Cmp(p.n) >= 0 {
		return 0, false
	}
	return d.Uint64(), true
}

func (p *pool) blockBase(i uint64) []byte {
	v := new(big.Int).Lsh(new(big.Int).SetUint64(i), p.shift)
	v.Add(v, p.base)
	if p.v6 {
		return bytes16(v)
	}
	b := v.Bytes()
	out := make([]byte, 4)
	copy(out[4-len(b):], b)
	return out
}

func mkPool6(cidr string, page int) (*pool, error) {
	_, pn, err := net.ParseCIDR(cidr)
	if err != nil {
		return nil, err
	}
	return mkPool6Net(*pn, page, cidr)
}

func mkPool6Net(pn net.IPNet, page int, desc string) (*pool, error) {
	a, err := bitmap.NewBitmapAllocator(pn, page)
	p := &pool{v6: true, page: page, desc: fmt.Sprintf("v6 %s page %d", desc, page)}
	p.ctorTxt = fmt.Sprintf("%s %s %s", vBytes(pn.IP), vBytes(pn.Mask), vZ(int64(page)))
	if err != nil {
		return p, err
	}
	p.a = a
	ones, _ := pn.Mask.Size()
	if len(pn.IP) == 16 {
		p.base = bigOf(pn.IP)
		p.shift = uint(128 - page)
		p.n = new(big.Int).Lsh(big.NewInt(1), uint(page-ones))
		p.mapped = pn.IP.To4() != nil
	} else {
		p.base = big.NewInt(0)
		p.n = big.NewInt(0)
	}
	return p, nil
}

func mkPool4(s, e net.IP) (*pool, error) {
	a, err := bitmap.NewIPv4Allocator(s, e)
	p := &pool{v6: false, desc: fmt.Sprintf("v4 %v-%v", s, e)}
	p.ctorTxt = fmt.Sprintf("%s %s", vBytes(s), vBytes(e))
	if err != nil {
		return p, err
	}
	p.a = a
	p.base = bigOf(s.To4())
	p.n = new(big.Int).Sub(bigOf(e.To4()), p.base)
	p.n.Add(p.n, big.NewInt(1))
	return p, nil
}

type allocOut struct {
	txt      string
	ip, mask []byte
	err      error
	panicked bool
}

func doOp(p *pool, o aop) (r allocOut) {
	defer func() {
		if x := recover(); x != nil {
			r.panicked = true
			if o.alloc {
				r.txt = "RAlloc Panic"
			} else {
				r.txt = "RFree Panic"
			}
		}
	}()
	var ipn net.IPNet
	if o.ip != nil {
		ipn.IP = net.IP(exact(o.ip))
	}
	if o.mask != nil {
		ipn.Mask = net.IPMask(exact(o.mask))
	}
	if o.alloc {
		n, err := p.a.Allocate(ipn)
		if err != nil {
			return allocOut{txt: "RAlloc (Err " + allocErr(err) + ")", err: err}
		}
		return allocOut{txt: fmt.Sprintf("RAlloc (Ok (%s, %s))", vBytes(n.IP), vBytes(n.Mask)), ip: n.IP, mask: n.Mask}
	}
	err := p.a.Free(ipn)
	if err != nil {
		return allocOut{txt: "RFree (Err " + allocErr(err) + ")", err: err}
	}
	return allocOut{txt: "RFree (Ok tt)"}
}

func cidrMask(ones, bits int) []byte { return []byte(net.CIDRMask(ones, bits)) }

// genOp draws the next operation given the monitor's view of the pool.
func genOp(c *Ctx, p *pool, out map[uint64]int, hostile bool) aop {
	r := c.R
	nb := uint64(1) << 40
	if p.n.IsUint64() && p.n.Uint64() < nb {
		nb = p.n.Uint64()
	}
	randBlock := func() uint64 {
		if nb == 0 {
			return 0
		}
		switch r.Intn(4) {
		case 0:
			return 0
		case 1:
			return nb - 1
		case 2:
			b := []uint64{62, 63, 64, 65, 127, 128}[r.Intn(6)]
			if b < nb {
				return b
			}
		}
		return r.U64() % nb
	}
	freeBlock := func() (uint64, bool) {
		for t := 0; t < 8; t++ {
			b := randBlock()
			if _, taken := out[b]; !taken {
				return b, true
			}
		}
		return 0, false
	}
	takenBlock := func() (uint64, bool) {
		if len(out) == 0 {
			return 0, false
		}
		k := r.Intn(len(out))
		// deterministic order
		var keys []uint64
		for b := range out {
			keys = append(keys, b)
		}
		sortU64(keys)
		return keys[k], true
	}
	full := 128
	if !p.v6 {
		full = 32
	}
	inside := func(b uint64) []byte { // an address anywhere inside block b
		ip := p.blockBase(b)
		if p.v6 && p.shift > 0 && r.Bool() {
			v := bigOf(ip)
			off := new(big.Int).SetUint64(r.U64())
			if p.shift < 64 {
				off.SetUint64(r.U64() % (uint64(1) << p.shift))
			}
			v.Add(v, off)
			ip = bytes16(v)
		}
		return ip
	}
	hintMask := func() []byte {
		if !p.v6 {
			return cidrMask(32, 32)
		}
		switch r.Intn(6) {
		case 0:
			return cidrMask(p.page, 128)
		case 1:
			return cidrMask(r.Intn(129), 128) // any length 0..128
		case 2:
			return nil
		case 3:
			return cidrMask(r.Intn(33), 32) // not a 128-bit mask
		case 4:
			m := cidrMask(64, 128)
			m[3] = 0x0f // non-canonical
			return m
		}
		if p.page < 128 {
			return cidrMask(p.page+1+r.Intn(128-p.page), 128) // longer than the page
		}
		return cidrMask(128, 128)
	}
	x := r.Intn(100)
	switch {
	case x < 30:
		return aop{alloc: true, class: "alloc-nohint"}
	case x < 48:
		if b, ok := freeBlock(); ok {
			ip := inside(b)
			if !p.v6 && r.Bool() {
				ip = net.IP(ip).To16()
			} else if p.mapped && r.Bool() {
				ip = net.IP(ip).To4()
			}
			return aop{alloc: true, ip: ip, mask: hintMask(), class: "alloc-hint-free"}
		}
		return aop{alloc: true, class: "alloc-nohint"}
	case x < 58:
		if b, ok := takenBlock(); ok {
			return aop{alloc: true, ip: inside(b), mask: hintMask(), class: "alloc-hint-taken"}
		}
		return aop{alloc: true, class: "alloc-nohint"}
	case x < 66:
		// outside the pool: below, above, far away, other family
		var ip []byte
		switch r.Intn(5) {
		case 0:
			v := new(big.Int).Sub(p.base, new(big.Int).Lsh(big.NewInt(int64(1+r.Intn(5))), p.shift))
			if v.Sign() < 0 {
				v = big.NewInt(0)
			}
			if p.v6 {
				ip = bytes16(v)
			} else {
				ip = bytes16(v)[12:]
			}
		case 1:
			v := new(big.Int).Add(p.base, new(big.Int).Lsh(new(big.Int).Add(p.n, big.NewInt(int64(r.Intn(5)))), p.shift))
			if p.v6 {
				if v.Cmp(two128) >= 0 {
					v = new(big.Int).Sub(two128, big.NewInt(1))
				}
				ip = bytes16(v)
			} else {
				if v.BitLen() > 32 {
					v = big.NewInt(0xffffffff)
				}
				ip = bytes16(v)[12:]
			}
		case 2:
			ip = r.Bytes(16)
		case 3:
			ip = r.Bytes(4)
		case 4:
			ip = net.IPv4(10, 0, 0, byte(r.Intn(256))) // v4-mapped 16-byte form
		}
		return aop{alloc: true, ip: ip, mask: hintMask(), class: "alloc-hint-outside"}
	case x < 71:
		// malformed hints
		var ip []byte
		switch r.Intn(4) {
		case 0:
			ip = nil
		case 1:
			ip = r.Bytes([]int{1, 3, 5, 8, 15, 17}[r.Intn(6)])
		case 2:
			ip = []byte{}
		case 3:
			b, _ := freeBlock()
			ip = inside(b)
		}
		m := hintMask()
		if r.Bool() {
			m = r.Bytes([]int{0, 3, 4, 16, 16, 20}[r.Intn(6)])
		}
		return aop{alloc: true, ip: ip, mask: m, class: "alloc-hint-malformed"}
	case x < 88 || !hostile:
		if b, ok := takenBlock(); ok {
			ip := p.blockBase(b)
			m := cidrMask(full, full)
			cls := "free-outstanding"
			if p.v6 {
				m = cidrMask(p.page, 128)
				if r.Pct(30) && p.page < 128 {
					// a sub-prefix of the block
					ip = inside(b)
					m = cidrMask(p.page+1+r.Intn(128-p.page), 128)
					cls = "free-outstanding-subprefix"
				}
			} else if r.Bool() {
				ip = net.IP(ip).To16()
			}
			return aop{alloc: false, ip: ip, mask: m, class: cls}
		}
		return aop{alloc: true, class: "alloc-nohint"}
	default:
		// hostile frees
		m := cidrMask(full, full)
		if p.v6 {
			m = cidrMask(p.page, 128)
		}
		switch r.Intn(7) {
		case 0: // a free block
			if b, ok := freeBlock(); ok {
				return aop{alloc: false, ip: p.blockBase(b), mask: m, class: "free-unallocated"}
			}
		case 1: // k blocks below the base
			k := int64(1 + r.Intn(6))
			if r.Bool() && nb > 1 {
				k = int64(1 + r.U64()%nb)
			}
			v := new(big.Int).Sub(p.base, new(big.Int).Lsh(big.NewInt(k), p.shift))
			if v.Sign() >= 0 {
				ip := bytes16(v)
				if !p.v6 {
					ip = ip[12:]
				}
				return aop{alloc: false, ip: ip, mask: m, class: "free-below-base"}
			}
		case 2: // above the end
			v := new(big.Int).Add(p.base, new(big.Int).Lsh(new(big.Int).Add(p.n, big.NewInt(int64(r.Intn(6)))), p.shift))
			lim := two128
			if !p.v6 {
				lim = new(big.Int).Lsh(big.NewInt(1), 32)
			}
			if v.Cmp(lim) < 0 {
				ip := bytes16(v)
				if !p.v6 {
					ip = ip[12:]
				}
				return aop{alloc: false, ip: ip, mask: m, class: "free-above-end"}
			}
		case 3: // sub-prefix of a free block
			if b, ok := freeBlock(); ok && p.v6 && p.page < 128 {
				return aop{alloc: false, ip: inside(b), mask: cidrMask(p.page+1+r.Intn(128-p.page), 128), class: "free-unallocated-subprefix"}
			}
		case 4: // other family / malformed
			if !p.v6 && r.Pct(40) {
				// a genuine IPv6 prefix whose last four bytes name an address of the range
				if b, ok := takenBlock(); ok {
					ip := append(net.ParseIP("2001:db8::")[:12:12], p.blockBase(b)[len(p.blockBase(b))-4:]...)
					return aop{alloc: false, ip: ip, mask: cidrMask(128, 128), class: "free-malformed"}
				}
			}
			switch r.Intn(4) {
			case 0:
				return aop{alloc: false, ip: r.Bytes(4), mask: cidrMask(24, 32), class: "free-malformed"}
			case 1:
				return aop{alloc: false, ip: nil, mask: nil, class: "free-malformed"}
			case 2:
				return aop{alloc: false, ip: r.Bytes(16), mask: cidrMask(16, 32), class: "free-malformed"}
			case 3:
				return aop{alloc: false, ip: r.Bytes([]int{3, 5, 15, 17}[r.Intn(4)]), mask: m, class: "free-malformed"}
			}
		case 5: // far away
			ip := r.Bytes(16)
			if !p.v6 {
				ip = r.Bytes(4)
			}
			return aop{alloc: false, ip: ip, mask: m, class: "free-far"}
		case 6: // double free of something just freed is covered by free-unallocated; free twice
			if b, ok := takenBlock(); ok {
				return aop{alloc: false, ip: p.blockBase(b), mask: m, class: "free-outstanding"}
			}
		}
		return aop{alloc: true, class: "alloc-nohint"}
	}
}

func sortU64(a []uint64) {
	for i := 1; i < len(a); i++ {
		for j := i; j > 0 && a[j-1] > a[j]; j-- {
			a[j-1], a[j] = a[j], a[j-1]
		}
	}
}

// vio records a violation when it belongs to the property being checked.
func (c *Ctx) vio(prop, kind, what string, input interface{}) {
	if c.Prop == prop || (c.concurrent && c.Prop == "C16") {
		c.Violate(kind, what, input)
	} else {
		c.Count("other-property-violation:" + prop + ":" + kind)
	}
}

type histRec struct {
	Pool string   `json:"pool"`
	Ops  []string `json:"ops"`
	Outs []string `json:"outs"`
	At   int      `json:"at"`
}

// runHistory executes one history on a fresh pool, monitoring C04–C07.
func runHistory(c *Ctx, p *pool, nops int, hostile bool, caseCtor string, script []aop) {
	out := map[uint64]int{} // outstanding block -> prefix length handed out
	badFree := false        // a Free of something not outstanding succeeded earlier: outside C04's histories
	var ops, outs, opS []string
	rec := func(at int) histRec { return histRec{p.desc, opS, outs, at} }
	for i := 0; i < nops; i++ {
		var o aop
		if script != nil {
			if i >= len(script) {
				break
			}
			o = script[i]
		} else {
			o = genOp(c, p, out, hostile)
		}
		c.Count("op:" + o.class)
		c.Breadcrumb(map[string]interface{}{"pool": p.desc, "ops_so_far": opS, "next_op": o.String()})
		r := doOp(p, o)
		ops = append(ops, o.coq())
		opS = append(opS, o.String())
		outs = append(outs, r.txt)
		if r.panicked {
			c.Count("result:panic")
			// a panic on a well-formed argument is a C05/C06 matter
			if o.class != "alloc-hint-malformed" && o.class != "free-malformed" {
				prop := "C05"
				if !o.alloc {
					prop = "C06"
				}
				c.vio(prop, "allocator-panic", fmt.Sprintf("%s panics on pool %s", o, p.desc), rec(i))
			}
			break
		}
		if o.alloc {
			if r.err != nil {
				c.Count("result:alloc-err-" + allocErr(r.err))
				// C05: fails iff all N blocks are outstanding, with ErrNoAddrAvail
				if !errors.Is(r.err, allocators.ErrNoAddrAvail) {
					c.vio("C05", "alloc-wrong-error", fmt.Sprintf("%s on %s: error %v is not 'no address available'", o, p.desc, r.err), rec(i))
				}
				if big.NewInt(int64(len(out))).Cmp(p.n) != 0 {
					c.vio("C05", "alloc-fails-not-full", fmt.Sprintf("%s on %s fails with %d of %v blocks outstanding", o, p.desc, len(out), p.n), rec(i))
				}
				continue
			}
			c.Count("result:alloc-ok")
			if big.NewInt(int64(len(out))).Cmp(p.n) == 0 {
				c.vio("C05", "alloc-beyond-capacity", fmt.Sprintf("%s on %s succeeds with all %v blocks outstanding", o, p.desc, p.n), rec(i))
			}
			b, ok := p.blockOf(r.ip)
			plen, bitsz := net.IPMask(r.mask).Size()
			wantBits, wantLen := 32, 32
			if p.v6 {
				wantBits = 128
				wantLen = p.page
				if ho, hb := net.IPMask(o.mask).Size(); hb == 128 && ho > p.page {
					wantLen = ho
				}
			}
			switch {
			case !ok:
				c.vio("C05", "alloc-outside-pool", fmt.Sprintf("%s on %s returned %v outside the pool", o, p.desc, net.IP(r.ip)), rec(i))
				continue
			case string(p.blockBase(b)) != string(net.IP(r.ip).To16()) && string(p.blockBase(b)) != string(r.ip):
				c.vio("C05", "alloc-unaligned", fmt.Sprintf("%s on %s returned %v, not the base of block %d", o, p.desc, net.IP(r.ip), b), rec(i))
			case bitsz != wantBits || plen != wantLen:
				c.vio("C05", "alloc-wrong-length", fmt.Sprintf("%s on %s returned /%d (%d bits), want /%d", o, p.desc, plen, bitsz, wantLen), rec(i))
			}
			if (p.v6 && len(r.ip) != 16) || (!p.v6 && len(r.ip) != 4) {
				c.vio("C05", "alloc-wrong-form", fmt.Sprintf("%s on %s returned a %d-byte address", o, p.desc, len(r.ip)), rec(i))
			}
			if _, dup := out[b]; dup && !badFree {
				c.vio("C04", "double-issue", fmt.Sprintf("%s on %s returned block %d (%v) which is still outstanding", o, p.desc, b, net.IP(r.ip)), rec(i))
			}
			// C04: the address ranges of the outstanding blocks are pairwise disjoint - a block returned
			// with a mask shorter than the allocation length covers its neighbours too
			if p.v6 && bitsz == 128 && !badFree {
				span := func(blk uint64, l int) (uint64, uint64) {
					if l >= p.page || p.page-l > 40 {
						return blk, blk
					}
					w := uint64(1) << uint(p.page-l)
					lo := blk &^ (w - 1)
					return lo, lo + w - 1
				}
				nlo, nhi := span(b, plen)
				for ob, ol := range out {
					if ob == b {
						continue
					}
					olo, ohi := span(ob, ol)
					if nlo <= ohi && olo <= nhi {
						c.vio("C04", "blocks-overlap", fmt.Sprintf("%s on %s returned %v/%d, which overlaps the outstanding block %d (/%d)", o, p.desc, net.IP(r.ip), plen, ob, ol), rec(i))
						break
					}
				}
			}
			// C07: a hint naming a free block is honoured exactly
			if hb, hok := p.blockOf(o.ip); hok && o.ip != nil {
				if _, taken := out[hb]; !taken && hb != b {
					c.vio("C07", "hint-not-honoured", fmt.Sprintf("%s on %s: hinted block %d is free but block %d (%v) was returned", o, p.desc, hb, b, net.IP(r.ip)), rec(i))
				}
			}
			out[b] = plen
		} else {
			// C06: Free succeeds exactly when the prefix lies inside an outstanding block
			fb, inPool := p.blockOf(o.ip)
			wellFormed := o.class != "free-malformed"
			inside := false
			if inPool && wellFormed {
				_, taken := out[fb]
				fl, fbits := net.IPMask(o.mask).Size()
				if p.mapped && fbits == 32 && len(o.ip) == 4 {
					fl, fbits = fl+96, 128 // an IPv4 prefix names the same addresses as its v4-mapped form
				}
				long := !p.v6 || (fbits == 128 && fl >= p.page)
				inside = taken && long
			}
			if r.err == nil {
				c.Count("result:free-ok")
				if !inside {
					badFree = true
					c.vio("C06", "free-succeeds-wrongly", fmt.Sprintf("%s on %s succeeded although the prefix is not inside an outstanding block", o, p.desc), rec(i))
				}
				if inPool {
					delete(out, fb)
				}
			} else {
				c.Count("result:free-err-" + allocErr(r.err))
				if inside {
					c.vio("C06", "free-fails-wrongly", fmt.Sprintf("%s on %s failed (%v) although block %d is outstanding", o, p.desc, r.err, fb), rec(i))
				}
			}
		}
	}
	// C06 aftermath: every block the monitor believes outstanding must still be refused as a hint
	if script == nil {
		n := 0
		for b := range out {
			if n >= 3 {
				break
			}
			n++
			o := aop{alloc: true, ip: p.blockBase(b), mask: cidrMask(map[bool]int{true: 128, false: 32}[p.v6], map[bool]int{true: 128, false: 32}[p.v6]), class: "probe-outstanding"}
			_ = o
		}
	}
	c.AddCase(fmt.Sprintf("%s %s %s true %s", caseCtor, p.ctorTxt, vList(ops), vList(outs)))
	nontrivial := false
	for _, s := range outs {
		if strings.HasPrefix(s, "RAlloc (Ok") {
			nontrivial = true
		}
	}
	c.Eval(p.ctorTxt+strings.Join(ops, ";"), nontrivial && len(ops) >= 2)
	if c.Evals%37 == 1 {
		k := len(opS)
		if k > 6 {
			k = 6
		}
		c.Sample(map[string]interface{}{"pool": p.desc, "ops(first 6)": opS[:k], "outs(first 6)": outs[:k], "length": len(opS)})
	}
}

func runAlloc(c *Ctx) {
	c.SetCases("From Verif Require Import Base Alloc AllocRun.", "AllocRun.mismatches")
	if os.Getenv("VERIF_PHASE") == "conc" {
		// concurrent phase only (run under the race detector by ./check)
		runAllocConcurrent(c, c.Scale(3000, 15000))
		c.Extra["rule"] = "concurrent rounds of Allocate/Free from 8 goroutines under the race detector"
		return
	}
	c.shard = 60
	r := c.R
	type geo4 struct{ s, e string }
	g4 := []geo4{{"10.0.0.1", "10.0.0.1"}, {"10.0.0.1", "10.0.0.2"}, {"10.0.0.1", "10.0.0.3"},
		{"192.168.1.250", "192.168.2.56"}, {"10.1.0.0", "10.1.0.62"}, {"10.1.0.0", "10.1.0.63"}, {"10.1.0.0", "10.1.0.64"},
		{"10.2.0.10", "10.2.0.136"}, {"10.2.0.10", "10.2.0.137"}, {"10.2.0.10", "10.2.0.138"}, {"10.3.0.0", "10.3.3.231"},
		{"255.255.255.250", "255.255.255.255"}, {"0.0.0.0", "0.0.0.5"}}
	type geo6 struct {
		cidr string
		page int
	}
	var g6 []geo6
	for _, pl := range []int{0, 8, 48, 56, 63, 64, 65, 120, 127} {
		for _, ord := range []int{0, 1, 2, 6, 7, 10} {
			if pl+ord > 128 {
				continue
			}
			bases := []string{"2001:db8::", "ffff:ffff:ffff:ffff:ffff:ffff:ffff:ffff", "::", "fd00:0:ff00:ffff:ff:0:ffff:0"}
			g6 = append(g6, geo6{fmt.Sprintf("%s/%d", bases[r.Intn(len(bases))], pl), pl + ord})
		}
	}
	g6 = append(g6, geo6{"::ffff:10.0.0.0/120", 124}, geo6{"::ffff:10.0.0.0/104", 120}, geo6{"2001:db8::/32", 44})

	// --- corpus: witnesses of the repaired defects, run first ---
	{
		// F2: free k blocks below the base must fail and release nothing
		p, _ := mkPool6("2001:db8:0:100::/56", 64)
		below := net.ParseIP("2001:db8:0:fe::")
		script := []aop{{alloc: true, class: "alloc-nohint"}, {alloc: true, class: "alloc-nohint"}, {alloc: true, class: "alloc-nohint"},
			{alloc: false, ip: below, mask: cidrMask(64, 128), class: "free-below-base"},
			{alloc: true, class: "alloc-nohint"}}
		runHistory(c, p, len(script), true, "CA6", script)
		// F14: v4-mapped pool and a 4-byte hint
		p, _ = mkPool6("::ffff:10.0.0.0/104", 120)
		script = []aop{{alloc: true, ip: []byte{10, 0, 3, 7}, mask: cidrMask(120, 128), class: "alloc-hint-free"},
			{alloc: false, ip: []byte{10, 0, 3, 0}, mask: cidrMask(24, 32), class: "free-outstanding"}}
		runHistory(c, p, len(script), true, "CA6", script)
		// F11: the full IPv4 range has more than one address
		p4, _ := mkPool4(net.ParseIP("0.0.0.0"), net.ParseIP("255.255.255.255"))
		script = []aop{{alloc: true, class: "alloc-nohint"}, {alloc: true, class: "alloc-nohint"}, {alloc: true, ip: []byte{255, 255, 255, 255}, mask: cidrMask(32, 32), class: "alloc-hint-free"}}
		runHistory(c, p4, len(script), false, "CA4", script)
	}

	nh := c.Scale(260, 6000)
	for i := 0; i < nh; i++ {
		hostile := c.Prop == "C06" || r.Pct(35)
		nops := 1 + r.Intn(c.Scale(120, 200))
		if r.Bool() {
			g := g4[r.Intn(len(g4))]
			p, err := mkPool4(net.ParseIP(g.s), net.ParseIP(g.e))
			if err != nil {
				continue
			}
			c.Count("pool:v4")
			if p.n.Cmp(big.NewInt(8)) < 0 || r.Pct(40) {
				// make exhaustion likely
				nops += int(p.n.Int64()) + 4
			}
			runHistory(c, p, nops, hostile, "CA4", nil)
		} else {
			g := g6[r.Intn(len(g6))]
			p, err := mkPool6(g.cidr, g.page)
			if err != nil {
				continue
			}
			c.Count("pool:v6")
			if p.n.Cmp(big.NewInt(200)) < 0 && r.Pct(50) {
				nops += int(p.n.Int64()) + 4
			}
			runHistory(c, p, nops, hostile, "CA6", nil)
		}
	}
	runBigPools(c)
	// constructor rejections and odd pools: only the correspondence is compared
	for i := 0; i < c.Scale(20, 200); i++ {
		switch r.Intn(4) {
		case 0:
			s, e := r.Bytes(4), r.Bytes(4)
			_, err := bitmap.NewIPv4Allocator(net.IP(s), net.IP(e))
			if err != nil {
				c.AddCase(fmt.Sprintf("CA4 %s %s [] false []", vBytes(s), vBytes(e)))
				c.Eval(fmt.Sprintf("ctor4 %x %x", s, e), false)
				c.Count("ctor:v4-rejected")
			}
		case 1:
			s := r.Bytes([]int{0, 3, 16}[r.Intn(3)])
			_, err := bitmap.NewIPv4Allocator(net.IP(s), net.IP{10, 0, 0, 1})
			if err != nil {
				c.AddCase(fmt.Sprintf("CA4 %s %s [] false []", vBytes(s), vBytes([]byte{10, 0, 0, 1})))
				c.Eval(fmt.Sprintf("ctor4 %x", s), false)
				c.Count("ctor:v4-rejected")
			}
		case 2:
			pl := r.Intn(129)
			size := pl - 1 - r.Intn(5)
			if r.Bool() {
				size = pl + 64 + r.Intn(10)
			}
			pn := net.IPNet{IP: net.ParseIP("2001:db8::").Mask(net.CIDRMask(pl, 128)), Mask: net.CIDRMask(pl, 128)}
			_, err := bitmap.NewBitmapAllocator(pn, size)
			if err != nil {
				c.AddCase(fmt.Sprintf("CA6 %s %s %s [] false []", vBytes(pn.IP), vBytes(pn.Mask), vZ(int64(size))))
				c.Eval(fmt.Sprintf("ctor6 %d %d", pl, size), false)
				c.Count("ctor:v6-rejected")
			}
		case 3:
			// IPv4 CIDR handed to the IPv6 allocator (what `prefix 10.0.0.0/8 24` would do)
			_, pn, _ := net.ParseCIDR("10.0.0.0/8")
			p, err := mkPool6Net(*pn, 10, "10.0.0.0/8")
			if err == nil {
				script := []aop{{alloc: true, class: "alloc-nohint"}, {alloc: true, class: "alloc-nohint"}}
				save := c.Prop
				c.Prop = "none" // not a pool the properties quantify over: correspondence only
				runHistory(c, p, 2, false, "CA6", script)
				c.Prop = save
				c.Count("pool:v6-from-ipv4-cidr")
			}
		}
	}
	if c.Prop == "C04" {
		runAllocConcurrent(c, c.Scale(15000, 60000))
	}
	if c.Prop == "C05" || c.Prop == "C06" || c.Prop == "C07" {
		runAllocConcurrent(c, c.Scale(4000, 30000)) // incl. simultaneous Free calls of one block, Free mixed with hinted Allocate
	}
	c.Extra["rule"] = "histories of 1..200 Allocate/Free ops on IPv4 ranges (sizes 1,2,3,63,64,65,127..129,1000, ending at 255.255.255.255) and IPv6 pools (/0../127 x order 0..10, v4-mapped); hints free/taken/outside/malformed, frees outstanding/sub-prefix/unallocated/below/above/malformed; non-trivial = distinct history with >=2 ops and >=1 successful allocation"
}
