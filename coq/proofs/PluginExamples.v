(* PluginExamples.v — accepted configurations exist and the theorems' hypotheses are met *)
From Verif Require Import Base Net Msg4 Msg6 Server4 Plugins4 Plugins6 Setup PluginRun PluginProofs PluginSpecs.
Open Scope N_scope.

Definition s (l : list N) : bytes := l.
Definition ex_tables : tables :=
  {| t_ip := [([49;48;46;48;46;48;46;49], Some (v4in6_prefix ++ [10;0;0;1]))];
     t_cidr := [([49;48;46;48;46;48;46;48;47;56], Some ([10;0;0;0], [255;0;0;0]))];
     t_dur := []; t_atoi := []; t_mac := [([48;48;58;49;49;58;50;50;58;51;51;58;52;52;58;53;53], Some [0;17;34;51;68;85])]; t_url := [] |}.

(* staticroute "10.0.0.0/8,10.0.0.1" is accepted and encodes to 08 0a 0a000001 *)
Lemma ex_staticroute :
  setup4 (oracles_of ex_tables) NStaticRoute [[49;48;46;48;46;48;46;48;47;56;44;49;48;46;48;46;48;46;49]] =
    SetOk (PStaticRoute [{| rt_dest := [10;0;0;0]; rt_mask := [255;0;0;0]; rt_router := v4in6_prefix ++ [10;0;0;1] |}]) /\
  enc_routes [{| rt_dest := [10;0;0;0]; rt_mask := [255;0;0;0]; rt_router := v4in6_prefix ++ [10;0;0;1] |}] = Ok [8;10;10;0;0;1].
Proof. split; vm_compute; reflexivity. Qed.

Lemma ex_serverid6 :
  setup6 (oracles_of ex_tables) NServerID [[76;76]; [48;48;58;49;49;58;50;50;58;51;51;58;52;52;58;53;53]] =
    Some (SetOk (P6ServerID [0;3;0;1;0;17;34;51;68;85])).
Proof. vm_compute. reflexivity. Qed.

Lemma ex_serverid4 : setup4 (oracles_of ex_tables) NServerID [[49;48;46;48;46;48;46;49]] = SetOk (PServerID [10;0;0;1]).
Proof. vm_compute. reflexivity. Qed.
