(* Msg4Codec.v — the whole DHCPv4 message codec as the library implements it (dhcpv4.ToBytes /
   FromBytes): the fixed 236-byte BOOTP header, the magic cookie, the options (lib/Opt4Codec.v),
   End, padding to 300 bytes. *)
From Coq Require Import List Arith NArith.
From Verif Require Import Base Net Msg4 Opt4Codec.
Import ListNotations.
Open Scope N_scope.

Definition pad_to (n : nat) (b : bytes) : bytes := firstn n b ++ repeat 0 (n - length b).

(* writeIP: nil = 0.0.0.0; otherwise ip.To4()[:4] - a panic without a 4-byte form *)
Definition enc_ip4 (ip : bytes) : res bytes :=
  match ip with
  | [] => Ok [0; 0; 0; 0]
  | _ => match to4 ip with Some x => Ok x | None => Panic end
  end.

Definition cookie : bytes := [99; 130; 83; 99].

(* BOOTP minimum: padded with zero bytes to 300 *)
Definition pad_min (b : bytes) : bytes := b ++ repeat 0 (300 - length b).

(* header, cookie, options, End - the message before the BOOTP padding (what gopacket's DHCPv4
   layer re-serialises in sendEthernet, lib/Frame.v) *)
Definition enc_body (m : msg4) : res bytes :=
  bind (enc_ip4 (m_ciaddr m)) (fun ci =>
  bind (enc_ip4 (m_yiaddr m)) (fun yi =>
  bind (enc_ip4 (m_siaddr m)) (fun si =>
  bind (enc_ip4 (m_giaddr m)) (fun gi =>
    Ok ([m_op m mod 256; m_htype m mod 256; N.of_nat (length (m_chaddr m)) mod 256; m_hops m mod 256] ++
        be_bytes 4 (m_xid m) ++ be_bytes 2 (m_secs m) ++ be_bytes 2 (m_flags m) ++
        ci ++ yi ++ si ++ gi ++ pad_to 16 (m_chaddr m) ++
        pad_to 64 (firstn 63 (m_sname m)) ++ pad_to 128 (firstn 127 (m_file m)) ++
        cookie ++ enc_opts (m_opts m) ++ [255]))))).

Definition enc_msg (m : msg4) : res bytes := bind (enc_body m) (fun body => Ok (pad_min body)).

(* strings end at the first NUL *)
Fixpoint until_nul (b : bytes) : bytes :=
  match b with
  | [] => []
  | c :: b' => if c =? 0 then [] else c :: until_nul b'
  end.

Definition fld (b : bytes) (off len : nat) : bytes := firstn len (skipn off b).

Local Open Scope nat_scope.
Definition dec_msg (b : bytes) : option msg4 :=
  if Nat.ltb (length b) 240 then None
  else if negb (bytes_eqb (fld b 236 4) cookie) then None
  else match decode (skipn 240 b) with
       | None => None
       | Some o =>
           let hlen := Nat.min (N.to_nat (nth 2 b 0%N)) 16 in
           Some {| m_op := nth 0 b 0%N; m_htype := nth 1 b 0%N; m_hops := nth 3 b 0%N;
                   m_xid := be_val (fld b 4 4); m_secs := be_val (fld b 8 2); m_flags := be_val (fld b 10 2);
                   m_ciaddr := fld b 12 4; m_yiaddr := fld b 16 4; m_siaddr := fld b 20 4; m_giaddr := fld b 24 4;
                   m_chaddr := firstn hlen (fld b 28 16);
                   m_sname := until_nul (fld b 44 64); m_file := until_nul (fld b 108 128);
                   m_opts := o |}
       end.
