package main

// C19 (codec half): the DHCPv4 option TLV codec of the library against its Coq model
// (coq/lib/Opt4Codec.v).  CEnc: random option maps (values of 0, 1, 254..257, 509..511, 600+ bytes;
// codes incl. 0, 82, 255) through dhcpv4.Options.ToBytes.  CDec: option byte strings - written by
// the library, hand-built with repeated codes, padding, missing End, truncated - behind a valid
// fixed header through dhcpv4.FromBytes.

import (
	"fmt"
	"net"
	"sort"

	"github.com/insomniacslk/dhcp/dhcpv4"
)

func vOptsList(o dhcpv4.Options) string {
	codes := make([]int, 0, len(o))
	for c := range o {
		codes = append(codes, int(c))
	}
	sort.Ints(codes)
	items := make([]string, 0, len(codes))
	for _, c := range codes {
		items = append(items, fmt.Sprintf("(%d, %s)", c, vBytes(o[uint8(c)])))
	}
	return vList(items)
}

// runCodecMsg: whole messages through ToBytes (CMEnc) and raw datagrams through FromBytes (CMDec)
func runCodecMsg(c *Ctx) {
	r := c.R
	n := c.Scale(120, 3000)
	for i := 0; i < n; i++ {
		s := randReq4(c)
		s.op = byte([]int{1, 2, 1, 2, 0, 7}[r.Intn(6)])
		raw := buildReq4(s)
		m, err := dhcpv4.FromBytes(raw)
		if err != nil {
			continue
		}
		// fields the request builder leaves alone
		m.HopCount = byte(r.Intn(256))
		m.NumSeconds = uint16(r.U64())
		if r.Pct(40) {
			m.ServerHostName = []string{"", "srv", "boot.example", string(r.Bytes(1 + r.Intn(62)))}[r.Intn(4)]
		}
		if r.Pct(40) {
			m.BootFileName = []string{"", "pxelinux.0", "a/b/c.efi", string(r.Bytes(1 + r.Intn(126)))}[r.Intn(4)]
		}
		if r.Pct(30) {
			m.YourIPAddr = net.IP{10, 1, 2, byte(r.Intn(256))}
		}
		if r.Pct(20) {
			m.ServerIPAddr = net.ParseIP("10.0.0.1") // 16-byte form of an IPv4 address
		}
		if r.Pct(10) {
			m.Options[uint8(224+r.Intn(20))] = r.Bytes([]int{0, 3, 255, 256, 300}[r.Intn(5)])
		}
		if hasNul(m.ServerHostName) || hasNul(m.BootFileName) {
			continue // strings with a NUL are cut by the decoder: outside the round-trip statement
		}
		wire := m.ToBytes()
		c.AddCase(fmt.Sprintf("CMEnc %s %s", vMsg4(m), vBytes(wire)))
		c.Count("codec:msg-enc")
		in := append([]byte{}, wire...)
		switch r.Intn(5) {
		case 0:
			in = in[:r.Intn(len(in))]
		case 1:
			in[r.Intn(len(in))] ^= byte(1 << uint(r.Intn(8)))
		case 2:
			in[2] = byte(r.Intn(256)) // hlen
		}
		back, err := dhcpv4.FromBytes(in)
		res := "None"
		if err == nil {
			res = "(Some " + vMsg4(back) + ")"
		}
		if len(in) < 2000 {
			c.AddCase(fmt.Sprintf("CMDec %s %s", vBytes(in), res))
			c.Count("codec:msg-dec")
		}
		c.Eval(fmt.Sprintf("codecmsg/%x", in), err == nil)
	}
}

func hasNul(s string) bool {
	for i := 0; i < len(s); i++ {
		if s[i] == 0 {
			return true
		}
	}
	return false
}

func runCodec(c *Ctx) {
	r := c.R
	c.SetCases("From Verif Require Import Base Msg4 Opt4Codec Msg4Codec Opt4Run.", "Opt4Run.mismatches")
	c.shard = 60
	runCodecMsg(c)
	lens := []int{0, 0, 1, 1, 2, 4, 4, 16, 254, 255, 256, 257, 509, 510, 511, 600, 800}
	hdr, _ := dhcpv4.New()
	hdr.Options = dhcpv4.Options{}
	head := hdr.ToBytes()
	head = head[:240] // fixed header + magic cookie
	n := c.Scale(150, 3000)
	for i := 0; i < n; i++ {
		o := dhcpv4.Options{}
		k := r.Intn(6)
		for j := 0; j < k; j++ {
			code := uint8([]int{1, 3, 6, 12, 51, 53, 54, 55, 61, 82, 119, 121, 224, 254, 0, 255, r.Intn(256)}[r.Intn(17)])
			l := lens[r.Intn(len(lens))]
			if r.Pct(70) && l > 257 {
				l = r.Intn(20)
			}
			o[code] = r.Bytes(l)
		}
		wire := o.ToBytes()
		c.AddCase(fmt.Sprintf("CEnc %s %s", vOptsList(o), vBytes(wire)))
		c.Count("codec:enc")
		// decode what the library wrote (End appended, as ToBytes of a message does), and variants
		var in []byte
		switch r.Intn(6) {
		case 0, 1:
			in = append(append([]byte{}, wire...), 255)
		case 2: // padding before, between and after
			in = append([]byte{0, 0}, wire...)
			in = append(in, 0, 255, 0, 0, 7)
		case 3: // no End option
			in = append([]byte{}, wire...)
		case 4: // the same option twice (concatenated by the decoder), then End
			in = append(append([]byte{}, wire...), wire...)
			in = append(in, 255)
		default: // truncated somewhere
			in = append(append([]byte{}, wire...), 255)
			if len(in) > 0 {
				in = in[:r.Intn(len(in))]
			}
		}
		m, err := dhcpv4.FromBytes(append(append([]byte{}, head...), in...))
		res := "None"
		if err == nil {
			res = "(Some " + vOptsList(m.Options) + ")"
			c.Count("codec:dec-ok")
		} else {
			c.Count("codec:dec-error")
		}
		c.AddCase(fmt.Sprintf("CDec %s %s", vBytes(in), res))
		c.Eval(fmt.Sprintf("codec/%x/%x", wire, in), len(wire) > 0)
		// monitor: what the library wrote parses back to the same map (codes 0 and 255 are never written)
		if back, err := dhcpv4.FromBytes(append(append(append([]byte{}, head...), wire...), 255)); err != nil {
			c.vio("C19", "codec-roundtrip", fmt.Sprintf("options written by the library do not parse back: %v", err), map[string]interface{}{"options": vOptsList(o)})
		} else {
			for code, v := range o {
				if code == 0 || code == 255 {
					continue
				}
				if string(back.Options[code]) != string(v) {
					c.vio("C19", "codec-roundtrip", fmt.Sprintf("option %d: %d bytes written, %d bytes parsed back", code, len(v), len(back.Options[code])), map[string]interface{}{"options": vOptsList(o)})
				}
			}
		}
	}
}
