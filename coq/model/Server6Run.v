(* Server6Run.v — executable cases for the HandleMsg6 correspondence (C12, and the DHCPv6 half of C13) *)
From Verif Require Import Base Net Msg6 IpcalcRun Chain Server4 Server4Run Server6.
Open Scope N_scope.

Inductive beh6 :=
| B6Pass | B6Mark (i : N) | B6Replace (i : N) | B6Stop (i : N) | B6StopNil | B6Nil | B6RelayResp.

Definition with_inner_opts (p : pkt6) (f : opts6 -> opts6) : pkt6 :=
  match p_inner p with
  | Some m => {| p_layers := p_layers p; p_inner := Some {| i_type := i_type m; i_xid := i_xid m; i_opts := f (i_opts m) |} |}
  | None => p
  end.

Definition req_xid (d : pkt6) : N := match p_inner d with Some m => i_xid m | None => 0 end.

Definition beh6_fn (b : beh6) : handler6 := fun d resp =>
  match b, resp with
  | B6Pass, r => (r, false)
  | B6Mark i, Some r => (Some (match p_layers r with [] => with_inner_opts r (o6_add (200 + i) [i]) | _ => r end), false)
  | B6Replace i, _ => (Some {| p_layers := []; p_inner := Some {| i_type := MT_REPLY; i_xid := req_xid d; i_opts := [(240, [i])] |} |}, false)
  | B6Stop i, Some r => (Some (match p_layers r with [] => with_inner_opts r (o6_add 230 [i]) | _ => r end), true)
  | B6Stop _, None => (None, true)
  | B6StopNil, _ => (None, true)
  | B6Nil, _ => (None, false)
  | B6RelayResp, Some r =>
      (Some (match p_layers r with
             | [] => {| p_layers := [{| l_type := MT_RELAYREPL; l_hop := 0; l_link := zeros 15 ++ [1]; l_peer := zeros 15 ++ [2]; l_opts := [] |}];
                        p_inner := p_inner r |}
             | _ => r end), false)
  | _, None => (None, false)
  end.

(* digest of a response: None = nil, else (number of layers, marker options of the inner message) *)
Definition digest6 (r : option pkt6) : option (nat * opts6) :=
  match r with
  | None => None
  | Some p => Some (length (p_layers p), match p_inner p with Some m => filter (fun kv => 200 <=? fst kv) (i_opts m) | None => [] end)
  end.

Definition digest6_eqb (a b : option (nat * opts6)) : bool :=
  match a, b with
  | None, None => true
  | Some (n, x), Some (m, y) => Nat.eqb n m && opts6_eqb x y
  | _, _ => false
  end.

(* observed log entry: handler index, relay depth of the request the handler received, digest *)
Fixpoint log6_eqb (depth : nat) (a : list (nat * option pkt6)) (b : list (nat * nat * option (nat * opts6))) : bool :=
  match a, b with
  | [], [] => true
  | (i, r) :: a', (j, dep, d) :: b' => Nat.eqb i j && Nat.eqb dep depth && digest6_eqb (digest6 r) d && log6_eqb depth a' b'
  | _, _ => false
  end.

Inductive s6case :=
| CS6 (chain : list beh6) (lif : Z) (oob : option Z) (peer_ip : bytes) (peer_port : Z) (parsed : option pkt6)
      (sent : option (pkt6 * bytes * Z * option Z)) (log : list (nat * nat * option (nat * opts6)))
| CListen6 (zone : option Z) (rx : Z) (obs_lif : Z) (obs_oob : option Z).

Definition check_s6case (c : s6case) : bool :=
  match c with
  | CS6 chain lif oob pip pport parsed sent log =>
      let '(o, lg) := handle6 (map beh6_fn chain) lif oob pip pport parsed in
      log6_eqb (match parsed with Some d => length (p_layers d) | None => 0%nat end) lg log &&
      match o, sent with
      | NoSend6 _, None => true
      | Sent6 p dip dport ifx, Some (p', dip', dport', ifx') =>
          pkt6_eqb p p' && bytes_eqb dip dip' && (dport =? dport')%Z && optz_eqb ifx ifx'
      | _, _ => false
      end
  | CListen6 zone rx obs_lif obs_oob =>
      let '(lif, cm) := listen_model zone in
      (lif =? obs_lif)%Z && optz_eqb (rx_oob cm rx) obs_oob
  end.

Definition mismatches (l : list s6case) : list nat := mismatch_idx check_s6case l 0.
