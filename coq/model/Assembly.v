(* Assembly.v — the whole server as one transition system (C01): a listener with a chain of plugin
   INSTANCES (stateless built-ins, the range plugin with its lease state, the prefix plugin with
   its delegation state, the file plugin with its table), fed one datagram after the other.
   `srv4_step` / `srv6_step` are HandleMsg4 / HandleMsg6 with the states threaded through, every
   run-time panic the models know of made explicit (a handler handed a nil response, the
   allocator and codec slips inside the plugins, resp.ToBytes on an address that has no 4-byte
   form) and reported as the outcome OPanic. *)
From Verif Require Import Base Net Msg4 Msg6 Chain Server4 Server6 Plugins4 Plugins6 RangePlugin FilePlugin PrefixPlugin.
Open Scope N_scope.

Section StatefulChain.
Context {I Q R : Type}.
Variable call : I -> Q -> option R -> I * res (option R * bool).

(* for _, handler := range l.handlers { resp, stop = handler(req, resp); if stop { break } } *)
Fixpoint run_insts (is : list I) (req : Q) (resp : option R) : list I * res (option R) :=
  match is with
  | [] => ([], Ok resp)
  | i :: is' =>
      let '(i', o) := call i req resp in
      match o with
      | Ok (r, stop) =>
          if stop then (i' :: is', Ok r)
          else let '(is'', o') := run_insts is' req r in (i' :: is'', o')
      | Err e => (i' :: is', Err e)
      | Panic => (i' :: is', Panic)
      end
  end.
End StatefulChain.

(* ---------- DHCPv4 ---------- *)
Inductive inst4 :=
| I4Plug (p : plug4)
| I4Range (st : rstate)
| I4File (t : ftable).

(* every handler dereferences the response it is handed: a nil response reaching a handler is a panic *)
Definition inst4_call (now : Z) (i : inst4) (req : msg4) (resp : option msg4) : inst4 * res (option msg4 * bool) :=
  match resp with
  | None => (i, Panic)
  | Some r =>
      match i with
      | I4Plug p => (i, plug4_handler p req r)
      | I4Range st => let '(st', o) := range_handler st now req r in (I4Range st', o)
      | I4File t => (i, Ok (file_handler4 t req r))
      end
  end.

Inductive outcome4 :=
| O4Sent (d : dest4) (m : msg4)
| O4Drop (why : N)
| O4Panic.

Definition start4 (req : msg4) : option msg4 :=
  let tmp := reply_stub req in
  let mt := msg_type req in
  if mt =? 1 then Some (upd_opt tmp 53 [2])
  else if mt =? 3 then Some (upd_opt tmp 53 [5]) else None.

Definition srv4_step (is : list inst4) (lif : Z) (now : Z) (oob : option Z) (parsed : option msg4)
  : list inst4 * outcome4 :=
  match parsed with
  | None => (is, O4Drop 1)
  | Some req =>
      if negb (m_op req =? 1) then (is, O4Drop 2)
      else match start4 req with
           | None => (is, O4Drop 3)
           | Some r0 =>
               let '(is', o) := run_insts (inst4_call now) is req (Some r0) in
               match o with
               | Ok None => (is', O4Drop 4)
               | Ok (Some rsp) =>
                   let '(ip, port, l2) := peer4 req rsp in
                   let woob := if ip_equal ip bcast4 || is_link_local ip || l2 then pick_if lif oob else None in
                   if l2 then match woob with
                              | None => (is', O4Drop 5)
                              | Some i => if ser_ok rsp then (is', O4Sent (DL2 i) rsp) else (is', O4Panic)
                              end
                   else if ser_ok rsp then (is', O4Sent (DUdp ip port woob) rsp) else (is', O4Panic)
               | _ => (is', O4Panic)
               end
           end
  end.

(* a history of datagrams: (clock reading, control-message interface, parse result) *)
Definition dgram4 := (Z * option Z * option msg4)%type.
Fixpoint srv4_run (is : list inst4) (lif : Z) (h : list dgram4) : list inst4 * list outcome4 :=
  match h with
  | [] => (is, [])
  | (now, oob, p) :: h' =>
      let '(is1, o) := srv4_step is lif now oob p in
      let '(is2, os) := srv4_run is1 lif h' in (is2, o :: os)
  end.

(* ---------- DHCPv6 ---------- *)
Section V6.
(* the library's decoding of the IA_PD options of a message (IAID, hints) and the encoding of the
   IA_PD option of the answer: oracles *)
Variable dec_pds : imsg -> list (bytes * list hint).
Variable enc_iapd : bytes * list lease -> bytes.

Inductive inst6 :=
| I6Plug (p : plug6)
| I6Prefix (st : pstate)
| I6File (t : ftable).

Definition inst6_call (now : Z) (i : inst6) (req : pkt6) (resp : option pkt6) : inst6 * res (option pkt6 * bool) :=
  match resp with
  | None => (i, Panic)
  | Some r =>
      match i with
      | I6Plug p => (i, plug6_handler p req r)
      | I6Prefix st =>
          match p_inner req with
          | None => (i, Ok (None, true))
          | Some m =>
              let '(st', o) := prefix_handle now st (o6_get OPT_CLIENTID (i_opts m)) (dec_pds m) in
              (I6Prefix st',
               match o with
               | PDrop => Ok (None, true)
               | PResp outs => Ok (Some (fold_left (fun rr ia => resp_add OPT_IAPD (enc_iapd ia) rr) outs r), false)
               | PPanic => Panic
               end)
          end
      | I6File t => (i, Ok (file_handler6 t req r))
      end
  end.

Inductive outcome6 :=
| O6Sent (payload : pkt6) (dst_ip : bytes) (dst_port : Z) (ifidx : option Z)
| O6Drop (why : N)
| O6Panic.

Definition srv6_step (is : list inst6) (lif : Z) (now : Z) (oob : option Z) (peer_ip : bytes) (peer_port : Z)
  (parsed : option pkt6) : list inst6 * outcome6 :=
  match parsed with
  | None => (is, O6Drop 1)
  | Some d =>
      match p_inner d with
      | None => (is, O6Drop 2)
      | Some msg =>
          match stub6 msg with
          | None => (is, O6Drop 3)
          | Some r0 =>
              let '(is', o) := run_insts (inst6_call now) is d (Some {| p_layers := []; p_inner := Some r0 |}) in
              match o with
              | Ok None => (is', O6Drop 4)
              | Ok (Some rsp) =>
                  let woob := if is_link_local peer_ip then pick_if lif oob else None in
                  if is_relay d then
                    match p_layers rsp, p_inner rsp with
                    | [], Some rm =>
                        match p_layers d with
                        | l0 :: _ =>
                            if l_type l0 =? MT_RELAYFORW
                            then (is', O6Sent {| p_layers := relay_reply_layers (p_layers d); p_inner := Some rm |} peer_ip peer_port woob)
                            else (is', O6Drop 5)
                        | [] => (is', O6Drop 5)
                        end
                    | _, _ => (is', O6Sent rsp peer_ip peer_port woob)
                    end
                  else (is', O6Sent rsp peer_ip peer_port woob)
              | _ => (is', O6Panic)
              end
          end
      end
  end.

Definition dgram6 := (Z * option Z * bytes * Z * option pkt6)%type.
Fixpoint srv6_run (is : list inst6) (lif : Z) (h : list dgram6) : list inst6 * list outcome6 :=
  match h with
  | [] => (is, [])
  | (now, oob, pip, pport, p) :: h' =>
      let '(is1, o) := srv6_step is lif now oob pip pport p in
      let '(is2, os) := srv6_run is1 lif h' in (is2, o :: os)
  end.
End V6.
