(* Opt4Proofs.v — round trip of the DHCPv4 option TLV codec model (lib/Opt4Codec.v) *)
From Coq Require Import List Arith NArith Lia Permutation.
From Verif Require Import Base Msg4 Opt4Codec.
Import ListNotations.
Open Scope N_scope.

(* ---------- round trip ---------- *)
Definition code_ok (c : N) : Prop := c <> 0 /\ c <> 255 /\ c < 256.
Local Open Scope nat_scope.

Lemma app_opt_fresh c d acc : ~ In c (map fst acc) -> app_opt c d acc = acc ++ [(c, d)].
Proof.
  induction acc as [|[k v] acc IH]; intros H; cbn [app_opt app]; [reflexivity|].
  destruct (k =? c)%N eqn:E; [apply N.eqb_eq in E; exfalso; apply H; left; exact E|].
  rewrite IH; [reflexivity|]. intros Hc; apply H; right; exact Hc.
Qed.

Lemma app_opt_last c v d acc : ~ In c (map fst acc) -> app_opt c d (acc ++ [(c, v)]) = acc ++ [(c, v ++ d)].
Proof.
  induction acc as [|[k w] acc IH]; intros H; cbn [app_opt app].
  - rewrite N.eqb_refl. reflexivity.
  - destruct (k =? c)%N eqn:E; [apply N.eqb_eq in E; exfalso; apply H; left; exact E|].
    rewrite IH; [reflexivity|]. intros Hc; apply H; right; exact Hc.
Qed.

Lemma dec_piece fuel c piece tail acc : code_ok c -> length piece <= 255 ->
  dec_opts (S fuel) (c :: N.of_nat (length piece) :: piece ++ tail) acc = dec_opts fuel tail (app_opt c piece acc).
Proof.
  intros (C0 & C255 & _) Hl. cbn [dec_opts]. apply N.eqb_neq in C0, C255. rewrite C0, C255. rewrite Nat2N.id.
  destruct (Nat.ltb_spec (length (piece ++ tail)) (length piece)) as [Hlt|_]; [rewrite app_length in Hlt; lia|].
  rewrite firstn_app, Nat.sub_diag, firstn_O, app_nil_r, firstn_all.
  rewrite skipn_app, Nat.sub_diag, skipn_all. reflexivity.
Qed.

(* any fuel above the length of the input gives the same result *)
Lemma dec_fuel : forall f1 f2 b acc, length b < f1 -> length b < f2 -> dec_opts f1 b acc = dec_opts f2 b acc.
Proof.
  induction f1 as [|f1 IH]; intros f2 b acc H1 H2; [lia|]. destruct f2 as [|f2]; [lia|].
  cbn [dec_opts]. destruct b as [|c b]; [reflexivity|]. cbn [length] in H1, H2.
  destruct (c =? 0)%N; [apply IH; lia|]. destruct (c =? 255)%N; [reflexivity|].
  destruct b as [|n b]; [reflexivity|]. cbn [length] in H1, H2.
  destruct (Nat.ltb (length b) (N.to_nat n)); [reflexivity|].
  apply IH; rewrite skipn_length; lia.
Qed.

(* decoding the pieces of one value appends the value to the entry of its code *)
Lemma dec_chunks c : code_ok c -> forall n v pre acc rest fuel,
  length v <= n -> ~ In c (map fst acc) ->
  length (chunks n c v ++ rest) < fuel ->
  dec_opts fuel (chunks n c v ++ rest) (acc ++ [(c, pre)]) =
  dec_opts (S (length rest)) rest (acc ++ [(c, pre ++ v)]).
Proof.
  intros Hc. induction n as [|n IH]; intros v pre acc rest fuel Hl Hfresh Hf.
  - destruct v; [|cbn [length] in Hl; lia]. cbn [chunks app] in *. rewrite app_nil_r. apply dec_fuel; lia.
  - destruct v as [|b v]; [cbn [chunks app] in *; rewrite app_nil_r; apply dec_fuel; lia|].
    cbn [chunks] in Hf |- *. set (w := b :: v) in *. set (k := Nat.min (length w) 255) in *.
    assert (Hk : 0 < k <= 255) by (unfold k, w; cbn [length]; lia).
    assert (Hkw : k <= length w) by (unfold k; lia).
    assert (Lp : length (firstn k w) = k) by (rewrite firstn_length; lia).
    destruct fuel as [|fuel]; [lia|].
    cbn [app] in Hf |- *. rewrite <- app_assoc in Hf |- *. cbn [length] in Hf. rewrite app_length, Lp in Hf.
    rewrite <- Lp at 1.
    rewrite dec_piece by (try exact Hc; rewrite ?Lp; lia).
    rewrite app_opt_last by exact Hfresh.
    assert (Lsk : length (skipn k w) <= n).
    { rewrite skipn_length. unfold w in *. cbn [length] in *. lia. }
    etransitivity; [apply (IH (skipn k w) (pre ++ firstn k w) acc rest fuel Lsk Hfresh); lia|].
    rewrite <- app_assoc, firstn_skipn. reflexivity.
Qed.

(* one option *)
Lemma dec_enc_opt c v acc rest fuel : code_ok c -> ~ In c (map fst acc) ->
  length (enc_opt (c, v) ++ rest) < fuel ->
  dec_opts fuel (enc_opt (c, v) ++ rest) acc = dec_opts (S (length rest)) rest (acc ++ [(c, v)]).
Proof.
  intros Hc Hfresh Hf. pose proof Hc as (C0 & C255 & _). unfold enc_opt in *.
  apply N.eqb_neq in C0, C255. rewrite C0, C255 in *. cbn [orb] in *.
  destruct v as [|b v].
  - destruct fuel as [|fuel]; [lia|]. cbn [app] in *.
    change (c :: 0%N :: rest) with (c :: N.of_nat (length (@nil N)) :: [] ++ rest).
    rewrite dec_piece by (try exact Hc; cbn [length]; lia).
    rewrite app_opt_fresh by exact Hfresh. apply dec_fuel; cbn [length] in Hf; lia.
  - (* the first piece creates the entry, the others extend it *)
    set (w := b :: v) in *. set (n := length v).
    assert (Ln : length w = S n) by reflexivity. rewrite Ln in *.
    cbn [chunks] in Hf |- *. unfold w at 1 in Hf. unfold w at 1. cbv iota in Hf |- *.
    rewrite !Ln in Hf |- *. set (k := Nat.min (S n) 255) in *.
    assert (Hk : 0 < k <= 255) by (unfold k; lia).
    assert (Hkw : k <= length w) by (unfold k; lia).
    assert (Lp : length (firstn k w) = k) by (rewrite firstn_length; lia).
    destruct fuel as [|fuel]; [lia|].
    cbn [app] in Hf |- *. rewrite <- app_assoc in Hf |- *. cbn [length] in Hf. rewrite app_length, Lp in Hf.
    rewrite <- Lp at 1.
    rewrite dec_piece by (try exact Hc; rewrite ?Lp; lia).
    rewrite app_opt_fresh by exact Hfresh.
    assert (Lsk : length (skipn k w) <= n) by (rewrite skipn_length; lia).
    etransitivity; [apply (dec_chunks c Hc n (skipn k w) (firstn k w) acc rest fuel Lsk Hfresh); lia|].
    rewrite firstn_skipn. reflexivity.
Qed.

(* a whole option list with distinct codes, followed by End and anything *)
Theorem dec_enc_list : forall l acc rest fuel,
  Forall (fun kv => code_ok (fst kv)) l -> NoDup (map fst l) ->
  (forall c, In c (map fst l) -> ~ In c (map fst acc)) ->
  length (enc_list l ++ 255%N :: rest) < fuel ->
  dec_opts fuel (enc_list l ++ 255%N :: rest) acc = Some (acc ++ l).
Proof.
  induction l as [|[c v] l IH]; intros acc rest fuel Hok Hnd Hfresh Hf.
  - cbn [enc_list flat_map app] in *. destruct fuel as [|fuel]; [lia|]. cbn [dec_opts].
    change (255 =? 0)%N with false. change (255 =? 255)%N with true. rewrite app_nil_r. reflexivity.
  - cbn [enc_list flat_map] in *. fold (enc_list l) in *. rewrite <- app_assoc in Hf |- *.
    cbn [map fst] in Hnd, Hfresh. inversion Hnd as [|? ? Hnin Hnd']; subst.
    rewrite dec_enc_opt; [|exact (Forall_inv Hok)|apply Hfresh; left; reflexivity|exact Hf].
    rewrite (IH (acc ++ [(c, v)]) rest); [rewrite <- app_assoc; reflexivity|exact (Forall_inv_tail Hok)|exact Hnd'| |lia].
    intros c' Hc' Hin. rewrite map_app in Hin. apply in_app_or in Hin. destruct Hin as [Hin|[<-|[]]].
    + exact (Hfresh c' (or_intror Hc') Hin).
    + exact (Hnin Hc').
Qed.

(* the statement for a reply: the options a reply carries (distinct codes other than Pad and End,
   in the order the library writes them), written out and followed by End and padding, decode to
   exactly those options with exactly those values - however long the values are *)
Theorem opt4_roundtrip l pad :
  Forall (fun kv => code_ok (fst kv)) l -> NoDup (map fst l) ->
  decode (enc_list l ++ 255%N :: pad) = Some l.
Proof.
  intros Hok Hnd. unfold decode.
  destruct (enc_list l ++ 255%N :: pad) as [|x y] eqn:E; [destruct (enc_list l); discriminate|]. rewrite <- E.
  apply (dec_enc_list l [] pad); [exact Hok|exact Hnd|intros c _ []|lia].
Qed.

(* the order the library writes the options in is a rearrangement of the map *)
Lemma oinsert_perm kv l : Permutation (oinsert kv l) (kv :: l).
Proof.
  induction l as [|x l IH]; cbn [oinsert]; [apply Permutation_refl|].
  destruct (okey (fst kv) <=? okey (fst x))%N; [apply Permutation_refl|].
  eapply perm_trans; [apply perm_skip; exact IH|apply perm_swap].
Qed.

Lemma order_perm o : Permutation (order o) o.
Proof.
  induction o as [|kv o IH]; cbn [order fold_right]; [apply perm_nil|].
  eapply perm_trans; [apply oinsert_perm|apply perm_skip; exact IH].
Qed.

(* C19, the codec half: whatever options a reply carries - distinct codes other than Pad and End,
   values of any length - the bytes the library's encoder writes for them (in its own order),
   followed by End and any padding, decode to a rearrangement of exactly those options *)
Theorem opt4_roundtrip_map o pad :
  Forall (fun kv => code_ok (fst kv)) o -> NoDup (map fst o) ->
  decode (enc_opts o ++ 255%N :: pad) = Some (order o) /\ Permutation (order o) o.
Proof.
  intros Hok Hnd. split; [|apply order_perm]. unfold enc_opts. apply opt4_roundtrip.
  - apply Forall_forall. intros kv Hin. rewrite Forall_forall in Hok. apply Hok.
    exact (Permutation_in _ (order_perm o) Hin).
  - apply (Permutation_NoDup (l := map fst o)); [|exact Hnd].
    apply Permutation_map. apply Permutation_sym. apply order_perm.
Qed.
