(* PluginProofs.v — the stateless plugins: no accepted configuration can panic a handler (C19),
   each handler adds exactly its option under its entitlement rule (C17), keeps the reply header
   (C11) and returns nil only with stop (C13); the server_id tables (C14). *)
From Verif Require Import Base BaseProofs Net Bitset IdxAlloc BitsetProofs Ipcalc IpcalcRun Alloc AllocRun Alloc4Proofs Msg4 Msg6 Chain Server4 Server4Proofs Server6 Server6Proofs Plugins4 Plugins6 Setup.
From Coq Require Import Lia ZifyN ZifyNat ZifyBool.
Open Scope N_scope.

(* ---------- masks ---------- *)
Lemma byte_ones_le v k : byte_ones v = Some k -> k <= 7.
Proof.
  unfold byte_ones. intros H.
  repeat match type of H with
  | match ?x with _ => _ end = _ => destruct x; try discriminate
  end; injection H as <-; lia.
Qed.

Lemma simple_mask_len_le m n : simple_mask_len m = Some n -> n <= 8 * N.of_nat (length m).
Proof.
  revert n. induction m as [|v m IH]; intros n H; cbn [simple_mask_len] in H.
  - injection H as <-. cbn. lia.
  - destruct (v =? 255).
    + destruct (simple_mask_len m) as [k|]; [|discriminate]. change (Some (8 + k) = Some n) in H.
      assert (Hn : n = 8 + k) by congruence. specialize (IH k eq_refl). cbn [length]. lia.
    + destruct (byte_ones v) as [k|] eqn:E; [|discriminate]. destruct (all_zero m); [|discriminate].
      assert (Hn : n = k) by congruence. apply byte_ones_le in E. cbn [length]. lia.
Qed.

Lemma mask_size4_le m : length m = 4%nat -> (0 <= fst (mask_size m) <= 32)%Z.
Proof.
  intros L. unfold mask_size. destruct (simple_mask_len m) as [n|] eqn:E; cbn [fst]; [|lia].
  apply simple_mask_len_le in E. rewrite L in E. lia.
Qed.

(* ---------- C19: accepted configurations cannot panic ---------- *)
Section WithOracles.
Variable O : oracles.

Lemma parse_routes_ok args rs : parse_routes O args = Some rs ->
  Forall (fun r => to4 (rt_dest r) <> None /\ length (rt_mask r) = 4%nat /\ to4 (rt_router r) <> None) rs.
Proof.
  revert rs. induction args as [|a args IH]; intros rs H; cbn [parse_routes] in H.
  - injection H as <-. constructor.
  - destruct (split_comma a []) as [|f0 [|f1 [|? ?]]]; try discriminate.
    destruct (o_parse_cidr O f0) as [[dip dmask]|]; [|discriminate].
    destruct (to4 dip) eqn:Ed; [|discriminate].
    destruct (lenb dmask 4) eqn:El; cbn [negb] in H; [|discriminate].
    destruct (o_parse_ip O f1) as [rip|]; [|discriminate]. destruct (to4 rip) eqn:Er; [|discriminate].
    destruct (parse_routes O args) as [rs'|]; [|discriminate]. injection H as <-.
    constructor; [|apply IH; reflexivity]. cbn [rt_dest rt_mask rt_router]. rewrite Ed, Er.
    split; [discriminate|]. split; [apply Nat.eqb_eq; exact El|discriminate].
Qed.

Lemma enc_routes_ok rs :
  Forall (fun r => to4 (rt_dest r) <> None /\ length (rt_mask r) = 4%nat /\ to4 (rt_router r) <> None) rs ->
  exists v, enc_routes rs = Ok v.
Proof.
  induction rs as [|r rs IH]; intros F; cbn [enc_routes]; [eexists; reflexivity|].
  destruct (Forall_inv F) as (Hd & Hm & _). destruct (IH (Forall_inv_tail F)) as (v & ->).
  unfold enc_route. destruct (to4 (rt_dest r)) as [d4|]; [|contradiction].
  pose proof (mask_size4_le _ Hm) as B.
  destruct ((fst (mask_size (rt_mask r)) + 7) / 8 <=? 4)%Z eqn:E.
  - cbn [bind]. eexists. reflexivity.
  - exfalso. apply Z.leb_gt in E. assert (((fst (mask_size (rt_mask r)) + 7) / 8 <= 4)%Z); [|lia].
    apply Z.div_le_upper_bound; lia.
Qed.

(* For every plugin and EVERY argument vector (any strings, any arity, any oracle answers): if
   setup accepts, the handler never panics, for every request and response. *)
Theorem setup4_ok_handler_safe n args p : setup4 O n args = SetOk p ->
  forall req resp, plug4_handler p req resp <> Panic.
Proof.
  intros H req resp. destruct p; cbn [plug4_handler].
  6:{ (* staticroute *)
    destruct routes as [|r rs]; [discriminate|].
    assert (F : Forall (fun r => to4 (rt_dest r) <> None /\ length (rt_mask r) = 4%nat /\ to4 (rt_router r) <> None) (r :: rs)).
    { destruct n; cbn [setup4] in H; try discriminate;
        repeat match type of H with
        | match ?x with _ => _ end = _ => destruct x eqn:?; try discriminate
        end.
      all: try (injection H as <-; eapply parse_routes_ok; eassumption). }
    destruct (enc_routes_ok _ F) as (v & ->). cbn [bind]. discriminate. }
  all: repeat match goal with
       | |- context [if ?c then _ else _] => destruct c
       | |- context [match ?x with _ => _ end] => destruct x
       end; discriminate.
Qed.

Theorem setup6_ok_handler_safe n args p : setup6 O n args = Some (SetOk p) ->
  forall req resp, plug6_handler p req resp <> Panic.
Proof.
  intros _ req resp. destruct p; cbn [plug6_handler];
    repeat match goal with
    | |- context [match ?x with _ => _ end] => destruct x
    end; discriminate.
Qed.

(* accepted server identifiers are IPv4 addresses in 4-byte form, accepted routes are IPv4 *)
Theorem setup4_serverid_v4 args sid : setup4 O NServerID args = SetOk (PServerID sid) -> length sid = 4%nat.
Proof.
  cbn [setup4]. destruct args as [|a args]; [discriminate|]. destruct (o_parse_ip O a) as [ip|]; [|discriminate].
  destruct (to4 ip) as [s4|] eqn:E; [|discriminate]. intros H. injection H as <-. exact (to4_length _ _ E).
Qed.
End WithOracles.

(* ---------- every built-in stateless DHCPv4 handler keeps the reply header (C11) and returns nil
   only with stop (C13) ---------- *)
Definition lift4 (p : plug4) : handler4 := fun req resp =>
  match resp with
  | None => (None, true)            (* never called with nil in a chain: a nil response ends it *)
  | Some r => match plug4_handler p req r with Ok x => x | _ => (None, true) end
  end.

Theorem plug4_hdr_preserving p : hdr_preserving (lift4 p).
Proof.
  intros req r. unfold lift4.
  assert (U : forall c v, c <> 61 -> c <> 82 -> c <> 53 -> hdr_eq (upd_opt r c v) r /\ type_ok r (upd_opt r c v)).
  { intros c v H1 H2 H3. split; [apply hdr_eq_upd; assumption|left; apply msg_type_upd; assumption]. }
  assert (R : hdr_eq r r /\ type_ok r r) by (split; [apply hdr_eq_refl|left; reflexivity]).
  destruct p; cbn [plug4_handler].
  - destruct (is_requested 6 req); [apply U; discriminate|exact R].
  - destruct (is_requested 26 req); [apply U; discriminate|exact R].
  - apply U; discriminate.
  - apply U; discriminate.
  - apply U; discriminate.
  - destruct routes; [exact R|]. destruct (enc_routes _); cbn [bind]; [apply U; discriminate|reflexivity|reflexivity].
  - destruct (negb (m_op req =? 1)); [exact R|]. destruct (opt_has 51 (m_opts r)); [exact R|apply U; discriminate].
  - destruct (is_listed 108 req); [apply U; discriminate|exact R].
  - destruct (negb (msg_type r =? 2) || negb (is_unspecified (m_yiaddr r))); [exact R|].
    destruct (opt_get 116 (m_opts req)) as [[|? [|? ?]]|]; try reflexivity. apply U; discriminate.
  - destruct opt67 as [v67|]; [|exact R].
    assert (R1 : forall r1, hdr_eq r1 r /\ type_ok r r1 ->
                 hdr_eq (if is_requested 67 req then upd_opt r1 67 v67 else r1) r /\
                 type_ok r (if is_requested 67 req then upd_opt r1 67 v67 else r1)).
    { intros r1 (A & B). destruct (is_requested 67 req); [|split; assumption]. split.
      - eapply hdr_eq_trans; [apply hdr_eq_upd; discriminate|exact A].
      - unfold type_ok in *. rewrite msg_type_upd by discriminate. exact B. }
    destruct opt66 as [v66|]; apply R1; [|exact R]. destruct (is_requested 66 req); [apply U; discriminate|exact R].
  - exact R.
  - destruct (negb (m_op req =? 1)); [exact R|].
    repeat match goal with |- context [if ?c then _ else _] => destruct c end; try reflexivity.
    split.
    + eapply hdr_eq_trans; [apply hdr_eq_upd; discriminate|apply (hdr_eq_si r)].
    + left. rewrite msg_type_upd by discriminate. apply (hdr_eq_si r).
Qed.

Lemma plug4_none p req r st : plug4_handler p req r = Ok (None, st) -> st = true.
Proof.
  destruct p; cbn [plug4_handler]; intros E.
  6:{ destruct routes; [discriminate|]. destruct (enc_routes _); cbn [bind] in E; discriminate. }
  8:{ destruct (negb (msg_type r =? 2) || negb (is_unspecified (m_yiaddr r))); [discriminate|].
      destruct (opt_get 116 (m_opts req)) as [[|? [|? ?]]|]; try discriminate; congruence. }
  8:{ destruct opt67; [|discriminate]. destruct opt66; discriminate. }
  all: repeat match type of E with context [if ?c then _ else _] => destruct c end; try discriminate; congruence.
Qed.

Theorem builtin4_nil_implies_stop p req r : fst (lift4 p req r) = None -> snd (lift4 p req r) = true.
Proof.
  unfold lift4. destruct r as [r|]; [|reflexivity].
  destruct (plug4_handler p req r) as [[[x|] st]|e|] eqn:E; cbn [fst snd]; try discriminate; try reflexivity.
  intros _. exact (plug4_none _ _ _ _ E).
Qed.

(* ---------- the reply of an accepted configuration serialises (ToBytes does not panic) ---------- *)
Lemma ser_ok_upd r c v : ser_ok (upd_opt r c v) = ser_ok r.
Proof. reflexivity. Qed.

Lemma ip_ser_ok_len4 ip : length ip = 4%nat -> ip_ser_ok ip = true.
Proof.
  intros L. unfold ip_ser_ok. destruct ip as [|b ip]; [reflexivity|]. unfold to4, lenb. rewrite L. reflexivity.
Qed.

Theorem setup4_ok_reply_serialisable O n args p : setup4 O n args = SetOk p ->
  forall req resp r' st, ser_ok resp = true -> plug4_handler p req resp = Ok (Some r', st) -> ser_ok r' = true.
Proof.
  intros Hs req resp r' st Hr H. destruct p; cbn [plug4_handler] in H.
  12:{ (* server_id: siaddr becomes the configured 4-byte address *)
    assert (L : length ip = 4%nat).
    { destruct n; cbn [setup4] in Hs;
        repeat match type of Hs with match ?x with _ => _ end = _ => destruct x eqn:?; try discriminate end;
        try discriminate.
      all: try (injection Hs as <-; eapply to4_length; eassumption). }
    destruct (negb (m_op req =? 1)); [injection H as <- _; exact Hr|].
    assert (L4 : length (firstn 4 (ip ++ [0;0;0;0])) = 4%nat).
    { rewrite firstn_app, L, Nat.sub_diag, firstn_O, app_nil_r, firstn_all2 by lia. exact L. }
    remember (firstn 4 (ip ++ [0;0;0;0])) as s4 eqn:Es4. clear Es4.
    repeat match type of H with context [if ?c then _ else _] => destruct c end; try discriminate.
    injection H as <- _. rewrite ser_ok_upd. unfold ser_ok, set_siaddr in *. cbn [m_ciaddr m_yiaddr m_siaddr m_giaddr].
    apply andb_true_iff in Hr. destruct Hr as [Hr Hg]. apply andb_true_iff in Hr. destruct Hr as [Hr _].
    rewrite Hr, Hg. rewrite ip_ser_ok_len4; [reflexivity|exact L4]. }
  6:{ destruct routes; [injection H as <- _; exact Hr|]. destruct (enc_routes _); cbn [bind] in H; try discriminate.
      injection H as <- _. rewrite ser_ok_upd. exact Hr. }
  8:{ destruct (negb (msg_type resp =? 2) || negb (is_unspecified (m_yiaddr resp))); [injection H as <- _; exact Hr|].
      destruct (opt_get 116 (m_opts req)) as [[|? [|? ?]]|]; try discriminate. injection H as <- _. rewrite ser_ok_upd. exact Hr. }
  8:{ destruct opt67; [|injection H as <- _; exact Hr]. injection H as <- _.
      destruct opt66; repeat match goal with |- context [if ?c then _ else _] => destruct c end; rewrite ?ser_ok_upd; exact Hr. }
  all: repeat match type of H with context [if ?c then _ else _] => destruct c end; try discriminate;
       injection H as <- _; rewrite ?ser_ok_upd; exact Hr.
Qed.
