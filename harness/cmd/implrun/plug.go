package main

// C14, C17, C19: every stateless plugin through Plugin.Setup4/Setup6 and the returned handler,
// each configuration in a fresh child process (implrun plugsub).

import (
	"bytes"
	"encoding/hex"
	"encoding/json"
	"fmt"
	"net"
	"net/url"
	"os"
	"os/exec"
	"strconv"
	"strings"
	"time"

	"github.com/insomniacslk/dhcp/dhcpv4"
	"github.com/insomniacslk/dhcp/dhcpv6"
)

func init() {
	runners["C14"] = func(c *Ctx) {
		runPlugins(c)
		rule := c.Extra["rule"]
		runRealChains14(c)
		c.Extra["rule"] = fmt.Sprint(rule) + " || whole chains: server_id (also listed twice) followed by generated chains of the other built-in plugins, DHCPv4 and DHCPv6, fuzzed histories in fresh processes; every reply must carry this server's identifier (option 54 and siaddr / exactly one Server Identifier), and the assembled model is compared"
	}
	runners["C17"] = runPlugins
	runners["C19"] = runPlugins
}

var pnameCoq = map[string]string{"dns": "NDns", "mtu": "NMtu", "netmask": "NNetmask", "router": "NRouter", "searchdomains": "NSearch",
	"staticroute": "NStaticRoute", "lease_time": "NLeaseTime", "ipv6only": "NIPv6Only", "autoconfigure": "NAutoconf", "nbp": "NNbp",
	"sleep": "NSleep", "server_id": "NServerID"}

func runChild(spec subSpec) (subResult, error) {
	var res subResult
	in, _ := json.Marshal(spec)
	cmd := exec.Command(os.Args[0], "plugsub")
	cmd.Stdin = bytes.NewReader(in)
	var out, errb bytes.Buffer
	cmd.Stdout, cmd.Stderr = &out, &errb
	done := make(chan error, 1)
	if err := cmd.Start(); err != nil {
		return res, err
	}
	go func() { done <- cmd.Wait() }()
	select {
	case err := <-done:
		if err != nil {
			return res, fmt.Errorf("child failed: %v: %s", err, tailStr(errb.String(), 600))
		}
	case <-time.After(60 * time.Second):
		cmd.Process.Kill()
		return res, fmt.Errorf("child timed out")
	}
	if err := json.Unmarshal(out.Bytes(), &res); err != nil {
		return res, fmt.Errorf("child output: %v: %s", err, tailStr(out.String()+errb.String(), 600))
	}
	return res, nil
}

func tailStr(s string, n int) string {
	if len(s) > n {
		return s[len(s)-n:]
	}
	return s
}

// ---- oracle tables: what the real text parsers say about the strings of a case ----
func vOptBytes(b []byte, ok bool) string {
	if !ok {
		return "None"
	}
	return "(Some " + vBytes(b) + ")"
}

func oracleTables(strs []string) string {
	seen := map[string]bool{}
	var ip, cidr, dur, atoi, mac, urls []string
	for _, s := range strs {
		if seen[s] {
			continue
		}
		seen[s] = true
		k := vStr(s)
		p := net.ParseIP(s)
		ip = append(ip, fmt.Sprintf("(%s, %s)", k, vOptBytes(p, p != nil)))
		if _, n, err := net.ParseCIDR(s); err == nil {
			cidr = append(cidr, fmt.Sprintf("(%s, Some (%s, %s))", k, vBytes(n.IP), vBytes(n.Mask)))
		} else {
			cidr = append(cidr, fmt.Sprintf("(%s, None)", k))
		}
		if d, err := time.ParseDuration(s); err == nil {
			dur = append(dur, fmt.Sprintf("(%s, Some %s)", k, vZ(int64(d))))
		} else {
			dur = append(dur, fmt.Sprintf("(%s, None)", k))
		}
		if v, err := strconv.Atoi(s); err == nil {
			atoi = append(atoi, fmt.Sprintf("(%s, Some %s)", k, vZ(int64(v))))
		} else {
			atoi = append(atoi, fmt.Sprintf("(%s, None)", k))
		}
		if hw, err := net.ParseMAC(s); err == nil {
			mac = append(mac, fmt.Sprintf("(%s, Some %s)", k, vBytes(hw)))
		} else {
			mac = append(mac, fmt.Sprintf("(%s, None)", k))
		}
		if u, err := url.Parse(s); err == nil {
			urls = append(urls, fmt.Sprintf("(%s, Some {| u_scheme := %s; u_host := %s; u_path := %s; u_string := %s; u_params := %s |})",
				k, vStr(u.Scheme), vStr(u.Host), vStr(u.Path), vStr(u.String()), vStr(u.Query().Get("params"))))
		} else {
			urls = append(urls, fmt.Sprintf("(%s, None)", k))
		}
	}
	return fmt.Sprintf("{| t_ip := %s; t_cidr := %s; t_dur := %s; t_atoi := %s; t_mac := %s; t_url := %s |}",
		vList(ip), vList(cidr), vList(dur), vList(atoi), vList(mac), vList(urls))
}

// ---- argument vectors ----
var ipTexts = []string{"1.1.1.1", "10.0.0.1", "255.255.255.255", "0.0.0.0", "::ffff:1.2.3.4", "2001:db8::1", "garbage", "", "1.2.3", "192.168.1.254", "fe80::1"}

func pickN(c *Ctx, from []string, lo, hi int) []string {
	n := lo + c.R.Intn(hi-lo+1)
	out := []string{}
	for i := 0; i < n; i++ {
		out = append(out, from[c.R.Intn(len(from))])
	}
	return out
}

func genArgs(c *Ctx, name string, proto int) []string {
	r := c.R
	one := func(l []string) []string { return []string{l[r.Intn(len(l))]} }
	durs := []string{"3600s", "1h", "0s", "-5s", "1.5s", "abc", "", "4294967296s", "1h30m", "300ms", "49710d", "100000h"}
	switch name {
	case "dns", "router":
		if r.Pct(60) {
			return pickN(c, ipTexts[:3], 1, 3)
		}
		return pickN(c, ipTexts, 0, 3)
	case "mtu":
		if r.Pct(10) {
			return pickN(c, []string{"1500", "9000"}, 0, 2)
		}
		return one([]string{"1500", "0", "65535", "65536", "-1", "abc", "", "1e3", "0x10", "576", "9000", "70000"})
	case "netmask":
		if r.Pct(10) {
			return pickN(c, []string{"255.255.255.0"}, 0, 2)
		}
		return one([]string{"255.255.255.0", "255.255.255.255", "0.0.0.0", "255.0.255.0", "255.255.255.254", "ffff:ff00::", "garbage", "128.0.0.0", "255.255.0.0", "::ffff:255.255.255.0", "255.255.255.1"})
	case "searchdomains":
		return pickN(c, []string{"example.com", "a.b.c", "", "x", "with..dots", strings.Repeat("l", 64) + ".org", strings.Repeat("m", 300), "trailing.", ".leading", "sub.example.net",
			strings.Repeat("l", 63) + ".org", strings.Repeat("é", 32) + ".example", strings.Repeat("é", 31) + ".example", strings.Repeat("😀", 16) + ".org", strings.Repeat("😀", 60) + ".org"}, 0, 3)
	case "staticroute":
		pool := []string{"10.0.0.0/8,192.168.1.1", "0.0.0.0/0,10.0.0.1", "192.168.5.0/24,192.168.1.254", "10.1.2.3/32,10.0.0.1", "10.128.0.0/9,10.0.0.1", "10.1.2.3/12,192.168.1.1", "192.168.5.77/20,10.0.0.1",
			"2001:db8::/32,10.0.0.1", "10.0.0.0/8,2001:db8::1", "::ffff:10.0.0.0/104,192.168.1.1", "::/0,10.0.0.1", "10.0.0.0/8", "10.0.0.0/8,1.1.1.1,2.2.2.2", "10.0.0.0/33,1.1.1.1", "garbage", "10.0.0.0/8,", ",10.0.0.1"}
		if r.Pct(50) {
			return pickN(c, pool[:7], 1, 3)
		}
		return pickN(c, pool, 0, 3)
	case "lease_time", "sleep":
		if name == "sleep" {
			return pickN(c, []string{"0s", "1ms", "abc", "", "2ms"}, 0, 2)
		}
		return pickN(c, durs, 0, 2)
	case "ipv6only":
		return pickN(c, durs, 0, 2)
	case "autoconfigure":
		return pickN(c, []string{"0", "1", "DoNotAutoConfigure", "AutoConfigure", "2", "", "autoconfigure"}, 0, 2)
	case "nbp":
		pool := []string{"tftp://10.0.0.1/boot.efi", "http://host/path?params=a+b", "https://h/x", "ftp://h/y", "bootfile", "tftp://[::1]/x", "://bad",
			"http://host/p?params=abc", "", "http://boot.example/ipxe?params=" + strings.Repeat("p", 70), "tftp://srv", "HTTP://UPPER/x", "file:///local/path"}
		if r.Pct(8) {
			return pickN(c, pool, 0, 2)
		}
		return one(pool)
	case "server_id":
		if proto == 4 {
			return pickN(c, ipTexts, 0, 2)
		}
		types := []string{"LL", "ll", "duid-ll", "DUID_LL", "LLT", "duid-llt", "duid_llt", "EN", "uuid", "llx", "", "Ll"}
		macs := []string{"00:11:22:33:44:55", "aa-bb-cc-dd-ee-ff", "0011.2233.4455", "00:11:22:33:44:55:66:77", "garbage", "", "00:11:22:33:44"}
		n := r.Intn(4)
		if r.Pct(70) {
			n = 2
		}
		out := []string{}
		for i := 0; i < n; i++ {
			if i == 0 {
				out = append(out, types[r.Intn(len(types))])
			} else {
				out = append(out, macs[r.Intn(len(macs))])
			}
		}
		return out
	}
	return nil
}

// strings whose parse results the model may ask for
func oracleStrings(name string, args []string) []string {
	out := append([]string{}, args...)
	if name == "staticroute" {
		for _, a := range args {
			out = append(out, strings.Split(a, ",")...)
		}
	}
	return out
}

// ---- request batteries ----
type run4 struct {
	req, resp *dhcpv4.DHCPv4
	label     string
}

func battery4(c *Ctx, name string, args []string) []run4 {
	r := c.R
	prls := [][]byte{nil, {}, {1, 3, 6}, {6}, {26}, {66, 67}, {108}, {1, 3, 6, 15, 26, 66, 67, 108, 119, 121}, {66}, {67}, {1, 3}}
	var out []run4
	own := net.ParseIP("10.9.9.9")
	if name == "server_id" && len(args) > 0 {
		if ip := net.ParseIP(args[0]); ip != nil && ip.To4() != nil {
			own = ip.To4()
		}
	}
	mk := func(prl []byte, mt byte, op byte, siaddr net.IP, o54 []byte, o116 []byte, yi net.IP, pre51 bool, rtype byte) run4 {
		req, _ := dhcpv4.New()
		req.OpCode = dhcpv4.OpcodeType(op)
		req.ClientHWAddr = net.HardwareAddr(r.Bytes(6))
		req.Options[53] = []byte{mt}
		if prl != nil {
			req.Options[55] = prl
		}
		if siaddr != nil {
			req.ServerIPAddr = siaddr
		}
		if o54 != nil {
			req.Options[54] = o54
		}
		if o116 != nil {
			req.Options[116] = o116
		}
		resp, _ := dhcpv4.NewReplyFromRequest(req)
		resp.Options[53] = []byte{rtype}
		if yi != nil {
			resp.YourIPAddr = yi
		}
		if pre51 {
			resp.Options[51] = []byte{0, 0, 1, 44}
		}
		// both sides see the messages as parsed from the wire
		rq, _ := dhcpv4.FromBytes(req.ToBytes())
		rp, _ := dhcpv4.FromBytes(resp.ToBytes())
		return run4{rq, rp, ""}
	}
	other := net.IP{10, 77, 77, 77}
	switch name {
	case "server_id":
		sis := []net.IP{nil, {0, 0, 0, 0}, own, other, {169, 254, 10, 2}, {127, 0, 0, 1}, {224, 0, 0, 5}, {255, 255, 255, 255}}
		o54s := [][]byte{nil, {0, 0, 0, 0}, own, other, {1, 2, 3}}
		for _, si := range sis {
			for _, o := range o54s {
				out = append(out, mk(prls[r.Intn(len(prls))], []byte{1, 3}[r.Intn(2)], 1, si, o, nil, nil, false, 2))
			}
		}
		out = append(out, mk(nil, 1, 2, other, nil, nil, nil, false, 2))
	case "autoconfigure":
		for _, rt := range []byte{2, 5} {
			for _, yi := range []net.IP{nil, {10, 0, 0, 5}} {
				for _, o := range [][]byte{nil, {1}, {0}, {1, 1}, {}} {
					out = append(out, mk(prls[r.Intn(len(prls))], 1, 1, nil, nil, o, yi, false, rt))
				}
			}
		}
	default:
		for _, p := range prls {
			out = append(out, mk(p, []byte{1, 3}[r.Intn(2)], 1, nil, nil, nil, []net.IP{nil, {10, 0, 0, 5}}[r.Intn(2)], r.Pct(30), []byte{2, 5}[r.Intn(2)]))
		}
		out = append(out, mk(nil, 1, 2, nil, nil, nil, nil, false, 2), mk(nil, 1, 1, nil, nil, nil, nil, true, 2), mk(nil, 1, 1, nil, nil, nil, nil, false, 2))
		// the request itself carries the option the plugin is about to set (a client stating the
		// lease time, MTU, ... it would like): what the reply gets must not depend on it
		for _, code := range []uint8{1, 3, 6, 26, 51, 66, 67, 108, 119, 121} {
			x := mk(prls[r.Intn(len(prls))], []byte{1, 3}[r.Intn(2)], 1, nil, nil, nil, nil, false, []byte{2, 5}[r.Intn(2)])
			x.req.Options[code] = [][]byte{{0, 0, 14, 16}, {5, 220}, {10, 0, 0, 1}, {}}[r.Intn(4)]
			rq, err := dhcpv4.FromBytes(x.req.ToBytes())
			if err == nil {
				x.req = rq
				out = append(out, x)
			}
		}
		// the response already carries options an earlier plugin of the chain has set (static routes
		// before the router, a boot file, another DNS list, ...): what this plugin adds must not depend on them
		ownCodes := map[string][]uint8{"dns": {6}, "mtu": {26}, "netmask": {1}, "router": {3}, "searchdomains": {119}, "staticroute": {121},
			"lease_time": {51}, "ipv6only": {108}, "autoconfigure": {116}, "nbp": {66, 67}}[name]
		for _, code := range []uint8{1, 3, 6, 15, 26, 66, 67, 108, 119, 121} {
			if bytes.IndexByte(ownCodes, code) >= 0 {
				continue // (the plugin's own option already present is a different question: Update semantics, covered by the model cases)
			}
			x := mk(prls[r.Intn(len(prls))], []byte{1, 3}[r.Intn(2)], 1, nil, nil, nil, []net.IP{nil, {10, 0, 0, 5}}[r.Intn(2)], false, []byte{2, 5}[r.Intn(2)])
			x.resp.Options[code] = [][]byte{{24, 10, 1, 2, 10, 0, 0, 254}, {10, 0, 0, 77}, {0, 0, 7, 8}, []byte("earlier")}[r.Intn(4)]
			rp, err := dhcpv4.FromBytes(x.resp.ToBytes())
			if err == nil {
				x.resp = rp
				out = append(out, x)
			}
		}
	}
	return out
}

type run6 struct {
	req, resp dhcpv6.DHCPv6
}

func ownDUID(args []string) []byte {
	if len(args) < 2 {
		return nil
	}
	hw, err := net.ParseMAC(args[1])
	if err != nil {
		return nil
	}
	switch strings.ToLower(args[0]) {
	case "ll", "duid-ll", "duid_ll":
		return append([]byte{0, 3, 0, 1}, hw...)
	case "llt", "duid-llt", "duid_llt":
		return append([]byte{0, 1, 0, 1, 0, 0, 0, 0}, hw...)
	}
	return nil
}

func battery6(c *Ctx, name string, args []string) []run6 {
	r := c.R
	var out []run6
	own := ownDUID(args)
	mk := func(t uint8, sid []byte, oros [][]uint16, depth int) run6 {
		m := &dhcpv6.Message{MessageType: dhcpv6.MessageType(t)}
		copy(m.TransactionID[:], r.Bytes(3))
		m.AddOption(dhcpv6.OptClientID(randDUID(c)))
		if sid != nil {
			m.AddOption(&dhcpv6.OptionGeneric{OptionCode: dhcpv6.OptionServerID, OptionData: sid})
		}
		for _, o := range oros {
			codes := []dhcpv6.OptionCode{}
			for _, x := range o {
				codes = append(codes, dhcpv6.OptionCode(x))
			}
			m.AddOption(dhcpv6.OptRequestedOption(codes...))
		}
		var d dhcpv6.DHCPv6 = m
		for i := 0; i < depth; i++ {
			d, _ = dhcpv6.EncapsulateRelay(d, dhcpv6.MessageTypeRelayForward, net.IP(r.Bytes(16)), net.IP(r.Bytes(16)))
		}
		resp := &dhcpv6.Message{MessageType: dhcpv6.MessageTypeReply, TransactionID: m.TransactionID}
		if t == 1 {
			resp.MessageType = dhcpv6.MessageTypeAdvertise
		}
		resp.AddOption(m.GetOneOption(dhcpv6.OptionClientID))
		rq, e1 := dhcpv6.FromBytes(d.ToBytes())
		rp, e2 := dhcpv6.FromBytes(resp.ToBytes())
		if e1 != nil || e2 != nil {
			return run6{}
		}
		return run6{rq, rp}
	}
	// (the library drops duplicates inside one Option Request option when parsing; two ORO options
	// listing the same code are merged into a list that has it twice)
	oroSets := [][][]uint16{nil, {{23}}, {{24}}, {{59}}, {{60}}, {{59, 60}}, {{59, 59}}, {{60, 59, 23}}, {{59}, {60}}, {{23, 24, 17}}, {{}},
		{{59}, {59}}, {{60}, {60}}, {{59, 60}, {60, 59}}, {{23}, {23}}, {{24}, {24, 24}}}
	if name == "server_id" {
		sids := [][]byte{nil}
		if own != nil {
			sids = append(sids, own, append(append([]byte{}, own...), 0), own[:len(own)-1])
		}
		sids = append(sids, []byte{0, 3, 0, 1, 9, 9, 9, 9, 9, 9}, []byte{0, 2, 0, 0, 0, 9, 1, 2, 3}, []byte{0, 4, 1, 2, 3, 4, 5, 6, 7, 8, 9, 10, 11, 12, 13, 14, 15, 16})
		types := []uint8{1, 3, 4, 5, 6, 8, 9, 11, 2, 7, 10, 0, 200}
		for _, t := range types {
			for _, s := range sids {
				if x := mk(t, s, nil, r.Intn(3)); x.req != nil {
					out = append(out, x)
				}
			}
		}
		return out
	}
	for _, o := range oroSets {
		if x := mk([]uint8{1, 3, 11}[r.Intn(3)], nil, o, r.Intn(3)); x.req != nil {
			out = append(out, x)
		}
	}
	return out
}

func bytesOfOpt(o dhcpv4.Options, code uint8) ([]byte, bool) {
	v, ok := o[code]
	return v, ok
}

func runPlugins(c *Ctx) {
	if c.Prop == "C19" {
		runCodec(c)      // the option TLV codec against lib/Opt4Codec.v
		runStateful19(c) // argument vectors of the stateful plugins (prefix, range, file)
	}
	c.SetCases("From Verif Require Import Base Msg4 Msg6 Plugins4 Plugins6 Setup PluginRun.", "PluginRun.mismatches")
	c.shard = 40
	names4 := []string{"dns", "mtu", "netmask", "router", "searchdomains", "staticroute", "lease_time", "ipv6only", "autoconfigure", "nbp", "sleep", "server_id"}
	names6 := []string{"dns", "searchdomains", "nbp", "sleep", "server_id"}
	if c.Prop == "C14" {
		names4, names6 = []string{"server_id"}, []string{"server_id"}
	}
	per := c.Scale(8, 200)
	if c.Prop == "C14" {
		per = c.Scale(12, 400)
	}
	// corpus: the repaired defects first
	corpus4 := map[string][][]string{"staticroute": {{"2001:db8::/32,10.0.0.1"}, {"10.0.0.0/8,2001:db8::1"}, {"::ffff:10.0.0.0/104,192.168.1.1"}},
		"ipv6only": {{"30m"}}, "server_id": {{"10.9.9.9"}}, "sleep": {{"0s"}, {"-1ms"}, {"1ms"}}}
	corpus6 := map[string][][]string{"nbp": {{"http://host/p?params=abc"}, {"tftp://10.0.0.1/boot.efi"}, {"http://[2001:db8::1]/boot.php?arch=x64"}, {"http://h/b?params="}}, "server_id": {{"LL", "00:11:22:33:44:55"}, {"duid-llt", "aa-bb-cc-dd-ee-ff"}}, "sleep": {{"0s"}, {"-1ms"}}}
	// every value of the small argument pools is used at least once per run
	base := map[string][]string{
		"nbp":           {"tftp://10.0.0.1/boot.efi", "http://host/path?params=a+b", "https://h/x", "ftp://h/y", "bootfile", "tftp://[::1]/x", "://bad", "http://host/p?params=abc", "", "tftp://srv", "HTTP://UPPER/x", "file:///local/path", "http://10.0.0.1/boot.php?arch=x64", "http://h/b?params=", "http://h/b?x=1&params=p1+p2", "tftp://192.0.2.7/pxelinux.0"},
		"mtu":           {"1500", "0", "65535", "65536", "-1", "abc", "576"},
		"netmask":       {"255.255.255.0", "255.255.255.255", "0.0.0.0", "255.0.255.0", "255.255.255.254", "ffff:ff00::", "128.0.0.0", "::ffff:255.255.255.0"},
		"lease_time":    {"3600s", "0s", "-5s", "1.5s", "abc", "4294967296s", "49710d"},
		"ipv6only":      {"1h", "0s", "abc"},
		"autoconfigure": {"0", "1", "DoNotAutoConfigure", "AutoConfigure", "2", ""},
		"dns":           ipTexts, "router": ipTexts,
		"staticroute": {"10.0.0.0/8,192.168.1.1", "0.0.0.0/0,10.0.0.1", "10.1.2.3/32,10.0.0.1", "2001:db8::/32,10.0.0.1", "10.0.0.0/8,2001:db8::1", "::ffff:10.0.0.0/104,192.168.1.1", "::/0,10.0.0.1", "10.0.0.0/8", "10.0.0.0/33,1.1.1.1"},
		"searchdomains": {"example.com", "", "with..dots", strings.Repeat("l", 63) + ".org", strings.Repeat("l", 64) + ".org", strings.Repeat("m", 300), "trailing."},
		"server_id":     ipTexts,
	}
	for _, name := range names4 {
		cfgs := append([][]string{}, corpus4[name]...)
		for _, b := range base[name] {
			cfgs = append(cfgs, []string{b})
		}
		for i := 0; i < per; i++ {
			cfgs = append(cfgs, genArgs(c, name, 4))
		}
		for _, args := range cfgs {
			runPluginCase4(c, name, args)
		}
	}
	for _, name := range names6 {
		cfgs := append([][]string{}, corpus6[name]...)
		if name == "server_id" {
			for _, t := range []string{"LL", "ll", "duid-ll", "DUID_LL", "LLT", "duid-llt", "duid_llt", "EN", "uuid", "llx", "Ll"} {
				cfgs = append(cfgs, []string{t, "00:11:22:33:44:55"})
			}
			for _, m := range []string{"aa-bb-cc-dd-ee-ff", "0011.2233.4455", "00:11:22:33:44:55:66:77", "garbage", "", "00:11:22:33:44"} {
				cfgs = append(cfgs, []string{"LL", m})
			}
		} else {
			for _, b := range base[name] {
				cfgs = append(cfgs, []string{b})
			}
		}
		for i := 0; i < per; i++ {
			cfgs = append(cfgs, genArgs(c, name, 6))
		}
		for _, args := range cfgs {
			runPluginCase6(c, name, args)
		}
	}
	c.Extra["rule"] = "per plugin (dns, mtu, netmask, router, searchdomains, staticroute, lease_time, ipv6only, autoconfigure, nbp, sleep, server_id; DHCPv6: dns, searchdomains, nbp, sleep, server_id) argument vectors drawn from valid, boundary and invalid values of each argument kind and wrong arity, each configuration set up in a fresh child process through Plugin.Setup4/Setup6, then a battery of requests (parameter request list absent / empty / every relevant subset, DISCOVER/REQUEST, yiaddr set or not, option 51 preset, option 116 variants, the siaddr x option 54 matrix, DHCPv6 message types x Server-ID relations x option request lists x relay depth); every reply is serialised and parsed back; non-trivial = distinct configuration accepted by setup"
}

func runPluginCase4(c *Ctx, name string, args []string) {
	runs := battery4(c, name, args)
	spec := subSpec{Proto: 4, Name: name, Args: args}
	for _, r := range runs {
		spec.Runs = append(spec.Runs, subRun{hex.EncodeToString(r.req.ToBytes()), hex.EncodeToString(r.resp.ToBytes())})
	}
	input := map[string]interface{}{"plugin": name, "protocol": 4, "args": args}
	c.Breadcrumb(input)
	res, err := runChild(spec)
	if err != nil {
		// the child died: a panic outside recover (log.Fatal, runtime fatal error) counts as a crash of the server
		c.vio("C19", "plugin-process-exit", fmt.Sprintf("%s %v (DHCPv4): the process running the accepted configuration died: %v", name, args, err), input)
		return
	}
	if res.SetupPanic != "" {
		c.vio("C19", "setup-panic", fmt.Sprintf("%s %v: setup panicked: %s", name, args, res.SetupPanic), input)
		return
	}
	ok := res.SetupErr == "" && !res.NilHandler
	if res.ReconfigChanged != "" {
		c.vio("C14", "identity-changed-by-rejected-setup", fmt.Sprintf("%s %v (DHCPv4): after further set-up calls that were all rejected, the running instance answers the same request differently: %s", name, args, res.ReconfigChanged), input)
	}
	if res.LoadAccepted {
		c.vio("C19", "rejected-config-loaded", fmt.Sprintf("%s %v (DHCPv4): setup returns the error %q, yet plugins.LoadPlugins accepts the configuration and the server would start with it", name, args, res.SetupErr), input)
	}
	c.Count("plugin4:" + name)
	if ok {
		c.Count("setup4:accepted")
	} else {
		c.Count("setup4:rejected")
	}
	items := []string{}
	for i, o := range res.Runs {
		if !ok {
			break
		}
		r := runs[i]
		in2 := map[string]interface{}{"plugin": name, "protocol": 4, "args": args, "request_hex": spec.Runs[i].Req, "response_in_hex": spec.Runs[i].Resp}
		obs := ""
		var out *dhcpv4.DHCPv4
		switch {
		case o.Panic:
			obs = "O4Panic"
			c.vio("C19", "handler-panic", fmt.Sprintf("%s %v accepted by setup, handler panics: %s", name, args, o.PanicMsg), in2)
		case o.Nil:
			obs = "O4Nil " + vBool(o.Stop)
			if !o.Stop {
				c.vio("C13", "nil-without-stop", fmt.Sprintf("%s returned nil without stop", name), in2)
			}
		default:
			if o.SerPanic {
				c.vio("C19", "reply-serialise-panic", fmt.Sprintf("%s %v accepted by setup, the reply cannot be serialised: %s", name, args, o.RTDetail), in2)
				continue
			}
			if !o.RTOk {
				c.vio("C19", "reply-roundtrip", fmt.Sprintf("%s %v accepted by setup, the reply does not parse back to the same options: %s", name, args, o.RTDetail), in2)
			}
			wb, _ := hex.DecodeString(o.Out)
			out, _ = dhcpv4.FromBytes(wb)
			if out == nil {
				continue
			}
			obs = fmt.Sprintf("O4Resp %s %s", vMsg4(out), vBool(o.Stop))
		}
		items = append(items, fmt.Sprintf("(%s, %s, %s)", vMsg4(r.req), vMsg4(r.resp), obs))
		if out != nil {
			monitorPlugin4(c, name, args, r.req, r.resp, out, o.Stop, in2)
		} else if o.Nil {
			monitorPluginNil4(c, name, args, r.req, r.resp, in2)
		}
	}
	as := []string{}
	for _, a := range args {
		as = append(as, vStr(a))
	}
	c.AddCase(fmt.Sprintf("CP4 %s %s %s %s %s", pnameCoq[name], vList(as), oracleTables(oracleStrings(name, args)), vBool(ok), vList(items)))
	c.Eval(fmt.Sprintf("4|%s|%q", name, args), ok)
	if c.Evals%23 == 0 {
		c.Sample(map[string]interface{}{"plugin": name, "protocol": 4, "args": args, "accepted": ok, "requests": len(items), "setup_error": res.SetupErr})
	}
}

func has4(m *dhcpv4.DHCPv4, code uint8) bool { _, ok := m.Options[code]; return ok }

func listed(req *dhcpv4.DHCPv4, code uint8) (explicit bool, absent bool) {
	v := req.Options[55]
	if len(v) == 0 {
		return false, true
	}
	return bytes.IndexByte(v, code) >= 0, false
}

func monitorPluginNil4(c *Ctx, name string, args []string, req, resp *dhcpv4.DHCPv4, input interface{}) {
	switch name {
	case "server_id":
		own := net.ParseIP(args[0]).To4()
		other := func(ip net.IP) bool { return ip != nil && !ip.Equal(net.IPv4zero) && !ip.Equal(own) }
		var o54 net.IP
		if v := req.Options[54]; len(v) == 4 {
			o54 = net.IP(v)
		}
		if !(other(req.ServerIPAddr) || other(o54)) {
			c.vio("C14", "sid4-dropped-wrongly", fmt.Sprintf("server_id %v: a request naming no other server (siaddr %v, option 54 %x) was dropped", own, req.ServerIPAddr, req.Options[54]), input)
		}
	case "autoconfigure":
		if v := req.Options[116]; len(v) == 1 {
			c.vio("C17", "autoconfigure-dropped", "a client that sent option 116 was dropped", input)
		}
		if resp.MessageType() != dhcpv4.MessageTypeOffer || !resp.YourIPAddr.IsUnspecified() {
			c.vio("C17", "autoconfigure-dropped", "autoconfigure dropped a reply that is not an address-less OFFER", input)
		}
	default:
		c.vio("C17", "plugin-dropped", fmt.Sprintf("%s dropped the request", name), input)
	}
}

func monitorPlugin4(c *Ctx, name string, args []string, req, resp, out *dhcpv4.DHCPv4, stop bool, input interface{}) {
	// the plugin's own option codes
	own := map[string][]uint8{"dns": {6}, "mtu": {26}, "netmask": {1}, "router": {3}, "searchdomains": {119}, "staticroute": {121},
		"lease_time": {51}, "ipv6only": {108}, "autoconfigure": {116}, "nbp": {66, 67}, "sleep": {}, "server_id": {54}}[name]
	isOwn := func(code uint8) bool {
		for _, x := range own {
			if x == code {
				return true
			}
		}
		return false
	}
	// everything else is untouched
	for code, v := range resp.Options {
		if !isOwn(code) && !bytes.Equal(out.Options[code], v) {
			c.vio("C17", "other-option-changed", fmt.Sprintf("%s changed option %d", name, code), input)
		}
	}
	for code := range out.Options {
		if _, was := resp.Options[code]; !was && !isOwn(code) {
			c.vio("C17", "other-option-added", fmt.Sprintf("%s added option %d", name, code), input)
		}
	}
	if out.TransactionID != resp.TransactionID || out.OpCode != resp.OpCode || !out.YourIPAddr.Equal(resp.YourIPAddr) || !bytes.Equal(out.ClientHWAddr, resp.ClientHWAddr) {
		c.vio("C17", "header-changed", fmt.Sprintf("%s changed the reply header", name), input)
	}
	ips4 := func() []byte {
		var b []byte
		for _, a := range args {
			b = append(b, net.ParseIP(a).To4()...)
		}
		return b
	}
	expectIf := func(code uint8, entitled bool, want []byte) {
		got, present := out.Options[code]
		_, was := resp.Options[code]
		if entitled {
			if !present || !bytes.Equal(got, want) {
				c.vio("C17", "option-missing-or-wrong", fmt.Sprintf("%s %v: option %d = %x (present %v), configured value encodes to %x", name, args, code, got, present, want), input)
			}
		} else if present != was || !bytes.Equal(got, resp.Options[code]) {
			c.vio("C17", "option-not-entitled", fmt.Sprintf("%s %v: option %d given to a client not entitled to it (request list %x)", name, args, code, req.Options[55]), input)
		}
	}
	switch name {
	case "dns":
		ex, abs := listed(req, 6)
		expectIf(6, ex || abs, ips4())
	case "router":
		expectIf(3, true, ips4())
	case "mtu":
		ex, abs := listed(req, 26)
		v, _ := strconv.Atoi(args[0])
		expectIf(26, ex || abs, []byte{byte(uint16(v) >> 8), byte(uint16(v))})
	case "netmask":
		expectIf(1, true, net.ParseIP(args[0]).To4())
	case "lease_time":
		d, _ := time.ParseDuration(args[0])
		secs := uint32(d / time.Second)
		if req.OpCode == dhcpv4.OpcodeBootRequest {
			expectIf(51, !has4(resp, 51), []byte{byte(secs >> 24), byte(secs >> 16), byte(secs >> 8), byte(secs)})
		}
	case "ipv6only":
		ex, _ := listed(req, 108)
		if ex != stop {
			c.vio("C17", "ipv6only-stop", fmt.Sprintf("ipv6only: option 108 explicitly listed = %v (request list %x) but processing stopped = %v", ex, req.Options[55], stop), input)
		}
		if has4(out, 108) != ex {
			c.vio("C17", "option-not-entitled", fmt.Sprintf("ipv6only: option 108 present = %v for a client whose request list is %x (explicitly listed = %v)", has4(out, 108), req.Options[55], ex), input)
		}
	case "autoconfigure":
		affected := resp.MessageType() == dhcpv4.MessageTypeOffer && resp.YourIPAddr.IsUnspecified()
		if !affected && has4(out, 116) {
			c.vio("C17", "option-not-entitled", "autoconfigure added option 116 to a reply that is not an address-less OFFER", input)
		}
		if affected && len(req.Options[116]) != 1 {
			c.vio("C17", "autoconfigure-answered", "an address-less OFFER for a client without option 116 was not dropped", input)
		}
	case "nbp":
		u, _ := url.Parse(args[0])
		ex66, abs66 := listed(req, 66)
		ex67, _ := listed(req, 67)
		switch u.Scheme {
		case "http", "https", "ftp":
			expectIf(66, false, nil)
			expectIf(67, ex67 || abs66, []byte(u.String()))
		default:
			expectIf(66, ex66 || abs66, []byte(u.Host))
			expectIf(67, ex67 || abs66, []byte(u.Path))
		}
	case "server_id":
		ownIP := net.ParseIP(args[0]).To4()
		other := func(ip net.IP) bool { return ip != nil && !ip.Equal(net.IPv4zero) && !ip.Equal(ownIP) }
		var o54 net.IP
		if v := req.Options[54]; len(v) == 4 {
			o54 = net.IP(v)
		}
		if req.OpCode == dhcpv4.OpcodeBootRequest {
			if other(req.ServerIPAddr) || other(o54) {
				c.vio("C14", "sid4-answered-other", fmt.Sprintf("server_id %v: a request naming another server (siaddr %v, option 54 %x) was answered", ownIP, req.ServerIPAddr, req.Options[54]), input)
			}
			if !out.ServerIPAddr.Equal(ownIP) || !bytes.Equal(out.Options[54], ownIP) {
				c.vio("C14", "sid4-reply-id", fmt.Sprintf("server_id %v: reply carries siaddr %v and option 54 %x", ownIP, out.ServerIPAddr, out.Options[54]), input)
			}
		}
	}
}

func runPluginCase6(c *Ctx, name string, args []string) {
	runs := battery6(c, name, args)
	spec := subSpec{Proto: 6, Name: name, Args: args}
	for _, r := range runs {
		spec.Runs = append(spec.Runs, subRun{hex.EncodeToString(r.req.ToBytes()), hex.EncodeToString(r.resp.ToBytes())})
	}
	input := map[string]interface{}{"plugin": name, "protocol": 6, "args": args}
	c.Breadcrumb(input)
	res, err := runChild(spec)
	if err != nil {
		c.vio("C19", "plugin-process-exit", fmt.Sprintf("%s %v (DHCPv6): the process running the accepted configuration died: %v", name, args, err), input)
		return
	}
	if res.SetupPanic != "" {
		c.vio("C19", "setup-panic", fmt.Sprintf("%s %v: setup panicked: %s", name, args, res.SetupPanic), input)
		return
	}
	ok := res.SetupErr == "" && !res.NilHandler
	if res.ReconfigChanged != "" {
		c.vio("C14", "identity-changed-by-rejected-setup", fmt.Sprintf("%s %v (DHCPv6): after further set-up calls that were all rejected, the running instance answers the same request differently: %s", name, args, res.ReconfigChanged), input)
	}
	if res.LoadAccepted {
		c.vio("C19", "rejected-config-loaded", fmt.Sprintf("%s %v (DHCPv6): setup returns the error %q, yet plugins.LoadPlugins accepts the configuration and the server would start with it", name, args, res.SetupErr), input)
	}
	c.Count("plugin6:" + name)
	if ok {
		c.Count("setup6:accepted")
	} else {
		c.Count("setup6:rejected")
	}
	own := ownDUID(args)
	items := []string{}
	for i, o := range res.Runs {
		if !ok {
			break
		}
		r := runs[i]
		in2 := map[string]interface{}{"plugin": name, "protocol": 6, "args": args, "request_hex": spec.Runs[i].Req, "response_in_hex": spec.Runs[i].Resp}
		obs := ""
		inner, _ := r.req.GetInnerMessage()
		var discard bool
		if name == "server_id" && inner != nil {
			sidOpt := inner.GetOneOption(dhcpv6.OptionServerID)
			t := inner.MessageType
			switch {
			case sidOpt != nil && (t == dhcpv6.MessageTypeSolicit || t == dhcpv6.MessageTypeConfirm || t == dhcpv6.MessageTypeRebind):
				discard = true
			case sidOpt == nil && (t == dhcpv6.MessageTypeRequest || t == dhcpv6.MessageTypeRenew || t == dhcpv6.MessageTypeDecline || t == dhcpv6.MessageTypeRelease):
				discard = true
			case sidOpt != nil && !bytes.Equal(sidOpt.ToBytes(), own):
				discard = true
			}
		}
		switch {
		case o.Panic:
			obs = "O6Panic"
			c.vio("C19", "handler-panic", fmt.Sprintf("%s %v accepted by setup, DHCPv6 handler panics: %s", name, args, o.PanicMsg), in2)
		case o.Nil:
			obs = "O6Nil " + vBool(o.Stop)
			if name == "server_id" && !discard {
				c.vio("C14", "sid6-dropped-wrongly", fmt.Sprintf("server_id: message type %d dropped although RFC 8415 section 16 does not ask for it", inner.MessageType), in2)
			}
		default:
			if o.SerPanic {
				c.vio("C19", "reply-serialise-panic", fmt.Sprintf("%s %v accepted by setup, the DHCPv6 reply cannot be serialised: %s", name, args, o.RTDetail), in2)
				continue
			}
			if !o.RTOk {
				c.vio("C19", "reply-roundtrip", fmt.Sprintf("%s %v accepted by setup, the DHCPv6 reply does not parse back to the same options: %s", name, args, o.RTDetail), in2)
				continue
			}
			wb, _ := hex.DecodeString(o.Out)
			out, _ := dhcpv6.FromBytes(wb)
			if out == nil {
				continue
			}
			pt, _ := vPkt6(out)
			obs = fmt.Sprintf("O6Resp %s %s", pt, vBool(o.Stop))
			if name == "server_id" {
				if discard {
					c.vio("C14", "sid6-answered-wrongly", fmt.Sprintf("server_id: message type %d must be discarded per RFC 8415 section 16 (server id option: %v) but was answered", inner.MessageType, inner.GetOneOption(dhcpv6.OptionServerID)), in2)
				}
				om, _ := out.GetInnerMessage()
				sids := om.Options.Get(dhcpv6.OptionServerID)
				if len(sids) != 1 || !bytes.Equal(sids[0].ToBytes(), own) {
					c.vio("C14", "sid6-reply-id", "the reply does not carry exactly this server's DUID", in2)
				}
			}
			if name == "dns" || name == "nbp" {
				om, _ := out.GetInnerMessage()
				oroList := inner.Options.RequestedOptions()
				chk := func(code dhcpv6.OptionCode, configured bool) {
					n := len(om.Options.Get(code))
					want := 0
					if oroList.Contains(code) && configured {
						want = 1
					}
					if n != want {
						c.vio("C17", "option6-count", fmt.Sprintf("%s %v: option %d appears %d times in the reply, expected %d (option request list %v)", name, args, code, n, want, oroList), in2)
					}
				}
				if name == "dns" {
					chk(dhcpv6.OptionDNSRecursiveNameServer, true)
				} else {
					u, _ := url.Parse(args[0])
					chk(dhcpv6.OptionBootfileURL, true)
					chk(dhcpv6.OptionBootfileParam, u.Query().Get("params") != "")
				}
			}
		}
		rq, _ := vPkt6(r.req)
		rp, _ := vPkt6(r.resp)
		items = append(items, fmt.Sprintf("(%s, %s, %s)", rq, rp, obs))
	}
	as := []string{}
	for _, a := range args {
		as = append(as, vStr(a))
	}
	c.AddCase(fmt.Sprintf("CP6 %s %s %s %s %s", pnameCoq[name], vList(as), oracleTables(oracleStrings(name, args)), vBool(ok), vList(items)))
	c.Eval(fmt.Sprintf("6|%s|%q", name, args), ok)
	if c.Evals%23 == 0 {
		c.Sample(map[string]interface{}{"plugin": name, "protocol": 6, "args": args, "accepted": ok, "requests": len(items), "setup_error": res.SetupErr})
	}
}
