package main

// C02, C03: histories of DISCOVER/REQUEST through the range plugin (Plugin.Setup4 and the
// returned handler) on real sqlite files, with restarts and crash points.

import (
	"database/sql"
	"encoding/binary"
	"fmt"
	"io"
	"net"
	"os"
	"path/filepath"
	"sort"
	"strings"
	"time"

	"github.com/coredhcp/coredhcp/handler"
	rangeplugin "github.com/coredhcp/coredhcp/plugins/range"
	"github.com/insomniacslk/dhcp/dhcpv4"
)

func init() {
	runners["C02"] = runRange
	runners["C03"] = runRange
}

func workDir() string {
	d := os.Getenv("VERIF_WORK")
	if d == "" {
		d = "/verif/.work/tmp"
	}
	os.MkdirAll(d, 0o755)
	return d
}

func copyFile(src, dst string) error {
	in, err := os.Open(src)
	if err != nil {
		return err
	}
	defer in.Close()
	out, err := os.Create(dst)
	if err != nil {
		return err
	}
	defer out.Close()
	_, err = io.Copy(out, in)
	return err
}

type dbRow struct {
	mac, ip  string
	expiry   int64
	hostname string
}

func readLeases(path string) ([]dbRow, error) {
	db, err := sql.Open("sqlite3", "file:"+path)
	if err != nil {
		return nil, err
	}
	defer db.Close()
	rows, err := db.Query("select mac, ip, expiry, hostname from leases4")
	if err != nil {
		return nil, err
	}
	defer rows.Close()
	var out []dbRow
	for rows.Next() {
		var r dbRow
		if err := rows.Scan(&r.mac, &r.ip, &r.expiry, &r.hostname); err != nil {
			return nil, err
		}
		out = append(out, r)
	}
	return out, rows.Err()
}

func callH4(h handler.Handler4, req, resp *dhcpv4.DHCPv4) (out *dhcpv4.DHCPv4, stop bool, panicked bool, pv interface{}) {
	defer func() {
		if r := recover(); r != nil {
			panicked = true
			pv = r
		}
	}()
	out, stop = h(req, resp)
	return
}

func mkReq4(chaddr []byte, host string, mt dhcpv4.MessageType) *dhcpv4.DHCPv4 {
	req, _ := dhcpv4.New()
	req.OpCode = dhcpv4.OpcodeBootRequest
	req.ClientHWAddr = net.HardwareAddr(append([]byte{}, chaddr...))
	req.UpdateOption(dhcpv4.OptMessageType(mt))
	if host != "" {
		req.UpdateOption(dhcpv4.OptHostName(host))
	}
	return req
}

type rangeHist struct {
	Start, End, Lease string
	Ops               []string `json:"ops"`
	Outs              []string `json:"outs"`
	At                int      `json:"at"`
}

func runRange(c *Ctx) {
	c.SetCases("From Verif Require Import Base RangePlugin RangeRun.", "RangeRun.mismatches")
	c.shard = 40
	r := c.R
	wd := workDir()
	type geo struct{ s, e string }
	geos := []geo{{"10.0.0.1", "10.0.0.2"}, {"10.0.0.1", "10.0.0.3"}, {"10.1.0.0", "10.1.0.62"}, {"10.1.0.0", "10.1.0.63"},
		{"10.1.0.0", "10.1.0.64"}, {"255.255.255.250", "255.255.255.255"}, {"192.168.7.254", "192.168.8.4"}}
	leases := []string{"1h", "30s", "90m", "2s", "24h"}
	hosts := []string{"", "laptop", "123", "1e5", "0x10", "a\x00b", strings.Repeat("h", 255), "\xff\xfe", " 12 ", "1.50"}
	crashMode := c.Prop == "C03"
	nh := c.Scale(36, 700)
	for hi := 0; hi < nh; hi++ {
		g := geos[r.Intn(len(geos))]
		lease := leases[r.Intn(len(leases))]
		leaseD, _ := time.ParseDuration(lease)
		dbPath := filepath.Join(wd, fmt.Sprintf("leases-%d.sqlite3", hi))
		os.Remove(dbPath)
		s4 := net.ParseIP(g.s).To4()
		e4 := net.ParseIP(g.e).To4()
		start, end := binary.BigEndian.Uint32(s4), binary.BigEndian.Uint32(e4)
		size := int(end-start) + 1
		h, err := rangeplugin.Plugin.Setup4(dbPath, g.s, g.e, lease)
		if err != nil {
			c.Violate("harness-setup", fmt.Sprintf("Setup4(%s,%s,%s) failed: %v", g.s, g.e, lease, err), nil)
			continue
		}
		// clients: corpus lengths first (F6), then random lengths 0..16
		ncl := 1 + r.Intn(12)
		if r.Pct(40) {
			ncl = size + r.Intn(3) // make exhaustion likely for small ranges
			if ncl > 70 {
				ncl = 70
			}
		}
		var clients [][]byte
		seen := map[string]bool{}
		for len(clients) < ncl {
			var ch []byte
			switch {
			case hi == 0 && len(clients) == 0:
				ch = []byte{1, 2, 3, 4, 5} // F6 witness: a 5-byte address
			case hi == 0 && len(clients) == 1:
				ch = []byte{7} // one-byte address, stored as the integer 7
			case hi == 1 && len(clients) == 0:
				ch = []byte{}
			default:
				l := r.Intn(17)
				if r.Pct(50) {
					l = 6
				}
				ch = r.Bytes(l)
				if l == 1 && r.Bool() {
					ch = []byte{byte(r.Intn(10))<<4 | byte(r.Intn(10))} // decimal-looking
				}
				if len(clients) > 0 && r.Pct(15) {
					// a prefix / extension of another client's address
					o := clients[r.Intn(len(clients))]
					if len(o) > 0 && r.Bool() {
						ch = append([]byte{}, o[:len(o)-1]...)
					} else if len(o) < 16 {
						ch = append(append([]byte{}, o...), 0)
					}
				}
			}
			if seen[string(ch)] {
				continue
			}
			seen[string(ch)] = true
			clients = append(clients, ch)
			c.Count(fmt.Sprintf("chaddr-len:%d", len(ch)))
		}
		bound := map[string]string{}  // chaddr -> ip (monitor's view, over the whole history incl. restarts)
		owner := map[string]string{}  // ip -> chaddr
		lastPromise := map[string]int64{} // chaddr -> unix second by which the stored expiry must not be earlier (minus 1s)
		var ops, outs, opS []string
		rec := func(at int) rangeHist { return rangeHist{g.s, g.e, lease, opS, outs, at} }
		nops := 1 + r.Intn(c.Scale(50, 60))
		aborted := false
		doRestart := func(i int, path string, probeOnly bool) (handler.Handler4, bool) {
			rows, rerr := readLeases(path)
			var tbl []string
			if rerr == nil {
				sort.Slice(rows, func(a, b int) bool { return rows[a].mac < rows[b].mac })
				for _, rw := range rows {
					tbl = append(tbl, fmt.Sprintf("(%s, %s)", vStr(rw.mac), vBytes(net.ParseIP(rw.ip).To4())))
				}
			}
			nh, err := rangeplugin.Plugin.Setup4(path, g.s, g.e, lease)
			if !probeOnly {
				ops = append(ops, "RRestart "+vList(tbl))
				opS = append(opS, "restart")
			}
			if err != nil {
				if !probeOnly {
					outs = append(outs, "RRestartErr")
				}
				c.vio("C03", "restart-fails", fmt.Sprintf("restart on the database the plugin wrote fails: %v (range %s-%s)", err, g.s, g.e), rec(i))
				return nil, false
			}
			if !probeOnly {
				outs = append(outs, "RRestartOk true")
			}
			// C03: the database holds exactly the bindings handed out so far
			if rerr == nil {
				got := map[string]string{}
				for _, rw := range rows {
					// key rows by what the plugin would reconstruct
					got[rw.mac] = net.ParseIP(rw.ip).To4().String()
				}
				if len(rows) != len(bound) {
					c.vio("C03", "db-binding-count", fmt.Sprintf("database has %d rows for %d bindings handed out", len(rows), len(bound)), rec(i))
				}
			}
			return nh, true
		}
		probeAll := func(hh handler.Handler4, i int, what string) {
			// every client bound so far must be given its address again by hh
			keys := make([]string, 0, len(bound))
			for k := range bound {
				keys = append(keys, k)
			}
			sort.Strings(keys)
			for _, k := range keys {
				req := mkReq4([]byte(k), "", dhcpv4.MessageTypeRequest)
				resp, _ := dhcpv4.New()
				out, _, pan, _ := callH4(hh, req, resp)
				if pan || out == nil || out.YourIPAddr.To4().String() != bound[k] {
					got := "<none>"
					if out != nil {
						got = out.YourIPAddr.String()
					}
					c.vio("C03", "binding-not-restored", fmt.Sprintf("%s: client %x was bound to %s but is now given %s", what, k, bound[k], got), rec(i))
				}
			}
		}
		for i := 0; i < nops && !aborted; i++ {
			if r.Pct(8) && i > 0 {
				c.Count("op:restart")
				nh, ok := doRestart(i, dbPath, false)
				if !ok {
					aborted = true
					break
				}
				h = nh
				continue
			}
			ch := clients[r.Intn(len(clients))]
			host := hosts[r.Intn(len(hosts))]
			mt := dhcpv4.MessageTypeDiscover
			if r.Bool() {
				mt = dhcpv4.MessageTypeRequest
			}
			c.Count("op:" + strings.ToLower(mt.String()))
			req := mkReq4(ch, host, mt)
			resp, _ := dhcpv4.New()
			t0 := time.Now()
			out, stop, pan, pv := callH4(h, req, resp)
			ops = append(ops, fmt.Sprintf("RReq %s %s %s", vZ(t0.UnixNano()), vBytes(ch), vStr(host)))
			opS = append(opS, fmt.Sprintf("%s chaddr=%x host=%q", mt, ch, host))
			key := string(ch)
			switch {
			case pan:
				outs = append(outs, "RPanic")
				c.vio("C02", "range-handler-panic", fmt.Sprintf("handler panics for chaddr %x: %v", ch, pv), rec(i))
				aborted = true
			case out == nil:
				outs = append(outs, "RDrop")
				c.Count("result:drop")
				if !stop {
					c.vio("C02", "nil-without-stop", "nil response without stop", rec(i))
				}
				if _, known := bound[key]; known {
					c.vio("C02", "bound-client-dropped", fmt.Sprintf("client %x holds %s but got no reply", ch, bound[key]), rec(i))
				} else if len(bound) < size {
					c.vio("C02", "drop-while-free", fmt.Sprintf("unknown client %x dropped with %d of %d addresses bound", ch, len(bound), size), rec(i))
				}
			default:
				c.Count("result:reply")
				y := out.YourIPAddr.To4()
				lt := out.Options.Get(dhcpv4.OptionIPAddressLeaseTime)
				outs = append(outs, fmt.Sprintf("ROut %s %s", vBytes(y), vBytes(lt)))
				ys := y.String()
				if y == nil {
					c.vio("C02", "no-yiaddr", fmt.Sprintf("reply to %x has no IPv4 yiaddr", ch), rec(i))
					break
				}
				yv := binary.BigEndian.Uint32(y)
				if yv < start || yv > end {
					c.vio("C02", "lease-out-of-range", fmt.Sprintf("client %x given %s outside %s-%s", ch, ys, g.s, g.e), rec(i))
				}
				if o, taken := owner[ys]; taken && o != key {
					c.vio("C02", "address-bound-twice", fmt.Sprintf("%s given to %x while bound to %x", ys, ch, o), rec(i))
				}
				if prev, known := bound[key]; known && prev != ys {
					c.vio("C02", "lease-not-sticky", fmt.Sprintf("client %x was given %s, now %s", ch, prev, ys), rec(i))
				} else if !known && len(bound) >= size {
					c.vio("C02", "lease-beyond-capacity", fmt.Sprintf("unknown client %x served with all %d addresses bound", ch, size), rec(i))
				}
				wantLT := make([]byte, 4)
				binary.BigEndian.PutUint32(wantLT, uint32(leaseD.Round(time.Second)/time.Second))
				if string(lt) != string(wantLT) {
					c.vio("C02", "wrong-lease-time", fmt.Sprintf("option 51 = %x, configured %s", lt, lease), rec(i))
				}
				bound[key] = ys
				owner[ys] = key
				lastPromise[key] = t0.Add(leaseD.Round(time.Second)).Unix()
			}
			// C03 crash point: copy the database as it is now and restart on the copy
			if crashMode && !aborted && (c.Thorough() || i%3 == 0) {
				cp := dbPath + ".crash"
				if err := copyFile(dbPath, cp); err == nil {
					c.Count("crash-point")
					hh, ok := doRestart(i, cp, true)
					if ok {
						probeAll(hh, i, "after crash/restart at this point")
					}
					rows, _ := readLeases(dbPath)
					for _, rw := range rows {
						hw, perr := parseHWLoose(rw.mac)
						if perr != nil {
							continue
						}
						if p, okp := lastPromise[string(hw)]; okp && rw.expiry < p-1 {
							c.vio("C03", "expiry-before-promise", fmt.Sprintf("stored expiry %d of %x is earlier than the promised lease end %d", rw.expiry, hw, p), rec(i))
						}
					}
					os.Remove(cp)
				}
			}
		}
		if !aborted {
			// final restart + probe
			c.Count("op:restart")
			if nh, ok := doRestart(len(ops), dbPath, false); ok {
				probeAll(nh, len(ops), "after the final restart")
			}
		}
		os.Remove(dbPath)
		c.AddCase(fmt.Sprintf("CR %s %s %s %s %s", vBytes(s4), vBytes(e4), vZ(int64(leaseD)), vList(ops), vList(outs)))
		c.Eval(g.s+g.e+lease+strings.Join(ops, ";"), len(bound) >= 1 && len(ops) >= 2)
		c.Count(fmt.Sprintf("range-size:%d", size))
		if hi%9 == 0 {
			k := len(opS)
			if k > 5 {
				k = 5
			}
			c.Sample(map[string]interface{}{"range": g.s + "-" + g.e, "lease": lease, "clients": len(clients), "ops(first 5)": opS[:k], "outs(first 5)": outs[:k], "length": len(opS)})
		}
	}
	c.Extra["rule"] = "histories of 1..60 DISCOVER/REQUEST over 1..70 clients (chaddr lengths 0..16 incl. 1-byte decimal-looking and prefix-related addresses, hostnames incl. numeric-looking/NUL/255 bytes/invalid UTF-8) on ranges of size 2,3,63,64,65 and one ending at 255.255.255.255, with restarts on the real sqlite file (C03: a copy of the file after requests restarted as a crash point and all bound clients probed); non-trivial = distinct history with >=2 ops and >=1 binding"
}

// parseHWLoose inverts HardwareAddr.String for the monitor (any length, lone digits accepted)
func parseHWLoose(s string) ([]byte, error) {
	if s == "" {
		return []byte{}, nil
	}
	var out []byte
	for _, p := range strings.Split(s, ":") {
		var b uint
		if len(p) == 0 || len(p) > 2 {
			return nil, fmt.Errorf("bad")
		}
		if _, err := fmt.Sscanf(p, "%x", &b); err != nil {
			return nil, err
		}
		out = append(out, byte(b))
	}
	return out, nil
}
