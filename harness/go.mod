module verifharness

go 1.22.0

require (
	github.com/coredhcp/coredhcp v0.0.0
	github.com/insomniacslk/dhcp v0.0.0-20241203100832-a481575ed0ef
	github.com/sirupsen/logrus v1.9.3
	github.com/spf13/cast v1.7.1
	github.com/spf13/viper v1.20.0
	golang.org/x/net v0.34.0
)

require (
	github.com/bits-and-blooms/bitset v1.22.0 // indirect
	github.com/chappjc/logrus-prefix v0.0.0-20180227015900-3a1d64819adb // indirect
	github.com/fsnotify/fsnotify v1.8.0 // indirect
	github.com/go-viper/mapstructure/v2 v2.2.1 // indirect
	github.com/google/gopacket v1.1.19 // indirect
	github.com/mattn/go-colorable v0.1.13 // indirect
	github.com/mattn/go-isatty v0.0.20 // indirect
	github.com/mattn/go-sqlite3 v1.14.24 // indirect
	github.com/mgutz/ansi v0.0.0-20200706080929-d51e80ef957d // indirect
	github.com/pelletier/go-toml/v2 v2.2.3 // indirect
	github.com/pierrec/lz4/v4 v4.1.22 // indirect
	github.com/rifflock/lfshook v0.0.0-20180920164130-b9218ef580f5 // indirect
	github.com/sagikazarmark/locafero v0.7.0 // indirect
	github.com/sourcegraph/conc v0.3.0 // indirect
	github.com/spf13/afero v1.12.0 // indirect
	github.com/spf13/pflag v1.0.6 // indirect
	github.com/subosito/gotenv v1.6.0 // indirect
	github.com/u-root/uio v0.0.0-20240224005618-d2acac8f3701 // indirect
	golang.org/x/crypto v0.32.0 // indirect
	golang.org/x/sys v0.29.0 // indirect
	golang.org/x/term v0.28.0 // indirect
	golang.org/x/text v0.21.0 // indirect
	gopkg.in/yaml.v3 v3.0.1 // indirect
)

replace github.com/coredhcp/coredhcp => /repo
