(* PrefixPlugin.v — model of plugins/prefix (plugin.go): DHCPv6 prefix delegation from a bitmap
   allocator, per-client lease records.  Mirrors Handler.Handle loop by loop: the exact-match
   loop, the empty-hint loop, the allocation loop, the record update, NoPrefixAvail.  The
   library's decoding of IA_PD / IAPrefix options is outside: the model takes the client
   identifier and, per IA_PD, the IAID and the list of hints (None = the nil prefix the library
   produces for an IAPrefix of length 0). *)
From Verif Require Import Base Net Bitset Ipcalc Alloc.
Open Scope N_scope.

Record lease := { ls_ip : bytes; ls_mask : bytes; ls_exp : Z }.
Definition hint := option (bytes * bytes).                 (* *net.IPNet: (IP, Mask) *)

Record pstate := { ps_alloc : a6; ps_recs : list (bytes * list lease) }.

Definition LEASE_NS : Z := 3600000000000.                  (* leaseDuration = 3600 s *)

Fixpoint precs_get (k : bytes) (l : list (bytes * list lease)) : list lease :=
  match l with
  | [] => []
  | (k', v) :: l' => if bytes_eqb k' k then v else precs_get k l'
  end.

Fixpoint precs_set (k : bytes) (v : list lease) (l : list (bytes * list lease)) : list (bytes * list lease) :=
  match l with
  | [] => [(k, v)]
  | (k', v') :: l' => if bytes_eqb k' k then (k, v) :: l' else (k', v') :: precs_set k v l'
  end.

(* samePrefix(hint, &lease.Prefix) *)
Definition same_prefix (h : hint) (l : lease) : bool :=
  match h with
  | None => false
  | Some (ip, mask) => ip_equal ip (ls_ip l) && bytes_eqb mask (ls_mask l)
  end.

(* the hint names no prefix: nil prefix, nil address or the unspecified address *)
Definition empty_hint (h : hint) : bool :=
  match h with
  | None => true
  | Some (ip, _) => match ip with [] => true | _ => ip_equal ip (zeros 16) end
  end.

Definition ones_of (m : bytes) : Z := fst (mask_size m).

(* if knownLeases[i].Expire.Before(now+lease) { Expire = now+lease } *)
Definition extend (now : Z) (l : lease) : lease :=
  if (ls_exp l <? now + LEASE_NS)%Z then {| ls_ip := ls_ip l; ls_mask := ls_mask l; ls_exp := (now + LEASE_NS)%Z |} else l.

Fixpoint set_nth {A} (n : nat) (x : A) (l : list A) : list A :=
  match l, n with
  | [], _ => []
  | _ :: l', O => x :: l'
  | y :: l', S n' => y :: set_nth n' x l'
  end.

(* working state of one IA_PD: the client's leases (expiries being extended), which leases were
   given out, the prefixes added to the response so far *)
Record work := { w_leases : list lease; w_given : list bool; w_out : list lease }.

Definition give (now : Z) (w : work) (li : nat) : work :=
  match nth_error (w_leases w) li with
  | None => w
  | Some l =>
      let l' := extend now l in
      {| w_leases := set_nth li l' (w_leases w); w_given := set_nth li true (w_given w); w_out := w_out w ++ [l'] |}
  end.

(* loop 1, inner: every lease that exactly matches the hint; returns whether any did *)
Fixpoint exact_inner (now : Z) (h : hint) (w : work) (li : nat) (fuel : nat) : work * bool :=
  match fuel with
  | O => (w, false)
  | S f =>
      match nth_error (w_leases w) li with
      | None => (w, false)
      | Some l =>
          let '(w1, hit) := if same_prefix h l then (give now w li, true) else (w, false) in
          let '(w2, hit2) := exact_inner now h w1 (S li) f in (w2, hit || hit2)
      end
  end.

Fixpoint exact_loop (now : Z) (hs : list hint) (w : work) : work * list bool :=
  match hs with
  | [] => (w, [])
  | h :: hs' => let '(w1, hit) := exact_inner now h w 0 (length (w_leases w)) in
                let '(w2, sat) := exact_loop now hs' w1 in (w2, hit :: sat)
  end.

(* loop 2, inner: the leases not given out yet (of the hinted length, if the hint has one); with
   `one` set, only the first of them: the others are left for the empty hints that follow *)
Fixpoint empty_inner (now : Z) (h : hint) (one : bool) (w : work) (li : nat) (fuel : nat) : work * bool :=
  match fuel with
  | O => (w, false)
  | S f =>
      match nth_error (w_leases w) li with
      | None => (w, false)
      | Some l =>
          let skip := nth li (w_given w) false ||
                      match h with
                      | Some (_, hm) => negb (ones_of hm =? 0)%Z && negb (ones_of hm =? ones_of (ls_mask l))%Z
                      | None => false
                      end in
          if skip then empty_inner now h one w (S li) f
          else if one then (give now w li, true)
          else let '(w2, _) := empty_inner now h one (give now w li) (S li) f in (w2, true)
      end
  end.

(* `remaining`: empty unsatisfied hints not processed yet, this one included *)
Fixpoint empty_loop (now : Z) (hs : list hint) (sat : list bool) (remaining : nat) (w : work) : work * list bool :=
  match hs, sat with
  | h :: hs', s :: sat' =>
      if s || negb (empty_hint h) then let '(w2, sat2) := empty_loop now hs' sat' remaining w in (w2, s :: sat2)
      else let '(w1, hit) := empty_inner now h (Nat.ltb 0 (pred remaining)) w 0 (length (w_leases w)) in
           let '(w2, sat2) := empty_loop now hs' sat' (pred remaining) w1 in (w2, hit :: sat2)
  | _, _ => (w, [])
  end.

Definition count_empty (hs : list hint) (sat : list bool) : nat :=
  length (filter (fun hs => negb (snd hs || negb (empty_hint (fst hs)))) (combine hs sat)).

(* loop 3: a new lease for every hint still unsatisfied; an allocation error skips the hint *)
Fixpoint alloc_loop (now : Z) (hs : list hint) (sat : list bool) (a : a6) (w : work) (new : bool)
  : res (a6 * work * bool) :=
  match hs, sat with
  | h :: hs', s :: sat' =>
      if s then alloc_loop now hs' sat' a w new
      else
        let '(hip, hmask) := match h with Some x => x | None => ([], []) end in
        let '(a', r) := allocate6 a hip hmask in
        match r with
        | Panic => Panic
        | Err _ => alloc_loop now hs' sat' a' w new
        | Ok (ip, mask) =>
            let l := {| ls_ip := ip; ls_mask := mask; ls_exp := (now + LEASE_NS)%Z |} in
            alloc_loop now hs' sat' a'
              {| w_leases := w_leases w ++ [l]; w_given := w_given w; w_out := w_out w ++ [l] |} true
        end
  | _, _ => Ok (a, w, new)
  end.

(* the answer to one IA_PD: its IAID and the delegated prefixes (empty = NoPrefixAvail status) *)
Definition one_iapd (now : Z) (st : pstate) (client : bytes) (hints : list hint) : res (pstate * list lease) :=
  let hints := match hints with [] => [Some ([], [])] | _ => hints end in
  let known := precs_get client (ps_recs st) in
  let w0 := {| w_leases := known; w_given := repeat false (length known); w_out := [] |} in
  let '(w1, sat1) := exact_loop now hints w0 in
  let '(w2, sat2) := empty_loop now hints sat1 (count_empty hints sat1) w1 in
  match alloc_loop now hints sat2 (ps_alloc st) w2 false with
  | Panic => Panic
  | Err e => Err e
  | Ok (a', w3, new) =>
      (* expiry extensions happen in place in the stored slice; new leases replace the record *)
      let recs' := match w_leases w3 with
                   | [] => ps_recs st
                   | ls => precs_set client ls (ps_recs st)
                   end in
      Ok ({| ps_alloc := a'; ps_recs := recs' |}, w_out w3)
  end.

Fixpoint all_iapds (now : Z) (st : pstate) (client : bytes) (pds : list (bytes * list hint))
  : res (pstate * list (bytes * list lease)) :=
  match pds with
  | [] => Ok (st, [])
  | (iaid, hints) :: pds' =>
      match one_iapd now st client hints with
      | Panic => Panic
      | Err e => Err e
      | Ok (st1, out) =>
          match all_iapds now st1 client pds' with
          | Panic => Panic
          | Err e => Err e
          | Ok (st2, outs) => Ok (st2, (iaid, out) :: outs)
          end
      end
  end.

(* Handle: None client = no inner message or no client identifier: dropped with stop *)
Inductive pd_out := PDrop | PResp (iapds : list (bytes * list lease)) | PPanic.

Definition prefix_handle (now : Z) (st : pstate) (client : option bytes) (pds : list (bytes * list hint))
  : pstate * pd_out :=
  match client with
  | None => (st, PDrop)
  | Some c =>
      match all_iapds now st c pds with
      | Ok (st', outs) => (st', PResp outs)
      | _ => (st, PPanic)
      end
  end.

(* setupPrefix: the pool as net.ParseCIDR gives it, the allocation length *)
Definition prefix_setup (pip pmask : bytes) (size : Z) : res pstate :=
  if negb (lenb pip 16) then Err EOther          (* the pool must be an IPv6 prefix (fix F20) *)
  else if ((size <? 0) || (128 <? size))%Z then Err EOther
  else match new6 pip pmask size with
       | Ok a => Ok {| ps_alloc := a; ps_recs := [] |}
       | Err e => Err e
       | Panic => Panic
       end.
