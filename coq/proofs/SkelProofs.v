(* SkelProofs.v — soundness of the lock-discipline checker: if run_sk accepts a skeleton, then on
   EVERY path through it (any alternative of every if, every loop iterated any number of times)
   no event violates the discipline, and every return happens with the lock released or its
   release deferred. *)
From Coq Require Import String List Bool Arith Lia.
From Verif Require Import Skel.
Import ListNotations.

Lemma lst_eqb_eq a b : lst_eqb a b = true -> a = b.
Proof.
  destruct a as [ha da], b as [hb db]; unfold lst_eqb; cbn [held deferred]; intro H.
  apply andb_true_iff in H; destruct H as [H1 H2].
  apply eqb_prop in H2; subst db.
  destruct ha as [x|], hb as [y|]; try discriminate; [apply eqb_prop in H1; subst y|]; reflexivity.
Qed.

Lemma tr_run_app st a b :
  tr_run st (a ++ b) = match tr_run st a with Some s => tr_run s b | None => None end.
Proof.
  revert st; induction a as [|e a IH]; intro st; cbn [tr_run app]; [reflexivity|].
  destruct (ev_step st e) as [s|]; [apply IH|reflexivity].
Qed.

Definition sub (a b : res) : Prop := incl (r_fall a) (r_fall b) /\ incl (r_brk a) (r_brk b).

Lemma each_in f sts r st :
  each f sts = Some r -> In st sts -> exists r1, f st = Some r1 /\ sub r1 r.
Proof.
  revert r; induction sts as [|t sts IH]; intros r He Hin; [destruct Hin|].
  cbn [each] in He.
  destruct (f t) as [a|] eqn:Ea; [|discriminate].
  destruct (each f sts) as [b|] eqn:Eb; [|discriminate].
  injection He as <-.
  destruct Hin as [->|Hin].
  - exists a; split; [exact Ea|]. split; cbn [res_app r_fall r_brk]; apply incl_appl, incl_refl.
  - destruct (IH b eq_refl Hin) as [r1 [H1 [Hs1 Hs2]]]. exists r1; split; [exact H1|].
    split; cbn [res_app r_fall r_brk]; apply incl_appr; assumption.
Qed.

Lemma alts_in step alts st r a :
  run_alts step alts st = Some r -> In a alts -> exists r1, step a st = Some r1 /\ sub r1 r.
Proof.
  revert r; induction alts as [|x alts IH]; intros r He Hin; [destruct Hin|].
  cbn [run_alts] in He.
  destruct (step x st) as [u|] eqn:Eu; [|discriminate].
  destruct (run_alts step alts st) as [v|] eqn:Ev; [|discriminate].
  injection He as <-.
  destruct Hin as [->|Hin].
  - exists u; split; [exact Eu|]. split; cbn [res_app r_fall r_brk]; apply incl_appl, incl_refl.
  - destruct (IH v eq_refl Hin) as [r1 [H1 [Hs1 Hs2]]]. exists r1; split; [exact H1|].
    split; cbn [res_app r_fall r_brk]; apply incl_appr; assumption.
Qed.

Definition post (o : outcome) (st' : lst) (r : res) : Prop :=
  match o with
  | Fall => In st' (r_fall r)
  | Brk => In st' (r_brk r)
  | Ret => ret_ok st' = true
  end.

Lemma post_sub o st' r1 r : post o st' r1 -> sub r1 r -> post o st' r.
Proof. destruct o; cbn [post]; intros H [S1 S2]; auto. Qed.

Lemma prim_sound st e r : prim st e = Some r -> exists st', tr_run st [e] = Some st' /\ In st' (r_fall r).
Proof.
  unfold prim; cbn [tr_run]. destruct (ev_step st e) as [s|]; [|discriminate].
  intro H; injection H as <-. exists s; split; [reflexivity|left; reflexivity].
Qed.

Theorem run_sk_sound s tr o :
  exec s tr o ->
  forall fuel st r, run_sk fuel s st = Some r ->
  exists st', tr_run st tr = Some st' /\ post o st' r.
Proof.
  induction 1 as [w|w|w|w n|g| | | |x l tr o Ho Hx IHx|x l tr1 tr2 o Hx IHx Hl IHl
                  |alts a tr o Hin Ha IHa|b|b tr1 tr2 o1 o Ho1 Hb IHb Hl IHl|b tr Hb IHb];
    intros fuel st r Hr; (destruct fuel as [|f]; [discriminate|]); cbn [run_sk] in Hr.
  - apply prim_sound in Hr; exact Hr.
  - apply prim_sound in Hr; exact Hr.
  - apply prim_sound in Hr; exact Hr.
  - apply prim_sound in Hr; exact Hr.
  - apply prim_sound in Hr; exact Hr.
  - destruct (ret_ok st) eqn:E; [|discriminate]. exists st; split; [reflexivity|exact E].
  - injection Hr as <-. exists st; split; [reflexivity|left; reflexivity].
  - injection Hr as <-. exists st; split; [reflexivity|left; reflexivity].
  - (* the first statement of a sequence returns or breaks *)
    cbn [run_seq] in Hr.
    destruct (run_sk f x st) as [r1|] eqn:E1; [|discriminate].
    destruct (each (run_seq (run_sk f) l) (r_fall r1)) as [r2|] eqn:E2; [|discriminate].
    injection Hr as <-.
    destruct (IHx f st r1 E1) as [st' [Ht Hp]]. exists st'; split; [exact Ht|].
    destruct o; cbn [post r_fall r_brk] in *; [congruence| apply in_or_app; left; exact Hp | exact Hp].
  - (* the first statement falls through *)
    cbn [run_seq] in Hr.
    destruct (run_sk f x st) as [r1|] eqn:E1; [|discriminate].
    destruct (each (run_seq (run_sk f) l) (r_fall r1)) as [r2|] eqn:E2; [|discriminate].
    injection Hr as <-.
    destruct (IHx f st r1 E1) as [st1 [Ht1 Hp1]]. cbn [post] in Hp1.
    destruct (each_in _ _ _ _ E2 Hp1) as [r3 [E3 Hs3]].
    destruct (IHl (S f) st1 r3 E3) as [st' [Ht Hp]].
    exists st'; split; [rewrite tr_run_app, Ht1; exact Ht|].
    destruct Hs3 as [S1 S2].
    destruct o; cbn [post r_fall r_brk] in *; [apply S1; exact Hp | apply in_or_app; right; apply S2; exact Hp | exact Hp].
  - destruct (alts_in _ _ _ _ _ Hr Hin) as [r1 [E1 Hs]].
    destruct (IHa f st r1 E1) as [st' [Ht Hp]]. exists st'; split; [exact Ht|exact (post_sub _ _ _ _ Hp Hs)].
  - destruct (run_sk f b st) as [rb|]; [|discriminate].
    destruct (forallb (lst_eqb st) (r_fall rb ++ r_brk rb)); [|discriminate].
    injection Hr as <-. exists st; split; [reflexivity|left; reflexivity].
  - (* one more iteration: the body leaves the lock state unchanged *)
    destruct (run_sk f b st) as [rb|] eqn:Eb; [|discriminate].
    destruct (forallb (lst_eqb st) (r_fall rb ++ r_brk rb)) eqn:Ef; [|discriminate].
    destruct (IHb f st rb Eb) as [st1 [Ht1 Hp1]].
    assert (Hin : In st1 (r_fall rb ++ r_brk rb)).
    { apply in_or_app. destruct o1; cbn [post] in Hp1; [left; exact Hp1|right; exact Hp1|congruence]. }
    rewrite forallb_forall in Ef. apply Ef, lst_eqb_eq in Hin. subst st1.
    assert (Hr' : run_sk (S f) (KLoop b) st = Some r).
    { cbn [run_sk]. rewrite Eb. rewrite (proj2 (forallb_forall _ _) Ef). exact Hr. }
    destruct (IHl (S f) st r Hr') as [st' [Ht Hp]].
    exists st'; split; [rewrite tr_run_app, Ht1; exact Ht|exact Hp].
  - destruct (run_sk f b st) as [rb|] eqn:Eb; [|discriminate].
    destruct (IHb f st rb Eb) as [st' [Ht Hp]]. exists st'; split; [exact Ht|exact Hp].
Qed.

(* every access event of an accepted trace happens under the lock, writes under the exclusive lock *)
Lemma tr_run_access st tr st' pre w n post_ :
  tr_run st tr = Some st' -> tr = pre ++ EAcc w n :: post_ ->
  exists s, tr_run st pre = Some s /\ (held s = Some true \/ (held s = Some false /\ w = false)).
Proof.
  intros Ht ->. rewrite tr_run_app in Ht.
  destruct (tr_run st pre) as [s|]; [|discriminate]. exists s; split; [reflexivity|].
  cbn [tr_run ev_step] in Ht.
  destruct (held s) as [[|]|]; [left; reflexivity| |discriminate].
  right; split; [reflexivity|]. destruct w; [discriminate|reflexivity].
Qed.

(* no lock is taken while it is held, none is released twice *)
Lemma tr_run_lock st tr st' pre w post_ :
  tr_run st tr = Some st' -> tr = pre ++ ELock w :: post_ ->
  exists s, tr_run st pre = Some s /\ held s = None.
Proof.
  intros Ht ->. rewrite tr_run_app in Ht.
  destruct (tr_run st pre) as [s|]; [|discriminate]. exists s; split; [reflexivity|].
  cbn [tr_run ev_step] in Ht. destruct (held s); [discriminate|reflexivity].
Qed.

Lemma tr_run_unlock st tr st' pre w post_ :
  tr_run st tr = Some st' -> tr = pre ++ EUnlock w :: post_ ->
  exists s, tr_run st pre = Some s /\ held s = Some w /\ deferred s = false.
Proof.
  intros Ht ->. rewrite tr_run_app in Ht.
  destruct (tr_run st pre) as [s|]; [|discriminate]. exists s; split; [reflexivity|].
  cbn [tr_run ev_step] in Ht. destruct (held s) as [w'|]; [|discriminate].
  destruct (Bool.eqb w w') eqn:E; [|discriminate]. apply eqb_prop in E; subst w'.
  destruct (deferred s); [discriminate|]. split; reflexivity.
Qed.

Theorem well_locked_sound f :
  well_locked f = true ->
  forall tr o, exec (fs_body f) tr o ->
  exists st', tr_run (init_of f) tr = Some st' /\ o <> Brk /\ ret_ok st' = true.
Proof.
  unfold well_locked. intros Hw tr o Hx.
  destruct (run_sk 200 (fs_body f) (init_of f)) as [r|] eqn:Er; [|discriminate].
  apply andb_true_iff in Hw; destruct Hw as [Hf Hb].
  destruct (r_brk r) as [|? ?] eqn:Eb; [|discriminate].
  destruct (run_sk_sound _ _ _ Hx _ _ _ Er) as [st' [Ht Hp]].
  exists st'; split; [exact Ht|].
  destruct o; cbn [post] in Hp.
  - split; [discriminate|]. rewrite forallb_forall in Hf. apply Hf; exact Hp.
  - rewrite Eb in Hp; destruct Hp.
  - split; [discriminate|exact Hp].
Qed.

(* ---- at most one lock acquisition on every path ---- *)
Lemma count_locks_app a b : count_locks (a ++ b) = count_locks a + count_locks b.
Proof. induction a as [|e a IH]; cbn [app count_locks]; [reflexivity|]. destruct e; cbn [count_locks]; rewrite ?IH; reflexivity. Qed.

Lemma acq_in_max f a alts : In a alts -> acq f a <= fold_right (fun x m => Nat.max (acq f x) m) 0 alts.
Proof.
  induction alts as [|x alts IH]; intros H; [destruct H|]. cbn [fold_right].
  destruct H as [->|H]; [apply Nat.le_max_l|]. etransitivity; [apply IH; exact H|apply Nat.le_max_r].
Qed.

Theorem acq_sound s tr o : exec s tr o -> forall fuel, acq fuel s <= 1 -> count_locks tr <= acq fuel s.
Proof.
  induction 1 as [w|w|w|w n|g| | | |x l tr o Ho Hx IHx|x l tr1 tr2 o Hx IHx Hl IHl
                  |alts a tr o Hin Ha IHa|b|b tr1 tr2 o1 o Ho1 Hb IHb Hl IHl|b tr Hb IHb];
    intros fuel Hle; (destruct fuel as [|f]; [cbn [acq] in Hle; lia|]); cbn [acq count_locks] in *; try lia.
  - (* first statement of a sequence returns / breaks *)
    specialize (IHx f). cbn [fold_right] in *. lia.
  - cbn [fold_right] in *. rewrite count_locks_app.
    specialize (IHx f ltac:(lia)).
    specialize (IHl (S f)). cbn [acq] in IHl. specialize (IHl ltac:(lia)). lia.
  - pose proof (acq_in_max f a alts Hin) as Hm. specialize (IHa f ltac:(lia)). lia.
  - destruct (Nat.eqb (acq f b) 0) eqn:E; [|lia]. apply Nat.eqb_eq in E.
    rewrite count_locks_app. specialize (IHb f ltac:(lia)).
    specialize (IHl (S f)). cbn [acq] in IHl. rewrite E in IHl. cbn [Nat.eqb] in IHl. specialize (IHl ltac:(lia)). lia.
  - destruct (Nat.eqb (acq f b) 0) eqn:E; [|lia]. apply Nat.eqb_eq in E. specialize (IHb f ltac:(lia)). lia.
Qed.
