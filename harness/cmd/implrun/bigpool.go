package main

// Pools larger than the small ones the histories use (C04-C07): 2^17 IPv6 blocks and an IPv4 range
// of 65 798 addresses, filled past 2^16 outstanding blocks.  Too long for the Coq correspondence
// (the model is run on the small pools); the monitors restate the properties directly: every
// allocation below capacity succeeds, lies in the pool, is aligned and distinct from every
// outstanding one; a hint naming a free block far up in the pool is honoured; a freed block - and
// only that one - can be had again.

import (
	"fmt"
	"math/big"
	"net"
)

// a pool of 2^32 blocks (2001:db8::/32 carved into /64): hints and frees in its upper half
func runHugePool(c *Ctx) {
	p, err := mkPool6("2001:db8::/32", 64)
	if err != nil {
		c.Count("huge-pool:skipped")
		return
	}
	in := map[string]interface{}{"pool": p.desc}
	for _, blk := range []uint64{3 << 30, 1<<31 + 5, 1<<32 - 1, 1 << 31, 7} {
		addr := new(big.Int).Add(p.base, new(big.Int).Lsh(new(big.Int).SetUint64(blk), p.shift))
		ip := make(net.IP, 16)
		addr.FillBytes(ip)
		hint := net.IPNet{IP: ip, Mask: net.CIDRMask(64, 128)}
		n, err := p.a.Allocate(hint)
		c.Evals++
		got, inside := uint64(0), false
		if err == nil {
			got, inside = p.blockOf(n.IP)
		}
		if err != nil || !inside || got != blk {
			c.vio("C07", "hint-not-honoured", fmt.Sprintf("pool of 2^32 blocks: Allocate(hint block %d, free) returned %v (error %v)", blk, n.IP, err), in)
			continue
		}
		if err := p.a.Free(hint); err != nil {
			c.vio("C06", "free-outstanding-fails", fmt.Sprintf("pool of 2^32 blocks: Free of the outstanding block %d fails: %v", blk, err), in)
		}
	}
	c.Count("huge-pool:2^32-blocks")
}

func runBigPools(c *Ctx) {
	runHugePool(c)
	type bp struct {
		p   *pool
		err error
	}
	p6, e6 := mkPool6("2001:db8::/47", 64)
	p4, e4 := mkPool4(net.ParseIP("10.0.0.0"), net.ParseIP("10.1.1.5"))
	for _, b := range []bp{{p6, e6}, {p4, e4}} {
		if b.err != nil {
			c.Violate("harness-setup", "big pool: "+b.err.Error(), nil)
			continue
		}
		p := b.p
		seen := map[uint64]bool{}
		in := map[string]interface{}{"pool": p.desc}
		target := 65536 + 200
		fail := func(prop, kind, what string) { c.vio(prop, kind, what+" (pool "+p.desc+")", in) }
		ok := true
		for i := 0; i < target && ok; i++ {
			n, err := p.a.Allocate(net.IPNet{})
			c.Evals++
			if err != nil {
				fail("C05", "alloc-fails-not-full", fmt.Sprintf("Allocate fails with %d of %v blocks outstanding: %v", len(seen), p.n, err))
				ok = false
				break
			}
			blk, inside := p.blockOf(n.IP)
			if !inside {
				fail("C05", "alloc-outside-pool", fmt.Sprintf("allocation %d returned %v, outside the pool", i, n.IP))
				ok = false
				break
			}
			if seen[blk] {
				fail("C04", "double-issue", fmt.Sprintf("allocation %d returned block %d (%v), which is still outstanding", i, blk, n.IP))
				ok = false
				break
			}
			seen[blk] = true
		}
		if !ok {
			continue
		}
		// a hint far up in the pool, free: honoured exactly
		hintBlk := uint64(100000)
		if !p.v6 {
			hintBlk = 65790
		}
		addr := new(big.Int).Add(p.base, new(big.Int).Lsh(new(big.Int).SetUint64(hintBlk), p.shift))
		var hint net.IPNet
		if p.v6 {
			ip := make(net.IP, 16)
			addr.FillBytes(ip)
			hint = net.IPNet{IP: ip, Mask: net.CIDRMask(p.page, 128)}
		} else {
			ip := make(net.IP, 4)
			addr.FillBytes(ip)
			hint = net.IPNet{IP: ip}
		}
		n, err := p.a.Allocate(hint)
		c.Evals++
		if err != nil {
			fail("C07", "hint-not-honoured", fmt.Sprintf("Allocate(hint block %d) fails with %d of %v blocks outstanding: %v", hintBlk, len(seen), p.n, err))
			continue
		}
		if blk, inside := p.blockOf(n.IP); !inside || blk != hintBlk {
			fail("C07", "hint-not-honoured", fmt.Sprintf("Allocate(hint block %d, free) returned %v (block %d)", hintBlk, n.IP, blk))
		} else {
			seen[blk] = true
		}
		// free one block in the middle: exactly that one comes back
		freed := uint64(40000)
		faddr := new(big.Int).Add(p.base, new(big.Int).Lsh(new(big.Int).SetUint64(freed), p.shift))
		var fnet net.IPNet
		if p.v6 {
			ip := make(net.IP, 16)
			faddr.FillBytes(ip)
			fnet = net.IPNet{IP: ip, Mask: net.CIDRMask(p.page, 128)}
		} else {
			ip := make(net.IP, 4)
			faddr.FillBytes(ip)
			fnet = net.IPNet{IP: ip, Mask: net.CIDRMask(32, 32)}
		}
		if err := p.a.Free(fnet); err != nil {
			fail("C06", "free-outstanding-fails", fmt.Sprintf("Free of the outstanding block %d fails: %v", freed, err))
			continue
		}
		if err := p.a.Free(fnet); err == nil {
			fail("C06", "double-free-accepted", fmt.Sprintf("a second Free of block %d succeeds", freed))
		}
		n2, err := p.a.Allocate(net.IPNet{})
		c.Evals++
		if err != nil {
			fail("C05", "alloc-fails-not-full", fmt.Sprintf("Allocate after a Free fails: %v", err))
		} else if blk, inside := p.blockOf(n2.IP); !inside || (blk != freed && seen[blk]) {
			fail("C04", "double-issue", fmt.Sprintf("after freeing block %d Allocate returned %v (block %d), which is outstanding", freed, n2.IP, blk))
		}
		c.Count("big-pool:filled-past-2^16")
	}
}
