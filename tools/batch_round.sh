#!/bin/bash
# batch_round.sh <first new index> Cxx ... : for each property, rename the sub-agent outputs /tmp/mut-Cxx-out/m1..m3 to
# m<first>..m<first+2>, confirm each in its scratch worktree and run the property's quick check against it.
cd /verif
F=$1; shift
for p in "$@"; do
  for i in 1 2 3; do [ -d /tmp/mut-$p-out/m$i ] && mv /tmp/mut-$p-out/m$i /tmp/mut-$p-out/m$((i+F-1)); done
  for k in $F $((F+1)) $((F+2)); do
    [ -d /tmp/mut-$p-out/m$k ] || continue
    tools/confirm_mut.sh $p m$k 2>&1 | grep RESULT
    echo "--- $p m$k"
    tools/runmut.sh /tmp/mut-$p-out/m$k/patch.diff $p 2>&1 | grep -v conda | sed -E 's/^(== C[0-9]+ rc=[0-9]+:).*KNOWN-FINDING.*/\1 (KNOWN-FINDING line omitted)/' | cut -c1-300 | head -3
  done
done
echo ALLDONE
