(* PrefixExamples.v — a concrete pool and history meeting the hypotheses of the C08/C09 theorems *)
From Verif Require Import Base BaseProofs Net Bitset Ipcalc IpcalcProofs Alloc Alloc6Proofs PrefixPlugin PrefixProofs PrefixTheorems.
Open Scope N_scope.

Definition px_pool : bytes := [32;1;13;184;0;0;0;0;0;0;0;0;0;0;0;0].        (* 2001:db8::/62, /64 blocks *)
Definition px_st0 : pstate := match prefix_setup px_pool (cidr_bytes 16 62) 64 with Ok s => s | _ => {| ps_alloc := {| a6_ip := []; a6_mask := []; a6_page := 0; a6_bm := bs_new 0 |}; ps_recs := [] |} end.
Definition px_A : bytes := [0;3;0;1;2;0;0;0;0;1].
Definition px_B : bytes := [0;3;0;1;2;0;0;0;0;2].
(* A: hint-less IA_PD; B: two IA_PDs, one with a length-0 hint; A again hint-less (same prefix); A
   renews exactly; a message without client id *)
Definition px_ms : list pmsg :=
  [PMsg 1000 (Some px_A) [([0;0;0;1], [])];
   PMsg 2000 (Some px_B) [([0;0;0;1], [None]); ([0;0;0;2], [Some (zeros 16, cidr_bytes 16 64)])];
   PMsg 3000 (Some px_A) [([0;0;0;1], [])];
   PMsg 4000 (Some px_A) [([0;0;0;7], [Some (px_pool, cidr_bytes 16 64)])];
   PMsg 5000 None [([0;0;0;1], [])]].

Lemma px_setup : prefix_setup px_pool (cidr_bytes 16 62) (Z.of_N 64) = Ok px_st0 /\
  (wf_ip16 px_pool /\ to4 px_pool = None /\ 62 <= 64 /\ 64 <= 128 /\ 64 - 62 < 64 /\ v px_pool mod Bsz 62 = 0).
Proof.
  split; [vm_compute; reflexivity|]. split; [split; [reflexivity|repeat constructor]|]. split; [reflexivity|].
  repeat split; try (vm_compute; congruence); vm_compute; reflexivity.
Qed.

Lemma px_wf : Forall wf_pmsg px_ms.
Proof. repeat constructor. Qed.

Lemma px_run : map (fun o => match o with PResp outs => Some (map (fun p => (fst p, map ls_ip (snd p))) outs) | _ => None end) (snd (prun px_st0 px_ms)) =
  [Some [([0;0;0;1], [px_pool])];
   Some [([0;0;0;1], [[32;1;13;184;0;0;0;1;0;0;0;0;0;0;0;0]]); ([0;0;0;2], [[32;1;13;184;0;0;0;1;0;0;0;0;0;0;0;0]])];
   Some [([0;0;0;1], [px_pool])];
   Some [([0;0;0;7], [px_pool])];
   None].
Proof. vm_compute. reflexivity. Qed.
