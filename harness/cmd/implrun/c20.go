package main

import (
	"encoding/json"
	"errors"
	"fmt"
	"math/big"
	"net"
	"os"

	"github.com/coredhcp/coredhcp/plugins/allocators"
)

func init() {
	runners["C20"] = runC20
	replayers["C20"] = replayC20
}

func errName(err error) string {
	switch {
	case err == nil:
		return ""
	case errors.Is(err, allocators.ErrOverflow):
		return "EOverflow"
	case err.Error() == "prefix out of range":
		return "EPrefixRange"
	case err.Error() == "AddPrefixes needs 128-bit IPs":
		return "ENeed128"
	}
	return "EOther"
}

// exact-capacity copy, so that Go's slicing rule (bounds checked against cap, not len)
// coincides with the model's (cap = len)
func exact(b []byte) []byte {
	if b == nil {
		return nil
	}
	c := make([]byte, len(b))
	copy(c, b)
	return c[:len(b):len(b)]
}

func callOffset(a, b []byte, p int) (res string, k uint64, err error, panicked bool) {
	defer func() {
		if r := recover(); r != nil {
			panicked = true
			res = "Panic"
		}
	}()
	k, err = allocators.Offset(net.IP(exact(a)), net.IP(exact(b)), p)
	if err != nil {
		return "(Err " + errName(err) + ")", 0, err, false
	}
	return "(Ok " + vN(k) + ")", k, nil, false
}

func callAdd(ip []byte, n, u uint64) (res string, out net.IP, err error, panicked bool) {
	defer func() {
		if r := recover(); r != nil {
			panicked = true
			res = "Panic"
		}
	}()
	out, err = allocators.AddPrefixes(net.IP(exact(ip)), n, u)
	if err != nil {
		return "(Err " + errName(err) + ")", nil, err, false
	}
	return "(Ok " + vBytes(out) + ")", out, nil, false
}

var two64 = new(big.Int).Lsh(big.NewInt(1), 64)
var two128 = new(big.Int).Lsh(big.NewInt(1), 128)

func (r *Rng) half() uint64 {
	switch r.Intn(7) {
	case 0:
		return 0
	case 1:
		return 1
	case 2:
		return ^uint64(0)
	case 3:
		return uint64(1) << uint(r.Intn(64))
	case 4:
		return (uint64(1) << uint(r.Intn(64))) - 1
	case 5:
		return ^uint64(0) << uint(r.Intn(64))
	}
	return r.U64()
}

func ip128(h, l uint64) []byte {
	b := make([]byte, 16)
	for i := 0; i < 8; i++ {
		b[i] = byte(h >> uint(56-8*i))
		b[8+i] = byte(l >> uint(56-8*i))
	}
	return b
}

func bigOf(b []byte) *big.Int { return new(big.Int).SetBytes(b) }
func bytes16(x *big.Int) []byte {
	b := x.Bytes()
	out := make([]byte, 16)
	copy(out[16-len(b):], b)
	return out
}

type c20In struct {
	Fn   string `json:"fn"`
	A    []int  `json:"a"`
	B    []int  `json:"b,omitempty"`
	P    int64  `json:"p"`
	N    string `json:"n,omitempty"`
	Want string `json:"want"`
	Got  string `json:"got"`
}

func ints(b []byte) []int {
	o := make([]int, len(b))
	for i, x := range b {
		o[i] = int(x)
	}
	return o
}
func unints(a []int) []byte {
	o := make([]byte, len(a))
	for i, x := range a {
		o[i] = byte(x)
	}
	return o
}

// monitorOffset states C20 for Offset on (x, base, p) inside the property's preconditions.
func monitorOffset(c *Ctx, x, base []byte, p int) {
	bs := uint(128 - p)
	d := new(big.Int).Sub(bigOf(x), bigOf(base))
	k := new(big.Int).Rsh(d, bs)
	want := "(Err EOverflow)"
	if k.Cmp(two64) < 0 {
		want = "(Ok " + k.String() + ")"
	}
	for ord := 0; ord < 2; ord++ {
		a, b := x, base
		if ord == 1 {
			a, b = base, x
		}
		got, _, _, _ := callOffset(a, b, p)
		if got != want {
			c.Violate("offset-not-exact", fmt.Sprintf("Offset(%v,%v,%d) = %s, want %s", net.IP(a), net.IP(b), p, got, want),
				c20In{Fn: "Offset", A: ints(a), B: ints(b), P: int64(p), Want: want, Got: got})
		}
	}
}

func monitorAdd(c *Ctx, base []byte, n uint64, p uint64) {
	s := new(big.Int).Lsh(new(big.Int).SetUint64(n), uint(128-p))
	s.Add(s, bigOf(base))
	want := "(Err EOverflow)"
	if s.Cmp(two128) < 0 {
		want = "(Ok " + vBytes(bytes16(s)) + ")"
	}
	got, out, err, _ := callAdd(base, n, p)
	if got != want {
		kind := "addprefixes-not-exact"
		if err == nil && s.Cmp(two128) >= 0 {
			kind = "addprefixes-wraps"
		}
		c.Violate(kind, fmt.Sprintf("AddPrefixes(%v,%d,%d) = %s, want %s", net.IP(base), n, p, got, want),
			c20In{Fn: "AddPrefixes", A: ints(base), N: fmt.Sprint(n), P: int64(p), Want: want, Got: got})
		return
	}
	// inverse, when the base is aligned
	if err == nil {
		m := new(big.Int).Mod(bigOf(base), new(big.Int).Lsh(big.NewInt(1), uint(128-p)))
		if m.Sign() == 0 {
			g, _, _, _ := callOffset(out, base, int(p))
			w := "(Ok " + vN(n) + ")"
			if g != w {
				c.Violate("offset-addprefixes-not-inverse", fmt.Sprintf("Offset(AddPrefixes(%v,%d,%d)) = %s", net.IP(base), n, p, g),
					c20In{Fn: "Inverse", A: ints(base), N: fmt.Sprint(n), P: int64(p), Want: w, Got: g})
			}
		}
	}
}

func runC20(c *Ctx) {
	c.SetCases("From Verif Require Import Base Ipcalc IpcalcRun.", "IpcalcRun.mismatches")
	r := c.R
	emitOff := func(a, b []byte, p int, class string) {
		got, _, _, _ := callOffset(a, b, p)
		c.AddCase(fmt.Sprintf("COff %s %s %s %s", vBytes(a), vBytes(b), vZ(int64(p)), got))
		c.Eval(fmt.Sprintf("off %x %x %d", a, b, p), class != "malformed" || got != "Panic")
		c.Count("offset:" + class)
		c.Count("offset-result:" + got[:3])
		if c.Evals%977 == 0 {
			c.Sample(map[string]interface{}{"fn": "Offset", "a": net.IP(a).String(), "b": net.IP(b).String(), "p": p, "impl": got})
		}
	}
	emitAdd := func(ip []byte, n, u uint64, class string) {
		got, _, _, _ := callAdd(ip, n, u)
		c.AddCase(fmt.Sprintf("CAdd %s %s %s %s", vBytes(ip), vN(n), vN(u), got))
		c.Eval(fmt.Sprintf("add %x %d %d", ip, n, u), true)
		c.Count("addprefixes:" + class)
		c.Count("addprefixes-result:" + got[:3])
		if c.Evals%991 == 0 {
			c.Sample(map[string]interface{}{"fn": "AddPrefixes", "ip": net.IP(ip).String(), "n": n, "unit": u, "impl": got})
		}
	}
	// corpus: witnesses of past findings run first
	{
		base := ip128(0x20010db800000000, 0)
		monitorAdd(c, base, 1<<63, 63) // F1: used to wrap silently to the base itself
		emitAdd(base, 1<<63, 63, "corpus")
		monitorAdd(c, base, 3, 1)
		emitAdd(base, 3, 1, "corpus")
	}
	N := c.Scale(1500, 40000)
	for i := 0; i < N; i++ {
		p := r.Intn(129)
		if r.Pct(30) {
			p = []int{0, 1, 63, 64, 65, 127, 128, 56, 48, 120}[r.Intn(10)]
		}
		// aligned base
		bh, bl := r.half(), r.half()
		if p <= 64 {
			bl = 0
			if p == 0 {
				bh = 0
			} else {
				bh &= ^uint64(0) << uint(64-p)
			}
		} else if p < 128 {
			bl &= ^uint64(0) << uint(128-p)
		}
		base := ip128(bh, bl)
		// x = base + delta, clipped to the address space
		dh, dl := r.half(), r.half()
		if r.Pct(40) {
			dh = 0
		}
		if r.Pct(10) {
			dh, dl = 0, 0
		}
		x := new(big.Int).Add(bigOf(base), new(big.Int).Add(new(big.Int).Lsh(new(big.Int).SetUint64(dh), 64), new(big.Int).SetUint64(dl)))
		if x.Cmp(two128) >= 0 {
			x.Sub(two128, big.NewInt(1))
		}
		xb := bytes16(x)
		monitorOffset(c, xb, base, p)
		emitOff(xb, base, p, "aligned")
		emitOff(base, xb, p, "aligned-reversed")
		// AddPrefixes
		n := r.half()
		if r.Pct(50) && p > 0 && p < 64 {
			// straddle the 2^p boundary where the address space ends
			n = (uint64(1) << uint(p)) - uint64(r.Intn(3)) + uint64(r.Intn(3))
		}
		ab := base
		if r.Pct(50) {
			ab = ip128(r.half(), r.half()) // AddPrefixes does not need alignment
		}
		monitorAdd(c, ab, n, uint64(p))
		emitAdd(ab, n, uint64(p), "in-domain")
		// outside the preconditions: the model must still mirror the code
		if i%4 == 0 {
			switch r.Intn(5) {
			case 0:
				emitOff(ip128(r.half(), r.half()), ip128(r.half(), r.half()), p, "unaligned")
			case 1:
				emitOff(xb, base, []int{-1, 129, 1000, -128}[r.Intn(4)], "p-out-of-range")
			case 2:
				l := []int{0, 4, 7, 8, 15, 17}[r.Intn(6)]
				emitOff(r.Bytes(l), base, p, "malformed")
				emitOff(base, r.Bytes(l), p, "malformed")
			case 3:
				l := []int{0, 4, 8, 15, 17}[r.Intn(5)]
				emitAdd(r.Bytes(l), n, uint64(p), "malformed")
			case 4:
				emitAdd(ab, n, []uint64{129, 200, 1 << 40, ^uint64(0)}[r.Intn(4)], "unit-out-of-range")
			}
		}
	}
	c.Extra["rule"] = "structured 128-bit operands (each half from {0,1,2^k,2^k-1,all-ones,high-mask,random}), all p in 0..128 with boundary emphasis, n straddling 2^p; non-trivial = distinct (fn, operands) whose call does not panic on a malformed slice"
}

func replayC20(path string) int {
	b, err := os.ReadFile(path)
	if err != nil {
		fmt.Println(err)
		return 2
	}
	var rep struct {
		Violations []struct {
			Input c20In `json:"input"`
		} `json:"violations"`
	}
	if err := json.Unmarshal(b, &rep); err != nil {
		fmt.Println(err)
		return 2
	}
	bad := 0
	for _, v := range rep.Violations {
		in := v.Input
		var got string
		switch in.Fn {
		case "Offset":
			got, _, _, _ = callOffset(unints(in.A), unints(in.B), int(in.P))
		case "AddPrefixes":
			var n uint64
			fmt.Sscan(in.N, &n)
			got, _, _, _ = callAdd(unints(in.A), n, uint64(in.P))
		case "Inverse":
			var n uint64
			fmt.Sscan(in.N, &n)
			_, out, err, _ := callAdd(unints(in.A), n, uint64(in.P))
			if err == nil {
				got, _, _, _ = callOffset(out, unints(in.A), int(in.P))
			}
		}
		ok := got == in.Want
		fmt.Printf("replay %s: got %s want %s -> %v\n", in.Fn, got, in.Want, map[bool]string{true: "holds", false: "FAILS"}[ok])
		if !ok {
			bad++
		}
	}
	if bad > 0 {
		return 1
	}
	return 0
}
