(* FileRun.v — histories for the file-plugin correspondence check (C10) *)
From Verif Require Import Base Net Msg4 Msg6 IpcalcRun Server4 Server4Run Setup PluginRun FilePlugin.
Open Scope N_scope.

Inductive fop :=
| FSetup (v6 : bool) (data : option bytes)   (* Setup4 / Setup6 on a file with this content (None = unreadable) *)
| FEvent (v6 : bool) (data : option bytes)   (* the file of that instance was rewritten and the watcher reloaded it *)
| FReq4 (req resp : msg4)
| FReq6 (req resp : pkt6).

Inductive fobs :=
| FSetupOk | FSetupErr | FEventDone
| F4 (r : option msg4) (stop : bool)
| F6 (r : option pkt6) (stop : bool).

Definition fstep (O : oracles) (t : ftable) (o : fop) : ftable * fobs :=
  match o with
  | FSetup v6 data => let '(t', ok) := reload O v6 data t in (t', if ok then FSetupOk else FSetupErr)
  | FEvent v6 data => let '(t', _) := reload O v6 data t in (t', FEventDone)
  | FReq4 req resp => let '(r, st) := file_handler4 t req resp in (t, F4 r st)
  | FReq6 req resp => let '(r, st) := file_handler6 t req resp in (t, F6 r st)
  end.

Definition fobs_eqb (a b : fobs) : bool :=
  match a, b with
  | FSetupOk, FSetupOk | FSetupErr, FSetupErr | FEventDone, FEventDone => true
  | F4 None s, F4 None s' => Bool.eqb s s'
  | F4 (Some x) s, F4 (Some y) s' => Bool.eqb s s' && msg4_eqb (wire4 x) y
  | F6 None s, F6 None s' => Bool.eqb s s'
  | F6 (Some x) s, F6 (Some y) s' => Bool.eqb s s' && pkt6_eqb x y
  | _, _ => false
  end.

Fixpoint frun_ok (O : oracles) (t : ftable) (ops : list fop) (obs : list fobs) : bool :=
  match ops, obs with
  | [], [] => true
  | o :: ops', b :: obs' => let '(t', r) := fstep O t o in fobs_eqb r b && frun_ok O t' ops' obs'
  | _, _ => false
  end.

(* init: the table the process starts the history with (the plugin's table is package-global) *)
Inductive fcase := CFile (t : tables) (init : ftable) (ops : list fop) (obs : list fobs).

Definition check_fcase (c : fcase) : bool :=
  match c with CFile t init ops obs => frun_ok (oracles_of t) init ops obs end.

Definition mismatches (l : list fcase) : list nat := mismatch_idx check_fcase l 0.
