(* AllocTheorems.v — C04–C07 at the level of addresses and prefixes, for both allocators,
   obtained from the index-level theorems through the refinement lemmas. *)
From Verif Require Import Base BaseProofs Net NetProofs Bitset IdxAlloc BitsetProofs Ipcalc IpcalcProofs IpcalcRun Alloc AllocRun Alloc4Proofs Alloc6Proofs.
From Coq Require Import Lia ZifyN ZifyNat ZifyBool.
Open Scope N_scope.

(* ---------- more about index-level runs ---------- *)
Lemma irun_alloc_lt b n ops i x : binv b n -> Forall (op_ok n) ops ->
  nth_error (irun b ops) i = Some (IAllocOk x) -> x < n.
Proof.
  revert b i. induction ops as [|o ops IH]; intros b i Hb Hok H; [destruct i; discriminate|].
  pose proof (Forall_inv Hok) as Ho. pose proof (Forall_inv_tail Hok) as Hs.
  cbn [irun] in H. destruct (istep b o) as [b' r] eqn:E.
  destruct (istep_spec b n o b' r Hb Ho E) as (Hb' & Hr & _).
  destruct i as [|i]; cbn [nth_error] in H.
  - injection H as ->. apply Hr.
  - exact (IH b' i Hb' Hs H).
Qed.

Lemma irun_length b ops : length (irun b ops) = length ops.
Proof. revert b; induction ops as [|o ops IH]; intros b; cbn [irun]; [reflexivity|]. destruct (istep b o). cbn. rewrite IH. reflexivity. Qed.

Lemma irun_free_op b n ops k x : binv b n -> Forall (op_ok n) ops ->
  nth_error (irun b ops) k = Some (IFreeOk x) -> nth_error ops k = Some (IFree (Some x)).
Proof.
  revert b k. induction ops as [|o ops IH]; intros b k Hb Hok H; [destruct k; discriminate|].
  pose proof (Forall_inv Hok) as Ho. pose proof (Forall_inv_tail Hok) as Hs.
  cbn [irun] in H. destruct (istep b o) as [b' r] eqn:E.
  destruct (istep_spec b n o b' r Hb Ho E) as (Hb' & Hr & _).
  destruct k as [|k]; cbn [nth_error] in *.
  - injection H as ->. destruct Hr as (-> & _). reflexivity.
  - exact (IH b' k Hb' Hs H).
Qed.

(* state after a prefix of the history *)
Lemma irun_nth b ops i : (i < length ops)%nat ->
  exists o, nth_error ops i = Some o /\
  nth_error (irun b ops) i = Some (snd (istep (ifinal b (firstn i ops)) o)).
Proof.
  revert b i. induction ops as [|o ops IH]; intros b i Hi; [cbn in Hi; lia|].
  destruct i as [|i].
  - exists o. cbn [irun nth_error firstn ifinal]. destruct (istep b o); split; reflexivity.
  - cbn in Hi. destruct (IH (fst (istep b o)) i ltac:(lia)) as (o' & E1 & E2).
    exists o'. cbn [irun nth_error firstn ifinal]. destruct (istep b o) as [b' r]. cbn [fst] in *.
    split; assumption.
Qed.

Lemma Forall_firstn {A} (Pr : A -> Prop) n l : Forall Pr l -> Forall Pr (firstn n l).
Proof. rewrite !Forall_forall. intros H x Hx. apply H. eapply in_firstn; eauto. Qed.

Lemma firstn_snoc {A} (l : list A) i o : nth_error l i = Some o -> firstn (S i) l = firstn i l ++ [o].
Proof.
  revert i. induction l as [|x l IH]; intros i H; [destruct i; discriminate|].
  destruct i as [|i]; cbn [nth_error firstn] in *.
  - injection H as ->. reflexivity.
  - cbn [app]. f_equal. apply IH. exact H.
Qed.

Lemma ifinal_snoc b l o : ifinal b (l ++ [o]) = fst (istep (ifinal b l) o).
Proof. revert b. induction l as [|x l IH]; intros b; cbn [app ifinal]; [reflexivity|apply IH]. Qed.

(* ================= IPv4 ================= *)
Section V4.
Variables (s e : bytes) (a0 : a4).
Hypothesis Ws : wf_bytes s.
Hypothesis We : wf_bytes e.
Hypothesis Hnew : new4 s e = Ok a0.

Let Ha0 : ainv4 a0 := new4_inv s e a0 Ws We Hnew.

Lemma be_bytes4_inj x y : x < W32 -> y < W32 -> be_bytes 4 x = be_bytes 4 y -> x = y.
Proof.
  intros Hx Hy H. assert (E : be_val (be_bytes 4 x) = be_val (be_bytes 4 y)) by (rewrite H; reflexivity).
  rewrite !be_val_be_bytes in E. change (256 ^ N.of_nat 4) with W32 in E.
  rewrite !N.mod_small in E by assumption. exact E.
Qed.

Lemma run4_nth ops i out : nth_error (run step4 a0 ops) i = Some out ->
  exists r, nth_error (irun (a4_bm a0) (map (abs_op4 a0) ops)) i = Some r /\ out = conc_out4 a0 r.
Proof.
  rewrite (run4_refines a0 ops Ha0). intros H. rewrite nth_error_map in H.
  destruct (nth_error (irun (a4_bm a0) (map (abs_op4 a0) ops)) i) as [r|]; [|discriminate].
  injection H as <-. exists r. split; reflexivity.
Qed.

Lemma ops_ok4 ops : Forall (op_ok (n4 a0)) (map (abs_op4 a0) ops).
Proof. apply Forall_forall. intros o Ho. apply in_map_iff in Ho. destruct Ho as (o' & <- & _). apply op_ok4. exact Ha0. Qed.

(* C05: every successful allocation is a /32 between the first and last address *)
Theorem alloc4_in_range ops i ip m :
  nth_error (run step4 a0 ops) i = Some (RAlloc (Ok (ip, m))) ->
  m = mask32 /\ length ip = 4%nat /\ wf_bytes ip /\ a4_start a0 <= be_val ip <= a4_end a0.
Proof.
  intros H. destruct (run4_nth ops i _ H) as (r & Hr & E).
  destruct r as [x| | |[|]]; cbn [conc_out4] in E; try discriminate.
  assert (Eip : ip = be_bytes 4 (a4_start a0 + x)) by congruence. assert (Em : m = mask32) by congruence. subst ip m. clear E.
  pose proof (irun_alloc_lt _ _ _ _ _ (proj2 (proj2 Ha0)) (ops_ok4 ops) Hr) as Hx.
  destruct Ha0 as (H1 & H2 & _). unfold n4 in Hx.
  split; [reflexivity|]. split; [apply be_bytes_length|]. split; [apply be_bytes_wf|].
  rewrite be_val_be_bytes. change (256 ^ N.of_nat 4) with W32. rewrite N.mod_small by lia. lia.
Qed.

(* C04: an address is never returned twice without a successful Free of it in between *)
Theorem alloc4_no_double_issue ops i j ip m1 m2 : (i < j)%nat ->
  nth_error (run step4 a0 ops) i = Some (RAlloc (Ok (ip, m1))) ->
  nth_error (run step4 a0 ops) j = Some (RAlloc (Ok (ip, m2))) ->
  exists k pip pm ip4, (i < k < j)%nat /\ nth_error ops k = Some (OFree pip pm) /\
    nth_error (run step4 a0 ops) k = Some (RFree (Ok tt)) /\
    to4 pip = Some ip4 /\ be_u32_of ip4 = be_val ip.
Proof.
  intros Hij Hi Hj.
  destruct (run4_nth ops i _ Hi) as (ri & Hri & Ei). destruct (run4_nth ops j _ Hj) as (rj & Hrj & Ej).
  destruct ri as [x| | |[|]]; cbn [conc_out4] in Ei; try discriminate. assert (Ex : ip = be_bytes 4 (a4_start a0 + x)) by congruence.
  destruct rj as [y| | |[|]]; cbn [conc_out4] in Ej; try discriminate. assert (Ey : ip = be_bytes 4 (a4_start a0 + y)) by congruence.
  pose proof (proj2 (proj2 Ha0)) as Hb. pose proof (ops_ok4 ops) as Hok.
  pose proof (irun_alloc_lt _ _ _ _ _ Hb Hok Hri) as Hx. pose proof (irun_alloc_lt _ _ _ _ _ Hb Hok Hrj) as Hy.
  assert (x = y).
  { destruct Ha0 as (H1 & H2 & _). unfold n4 in *.
    assert (a4_start a0 + x = a4_start a0 + y) by (apply be_bytes4_inj; [lia|lia|congruence]). lia. }
  subst y.
  destruct (irun_no_double_issue _ _ _ i j x Hb Hok Hij Hri Hrj) as (k & Hk & Hfk).
  pose proof (irun_free_op _ _ _ _ _ Hb Hok Hfk) as Hop.
  rewrite nth_error_map in Hop. destruct (nth_error ops k) as [o|] eqn:Eo; [|discriminate].
  injection Hop as Hop. destruct o as [hip hm|pip pm]; [discriminate|]. cbn in Hop.
  destruct (to_offset4 a0 pip) as [off| |] eqn:Eoff; try discriminate. injection Hop as ->.
  destruct (to_offset4_ok a0 pip x Ha0 Eoff) as (_ & ip4 & T4 & Ev).
  exists k, pip, pm, ip4. split; [exact Hk|]. split; [exact Eo|]. split.
  - rewrite (run4_refines a0 ops Ha0), nth_error_map, Hfk. reflexivity.
  - split; [exact T4|]. rewrite Ev, Ex. rewrite be_val_be_bytes. change (256 ^ N.of_nat 4) with W32.
    destruct Ha0 as (H1 & H2 & _). unfold n4 in *. rewrite N.mod_small by lia. reflexivity.
Qed.

(* the state reached after a history *)
Definition final4 (ops : list aop) : bitset := ifinal (a4_bm a0) (map (abs_op4 a0) ops).

Lemma final4_inv ops : binv (final4 ops) (n4 a0).
Proof. apply ifinal_inv; [exact (proj2 (proj2 Ha0))|apply ops_ok4]. Qed.

Lemma run4_nth_state ops i o : nth_error ops i = Some o ->
  nth_error (run step4 a0 ops) i =
    Some (conc_out4 a0 (snd (istep (final4 (firstn i ops)) (abs_op4 a0 o)))).
Proof.
  intros Ho. rewrite (run4_refines a0 ops Ha0), nth_error_map.
  assert (Hi : (i < length (map (abs_op4 a0) ops))%nat).
  { rewrite map_length. apply nth_error_Some. congruence. }
  destruct (irun_nth (a4_bm a0) _ i Hi) as (o' & E1 & E2).
  rewrite nth_error_map, Ho in E1. injection E1 as <-.
  rewrite E2. unfold final4. rewrite firstn_map. reflexivity.
Qed.

(* C05: Allocate fails - with 'no address available' - exactly when all N addresses are
   outstanding; it never fails otherwise and never panics *)
Theorem alloc4_fails_iff_full ops i hip hm : nth_error ops i = Some (OAlloc hip hm) ->
  let outstanding := bits (final4 (firstn i ops)) in
  (N.of_nat (length outstanding) = n4 a0 <->
     nth_error (run step4 a0 ops) i = Some (RAlloc (Err ENoAddr))) /\
  (N.of_nat (length outstanding) <> n4 a0 ->
     exists ip, nth_error (run step4 a0 ops) i = Some (RAlloc (Ok (ip, mask32)))) /\
  (nth_error (run step4 a0 ops) i = Some (RAlloc (Err ENoAddr)) ->
     final4 (firstn (S i) ops) = final4 (firstn i ops)).
Proof.
  intros Ho outstanding. subst outstanding. rewrite (run4_nth_state ops i _ Ho).
  pose proof (final4_inv (firstn i ops)) as Hb.
  destruct (istep (final4 (firstn i ops)) (abs_op4 a0 (OAlloc hip hm))) as [b' r] eqn:E.
  destruct (istep_spec _ _ _ _ _ Hb (op_ok4 a0 _ Ha0) E) as (_ & Hr & Hd). cbn [abs_op4] in Hd.
  cbn [snd]. split; [|split].
  - rewrite Hd. split; [intros ->; reflexivity|]. intros H. destruct r as [x| | |[|]]; cbn [conc_out4] in H; congruence.
  - intros Hne. destruct r as [x| |x|k]; cbn [conc_out4].
    + eexists; reflexivity.
    + exfalso. apply Hne. apply Hd. reflexivity.
    + exfalso. destruct Hr as (Hr & _). discriminate.
    + exfalso. cbn [istep abs_op4] in E. destruct (ipick _ _); discriminate.
  - intros H. destruct r as [x| |x|[|]]; cbn [conc_out4] in H; try discriminate.
    unfold final4. rewrite (firstn_snoc _ _ _ Ho), map_app. cbn [map]. rewrite ifinal_snoc.
    fold (final4 (firstn i ops)). rewrite E. cbn [fst]. apply Hr.
Qed.

Lemma final4_S ops i o : nth_error ops i = Some o ->
  final4 (firstn (S i) ops) = fst (istep (final4 (firstn i ops)) (abs_op4 a0 o)).
Proof.
  intros Ho. unfold final4. rewrite (firstn_snoc _ _ _ Ho), map_app. cbn [map]. apply ifinal_snoc.
Qed.

(* what an address names: block x of the range *)
Lemma to_offset4_iff ip x : to_offset4 a0 ip = Ok x <->
  exists ip4, to4 ip = Some ip4 /\ a4_start a0 <= be_u32_of ip4 <= a4_end a0 /\ x = be_u32_of ip4 - a4_start a0.
Proof.
  destruct Ha0 as (H1 & H2 & _). unfold to_offset4. split.
  - destruct (to4 ip) as [ip4|]; [|discriminate].
    destruct ((be_u32_of ip4 <? a4_start a0) || (a4_end a0 <? be_u32_of ip4)) eqn:C; [discriminate|].
    intros H. injection H as <-. exists ip4. split; [reflexivity|]. split; [lia|]. apply u32_sub_small; lia.
  - intros (ip4 & -> & Hr & ->).
    replace ((be_u32_of ip4 <? a4_start a0) || (a4_end a0 <? be_u32_of ip4)) with false by lia.
    rewrite u32_sub_small by lia. reflexivity.
Qed.

(* C06: Free succeeds exactly when the address is an outstanding one, releases it and
   nothing else; otherwise it reports an error and changes nothing *)
Theorem free4_ok_iff ops i pip pm : nth_error ops i = Some (OFree pip pm) ->
  let st := final4 (firstn i ops) in
  let st' := final4 (firstn (S i) ops) in
  (nth_error (run step4 a0 ops) i = Some (RFree (Ok tt)) <->
     exists x, to_offset4 a0 pip = Ok x /\ In x (bits st)) /\
  (forall x, to_offset4 a0 pip = Ok x -> In x (bits st) ->
     forall j, In j (bits st') <-> j <> x /\ In j (bits st)) /\
  (nth_error (run step4 a0 ops) i <> Some (RFree (Ok tt)) ->
     st' = st /\ exists err, nth_error (run step4 a0 ops) i = Some (RFree (Err err))).
Proof.
  intros Ho st st'. subst st st'. rewrite (run4_nth_state ops i _ Ho), (final4_S ops i _ Ho).
  pose proof (final4_inv (firstn i ops)) as Hb.
  destruct (istep (final4 (firstn i ops)) (abs_op4 a0 (OFree pip pm))) as [b' r] eqn:E.
  destruct (istep_spec _ _ _ _ _ Hb (op_ok4 a0 _ Ha0) E) as (_ & Hr & Hd).
  cbn [abs_op4] in *. cbn [fst snd].
  destruct (to_offset4 a0 pip) as [x| |] eqn:Eo.
  - split; [|split].
    + split.
      * intros H. exists x. split; [reflexivity|]. apply Hd. destruct r as [| | |[|]]; cbn [conc_out4] in H; try discriminate.
        destruct Hr as (Hr & _). congruence.
      * intros (x' & Ex & Hin). injection Ex as <-. apply Hd in Hin. subst r. reflexivity.
    + intros x' Ex Hin. injection Ex as <-. apply Hd in Hin. subst r. apply Hr.
    + intros Hne. destruct r as [y| |y|k]; cbn [conc_out4] in *.
      * exfalso. cbn [istep] in E. destruct (negb (bs_test _ x)); discriminate.
      * exfalso. cbn [istep] in E. destruct (negb (bs_test _ x)); discriminate.
      * congruence.
      * destruct Hr as (-> & _). split; [reflexivity|]. destruct k; eexists; reflexivity.
  - subst r. destruct Hr as (-> & _). split; [|split].
    + split; [discriminate|]. intros (x & Ex & _). discriminate.
    + intros x Ex. discriminate.
    + intros _. split; [reflexivity|]. eexists; reflexivity.
  - subst r. destruct Hr as (-> & _). split; [|split].
    + split; [discriminate|]. intros (x & Ex & _). discriminate.
    + intros x Ex. discriminate.
    + intros _. split; [reflexivity|]. eexists; reflexivity.
Qed.

(* C07: a hint naming a free address of the range is honoured exactly *)
Theorem hint4_honoured ops i hip hm x : nth_error ops i = Some (OAlloc hip hm) ->
  to_offset4 a0 hip = Ok x -> ~ In x (bits (final4 (firstn i ops))) ->
  nth_error (run step4 a0 ops) i = Some (RAlloc (Ok (be_bytes 4 (a4_start a0 + x), mask32))) /\
  bits (final4 (firstn (S i) ops)) = x :: bits (final4 (firstn i ops)).
Proof.
  intros Ho Ex Hfree. rewrite (run4_nth_state ops i _ Ho), (final4_S ops i _ Ho).
  pose proof (final4_inv (firstn i ops)) as Hb.
  destruct (istep (final4 (firstn i ops)) (abs_op4 a0 (OAlloc hip hm))) as [b' r] eqn:E.
  destruct (istep_spec _ _ _ _ _ Hb (op_ok4 a0 _ Ha0) E) as (_ & Hr & Hd).
  cbn [abs_op4] in *. unfold hint_idx4 in *. rewrite Ex in *. cbn [fst snd].
  destruct r as [y| |y|k].
  - destruct Hr as (_ & _ & Eb & Hh). specialize (Hh x eq_refl Hfree). subst y.
    split; [reflexivity|exact Eb].
  - exfalso. destruct Hr as (_ & Hfull). apply Hfree.
    apply (proj2 (full_iff_count _ _ Hb) Hfull). apply (to_offset4_ok a0 hip x Ha0 Ex).
  - exfalso. destruct Hr as (Hr & _). discriminate.
  - exfalso. cbn [istep] in E. destruct (ipick _ _); discriminate.
Qed.
End V4.

(* ================= IPv6 ================= *)
Section V6.
Variables (a0 : a6) (L P : N).
Hypothesis V0 : valid6 a0 L P.

Let nblk : N := 2 ^ (P - L).

Definition final6 (ops : list aop) : bitset := ifinal (a6_bm a0) (map (abs_op6 a0) ops).

Lemma ops_ok6 ops : Forall wf_op ops -> Forall (op_ok nblk) (map (abs_op6 a0) ops).
Proof.
  intros W. apply Forall_forall. intros o Ho. apply in_map_iff in Ho. destruct Ho as (o' & <- & Hin).
  apply (op_ok6 a0 L P o' V0). rewrite Forall_forall in W. apply W. exact Hin.
Qed.

Lemma final6_inv ops : Forall wf_op ops -> binv (final6 ops) nblk.
Proof. intros W. apply ifinal_inv; [exact (v6_bm a0 L P V0)|apply ops_ok6; exact W]. Qed.

Lemma final6_S ops i o : nth_error ops i = Some o ->
  final6 (firstn (S i) ops) = fst (istep (final6 (firstn i ops)) (abs_op6 a0 o)).
Proof.
  intros Ho. unfold final6. rewrite (firstn_snoc _ _ _ Ho), map_app. cbn [map]. apply ifinal_snoc.
Qed.

Lemma conc_outs6_nth ops rs i o r : nth_error ops i = Some o -> nth_error rs i = Some r ->
  nth_error (conc_outs6 a0 P ops rs) i = Some (conc_out6 a0 P o r).
Proof.
  revert rs i. induction ops as [|o' ops IH]; intros rs i Ho Hr; [destruct i; discriminate|].
  destruct rs as [|r' rs]; [destruct i; discriminate|]. destruct i as [|i]; cbn [nth_error conc_outs6] in *.
  - congruence.
  - apply IH; assumption.
Qed.

Lemma run6_nth_state ops i o : Forall wf_op ops -> nth_error ops i = Some o ->
  nth_error (run step6 a0 ops) i =
    Some (conc_out6 a0 P o (snd (istep (final6 (firstn i ops)) (abs_op6 a0 o)))).
Proof.
  intros W Ho. rewrite (run6_refines a0 L P ops V0 W).
  assert (Hi : (i < length (map (abs_op6 a0) ops))%nat).
  { rewrite map_length. apply nth_error_Some. congruence. }
  destruct (irun_nth (a6_bm a0) _ i Hi) as (o' & E1 & E2).
  rewrite nth_error_map, Ho in E1. injection E1 as <-.
  rewrite (conc_outs6_nth ops _ i o _ Ho E2). unfold final6. rewrite firstn_map. reflexivity.
Qed.

Lemma wf_nth ops i o : Forall wf_op ops -> nth_error ops i = Some o -> wf_op o.
Proof. intros W H. rewrite Forall_forall in W. apply W. eapply nth_error_In; eauto. Qed.

(* blocks of distinct index are disjoint address ranges inside the pool *)
Lemma blk_ip_val x : x < nblk ->
  v (blk_ip a0 P x) = v (a6_ip a0) + x * Bsz P /\ wf_ip16 (blk_ip a0 P x) /\
  v (a6_ip a0) + x * Bsz P + Bsz P <= v (a6_ip a0) + Bsz L.
Proof.
  intros Hx. destruct (to_prefix6_ok a0 L P x V0 Hx) as [_ Hin].
  pose proof (pool_end _ L ltac:(destruct V0 as [_ _ _ _ (?&?&?) _ _]; lia)
               (wf_ip16_bound _ (v6_ip a0 L P V0)) (v6_aligned a0 L P V0)) as He.
  pose proof (Bsz_pos P) as HP.
  unfold blk_ip. split; [|split; [split; [apply be_bytes_length|apply be_bytes_wf]|exact Hin]].
  unfold v at 1. rewrite be_val_be_bytes. change (256 ^ N.of_nat 16) with W128. apply N.mod_small. lia.
Qed.

Theorem blocks_disjoint x y : x < nblk -> y < nblk -> x <> y ->
  v (blk_ip a0 P x) + Bsz P <= v (blk_ip a0 P y) \/ v (blk_ip a0 P y) + Bsz P <= v (blk_ip a0 P x).
Proof.
  intros Hx Hy Hne. destruct (blk_ip_val x Hx) as (-> & _). destruct (blk_ip_val y Hy) as (-> & _).
  destruct (N.lt_trichotomy x y) as [H|[H|H]]; [left|contradiction|right].
  - assert ((x + 1) * Bsz P <= y * Bsz P) by (apply N.mul_le_mono_r; lia). lia.
  - assert ((y + 1) * Bsz P <= x * Bsz P) by (apply N.mul_le_mono_r; lia). lia.
Qed.

(* C05: the shape of every successful allocation *)
Theorem alloc6_shape ops i ip m : Forall wf_op ops ->
  nth_error (run step6 a0 ops) i = Some (RAlloc (Ok (ip, m))) ->
  exists x hip hm, nth_error ops i = Some (OAlloc hip hm) /\ x < nblk /\
    ip = blk_ip a0 P x /\                       (* base of block x of the pool *)
    v ip = v (a6_ip a0) + x * Bsz P /\
    m = req_mask a0 hm /\                       (* max(page, hint length) for a 128-bit hint mask *)
    ~ In x (bits (final6 (firstn i ops))).      (* and block x was free *)
Proof.
  intros W H.
  assert (Hi : (i < length ops)%nat).
  { rewrite (run6_refines a0 L P ops V0 W) in H.
    assert (Hl : forall ops rs, (length (conc_outs6 a0 P ops rs) <= length ops)%nat).
    { clear. induction ops as [|o ops IH]; intros [|r rs]; cbn [conc_outs6 length]; try lia. specialize (IH rs). lia. }
    specialize (Hl ops (irun (a6_bm a0) (map (abs_op6 a0) ops))).
    assert ((i < length (conc_outs6 a0 P ops (irun (a6_bm a0) (map (abs_op6 a0) ops))))%nat) by (apply nth_error_Some; congruence).
    lia. }
  destruct (nth_error ops i) as [o|] eqn:Ho; [|apply nth_error_None in Ho; lia].
  rewrite (run6_nth_state ops i o W Ho) in H.
  pose proof (final6_inv (firstn i ops) (Forall_firstn _ _ _ W)) as Hb.
  destruct (istep (final6 (firstn i ops)) (abs_op6 a0 o)) as [b' r] eqn:E.
  destruct (istep_spec _ _ _ _ _ Hb (op_ok6 a0 L P o V0 (wf_nth ops i o W Ho)) E) as (_ & Hr & _).
  cbn [snd] in H. destruct r as [x| | |[|]]; cbn [conc_out6] in H; try discriminate.
  destruct o as [hip hm|pip pm].
  2:{ exfalso. cbn [abs_op6 istep] in E. destruct (free_idx6 a0 pip pm) as [t|]; [destruct (negb (bs_test _ t))|]; discriminate. }
  exists x, hip, hm. destruct Hr as (Hx & Hni & _).
  assert (Eip : ip = blk_ip a0 P x) by congruence. assert (Em : m = req_mask a0 hm) by congruence.
  split; [reflexivity|]. split; [exact Hx|]. split; [exact Eip|]. split; [|split; [exact Em|exact Hni]].
  rewrite Eip. apply (blk_ip_val x Hx).
Qed.

(* C05: Allocate fails - with 'no address available', changing nothing - exactly when all
   2^(P-L) blocks are outstanding; no other error and no panic is possible *)
Theorem alloc6_fails_iff_full ops i hip hm : Forall wf_op ops -> nth_error ops i = Some (OAlloc hip hm) ->
  let outstanding := bits (final6 (firstn i ops)) in
  (N.of_nat (length outstanding) = nblk <->
     nth_error (run step6 a0 ops) i = Some (RAlloc (Err ENoAddr))) /\
  (N.of_nat (length outstanding) <> nblk ->
     exists x, nth_error (run step6 a0 ops) i = Some (RAlloc (Ok (blk_ip a0 P x, req_mask a0 hm)))) /\
  (nth_error (run step6 a0 ops) i = Some (RAlloc (Err ENoAddr)) ->
     final6 (firstn (S i) ops) = final6 (firstn i ops)).
Proof.
  intros W Ho outstanding. subst outstanding. rewrite (run6_nth_state ops i _ W Ho), (final6_S ops i _ Ho).
  pose proof (final6_inv (firstn i ops) (Forall_firstn _ _ _ W)) as Hb.
  destruct (istep (final6 (firstn i ops)) (abs_op6 a0 (OAlloc hip hm))) as [b' r] eqn:E.
  destruct (istep_spec _ _ _ _ _ Hb (op_ok6 a0 L P _ V0 (wf_nth ops i _ W Ho)) E) as (_ & Hr & Hd).
  cbn [abs_op6] in Hd. cbn [fst snd]. split; [|split].
  - rewrite Hd. split; [intros ->; reflexivity|]. intros H. destruct r as [x| | |[|]]; cbn [conc_out6] in H; congruence.
  - intros Hne. destruct r as [x| |x|k]; cbn [conc_out6].
    + eexists; reflexivity.
    + exfalso. apply Hne. apply Hd. reflexivity.
    + exfalso. destruct Hr as (Hr & _). discriminate.
    + exfalso. cbn [istep abs_op6] in E. destruct (ipick _ _); discriminate.
  - intros H. destruct r as [x| |x|[|]]; cbn [conc_out6] in H; try discriminate. apply Hr.
Qed.

(* C04: two allocations whose blocks overlap are separated by a successful Free of a prefix
   of that block *)
Theorem alloc6_no_double_issue ops i j ip1 m1 ip2 m2 : Forall wf_op ops -> (i < j)%nat ->
  nth_error (run step6 a0 ops) i = Some (RAlloc (Ok (ip1, m1))) ->
  nth_error (run step6 a0 ops) j = Some (RAlloc (Ok (ip2, m2))) ->
  ~ (v ip1 + Bsz P <= v ip2 \/ v ip2 + Bsz P <= v ip1) ->          (* the two blocks overlap *)
  exists k pip pm x, (i < k < j)%nat /\ nth_error ops k = Some (OFree pip pm) /\
    nth_error (run step6 a0 ops) k = Some (RFree (Ok tt)) /\
    free_idx6 a0 pip pm = Some x /\ ip1 = blk_ip a0 P x /\ ip2 = blk_ip a0 P x.
Proof.
  intros W Hij Hi Hj Hov.
  destruct (alloc6_shape ops i ip1 m1 W Hi) as (x & h1 & hm1 & Ho1 & Hx & E1 & _).
  destruct (alloc6_shape ops j ip2 m2 W Hj) as (y & h2 & hm2 & Ho2 & Hy & E2 & _).
  subst ip1 ip2.
  assert (x = y).
  { destruct (N.eq_dec x y) as [|Hne]; [assumption|]. exfalso. apply Hov. apply blocks_disjoint; assumption. }
  subst y.
  pose proof (v6_bm a0 L P V0) as Hb. pose proof (ops_ok6 ops W) as Hok.
  (* index-level outputs at i and j *)
  assert (Hidx : forall n hip hm, nth_error ops n = Some (OAlloc hip hm) ->
     forall ip m, nth_error (run step6 a0 ops) n = Some (RAlloc (Ok (ip, m))) -> ip = blk_ip a0 P x ->
     nth_error (irun (a6_bm a0) (map (abs_op6 a0) ops)) n = Some (IAllocOk x)).
  { intros n hip hm Hon ip m Hrn Eip.
    assert (Hn : (n < length (map (abs_op6 a0) ops))%nat) by (rewrite map_length; apply nth_error_Some; congruence).
    destruct (irun_nth (a6_bm a0) _ n Hn) as (o' & F1 & F2).
    rewrite nth_error_map, Hon in F1. injection F1 as <-.
    rewrite F2. f_equal.
    rewrite (run6_nth_state ops n _ W Hon) in Hrn. unfold final6 in Hrn. rewrite <- firstn_map in Hrn.
    cbn [abs_op6] in Hrn.
    destruct (snd (istep (ifinal (a6_bm a0) (firstn n (map (abs_op6 a0) ops))) (IAlloc (hint_idx6 a0 hip)))) as [z| | |[|]] eqn:Ez;
      cbn [conc_out6] in Hrn; try discriminate.
    assert (Ez' : blk_ip a0 P z = blk_ip a0 P x) by congruence.
    assert (Hz : z < nblk).
    { eapply (irun_alloc_lt _ _ _ n z Hb Hok). exact F2. }
    destruct (N.eq_dec z x) as [->|Hne]; [reflexivity|exfalso].
    destruct (blocks_disjoint z x Hz Hx Hne) as [D|D]; rewrite Ez' in D; pose proof (Bsz_pos P); lia. }
  pose proof (Hidx i h1 hm1 Ho1 _ _ Hi eq_refl) as Ri.
  pose proof (Hidx j h2 hm2 Ho2 _ _ Hj eq_refl) as Rj.
  destruct (irun_no_double_issue _ _ _ i j x Hb Hok Hij Ri Rj) as (k & Hk & Hfk).
  pose proof (irun_free_op _ _ _ _ _ Hb Hok Hfk) as Hop.
  rewrite nth_error_map in Hop. destruct (nth_error ops k) as [o|] eqn:Eo; [|discriminate].
  injection Hop as Hop. destruct o as [hip hm|pip pm]; [discriminate|]. cbn [abs_op6] in Hop.
  exists k, pip, pm, x. split; [exact Hk|]. split; [exact Eo|]. split; [|split; [congruence|split; reflexivity]].
  rewrite (run6_nth_state ops k _ W Eo).
  assert (Hn : (k < length (map (abs_op6 a0) ops))%nat) by (rewrite map_length; apply nth_error_Some; congruence).
  destruct (irun_nth (a6_bm a0) _ k Hn) as (o' & F1 & F2).
  rewrite nth_error_map, Eo in F1. injection F1 as <-. rewrite Hfk in F2.
  unfold final6. rewrite <- firstn_map.
  cbn [abs_op6].
  assert (F3 : snd (istep (ifinal (a6_bm a0) (firstn k (map (abs_op6 a0) ops))) (IFree (free_idx6 a0 pip pm))) = IFreeOk x) by congruence.
  rewrite F3. reflexivity.
Qed.

(* C06 *)
Theorem free6_ok_iff ops i pip pm : Forall wf_op ops -> nth_error ops i = Some (OFree pip pm) ->
  let st := final6 (firstn i ops) in
  let st' := final6 (firstn (S i) ops) in
  (nth_error (run step6 a0 ops) i = Some (RFree (Ok tt)) <->
     exists x, free_idx6 a0 pip pm = Some x /\ In x (bits st)) /\
  (forall x, free_idx6 a0 pip pm = Some x -> In x (bits st) ->
     forall j, In j (bits st') <-> j <> x /\ In j (bits st)) /\
  (nth_error (run step6 a0 ops) i <> Some (RFree (Ok tt)) ->
     st' = st /\ exists err, nth_error (run step6 a0 ops) i = Some (RFree (Err err))).
Proof.
  intros W Ho st st'. subst st st'. rewrite (run6_nth_state ops i _ W Ho), (final6_S ops i _ Ho).
  pose proof (final6_inv (firstn i ops) (Forall_firstn _ _ _ W)) as Hb.
  destruct (istep (final6 (firstn i ops)) (abs_op6 a0 (OFree pip pm))) as [b' r] eqn:E.
  destruct (istep_spec _ _ _ _ _ Hb (op_ok6 a0 L P _ V0 (wf_nth ops i _ W Ho)) E) as (_ & Hr & Hd).
  cbn [abs_op6] in *. cbn [fst snd].
  destruct (free_idx6 a0 pip pm) as [x|] eqn:Eo.
  - split; [|split].
    + split.
      * intros H. exists x. split; [reflexivity|]. apply Hd. destruct r as [| | |[|]]; cbn [conc_out6] in H; try discriminate.
        destruct Hr as (Hr & _). congruence.
      * intros (x' & Ex & Hin). injection Ex as <-. apply Hd in Hin. subst r. reflexivity.
    + intros x' Ex Hin. injection Ex as <-. apply Hd in Hin. subst r. apply Hr.
    + intros Hne. destruct r as [y| |y|k]; cbn [conc_out6] in *.
      * exfalso. cbn [istep] in E. destruct (negb (bs_test _ x)); discriminate.
      * exfalso. cbn [istep] in E. destruct (negb (bs_test _ x)); discriminate.
      * congruence.
      * destruct Hr as (-> & _). split; [reflexivity|]. destruct k; eexists; reflexivity.
  - subst r. destruct Hr as (-> & _). split; [|split].
    + split; [discriminate|]. intros (x & Ex & _). discriminate.
    + intros x Ex. discriminate.
    + intros _. split; [reflexivity|]. eexists; reflexivity.
Qed.

(* what a prefix names.  (i) a prefix whose masked base lies outside the pool — at any
   distance below the base or above the end — names no block *)
Theorem free_idx6_outside pip pm base : wf_bytes pip -> wf_bytes pm ->
  ip_mask pip pm = Some base ->
  ~ (length base = 16%nat /\ to4 base = None /\ v (a6_ip a0) <= v base < v (a6_ip a0) + Bsz L) ->
  free_idx6 a0 pip pm = None.
Proof.
  intros Wi Wm M Hout. unfold free_idx6. rewrite M.
  pose proof (ip_mask_wf _ _ _ Wi Wm M) as Wb.
  destruct (contains (a6_ip a0) (a6_mask a0) base) eqn:C; [|reflexivity].
  exfalso. apply Hout. apply (contains6 a0 L P base V0 Wb). exact C.
Qed.

(* (ii) a prefix whose masked base lies in block x names block x *)
Theorem free_idx6_inside pip pm base x : wf_bytes pip -> wf_bytes pm ->
  ip_mask pip pm = Some base -> length base = 16%nat -> to4 base = None -> x < nblk ->
  v (blk_ip a0 P x) <= v base < v (blk_ip a0 P x) + Bsz P ->
  free_idx6 a0 pip pm = Some x.
Proof.
  intros Wi Wm M Hl Hn Hx [R1 R2]. unfold free_idx6. rewrite M.
  pose proof (ip_mask_wf _ _ _ Wi Wm M) as Wb.
  destruct (blk_ip_val x Hx) as (Ev & _ & Hin). rewrite Ev in *.
  assert (R : v (a6_ip a0) <= v base < v (a6_ip a0) + Bsz L) by lia.
  assert (C : contains (a6_ip a0) (a6_mask a0) base = true).
  { apply (contains6 a0 L P base V0 Wb). auto. }
  rewrite C. cbn [negb].
  destruct (to_index6_in_pool a0 L P base V0 Wb Hl R) as [EI _]. rewrite EI. f_equal.
  pose proof (Bsz_pos P) as HP.
  replace (v base - v (a6_ip a0)) with (x * Bsz P + (v base - v (a6_ip a0) - x * Bsz P)) by lia.
  rewrite N.div_add_l by lia. rewrite N.div_small by lia. lia.
Qed.

(* C07 *)
Theorem hint_idx6_inside hip x : wf_bytes hip -> length hip = 16%nat -> to4 hip = None -> x < nblk ->
  v (blk_ip a0 P x) <= v hip < v (blk_ip a0 P x) + Bsz P ->
  hint_idx6 a0 hip = Some x.
Proof.
  intros W Hl Hn Hx [R1 R2]. unfold hint_idx6, to16, lenb. rewrite Hl. cbn [Nat.eqb].
  destruct (blk_ip_val x Hx) as (Ev & _ & Hin). rewrite Ev in *.
  assert (R : v (a6_ip a0) <= v hip < v (a6_ip a0) + Bsz L) by lia.
  assert (C : contains (a6_ip a0) (a6_mask a0) hip = true).
  { apply (contains6 a0 L P hip V0 W). auto. }
  rewrite C. destruct (to_index6_in_pool a0 L P hip V0 W Hl R) as [EI _]. rewrite EI. f_equal.
  pose proof (Bsz_pos P) as HP.
  replace (v hip - v (a6_ip a0)) with (x * Bsz P + (v hip - v (a6_ip a0) - x * Bsz P)) by lia.
  rewrite N.div_add_l by lia. rewrite N.div_small by lia. lia.
Qed.

Theorem hint6_honoured ops i hip hm x : Forall wf_op ops -> nth_error ops i = Some (OAlloc hip hm) ->
  hint_idx6 a0 hip = Some x -> ~ In x (bits (final6 (firstn i ops))) ->
  nth_error (run step6 a0 ops) i = Some (RAlloc (Ok (blk_ip a0 P x, req_mask a0 hm))) /\
  bits (final6 (firstn (S i) ops)) = x :: bits (final6 (firstn i ops)).
Proof.
  intros W Ho Ex Hfree. rewrite (run6_nth_state ops i _ W Ho), (final6_S ops i _ Ho).
  pose proof (final6_inv (firstn i ops) (Forall_firstn _ _ _ W)) as Hb.
  destruct (istep (final6 (firstn i ops)) (abs_op6 a0 (OAlloc hip hm))) as [b' r] eqn:E.
  destruct (istep_spec _ _ _ _ _ Hb (op_ok6 a0 L P _ V0 (wf_nth ops i _ W Ho)) E) as (_ & Hr & Hd).
  cbn [abs_op6] in *. rewrite Ex in *. cbn [fst snd].
  destruct r as [y| |y|k].
  - destruct Hr as (_ & _ & Eb & Hh). specialize (Hh x eq_refl Hfree). subst y.
    split; [reflexivity|exact Eb].
  - exfalso. destruct Hr as (_ & Hfull). apply Hfree.
    apply (proj2 (full_iff_count _ _ Hb) Hfull).
    exact (hint_idx6_lt a0 L P hip x V0 (proj1 (wf_nth ops i _ W Ho)) Ex).
  - exfalso. destruct Hr as (Hr & _). discriminate.
  - exfalso. cbn [istep] in E. destruct (ipick _ _); discriminate.
Qed.

(* the outstanding blocks at any point of any history are pairwise distinct blocks of the pool *)
Theorem outstanding6_disjoint ops : Forall wf_op ops ->
  NoDup (bits (final6 ops)) /\
  forall x y, In x (bits (final6 ops)) -> In y (bits (final6 ops)) -> x <> y ->
    v (blk_ip a0 P x) + Bsz P <= v (blk_ip a0 P y) \/ v (blk_ip a0 P y) + Bsz P <= v (blk_ip a0 P x).
Proof.
  intros W. destruct (final6_inv ops W) as (_ & Hnd & Hlt). split; [exact Hnd|].
  intros x y Hx Hy Hne. apply blocks_disjoint; auto.
Qed.
End V6.
