(* C08 — Delegated prefixes are in the pool, well-formed and disjoint across clients.
   Histories: any finite sequence of messages PMsg now client iapds (client = None: no inner
   message or no client identifier; per IA_PD the IAID and the hints, None = the nil prefix of an
   IAPrefix of length 0) from prefix_setup on a pool pip/L with allocation length P.
   delegated ms outs = the (client, lease) pairs of all replies.  v = 128-bit value, Bsz P = 2^(128-P). *)
From Verif Require Import Base BaseProofs Net NetProofs Bitset Ipcalc IpcalcProofs Alloc Alloc6Proofs AllocTheorems PrefixPlugin PrefixProofs PrefixTheorems PrefixExamples.
Open Scope N_scope.

Theorem pd_never_panics :
  forall (pip : bytes) (L P : N) (st0 : pstate),
  wf_ip16 pip /\ to4 pip = None /\ L <= P /\ P <= 128 /\ P - L < 64 /\ v pip mod Bsz L = 0 ->
  prefix_setup pip (cidr_bytes 16 L) (Z.of_N P) = Ok st0 ->
  forall ms : list pmsg, Forall wf_pmsg ms -> ~ In PPanic (snd (prun st0 ms)).
Proof. exact (@PrefixTheorems.pd_never_panics). Qed.
Print Assumptions pd_never_panics.

Theorem pd_in_pool :
  forall (pip : bytes) (L P : N) (st0 : pstate),
  wf_ip16 pip /\ to4 pip = None /\ L <= P /\ P <= 128 /\ P - L < 64 /\ v pip mod Bsz L = 0 ->
  prefix_setup pip (cidr_bytes 16 L) (Z.of_N P) = Ok st0 ->
  forall ms : list pmsg,
  Forall wf_pmsg ms ->
  forall (c : bytes) (l : lease),
  In (c, l) (delegated ms (snd (prun st0 ms))) ->
  exists (x : N) (hm : bytes),
  x < 2 ^ (P - L) /\
  ls_ip l = be_bytes 16 (v pip + x * Bsz P) /\
  v pip + x * Bsz P + Bsz P <= v pip + Bsz L /\
  ls_mask l =
  (let
  '(ones, bits) := mask_size hm in
  cidr_mask (if (ones <? Z.of_N P)%Z || negb (bits =? 128)%Z then Z.of_N P else ones) 128).
Proof. exact (@PrefixTheorems.pd_in_pool). Qed.
Print Assumptions pd_in_pool.

Theorem pd_disjoint_clients :
  forall (pip : bytes) (L P : N) (st0 : pstate),
  wf_ip16 pip /\ to4 pip = None /\ L <= P /\ P <= 128 /\ P - L < 64 /\ v pip mod Bsz L = 0 ->
  prefix_setup pip (cidr_bytes 16 L) (Z.of_N P) = Ok st0 ->
  forall ms : list pmsg,
  Forall wf_pmsg ms ->
  forall (c1 : bytes) (l1 : lease) (c2 : bytes) (l2 : lease),
  c1 <> c2 ->
  In (c1, l1) (delegated ms (snd (prun st0 ms))) ->
  In (c2, l2) (delegated ms (snd (prun st0 ms))) ->
  v (ls_ip l1) + Bsz P <= v (ls_ip l2) \/ v (ls_ip l2) + Bsz P <= v (ls_ip l1).
Proof. exact (@PrefixTheorems.pd_disjoint_clients). Qed.
Print Assumptions pd_disjoint_clients.

Theorem pd_iapd_shape :
  forall (now : Z) (L P : N) (st : pstate) (c : bytes) (pds : list (bytes * list hint))
  (outs : list (bytes * list lease)) (st' : pstate),
  pinv st L P ->
  Forall (fun p : bytes * list hint => Forall wf_hint (snd p)) pds ->
  prefix_handle now st (Some c) pds = (st', PResp outs) -> map fst outs = map fst pds.
Proof. exact (@PrefixTheorems.pd_iapd_shape). Qed.
Print Assumptions pd_iapd_shape.

Theorem reachable_states_invariant :
  forall (L P : N) (ms : list pmsg) (st : pstate),
  pinv st L P ->
  Forall wf_pmsg ms ->
  let
  '(st', os) := prun st ms in
  pinv st' L P /\
  ~ In PPanic os /\
  static6 (ps_alloc st) (ps_alloc st') /\
  (forall (c0 : bytes) (l : lease),
  In l (precs_get c0 (ps_recs st)) -> In (key l) (map key (precs_get c0 (ps_recs st')))) /\
  (forall (c : bytes) (l : lease),
  In (c, l) (delegated ms os) -> In (key l) (map key (precs_get c (ps_recs st')))).
Proof. exact (@PrefixTheorems.prun_spec). Qed.
Print Assumptions reachable_states_invariant.

Theorem setup_invariant :
  forall (pip : bytes) (L P : N) (st0 : pstate),
  wf_ip16 pip /\ to4 pip = None /\ L <= P /\ P <= 128 /\ P - L < 64 /\ v pip mod Bsz L = 0 ->
  prefix_setup pip (cidr_bytes 16 L) (Z.of_N P) = Ok st0 ->
  pinv st0 L P /\ a6_ip (ps_alloc st0) = pip /\ ps_recs st0 = [].
Proof. exact (@PrefixTheorems.setup_pinv). Qed.
Print Assumptions setup_invariant.

Theorem extend_exp :
  forall (now : Z) (l : lease), (now + LEASE_NS <= ls_exp (extend now l))%Z.
Proof. exact (@PrefixTheorems.extend_exp). Qed.
Print Assumptions extend_exp.


(* Non-vacuity (proofs/PrefixExamples.v): pool 2001:db8::/62 in /64 blocks; client A is given
   2001:db8::/64 for a hint-less IA_PD, again for the retransmission and for the exact renewal;
   client B gets the next block; a message without client identifier is dropped *)
Example hypotheses_satisfiable :
  (prefix_setup px_pool (cidr_bytes 16 62) (Z.of_N 64) = Ok px_st0 /\
   (wf_ip16 px_pool /\ to4 px_pool = None /\ 62 <= 64 /\ 64 <= 128 /\ 64 - 62 < 64 /\ v px_pool mod Bsz 62 = 0)) /\
  Forall wf_pmsg px_ms /\
  map (fun o => match o with PResp outs => Some (map (fun p => (fst p, map ls_ip (snd p))) outs) | _ => None end) (snd (prun px_st0 px_ms)) =
  [Some [([0;0;0;1], [px_pool])];
   Some [([0;0;0;1], [[32;1;13;184;0;0;0;1;0;0;0;0;0;0;0;0]]); ([0;0;0;2], [[32;1;13;184;0;0;0;1;0;0;0;0;0;0;0;0]])];
   Some [([0;0;0;1], [px_pool])];
   Some [([0;0;0;7], [px_pool])];
   None].
Proof. exact (conj px_setup (conj px_wf px_run)). Qed.
