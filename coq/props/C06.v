(* C06 — Free releases exactly the named outstanding block, or fails without effect. *)
From Verif Require Import Base BaseProofs Net NetProofs Bitset IdxAlloc BitsetProofs Ipcalc IpcalcProofs IpcalcRun Alloc AllocRun Alloc4Proofs Alloc6Proofs AllocTheorems AllocExamples.
Open Scope N_scope.

Theorem free4_ok_iff :
  forall (s e : bytes) (a0 : a4),
  wf_bytes s ->
  wf_bytes e ->
  new4 s e = Ok a0 ->
  forall (ops : list aop) (i : nat) (pip pm : bytes),
  nth_error ops i = Some (OFree pip pm) ->
  let st := final4 a0 (firstn i ops) in
  let st' := final4 a0 (firstn (S i) ops) in
  (nth_error (run step4 a0 ops) i = Some (RFree (Ok tt)) <->
  (exists x : N, to_offset4 a0 pip = Ok x /\ In x (bits st))) /\
  (forall x : N,
  to_offset4 a0 pip = Ok x ->
  In x (bits st) -> forall j : N, In j (bits st') <-> j <> x /\ In j (bits st)) /\
  (nth_error (run step4 a0 ops) i <> Some (RFree (Ok tt)) ->
  st' = st /\
  (exists err : Base.err, nth_error (run step4 a0 ops) i = Some (RFree (Err err)))).
Proof. exact AllocTheorems.free4_ok_iff. Qed.
Print Assumptions free4_ok_iff.

Theorem to_offset4_iff :
  forall (s e : bytes) (a0 : a4),
  wf_bytes s ->
  wf_bytes e ->
  new4 s e = Ok a0 ->
  forall (ip : bytes) (x : N),
  to_offset4 a0 ip = Ok x <->
  (exists ip4 : bytes,
  to4 ip = Some ip4 /\
  a4_start a0 <= be_u32_of ip4 <= a4_end a0 /\ x = be_u32_of ip4 - a4_start a0).
Proof. exact AllocTheorems.to_offset4_iff. Qed.
Print Assumptions to_offset4_iff.

Theorem free6_ok_iff :
  forall (a0 : a6) (L P : N),
  valid6 a0 L P ->
  forall (ops : list aop) (i : nat) (pip pm : bytes),
  Forall wf_op ops ->
  nth_error ops i = Some (OFree pip pm) ->
  let st := final6 a0 (firstn i ops) in
  let st' := final6 a0 (firstn (S i) ops) in
  (nth_error (run step6 a0 ops) i = Some (RFree (Ok tt)) <->
  (exists x : N, free_idx6 a0 pip pm = Some x /\ In x (bits st))) /\
  (forall x : N,
  free_idx6 a0 pip pm = Some x ->
  In x (bits st) -> forall j : N, In j (bits st') <-> j <> x /\ In j (bits st)) /\
  (nth_error (run step6 a0 ops) i <> Some (RFree (Ok tt)) ->
  st' = st /\
  (exists err : Base.err, nth_error (run step6 a0 ops) i = Some (RFree (Err err)))).
Proof. exact AllocTheorems.free6_ok_iff. Qed.
Print Assumptions free6_ok_iff.

Theorem free_idx6_outside :
  forall (a0 : a6) (L P : N),
  valid6 a0 L P ->
  forall pip pm base : bytes,
  wf_bytes pip ->
  wf_bytes pm ->
  ip_mask pip pm = Some base ->
  ~ (length base = 16%nat /\ to4 base = None /\ v (a6_ip a0) <= v base < v (a6_ip a0) + Bsz L) ->
  free_idx6 a0 pip pm = None.
Proof. exact AllocTheorems.free_idx6_outside. Qed.
Print Assumptions free_idx6_outside.

Theorem free_idx6_inside :
  forall (a0 : a6) (L P : N),
  valid6 a0 L P ->
  forall (pip pm base : bytes) (x : N),
  wf_bytes pip ->
  wf_bytes pm ->
  ip_mask pip pm = Some base ->
  length base = 16%nat ->
  to4 base = None ->
  x < 2 ^ (P - L) ->
  v (blk_ip a0 P x) <= v base < v (blk_ip a0 P x) + Bsz P -> free_idx6 a0 pip pm = Some x.
Proof. exact AllocTheorems.free_idx6_inside. Qed.
Print Assumptions free_idx6_inside.


(* Non-vacuity: a concrete valid pool and a concrete non-trivial history meet the hypotheses
   (2001:db8:0:100::/56 in /64 blocks; 10.0.0.1-10.0.0.2), see proofs/AllocExamples.v *)
Example hypotheses_satisfiable :
  (new6 ex_pool (cidr_bytes 16 56) 64 = Ok ex_a6 /\ valid6 ex_a6 56 64) /\
  Forall wf_op ex_ops /\
  run step6 ex_a6 ex_ops =
    [RAlloc (Ok (blk 0, m64)); RFree (Ok tt); RAlloc (Ok (blk 0, m64));
     RAlloc (Ok (blk 7, cidr_bytes 16 72)); RFree (Err ENotInRange); RFree (Ok tt); RFree (Err EDoubleFree)] /\
  new4 [10;0;0;1] [10;0;0;2] = Ok ex_a4.
Proof. exact (conj ex_valid (conj ex_ops_wf (conj ex_run ex4_new))). Qed.
