(* Server4Proofs.v — theorems about HandleMsg4, the dispatch loop and LoadPlugins (C11, C13, C15) *)
From Verif Require Import Base BaseProofs Net Msg4 Chain ChainProofs Server4.
From Coq Require Import Lia ZifyN ZifyNat ZifyBool.
Open Scope N_scope.

(* ====================== HandleMsg4 (C11) ====================== *)
Definition start4 (req : msg4) : option msg4 :=
  if msg_type req =? 1 then Some (upd_opt (reply_stub req) 53 [2])
  else if msg_type req =? 3 then Some (upd_opt (reply_stub req) 53 [5]) else None.

Lemma handle4_unfold hs lif oob req : m_op req = 1 ->
  handle4 hs lif oob (Some req) =
  match start4 req with
  | None => (NoSend 3, [])
  | Some r0 =>
      let '(resp, log) := run_chain4 hs 0 req (Some r0) in
      match resp with
      | None => (NoSend 4, log)
      | Some rsp =>
          let '(ip, port, l2) := peer4 req rsp in
          let woob := if ip_equal ip bcast4 || is_link_local ip || l2 then pick_if lif oob else None in
          if l2 then match woob with None => (NoSend 5, log) | Some i => (Sent (DL2 i) rsp, log) end
          else (Sent (DUdp ip port woob) rsp, log)
      end
  end.
Proof.
  intros Hop. unfold handle4, start4. rewrite Hop. cbn [N.eqb Pos.eqb negb].
  destruct (msg_type req =? 1); [reflexivity|]. destruct (msg_type req =? 3); reflexivity.
Qed.

(* Nothing is ever sent except in answer to a datagram that parsed, is a BOOTREQUEST and
   carries message type DISCOVER or REQUEST - for any handlers, listener and control message;
   what is sent is the response returned last by the chain started on the reply stub. *)
Theorem reply4_only_to_requests hs lif oob parsed d m log :
  handle4 hs lif oob parsed = (Sent d m, log) ->
  exists req r0, parsed = Some req /\ m_op req = 1 /\ (msg_type req = 1 \/ msg_type req = 3) /\
                 start4 req = Some r0 /\ run_chain4 hs 0 req (Some r0) = (Some m, log).
Proof.
  intros H. destruct parsed as [req|]; [|discriminate].
  destruct (m_op req =? 1) eqn:Eop.
  2:{ unfold handle4 in H. rewrite Eop in H. discriminate. }
  apply N.eqb_eq in Eop. rewrite (handle4_unfold _ _ _ _ Eop) in H.
  destruct (start4 req) as [r0|] eqn:Es; [|discriminate].
  exists req, r0. split; [reflexivity|]. split; [exact Eop|]. split.
  - unfold start4 in Es. destruct (msg_type req =? 1) eqn:E1; [left; apply N.eqb_eq; exact E1|].
    destruct (msg_type req =? 3) eqn:E3; [right; apply N.eqb_eq; exact E3|discriminate].
  - split; [exact Es|]. destruct (run_chain4 hs 0 req (Some r0)) as [resp lg]. destruct resp as [rsp|]; [|discriminate].
    destruct (peer4 req rsp) as [[ip port] l2]. cbv zeta in H. destruct l2.
    + destruct (if ip_equal ip bcast4 || is_link_local ip || true then pick_if lif oob else None); [|discriminate].
      injection H as _ <- <-. reflexivity.
    + injection H as _ <- <-. reflexivity.
Qed.

(* all 256 opcodes and all message-type values: no reply unless opcode 1 and type 1 or 3 *)
Theorem no_reply_table hs lif oob req :
  (m_op req <> 1 \/ (msg_type req <> 1 /\ msg_type req <> 3)) ->
  exists why, fst (handle4 hs lif oob (Some req)) = NoSend why.
Proof.
  intros H. destruct (fst (handle4 hs lif oob (Some req))) as [d m|why] eqn:E; [|eexists; reflexivity].
  exfalso. destruct (handle4 hs lif oob (Some req)) as [o log] eqn:E2. cbn [fst] in E. subst o.
  destruct (reply4_only_to_requests _ _ _ _ _ _ _ E2) as (rq & r0 & Hp & Hop & Ht & _).
  injection Hp as <-. destruct H as [H|[H1 H3]]; [contradiction|]. destruct Ht; contradiction.
Qed.

Theorem unparsed_never_answered hs lif oob : handle4 hs lif oob None = (NoSend 1, []).
Proof. reflexivity. Qed.

(* the response handed to the first handler: BOOTREPLY with the request's xid, hardware type
   and address, flags and giaddr, options 82 and 61 echoed, OFFER for DISCOVER and ACK for REQUEST *)
Theorem reply4_stub req r0 : m_op req = 1 -> start4 req = Some r0 ->
  m_op r0 = 2 /\ m_xid r0 = m_xid req /\ m_htype r0 = m_htype req /\ m_chaddr r0 = m_chaddr req /\
  m_flags r0 = m_flags req /\ m_giaddr r0 = m_giaddr req /\
  m_ciaddr r0 = zero4 /\ m_yiaddr r0 = zero4 /\ m_siaddr r0 = zero4 /\
  opt_get 53 (m_opts r0) = Some [if msg_type req =? 1 then 2 else 5] /\
  (forall c, c = 61 \/ c = 82 -> opt_get c (m_opts r0) =
     match opt_get c (m_opts req) with Some (b :: v) => Some (b :: v) | _ => None end) /\
  (forall c, c <> 53 -> c <> 61 -> c <> 82 -> opt_get c (m_opts r0) = None).
Proof.
  intros Hop Hs. unfold start4 in Hs.
  assert (Hr : exists t, r0 = upd_opt (reply_stub req) 53 [t] /\ t = (if msg_type req =? 1 then 2 else 5)).
  { destruct (msg_type req =? 1); [exists 2; split; congruence|]. destruct (msg_type req =? 3); [exists 5; split; congruence|discriminate]. }
  destruct Hr as (t & -> & Ht). unfold upd_opt, reply_stub, set_opts. cbn [m_op m_xid m_htype m_chaddr m_flags m_giaddr m_ciaddr m_yiaddr m_siaddr m_opts].
  rewrite Hop. change (1 =? 1) with true. cbv iota.
  repeat (split; [reflexivity|]). split; [cbn [opt_update opt_get]; rewrite N.eqb_refl, <- Ht; reflexivity|].
  assert (G : forall c, c <> 53 -> opt_get c (opt_update 53 [t] (copy_opt 61 (m_opts req) (copy_opt 82 (m_opts req) []))) =
              opt_get c (copy_opt 61 (m_opts req) (copy_opt 82 (m_opts req) []))).
  { intros c Hc. cbn [opt_update opt_get]. destruct (53 =? c) eqn:E; [apply N.eqb_eq in E; congruence|].
    generalize (copy_opt 61 (m_opts req) (copy_opt 82 (m_opts req) [])). intros o.
    induction o as [|[k v] o IH]; cbn [opt_del opt_get]; [reflexivity|].
    destruct (k =? 53) eqn:E2; [rewrite IH; apply N.eqb_eq in E2; subst k; destruct (53 =? c) eqn:E3; [discriminate|reflexivity]|].
    cbn [opt_get]. destruct (k =? c); [reflexivity|exact IH]. }
  assert (D : forall c k (o : opts), c <> k -> opt_get c (opt_del k o) = opt_get c o).
  { intros c k o Hck. induction o as [|[k' v] o IH]; cbn [opt_del opt_get]; [reflexivity|].
    destruct (k' =? k) eqn:E1; [rewrite IH; apply N.eqb_eq in E1; subst k'; destruct (k =? c) eqn:E2; [apply N.eqb_eq in E2; congruence|reflexivity]|].
    cbn [opt_get]. destruct (k' =? c); [reflexivity|exact IH]. }
  split.
  - intros c Hc. rewrite G by (destruct Hc; subst; discriminate). unfold copy_opt.
    destruct Hc as [-> | ->].
    + destruct (opt_get 61 (m_opts req)) as [[|b v]|] eqn:E61.
      * destruct (opt_get 82 (m_opts req)) as [[|b2 v2]|]; cbn [opt_update opt_get N.eqb Pos.eqb]; reflexivity.
      * cbn [opt_update opt_get]. rewrite N.eqb_refl. reflexivity.
      * destruct (opt_get 82 (m_opts req)) as [[|b2 v2]|]; cbn [opt_update opt_get N.eqb Pos.eqb]; reflexivity.
    + destruct (opt_get 82 (m_opts req)) as [[|b v]|] eqn:E82;
      destruct (opt_get 61 (m_opts req)) as [[|b1 v1]|] eqn:E61; cbn [opt_update opt_get opt_del N.eqb Pos.eqb]; reflexivity.
  - intros c H53 H61 H82. rewrite G by exact H53. unfold copy_opt.
    assert (E61 : (61 =? c) = false) by (apply N.eqb_neq; congruence).
    assert (E82 : (82 =? c) = false) by (apply N.eqb_neq; congruence).
    destruct (opt_get 82 (m_opts req)) as [[|b v]|]; destruct (opt_get 61 (m_opts req)) as [[|b1 v1]|];
      repeat first [rewrite E61 | rewrite E82 | progress change (82 =? 61) with false | progress cbn [opt_update opt_get opt_del]];
      reflexivity.
Qed.

(* A handler preserves the reply header: it answers nil only together with stop, and otherwise
   keeps opcode, xid, hardware type/address, flags, giaddr and the echoed options, and keeps the
   reply type within {the type it was handed, NAK}. *)
Definition hdr_eq (a b : msg4) : Prop :=
  m_op a = m_op b /\ m_xid a = m_xid b /\ m_htype a = m_htype b /\ m_chaddr a = m_chaddr b /\
  m_flags a = m_flags b /\ m_giaddr a = m_giaddr b /\
  opt_get 61 (m_opts a) = opt_get 61 (m_opts b) /\ opt_get 82 (m_opts a) = opt_get 82 (m_opts b).

Definition type_ok (before after : msg4) : Prop :=
  msg_type after = msg_type before \/ msg_type after = 6.

Definition hdr_preserving (h : handler4) : Prop :=
  forall req r, match h req (Some r) with
                | (Some r', _) => hdr_eq r' r /\ type_ok r r'
                | (None, stop) => stop = true
                end.

Lemma opt_get_del_other c k (o : opts) : c <> k -> opt_get c (opt_del k o) = opt_get c o.
Proof.
  intros Hck. induction o as [|[k' v] o IH]; cbn [opt_del opt_get]; [reflexivity|].
  destruct (k' =? k) eqn:E1.
  - rewrite IH. apply N.eqb_eq in E1. subst k'. destruct (k =? c) eqn:E2; [apply N.eqb_eq in E2; congruence|reflexivity].
  - cbn [opt_get]. destruct (k' =? c); [reflexivity|exact IH].
Qed.

Lemma opt_get_update_other c k v (o : opts) : c <> k -> opt_get c (opt_update k v o) = opt_get c o.
Proof.
  intros Hck. unfold opt_update. cbn [opt_get]. destruct (k =? c) eqn:E; [apply N.eqb_eq in E; congruence|].
  apply opt_get_del_other. exact Hck.
Qed.

Lemma opt_get_update_same k v (o : opts) : opt_get k (opt_update k v o) = Some v.
Proof. unfold opt_update. cbn [opt_get]. rewrite N.eqb_refl. reflexivity. Qed.

Lemma hdr_eq_refl r : hdr_eq r r.
Proof. unfold hdr_eq. intuition. Qed.

(* updating any option other than 61/82 keeps the reply header *)
Lemma hdr_eq_upd r c v : c <> 61 -> c <> 82 -> hdr_eq (upd_opt r c v) r.
Proof.
  intros H61 H82. unfold hdr_eq, upd_opt, set_opts. cbn [m_op m_xid m_htype m_chaddr m_flags m_giaddr m_opts].
  rewrite !opt_get_update_other by congruence. intuition.
Qed.

Lemma msg_type_upd r c v : c <> 53 -> msg_type (upd_opt r c v) = msg_type r.
Proof. intros H. unfold msg_type, upd_opt, set_opts. cbn [m_opts]. rewrite opt_get_update_other by congruence. reflexivity. Qed.

Lemma msg_type_set r t : msg_type (upd_opt r 53 [t]) = t.
Proof. unfold msg_type, upd_opt, set_opts. cbn [m_opts]. rewrite opt_get_update_same. reflexivity. Qed.

Lemma hdr_eq_yi r ip : hdr_eq (set_yiaddr r ip) r /\ msg_type (set_yiaddr r ip) = msg_type r.
Proof. unfold hdr_eq, set_yiaddr, msg_type. cbn. intuition. Qed.

Lemma hdr_eq_si r ip : hdr_eq (set_siaddr r ip) r /\ msg_type (set_siaddr r ip) = msg_type r.
Proof. unfold hdr_eq, set_siaddr, msg_type. cbn. intuition. Qed.

Lemma hdr_eq_trans a b c : hdr_eq a b -> hdr_eq b c -> hdr_eq a c.
Proof. unfold hdr_eq. intuition congruence. Qed.

Lemma chain_preserves hs : Forall hdr_preserving hs -> forall k req r0 m log,
  run_chain4 hs k req (Some r0) = (Some m, log) ->
  hdr_eq m r0 /\ (msg_type m = msg_type r0 \/ msg_type m = 6).
Proof.
  induction hs as [|h hs IH]; intros F k req r0 m log H; cbn [run_chain] in H.
  - injection H as <- _. unfold hdr_eq. intuition.
  - pose proof (Forall_inv F req r0) as Hh. destruct (h req (Some r0)) as [[r1|] stop].
    + destruct Hh as (He & Ht). destruct stop.
      * injection H as <- _. split; [exact He|exact Ht].
      * destruct (run_chain4 hs (S k) req (Some r1)) as [r' lg] eqn:E. injection H as -> _.
        destruct (IH (Forall_inv_tail F) _ _ _ _ _ E) as (He2 & Ht2). split; [eapply hdr_eq_trans; eassumption|].
        destruct Ht2 as [Ht2|Ht2]; [|right; exact Ht2]. destruct Ht as [Ht|Ht]; [left|right]; congruence.
    + subst stop. discriminate H.
Qed.

(* Every reply produced through a chain of header-preserving handlers (all built-in plugins are;
   see the per-plugin lemmas) is a BOOTREPLY carrying the request's xid, hardware type and
   address, flags, giaddr, the echoed options 82/61, and is an OFFER for a DISCOVER and an ACK
   or NAK for a REQUEST. *)
Theorem reply4_matches_request hs lif oob req d m log : Forall hdr_preserving hs ->
  handle4 hs lif oob (Some req) = (Sent d m, log) ->
  m_op req = 1 /\ m_op m = 2 /\ m_xid m = m_xid req /\ m_htype m = m_htype req /\ m_chaddr m = m_chaddr req /\
  m_flags m = m_flags req /\ m_giaddr m = m_giaddr req /\
  (forall c, c = 61 \/ c = 82 -> opt_get c (m_opts m) =
     match opt_get c (m_opts req) with Some (b :: v) => Some (b :: v) | _ => None end) /\
  ((msg_type req = 1 /\ (msg_type m = 2 \/ msg_type m = 6)) \/ (msg_type req = 3 /\ (msg_type m = 5 \/ msg_type m = 6))).
Proof.
  intros F H. destruct (reply4_only_to_requests _ _ _ _ _ _ _ H) as (rq & r0 & Hp & Hop & Ht & Hs & Hc).
  injection Hp as <-. destruct (chain_preserves hs F _ _ _ _ _ Hc) as ((E1 & E2 & E3 & E4 & E5 & E6 & E7 & E8) & Hty).
  destruct (reply4_stub req r0 Hop Hs) as (S1 & S2 & S3 & S4 & S5 & S6 & _ & _ & _ & S10 & S11 & _).
  split; [exact Hop|]. split; [congruence|]. split; [congruence|]. split; [congruence|]. split; [congruence|].
  split; [congruence|]. split; [congruence|]. split.
  - intros c [-> | ->]; [rewrite E7|rewrite E8]; apply S11; auto.
  - assert (T0 : msg_type r0 = if msg_type req =? 1 then 2 else 5).
    { unfold msg_type at 1. rewrite S10. reflexivity. }
    destruct Ht as [Ht|Ht]; [left|right]; (split; [exact Ht|]); rewrite Ht in T0; cbn in T0; destruct Hty as [Hty|Hty]; [left|right|left|right]; congruence.
Qed.

(* ====================== destination (C15) ====================== *)
Section Dest.
Variables (hs : list handler4) (lif : Z) (oob : option Z) (req m : msg4) (log : list (nat * option msg4)).

(* relayed: to the relay agent on the server port *)
Theorem dest4_relay d : handle4 hs lif oob (Some req) = (Sent d m, log) ->
  is_unspecified (m_giaddr req) = false ->
  d = DUdp (m_giaddr req) 67%Z (if ip_equal (m_giaddr req) bcast4 || is_link_local (m_giaddr req) then pick_if lif oob else None).
Proof.
  intros H Hg. destruct (reply4_only_to_requests _ _ _ _ _ _ _ H) as (rq & r0 & Hp & Hop & _ & Hs & Hc).
  injection Hp as <-. rewrite (handle4_unfold _ _ _ _ Hop), Hs, Hc in H. unfold peer4 in H. rewrite Hg in H.
  cbn [negb orb] in H. rewrite Bool.orb_false_r in H. injection H as <-. reflexivity.
Qed.

(* not relayed, NAK: broadcast on the client port, pinned to the interface *)
Theorem dest4_nak d : handle4 hs lif oob (Some req) = (Sent d m, log) ->
  is_unspecified (m_giaddr req) = true -> msg_type m = 6 -> d = DUdp bcast4 68%Z (pick_if lif oob).
Proof.
  intros H Hg Hn. destruct (reply4_only_to_requests _ _ _ _ _ _ _ H) as (rq & r0 & Hp & Hop & _ & Hs & Hc).
  injection Hp as <-. rewrite (handle4_unfold _ _ _ _ Hop), Hs, Hc in H. unfold peer4 in H. rewrite Hg, Hn in H.
  cbn in H. injection H as <-. reflexivity.
Qed.

(* not relayed, not a NAK, ciaddr set: unicast to ciaddr on the client port *)
Theorem dest4_ciaddr d : handle4 hs lif oob (Some req) = (Sent d m, log) ->
  is_unspecified (m_giaddr req) = true -> msg_type m <> 6 -> is_unspecified (m_ciaddr req) = false ->
  d = DUdp (m_ciaddr req) 68%Z (if ip_equal (m_ciaddr req) bcast4 || is_link_local (m_ciaddr req) then pick_if lif oob else None).
Proof.
  intros H Hg Hn Hci. destruct (reply4_only_to_requests _ _ _ _ _ _ _ H) as (rq & r0 & Hp & Hop & _ & Hs & Hc).
  injection Hp as <-. rewrite (handle4_unfold _ _ _ _ Hop), Hs, Hc in H. unfold peer4 in H. rewrite Hg, Hci in H.
  apply N.eqb_neq in Hn. rewrite Hn in H. cbn [negb orb] in H. rewrite Bool.orb_false_r in H. injection H as <-. reflexivity.
Qed.

(* not relayed, not a NAK, no ciaddr, broadcast flag: broadcast on the client port, pinned *)
Theorem dest4_bflag d : handle4 hs lif oob (Some req) = (Sent d m, log) ->
  is_unspecified (m_giaddr req) = true -> msg_type m <> 6 -> is_unspecified (m_ciaddr req) = true ->
  is_broadcast req = true -> d = DUdp bcast4 68%Z (pick_if lif oob).
Proof.
  intros H Hg Hn Hci Hb. destruct (reply4_only_to_requests _ _ _ _ _ _ _ H) as (rq & r0 & Hp & Hop & _ & Hs & Hc).
  injection Hp as <-. rewrite (handle4_unfold _ _ _ _ Hop), Hs, Hc in H. unfold peer4 in H. rewrite Hg, Hci, Hb in H.
  apply N.eqb_neq in Hn. rewrite Hn in H. cbn in H. injection H as <-. reflexivity.
Qed.

(* otherwise: link-level unicast on the bound interface, else the receiving one; with neither
   known nothing is sent (and nothing panics) *)
Theorem dest4_l2 : m_op req = 1 -> forall r0, start4 req = Some r0 -> run_chain4 hs 0 req (Some r0) = (Some m, log) ->
  is_unspecified (m_giaddr req) = true -> msg_type m <> 6 -> is_unspecified (m_ciaddr req) = true ->
  is_broadcast req = false ->
  handle4 hs lif oob (Some req) =
  (match pick_if lif oob with Some i => Sent (DL2 i) m | None => NoSend 5 end, log).
Proof.
  intros Hop r0 Hs Hc Hg Hn Hci Hb. rewrite (handle4_unfold _ _ _ _ Hop), Hs, Hc. unfold peer4. rewrite Hg, Hci, Hb.
  apply N.eqb_neq in Hn. rewrite Hn. cbn [negb]. cbv zeta. rewrite !Bool.orb_true_r.
  destruct (pick_if lif oob); reflexivity.
Qed.

(* the port is the server port exactly for relayed requests, and a datagram is pinned to an
   interface exactly when its destination is broadcast or link-local *)
Theorem dest4_port_and_pin ip port ifx : handle4 hs lif oob (Some req) = (Sent (DUdp ip port ifx) m, log) ->
  (port = if is_unspecified (m_giaddr req) then 68%Z else 67%Z) /\
  ifx = (if ip_equal ip bcast4 || is_link_local ip then pick_if lif oob else None).
Proof.
  intros H. destruct (reply4_only_to_requests _ _ _ _ _ _ _ H) as (rq & r0 & Hp & Hop & _ & Hs & Hc).
  injection Hp as <-. rewrite (handle4_unfold _ _ _ _ Hop), Hs, Hc in H. unfold peer4 in H.
  destruct (is_unspecified (m_giaddr req)); cbn [negb] in H.
  - destruct (msg_type m =? 6).
    + injection H as <- <- <-. split; reflexivity.
    + destruct (is_unspecified (m_ciaddr req)); cbn [negb] in H.
      * destruct (is_broadcast req).
        -- injection H as <- <- <-. split; reflexivity.
        -- cbv zeta in H. rewrite !Bool.orb_true_r in H. destruct (pick_if lif oob); discriminate H.
      * cbv zeta in H. rewrite Bool.orb_false_r in H. injection H as <- <- <-. split; reflexivity.
  - cbv zeta in H. rewrite Bool.orb_false_r in H. injection H as <- <- <-. split; reflexivity.
Qed.
End Dest.

(* interface choice: the listener's interface when bound, else the receiving one, else none *)
Theorem pick_if_table lif oob :
  pick_if lif oob = (if (lif =? 0)%Z then match oob with Some i => if (i =? 0)%Z then None else Some i | None => None end else Some lif).
Proof. unfold pick_if. destruct (lif =? 0)%Z; cbn [negb]; [|reflexivity]. destruct oob as [i|]; [|reflexivity]. destruct (i =? 0)%Z; reflexivity. Qed.

(* every listener that listen4/listen6 builds knows, for every datagram, an interface to pin
   the reply to: its own when bound, else the receiving one from the control message *)
Theorem listener_always_has_interface zone rx : (forall i, zone = Some i -> i <> 0%Z) -> rx <> 0%Z ->
  let '(lif, cm) := listen_model zone in
  pick_if lif (rx_oob cm rx) = Some (match zone with Some i => i | None => rx end).
Proof.
  intros Hz Hrx. destruct zone as [i|]; cbn [listen_model rx_oob]; unfold pick_if.
  - specialize (Hz i eq_refl). destruct (i =? 0)%Z eqn:E; [apply Z.eqb_eq in E; contradiction|reflexivity].
  - cbn [Z.eqb negb]. destruct (rx =? 0)%Z eqn:E; [apply Z.eqb_eq in E; contradiction|reflexivity].
Qed.

Theorem l2_frame_fields resp : l2_frame resp =
  {| f_dst_mac := m_chaddr resp; f_src_ip := m_siaddr resp; f_dst_ip := m_yiaddr resp; f_sport := 67%Z; f_dport := 68%Z |}.
Proof. reflexivity. Qed.

(* ====================== LoadPlugins (C13) ====================== *)
Section Load.
Context {H4 H6 H : Type}.
Variable reg : list (plugin H4 H6).
Variable sel : plugin H4 H6 -> option (list bytes -> setup_res H).

Inductive loaded : list (bytes * list bytes) -> list H -> Prop :=
| L_nil : loaded [] []
| L_skip name args conf hs p : registry_get reg name = Some p -> sel p = None ->
    loaded conf hs -> loaded ((name, args) :: conf) hs
| L_take name args conf hs p f h : registry_get reg name = Some p -> sel p = Some f -> f args = SOk h ->
    loaded conf hs -> loaded ((name, args) :: conf) (h :: hs).

Definition bad_item (it : bytes * list bytes) : Prop :=
  match registry_get reg (fst it) with
  | None => True                                   (* unknown plugin name *)
  | Some p => match sel p with
              | None => False                      (* no setup for this protocol: skipped, not an error *)
              | Some f => match f (snd it) with SOk _ => False | _ => True end   (* failing setup *)
              end
  end.

(* the handlers instantiated are exactly the listed plugins that have a setup function for
   the protocol, in file order *)
Theorem load_list_ok conf hs : load_list reg sel conf = Some hs <-> loaded conf hs.
Proof.
  split.
  - revert hs. induction conf as [|[name args] conf IH]; intros hs Hl; cbn [load_list] in Hl.
    + injection Hl as <-. constructor.
    + destruct (registry_get reg name) as [p|] eqn:Er; [|discriminate].
      destruct (sel p) as [f|] eqn:Es.
      * destruct (f args) as [h| |] eqn:Ef; try discriminate.
        destruct (load_list reg sel conf) as [hs'|]; [|discriminate]. injection Hl as <-.
        eapply L_take; eauto.
      * eapply L_skip; eauto.
  - intros Hl. induction Hl as [|name args conf hs p Er Es Hl IH|name args conf hs p f h Er Es Ef Hl IH]; cbn [load_list].
    + reflexivity.
    + rewrite Er, Es. exact IH.
    + rewrite Er, Es, Ef, IH. reflexivity.
Qed.

(* start-up fails exactly when some listed item names an unknown plugin or its setup fails *)
Theorem load_list_err conf : load_list reg sel conf = None <-> Exists bad_item conf.
Proof.
  induction conf as [|[name args] conf IH]; cbn [load_list].
  - split; [discriminate|]. intros Hx. inversion Hx.
  - unfold bad_item at 1. split.
    + intros Hx. destruct (registry_get reg name) as [p|] eqn:Er; [|left; cbn [fst]; rewrite Er; exact I].
      destruct (sel p) as [f|] eqn:Es.
      * destruct (f args) as [h| |] eqn:Ef.
        -- right. apply IH. destruct (load_list reg sel conf); [discriminate|reflexivity].
        -- left. unfold bad_item. cbn [fst snd]. rewrite Er, Es, Ef. exact I.
        -- left. unfold bad_item. cbn [fst snd]. rewrite Er, Es, Ef. exact I.
      * right. apply IH. exact Hx.
    + intros Hx. inversion Hx as [? ? Hb|? ? Hb]; subst.
      * unfold bad_item in Hb. cbn [fst snd] in Hb. destruct (registry_get reg name) as [p|]; [|reflexivity].
        destruct (sel p) as [f|]; [|contradiction]. destruct (f args); [contradiction|reflexivity|reflexivity].
      * apply IH in Hb. destruct (registry_get reg name) as [p|]; [|reflexivity].
        destruct (sel p) as [f|]; [|exact Hb]. destruct (f args); [rewrite Hb; reflexivity|reflexivity|reflexivity].
Qed.
End Load.

(* LoadPlugins as a whole: both lists load, DHCPv6 first; no section at all is an error *)
Theorem load_plugins_exact {H4 H6} (reg : list (plugin H4 H6)) c6 c4 h4 h6 :
  load_plugins reg c6 c4 = Some (h4, h6) <->
  (c6 <> None \/ c4 <> None) /\
  match c6 with Some l => loaded reg p_setup6 l h6 | None => h6 = [] end /\
  match c4 with Some l => loaded reg p_setup4 l h4 | None => h4 = [] end.
Proof.
  unfold load_plugins. destruct c6 as [l6|], c4 as [l4|].
  - destruct (load_list reg p_setup6 l6) as [x6|] eqn:E6.
    + destruct (load_list reg p_setup4 l4) as [x4|] eqn:E4.
      * split.
        -- intros H. injection H as <- <-. split; [left; discriminate|]. split; apply load_list_ok; assumption.
        -- intros (_ & L6 & L4). apply load_list_ok in L6, L4. congruence.
      * split; [discriminate|]. intros (_ & _ & L4). apply load_list_ok in L4. congruence.
    + split; [discriminate|]. intros (_ & L6 & _). apply load_list_ok in L6. congruence.
  - destruct (load_list reg p_setup6 l6) as [x6|] eqn:E6.
    + split.
      * intros H. injection H as <- <-. split; [left; discriminate|]. split; [apply load_list_ok; assumption|reflexivity].
      * intros (_ & L6 & ->). apply load_list_ok in L6. congruence.
    + split; [discriminate|]. intros (_ & L6 & _). apply load_list_ok in L6. congruence.
  - destruct (load_list reg p_setup4 l4) as [x4|] eqn:E4.
    + split.
      * intros H. injection H as <- <-. split; [right; discriminate|]. split; [reflexivity|apply load_list_ok; assumption].
      * intros (_ & -> & L4). apply load_list_ok in L4. congruence.
    + split; [discriminate|]. intros (_ & _ & L4). apply load_list_ok in L4. congruence.
  - split; [discriminate|]. intros ([H|H] & _); congruence.
Qed.
