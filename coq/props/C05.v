(* C05 — Allocations lie in the pool, have the right size, and capacity is exact. *)
From Verif Require Import Base BaseProofs Net NetProofs Bitset IdxAlloc BitsetProofs Ipcalc IpcalcProofs IpcalcRun Alloc AllocRun Alloc4Proofs Alloc6Proofs AllocTheorems AllocExamples.
Open Scope N_scope.

Theorem alloc4_in_range :
  forall (s e : bytes) (a0 : a4),
  wf_bytes s ->
  wf_bytes e ->
  new4 s e = Ok a0 ->
  forall (ops : list aop) (i : nat) (ip m : bytes),
  nth_error (run step4 a0 ops) i = Some (RAlloc (Ok (ip, m))) ->
  m = mask32 /\ length ip = 4%nat /\ wf_bytes ip /\ a4_start a0 <= be_val ip <= a4_end a0.
Proof. exact AllocTheorems.alloc4_in_range. Qed.
Print Assumptions alloc4_in_range.

Theorem alloc4_fails_iff_full :
  forall (s e : bytes) (a0 : a4),
  wf_bytes s ->
  wf_bytes e ->
  new4 s e = Ok a0 ->
  forall (ops : list aop) (i : nat) (hip hm : bytes),
  nth_error ops i = Some (OAlloc hip hm) ->
  let outstanding := bits (final4 a0 (firstn i ops)) in
  (N.of_nat (length outstanding) = n4 a0 <->
  nth_error (run step4 a0 ops) i = Some (RAlloc (Err ENoAddr))) /\
  (N.of_nat (length outstanding) <> n4 a0 ->
  exists ip : bytes, nth_error (run step4 a0 ops) i = Some (RAlloc (Ok (ip, mask32)))) /\
  (nth_error (run step4 a0 ops) i = Some (RAlloc (Err ENoAddr)) ->
  final4 a0 (firstn (S i) ops) = final4 a0 (firstn i ops)).
Proof. exact AllocTheorems.alloc4_fails_iff_full. Qed.
Print Assumptions alloc4_fails_iff_full.

Theorem alloc6_shape :
  forall (a0 : a6) (L P : N),
  valid6 a0 L P ->
  forall (ops : list aop) (i : nat) (ip m : bytes),
  Forall wf_op ops ->
  nth_error (run step6 a0 ops) i = Some (RAlloc (Ok (ip, m))) ->
  exists (x : N) (hip hm : bytes),
  nth_error ops i = Some (OAlloc hip hm) /\
  x < 2 ^ (P - L) /\
  ip = blk_ip a0 P x /\
  v ip = v (a6_ip a0) + x * Bsz P /\
  m = req_mask a0 hm /\ ~ In x (bits (final6 a0 (firstn i ops))).
Proof. exact AllocTheorems.alloc6_shape. Qed.
Print Assumptions alloc6_shape.

Theorem alloc6_fails_iff_full :
  forall (a0 : a6) (L P : N),
  valid6 a0 L P ->
  forall (ops : list aop) (i : nat) (hip hm : bytes),
  Forall wf_op ops ->
  nth_error ops i = Some (OAlloc hip hm) ->
  let outstanding := bits (final6 a0 (firstn i ops)) in
  (N.of_nat (length outstanding) = 2 ^ (P - L) <->
  nth_error (run step6 a0 ops) i = Some (RAlloc (Err ENoAddr))) /\
  (N.of_nat (length outstanding) <> 2 ^ (P - L) ->
  exists x : N,
  nth_error (run step6 a0 ops) i = Some (RAlloc (Ok (blk_ip a0 P x, req_mask a0 hm)))) /\
  (nth_error (run step6 a0 ops) i = Some (RAlloc (Err ENoAddr)) ->
  final6 a0 (firstn (S i) ops) = final6 a0 (firstn i ops)).
Proof. exact AllocTheorems.alloc6_fails_iff_full. Qed.
Print Assumptions alloc6_fails_iff_full.

Theorem new6_valid :
  forall (pip : bytes) (L P : N),
  wf_ip16 pip ->
  to4 pip = None ->
  L <= P ->
  P <= 128 ->
  P - L < 64 ->
  v pip mod Bsz L = 0 ->
  exists a : a6,
  new6 pip (cidr_bytes 16 L) (Z.of_N P) = Ok a /\ valid6 a L P /\ bits (a6_bm a) = [].
Proof. exact Alloc6Proofs.new6_valid. Qed.
Print Assumptions new6_valid.

Theorem new4_inv :
  forall (s e : bytes) (a : a4), wf_bytes s -> wf_bytes e -> new4 s e = Ok a -> ainv4 a.
Proof. exact Alloc4Proofs.new4_inv. Qed.
Print Assumptions new4_inv.


(* Non-vacuity: a concrete valid pool and a concrete non-trivial history meet the hypotheses
   (2001:db8:0:100::/56 in /64 blocks; 10.0.0.1-10.0.0.2), see proofs/AllocExamples.v *)
Example hypotheses_satisfiable :
  (new6 ex_pool (cidr_bytes 16 56) 64 = Ok ex_a6 /\ valid6 ex_a6 56 64) /\
  Forall wf_op ex_ops /\
  run step6 ex_a6 ex_ops =
    [RAlloc (Ok (blk 0, m64)); RFree (Ok tt); RAlloc (Ok (blk 0, m64));
     RAlloc (Ok (blk 7, cidr_bytes 16 72)); RFree (Err ENotInRange); RFree (Ok tt); RFree (Err EDoubleFree)] /\
  new4 [10;0;0;1] [10;0;0;2] = Ok ex_a4.
Proof. exact (conj ex_valid (conj ex_ops_wf (conj ex_run ex4_new))). Qed.
