(* PrefixTheorems.v — C08 and C09 over every history of messages *)
From Verif Require Import Base BaseProofs Net NetProofs Bitset IdxAlloc BitsetProofs Ipcalc IpcalcProofs IpcalcRun Alloc AllocRun Alloc6Proofs AllocTheorems PrefixPlugin PrefixProofs.
From Coq Require Import Lia ZifyN ZifyNat ZifyBool.
Open Scope N_scope.

(* ---------- records ---------- *)
Lemma precs_get_set_same k v l : precs_get k (precs_set k v l) = v.
Proof.
  induction l as [|[k' v'] l IH]; cbn [precs_set precs_get].
  - rewrite (proj2 (bytes_eqb_eq k k) eq_refl). reflexivity.
  - destruct (bytes_eqb k' k) eqn:E; cbn [precs_get]; [rewrite (proj2 (bytes_eqb_eq k k) eq_refl); reflexivity|rewrite E; exact IH].
Qed.

Lemma precs_get_set_other k k' v l : k' <> k -> precs_get k' (precs_set k v l) = precs_get k' l.
Proof.
  intros H. induction l as [|[k0 v0] l IH]; cbn [precs_set precs_get].
  - destruct (bytes_eqb k k') eqn:E; [apply bytes_eqb_eq in E; congruence|reflexivity].
  - destruct (bytes_eqb k0 k) eqn:E; cbn [precs_get].
    + apply bytes_eqb_eq in E. subst k0. destruct (bytes_eqb k k') eqn:E2; [apply bytes_eqb_eq in E2; congruence|reflexivity].
    + destruct (bytes_eqb k0 k'); [reflexivity|exact IH].
Qed.

(* ---------- the state invariant ---------- *)
Record pinv (st : pstate) (L P : N) : Prop := {
  pi_valid : valid6 (ps_alloc st) L P;
  pi_in : forall c l, In l (precs_get c (ps_recs st)) -> lease_in (ps_alloc st) P l;
  pi_disj : forall c1 c2 l1 l2, c1 <> c2 -> In l1 (precs_get c1 (ps_recs st)) -> In l2 (precs_get c2 (ps_recs st)) ->
            ls_ip l1 <> ls_ip l2 }.

Lemma lease_in_key a P l l' : key l = key l' -> lease_in a P l -> lease_in a P l'.
Proof. unfold key, lease_in. intros E (x & H1 & H2 & hm & H3). injection E as E1 E2. exists x. rewrite <- E1, <- E2. eauto. Qed.

Lemma In_key_exists (l : lease) ls : In (key l) (map key ls) -> exists l', In l' ls /\ key l' = key l.
Proof. intros H. apply in_map_iff in H. destruct H as (l' & E & Hin). eauto. Qed.

(* ---------- one IA_PD ---------- *)
Definition default_hints (hints : list hint) : list hint := match hints with [] => [Some ([], [])] | _ => hints end.

Lemma default_hints_wf hints : Forall wf_hint hints -> Forall wf_hint (default_hints hints).
Proof. intros F. destruct hints; [repeat constructor|exact F]. Qed.

Lemma one_iapd_spec now L P st c hints : pinv st L P -> Forall wf_hint hints ->
  exists st' out, one_iapd now st c hints = Ok (st', out) /\ pinv st' L P /\
    static6 (ps_alloc st) (ps_alloc st') /\
    (forall x, In x (bits (a6_bm (ps_alloc st))) -> In x (bits (a6_bm (ps_alloc st')))) /\
    (forall c', c' <> c -> precs_get c' (ps_recs st') = precs_get c' (ps_recs st)) /\
    (exists news, map key (precs_get c (ps_recs st')) = map key (precs_get c (ps_recs st)) ++ map key news) /\
    (forall l, In l out -> In (key l) (map key (precs_get c (ps_recs st')))) /\
    (forall h l, In h (default_hints hints) -> In l (precs_get c (ps_recs st)) -> same_prefix h l = true -> In (key l) (map key out)).
Proof.
  intros [V Hin Hdj] Wf. unfold one_iapd.
  change (match hints with [] => [Some ([], [])] | _ :: _ => hints end) with (default_hints hints). cbv zeta.
  set (hs := default_hints hints). set (known := precs_get c (ps_recs st)).
  set (w0 := {| w_leases := known; w_given := repeat false (length known); w_out := [] |}).
  destruct (exact_loop_spec now hs w0) as (e1 & W1 & L1 & M1).
  destruct (exact_loop now hs w0) as [w1 sat1]. cbn [fst snd] in *.
  destruct (empty_loop_spec now hs sat1 (count_empty hs sat1) w1) as (e2 & W2).
  destruct (empty_loop now hs sat1 (count_empty hs sat1) w1) as [w2 sat2]. cbn [fst] in *.
  pose proof (wstep_trans _ _ _ _ _ W1 W2) as (K2 & _ & O2 & F2). cbn [w_leases w_out app] in K2, O2, F2.
  pose proof (alloc_loop_spec now L P hs sat2 (ps_alloc st) w2 false V (default_hints_wf _ Wf)) as A.
  destruct (alloc_loop now hs sat2 (ps_alloc st) w2 false) as [[[a' w3] new']|e|]; try contradiction.
  destruct A as (V' & S' & Hb' & news & E1 & E2 & _ & Fn & _ & Nd).
  eexists. eexists. split; [reflexivity|].
  assert (Kall : map key (w_leases w3) = map key known ++ map key news) by (rewrite E1, map_app, K2; reflexivity).
  (* the record of the client after the call *)
  set (recs' := match w_leases w3 with [] => ps_recs st | ls => precs_set c ls (ps_recs st) end).
  assert (Gc : map key (precs_get c recs') = map key (w_leases w3)).
  { unfold recs'. destruct (w_leases w3) as [|l0 ls] eqn:E3; [|rewrite precs_get_set_same; reflexivity].
    fold known. cbn [map] in Kall. symmetry in Kall. apply app_eq_nil in Kall. destruct Kall as [Kn _]. rewrite Kn. reflexivity. }
  assert (Go : forall c', c' <> c -> precs_get c' recs' = precs_get c' (ps_recs st)).
  { intros c' Hc. unfold recs'. destruct (w_leases w3); [reflexivity|apply precs_get_set_other; exact Hc]. }
  (* every lease of the client afterwards is an old one (by key) or a new one *)
  assert (Hsplit : forall l, In l (precs_get c recs') -> (exists l0, In l0 known /\ key l0 = key l) \/ In (key l) (map key news)).
  { intros l Hl. assert (Hk : In (key l) (map key (precs_get c recs'))) by (apply in_map; exact Hl).
    rewrite Gc, Kall, in_app_iff in Hk. destruct Hk as [Hk|Hk]; [left; apply In_key_exists; exact Hk|right; exact Hk]. }
  assert (Hnew_in : forall l, In (key l) (map key news) -> lease_in a' P l /\ (forall x, ls_ip l = blk_ip (ps_alloc st) P x -> ~ In x (bits (a6_bm (ps_alloc st))))).
  { intros l Hk. apply In_key_exists in Hk. destruct Hk as (l' & Hl' & Ek). rewrite Forall_forall in Fn. destruct (Fn l' Hl') as (A1 & A2 & _).
    split; [eapply lease_in_key; eauto|]. intros x Ex. apply A2. unfold key in Ek. injection Ek as Ek _. congruence. }
  split; [|split; [exact S'|split; [exact Hb'|split; [exact Go|split; [exists news; cbn [ps_recs]; rewrite Gc; exact Kall|split]]]]].
  - (* invariant *)
    constructor; cbn [ps_alloc ps_recs]; [exact V'| |].
    + intros c0 l Hl. destruct (list_eq_dec N.eq_dec c0 c) as [->|Hc].
      * destruct (Hsplit l Hl) as [(l0 & Hl0 & Ek)|Hk].
        -- eapply lease_in_key; [exact Ek|]. eapply lease_in_mono; [exact S'|exact Hb'|apply (Hin c); exact Hl0].
        -- apply Hnew_in; exact Hk.
      * rewrite (Go c0 Hc) in Hl. eapply lease_in_mono; [exact S'|exact Hb'|apply (Hin c0); exact Hl].
    + intros c1 c2 l1 l2 Hne H1 H2.
      assert (Hold_new : forall lo ln co, In lo (precs_get co (ps_recs st)) -> In (key ln) (map key news) -> ls_ip lo <> ls_ip ln).
      { intros lo ln co Hlo Hln Eq. destruct (Hin co lo Hlo) as (x & Ex & Hx & _). destruct (Hnew_in ln Hln) as (_ & Hfresh).
        apply (Hfresh x); [congruence|exact Hx]. }
      destruct (list_eq_dec N.eq_dec c1 c) as [->|Hc1]; destruct (list_eq_dec N.eq_dec c2 c) as [->|Hc2]; try congruence.
      * rewrite (Go c2 Hc2) in H2. destruct (Hsplit l1 H1) as [(l0 & Hl0 & Ek)|Hk].
        -- unfold key in Ek. injection Ek as Ek _. rewrite <- Ek. apply (Hdj c c2); assumption.
        -- intros Eq. apply (Hold_new l2 l1 c2 H2 Hk). congruence.
      * rewrite (Go c1 Hc1) in H1. destruct (Hsplit l2 H2) as [(l0 & Hl0 & Ek)|Hk].
        -- unfold key in Ek. injection Ek as Ek _. rewrite <- Ek. apply (Hdj c1 c); assumption.
        -- apply (Hold_new l1 l2 c1 H1 Hk).
      * rewrite (Go c1 Hc1) in H1. rewrite (Go c2 Hc2) in H2. apply (Hdj c1 c2); assumption.
  - (* remembered *)
    cbn [ps_recs]. intros l Hl. rewrite Gc, Kall, in_app_iff. rewrite E2, O2, in_app_iff in Hl. destruct Hl as [Hl|Hl].
    + left. rewrite Forall_forall in F2. apply F2. exact Hl.
    + right. apply in_map. exact Hl.
  - (* renew exact *)
    intros h l Hh Hl Hs. rewrite E2, O2, !map_app, !in_app_iff. left. right. left. apply (M1 h l Hh Hl Hs).
Qed.

(* ---------- a hint-less IA_PD of a known client ---------- *)
Lemma exact_inner_nohit now h : forall fuel li w, (forall l, In l (w_leases w) -> same_prefix h l = false) ->
  exact_inner now h w li fuel = (w, false).
Proof.
  induction fuel as [|f IH]; intros li w H; cbn [exact_inner]; [reflexivity|].
  destruct (nth_error (w_leases w) li) as [l0|] eqn:E; [|reflexivity].
  rewrite (H l0 (nth_error_In _ _ E)). rewrite (IH (S li) w H). reflexivity.
Qed.

Lemma skipn_nth_error {A} (l : list A) n x : nth_error l n = Some x -> skipn n l = x :: skipn (S n) l.
Proof.
  revert n. induction l as [|y l IH]; intros n H; [destruct n; discriminate|].
  destruct n; cbn [nth_error skipn] in *; [congruence|]. rewrite (IH n H). destruct l; reflexivity.
Qed.

Lemma empty_inner_all now h : match h with Some (_, hm) => ones_of hm = 0%Z | None => True end ->
  forall fuel li w, (li + fuel = length (w_leases w))%nat -> (forall j, (li <= j)%nat -> nth j (w_given w) false = false) ->
  map key (w_out (fst (empty_inner now h false w li fuel))) = map key (w_out w) ++ skipn li (map key (w_leases w)) /\
  map key (w_leases (fst (empty_inner now h false w li fuel))) = map key (w_leases w) /\
  (snd (empty_inner now h false w li fuel) = true <-> fuel <> 0%nat).
Proof.
  intros Hh. induction fuel as [|f IH]; intros li w Hlen Hg; cbn [empty_inner].
  - cbn [fst snd]. rewrite skipn_all2 by (rewrite map_length; lia). rewrite app_nil_r. split; [reflexivity|]. split; [reflexivity|]. split; [discriminate|congruence].
  - destruct (nth_error (w_leases w) li) as [l0|] eqn:E.
    2:{ apply nth_error_None in E. lia. }
    assert (Hskip : (nth li (w_given w) false || match h with
                      | Some (_, hm) => negb (ones_of hm =? 0)%Z && negb (ones_of hm =? ones_of (ls_mask l0))%Z
                      | None => false end) = false).
    { rewrite (Hg li (Nat.le_refl _)). destruct h as [[hi hm]|]; [rewrite Hh; reflexivity|reflexivity]. }
    rewrite Hskip. destruct (give_spec now w li l0 E) as (G1 & G2 & G3 & G4).
    assert (Hlen' : (S li + f = length (w_leases (give now w li)))%nat).
    { rewrite <- (map_length key (w_leases (give now w li))), G1, map_length. lia. }
    assert (Hg' : forall j, (S li <= j)%nat -> nth j (w_given (give now w li)) false = false).
    { intros j Hj. rewrite G4 by lia. apply Hg. lia. }
    destruct (IH (S li) (give now w li) Hlen' Hg') as (I1 & I2 & I3).
    destruct (empty_inner now h false (give now w li) (S li) f) as [w2 hit2]. cbn [fst snd] in *.
    split; [|split; [congruence|split; [discriminate|reflexivity]]].
    rewrite I1, G3, G1, map_app. cbn [map]. rewrite key_extend, <- app_assoc. cbn [app]. f_equal.
    symmetry. apply skipn_nth_error. rewrite nth_error_map, E. reflexivity.
Qed.

Lemma ip_equal_nil16 x : length x = 16%nat -> ip_equal [] x = false.
Proof. intros L. unfold ip_equal, lenb. cbn [length]. rewrite L. reflexivity. Qed.

Lemma blk_ip_length a P x : length (blk_ip a P x) = 16%nat.
Proof. unfold blk_ip. apply be_bytes_length. Qed.

(* A client that holds leases and sends an IA_PD without any IAPrefix option, or with an IAPrefix
   of length 0 (::/0, decoded to the nil prefix), is answered with exactly the prefixes it holds,
   in order, and the allocator is not touched. *)
Definition one_iapd' (now : Z) (st : pstate) (client : bytes) (hs : list hint) : res (pstate * list lease) :=
  let known := precs_get client (ps_recs st) in
  let w0 := {| w_leases := known; w_given := repeat false (length known); w_out := [] |} in
  let '(w1, sat1) := exact_loop now hs w0 in
  let '(w2, sat2) := empty_loop now hs sat1 (count_empty hs sat1) w1 in
  match alloc_loop now hs sat2 (ps_alloc st) w2 false with
  | Panic => Panic
  | Err e => Err e
  | Ok (a', w3, new) =>
      Ok ({| ps_alloc := a'; ps_recs := match w_leases w3 with [] => ps_recs st | ls => precs_set client ls (ps_recs st) end |}, w_out w3)
  end.

Lemma one_iapd_default now st c hints : one_iapd now st c hints = one_iapd' now st c (default_hints hints).
Proof. reflexivity. Qed.

Lemma one_iapd_hintless now L P st c hints : pinv st L P -> hints = [] \/ hints = [None] ->
  precs_get c (ps_recs st) <> [] ->
  exists st' out, one_iapd now st c hints = Ok (st', out) /\ ps_alloc st' = ps_alloc st /\
    map key out = map key (precs_get c (ps_recs st)) /\
    map key (precs_get c (ps_recs st')) = map key (precs_get c (ps_recs st)) /\
    (forall c', c' <> c -> precs_get c' (ps_recs st') = precs_get c' (ps_recs st)).
Proof.
  intros [V Hin Hdj] Hh Hne. rewrite one_iapd_default.
  assert (Hd : exists h0, default_hints hints = [h0] /\ (h0 = Some ([], []) \/ h0 = None)).
  { destruct Hh as [-> | ->]; eexists; (split; [reflexivity|]); [left|right]; reflexivity. }
  destruct Hd as (h0 & -> & Hh0). unfold one_iapd'. cbv zeta.
  set (known := precs_get c (ps_recs st)) in *.
  set (w0 := {| w_leases := known; w_given := repeat false (length known); w_out := [] |}).
  assert (Hno : forall l, In l (w_leases w0) -> same_prefix h0 l = false).
  { intros l Hl. destruct (Hin c l Hl) as (x & Ex & _). destruct Hh0 as [-> | ->]; cbn [same_prefix]; [|reflexivity].
    rewrite ip_equal_nil16; [reflexivity|]. rewrite Ex. apply blk_ip_length. }
  cbn [exact_loop]. rewrite (exact_inner_nohit now h0 _ 0%nat w0 Hno). cbn [exact_loop].
  assert (Hcnt : count_empty [h0] [false] = 1%nat).
  { unfold count_empty. cbn [combine filter fst snd orb]. destruct Hh0 as [-> | ->]; reflexivity. }
  rewrite Hcnt. cbn [empty_loop orb pred Nat.ltb Nat.leb].
  assert (Hempty : empty_hint h0 = true) by (destruct Hh0 as [-> | ->]; reflexivity).
  rewrite Hempty. cbn [negb].
  assert (Hfilter : match h0 with Some (_, hm) => ones_of hm = 0%Z | None => True end).
  { destruct Hh0 as [-> | ->]; [reflexivity|exact I]. }
  destruct (empty_inner_all now h0 Hfilter (length (w_leases w0)) 0%nat w0 eq_refl) as (O1 & K1 & H1).
  { intros j _. cbn [w0 w_given]. clear. revert j. induction (length known) as [|n IH]; intros j; [destruct j; reflexivity|].
    destruct j; cbn [repeat nth]; [reflexivity|apply IH]. }
  destruct (empty_inner now h0 false w0 0 (length (w_leases w0))) as [w1 hit] eqn:E1. cbn [fst snd] in *.
  assert (hit = true) as ->.
  { apply H1. cbn [w0 w_leases]. destruct known; [contradiction|discriminate]. }
  cbn [empty_loop alloc_loop]. eexists. eexists. split; [reflexivity|]. cbn [ps_alloc ps_recs].
  split; [reflexivity|]. cbn [w0 w_out w_leases map app skipn] in O1, K1.
  split; [exact O1|].
  destruct (w_leases w1) as [|l1 ls1] eqn:E2.
  - exfalso. cbn [map] in K1. destruct known; [contradiction|discriminate].
  - split; [rewrite precs_get_set_same; exact K1|]. intros c' Hc. apply precs_get_set_other. exact Hc.
Qed.

(* ---------- a whole message ---------- *)
Lemma all_iapds_spec now L P c : forall pds st, pinv st L P -> Forall (fun p => Forall wf_hint (snd p)) pds ->
  exists st' outs, all_iapds now st c pds = Ok (st', outs) /\ pinv st' L P /\ map fst outs = map fst pds /\
    static6 (ps_alloc st) (ps_alloc st') /\
    (forall x, In x (bits (a6_bm (ps_alloc st))) -> In x (bits (a6_bm (ps_alloc st')))) /\
    (forall c', c' <> c -> precs_get c' (ps_recs st') = precs_get c' (ps_recs st)) /\
    (exists news, map key (precs_get c (ps_recs st')) = map key (precs_get c (ps_recs st)) ++ news) /\
    (forall iaid out l, In (iaid, out) outs -> In l out -> In (key l) (map key (precs_get c (ps_recs st')))).
Proof.
  induction pds as [|[iaid hints] pds IH]; intros st I F; cbn [all_iapds].
  - exists st, []. split; [reflexivity|]. split; [exact I|]. split; [reflexivity|]. split; [repeat split|]. split; [auto|].
    split; [auto|]. split; [exists []; rewrite app_nil_r; reflexivity|]. intros ? ? ? [].
  - destruct (one_iapd_spec now L P st c hints I (Forall_inv F)) as (st1 & out & E1 & I1 & S1 & B1 & O1 & (n1 & N1) & R1 & _).
    rewrite E1. destruct (IH st1 I1 (Forall_inv_tail F)) as (st2 & outs & E2 & I2 & M2 & S2 & B2 & O2 & (n2 & N2) & R2).
    rewrite E2. exists st2, ((iaid, out) :: outs). split; [reflexivity|]. split; [exact I2|]. split; [cbn [map fst]; f_equal; exact M2|].
    split; [destruct S1 as (A1 & A2 & A3); destruct S2 as (C1 & C2 & C3); unfold static6; repeat split; congruence|].
    split; [auto|]. split; [intros c' Hc; rewrite (O2 c' Hc); apply O1; exact Hc|].
    split; [exists (map key n1 ++ n2); rewrite N2, N1, app_assoc; reflexivity|].
    intros i o l [Hin|Hin] Hl.
    + injection Hin as <- <-. rewrite N2, in_app_iff. left. apply R1. exact Hl.
    + eapply R2; eassumption.
Qed.

(* ---------- histories ---------- *)
Inductive pmsg := PMsg (now : Z) (client : option bytes) (pds : list (bytes * list hint)).

Definition wf_pmsg (m : pmsg) : Prop :=
  match m with PMsg _ _ pds => Forall (fun p => Forall wf_hint (snd p)) pds end.

Fixpoint prun (st : pstate) (ms : list pmsg) : pstate * list pd_out :=
  match ms with
  | [] => (st, [])
  | PMsg now c pds :: ms' => let '(st1, o) := prefix_handle now st c pds in
                             let '(st2, os) := prun st1 ms' in (st2, o :: os)
  end.

(* the (client, delegated lease) pairs of the replies of a history *)
Fixpoint delegated (ms : list pmsg) (os : list pd_out) : list (bytes * lease) :=
  match ms, os with
  | PMsg _ (Some c) _ :: ms', PResp outs :: os' => map (fun l => (c, l)) (flat_map snd outs) ++ delegated ms' os'
  | _ :: ms', _ :: os' => delegated ms' os'
  | _, _ => []
  end.

Lemma handle_spec now L P st c pds : pinv st L P -> Forall (fun p => Forall wf_hint (snd p)) pds ->
  let '(st', o) := prefix_handle now st c pds in
  pinv st' L P /\ o <> PPanic /\ static6 (ps_alloc st) (ps_alloc st') /\
  (forall c0 l, In l (precs_get c0 (ps_recs st)) -> In (key l) (map key (precs_get c0 (ps_recs st')))) /\
  match c, o with
  | None, PDrop => st' = st
  | Some cl, PResp outs => map fst outs = map fst pds /\
      (forall l, In l (flat_map snd outs) -> In (key l) (map key (precs_get cl (ps_recs st'))))
  | _, _ => False
  end.
Proof.
  intros I F. unfold prefix_handle. destruct c as [cl|].
  - destruct (all_iapds_spec now L P cl pds st I F) as (st' & outs & E & I' & M & S & B & O & (news & N) & R).
    rewrite E. split; [exact I'|]. split; [discriminate|]. split; [exact S|]. split.
    + intros c0 l Hl. destruct (list_eq_dec N.eq_dec c0 cl) as [->|Hc].
      * rewrite N, in_app_iff. left. apply in_map. exact Hl.
      * rewrite (O c0 Hc). apply in_map. exact Hl.
    + split; [exact M|]. intros l Hl. apply in_flat_map in Hl. destruct Hl as ([iaid out] & Hin & Hl). eapply R; eassumption.
  - split; [exact I|]. split; [discriminate|]. split; [repeat split|]. split; [intros; apply in_map; assumption|reflexivity].
Qed.

Lemma prun_spec L P : forall ms st, pinv st L P -> Forall wf_pmsg ms ->
  let '(st', os) := prun st ms in
  pinv st' L P /\ ~ In PPanic os /\ static6 (ps_alloc st) (ps_alloc st') /\
  (forall c0 l, In l (precs_get c0 (ps_recs st)) -> In (key l) (map key (precs_get c0 (ps_recs st')))) /\
  (forall c l, In (c, l) (delegated ms os) -> In (key l) (map key (precs_get c (ps_recs st')))).
Proof.
  induction ms as [|[now c pds] ms IH]; intros st I F; cbn [prun].
  - split; [exact I|]. split; [intros []|]. split; [repeat split|]. split; [intros; apply in_map; assumption|intros ? ? []].
  - pose proof (handle_spec now L P st c pds I (Forall_inv F)) as H.
    destruct (prefix_handle now st c pds) as [st1 o]. destruct H as (I1 & Hnp & S1 & M1 & Hc).
    specialize (IH st1 I1 (Forall_inv_tail F)). destruct (prun st1 ms) as [st2 os]. destruct IH as (I2 & Hnp2 & S2 & M2 & D2).
    assert (Mk : forall c0 l, In (key l) (map key (precs_get c0 (ps_recs st1))) -> In (key l) (map key (precs_get c0 (ps_recs st2)))).
    { intros c0 l Hk. apply In_key_exists in Hk. destruct Hk as (l' & Hl' & Ek). rewrite <- Ek. apply M2. exact Hl'. }
    split; [exact I2|]. split; [intros [Hx|Hx]; [congruence|contradiction]|].
    split; [destruct S1 as (A1 & A2 & A3); destruct S2 as (C1 & C2 & C3); unfold static6; repeat split; congruence|].
    split; [intros c0 l Hl; apply Mk; apply M1; exact Hl|].
    intros c0 l Hin. destruct c as [cl|]; destruct o as [|outs|]; cbn [delegated] in Hin; try (apply D2; exact Hin); try contradiction.
    apply in_app_or in Hin. destruct Hin as [Hin|Hin]; [|apply D2; exact Hin].
    apply in_map_iff in Hin. destruct Hin as (l0 & E0 & Hl0). injection E0 as <- <-. apply Mk. apply (proj2 Hc). exact Hl0.
Qed.

(* ====================== C08 / C09 ====================== *)
Section History.
Variables (pip : bytes) (L P : N) (st0 : pstate).
Hypothesis Hpool : wf_ip16 pip /\ to4 pip = None /\ L <= P /\ P <= 128 /\ P - L < 64 /\ v pip mod Bsz L = 0.
Hypothesis Hsetup : prefix_setup pip (cidr_bytes 16 L) (Z.of_N P) = Ok st0.

Lemma setup_pinv : pinv st0 L P /\ a6_ip (ps_alloc st0) = pip /\ ps_recs st0 = [].
Proof.
  destruct Hpool as (H1 & H2 & H3 & H4 & H5 & H6). unfold prefix_setup in Hsetup.
  destruct (negb (lenb pip 16)); [discriminate|].
  destruct ((Z.of_N P <? 0) || (128 <? Z.of_N P))%Z; [discriminate|].
  destruct (new6_valid pip L P H1 H2 H3 H4 H5 H6) as (a & En & Va & Ba). rewrite En in Hsetup. injection Hsetup as <-.
  split; [|split; [|reflexivity]].
  - constructor; cbn [ps_alloc ps_recs precs_get]; [exact Va|intros c l []|intros c1 c2 l1 l2 _ []].
  - cbn [ps_alloc]. unfold new6 in En. destruct (mask_size (cidr_bytes 16 L)) as [ps ?].
    destruct (Z.of_N P - ps <? 0)%Z; [discriminate|]. destruct (Z.of_N P - ps >=? 64)%Z; [discriminate|]. injection En as <-. reflexivity.
Qed.

Variable ms : list pmsg.
Hypothesis Wms : Forall wf_pmsg ms.
Let stN := fst (prun st0 ms).
Let outs := snd (prun st0 ms).

Lemma hist_facts : pinv stN L P /\ ~ In PPanic outs /\ a6_ip (ps_alloc stN) = pip /\ a6_page (ps_alloc stN) = Z.of_N P /\
  (forall c l, In (c, l) (delegated ms outs) -> In (key l) (map key (precs_get c (ps_recs stN)))).
Proof.
  destruct setup_pinv as (I0 & Eip & _). pose proof (prun_spec L P ms st0 I0 Wms) as H. unfold stN, outs.
  destruct (prun st0 ms) as [st' os]. cbn [fst snd]. destruct H as (I & Hnp & (S1 & _ & S3) & _ & D).
  split; [exact I|]. split; [exact Hnp|]. split; [congruence|]. split; [rewrite S3; apply (v6_page _ _ _ (pi_valid _ _ _ I0))|exact D].
Qed.

(* no message, in any history, makes the plugin panic (and so none leaves its mutex held:
   the lock is released by defer) *)
Theorem pd_never_panics : ~ In PPanic outs.
Proof. exact (proj1 (proj2 hist_facts)). Qed.

(* C08: every delegated prefix is a block of the pool - base pool + x * 2^(128-P) with x < 2^(P-L),
   so inside the pool and aligned to the allocation length - of length >= the allocation length *)
Theorem pd_in_pool c l : In (c, l) (delegated ms outs) ->
  exists x hm, x < 2 ^ (P - L) /\ ls_ip l = be_bytes 16 (v pip + x * Bsz P) /\
    v pip + x * Bsz P + Bsz P <= v pip + Bsz L /\
    ls_mask l = (let '(ones, bits) := mask_size hm in cidr_mask (if ((ones <? Z.of_N P) || negb (bits =? 128))%Z then Z.of_N P else ones) 128).
Proof.
  intros H. destruct hist_facts as (I & _ & Eip & Epg & D). apply D in H. apply In_key_exists in H.
  destruct H as (l' & Hl' & Ek). destruct (pi_in _ _ _ I c l' Hl') as (x & Ex & Hx & hm & Em).
  unfold key in Ek. injection Ek as E1 E2. exists x, hm.
  assert (Hlt : x < 2 ^ (P - L)) by (apply (proj2 (proj2 (v6_bm _ _ _ (pi_valid _ _ _ I)))); exact Hx).
  split; [exact Hlt|]. split; [rewrite <- E1, Ex; unfold blk_ip; rewrite Eip; reflexivity|].
  split.
  - destruct Hpool as (_ & _ & H3 & H4 & _). rewrite (Bsz_split L P H3 H4). nia.
  - rewrite <- E2, Em. unfold req_mask. rewrite Epg. reflexivity.
Qed.

(* C08: blocks delegated to different clients never overlap *)
Theorem pd_disjoint_clients c1 l1 c2 l2 : c1 <> c2 ->
  In (c1, l1) (delegated ms outs) -> In (c2, l2) (delegated ms outs) ->
  v (ls_ip l1) + Bsz P <= v (ls_ip l2) \/ v (ls_ip l2) + Bsz P <= v (ls_ip l1).
Proof.
  intros Hne H1 H2. destruct hist_facts as (I & _ & _ & _ & D). apply D in H1, H2.
  apply In_key_exists in H1, H2. destruct H1 as (k1 & Hk1 & E1). destruct H2 as (k2 & Hk2 & E2).
  pose proof (pi_disj _ _ _ I c1 c2 k1 k2 Hne Hk1 Hk2) as Hd.
  destruct (pi_in _ _ _ I c1 k1 Hk1) as (x1 & X1 & B1 & _). destruct (pi_in _ _ _ I c2 k2 Hk2) as (x2 & X2 & B2 & _).
  unfold key in E1, E2. injection E1 as E1 _. injection E2 as E2 _. rewrite <- E1, <- E2, X1, X2.
  pose proof (pi_valid _ _ _ I) as V. apply (blocks_disjoint _ L P V).
  - apply (proj2 (proj2 (v6_bm _ _ _ V))). exact B1.
  - apply (proj2 (proj2 (v6_bm _ _ _ V))). exact B2.
  - intros ->. apply Hd. congruence.
Qed.
End History.

(* C08: one response IA_PD per request IA_PD, in order, with the same IAID (an empty list of
   prefixes is what the plugin turns into a NoPrefixAvail status) *)
Theorem pd_iapd_shape now L P st c pds outs st' : pinv st L P -> Forall (fun p => Forall wf_hint (snd p)) pds ->
  prefix_handle now st (Some c) pds = (st', PResp outs) -> map fst outs = map fst pds.
Proof.
  intros I F H. pose proof (handle_spec now L P st (Some c) pds I F) as S. rewrite H in S. exact (proj1 (proj2 (proj2 (proj2 (proj2 S))))).
Qed.

(* every delegated prefix carries the full lease: its expiry is now + 3600 s or later *)
Lemma extend_exp now l : (now + LEASE_NS <= ls_exp (extend now l))%Z.
Proof. unfold extend. destruct (ls_exp l <? now + LEASE_NS)%Z eqn:E; cbn [ls_exp]; lia. Qed.

(* C09: whatever a reply delegated is in the client's record afterwards, and stays there *)
Theorem pd_all_remembered L P st ms c l : pinv st L P -> Forall wf_pmsg ms ->
  In (c, l) (delegated ms (snd (prun st ms))) -> In (key l) (map key (precs_get c (ps_recs (fst (prun st ms))))).
Proof.
  intros I W H. pose proof (prun_spec L P ms st I W) as S. destruct (prun st ms) as [st' os]. cbn [fst snd] in *.
  apply (proj2 (proj2 (proj2 (proj2 S)))). exact H.
Qed.

Theorem pd_records_only_grow L P st ms c l : pinv st L P -> Forall wf_pmsg ms ->
  In l (precs_get c (ps_recs st)) -> In (key l) (map key (precs_get c (ps_recs (fst (prun st ms))))).
Proof.
  intros I W H. pose proof (prun_spec L P ms st I W) as S. destruct (prun st ms) as [st' os]. cbn [fst snd] in *.
  apply (proj1 (proj2 (proj2 (proj2 S)))). exact H.
Qed.

(* C09: a client holding P that asks for exactly P is answered with P, in that IA_PD *)
Theorem pd_renew_exact now L P st c hints l : pinv st L P -> Forall wf_hint hints ->
  In l (precs_get c (ps_recs st)) -> In (Some (ls_ip l, ls_mask l)) hints ->
  exists st' out, one_iapd now st c hints = Ok (st', out) /\ In (key l) (map key out).
Proof.
  intros I W Hl Hh. destruct (one_iapd_spec now L P st c hints I W) as (st' & out & E & _ & _ & _ & _ & _ & _ & R).
  exists st', out. split; [exact E|]. apply (R (Some (ls_ip l, ls_mask l)) l); [destruct hints; [destruct Hh|exact Hh]|exact Hl|].
  cbn [same_prefix]. rewrite (proj2 (bytes_eqb_eq _ _) eq_refl), Bool.andb_true_r.
  unfold ip_equal. rewrite Nat.eqb_refl. apply bytes_eqb_eq. reflexivity.
Qed.

(* C09: a hint-less IA_PD (no IAPrefix, or ::/0) of a client that holds prefixes is answered with
   exactly those prefixes and consumes no block of the pool: the allocator is unchanged *)
Theorem pd_hintless_returns_known now L P st c hints : pinv st L P -> hints = [] \/ hints = [None] ->
  precs_get c (ps_recs st) <> [] ->
  exists st' out, one_iapd now st c hints = Ok (st', out) /\ ps_alloc st' = ps_alloc st /\
    map key out = map key (precs_get c (ps_recs st)) /\
    map key (precs_get c (ps_recs st')) = map key (precs_get c (ps_recs st)).
Proof.
  intros I Hh Hne. destruct (one_iapd_hintless now L P st c hints I Hh Hne) as (st' & out & E & A & O & K & _).
  exists st', out. repeat split; assumption.
Qed.

(* C19 for the prefix plugin's pool argument: set-up accepts only a 16-byte (IPv6) pool address -
   an IPv4 subnet, which the 128-bit prefix arithmetic cannot index, is rejected at start-up *)
Theorem prefix_setup_ok_ipv6 pip pmask size st : prefix_setup pip pmask size = Ok st -> length pip = 16%nat.
Proof.
  unfold prefix_setup, lenb. destruct (Nat.eqb (length pip) 16) eqn:E; cbn [negb]; [|discriminate].
  intros _. apply Nat.eqb_eq. exact E.
Qed.
