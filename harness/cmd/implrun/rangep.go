package main

// C02, C03: histories of DISCOVER/REQUEST through the range plugin (Plugin.Setup4 and the
// returned handler) on real sqlite files, with restarts and crash points.

import (
	"database/sql"
	"encoding/binary"
	"fmt"
	"io"
	"net"
	"os"
	"path/filepath"
	"sort"
	"strings"
	"sync"
	"sync/atomic"
	"time"

	"github.com/coredhcp/coredhcp/handler"
	rangeplugin "github.com/coredhcp/coredhcp/plugins/range"
	"github.com/insomniacslk/dhcp/dhcpv4"
)

func init() {
	runners["C02"] = runRange
	runners["C03"] = runRange
}

func workDir() string {
	d := os.Getenv("VERIF_WORK")
	if d == "" {
		d = "/verif/.work/tmp"
	}
	os.MkdirAll(d, 0o755)
	return d
}

func copyFile(src, dst string) error {
	in, err := os.Open(src)
	if err != nil {
		return err
	}
	defer in.Close()
	out, err := os.Create(dst)
	if err != nil {
		return err
	}
	defer out.Close()
	_, err = io.Copy(out, in)
	return err
}

type dbRow struct {
	mac, ip  string
	expiry   int64
	hostname string
}

func readLeases(path string) ([]dbRow, error) {
	db, err := sql.Open("sqlite3", "file:"+path)
	if err != nil {
		return nil, err
	}
	defer db.Close()
	rows, err := db.Query("select mac, ip, expiry, hostname from leases4")
	if err != nil {
		return nil, err
	}
	defer rows.Close()
	var out []dbRow
	for rows.Next() {
		var r dbRow
		if err := rows.Scan(&r.mac, &r.ip, &r.expiry, &r.hostname); err != nil {
			return nil, err
		}
		out = append(out, r)
	}
	return out, rows.Err()
}

// handlerHung is set once a handler call did not come back: later calls would block on the same lock
var handlerHung int32

func callH4(h handler.Handler4, req, resp *dhcpv4.DHCPv4) (out *dhcpv4.DHCPv4, stop bool, panicked bool, pv interface{}) {
	if atomic.LoadInt32(&handlerHung) != 0 {
		return nil, true, true, "handler not called: an earlier call never returned (a lock left held?)"
	}
	type res struct {
		out  *dhcpv4.DHCPv4
		stop bool
		pan  bool
		pv   interface{}
	}
	done := make(chan res, 1)
	go func() {
		var r res
		defer func() {
			if x := recover(); x != nil {
				r.pan, r.pv = true, x
			}
			done <- r
		}()
		r.out, r.stop = h(req, resp)
	}()
	select {
	case r := <-done:
		return r.out, r.stop, r.pan, r.pv
	case <-time.After(10 * time.Second):
		atomic.StoreInt32(&handlerHung, 1)
		return nil, true, true, "handler did not return within 10 s (a lock left held, or a loop)"
	}
}

func mkReq4(chaddr []byte, host string, mt dhcpv4.MessageType) *dhcpv4.DHCPv4 {
	req, _ := dhcpv4.New()
	req.OpCode = dhcpv4.OpcodeBootRequest
	req.ClientHWAddr = net.HardwareAddr(append([]byte{}, chaddr...))
	req.UpdateOption(dhcpv4.OptMessageType(mt))
	if host != "" {
		req.UpdateOption(dhcpv4.OptHostName(host))
	}
	return req
}

type rangeHist struct {
	Start, End, Lease string
	Ops               []string `json:"ops"`
	Outs              []string `json:"outs"`
	At                int      `json:"at"`
}

// one scripted step of a range-plugin history
type rsop struct {
	kind   string // "req", "restart", "sleep"
	client int
	host   string
	mt     dhcpv4.MessageType
	sleep  time.Duration
}

var rangeSetups int

var rangeHosts = []string{"", "laptop", "123", "1e5", "0x10", "a\x00b", strings.Repeat("h", 255), "\xff\xfe", " 12 ", "1.50"}

func rowFor(rows []dbRow, ch []byte) (dbRow, bool) {
	for _, rw := range rows {
		hw, err := parseHWLoose(rw.mac)
		if err == nil && string(hw) == string(ch) {
			return rw, true
		}
	}
	return dbRow{}, false
}

// runRangeHistory runs one history on a fresh database and monitors C02/C03 on it.
func runRangeHistory(c *Ctx, hi int, gs, ge, lease string, clients [][]byte, script []rsop, crashMode bool) {
	wd := workDir()
	leaseD, _ := time.ParseDuration(lease)
	dbPath := filepath.Join(wd, fmt.Sprintf("leases-%d.sqlite3", hi))
	os.Remove(dbPath)
	defer os.Remove(dbPath)
	s4 := net.ParseIP(gs).To4()
	e4 := net.ParseIP(ge).To4()
	start, end := binary.BigEndian.Uint32(s4), binary.BigEndian.Uint32(e4)
	size := int(end-start) + 1
	h, err := rangeplugin.Plugin.Setup4(dbPath, gs, ge, lease)
	if err != nil {
		c.Violate("harness-setup", fmt.Sprintf("Setup4(%s,%s,%s) failed: %v", gs, ge, lease, err), nil)
		return
	}
	bound := map[string]string{}      // chaddr -> ip (monitor's view, over the whole history incl. restarts)
	owner := map[string]string{}      // ip -> chaddr
	lastPromise := map[string]int64{} // chaddr -> unix second: the stored expiry must not be earlier than this minus 1
	var ops, outs, opS []string
	rec := func(at int) rangeHist { return rangeHist{gs, ge, lease, opS, outs, at} }
	aborted := false
	doRestart := func(i int, path string, probeOnly bool) (handler.Handler4, bool) {
		rows, rerr := readLeases(path)
		var tbl []string
		if rerr == nil {
			sort.Slice(rows, func(a, b int) bool { return rows[a].mac < rows[b].mac })
			for _, rw := range rows {
				tbl = append(tbl, fmt.Sprintf("(%s, %s)", vStr(rw.mac), vBytes(net.ParseIP(rw.ip).To4())))
			}
		}
		rangeSetups++
		nh, err := rangeplugin.Plugin.Setup4(path, gs, ge, lease)
		if !probeOnly {
			ops = append(ops, "RRestart "+vList(tbl))
			opS = append(opS, "restart")
		}
		if err != nil {
			if !probeOnly {
				outs = append(outs, "RRestartErr")
			}
			c.vio("C03", "restart-fails", fmt.Sprintf("restart on the database the plugin wrote fails: %v (range %s-%s)", err, gs, ge), rec(i))
			return nil, false
		}
		if !probeOnly {
			outs = append(outs, "RRestartOk true")
		}
		if rerr == nil && len(rows) != len(bound) {
			c.vio("C03", "db-binding-count", fmt.Sprintf("database has %d rows for %d bindings handed out", len(rows), len(bound)), rec(i))
		}
		return nh, true
	}
	probeAll := func(hh handler.Handler4, i int, what string) {
		keys := make([]string, 0, len(bound))
		for k := range bound {
			keys = append(keys, k)
		}
		sort.Strings(keys)
		for _, k := range keys {
			req := mkReq4([]byte(k), "", dhcpv4.MessageTypeRequest)
			resp, _ := dhcpv4.New()
			out, _, pan, _ := callH4(hh, req, resp)
			if pan || out == nil || out.YourIPAddr.To4().String() != bound[k] {
				got := "<none>"
				if out != nil {
					got = out.YourIPAddr.String()
				}
				c.vio("C03", "binding-not-restored", fmt.Sprintf("%s: client %x was bound to %s but is now given %s", what, k, bound[k], got), rec(i))
			}
		}
	}
	for i, so := range script {
		if aborted {
			break
		}
		c.Breadcrumb(map[string]interface{}{"range": gs + "-" + ge, "lease": lease, "ops_so_far": opS})
		switch so.kind {
		case "sleep":
			time.Sleep(so.sleep)
			c.Count("op:sleep")
			continue
		case "restart":
			c.Count("op:restart")
			nh, ok := doRestart(i, dbPath, false)
			if !ok {
				aborted = true
				break
			}
			h = nh
			continue
		}
		ch := clients[so.client]
		c.Count("op:" + strings.ToLower(so.mt.String()))
		req := mkReq4(ch, so.host, so.mt)
		resp, _ := dhcpv4.New()
		if i%5 == 3 {
			// an earlier plugin of the chain (lease_time) has set a lease time already: the range plugin's
			// own lease time is what is stored, so it is what must be promised
			resp.UpdateOption(dhcpv4.OptIPAddressLeaseTime(7777 * time.Second))
		}
		t0 := time.Now()
		out, stop, pan, pv := callH4(h, req, resp)
		t1 := time.Now()
		opS = append(opS, fmt.Sprintf("%s chaddr=%x host=%q", so.mt, ch, so.host))
		ops = append(ops, fmt.Sprintf("RReq %s %s %s %s", vZ(t0.UnixNano()), vZ(t1.UnixNano()), vBytes(ch), vStr(so.host)))
		key := string(ch)
		switch {
		case pan:
			outs = append(outs, "RPanic")
			c.vio("C02", "range-handler-panic", fmt.Sprintf("handler panics for chaddr %x: %v", ch, pv), rec(i))
			aborted = true
		case out == nil:
			outs = append(outs, "RDrop")
			c.Count("result:drop")
			if !stop {
				c.vio("C02", "nil-without-stop", "nil response without stop", rec(i))
			}
			if _, known := bound[key]; known {
				c.vio("C02", "bound-client-dropped", fmt.Sprintf("client %x holds %s but got no reply", ch, bound[key]), rec(i))
			} else if len(bound) < size {
				c.vio("C02", "drop-while-free", fmt.Sprintf("unknown client %x dropped with %d of %d addresses bound", ch, len(bound), size), rec(i))
			}
		default:
			c.Count("result:reply")
			y := out.YourIPAddr.To4()
			lt := out.Options.Get(dhcpv4.OptionIPAddressLeaseTime)
			// the client's row as stored now
			rows, _ := readLeases(dbPath)
			rw, haveRow := rowFor(rows, ch)
			expTxt := "None"
			if haveRow {
				expTxt = "(Some " + vZ(rw.expiry) + ")"
			}
			outs = append(outs, fmt.Sprintf("ROut %s %s %s", vBytes(y), vBytes(lt), expTxt))
			ys := y.String()
			if y == nil {
				c.vio("C02", "no-yiaddr", fmt.Sprintf("reply to %x has no IPv4 yiaddr", ch), rec(i))
				break
			}
			yv := binary.BigEndian.Uint32(y)
			if yv < start || yv > end {
				c.vio("C02", "lease-out-of-range", fmt.Sprintf("client %x given %s outside %s-%s", ch, ys, gs, ge), rec(i))
			}
			if o, taken := owner[ys]; taken && o != key {
				c.vio("C02", "address-bound-twice", fmt.Sprintf("%s given to %x while bound to %x", ys, ch, o), rec(i))
			}
			if prev, known := bound[key]; known && prev != ys {
				c.vio("C02", "lease-not-sticky", fmt.Sprintf("client %x was given %s, now %s", ch, prev, ys), rec(i))
			} else if !known && len(bound) >= size {
				c.vio("C02", "lease-beyond-capacity", fmt.Sprintf("unknown client %x served with all %d addresses bound", ch, size), rec(i))
			}
			wantLT := make([]byte, 4)
			binary.BigEndian.PutUint32(wantLT, uint32(leaseD.Round(time.Second)/time.Second))
			if string(lt) != string(wantLT) {
				c.vio("C02", "wrong-lease-time", fmt.Sprintf("option 51 = %x, configured %s", lt, lease), rec(i))
			}
			bound[key] = ys
			owner[ys] = key
			lastPromise[key] = t0.Add(leaseD.Round(time.Second)).Unix()
			// C03: the stored expiry covers the lease just promised (one-second resolution)
			if !haveRow {
				c.vio("C03", "binding-not-stored", fmt.Sprintf("no row in leases4 for client %x after it was given %s", ch, ys), rec(i))
			} else {
				if rw.expiry < lastPromise[key]-1 {
					c.vio("C03", "expiry-before-promise", fmt.Sprintf("stored expiry %d of %x is earlier than the end %d of the lease (%s) just promised", rw.expiry, ch, lastPromise[key], lease), rec(i))
				}
				if ip := net.ParseIP(rw.ip).To4(); ip == nil || ip.String() != ys {
					c.vio("C03", "stored-binding-differs", fmt.Sprintf("leases4 holds %s for client %x which was given %s", rw.ip, ch, ys), rec(i))
				}
			}
		}
		// C03 crash point: copy the database as it is now and restart on the copy
		// (every Setup4 leaves a database handle open for the life of the process - the plugin has
		// no close - so the number of crash-point restarts per run is capped below the fd limit)
		if crashMode && !aborted && (c.Thorough() || i%3 == 0) && rangeSetups < 12000 {
			cp := dbPath + ".crash"
			if err := copyFile(dbPath, cp); err == nil {
				c.Count("crash-point")
				if hh, ok := doRestart(i, cp, true); ok {
					probeAll(hh, i, "after crash/restart at this point")
				}
				os.Remove(cp)
			}
		}
	}
	if !aborted {
		c.Count("op:restart")
		if nh, ok := doRestart(len(ops), dbPath, false); ok {
			probeAll(nh, len(ops), "after the final restart")
		}
	}
	// the operator edits the range and restarts on the same lease database: a stored binding outside
	// the new range must never be served (the plugin refuses to start), bindings inside it survive
	if !aborted && !crashMode && hi%3 == 0 {
		alts := [][2]int64{{int64(start) + 1, int64(end)}, {int64(start), int64(end) - 1}, {int64(start) - 2, int64(end) + 2},
			{int64(end) + 1, int64(end) + 9}, {int64(start) + 1, int64(end) + 1}, {int64(start), int64(end)}}
		alt := alts[(hi/3)%len(alts)]
		if alt[0] >= 1 && alt[1] <= 0xfffffffe && alt[0] < alt[1] {
			ip4 := func(v int64) net.IP { return net.IP{byte(v >> 24), byte(v >> 16), byte(v >> 8), byte(v)} }
			gs2, ge2 := ip4(alt[0]).String(), ip4(alt[1]).String()
			rows, rerr := readLeases(dbPath)
			var tbl []string
			if rerr == nil {
				sort.Slice(rows, func(a, b int) bool { return rows[a].mac < rows[b].mac })
				for _, rw := range rows {
					tbl = append(tbl, fmt.Sprintf("(%s, %s)", vStr(rw.mac), vBytes(net.ParseIP(rw.ip).To4())))
				}
			}
			c.Count("op:restart-other-range")
			rangeSetups++
			nh, err := rangeplugin.Plugin.Setup4(dbPath, gs2, ge2, lease)
			ops = append(ops, fmt.Sprintf("RRestartAs %s %s %s", vBytes(ip4(alt[0])), vBytes(ip4(alt[1])), vList(tbl)))
			opS = append(opS, "restart with range "+gs2+"-"+ge2)
			if err != nil {
				outs = append(outs, "RRestartErr")
			} else {
				outs = append(outs, "RRestartOk true")
				keys := make([]string, 0, len(bound))
				for k := range bound {
					keys = append(keys, k)
				}
				sort.Strings(keys)
				for _, k := range keys {
					req := mkReq4([]byte(k), "", dhcpv4.MessageTypeRequest)
					resp, _ := dhcpv4.New()
					out, _, pan, _ := callH4(nh, req, resp)
					if pan || out == nil {
						continue
					}
					y := out.YourIPAddr.To4()
					yv := int64(binary.BigEndian.Uint32(y))
					if yv < alt[0] || yv > alt[1] {
						c.vio("C02", "lease-out-of-range", fmt.Sprintf("after a restart with the range changed from %s-%s to %s-%s client %x is given %s, outside the configured range", gs, ge, gs2, ge2, k, y), rec(len(ops)-1))
					}
				}
			}
		}
	}
	c.AddCase(fmt.Sprintf("CR %s %s %s %s %s", vBytes(s4), vBytes(e4), vZ(int64(leaseD)), vList(ops), vList(outs)))
	c.Eval(gs+ge+lease+strings.Join(opS, ";"), len(bound) >= 1 && len(ops) >= 2)
	c.Count(fmt.Sprintf("range-size:%d", size))
	if hi%9 == 0 || hi >= 9000 {
		k := len(opS)
		if k > 5 {
			k = 5
		}
		c.Sample(map[string]interface{}{"range": gs + "-" + ge, "lease": lease, "clients": len(clients), "ops(first 5)": opS[:k], "outs(first 5)": outs[:k], "length": len(opS)})
	}
}

func genClients(c *Ctx, hi, ncl int) [][]byte {
	r := c.R
	var clients [][]byte
	seen := map[string]bool{}
	for len(clients) < ncl {
		var ch []byte
		switch {
		case hi == 0 && len(clients) == 0:
			ch = []byte{1, 2, 3, 4, 5} // F6 witness: a 5-byte address
		case hi == 0 && len(clients) == 1:
			ch = []byte{7} // one-byte address, stored as the integer 7
		case hi == 1 && len(clients) == 0:
			ch = []byte{}
		default:
			l := r.Intn(17)
			if r.Pct(50) {
				l = 6
			}
			ch = r.Bytes(l)
			if l == 1 && r.Bool() {
				ch = []byte{byte(r.Intn(10))<<4 | byte(r.Intn(10))} // decimal-looking
			}
			if len(clients) > 0 && r.Pct(15) {
				o := clients[r.Intn(len(clients))]
				if len(o) > 0 && r.Bool() {
					ch = append([]byte{}, o[:len(o)-1]...)
				} else if len(o) < 16 {
					ch = append(append([]byte{}, o...), 0)
				}
			}
		}
		if seen[string(ch)] {
			continue
		}
		seen[string(ch)] = true
		clients = append(clients, ch)
		c.Count(fmt.Sprintf("chaddr-len:%d", len(ch)))
	}
	return clients
}

func runRange(c *Ctx) {
	c.SetCases("From Verif Require Import Base RangePlugin RangeRun.", "RangeRun.mismatches")
	c.shard = 40
	if os.Getenv("VERIF_PHASE") == "conc" {
		runRangeConcurrent(c, c.Scale(6, 40))
		c.Extra["rule"] = "concurrent requests through the range plugin under the race detector"
		return
	}
	defer func() {
		// the same plugin instance behind two listeners of a server started with server.Start
		c.SetCases(asmCasesHdr, "AsmRun.mismatches")
		c.shard = 12
		startScenarioRange(c)
	}()
	r := c.R
	type geo struct{ s, e string }
	geos := []geo{{"10.0.0.1", "10.0.0.2"}, {"10.0.0.1", "10.0.0.3"}, {"10.1.0.0", "10.1.0.62"}, {"10.1.0.0", "10.1.0.63"},
		{"10.1.0.0", "10.1.0.64"}, {"255.255.255.250", "255.255.255.255"}, {"192.168.7.254", "192.168.8.4"}}
	leases := []string{"1h", "30s", "90m", "2s", "24h", "1500ms", "175200h" /* 20 years: expiries beyond 2038 */}
	crashMode := c.Prop == "C03"
	mts := []dhcpv4.MessageType{dhcpv4.MessageTypeDiscover, dhcpv4.MessageTypeRequest}

	// --- time-lapse scenarios (real seconds pass between requests) ---
	{
		// a renewal more than a second after the first lease, well inside it: the stored
		// expiry must follow the newly promised lease
		cl := [][]byte{{2, 0, 0, 0, 0, 1}, {2, 0, 0, 0, 0, 2}, {9}}
		runRangeHistory(c, 9001, "10.9.0.1", "10.9.0.9", "10s", cl, []rsop{
			{kind: "req", client: 0, mt: mts[0]}, {kind: "req", client: 1, mt: mts[0]}, {kind: "req", client: 2, mt: mts[0], host: "123"},
			{kind: "sleep", sleep: 1250 * time.Millisecond},
			{kind: "req", client: 0, mt: mts[1]}, {kind: "req", client: 2, mt: mts[1]}, {kind: "restart"}, {kind: "req", client: 1, mt: mts[1]},
		}, true)
		// leases that have run out before a restart are still bindings: nobody else gets the address
		runRangeHistory(c, 9002, "10.9.1.1", "10.9.1.3", "1s", cl, []rsop{
			{kind: "req", client: 0, mt: mts[0]}, {kind: "req", client: 1, mt: mts[0]},
			{kind: "sleep", sleep: 2100 * time.Millisecond},
			{kind: "restart"}, {kind: "req", client: 2, mt: mts[0]}, {kind: "req", client: 0, mt: mts[1]}, {kind: "req", client: 1, mt: mts[1]},
			{kind: "restart"}, {kind: "req", client: 2, mt: mts[1]},
		}, true)
	}

	nh := c.Scale(36, 700)
	for hi := 0; hi < nh; hi++ {
		g := geos[r.Intn(len(geos))]
		lease := leases[r.Intn(len(leases))]
		s4 := net.ParseIP(g.s).To4()
		e4 := net.ParseIP(g.e).To4()
		size := int(binary.BigEndian.Uint32(e4)-binary.BigEndian.Uint32(s4)) + 1
		ncl := 1 + r.Intn(12)
		if r.Pct(40) {
			ncl = size + r.Intn(3) // make exhaustion likely for small ranges
			if ncl > 70 {
				ncl = 70
			}
		}
		clients := genClients(c, hi, ncl)
		nops := 1 + r.Intn(c.Scale(50, 60))
		var script []rsop
		for i := 0; i < nops; i++ {
			if r.Pct(8) && i > 0 {
				script = append(script, rsop{kind: "restart"})
				continue
			}
			script = append(script, rsop{kind: "req", client: r.Intn(len(clients)), host: rangeHosts[r.Intn(len(rangeHosts))], mt: mts[r.Intn(2)]})
		}
		runRangeHistory(c, hi, g.s, g.e, lease, clients, script, crashMode)
	}
	if c.Prop == "C02" {
		runRangeConcurrent(c, c.Scale(10, 200))
	}
	if c.Prop == "C03" {
		runRangeConcurrent(c, c.Scale(4, 60)) // the database after simultaneous requests holds one row per client
	}
	c.Extra["rule"] = "histories of 1..60 DISCOVER/REQUEST over 1..70 clients (chaddr lengths 0..16 incl. 1-byte decimal-looking and prefix-related addresses, hostnames incl. numeric-looking/NUL/255 bytes/invalid UTF-8) on ranges of size 2,3,63,64,65 and one ending at 255.255.255.255, with restarts on the real sqlite file, the client's row read back after every reply (expiry bracketed by the model run on the clock readings before and after the call); two time-lapse histories in which real seconds pass (renewal inside the lease; restart after the leases ran out); C03: a copy of the file after requests restarted as a crash point and all bound clients probed; C02: concurrent phase; non-trivial = distinct history with >=2 ops and >=1 binding"
}

// runRangeConcurrent: G goroutines send requests at the same moment, for the same new client
// and for different new clients, until the range is full.  Every serial order gives each client
// exactly one address and uses exactly one address per client.
func runRangeConcurrent(c *Ctx, ranges int) {
	wd := workDir()
	G := 8
	for ri := 0; ri < ranges; ri++ {
		dbPath := filepath.Join(wd, fmt.Sprintf("leases-conc-%d.sqlite3", ri))
		os.Remove(dbPath)
		size := 24
		h, err := rangeplugin.Plugin.Setup4(dbPath, "10.7.0.1", "10.7.0.24", "1h")
		if err != nil {
			c.Violate("harness-setup", "concurrent phase: "+err.Error(), nil)
			return
		}
		bound := map[string]string{}
		owner := map[string]string{}
		hist := []string{}
		for round := 0; len(bound) < size+2 && round < 64; round++ {
			same := round%2 == 0
			macs := make([][]byte, G)
			for g := 0; g < G; g++ {
				if same || len(bound)+g >= size+2 {
					macs[g] = []byte{2, byte(ri), byte(round), 0, 0, 0}
				} else {
					macs[g] = []byte{2, byte(ri), byte(round), 0, 0, byte(g)}
				}
			}
			outsY := make([]string, G)
			var wg sync.WaitGroup
			startCh := make(chan struct{})
			for g := 0; g < G; g++ {
				wg.Add(1)
				go func(g int) {
					defer wg.Done()
					req := mkReq4(macs[g], "", dhcpv4.MessageTypeDiscover)
					resp, _ := dhcpv4.New()
					<-startCh
					out, _, pan, _ := callH4(h, req, resp)
					switch {
					case pan:
						outsY[g] = "panic"
					case out == nil:
						outsY[g] = "drop"
					default:
						outsY[g] = out.YourIPAddr.To4().String()
					}
				}(g)
			}
			close(startCh)
			wg.Wait()
			c.Evals++
			hist = append(hist, fmt.Sprintf("round %d: %v -> %v", round, fmtMacs(macs), outsY))
			input := map[string]interface{}{"range": "10.7.0.1-10.7.0.24", "goroutines": G, "rounds": hist}
			for g := 0; g < G; g++ {
				k := string(macs[g])
				y := outsY[g]
				switch y {
				case "panic":
					c.vio("C02", "range-handler-panic", "handler panics under concurrent requests", input)
				case "drop":
					if _, known := bound[k]; known {
						c.vio("C02", "bound-client-dropped", fmt.Sprintf("concurrent: client %x holds %s but got no reply", macs[g], bound[k]), input)
					}
					// (an unknown client dropped: whether addresses were still free is judged after the rounds)
				default:
					if prev, known := bound[k]; known && prev != y {
						c.vio("C02", "lease-not-sticky", fmt.Sprintf("concurrent: client %x was given %s and %s (requests sent at the same moment)", macs[g], prev, y), input)
					}
					if o, taken := owner[y]; taken && o != k {
						c.vio("C02", "address-bound-twice", fmt.Sprintf("concurrent: %s given to %x while bound to %x", y, macs[g], o), input)
					}
					bound[k] = y
					owner[y] = k
				}
			}
		}
		// the database must hold exactly one row per client, and the range must take exactly `size` clients
		rows, _ := readLeases(dbPath)
		if len(rows) != len(bound) {
			p := "C02"
			if c.Prop == "C03" {
				p = "C03" // the database no longer holds exactly the bindings handed out: a restart restores something else
			}
			c.vio(p, "db-binding-count", fmt.Sprintf("concurrent: leases4 has %d rows for %d clients served (an address was allocated twice for one client)", len(rows), len(bound)), map[string]interface{}{"rounds": hist})
		}
		if len(bound) < size {
			c.vio("C02", "drop-while-free", fmt.Sprintf("concurrent: only %d clients could be served from a range of %d addresses", len(bound), size), map[string]interface{}{"rounds": hist})
		}
		if len(bound) > size {
			c.vio("C02", "lease-beyond-capacity", fmt.Sprintf("concurrent: %d clients served from a range of %d addresses", len(bound), size), map[string]interface{}{"rounds": hist})
		}
		os.Remove(dbPath)
	}
	c.Dist["concurrent-ranges"] = ranges
	c.Extra["concurrent_phase"] = fmt.Sprintf("%d ranges of 24 addresses filled by rounds of %d simultaneous requests (alternately all for one new client / for %d new clients)", ranges, G, G)
}

func fmtMacs(m [][]byte) []string {
	out := make([]string, len(m))
	for i, x := range m {
		out[i] = fmt.Sprintf("%x", x)
	}
	return out
}

// parseHWLoose inverts HardwareAddr.String for the monitor (any length, lone digits accepted)
func parseHWLoose(s string) ([]byte, error) {
	if s == "" {
		return []byte{}, nil
	}
	var out []byte
	for _, p := range strings.Split(s, ":") {
		var b uint
		if len(p) == 0 || len(p) > 2 {
			return nil, fmt.Errorf("bad")
		}
		if _, err := fmt.Sscanf(p, "%x", &b); err != nil {
			return nil, err
		}
		out = append(out, byte(b))
	}
	return out, nil
}
