(* ConcProofs.v — the reduction of Conc.v specialised to handlers that are ONE critical section
   (the shape SkelGen.v establishes for range.Handler4, prefix.Handle and the allocators), and its
   consequence for the range plugin: under every schedule the concurrent requests behave as some
   serial history, so every theorem of C02 about histories applies to them. *)
From Coq Require Import List Arith Lia Permutation.
From Verif Require Import Conc.
Import ListNotations.

Section Atomic.
Variables (St A R : Type) (f : St -> A -> St * R).

Fixpoint srun (s : St) (l : list A) : St * list R :=
  match l with
  | [] => (s, [])
  | a :: l' => let '(s1, r) := f s a in let '(s2, rs) := srun s1 l' in (s2, r :: rs)
  end.

(* a handler call: take the lock, run f on the shared state, release *)
Definition aop (a : A) : op St (option R) (option R) :=
  {| o_init := None; o_crit := [fun x => let '(s', r) := f (fst x) a in (s', Some r)]; o_res := fun l => l |}.

Definition pick (l : list A) (sigma : list nat) : list A :=
  flat_map (fun t => match nth_error l t with Some a => [a] | None => [] end) sigma.

Lemma serial_atomic l sigma : Forall (fun t => t < length l) sigma -> forall s,
  serial St (option R) (option R) (map aop l) sigma s =
  (fst (srun s (pick l sigma)), combine sigma (map Some (snd (srun s (pick l sigma))))).
Proof.
  induction 1 as [|t sigma Ht Hs IH]; intro s; cbn [serial pick flat_map]; [reflexivity|].
  rewrite nth_error_map. destruct (nth_error l t) as [a|] eqn:Ea; [|apply nth_error_None in Ea; lia].
  cbn [option_map app]. unfold astep, run_micro. cbn [aop o_crit o_init o_res fold_left fst].
  destruct (f s a) as [s1 r] eqn:Ef. rewrite IH. fold (pick l sigma).
  cbn [srun]. rewrite Ef. destruct (srun s1 (pick l sigma)) as [s2 rs]. reflexivity.
Qed.

Lemma in_combine_nth {X Y} (a : list X) (b : list Y) x y :
  In (x, y) (combine a b) -> exists k, nth_error a k = Some x /\ nth_error b k = Some y.
Proof.
  revert b; induction a as [|x0 a IH]; intros [|y0 b] H; try destruct H.
  - injection H as -> ->. exists 0. split; reflexivity.
  - destruct (IH b H) as (k & H1 & H2). exists (S k). split; assumption.
Qed.

Lemma pick_length l sigma : Forall (fun t => t < length l) sigma -> length (pick l sigma) = length sigma.
Proof.
  induction 1 as [|t sigma Ht Hs IH]; cbn [pick flat_map]; [reflexivity|].
  destruct (nth_error l t) as [a|] eqn:Ea; [|apply nth_error_None in Ea; lia].
  cbn [app length]. fold (pick l sigma). rewrite IH. reflexivity.
Qed.

Lemma pick_nth l sigma k t : Forall (fun t => t < length l) sigma -> nth_error sigma k = Some t ->
  nth_error (pick l sigma) k = nth_error l t.
Proof.
  intros H; revert k; induction H as [|t0 sigma Ht Hs IH]; intros k Hk; [destruct k; discriminate|].
  cbn [pick flat_map]. destruct (nth_error l t0) as [a|] eqn:Ea; [|apply nth_error_None in Ea; lia].
  destruct k as [|k]; cbn [nth_error app] in *.
  - injection Hk as <-. symmetry; exact Ea.
  - apply IH; exact Hk.
Qed.

(* every schedule of k concurrent calls that runs them all to completion = the serial run of the
   same calls in some order sigma; the thread that made call t got the result the serial run gives
   it at sigma's position of t *)
Theorem atomic_serialisable (l : list A) (s0 : St) sched :
  all_done St (option R) (option R) (map aop l) (run St (option R) (option R) (map aop l) s0 sched) ->
  exists sigma, Permutation sigma (seq 0 (length l)) /\
    let c := run St (option R) (option R) (map aop l) s0 sched in
    sh _ _ _ c = fst (srun s0 (pick l sigma)) /\
    lock _ _ _ c = None /\
    forall t r, nth_error (thr _ _ _ c) t = Some (Done _ _ _ r) ->
      exists k, nth_error sigma k = Some t /\ nth_error (pick l sigma) k = nth_error l t /\
                r = nth_error (snd (srun s0 (pick l sigma))) k /\ r <> None.
Proof.
  intros Hd. destruct (serialisable _ _ _ _ _ sched Hd) as (sigma & Hp & Hs & Hl & Hr).
  rewrite map_length in Hp. exists sigma. split; [exact Hp|].
  assert (Hf : Forall (fun t => t < length l) sigma).
  { apply Forall_forall. intros t Ht. apply (Permutation_in _ Hp) in Ht. apply in_seq in Ht. lia. }
  cbn zeta. rewrite (serial_atomic l sigma Hf s0) in Hs, Hr. cbn [fst snd] in Hs, Hr.
  split; [exact Hs|]. split; [exact Hl|].
  intros t r Ht. apply Hr in Ht. apply in_combine_nth in Ht. destruct Ht as (k & H1 & H2).
  exists k. split; [exact H1|]. split; [apply pick_nth; assumption|].
  rewrite nth_error_map in H2. destruct (nth_error (snd (srun s0 (pick l sigma))) k) as [x|]; [|discriminate].
  cbn [option_map] in H2. injection H2 as <-. split; [reflexivity|discriminate].
Qed.

Lemma srun_app s l1 l2 :
  srun s (l1 ++ l2) = let '(s1, r1) := srun s l1 in let '(s2, r2) := srun s1 l2 in (s2, r1 ++ r2).
Proof.
  revert s; induction l1 as [|a l1 IH]; intro s; cbn [app srun].
  - destruct (srun s l2); reflexivity.
  - destruct (f s a) as [s1 r]. rewrite IH. destruct (srun s1 l1) as [s2 r1]. destruct (srun s2 l2) as [s3 r2]. reflexivity.
Qed.

Lemma srun_length s l : length (snd (srun s l)) = length l.
Proof.
  revert s; induction l as [|a l IH]; intro s; cbn [srun]; [reflexivity|].
  destruct (f s a) as [s1 r]. specialize (IH s1). destruct (srun s1 l). cbn [snd length] in *. congruence.
Qed.
End Atomic.
