module verifharness

go 1.22.0

require github.com/coredhcp/coredhcp v0.0.0

replace github.com/coredhcp/coredhcp => /repo
