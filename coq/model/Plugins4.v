(* Plugins4.v — models of the stateless DHCPv4 plugins: dns, mtu, netmask, router, searchdomains,
   staticroute, lease_time, ipv6only, autoconfigure, nbp, sleep, server_id.  For each: the
   configuration the setup function leaves behind (model/Setup.v) and the handler, statement by
   statement, with option values in their wire encoding.  The response is never nil when a
   built-in handler is called (a nil response ends the chain). *)
From Verif Require Import Base Net Msg4.
Open Scope N_scope.

(* ---------- request predicates ---------- *)
(* DHCPv4.ParameterRequestList(): nil when option 55 is absent or has a nil (zero-length) value *)
Definition prl (req : msg4) : option (list N) :=
  match opt_get 55 (m_opts req) with
  | Some (b :: v) => Some (b :: v)
  | _ => None
  end.

(* IsOptionRequested: no list at all counts as a request for everything (RFC 2131 3.5) *)
Definition is_requested (c : N) (req : msg4) : bool :=
  match prl req with
  | None => true
  | Some l => existsb (N.eqb c) l
  end.

(* the client lists the option explicitly *)
Definition is_listed (c : N) (req : msg4) : bool :=
  match prl req with
  | None => false
  | Some l => existsb (N.eqb c) l
  end.

(* ---------- wire encodings ---------- *)
(* dhcpv4.IPs: the 4-byte forms concatenated; an address without a 4-byte form contributes nothing *)
Definition enc_ips4 (ips : list bytes) : bytes :=
  flat_map (fun ip => match to4 ip with Some x => x | None => [] end) ips.

(* dhcpv4.Uint16(i): Go's int -> uint16 conversion, big endian *)
Definition enc_u16 (i : Z) : bytes := be_bytes 2 (Z.to_N (i mod 65536)).

(* dhcpv4.Duration: uint32(d / time.Second), Go division truncates toward zero *)
Definition dur_secs (d : Z) : Z := Z.quot d 1000000000.
Definition enc_dur (d : Z) : bytes := be_bytes 4 (Z.to_N (dur_secs d mod 4294967296)).

(* rfc1035label: strings.Split(label, ".") *)
Fixpoint split_dot (s : bytes) (cur : bytes) : list bytes :=
  match s with
  | [] => [cur]
  | c :: s' => if c =? 46 then cur :: split_dot s' [] else split_dot s' (cur ++ [c])
  end.

Definition enc_label (l : bytes) : bytes :=
  match l with
  | [] => [0]
  | _ => flat_map (fun part => (N.of_nat (length part) mod 256) :: part) (split_dot l []) ++ [0]
  end.

Definition enc_labels (ls : list bytes) : bytes := flat_map enc_label ls.

(* dhcpv4.Route.Marshal: mask length, the significant bytes of the destination, the router.
   r.Dest.IP.To4()[:dstLen] panics for a destination without a 4-byte form (unless dstLen = 0)
   and for dstLen > 4 *)
Record route := { rt_dest : bytes; rt_mask : bytes; rt_router : bytes }.

Definition enc_route (r : route) : res bytes :=
  let ones := fst (mask_size (rt_mask r)) in
  let dl := ((ones + 7) / 8)%Z in
  let rb := match to4 (rt_router r) with Some x => x | None => [] end in
  match to4 (rt_dest r) with
  | None => if (dl =? 0)%Z then Ok ([Z.to_N (ones mod 256)] ++ rb) else Panic
  | Some d4 => if (dl <=? 4)%Z then Ok ([Z.to_N (ones mod 256)] ++ firstn (Z.to_nat dl) d4 ++ rb) else Panic
  end.

Fixpoint enc_routes (rs : list route) : res bytes :=
  match rs with
  | [] => Ok []
  | r :: rs' => bind (enc_route r) (fun a => bind (enc_routes rs') (fun b => Ok (a ++ b)))
  end.

(* ---------- the plugins ---------- *)
Inductive plug4 :=
| PDns (ips : list bytes)
| PMtu (mtu : Z)
| PNetmask (mask : bytes)
| PRouter (ips : list bytes)
| PSearch (labels : list bytes)
| PStaticRoute (routes : list route)
| PLeaseTime (d : Z)
| PIPv6Only (wait : Z)
| PAutoconf (v : N)
| PNbp (opt66 opt67 : option bytes)
| PSleep (d : Z)
| PServerID (ip : bytes).

(* message type of a response; YourIPAddr.IsUnspecified *)
Definition h4res := res (option msg4 * bool).

Definition plug4_handler (p : plug4) (req resp : msg4) : h4res :=
  match p with
  | PDns ips =>
      Ok (Some (if is_requested 6 req then upd_opt resp 6 (enc_ips4 ips) else resp), false)
  | PMtu mtu =>
      Ok (Some (if is_requested 26 req then upd_opt resp 26 (enc_u16 mtu) else resp), false)
  | PNetmask mask => Ok (Some (upd_opt resp 1 mask), false)
  | PRouter ips => Ok (Some (upd_opt resp 3 (enc_ips4 ips)), false)
  | PSearch labels => Ok (Some (upd_opt resp 119 (enc_labels labels)), false)
  | PStaticRoute routes =>
      match routes with
      | [] => Ok (Some resp, false)
      | _ => bind (enc_routes routes) (fun v => Ok (Some (upd_opt resp 121 v), false))
      end
  | PLeaseTime d =>
      if negb (m_op req =? 1) then Ok (Some resp, false)
      else Ok (Some (if opt_has 51 (m_opts resp) then resp else upd_opt resp 51 (enc_dur d)), false)
  | PIPv6Only wait =>
      if is_listed 108 req then Ok (Some (upd_opt resp 108 (enc_dur wait)), true)
      else Ok (Some resp, false)
  | PAutoconf v =>
      if negb (msg_type resp =? 2) || negb (is_unspecified (m_yiaddr resp)) then Ok (Some resp, false)
      else match opt_get 116 (m_opts req) with
           | Some [_] => Ok (Some (upd_opt resp 116 [v]), false)
           | _ => Ok (None, true)
           end
  | PNbp o66 o67 =>
      match o67 with
      | None => Ok (Some resp, true)
      | Some v67 =>
          let r1 := match o66 with
                    | Some v66 => if is_requested 66 req then upd_opt resp 66 v66 else resp
                    | None => resp
                    end in
          Ok (Some (if is_requested 67 req then upd_opt r1 67 v67 else r1), true)
      end
  | PSleep _ => Ok (Some resp, false)
  | PServerID sid =>
      if negb (m_op req =? 1) then Ok (Some resp, false)
      else
        let names_other (ip : bytes) :=
          match ip with
          | [] => false                                   (* nil: absent *)
          | _ => negb (ip_equal ip [0;0;0;0]) && negb (ip_equal ip sid)
          end in
        (* option 54 as GetIP reads it: exactly four bytes, else absent *)
        let opt54 := match opt_get 54 (m_opts req) with
                     | Some v => if lenb v 4 then v else []
                     | None => []
                     end in
        if names_other (m_siaddr req) then Ok (None, true)
        else if names_other opt54 then Ok (None, true)
        else Ok (Some (upd_opt (set_siaddr resp (firstn 4 (sid ++ [0;0;0;0]))) 54
                               (match to4 sid with Some x => x | None => [] end)), false)
  end.
