(* ChainProofs.v — the dispatch loop, for arbitrary handlers over any request/response types (C13) *)
From Verif Require Import Base Chain.
From Coq Require Import Lia.

Section ChainProofs.
Context {Q R : Type}.

(* ====================== the dispatch loop (C13) ====================== *)
(* Complete characterisation of the invocation log of run_chain, for arbitrary handlers:
   indices are consecutive from k (configured order, each at most once), entry i holds the
   response returned by handler i-1 (the first one the initial response), every handler is
   applied to the original request, the loop ends right after the first handler that signals
   stop (or after the last handler), and the result is the response returned last. *)
Lemma run_chain_spec (hs : list (handler Q R)) : forall k req r0,
  let '(r, log) := run_chain hs k req r0 in
  map fst log = seq k (length log) /\ (length log <= length hs)%nat /\
  (hs = [] -> log = [] /\ r = r0) /\
  (hs <> [] -> nth_error log 0 = Some (k, r0)) /\
  (forall i h ri, nth_error hs i = Some h -> nth_error log i = Some ((k + i)%nat, ri) ->
     let '(ro, stop) := h req ri in
     if stop then length log = S i /\ r = ro
     else (nth_error log (S i) = Some ((k + S i)%nat, ro) /\ (S i < length hs)%nat) \/
          (S i = length hs /\ length log = S i /\ r = ro)).
Proof.
  induction hs as [|h hs IH]; intros k req r0; cbn [run_chain].
  - split; [reflexivity|]. split; [cbn; lia|]. split; [auto|]. split; [congruence|].
    intros i h ri Hh. destruct i; discriminate Hh.
  - destruct (h req r0) as [r1 stop] eqn:Eh. destruct stop.
    + cbn [map fst length seq]. split; [reflexivity|]. split; [cbn; lia|]. split; [discriminate|].
      split; [reflexivity|]. intros i h' ri Hh Hl. destruct i as [|i].
      * cbn [nth_error] in Hh, Hl. rewrite Nat.add_0_r in Hl. injection Hh as <-. injection Hl as <-. rewrite Eh. split; reflexivity.
      * cbn [nth_error] in Hl. destruct i; discriminate Hl.
    + specialize (IH (S k) req r1). destruct (run_chain hs (S k) req r1) as [r' log].
      destruct IH as (I1 & I2 & I3 & I4 & I5).
      cbn [map fst length seq]. split; [f_equal; exact I1|]. split; [cbn [length]; lia|].
      split; [discriminate|]. split; [reflexivity|].
      intros i h' ri Hh Hl. destruct i as [|i].
      * cbn [nth_error] in Hh, Hl. rewrite Nat.add_0_r in Hl. injection Hh as <-. injection Hl as <-. rewrite Eh.
        destruct hs as [|h2 hs2].
        -- right. destruct (I3 eq_refl) as (-> & ->). cbn [length]. auto.
        -- left. change (nth_error ((k, r0) :: log) 1) with (nth_error log 0).
           rewrite (I4 ltac:(discriminate)). split; [f_equal; f_equal; lia|cbn [length]; lia].
      * cbn [nth_error] in Hh, Hl. replace (k + S i)%nat with (S k + i)%nat in Hl by lia.
        specialize (I5 i h' ri Hh Hl). destruct (h' req ri) as [ro st]. destruct st.
        -- destruct I5 as (L & ->). split; [cbn [length]; lia|reflexivity].
        -- destruct I5 as [(N1 & N2)|(N1 & N2 & ->)].
           ++ left. change (nth_error ((k, r0) :: log) (S (S i))) with (nth_error log (S i)).
              cbn [length]. split; [rewrite N1; f_equal; f_equal; lia|lia].
           ++ right. cbn [length]. split; [lia|]. split; [lia|reflexivity].
Qed.

Lemma nth_error_Some_lt {A} (l : list A) i x : nth_error l i = Some x -> (i < length l)%nat.
Proof. intros H. apply nth_error_Some. congruence. Qed.

(* handlers are invoked in configured order, at most once each *)
Theorem chain_order (hs : list (handler Q R)) req r0 :
  map fst (snd (run_chain hs 0 req r0)) = seq 0 (length (snd (run_chain hs 0 req r0))) /\
  (length (snd (run_chain hs 0 req r0)) <= length hs)%nat.
Proof.
  pose proof (run_chain_spec hs 0%nat req r0) as H. destruct (run_chain hs 0 req r0) as [r log].
  cbn [snd]. split; [exact (proj1 H)|exact (proj1 (proj2 H))].
Qed.

(* handler i receives the original request and the response returned by handler i-1; after
   the first handler that signals stop nothing else runs; the result is what was returned last *)
Theorem chain_threading (hs : list (handler Q R)) req r0 i h ri :
  nth_error hs i = Some h -> nth_error (snd (run_chain hs 0 req r0)) i = Some (i, ri) ->
  (i = 0%nat -> ri = r0) /\
  (if snd (h req ri)
   then length (snd (run_chain hs 0 req r0)) = S i /\ fst (run_chain hs 0 req r0) = fst (h req ri)
   else (nth_error (snd (run_chain hs 0 req r0)) (S i) = Some (S i, fst (h req ri)) /\ (S i < length hs)%nat) \/
        (S i = length hs /\ length (snd (run_chain hs 0 req r0)) = S i /\ fst (run_chain hs 0 req r0) = fst (h req ri))).
Proof.
  intros Hh Hl. pose proof (run_chain_spec hs 0%nat req r0) as H.
  destruct (run_chain hs 0 req r0) as [r log]. cbn [fst snd] in *.
  destruct H as (_ & _ & _ & H4 & H5). split.
  - intros ->. assert (hs <> []) by (destruct hs; [discriminate|discriminate]).
    rewrite (H4 H) in Hl. congruence.
  - specialize (H5 i h ri Hh Hl). destruct (h req ri) as [ro st]. cbn [fst snd]. exact H5.
Qed.

(* every handler that runs is preceded by all handlers before it, none of which stopped *)
Theorem chain_prefix_no_stop (hs : list (handler Q R)) req r0 i j rj hj :
  (j < i)%nat -> (i < length (snd (run_chain hs 0 req r0)))%nat ->
  nth_error hs j = Some hj -> nth_error (snd (run_chain hs 0 req r0)) j = Some (j, rj) ->
  snd (hj req rj) = false.
Proof.
  intros Hji Hi Hh Hl. pose proof (chain_threading hs req r0 j hj rj Hh Hl) as (_ & H).
  destruct (snd (hj req rj)); [|reflexivity]. destruct H as (L & _). lia.
Qed.

(* with no handlers the initial response is the result *)
Theorem chain_empty (req : Q) (r0 : option R) : run_chain [] 0 req r0 = (r0, []).
Proof. reflexivity. Qed.

End ChainProofs.
