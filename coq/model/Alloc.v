(* Alloc.v — models of plugins/allocators/bitmap: the IPv4 range allocator
   (bitmap_ipv4.go) and the IPv6 fixed-size prefix allocator (bitmap.go), statement by
   statement, including error and panic points. *)
From Verif Require Import Base Net Bitset Ipcalc.
Open Scope N_scope.

(* ================= IPv4 ================= *)
Record a4 := { a4_start : N; a4_end : N; a4_bm : bitset }.

Definition be_u32_of (ip4 : bytes) : N := be_val (firstn 4 ip4).

(* NewIPv4Allocator(start, end) *)
Definition new4 (s e : bytes) : res a4 :=
  match to4 s, to4 e with
  | Some s4, Some e4 =>
      let sv := be_u32_of s4 in let ev := be_u32_of e4 in
      if ev <? sv then Err EOther
      else Ok {| a4_start := sv; a4_end := ev; a4_bm := bs_new (u32_sub ev sv + 1) |}
  | _, _ => Err EOther
  end.

Definition to_offset4 (a : a4) (ip : bytes) : res N :=
  match to4 ip with
  | None => Err EInvalidIP
  | Some ip4 =>
      let x := be_u32_of ip4 in
      if (x <? a4_start a) || (a4_end a <? x) then Err ENotInRange
      else Ok (u32_sub x (a4_start a))
  end.

(* toIP: panics when the offset is out of bounds *)
Definition to_ip4 (a : a4) (off : N) : res bytes :=
  if u32_sub (a4_end a) (a4_start a) <? off then Panic
  else Ok (be_bytes 4 (u32_add (a4_start a) off)).

Definition with_bm4 (a : a4) (b : bitset) : a4 :=
  {| a4_start := a4_start a; a4_end := a4_end a; a4_bm := b |}.

(* Allocate(hint): only hint.IP matters; the result is a /32 *)
Definition allocate4 (a : a4) (hint_ip : bytes) : a4 * res bytes :=
  let hintOffset := match to_offset4 a hint_ip with Ok o => o | _ => 0 end in
  let pick :=
    if negb (bs_test (a4_bm a) hintOffset) then Some hintOffset
    else bs_next_clear (a4_bm a) in
  match pick with
  | None => (a, Err ENoAddr)
  | Some next =>
      let a' := with_bm4 a (bs_set (a4_bm a) next) in
      (a', to_ip4 a (next mod W32))
  end.

Definition free4 (a : a4) (ip : bytes) : a4 * res unit :=
  match to_offset4 a ip with
  | Ok off =>
      if negb (bs_test (a4_bm a) off) then (a, Err EDoubleFree)
      else (with_bm4 a (bs_clear (a4_bm a) off), Ok tt)
  | _ => (a, Err ENotInRange)
  end.

(* ================= IPv6 ================= *)
Record a6 := { a6_ip : bytes; a6_mask : bytes; a6_page : Z; a6_bm : bitset }.

Definition with_bm6 (a : a6) (b : bitset) : a6 :=
  {| a6_ip := a6_ip a; a6_mask := a6_mask a; a6_page := a6_page a; a6_bm := b |}.

(* NewBitmapAllocator(pool, size) *)
Definition new6 (pip pmask : bytes) (size : Z) : res a6 :=
  let '(poolSize, _) := mask_size pmask in
  let allocOrder := (size - poolSize)%Z in
  if (allocOrder <? 0)%Z then Err EOther
  else if (allocOrder >=? 64)%Z then Err EOther
  else Ok {| a6_ip := pip; a6_mask := pmask; a6_page := size;
             a6_bm := bs_new (2 ^ Z.to_N allocOrder) |}.

(* toIndex(base) = Offset(base.To16(), containing.IP, page); a nil To16 is the empty string *)
Definition to_index6 (a : a6) (base : bytes) : res N :=
  offset (match to16 base with Some b => b | None => [] end) (a6_ip a) (a6_page a).

Definition to_prefix6 (a : a6) (idx : N) : res bytes :=
  add_prefixes (a6_ip a) idx (u64_of_int (a6_page a)).

(* Allocate(hint) : the prefix (ip, mask) *)
Definition allocate6 (a : a6) (hip hmask : bytes) : a6 * res (bytes * bytes) :=
  let '(ones, hbits) := mask_size hmask in
  let req := if ((ones <? a6_page a) || negb (hbits =? 128))%Z then a6_page a else ones in
  let rmask := cidr_mask req 128 in
  let fallback (_ : unit) :=
    match bs_next_clear (a6_bm a) with
    | None => (a, Err ENoAddr)
    | Some next =>
        let a' := with_bm6 a (bs_set (a6_bm a) next) in
        match to_prefix6 a next with
        | Ok ip => (a', Ok (ip, rmask))
        | Err _ => (with_bm6 a (bs_clear (bs_set (a6_bm a) next) next), Err EBug)
        | Panic => (a', Panic)
        end
    end in
  match to16 hip with
  | Some _ =>
      if contains (a6_ip a) (a6_mask a) hip then
        match to_index6 a hip with
        | Panic => (a, Panic)
        | Ok idx =>
            if negb (bs_test (a6_bm a) idx) then
              let a' := with_bm6 a (bs_set (a6_bm a) idx) in
              match to_prefix6 a idx with
              | Ok ip => (a', Ok (ip, rmask))
              | Err e => (a', Err e)
              | Panic => (a', Panic)
              end
            else fallback tt
        | Err _ => fallback tt
        end
      else fallback tt
  | None => fallback tt
  end.

Definition free6 (a : a6) (pip pmask : bytes) : a6 * res unit :=
  match ip_mask pip pmask with
  | None => (a, Err ENotInRange)
  | Some base =>
      if negb (contains (a6_ip a) (a6_mask a) base) then (a, Err ENotInRange)
      else match to_index6 a base with
           | Panic => (a, Panic)
           | Err _ => (a, Err ENotInRange)
           | Ok idx =>
               if negb (bs_test (a6_bm a) idx) then (a, Err EDoubleFree)
               else (with_bm6 a (bs_clear (a6_bm a) idx), Ok tt)
           end
  end.
