# Per-property configuration of ./check.  props = the file holding only the property
# theorems; run_models = executable model files the correspondence check evaluates.
TRUSTED_COMMON = [
    'Coq 8.16.1 kernel (coqc); vm_compute for finite-domain proofs, witnesses and the correspondence evaluation; native_compute not used',
    'no axioms: every property theorem prints "Closed under the global context" (checked on every run)',
    'correspondence check: Go generators, printing of observed values as Gallina terms, canonicalisation (harness/cmd/implrun)',
    'go2v translator/extractors (harness/cmd/go2v) and the hand-written Gallina meanings of Go library calls in coq/lib/Base.v',
]

PROPS = {
    'C20': {
        'props': 'props/C20.v',
        'run_models': ['model/IpcalcRun.v'],
        'trusted': ['modelled not verified: bytes.Compare, binary.BigEndian.Uint64/PutUint64, bits.Sub64/Add64/Mul64 (lib/Base.v), slice capacity = length'],
        'assumes': ['addresses are 16-byte slices whose capacity equals their length'],
        'level_text': 'Theorems offset_exact, addprefixes_exact, offset_addprefixes_inverse (coq/props/C20.v) are proved for all 128-bit operands, all p in 0..128 and all n < 2^64 about IpcalcGen.Offset/AddPrefixes, the Gallina definitions go2v regenerates from plugins/allocators/ipcalc.go on every run (bridge lemmas to the hand model re-checked each run); additionally the implementation and the model are run on the same structured cases and a math/big monitor restates the property on the implementation.',
        'level_note': 'Trusted: Coq kernel; the go2v translator and its Gallina meanings of bytes.Compare, BigEndian.Uint64/PutUint64, bits.Sub64/Add64/Mul64, Go shift semantics (lib/Base.v), all differentially tested against the real functions by the correspondence stage; slices are assumed to have capacity = length. No axioms.',
        'technique': 'Coq proof over a model regenerated from the Go source by a translator (go2v) + differential correspondence + math/big monitor',
    },
}
