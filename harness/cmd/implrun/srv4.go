package main

// C11, C13, C15: raw datagrams through HandleMsg4 via the capture hook (server/verif_hook.go),
// with chains of synthetic plugins registered through plugins.RegisterPlugin and instantiated
// by plugins.LoadPlugins.  Observed: destination, control message, payload, the layer-2
// decision (through a logrus hook on the shared logger) and the invocation log of the plugins.

import (
	"bytes"
	"errors"
	"fmt"
	"net"
	"regexp"
	"sort"
	"strconv"
	"strings"
	"sync"
	"time"

	"github.com/coredhcp/coredhcp/config"
	"github.com/coredhcp/coredhcp/handler"
	"github.com/coredhcp/coredhcp/logger"
	"github.com/coredhcp/coredhcp/plugins"
	"github.com/coredhcp/coredhcp/server"
	"github.com/insomniacslk/dhcp/dhcpv4"
	"github.com/insomniacslk/dhcp/dhcpv6"
	"github.com/sirupsen/logrus"
	"golang.org/x/net/ipv4"
)

func init() {
	runners["C11"] = func(c *Ctx) {
		runSrv4(c)
		rule := c.Extra["rule"]
		runRealChains11(c) // the same statement on chains of the real plugins
		runServeLoop4(c, c.Scale(12, 300))
		c.Extra["rule"] = fmt.Sprint(rule) + " || real chains: generated DHCPv4 configurations of the built-in plugins (incl. a range driven to exhaustion) in fresh processes, every reply held against its request and compared with the assembled model"
	}
	runners["C13"] = func(c *Ctx) {
		runSrv4(c)
		rule := c.Extra["rule"]
		runSrv6(c)
		rule6 := c.Extra["rule"]
		runPlugins(c) // the built-in handlers: a nil response only ever together with stop
		c.SetCases(asmCasesHdr, "AsmRun.mismatches")
		c.shard = 12
		runStartRandom(c, c.Scale(6, 60)) // chains loaded by server.Start: once, in order, behind every listener
		startScenarioRange(c)             // ... and every listener's receive loop hands whole datagrams to the chain, whatever came before
		startScenarioPD(c)
		runConfig(c) // the plugin lists LoadPlugins is given come from config.Load: exactly the listed items, in file order
		c.Extra["rule"] = fmt.Sprint(rule) + " || DHCPv6: " + fmt.Sprint(rule6) + " || built-in plugins: " + fmt.Sprint(c.Extra["rule"])
	}
	runners["C15"] = func(c *Ctx) {
		runSrv4(c)
		runL2Sequence(c)
		runFrames(c)
	}
}

// ---- Gallina printer for a parsed DHCPv4 message ----
func vIP4(ip net.IP) string {
	if ip == nil {
		return "[]"
	}
	if v4 := ip.To4(); v4 != nil && len(ip) == 4 {
		return vBytes(v4)
	}
	return vBytes(ip)
}

func vOpts4(o dhcpv4.Options) string {
	codes := make([]int, 0, len(o))
	for c := range o {
		codes = append(codes, int(c))
	}
	sort.Ints(codes)
	items := make([]string, 0, len(codes))
	for _, c := range codes {
		items = append(items, fmt.Sprintf("(%d, %s)", c, vBytes(o[uint8(c)])))
	}
	return vList(items)
}

func vMsg4(m *dhcpv4.DHCPv4) string {
	return fmt.Sprintf("{| m_op := %d; m_htype := %d; m_hops := %d; m_xid := %d; m_secs := %d; m_flags := %d; m_ciaddr := %s; m_yiaddr := %s; m_siaddr := %s; m_giaddr := %s; m_chaddr := %s; m_sname := %s; m_file := %s; m_opts := %s |}",
		m.OpCode, m.HWType, m.HopCount, uint32(m.TransactionID[0])<<24|uint32(m.TransactionID[1])<<16|uint32(m.TransactionID[2])<<8|uint32(m.TransactionID[3]),
		m.NumSeconds, m.Flags, vIP4(m.ClientIPAddr), vIP4(m.YourIPAddr), vIP4(m.ServerIPAddr), vIP4(m.GatewayIPAddr),
		vBytes(m.ClientHWAddr), vStr(m.ServerHostName), vStr(m.BootFileName), vOpts4(m.Options))
}

// ---- synthetic plugins ----
type vinv struct {
	idx      int
	req      *dhcpv4.DHCPv4
	resp     *dhcpv4.DHCPv4 // what the handler was handed
	ret      *dhcpv4.DHCPv4 // what it returned
	stop     bool
	digest   string // Gallina digest of resp
	behavior string
}

var (
	vmu      sync.Mutex
	vlog     []vinv
	vcounter int      // handlers instantiated since the last reset (position in the chain)
	vsetups  []string // setup calls since the last reset
	vonce    sync.Once
)

func digest4(m *dhcpv4.DHCPv4) string {
	if m == nil {
		return "None"
	}
	codes := []int{}
	for c := range m.Options {
		if c == 53 || c >= 224 {
			codes = append(codes, int(c))
		}
	}
	sort.Ints(codes)
	items := []string{}
	for _, c := range codes {
		items = append(items, fmt.Sprintf("(%d, %s)", c, vBytes(m.Options[uint8(c)])))
	}
	return "(Some " + vList(items) + ")"
}

func vtestSetup4(args ...string) (handler.Handler4, error) {
	vmu.Lock()
	idx := vcounter
	vcounter++
	vsetups = append(vsetups, "vtest:"+strings.Join(args, ","))
	vmu.Unlock()
	if len(args) < 1 {
		return nil, errors.New("vtest: need a behaviour")
	}
	tag := args[0]
	par := 0
	var ip net.IP
	switch tag {
	case "p", "x", "n", "k":
		if len(args) != 1 {
			return nil, errors.New("vtest: bad arity")
		}
	case "m", "r", "s", "t":
		if len(args) != 2 {
			return nil, errors.New("vtest: bad arity")
		}
		v, err := strconv.Atoi(args[1])
		if err != nil {
			return nil, err
		}
		if tag != "t" && (len(args[1]) != 1) {
			return nil, errors.New("vtest: one digit expected")
		}
		par = v
	case "y":
		if len(args) != 2 {
			return nil, errors.New("vtest: bad arity")
		}
		ip = net.ParseIP(args[1])
		if strings.HasSuffix(args[1], "/4") { // 4-byte form
			ip = net.ParseIP(strings.TrimSuffix(args[1], "/4")).To4()
		}
	default:
		return nil, errors.New("vtest: unknown behaviour")
	}
	return func(req, resp *dhcpv4.DHCPv4) (ret *dhcpv4.DHCPv4, stop bool) {
		in := vinv{idx: idx, req: req, resp: resp, digest: digest4(resp), behavior: strings.Join(args, " ")}
		defer func() {
			in.ret, in.stop = ret, stop
			vmu.Lock()
			vlog = append(vlog, in)
			vmu.Unlock()
		}()
		switch tag {
		case "p":
			return resp, false
		case "m":
			if resp == nil {
				return nil, false
			}
			resp.UpdateOption(dhcpv4.OptGeneric(dhcpv4.GenericOptionCode(224+par), []byte{byte(par)}))
			return resp, false
		case "r":
			t := dhcpv4.MessageTypeOffer
			if resp != nil {
				t = resp.MessageType()
			}
			n, _ := dhcpv4.NewReplyFromRequest(req)
			n.UpdateOption(dhcpv4.OptGeneric(dhcpv4.OptionDHCPMessageType, []byte{byte(t)}))
			n.UpdateOption(dhcpv4.OptGeneric(dhcpv4.GenericOptionCode(240), []byte{byte(par)}))
			return n, false
		case "s":
			if resp == nil {
				return nil, true
			}
			resp.UpdateOption(dhcpv4.OptGeneric(dhcpv4.GenericOptionCode(230), []byte{byte(par)}))
			return resp, true
		case "x":
			return nil, true
		case "n":
			return nil, false
		case "k":
			if resp == nil {
				return nil, false
			}
			resp.UpdateOption(dhcpv4.OptMessageType(dhcpv4.MessageTypeNak))
			return resp, false
		case "t":
			if resp == nil {
				return nil, false
			}
			resp.UpdateOption(dhcpv4.OptGeneric(dhcpv4.OptionDHCPMessageType, []byte{byte(par)}))
			return resp, false
		case "y":
			if resp == nil {
				return nil, false
			}
			resp.YourIPAddr = ip
			return resp, false
		}
		return resp, false
	}, nil
}

func registerSynthetic() {
	vonce.Do(func() {
		h6 := func(req, resp dhcpv6.DHCPv6) (dhcpv6.DHCPv6, bool) { return resp, false }
		plugins.RegisterPlugin(&plugins.Plugin{Name: "vtest", Setup4: vtestSetup4})
		plugins.RegisterPlugin(&plugins.Plugin{Name: "v6only", Setup6: func(args ...string) (handler.Handler6, error) {
			vmu.Lock()
			vsetups = append(vsetups, "v6only")
			vmu.Unlock()
			return h6, nil
		}})
		plugins.RegisterPlugin(&plugins.Plugin{Name: "vdual",
			Setup4: func(args ...string) (handler.Handler4, error) { return vtestSetup4("p") },
			Setup6: func(args ...string) (handler.Handler6, error) { return h6, nil }})
		fail4 := func(args ...string) (handler.Handler4, error) {
			if len(args) == 1 && args[0] == "e" {
				return nil, errors.New("vfail: setup failed")
			}
			if len(args) == 1 && args[0] == "h" { // an error together with a usable handler (as dns does on a bad argument)
				h, _ := vtestSetup4("p")
				return h, errors.New("vfail: setup failed, handler returned anyway")
			}
			return nil, nil
		}
		fail6 := func(args ...string) (handler.Handler6, error) {
			if len(args) == 1 && args[0] == "e" {
				return nil, errors.New("vfail: setup failed")
			}
			if len(args) == 1 && args[0] == "h" {
				return h6, errors.New("vfail: setup failed, handler returned anyway")
			}
			return nil, nil
		}
		plugins.RegisterPlugin(&plugins.Plugin{Name: "vfail", Setup4: fail4, Setup6: fail6})
	})
}

// ---- logrus hook: the layer-2 decision is only visible in the log ----
type l2hook struct {
	mu   sync.Mutex
	msgs []string
}

func (h *l2hook) Levels() []logrus.Level { return logrus.AllLevels }
func (h *l2hook) Fire(e *logrus.Entry) error {
	h.mu.Lock()
	h.msgs = append(h.msgs, e.Message)
	h.mu.Unlock()
	return nil
}
func (h *l2hook) take() []string {
	h.mu.Lock()
	defer h.mu.Unlock()
	m := h.msgs
	h.msgs = nil
	return m
}

var theHook *l2hook
var hookOnce sync.Once
var reL2 = regexp.MustCompile(`Can not get Interface for index (\d+)`)

func installHook() *l2hook {
	hookOnce.Do(func() {
		theHook = &l2hook{}
		e := logger.GetLogger("verif")
		e.Logger.AddHook(theHook)
		if !verbose() {
			logger.WithNoStdOutErr(e)
		}
	})
	return theHook
}

func verbose() bool { return false }

// a behaviour of the chain: Gallina text and plugin arguments
type sbeh struct {
	coq  string
	args []string
	// header-preserving and type-preserving (up to NAK): the C11 monitor applies
	wellBehaved bool
}

func behPass() sbeh { return sbeh{"BPass", []string{"p"}, true} }
func behMark(i int) sbeh {
	return sbeh{fmt.Sprintf("BMark %d", i), []string{"m", strconv.Itoa(i)}, true}
}
func behRepl(i int) sbeh {
	return sbeh{fmt.Sprintf("BReplace %d", i), []string{"r", strconv.Itoa(i)}, true}
}
func behStop(i int) sbeh {
	return sbeh{fmt.Sprintf("BStop %d", i), []string{"s", strconv.Itoa(i)}, true}
}
func behStopNil() sbeh { return sbeh{"BStopNil", []string{"x"}, true} }
func behNil() sbeh     { return sbeh{"BNil", []string{"n"}, false} }
func behNak() sbeh     { return sbeh{"BNak", []string{"k"}, true} }
func behType(t int) sbeh {
	return sbeh{fmt.Sprintf("BSetType %d", t), []string{"t", strconv.Itoa(t)}, false}
}
func behYi(ip net.IP) sbeh {
	if len(ip) == 4 {
		return sbeh{"BSetYi " + vBytes(ip), []string{"y", ip.String() + "/4"}, true}
	}
	return sbeh{"BSetYi " + vBytes(ip), []string{"y", ip.String()}, true}
}

type sent4 struct {
	payload []byte
	cm      *ipv4.ControlMessage
	dst     net.Addr
}

// runDatagram4 feeds one datagram through a fresh listener over the chain; returns the Coq case.
func runDatagram4(c *Ctx, chain []sbeh, lif int, oob *int, raw []byte, label string) {
	hook := installHook()
	registerSynthetic()
	// instantiate the chain through LoadPlugins
	conf := &config.Config{Server4: &config.ServerConfig{}}
	for _, b := range chain {
		conf.Server4.Plugins = append(conf.Server4.Plugins, config.PluginConfig{Name: "vtest", Args: b.args})
	}
	vmu.Lock()
	vcounter, vlog, vsetups = 0, nil, nil
	vmu.Unlock()
	h4, _, err := plugins.LoadPlugins(conf)
	if err != nil || len(h4) != len(chain) {
		c.Violate("harness-setup", fmt.Sprintf("LoadPlugins on a synthetic chain failed: %v (%d handlers for %d plugins)", err, len(h4), len(chain)), nil)
		return
	}
	var sents []sent4
	l := server.NewVerifListener4(h4, net.Interface{Index: lif}, func(p []byte, cm *ipv4.ControlMessage, dst net.Addr) {
		sents = append(sents, sent4{p, cm, dst})
	})
	defer l.Close()
	var cm *ipv4.ControlMessage
	oobTxt := "None"
	if oob != nil {
		cm = &ipv4.ControlMessage{IfIndex: *oob}
		oobTxt = "(Some " + vZ(int64(*oob)) + ")"
	}
	hook.take()
	c.Breadcrumb(map[string]interface{}{"what": "HandleMsg4", "datagram": fmt.Sprintf("%x", raw), "chain": behNames(chain), "listener_ifindex": lif, "oob": oobTxt})
	panicked, pv := false, interface{}(nil)
	func() {
		defer func() {
			if r := recover(); r != nil {
				panicked, pv = true, r
			}
		}()
		l.Handle(raw, cm, &net.UDPAddr{IP: net.IP{192, 0, 2, 77}, Port: 68})
	}()
	msgs := hook.take()
	input := map[string]interface{}{"datagram_hex": fmt.Sprintf("%x", raw), "chain": behNames(chain), "listener_ifindex": lif, "oob_ifindex": oobTxt, "case": label}
	if panicked {
		c.Violate("handle4-panic", fmt.Sprintf("HandleMsg4 panicked: %v (chain %v)", pv, behNames(chain)), input)
		return
	}
	// observed destination
	req, perr := dhcpv4.FromBytes(raw)
	parsedTxt := "None"
	if perr == nil {
		parsedTxt = "(Some " + vMsg4(req) + ")"
	}
	l2idx := -1
	for _, m := range msgs {
		if mm := reL2.FindStringSubmatch(m); mm != nil {
			l2idx, _ = strconv.Atoi(mm[1])
		}
	}
	destTxt, payTxt := "ONone", "None"
	var resp *dhcpv4.DHCPv4
	switch {
	case len(sents) > 1:
		c.Violate("more-than-one-reply", fmt.Sprintf("%d datagrams written for one request", len(sents)), input)
		return
	case len(sents) == 1 && l2idx >= 0:
		c.Violate("more-than-one-reply", "both a UDP datagram and a layer-2 frame for one request", input)
		return
	case len(sents) == 1:
		s := sents[0]
		ua, _ := s.dst.(*net.UDPAddr)
		ifx := "None"
		if s.cm != nil {
			ifx = "(Some " + vZ(int64(s.cm.IfIndex)) + ")"
		}
		var e2 error
		resp, e2 = dhcpv4.FromBytes(s.payload)
		if e2 != nil || ua == nil {
			c.Violate("reply-unparseable", fmt.Sprintf("the reply does not parse: %v", e2), input)
			return
		}
		ip := ua.IP.To4()
		if ip == nil {
			ip = net.IP{0, 0, 0, 0}
		}
		destTxt = fmt.Sprintf("ODUdp %s %s %s", vBytes(ip), vZ(int64(ua.Port)), ifx)
		payTxt = "(Some " + vMsg4(resp) + ")"
	case l2idx >= 0:
		destTxt = fmt.Sprintf("ODL2 %s", vZ(int64(l2idx)))
	}
	// invocation log
	vmu.Lock()
	lg := append([]vinv(nil), vlog...)
	vmu.Unlock()
	logItems := []string{}
	for _, in := range lg {
		logItems = append(logItems, fmt.Sprintf("(%d%%nat, %s)", in.idx, in.digest))
	}
	bs := []string{}
	for _, b := range chain {
		bs = append(bs, b.coq)
	}
	c.AddCase(fmt.Sprintf("CS4 %s %s %s %s (%s) %s %s", vList(bs), vZ(int64(lif)), oobTxt, parsedTxt, destTxt, payTxt, vList(logItems)))
	c.Eval(fmt.Sprintf("%x|%v|%d|%s", raw, behNames(chain), lif, oobTxt), perr == nil)
	c.Count("case:" + label)
	if destTxt == "ONone" {
		c.Count("outcome:no-reply")
	} else if l2idx >= 0 {
		c.Count("outcome:layer2")
	} else {
		c.Count("outcome:udp")
	}
	if c.Evals%97 == 0 {
		c.Sample(map[string]interface{}{"case": label, "chain": behNames(chain), "datagram_hex": fmt.Sprintf("%x", raw), "listener_ifindex": lif, "oob": oobTxt, "observed": destTxt, "log_len": len(lg)})
	}

	// ---------------- monitors ----------------
	answered := len(sents) == 1 || l2idx >= 0
	// C11: only parsed BOOTREQUESTs of type DISCOVER/REQUEST are answered
	if answered {
		if perr != nil {
			c.vio("C11", "reply-to-unparseable", "a datagram the library rejects was answered", input)
		} else {
			mt := req.MessageType()
			if req.OpCode != dhcpv4.OpcodeBootRequest {
				c.vio("C11", "reply-to-non-request", fmt.Sprintf("a datagram with opcode %d was answered", req.OpCode), input)
			}
			if mt != dhcpv4.MessageTypeDiscover && mt != dhcpv4.MessageTypeRequest {
				c.vio("C11", "reply-to-other-type", fmt.Sprintf("message type %d (option 53 = %x) was answered", mt, req.Options.Get(dhcpv4.OptionDHCPMessageType)), input)
			}
		}
	}
	wb := true
	for _, b := range chain {
		wb = wb && b.wellBehaved
	}
	if resp != nil && perr == nil && wb {
		bad := []string{}
		if resp.OpCode != dhcpv4.OpcodeBootReply {
			bad = append(bad, fmt.Sprintf("opcode %d", resp.OpCode))
		}
		if resp.TransactionID != req.TransactionID {
			bad = append(bad, "xid")
		}
		if resp.HWType != req.HWType {
			bad = append(bad, "htype")
		}
		if !bytes.Equal(resp.ClientHWAddr, req.ClientHWAddr) {
			bad = append(bad, "chaddr")
		}
		if resp.Flags != req.Flags {
			bad = append(bad, "flags")
		}
		if !resp.GatewayIPAddr.Equal(req.GatewayIPAddr) {
			bad = append(bad, "giaddr")
		}
		for _, code := range []dhcpv4.OptionCode{dhcpv4.OptionRelayAgentInformation, dhcpv4.OptionClientIdentifier} {
			if v := req.Options.Get(code); len(v) > 0 && !bytes.Equal(resp.Options.Get(code), v) {
				bad = append(bad, fmt.Sprintf("option %d not echoed", code.Code()))
			}
		}
		rt := resp.MessageType()
		switch req.MessageType() {
		case dhcpv4.MessageTypeDiscover:
			if rt != dhcpv4.MessageTypeOffer && rt != dhcpv4.MessageTypeNak {
				bad = append(bad, fmt.Sprintf("DISCOVER answered with type %d", rt))
			}
		case dhcpv4.MessageTypeRequest:
			if rt != dhcpv4.MessageTypeAck && rt != dhcpv4.MessageTypeNak {
				bad = append(bad, fmt.Sprintf("REQUEST answered with type %d", rt))
			}
		}
		if len(bad) > 0 {
			c.vio("C11", "reply-mismatch", "the reply does not match its request: "+strings.Join(bad, ", "), input)
		}
	}
	// C13: order, at most once, threading, stop, result
	if perr == nil && req.OpCode == dhcpv4.OpcodeBootRequest && (req.MessageType() == dhcpv4.MessageTypeDiscover || req.MessageType() == dhcpv4.MessageTypeRequest) {
		var prevRet *dhcpv4.DHCPv4
		stopped := false
		for k, in := range lg {
			if in.idx != k {
				c.vio("C13", "chain-order", fmt.Sprintf("invocation %d ran handler %d (chain %v)", k, in.idx, behNames(chain)), input)
				break
			}
			if stopped {
				c.vio("C13", "chain-after-stop", fmt.Sprintf("handler %d ran after a handler signalled stop (chain %v)", in.idx, behNames(chain)), input)
			}
			if in.req == nil || in.req.TransactionID != req.TransactionID || !bytes.Equal(in.req.ToBytes(), req.ToBytes()) {
				c.vio("C13", "chain-request", fmt.Sprintf("handler %d did not receive the original request", in.idx), input)
			}
			if k > 0 && in.resp != prevRet {
				c.vio("C13", "chain-threading", fmt.Sprintf("handler %d was not handed the response returned by handler %d (chain %v)", in.idx, in.idx-1, behNames(chain)), input)
			}
			prevRet = in.ret
			stopped = in.stop
		}
		if !stopped && len(lg) != len(chain) {
			c.vio("C13", "chain-incomplete", fmt.Sprintf("%d of %d handlers ran although none signalled stop (chain %v)", len(lg), len(chain), behNames(chain)), input)
		}
		if len(lg) > 0 {
			last := lg[len(lg)-1].ret
			if last == nil && answered {
				c.vio("C13", "nil-response-sent", "the chain returned nil but a reply was sent", input)
			}
			if last != nil && len(sents) == 1 && !bytes.Equal(last.ToBytes(), sents[0].payload) {
				c.vio("C13", "sent-not-last", "what was sent is not the response returned last", input)
			}
		}
	}
	// C15: destination per RFC 2131 section 4.1
	if perr == nil && answered && req.OpCode == dhcpv4.OpcodeBootRequest {
		// the reply type decides the NAK rule: from the payload, or (layer 2) from the last returned response
		var last *dhcpv4.DHCPv4
		if len(lg) > 0 {
			last = lg[len(lg)-1].ret
		}
		if resp != nil {
			last = resp
		}
		zero := func(ip net.IP) bool { return ip == nil || ip.IsUnspecified() }
		wantL2 := false
		var wantIP net.IP
		wantPort := dhcpv4.ClientPort
		switch {
		case !zero(req.GatewayIPAddr):
			wantIP, wantPort = req.GatewayIPAddr, dhcpv4.ServerPort
		case last != nil && last.MessageType() == dhcpv4.MessageTypeNak:
			wantIP = net.IPv4bcast
		case !zero(req.ClientIPAddr):
			wantIP = req.ClientIPAddr
		case req.IsBroadcast():
			wantIP = net.IPv4bcast
		default:
			wantL2 = true
		}
		wantIf := lif
		if wantIf == 0 && oob != nil {
			wantIf = *oob
		}
		switch {
		case wantL2 && l2idx < 0:
			c.vio("C15", "dest-not-layer2", fmt.Sprintf("expected a link-level unicast, got %s", destTxt), input)
		case wantL2 && l2idx != wantIf:
			c.vio("C15", "dest-interface", fmt.Sprintf("link-level reply on interface %d, expected %d", l2idx, wantIf), input)
		case !wantL2 && len(sents) != 1:
			c.vio("C15", "dest-not-udp", fmt.Sprintf("expected a datagram to %v:%d, got %s", wantIP, wantPort, destTxt), input)
		case !wantL2:
			ua := sents[0].dst.(*net.UDPAddr)
			if !ua.IP.Equal(wantIP) || ua.Port != wantPort {
				c.vio("C15", "dest-address", fmt.Sprintf("reply sent to %v:%d, RFC 2131 4.1 says %v:%d", ua.IP, ua.Port, wantIP, wantPort), input)
			}
			pin := wantIP.Equal(net.IPv4bcast) || wantIP.IsLinkLocalUnicast()
			got := 0
			if sents[0].cm != nil {
				got = sents[0].cm.IfIndex
			}
			if pin && got != wantIf {
				c.vio("C15", "dest-interface", fmt.Sprintf("reply to %v pinned to interface %d, expected %d", wantIP, got, wantIf), input)
			}
			if !pin && sents[0].cm != nil {
				c.vio("C15", "dest-pinned-routable", fmt.Sprintf("reply to the routable address %v is pinned to interface %d", wantIP, got), input)
			}
		}
	}
	if perr == nil && !answered && req.OpCode == dhcpv4.OpcodeBootRequest && len(lg) > 0 && lg[len(lg)-1].ret != nil {
		// a non-nil response that was not sent: only legitimate on the layer-2 path without any interface
		wantIf := lif
		if wantIf == 0 && oob != nil {
			wantIf = *oob
		}
		if wantIf != 0 {
			c.vio("C13", "response-not-sent", fmt.Sprintf("the chain returned a response but nothing was sent (%s)", destTxt), input)
		}
	}
}

func behNames(ch []sbeh) []string {
	out := make([]string, len(ch))
	for i, b := range ch {
		out[i] = strings.Join(b.args, " ")
	}
	return out
}

type req4spec struct {
	op            byte
	mtype         []byte // nil = absent
	giaddr, ciadr net.IP
	bflag         bool
	chaddr        []byte
	xid           uint32
	flags         uint16 // when non-zero: the raw flags field (reserved bits included)
	opt61, opt82  []byte
	extra         map[uint8][]byte
	htype         uint16
}

func buildReq4(s req4spec) []byte {
	m, _ := dhcpv4.New()
	m.OpCode = dhcpv4.OpcodeType(s.op)
	m.TransactionID = dhcpv4.TransactionID{byte(s.xid >> 24), byte(s.xid >> 16), byte(s.xid >> 8), byte(s.xid)}
	if s.giaddr != nil {
		m.GatewayIPAddr = s.giaddr
	}
	if s.ciadr != nil {
		m.ClientIPAddr = s.ciadr
	}
	if s.bflag {
		m.SetBroadcast()
	}
	if s.flags != 0 {
		m.Flags = s.flags
	}
	if s.chaddr != nil {
		m.ClientHWAddr = s.chaddr
	}
	if s.mtype != nil {
		m.Options[53] = s.mtype
	}
	if s.opt61 != nil {
		m.Options[61] = s.opt61
	}
	if s.opt82 != nil {
		m.Options[82] = s.opt82
	}
	for k, v := range s.extra {
		m.Options[k] = v
	}
	return m.ToBytes()
}

func randReq4(c *Ctx) req4spec {
	r := c.R
	s := req4spec{op: 1, xid: uint32(r.U64()), chaddr: r.Bytes([]int{0, 1, 6, 6, 6, 8, 16}[r.Intn(7)])}
	if r.Bool() {
		s.mtype = []byte{1}
	} else {
		s.mtype = []byte{3}
	}
	ips := []net.IP{nil, {10, 1, 2, 3}, {169, 254, 7, 9}, {255, 255, 255, 255}, {192, 168, 0, 1}}
	s.giaddr = ips[r.Intn(len(ips))]
	s.ciadr = ips[r.Intn(len(ips))]
	s.bflag = r.Bool()
	if r.Pct(25) {
		s.flags = []uint16{0x0001, 0x8001, 0x7fff, 0xffff, 0x4000, uint16(r.U64())}[r.Intn(6)] // reserved bits set
	}
	if r.Pct(40) {
		s.opt61 = r.Bytes(1 + r.Intn(9))
	}
	if r.Pct(10) {
		s.opt61 = []byte{}
	}
	if r.Pct(40) {
		s.opt82 = r.Bytes(1 + r.Intn(12))
	}
	if r.Pct(30) {
		s.extra = map[uint8][]byte{55: {1, 3, 6, 15}, 12: []byte("host")}
	}
	if r.Pct(25) {
		// options a server might be tempted to act on: Rapid Commit (80), requested address, lease time, ...
		if s.extra == nil {
			s.extra = map[uint8][]byte{}
		}
		code := []uint8{80, 80, 50, 51, 57, 60, 77, 93, 118, 255 - 1, 97, 97, 94}[r.Intn(13)]
		s.extra[code] = [][]byte{{}, {1}, {10, 0, 0, 9}, {0, 0, 14, 16}, {0, 1, 2, 3, 4, 5, 6, 7, 8, 9, 10, 11, 12, 13, 14, 15, 16}}[r.Intn(5)]
	}
	if r.Pct(8) {
		// a small maximum message size against a long relay-agent / client identifier: the echo is not optional
		if s.extra == nil {
			s.extra = map[uint8][]byte{}
		}
		s.extra[57] = [][]byte{{2, 64}, {2, 65}, {1, 44}, {5, 220}}[r.Intn(4)]
		s.opt82 = r.Bytes([]int{200, 255, 300, 520}[r.Intn(4)])
		if r.Bool() {
			s.opt61 = r.Bytes(1 + r.Intn(250))
		}
	}
	return s
}

func runSrv4(c *Ctx) {
	c.SetCases("From Verif Require Import Base Msg4 Server4 Server4Run.", "Server4Run.mismatches")
	c.shard = 250
	r := c.R
	intp := func(i int) *int { return &i }
	// corpus F12: unbound listener, no interface information, layer-2 path: must not panic
	runDatagram4(c, nil, 0, nil, buildReq4(req4spec{op: 1, mtype: []byte{1}, chaddr: []byte{2, 0, 0, 0, 0, 1}, xid: 7}), "corpus-F12")
	runDatagram4(c, nil, 0, intp(0), buildReq4(req4spec{op: 1, mtype: []byte{3}, chaddr: []byte{2, 0, 0, 0, 0, 1}, xid: 8}), "corpus-F12")

	// --- (1) opcode x message type table (C11) ---
	mtypes := [][]byte{nil, {}, {1, 0}, {3, 3}}
	for t := 0; t <= 18; t++ {
		mtypes = append(mtypes, []byte{byte(t)})
	}
	mtypes = append(mtypes, []byte{255}, []byte{128})
	ops := []int{0, 1, 2, 3, 127, 255}
	for _, op := range ops {
		for _, mt := range mtypes {
			s := randReq4(c)
			s.op, s.mtype = byte(op), mt
			runDatagram4(c, []sbeh{behMark(1)}, 7001, nil, buildReq4(s), "opcode-type-table")
		}
	}
	for op := 0; op < 256; op++ {
		if c.Thorough() || op < 8 || op%5 == 0 {
			for _, mt := range [][]byte{{1}, {3}} {
				s := randReq4(c)
				s.op, s.mtype = byte(op), mt
				runDatagram4(c, nil, 7001, nil, buildReq4(s), "opcode-type-table")
			}
		}
	}
	// --- (2) the addressing table (C15) ---
	addr := []net.IP{nil, {10, 1, 2, 3}, {169, 254, 7, 9}, {255, 255, 255, 255}}
	for _, gi := range addr {
		for _, ci := range addr {
			for _, bf := range []bool{false, true} {
				for _, nak := range []bool{false, true} {
					for _, yi := range []net.IP{nil, {10, 0, 0, 9}, net.ParseIP("10.0.0.10")} {
						for _, lif := range []int{0, 7001} {
							for _, oob := range []*int{nil, intp(0), intp(7002)} {
								if !c.Thorough() && r.Pct(55) {
									continue
								}
								s := randReq4(c)
								s.giaddr, s.ciadr, s.bflag = gi, ci, bf
								var ch []sbeh
								if yi != nil {
									ch = append(ch, behYi(yi))
								}
								if nak {
									ch = append(ch, behNak())
								}
								runDatagram4(c, ch, lif, oob, buildReq4(s), "addressing-table")
							}
						}
					}
				}
			}
		}
	}
	// --- (3) chains (C13) ---
	core := func(i int) []sbeh { return []sbeh{behPass(), behMark(i), behRepl(i), behStop(i), behStopNil()} }
	var rec func(prefix []sbeh, depth int)
	maxDepth := c.Scale(3, 4)
	rec = func(prefix []sbeh, depth int) {
		runDatagram4(c, prefix, 7001, nil, buildReq4(randReq4(c)), "chain-exhaustive")
		if depth == maxDepth {
			return
		}
		for _, b := range core(len(prefix)) {
			rec(append(append([]sbeh{}, prefix...), b), depth+1)
		}
	}
	rec(nil, 0)
	all := func(i int) []sbeh {
		return append(core(i), behNil(), behNak(), behType(r.Intn(20)), behYi(net.IP{10, 0, 0, byte(1 + r.Intn(200))}))
	}
	for i := 0; i < c.Scale(400, 6000); i++ {
		n := r.Intn(6)
		var ch []sbeh
		for k := 0; k < n; k++ {
			a := all(k)
			ch = append(ch, a[r.Intn(len(a))])
		}
		var oob *int
		if r.Bool() {
			oob = intp([]int{0, 7002, 7003}[r.Intn(3)])
		}
		runDatagram4(c, ch, []int{0, 7001}[r.Intn(2)], oob, buildReq4(randReq4(c)), "chain-random")
	}
	// --- (4) malformed datagrams ---
	for i := 0; i < c.Scale(120, 2000); i++ {
		raw := buildReq4(randReq4(c))
		switch r.Intn(5) {
		case 4:
			// cut exactly at the End option: every option is whole, only End (and the padding) is missing
			if k := bytes.LastIndexByte(bytes.TrimRight(raw, "\x00"), 255); k >= 240 {
				raw = raw[:k]
			}
		case 0:
			raw = raw[:r.Intn(len(raw))]
		case 1:
			raw[r.Intn(len(raw))] ^= byte(1 << r.Intn(8))
		case 2:
			raw = r.Bytes(r.Intn(300))
		case 3:
			raw = append(raw[:240], r.Bytes(r.Intn(40))...)
		}
		runDatagram4(c, []sbeh{behMark(0)}, 7001, nil, raw, "malformed")
	}
	// --- (5) LoadPlugins (C13) ---
	runLoadPlugins(c)
	// --- (6) real sockets: what listen4 sets up (C15) ---
	runListen4(c)
	c.Extra["rule"] = "datagrams through HandleMsg4 via the capture hook: opcode x message-type table (6 opcodes x 27 option-53 values incl. absent/empty/2 bytes; all opcodes with DISCOVER/REQUEST), the RFC 2131 4.1 addressing table (giaddr/ciaddr in {0, routable, link-local, broadcast} x broadcast flag x NAK x yiaddr x bound/unbound listener x control message), all chains of <=3 synthetic plugins over {pass, mark, replace, stop, stop-with-nil} and random chains of <=5 over 9 behaviours, malformed datagrams, LoadPlugins configurations; non-trivial = distinct case whose datagram parses"
}

func runLoadPlugins(c *Ctx) {
	registerSynthetic()
	r := c.R
	type item struct {
		name string
		args []string
		coq  string // behaviour if it yields a DHCPv4 handler
	}
	pool := []item{
		{"vtest", []string{"p"}, "BPass"}, {"vtest", []string{"m", "3"}, "BMark 3"}, {"vtest", []string{"s", "1"}, "BStop 1"},
		{"vtest", []string{"x"}, "BStopNil"}, {"vtest", []string{"k"}, "BNak"}, {"vtest", []string{"r", "2"}, "BReplace 2"},
		{"v6only", nil, ""}, {"vdual", nil, "BPass"}, {"vfail", []string{"e"}, "!"}, {"vfail", []string{"z"}, "!"}, {"vfail", []string{"h"}, "!"},
		{"nosuchplugin", nil, "?"}, {"vtest", []string{"q"}, "!"}, {"vtest", nil, "!"},
	}
	vname := func(s string) string { return vStr(s) }
	mk := func(n int, goodOnly bool) ([]config.PluginConfig, string) {
		var out []config.PluginConfig
		var items []string
		for i := 0; i < n; i++ {
			it := pool[r.Intn(len(pool))]
			if goodOnly || r.Pct(70) {
				it = pool[r.Intn(8)]
			}
			out = append(out, config.PluginConfig{Name: it.name, Args: it.args})
			as := []string{}
			for _, a := range it.args {
				as = append(as, vStr(a))
			}
			items = append(items, fmt.Sprintf("(%s, %s)", vname(it.name), vList(as)))
		}
		return out, vList(items)
	}
	for i := 0; i < c.Scale(300, 4000); i++ {
		conf := &config.Config{}
		c6, c4 := "None", "None"
		if r.Pct(70) {
			p, t := mk(r.Intn(6), r.Pct(60))
			conf.Server4 = &config.ServerConfig{Plugins: p}
			c4 = "(Some " + t + ")"
		}
		if r.Pct(50) {
			p, t := mk(r.Intn(4), r.Pct(70))
			conf.Server6 = &config.ServerConfig{Plugins: p}
			c6 = "(Some " + t + ")"
		}
		vmu.Lock()
		vcounter, vlog, vsetups = 0, nil, nil
		vmu.Unlock()
		h4, h6, err := plugins.LoadPlugins(conf)
		res := "None"
		input := map[string]interface{}{"server4": c4, "server6": c6}
		if err == nil {
			// identify each DHCPv4 handler by running it on a probe and looking at its log entry
			bs := []string{}
			for k, h := range h4 {
				vmu.Lock()
				vlog = nil
				vmu.Unlock()
				req, _ := dhcpv4.New()
				resp, _ := dhcpv4.NewReplyFromRequest(req)
				h(req, resp)
				vmu.Lock()
				if len(vlog) != 1 {
					c.vio("C13", "load-handler-unknown", "a loaded handler is not one of the configured plugins", input)
				} else {
					bs = append(bs, behCoq(vlog[0].behavior))
					if vlog[0].idx != k {
						c.vio("C13", "load-order", fmt.Sprintf("handler %d of the loaded list is the plugin instantiated %d-th", k, vlog[0].idx), input)
					}
				}
				vmu.Unlock()
			}
			res = fmt.Sprintf("(Some (%s, %d%%nat))", vList(bs), len(h6))
		}
		c.AddCase(fmt.Sprintf("CLoad %s %s %s", c6, c4, res))
		c.Eval("load|"+c6+"|"+c4, conf.Server4 != nil || conf.Server6 != nil)
		c.Count("case:load-plugins")
		if err != nil {
			c.Count("outcome:load-error")
		}
		// monitor: expected list computed independently
		if conf.Server4 != nil || conf.Server6 != nil {
			wantErr := false
			want4 := 0
			for _, sc := range []*config.ServerConfig{conf.Server6, conf.Server4} {
				if sc == nil {
					continue
				}
				for _, p := range sc.Plugins {
					switch {
					case p.Name == "nosuchplugin", p.Name == "vfail":
						wantErr = true
					case p.Name == "vtest" && sc == conf.Server4:
						if len(p.Args) == 0 || p.Args[0] == "q" {
							wantErr = true
						} else {
							want4++
						}
					case p.Name == "vdual" && sc == conf.Server4:
						want4++
					}
				}
			}
			if wantErr != (err != nil) {
				c.vio("C13", "load-error", fmt.Sprintf("LoadPlugins error=%v, expected error=%v", err, wantErr), input)
			} else if err == nil && len(h4) != want4 {
				c.vio("C13", "load-count", fmt.Sprintf("LoadPlugins returned %d DHCPv4 handlers, expected %d", len(h4), want4), input)
			}
		} else if err == nil {
			c.vio("C13", "load-error", "LoadPlugins accepted a configuration without any server section", input)
		}
	}
}

func behCoq(args string) string {
	f := strings.Fields(args)
	switch f[0] {
	case "p":
		return "BPass"
	case "m":
		return "BMark " + f[1]
	case "r":
		return "BReplace " + f[1]
	case "s":
		return "BStop " + f[1]
	case "x":
		return "BStopNil"
	case "n":
		return "BNil"
	case "k":
		return "BNak"
	}
	return "BPass"
}

// runListen4 opens real sockets on the loopback interface through listen4 (via the hook),
// sends a probe DISCOVER with the broadcast flag from a client socket and looks at what
// the listener knows about interfaces: its own index, the control message of the probe, and
// the interface the (captured) reply is pinned to.
func runListen4(c *Ctx) {
	lo, err := net.InterfaceByName("lo")
	if err != nil {
		c.Notes = append(c.Notes, "no loopback interface: socket set-up not observed")
		return
	}
	type lcase struct {
		ip   net.IP
		zone string
	}
	cases := []lcase{{net.IP{127, 0, 0, 1}, ""}, {net.IPv4zero, ""}, {net.IP{127, 0, 0, 1}, "lo"}, {net.IPv4zero, "lo"}, {net.IP{127, 0, 0, 2}, ""}}
	for _, lc := range cases {
		var sents []sent4
		l, err := server.VerifListen4(&net.UDPAddr{IP: lc.ip, Port: 0, Zone: lc.zone}, nil, func(p []byte, cm *ipv4.ControlMessage, dst net.Addr) {
			sents = append(sents, sent4{p, cm, dst})
		})
		input := map[string]interface{}{"listen": fmt.Sprintf("%v%%%s", lc.ip, lc.zone)}
		if err != nil {
			c.Notes = append(c.Notes, fmt.Sprintf("listen4(%v%%%s) failed: %v", lc.ip, lc.zone, err))
			c.Count("listen4:unavailable")
			continue
		}
		port := l.LocalAddr().(*net.UDPAddr).Port
		dst := lc.ip
		if dst.IsUnspecified() {
			dst = net.IP{127, 0, 0, 1}
		}
		cl, err := net.DialUDP("udp4", nil, &net.UDPAddr{IP: dst, Port: port})
		if err != nil {
			l.CloseSocket()
			continue
		}
		probe := buildReq4(req4spec{op: 1, mtype: []byte{1}, bflag: true, chaddr: []byte{2, 0, 0, 0, 0, 9}, xid: 99})
		cl.Write(probe)
		type rx struct {
			data []byte
			oob  *ipv4.ControlMessage
			peer *net.UDPAddr
			err  error
		}
		ch := make(chan rx, 1)
		go func() {
			d, o, p, e := l.Receive()
			ch <- rx{d, o, p, e}
		}()
		var got rx
		select {
		case got = <-ch:
		case <-timeAfter(2000):
			got.err = errors.New("timeout")
		}
		cl.Close()
		if got.err != nil {
			c.Notes = append(c.Notes, fmt.Sprintf("listen4(%v%%%s): probe not received: %v", lc.ip, lc.zone, got.err))
			l.CloseSocket()
			continue
		}
		zoneTxt, oobTxt := "None", "None"
		if lc.zone != "" {
			zoneTxt = "(Some " + vZ(int64(lo.Index)) + ")"
		}
		if got.oob != nil {
			oobTxt = "(Some " + vZ(int64(got.oob.IfIndex)) + ")"
		}
		c.AddCase(fmt.Sprintf("CListen %s %s %s %s", zoneTxt, vZ(int64(lo.Index)), vZ(int64(l.IfIndex())), oobTxt))
		c.Eval("listen4|"+lc.ip.String()+"|"+lc.zone, true)
		c.Count("case:listen4-socket")
		// end to end: the reply to this broadcast-flag DISCOVER must be pinned to the loopback interface
		l.Handle(got.data, got.oob, got.peer)
		if len(sents) != 1 {
			c.vio("C15", "dest-not-udp", fmt.Sprintf("listener on %v%%%s: probe DISCOVER with the broadcast flag was not answered by one datagram", lc.ip, lc.zone), input)
		} else if sents[0].cm == nil || sents[0].cm.IfIndex != lo.Index {
			gotIf := 0
			if sents[0].cm != nil {
				gotIf = sents[0].cm.IfIndex
			}
			c.vio("C15", "dest-interface", fmt.Sprintf("listener opened on %v (zone %q): the broadcast reply is pinned to interface %d, expected the receiving interface %d (listener index %d, control message %s)", lc.ip, lc.zone, gotIf, lo.Index, l.IfIndex(), oobTxt), input)
		}
		l.CloseSocket()
	}
}

func timeAfter(ms int) <-chan time.Time { return time.After(time.Duration(ms) * time.Millisecond) }

// runL2Sequence (C15): ONE unbound listener answers a sequence of layer-2 replies for requests that
// arrived on different interfaces.  The first arrives on the loopback interface (which exists, so the
// frame is really handed to it); the following ones on interfaces 7001 and 7002, which do not exist:
// each of them must make the server look up exactly that interface (observed through the
// "Can not get Interface for index N" log line) - not reuse the one of an earlier reply.
func runL2Sequence(c *Ctx) {
	hook := installHook()
	registerSynthetic()
	lo, err := net.InterfaceByName("lo")
	if err != nil {
		c.Count("l2-sequence:skipped-no-loopback")
		return
	}
	conf := &config.Config{Server4: &config.ServerConfig{Plugins: []config.PluginConfig{{Name: "vtest", Args: []string{"p"}}}}}
	h4, _, err := plugins.LoadPlugins(conf)
	if err != nil {
		return
	}
	l := server.NewVerifListener4(h4, net.Interface{}, func(p []byte, cm *ipv4.ControlMessage, dst net.Addr) {})
	defer l.Close()
	seq := []int{lo.Index, 7001, lo.Index, 7002, 7001}
	var seen []string
	for i, idx := range seq {
		s := req4spec{op: 1, mtype: []byte{1}, chaddr: []byte{2, 5, 0, 0, 0, byte(i)}, xid: uint32(0x15000 + i)}
		hook.take()
		func() {
			defer func() { recover() }()
			l.Handle(buildReq4(s), &ipv4.ControlMessage{IfIndex: idx}, &net.UDPAddr{IP: net.IPv4zero, Port: 68})
		}()
		got := -1
		for _, m := range hook.take() {
			if mm := reL2.FindStringSubmatch(m); mm != nil {
				got, _ = strconv.Atoi(mm[1])
			}
		}
		seen = append(seen, fmt.Sprintf("request on interface %d -> lookup failure logged for %d", idx, got))
		c.Evals++
		if idx != lo.Index && got != idx {
			c.vio("C15", "l2-wrong-interface", fmt.Sprintf("layer-2 reply %d of one unbound listener: the request arrived on interface %d, but the server did not look that interface up (it logged index %d; an interface of an earlier reply reused?)", i, idx, got),
				map[string]interface{}{"sequence of receiving interfaces": seq, "observed": seen})
		}
	}
	c.Count("l2-sequence")
}
