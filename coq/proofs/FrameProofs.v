(* FrameProofs.v — the layer-2 frame of server/sendEthernet.go (lib/Frame.v): a receiver reads off
   exactly the fields RFC 2131 section 4.1 asks for, both checksums verify, the lengths agree and the
   payload parses to the reply. *)
From Coq Require Import List Arith NArith Bool Lia ZifyN ZifyNat ZifyBool.
From Verif Require Import Base BaseProofs Net Msg4 Opt4Codec Msg4Codec Frame Opt4Proofs Msg4CodecProofs.
Import ListNotations.
Open Scope N_scope.
Ltac Zify.zify_post_hook ::= Z.div_mod_to_equations.

(* ---------- ones-complement arithmetic ---------- *)
Lemma fold1_small t : t <= 65535 -> fold1 t = t.
Proof. unfold fold1. intros H. lia. Qed.

Lemma fold1_eq t : t = fold1 t + 65535 * (t / 65536).
Proof. unfold fold1. lia. Qed.

Lemma fold1_zero t : fold1 t = 0 -> t = 0.
Proof. unfold fold1. lia. Qed.

Lemma fold1_le t : fold1 t <= t.
Proof. unfold fold1. lia. Qed.

Lemma fold16_bound t : t < 4294967296 -> fold16 t <= 65535.
Proof.
  intros H. unfold fold16.
  assert (H1 : fold1 t <= 131070) by (unfold fold1; lia).
  assert (H2 : fold1 (fold1 t) <= 65536) by (unfold fold1 at 1; lia).
  unfold fold1 at 1. lia.
Qed.

Lemma fold16_eq t : exists k, t = fold16 t + 65535 * k.
Proof.
  unfold fold16.
  exists (t / 65536 + fold1 t / 65536 + fold1 (fold1 t) / 65536).
  pose proof (fold1_eq t). pose proof (fold1_eq (fold1 t)). pose proof (fold1_eq (fold1 (fold1 t))). lia.
Qed.

Lemma fold16_zero t : fold16 t = 0 -> t = 0.
Proof. unfold fold16. intros H. apply fold1_zero, fold1_zero, fold1_zero. exact H. Qed.

(* a datagram whose checksum field holds csum16 of the rest sums to 0xffff: the receiver's test *)
Lemma csum_verifies t : t + 65535 < 4294967296 -> fold16 (t + csum16 t) = 65535.
Proof.
  intros H. unfold csum16.
  assert (Hb : fold16 t <= 65535) by (apply fold16_bound; lia).
  set (s := t + (65535 - fold16 t)).
  assert (Hs : s < 4294967296) by (unfold s; lia).
  pose proof (fold16_bound s Hs) as Hsb.
  destruct (fold16_eq t) as [k Hk]. destruct (fold16_eq s) as [k' Hk'].
  assert (Hnz : fold16 s <> 0).
  { intros Hz. apply fold16_zero in Hz. unfold s in Hz. lia. }
  assert (Hs' : s = 65535 * (k + 1)) by (unfold s; lia).
  lia.
Qed.

Lemma sum16_be2 x : x < 65536 -> sum16 (be2 x) = x.
Proof. intros H. unfold be2. cbn [sum16]. lia. Qed.

Lemma be_val_be2 x : x < 65536 -> be_val (be2 x) = x.
Proof. intros H. unfold be2, be_val. cbn [fold_left]. lia. Qed.

Lemma sum16_bound_n n : forall p, (length p <= n)%nat -> wf_bytes p -> sum16 p <= 32768 * N.of_nat (length p) + 32768.
Proof.
  induction n as [|n IH]; intros p Hl Hw.
  - destruct p; [cbn; lia|cbn in Hl; lia].
  - destruct p as [|hi [|lo r]].
    + cbn. lia.
    + inversion Hw as [|? ? Hhi _]; subst. cbn [sum16 length]. lia.
    + inversion Hw as [|? ? Hhi Hw']; subst. inversion Hw' as [|? ? Hlo Hr]; subst.
      cbn [sum16]. assert (Hl' : (length r <= n)%nat) by (cbn in Hl; lia).
      specialize (IH r Hl' Hr). cbn [length]. lia.
Qed.

Lemma sum16_bound p : wf_bytes p -> sum16 p <= 32768 * N.of_nat (length p) + 32768.
Proof. apply (sum16_bound_n (length p)). lia. Qed.

(* ---------- the shape of the frame ---------- *)
Lemma dec_frame_shape d0 d1 d2 d3 d4 d5 s0 s1 s2 s3 s4 s5 tl ck a0 a1 a2 a3 b0 b1 b2 b3 ul uk p :
  dec_frame (eth_hdr [d0;d1;d2;d3;d4;d5] [s0;s1;s2;s3;s4;s5] ++ ip_hdr0 tl [a0;a1;a2;a3] [b0;b1;b2;b3] ck ++ udp_hdr0 ul uk ++ p) =
  Some {| v_dst_mac := [d0;d1;d2;d3;d4;d5]; v_src_mac := [s0;s1;s2;s3;s4;s5]; v_etype := be_val [8;0];
          v_vihl := 69; v_tos := 0; v_totlen := be_val (be2 tl); v_id := be_val [0;0]; v_ff := be_val [64;0];
          v_ttl := 64; v_proto := 17;
          v_ipck_ok := fold16 (sum16 (ip_hdr0 tl [a0;a1;a2;a3] [b0;b1;b2;b3] ck)) =? 65535;
          v_src_ip := [a0;a1;a2;a3]; v_dst_ip := [b0;b1;b2;b3];
          v_sport := be_val [0;67]; v_dport := be_val [0;68]; v_ulen := be_val (be2 ul);
          v_udpck_ok := fold16 (udp_sum [a0;a1;a2;a3] [b0;b1;b2;b3] (be_val (be2 ul)) (udp_hdr0 ul uk ++ p)) =? 65535;
          v_payload := p |}.
Proof. reflexivity. Qed.

Lemma csum16_lt t : csum16 t < 65536.
Proof. unfold csum16. lia. Qed.

Lemma ip_sum_ck tl a0 a1 a2 a3 b0 b1 b2 b3 ck : ck < 65536 ->
  sum16 (ip_hdr0 tl [a0;a1;a2;a3] [b0;b1;b2;b3] ck) = sum16 (ip_hdr0 tl [a0;a1;a2;a3] [b0;b1;b2;b3] 0) + ck.
Proof. intros H. unfold ip_hdr0, be2. cbn [app sum16]. lia. Qed.

Lemma ip_checksum_ok tl a0 a1 a2 a3 b0 b1 b2 b3 :
  wf_bytes [a0;a1;a2;a3] -> wf_bytes [b0;b1;b2;b3] ->
  fold16 (sum16 (ip_hdr tl [a0;a1;a2;a3] [b0;b1;b2;b3])) = 65535.
Proof.
  intros Ha Hb. unfold ip_hdr. rewrite ip_sum_ck by apply csum16_lt.
  apply csum_verifies.
  unfold wf_bytes in *. repeat match goal with H : Forall _ (_ :: _) |- _ => inversion H; clear H; subst end.
  unfold ip_hdr0, be2. cbn [app sum16]. lia.
Qed.

Lemma udp_sum_ck a0 a1 a2 a3 b0 b1 b2 b3 ul ul' ck p : ck < 65536 ->
  udp_sum [a0;a1;a2;a3] [b0;b1;b2;b3] ul' (udp_hdr0 ul ck ++ p) = udp_sum [a0;a1;a2;a3] [b0;b1;b2;b3] ul' (udp_hdr0 ul 0 ++ p) + ck.
Proof. intros H. unfold udp_sum, udp_hdr0, be2. cbn [app sum16]. lia. Qed.

Lemma udp_checksum_ok a0 a1 a2 a3 b0 b1 b2 b3 p :
  wf_bytes [a0;a1;a2;a3] -> wf_bytes [b0;b1;b2;b3] -> wf_bytes p -> N.of_nat (length p) <= 65507 ->
  let ulen := 8 + N.of_nat (length p) in
  fold16 (udp_sum [a0;a1;a2;a3] [b0;b1;b2;b3] ulen (udp_hdr [a0;a1;a2;a3] [b0;b1;b2;b3] p ++ p)) = 65535.
Proof.
  intros Ha Hb Hp Hl ulen. unfold udp_hdr. fold ulen. rewrite udp_sum_ck by apply csum16_lt.
  apply csum_verifies.
  pose proof (sum16_bound p Hp) as Hs.
  unfold wf_bytes in *. repeat match goal with H : Forall _ (_ :: _) |- _ => inversion H; clear H; subst end.
  unfold udp_sum, udp_hdr0, be2. cbn [app sum16]. unfold ulen. lia.
Qed.

(* ---------- the theorems ---------- *)
Lemma len6 (l : bytes) : lenb l 6 = true -> exists a b c d e g, l = [a;b;c;d;e;g].
Proof.
  unfold lenb. intros H. apply Nat.eqb_eq in H.
  destruct l as [|a [|b [|c [|d [|e [|g [|x l]]]]]]]; cbn in H; try discriminate.
  repeat eexists.
Qed.

Lemma len4 (l : bytes) : length l = 4%nat -> exists a b c d, l = [a;b;c;d].
Proof.
  intros H. destruct l as [|a [|b [|c [|d [|x l]]]]]; cbn in H; try discriminate. repeat eexists.
Qed.

Lemma wf_skipn n (l : bytes) : wf_bytes l -> wf_bytes (skipn n l).
Proof.
  unfold wf_bytes. revert l. induction n as [|n IH]; intros l H; [exact H|].
  destruct l as [|x l]; [exact H|]. cbn [skipn]. apply IH. inversion H; assumption.
Qed.

Lemma to4_wf ip x : wf_bytes ip -> to4 ip = Some x -> wf_bytes x.
Proof.
  unfold to4. intros W. destruct (lenb ip 4).
  - intros H; injection H as <-. exact W.
  - destruct (lenb ip 16 && bytes_eqb (firstn 12 ip) v4in6_prefix); [|discriminate].
    intros H; injection H as <-. exact (wf_skipn 12 ip W).
Qed.

Lemma Ok_inj {A} (a b : A) : Ok a = Ok b -> a = b.
Proof. intros H. congruence. Qed.

(* what the client's network stack reads off the frame sendEthernet wrote *)
Definition expected_view (src_mac : bytes) (m : msg4) (si yi p : bytes) : fview :=
  {| v_dst_mac := m_chaddr m; v_src_mac := src_mac; v_etype := 2048;
     v_vihl := 69; v_tos := 0; v_totlen := 28 + N.of_nat (length p); v_id := 0; v_ff := 16384;
     v_ttl := 64; v_proto := 17; v_ipck_ok := true;
     v_src_ip := si; v_dst_ip := yi; v_sport := 67; v_dport := 68;
     v_ulen := 8 + N.of_nat (length p); v_udpck_ok := true; v_payload := p |}.

Theorem frame_view src_mac m p f :
  enc_body m = Ok p -> wf_bytes p -> wf_bytes (m_siaddr m) -> wf_bytes (m_yiaddr m) ->
  enc_frame src_mac m = Ok f ->
  exists si yi, to4 (m_siaddr m) = Some si /\ to4 (m_yiaddr m) = Some yi /\
                length f = (42 + length p)%nat /\
                dec_frame f = Some (expected_view src_mac m si yi p).
Proof.
  intros Eb Wp Wsi Wyi. unfold enc_frame. rewrite Eb. cbn [bind].
  destruct (to4 (m_siaddr m)) as [si|] eqn:Esi; [|discriminate].
  destruct (to4 (m_yiaddr m)) as [yi|] eqn:Eyi; [|discriminate].
  destruct (lenb (m_chaddr m) 6) eqn:Lc; cbn [negb orb]; [|discriminate].
  destruct (lenb src_mac 6) eqn:Ls; cbn [negb]; [|discriminate].
  destruct (N.ltb_spec 65507 (N.of_nat (length p))) as [|Hl]; [discriminate|].
  intros H. apply Ok_inj in H. subst f. exists si, yi. split; [reflexivity|]. split; [reflexivity|].
  pose proof (to4_wf _ _ Wsi Esi) as Wsi'. pose proof (to4_wf _ _ Wyi Eyi) as Wyi'.
  destruct (len4 si (Alloc4Proofs.to4_length _ _ Esi)) as (a0 & a1 & a2 & a3 & ->).
  destruct (len4 yi (Alloc4Proofs.to4_length _ _ Eyi)) as (b0 & b1 & b2 & b3 & ->).
  destruct (len6 _ Lc) as (d0 & d1 & d2 & d3 & d4 & d5 & Hd).
  destruct (len6 _ Ls) as (s0 & s1 & s2 & s3 & s4 & s5 & ->).
  unfold expected_view. rewrite Hd. split; [reflexivity|].
  unfold ip_hdr, udp_hdr. cbv zeta.
  rewrite dec_frame_shape.
  assert (Hip := ip_checksum_ok (28 + N.of_nat (length p)) a0 a1 a2 a3 b0 b1 b2 b3 Wsi' Wyi').
  unfold ip_hdr in Hip. rewrite Hip.
  assert (Hudp := udp_checksum_ok a0 a1 a2 a3 b0 b1 b2 b3 p Wsi' Wyi' Wp Hl). cbv zeta in Hudp.
  unfold udp_hdr in Hudp. cbv zeta in Hudp.
  rewrite !be_val_be2 by lia. rewrite Hudp.
  reflexivity.
Qed.

(* ... and the payload is the reply: it parses (dhcpv4.FromBytes) to the message, and padded to the
   BOOTP minimum it is byte for byte what ToBytes writes for a socket *)
Theorem frame_payload_is_reply m p :
  wf_msg m -> enc_body m = Ok p -> dec_msg p = Some (wire_msg m) /\ enc_msg m = Ok (pad_min p).
Proof.
  intros W E. split; [exact (msg4_roundtrip_body m p W E)|]. unfold enc_msg. rewrite E. reflexivity.
Qed.

(* the frame carries the fields C15's model of sendEthernet names (Server4.l2_frame) *)
Theorem frame_fields_are_l2_frame src_mac m p f si yi :
  dec_frame f = Some (expected_view src_mac m si yi p) ->
  to4 (m_siaddr m) = Some si -> to4 (m_yiaddr m) = Some yi ->
  exists v, dec_frame f = Some v /\ v_dst_mac v = m_chaddr m /\ to4 (m_siaddr m) = Some (v_src_ip v) /\
            to4 (m_yiaddr m) = Some (v_dst_ip v) /\ v_sport v = 67 /\ v_dport v = 68 /\
            v_ipck_ok v = true /\ v_udpck_ok v = true.
Proof. intros H Hs Hy. eexists; split; [exact H|]. cbn. repeat split; assumption. Qed.

(* when no frame is produced: exactly the cases named in lib/Frame.v *)
Theorem frame_error_cases src_mac m p :
  enc_body m = Ok p -> N.of_nat (length p) <= 65507 ->
  (exists f, enc_frame src_mac m = Ok f) <->
  (lenb (m_chaddr m) 6 = true /\ lenb src_mac 6 = true /\ to4 (m_siaddr m) <> None /\ to4 (m_yiaddr m) <> None).
Proof.
  intros Eb Hl. unfold enc_frame. rewrite Eb. cbn [bind].
  destruct (to4 (m_siaddr m)) as [si|]; [|split; [intros [f H]; discriminate|intros (_ & _ & H & _); congruence]].
  destruct (to4 (m_yiaddr m)) as [yi|]; [|split; [intros [f H]; discriminate|intros (_ & _ & _ & H); congruence]].
  destruct (lenb (m_chaddr m) 6); cbn [negb orb]; [|split; [intros [f H]; discriminate|intros (H & _); discriminate]].
  destruct (lenb src_mac 6); cbn [negb]; [|split; [intros [f H]; discriminate|intros (_ & H & _); discriminate]].
  destruct (N.ltb_spec 65507 (N.of_nat (length p))) as [Hgt|_]; [lia|].
  split; [intros _; repeat split; discriminate|intros _; eexists; reflexivity].
Qed.

(* sendEthernet never panics where ToBytes does not *)
Theorem frame_panics_only_with_tobytes src_mac m : enc_frame src_mac m = Panic -> enc_body m = Panic.
Proof.
  unfold enc_frame. destruct (enc_body m) as [p|e|]; cbn [bind]; try discriminate; [|reflexivity].
  destruct (to4 (m_siaddr m)); [|discriminate]. destruct (to4 (m_yiaddr m)); [|discriminate].
  destruct (negb (lenb (m_chaddr m) 6) || negb (lenb src_mac 6)); [discriminate|].
  destruct (65507 <? N.of_nat (length p)); discriminate.
Qed.

(* non-vacuity: a concrete OFFER is framed, and the view is the expected one *)
Definition ex_reply : msg4 :=
  {| m_op := 2; m_htype := 1; m_hops := 0; m_xid := 305419896; m_secs := 0; m_flags := 0;
     m_ciaddr := []; m_yiaddr := [10;0;0;7]; m_siaddr := [192;168;1;1]; m_giaddr := [];
     m_chaddr := [2;0;0;0;0;9]; m_sname := []; m_file := [];
     m_opts := [(53, [2]); (54, [192;168;1;1]); (51, [0;0;14;16])] |}.
Example frame_example :
  match enc_frame [2;170;187;204;221;238] ex_reply, enc_body ex_reply with
  | Ok f, Ok p => dec_frame f = Some (expected_view [2;170;187;204;221;238] ex_reply [192;168;1;1] [10;0;0;7] p)
                  /\ length f = 298%nat /\ forallb (fun b => b <? 256) p = true
  | _, _ => False
  end.
Proof. vm_compute. split; [reflexivity|]. split; reflexivity. Qed.
