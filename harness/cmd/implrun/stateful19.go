package main

// C19 for the stateful plugins (prefix, range, file): argument vectors from valid, boundary and
// invalid values, each set up in a fresh child process; if set-up accepts, a battery of datagrams
// is fed through HandleMsg4/HandleMsg6 (the plugin alone in the chain).  Accepted must mean: no
// panic, no handler that does not come back, every reply parses.

import (
	"bytes"
	"encoding/hex"
	"fmt"
	"net"
	"strings"
	"time"

	"github.com/insomniacslk/dhcp/dhcpv4"
	"github.com/insomniacslk/dhcp/dhcpv6"
	"github.com/insomniacslk/dhcp/iana"
)

func runStateful19(c *Ctx) {
	r := c.R
	files := map[string]string{"leases4.txt": c01Leases4, "leases6.txt": c01Leases6, "bad.txt": "02:aa:00:00:00:01\n", "empty.txt": ""}
	pools := []string{"2001:db8::/48", "2001:db8:0:100::/56", "2001:db8::/64", "::/0", "2001:db8::/128", "2001:db8::1/48", "fe80::/10",
		"10.0.0.0/8", "192.168.0.0/16", "::ffff:10.0.0.0/104", "::ffff:10.0.0.0/120", "garbage", "2001:db8::", ""}
	sizes := []string{"64", "56", "48", "60", "0", "128", "129", "-1", "abc", "127", "16", "24", "120", "124", "112", ""}
	mk6 := func(mac net.HardwareAddr, hints ...pdHint) chainDgram {
		s := req6spec{mtype: 1, cid: &dhcpv6.DUIDLL{HWType: iana.HWTypeEthernet, LinkLayerAddr: mac}}
		copy(s.xid[:], r.Bytes(3))
		s.extra = append(s.extra, &dhcpv6.OptionGeneric{OptionCode: dhcpv6.OptionIAPD, OptionData: iapdPayload(pdIA{iaid: [4]byte{0, 0, 0, 1}, hints: hints})})
		s.extra = append(s.extra, &dhcpv6.OptIANA{IaId: [4]byte{0, 0, 0, 2}})
		return chainDgram{Proto: 6, Hex: hex.EncodeToString(buildReq6(s)), Oob: 3, Peer: "fe80::1"}
	}
	mk4 := func(mt byte, chaddr []byte) chainDgram {
		s := req4spec{op: 1, mtype: []byte{mt}, chaddr: chaddr, xid: uint32(r.U64()), bflag: true}
		return chainDgram{Proto: 4, Hex: hex.EncodeToString(buildReq4(s)), Oob: 7001, Peer: "0.0.0.0"}
	}
	macs := []net.HardwareAddr{{2, 0xaa, 0, 0, 0, 1}, {2, 6, 0, 0, 0, 1}, {2, 6, 0, 0, 0, 2}, {2, 6, 0, 0, 0, 3}}
	hints := [][]pdHint{nil, {{ip: net.IPv6zero, plen: 0}}, {{ip: net.IPv6zero, plen: 64}}, {{ip: net.ParseIP("::ffff:10.1.0.0"), plen: 112}}, {{ip: net.ParseIP("::ffff:10.0.0.7"), plen: 128}},
		{{ip: net.ParseIP("2001:db8:0:5::"), plen: 64}}, {{ip: net.ParseIP("2001:db8::1"), plen: 128}}, {{absentPrefix: true}}, {{ip: net.IPv6zero, plen: 200}}, {{ip: net.ParseIP("10.1.2.3").To16(), plen: 120}}}
	battery6 := func() []chainDgram {
		var d []chainDgram
		for i, h := range hints {
			d = append(d, mk6(macs[i%len(macs)], h...))
		}
		for i := 0; i < 6; i++ { // a few more clients, then everybody again
			d = append(d, mk6(net.HardwareAddr{2, 7, 0, 0, 0, byte(i)}))
		}
		d = append(d, mk6(macs[1]), mk6(macs[1], pdHint{ip: net.ParseIP("::ffff:10.1.0.0"), plen: 112}))
		return d
	}
	battery4 := func() []chainDgram {
		var d []chainDgram
		for i := 0; i < 8; i++ {
			d = append(d, mk4([]byte{1, 3}[i%2], []byte{2, 1, 0, 0, 0, byte(i / 2)}))
		}
		d = append(d, mk4(1, []byte{2, 0xaa, 0, 0, 0, 1}), mk4(1, []byte{}), mk4(3, []byte{7}), mk4(1, []byte{1, 2, 3, 4, 5, 6, 7, 8, 9, 10, 11, 12, 13, 14, 15, 16}))
		return d
	}
	type cfg struct {
		proto int
		plug  chainPlug
	}
	var cfgs []cfg
	// prefix: every pool with a few sizes; wrong arity
	for _, p := range pools {
		for k := 0; k < 3; k++ {
			cfgs = append(cfgs, cfg{6, chainPlug{"prefix", []string{p, sizes[r.Intn(len(sizes))]}}})
		}
	}
	for _, sz := range sizes {
		cfgs = append(cfgs, cfg{6, chainPlug{"prefix", []string{pools[r.Intn(4)], sz}}})
		cfgs = append(cfgs, cfg{6, chainPlug{"prefix", []string{"10.0.0.0/8", sz}}})
	}
	for _, pc := range [][]string{{"2001:db8::/120", "129"}, {"2001:db8::/128", "129"}, {"2001:db8::/100", "130"}, {"2001:db8::/120", "128"}, {"2001:db8::/120", "183"}, {"2001:db8::/127", "190"}, {"::ffff:10.0.0.0/120", "129"},
		{"2001:db8::/32", "96"}, {"2001:db8::/64", "128"}, {"2001::/16", "80"}, {"::/0", "64"}, {"2001:db8::/31", "96"}} {
		cfgs = append(cfgs, cfg{6, chainPlug{"prefix", pc}})
	}
	cfgs = append(cfgs, cfg{6, chainPlug{"prefix", nil}}, cfg{6, chainPlug{"prefix", []string{"2001:db8::/48"}}}, cfg{6, chainPlug{"prefix", []string{"2001:db8::/48", "64", "extra"}}})
	// range
	ips := []string{"10.0.0.10", "10.0.0.12", "10.0.0.10", "10.0.0.5", "2001:db8::1", "garbage", "255.255.255.255", "0.0.0.0", "255.255.255.250", "::ffff:10.0.0.20", ""}
	leases := []string{"1h", "abc", "-5s", "0s", "1500ms", ""}
	for i := 0; i < c.Scale(40, 400); i++ {
		a := []string{"$DIR/leases.sqlite3", ips[r.Intn(len(ips))], ips[r.Intn(len(ips))], leases[r.Intn(len(leases))]}
		if r.Pct(10) {
			a = a[:r.Intn(4)]
		}
		if r.Pct(5) {
			a[0] = "$DIR/nosuchdir/leases.sqlite3"
		}
		cfgs = append(cfgs, cfg{4, chainPlug{"range", a}})
	}
	// file
	for _, f := range []string{"$DIR/leases4.txt", "$DIR/leases6.txt", "$DIR/missing.txt", "", "$DIR", "$DIR/bad.txt", "$DIR/empty.txt"} {
		for _, extra := range [][]string{nil, {"autorefresh"}, {"bogus"}} {
			for _, proto := range []int{4, 6} {
				cfgs = append(cfgs, cfg{proto, chainPlug{"file", append([]string{f}, extra...)}})
			}
		}
	}
	accepted := 0
	for i, cf := range cfgs {
		if cf.plug.Name == "prefix" && len(cf.plug.Args) >= 2 {
			// a pool of more than 2^24 blocks needs a bitmap the process may not be able to allocate: the
			// server then dies at start-up (out of memory), which is outside this property
			if _, pn, err := net.ParseCIDR(cf.plug.Args[0]); err == nil {
				var sz int
				if _, e2 := fmt.Sscanf(cf.plug.Args[1], "%d", &sz); e2 == nil {
					if ones, _ := pn.Mask.Size(); sz-ones > 24 && sz-ones < 64 && sz <= 128 {
						c.Count("stateful-setup:skipped-huge-pool")
						continue
					}
				}
			}
		}
		spec := chainSpec{Files: files, WatchdogMs: 3000}
		if cf.proto == 4 {
			spec.Plugins4 = []chainPlug{cf.plug}
			spec.Dgrams = battery4()
			if cf.plug.Name == "file" && len(cf.plug.Args) >= 2 && cf.plug.Args[1] == "autorefresh" {
				// (the child rewrites the lease file while these are handled: many look-ups of unknown and known clients against many reloads)
				for k := 0; k < 250; k++ {
					spec.Dgrams = append(spec.Dgrams, mk4(1, []byte{2, 0x19, 0, 0, byte(k >> 8), byte(k)}))
				}
			}
		} else {
			spec.Plugins6 = []chainPlug{cf.plug}
			spec.Dgrams = battery6()
		}
		c.Breadcrumb(map[string]interface{}{"what": "stateful plugin set-up", "plugin": cf.plug.Name, "args": cf.plug.Args})
		res, err := runChainChild(spec, 90*time.Second)
		c.Evals++
		what := fmt.Sprintf("%s %q (DHCPv%d)", cf.plug.Name, cf.plug.Args, cf.proto)
		input := map[string]interface{}{"plugin": cf.plug.Name, "args": cf.plug.Args, "proto": cf.proto, "spec": spec}
		if err != nil {
			c.vio("C19", "stateful-process-died", fmt.Sprintf("%s: the process did not survive set-up and the request battery: %v", what, err), input)
			continue
		}
		if res.SetupErr != "" {
			c.Count("stateful-setup:rejected")
			if strings.HasPrefix(res.SetupErr, "setup panic") {
				c.vio("C19", "stateful-setup-panic", fmt.Sprintf("%s: %s", what, res.SetupErr), input)
			}
			continue
		}
		accepted++
		c.Count("stateful-setup:accepted:" + cf.plug.Name)
		for j, o := range res.Outs {
			switch {
			case o.Panic != "":
				c.vio("C19", "stateful-handler-panic", fmt.Sprintf("%s accepted by set-up; datagram %d of the battery panics: %s", what, j, o.Panic), input)
			case o.Hang:
				c.vio("C19", "stateful-handler-blocks", fmt.Sprintf("%s accepted by set-up; datagram %d of the battery never returns", what, j), input)
			}
			for _, sd := range o.Sends {
				pb, _ := hex.DecodeString(sd.Payload)
				var perr error
				if cf.proto == 4 {
					_, perr = dhcpv4.FromBytes(pb)
				} else {
					_, perr = dhcpv6.FromBytes(pb)
				}
				if perr != nil {
					c.vio("C19", "stateful-reply-unparseable", fmt.Sprintf("%s accepted by set-up; the reply to datagram %d does not parse: %v", what, j, perr), input)
				} else if cf.proto == 6 {
					// parse back to the same options: what was parsed serialises to the bytes that were sent
					if back, _ := dhcpv6.FromBytes(pb); back != nil && !bytes.Equal(back.ToBytes(), pb) {
						c.vio("C19", "stateful-reply-roundtrip", fmt.Sprintf("%s accepted by set-up; the reply to datagram %d does not parse back to what was sent (re-serialised bytes differ)", what, j), input)
					}
				}
			}
		}
		c.Eval(fmt.Sprintf("stateful19/%d/%s/%v", cf.proto, cf.plug.Name, cf.plug.Args), true)
		if i%40 == 0 {
			c.Sample(map[string]interface{}{"plugin": cf.plug.Name, "args": cf.plug.Args, "proto": cf.proto, "accepted": true})
		}
	}
	c.Dist["stateful-configs"] = len(cfgs)
	c.Dist["stateful-accepted"] = accepted
}
