(* FileProofs.v — the static lease file: served mapping = the file, all-or-nothing reload (C10) *)
From Verif Require Import Base BaseProofs Net NetProofs Msg4 Msg6 Chain Server4 RangePlugin Plugins4 Plugins6 Setup PluginRun FilePlugin FileRun.
From Coq Require Import Lia.
Open Scope N_scope.

Section Loader.
Variable O : oracles.
Variable v6 : bool.

(* the (hardware address, address) entries of a file, in line order *)
Definition entries (lines : list bytes) : list (bytes * bytes) :=
  flat_map (fun l => match parse_line O v6 l with LEntry k ip => [(k, ip)] | _ => [] end) lines.

Definition bad_line (l : bytes) : Prop := parse_line O v6 l = LBad.

Lemma load_lines_spec lines : forall acc,
  (Exists bad_line lines -> load_lines O v6 lines acc = None) /\
  (~ Exists bad_line lines -> load_lines O v6 lines acc = Some (rev (entries lines) ++ acc)).
Proof.
  induction lines as [|l ls IH]; intros acc; cbn [load_lines entries flat_map].
  - split; [intros H; inversion H|reflexivity].
  - destruct (parse_line O v6 l) as [| |k ip] eqn:E.
    + destruct (IH acc) as (A & B). split.
      * intros H. apply A. inversion H as [? ? Hb|? ? Hb]; subst; [unfold bad_line in Hb; congruence|exact Hb].
      * intros H. cbn [app]. apply B. intros Hc. apply H. right. exact Hc.
    + split; [reflexivity|]. intros H. exfalso. apply H. left. exact E.
    + destruct (IH ((k, ip) :: acc)) as (A & B). split.
      * intros H. apply A. inversion H as [? ? Hb|? ? Hb]; subst; [unfold bad_line in Hb; congruence|exact Hb].
      * intros H. cbn [app rev]. fold (entries ls). rewrite <- app_assoc. cbn [app]. apply B. intros Hc. apply H. right. exact Hc.
Qed.

(* the address the file lists for a hardware address: the last occurrence wins *)
Definition last_match (k : bytes) (es : list (bytes * bytes)) : option bytes :=
  fold_left (fun acc e => if bytes_eqb (fst e) k then Some (snd e) else acc) es None.

Lemma tget_app k a b : tget k (a ++ b) = match tget k a with Some v => Some v | None => tget k b end.
Proof. induction a as [|[k' v] a IH]; cbn [app tget]; [reflexivity|]. destruct (bytes_eqb k' k); [reflexivity|exact IH]. Qed.

Lemma last_match_snoc k es e : last_match k (es ++ [e]) = if bytes_eqb (fst e) k then Some (snd e) else last_match k es.
Proof. unfold last_match. rewrite fold_left_app. reflexivity. Qed.

Lemma tget_rev k es : tget k (rev es) = last_match k es.
Proof.
  induction es as [|e es IH] using rev_ind; [reflexivity|].
  rewrite rev_app_distr, last_match_snoc. cbn [rev app tget]. destruct e as [k' v]. cbn [fst snd].
  destruct (bytes_eqb k' k); [reflexivity|exact IH].
Qed.

(* A lease file is rejected as a whole exactly when one of its lines is malformed (field count,
   hardware address, address, wrong family); otherwise the table answers every hardware address
   with the address of its last occurrence in the file. *)
Theorem file_rejected_iff data : load_file O v6 data = None <-> Exists bad_line (split_nl data []).
Proof.
  unfold load_file. destruct (load_lines_spec (split_nl data []) []) as (A & B). split.
  - intros H. destruct (Exists_dec bad_line (split_nl data [])) as [E|E]; [|exact E|].
    + intros l. unfold bad_line. destruct (parse_line O v6 l); [right; discriminate|left; reflexivity|right; discriminate].
    + rewrite (B E) in H. discriminate.
  - exact A.
Qed.

Theorem file_mapping_spec data t : load_file O v6 data = Some t ->
  forall m, tget m t = last_match m (entries (split_nl data [])).
Proof.
  unfold load_file. intros H m. destruct (load_lines_spec (split_nl data []) []) as (A & B).
  destruct (Exists_dec bad_line (split_nl data [])) as [E|E].
  - intros l. unfold bad_line. destruct (parse_line O v6 l); [right; discriminate|left; reflexivity|right; discriminate].
  - rewrite (A E) in H. discriminate.
  - rewrite (B E), app_nil_r in H. injection H as <-. apply tget_rev.
Qed.

(* what makes a line an entry: not empty, no leading '#', exactly two fields, a hardware address
   net.ParseMAC accepts, an address of the instance's family *)
Theorem parse_line_entry line k ip : parse_line O v6 line = LEntry k ip <->
  exists c rest t0 t1 hw, line = c :: rest /\ c <> 35 /\ fields line [] = [t0; t1] /\
    o_parse_mac O t0 = Some hw /\ o_parse_ip O t1 = Some ip /\ k = mac_string hw /\
    (if v6 then to16 ip <> None /\ to4 ip = None else to4 ip <> None).
Proof.
  unfold parse_line. split.
  - destruct line as [|c rest]; [discriminate|]. destruct (c =? 35) eqn:Ec; [discriminate|].
    destruct (fields (c :: rest) []) as [|t0 [|t1 [|? ?]]] eqn:Ef; try discriminate.
    destruct (o_parse_mac O t0) as [hw|] eqn:Em; [|discriminate]. destruct (o_parse_ip O t1) as [ip'|] eqn:Ei; [|discriminate].
    destruct v6.
    + destruct (to16 ip') eqn:E16; cbn [andb]; [|discriminate]. destruct (to4 ip') eqn:E4; [discriminate|].
      intros H. injection H as <- <-. exists c, rest, t0, t1, hw. apply N.eqb_neq in Ec. repeat split; auto; congruence.
    + destruct (to4 ip') eqn:E4; [|discriminate]. intros H. injection H as <- <-.
      exists c, rest, t0, t1, hw. apply N.eqb_neq in Ec. repeat split; auto; congruence.
  - intros (c & rest & t0 & t1 & hw & -> & Hc & Hf & Hm & Hi & -> & Hfam). apply N.eqb_neq in Hc. rewrite Hc, Hf, Hm, Hi.
    destruct v6.
    + destruct Hfam as (H16 & H4). rewrite H4. destruct (to16 ip); [reflexivity|contradiction].
    + destruct (to4 ip); [reflexivity|contradiction].
Qed.
End Loader.

(* ---------- handlers ---------- *)
(* DHCPv4: a listed client gets its address as yiaddr and the chain ends; an unlisted one gets
   nothing from this plugin *)
Theorem file_handler4_spec t req resp :
  file_handler4 t req resp =
  match ft_get (mac_string (m_chaddr req)) t with
  | Some ip => (Some (set_yiaddr resp ip), true)
  | None => (Some resp, false)
  end.
Proof. unfold file_handler4. destruct (ft_get _ t); reflexivity. Qed.

(* DHCPv6: one IA_NA with the request's IAID and the listed address, only when an IA_NA was
   requested and the client's hardware address is known and listed; never stops the chain *)
Theorem file_handler6_spec t req resp m : p_inner req = Some m ->
  file_handler6 t req resp =
  match o6_get OPT_IANA (i_opts m), extract_mac req with
  | Some ia, Some mac =>
      match ft_get (mac_string mac) t with
      | Some ip => (Some (resp_add OPT_IANA (iana_payload (firstn 4 ia) ip) resp), false)
      | None => (Some resp, false)
      end
  | _, _ => (Some resp, false)
  end.
Proof.
  intros H. unfold file_handler6. rewrite H. destruct (o6_get OPT_IANA (i_opts m)); [|reflexivity].
  destruct (extract_mac req); reflexivity.
Qed.

(* ---------- reload: all or nothing ---------- *)
Theorem file_refresh_all_or_nothing O v6 data t :
  reload O v6 (Some data) t =
  match load_file O v6 data with
  | Some l => (Some l, true)          (* a well-formed update replaces the whole mapping *)
  | None => (t, false)                (* a malformed update leaves the previous mapping in force *)
  end.
Proof. reflexivity. Qed.

Theorem file_unreadable_keeps O v6 t : reload O v6 None t = (t, false).
Proof. reflexivity. Qed.

(* ---------- one instance: the served table is always the last content that loaded ---------- *)
Definition same_proto (v6 : bool) (o : fop) : Prop :=
  match o with
  | FSetup b _ | FEvent b _ => b = v6
  | FReq4 _ _ | FReq6 _ _ => True
  end.

Definition content_of (o : fop) : option bytes :=
  match o with FSetup _ d | FEvent _ d => d | _ => None end.

(* the table after a history of one instance: the last of its file contents that loaded, if any *)
Fixpoint last_good (O : oracles) (v6 : bool) (t : ftable) (ops : list fop) : ftable :=
  match ops with
  | [] => t
  | o :: ops' =>
      last_good O v6 (match content_of o with
                      | Some d => match load_file O v6 d with Some l => Some l | None => t end
                      | None => t
                      end) ops'
  end.

Fixpoint ffinal (O : oracles) (t : ftable) (ops : list fop) : ftable :=
  match ops with [] => t | o :: ops' => ffinal O (fst (fstep O t o)) ops' end.

Theorem file_single_instance O v6 : forall ops t, Forall (same_proto v6) ops ->
  ffinal O t ops = last_good O v6 t ops.
Proof.
  induction ops as [|o ops IH]; intros t F; cbn [ffinal last_good]; [reflexivity|].
  rewrite IH by exact (Forall_inv_tail F). f_equal. pose proof (Forall_inv F) as Ho.
  destruct o as [b d|b d|rq rp|rq rp]; cbn [fstep content_of same_proto] in *.
  - subst b. destruct d as [d|]; cbn [reload]; [destruct (load_file O v6 d)|]; reflexivity.
  - subst b. destruct d as [d|]; cbn [reload]; [destruct (load_file O v6 d)|]; reflexivity.
  - destruct (file_handler4 t rq rp). reflexivity.
  - destruct (file_handler6 t rq rp). reflexivity.
Qed.

(* ---------- the full statement fails for dual-stack configurations (known finding F10) ---------- *)
(* "the DHCPv4 and DHCPv6 instances each serve from their own file": refuted by the model of the
   current code, which mirrors the single package-global table. *)
Definition x_mac_txt : bytes := [48;50;58;48;48;58;48;48;58;48;48;58;48;48;58;48;49].        (* "02:00:00:00:00:01" *)
Definition x_ip4_txt : bytes := [49;48;46;48;46;48;46;53].                                    (* "10.0.0.5" *)
Definition x_ip6_txt : bytes := [50;48;48;49;58;100;98;56;58;58;53].                          (* "2001:db8::5" *)
Definition x_ip6 : bytes := [32;1;13;184;0;0;0;0;0;0;0;0;0;0;0;5].
Definition x_tables : tables :=
  {| t_ip := [(x_ip4_txt, Some (v4in6_prefix ++ [10;0;0;5])); (x_ip6_txt, Some x_ip6)];
     t_cidr := []; t_dur := []; t_atoi := []; t_mac := [(x_mac_txt, Some [2;0;0;0;0;1])]; t_url := [] |}.
Definition x_file4 : bytes := x_mac_txt ++ [32] ++ x_ip4_txt ++ [10].
Definition x_file6 : bytes := x_mac_txt ++ [32] ++ x_ip6_txt ++ [10].
Definition x_req : msg4 :=
  {| m_op := 1; m_htype := 1; m_hops := 0; m_xid := 1; m_secs := 0; m_flags := 0; m_ciaddr := zero4; m_yiaddr := zero4;
     m_siaddr := zero4; m_giaddr := zero4; m_chaddr := [2;0;0;0;0;1]; m_sname := []; m_file := []; m_opts := [(53, [1])] |}.

Theorem file_per_protocol_refuted :
  let O := oracles_of x_tables in
  let t := ffinal O None [FSetup false (Some x_file4); FSetup true (Some x_file6)] in
  (* after both instances are set up, the DHCPv4 handler answers from the DHCPv6 file ... *)
  fst (file_handler4 t x_req (reply_stub x_req)) = Some (set_yiaddr (reply_stub x_req) x_ip6) /\
  (* ... with an address that cannot be serialised: ToBytes panics (C01) *)
  ser_ok (set_yiaddr (reply_stub x_req) x_ip6) = false /\
  (* whereas the DHCPv4 file alone lists 10.0.0.5 for that client *)
  ft_get (mac_string [2;0;0;0;0;1]) (ffinal O None [FSetup false (Some x_file4)]) = Some (v4in6_prefix ++ [10;0;0;5]).
Proof. vm_compute. repeat split; reflexivity. Qed.
