# Per-property configuration of ./check.  props = the file holding only the property
# theorems; run_models = executable model files the correspondence check evaluates.
TRUSTED_COMMON = [
    'Coq 8.16.1 kernel (coqc); vm_compute for finite-domain proofs, witnesses and the correspondence evaluation; native_compute not used',
    'no axioms: every property theorem prints "Closed under the global context" (checked on every run)',
    'correspondence check: Go generators, printing of observed values as Gallina terms, canonicalisation (harness/cmd/implrun)',
    'go2v translator/extractors (harness/cmd/go2v) and the hand-written Gallina meanings of Go library calls in coq/lib/Base.v',
]

PROPS = {
    'C20': {
        'props': 'props/C20.v',
        'run_models': ['model/IpcalcRun.v'],
        'trusted': ['modelled not verified: bytes.Compare, binary.BigEndian.Uint64/PutUint64, bits.Sub64/Add64/Mul64 (lib/Base.v), slice capacity = length'],
        'assumes': ['addresses are 16-byte slices whose capacity equals their length'],
        'level_text': 'Theorems offset_exact, addprefixes_exact, offset_addprefixes_inverse (coq/props/C20.v) are proved for all 128-bit operands, all p in 0..128 and all n < 2^64 about IpcalcGen.Offset/AddPrefixes, the Gallina definitions go2v regenerates from plugins/allocators/ipcalc.go on every run (bridge lemmas to the hand model re-checked each run); additionally the implementation and the model are run on the same structured cases and a math/big monitor restates the property on the implementation.',
        'level_note': 'Trusted: Coq kernel; the go2v translator and its Gallina meanings of bytes.Compare, BigEndian.Uint64/PutUint64, bits.Sub64/Add64/Mul64, Go shift semantics (lib/Base.v), all differentially tested against the real functions by the correspondence stage; slices are assumed to have capacity = length. No axioms.',
        'technique': 'Coq proof over a model regenerated from the Go source by a translator (go2v) + differential correspondence + math/big monitor',
    },
}

ALLOC_TRUSTED = ['modelled not verified: bits-and-blooms/bitset New/Test/Set/Clear/NextClear (lib/Bitset.v); net.IP.To4/To16/Mask, IPMask.Size, CIDRMask, IPNet.Contains (lib/Net.v, byte-wise as in the Go source; the numeric meaning of Contains for CIDR masks is proved in proofs/NetProofs.v); sync.Mutex',
                 'scope of the IPv6 theorems: pools as net.ParseCIDR yields them (native IPv6 16-byte base aligned to its mask, page-pool < 64); v4-mapped pools, pools handed an IPv4 CIDR and constructor rejections are covered by the correspondence check only']
ALLOC_ASSUME = ['hint and freed prefix bytes are < 256 (Go byte); IPv6 theorems assume a valid6 pool; v4-mapped addresses are never inside a native IPv6 pool for net.IPNet.Contains (documented in DESIGN.md C07)']

def _alloc(pid, text, thms):
    return {
        'props': 'props/%s.v' % pid,
        'run_models': ['model/AllocRun.v'],
        'trusted': ALLOC_TRUSTED, 'assumes': ALLOC_ASSUME,
        'level_text': text + ' Theorems (coq/props/%s.v): %s; proved for every pool geometry and every history (induction over the op list, refinement of both Go allocators to one index-level allocator over a bitset with a NoDup/in-range invariant). The models of bitmap.go / bitmap_ipv4.go are run against the real allocators on generated histories (hints free/taken/outside/malformed; frees outstanding/sub-prefix/unallocated/below/above/malformed), and independent monitors restate the property on the implementation.' % (pid, thms),
        'level_note': 'Trusted: Coq kernel; the hand-written Gallina model of the two allocators, of the bitset library subset and of the net helpers, tied to the code by the differential correspondence on every run (not by translation); generator quality bounds that tie. All schedules: each Allocate/Free is one critical section under the allocator mutex (lock discipline re-extracted from the source, C16). No axioms.',
        'technique': 'Coq proof (invariant + refinement to an abstract index allocator, induction over histories) + differential correspondence of the executable model against the Go allocators + monitors',
    }

PROPS['C04'] = _alloc('C04', 'No block is issued twice without a successful Free of it in between; outstanding blocks are pairwise disjoint.', 'alloc4_no_double_issue, alloc6_no_double_issue, outstanding6_disjoint, blocks_disjoint, irun_no_double_issue')
PROPS['C05'] = _alloc('C05', 'Every allocation is a block of the pool of the right length; Allocate fails (no address available, state unchanged) iff all N blocks are outstanding; no other error or panic.', 'alloc4_in_range, alloc4_fails_iff_full, alloc6_shape, alloc6_fails_iff_full, new6_valid, new4_inv')
PROPS['C06'] = _alloc('C06', 'Free succeeds iff the prefix names an outstanding block, then releases exactly it; otherwise error and no effect, for prefixes at any distance below/above the pool.', 'free4_ok_iff, to_offset4_iff, free6_ok_iff, free_idx6_outside, free_idx6_inside')
PROPS['C07'] = _alloc('C07', 'A hint naming a free block is honoured exactly (4- and 16-byte IPv4 forms, any IPv6 address inside the block).', 'hint4_honoured, hint6_honoured, hint_idx6_inside, hint4_names')

RANGE_TRUSTED = ['modelled not verified: sqlite3/database-sql (leases4 as a list of rows with primary key (mac, ip), insert-or-replace, NUMERIC affinity of the `string` mac column reproduced by mac_affinity, one statement atomic); net.HardwareAddr.String, the plugin\'s parseHWAddr, net.IP.To4 (coq/model/RangePlugin.v, lib/Net.v); the bitset library subset (lib/Bitset.v); sync.Mutex (Handler4 is one critical section)',
                 'one clock reading per Handler4 call in the model (the code reads the clock up to three times within one call); hostnames do not influence bindings']
RANGE_ASSUME = ['chaddr bytes < 256; the range is what setupRange accepts (start < end, both IPv4); histories start from Setup4 on an empty database; restarts re-mark stored leases in an arbitrary order (any permutation)',
                'crash points inside Handler4: sqlite executes one insert-or-replace atomically, so the database at a crash is the one before or after the statement - both are states the theorems quantify over']
PROPS['C02'] = {
    'props': 'props/C02.v', 'run_models': ['model/RangeRun.v'],
    'trusted': RANGE_TRUSTED, 'assumes': RANGE_ASSUME, 'impl_timeout': 3000,
    'level_text': 'Theorems (coq/props/C02.v) over every history of requests (any chaddr of any length, any hostname) and restarts (any re-marking order) from Setup4 on an empty database: range_never_fails (no panic, no start-up error), range_in_range (every yiaddr is a 4-byte address in [start,end]), range_unique_sticky (two replies carry the same address iff they answer the same chaddr), range_lease_time (option 51 = configured lease), range_exhaustion (a request is dropped only if its client is unknown and all N addresses are bound; a client that was ever answered is never dropped; an unknown client is served while an address is free). Proved by an invariant (records injective, image = allocator bits, database rows = records) by induction over the history, on top of the allocator refinement (C04-C07). The model of plugin.go/storage.go is run against Plugin.Setup4 + handler on real sqlite files with restarts, and monitors restate every clause on the implementation.',
    'level_note': 'Trusted: Coq kernel; hand-written Gallina model of range/plugin.go and storage.go incl. the sqlite table semantics and NUMERIC affinity, tied to the code by the differential correspondence on every run; one clock reading per call. All schedules: Handler4 holds the plugin mutex for the whole call. No axioms.',
    'technique': 'Coq proof (state invariant + induction over request/restart histories, on the allocator refinement) + differential correspondence against Plugin.Setup4/handler on real sqlite files + monitors',
}
PROPS['C03'] = {
    'props': 'props/C03.v', 'run_models': ['model/RangeRun.v'],
    'trusted': RANGE_TRUSTED, 'assumes': RANGE_ASSUME, 'impl_timeout': 3000,
    'level_text': 'Theorems (coq/props/C03.v): restart_restores - after every history (every prefix is a restart point) setupRange on the database written so far succeeds for every re-marking order, and the restored table contains every (chaddr, address) handed out so far, nothing that was not handed out, and is a bijection (none lost, changed or duplicated) - for hardware addresses of any length and arbitrary hostnames, with sqlite NUMERIC affinity on the mac column in the model; expiry_covers_promise - after a reply at clock reading t the row of that client has expiry*1s > t + lease - 1s; db_text_roundtrip - the text the plugin writes for any hardware address, as sqlite returns it, parses back to that address. The model is run against the real plugin on real sqlite files: a copy of the file after requests is reopened by a fresh Setup4 and all bound clients are probed.',
    'level_note': 'Trusted: Coq kernel; hand-written Gallina model incl. sqlite table semantics/affinity (validated by reading the real table through a second connection on every run); sqlite single-statement atomicity for mid-handler crash points; one clock reading per call. No axioms.',
    'technique': 'Coq proof (invariant database rows = records, load/parse round trip, induction over histories, permutation-independent re-marking) + differential correspondence with crash-point copies of real sqlite files + monitors',
}

PROPS['C04']['race_phase'] = True
PROPS['C02']['race_phase'] = True

SRV_TRUSTED = ['modelled not verified: the insomniacslk/dhcp DHCPv4 codec and constructors (FromBytes, ToBytes, NewReplyFromRequest, MessageType, IsBroadcast, UpdateOption) - models take the parsed message; net.IP.Equal/IsUnspecified/IsLinkLocalUnicast/To4 (lib/Net.v, model/Server4.v); the kernel behind WriteTo; net.InterfaceByIndex and the AF_PACKET send in sendEthernet',
               'the capture hook server/verif_hook.go (build tag verif): WriteTo of listener4/listener6 shadowed to hand (payload, control message, destination) to the harness; the layer-2 decision is read from the "Can not get Interface for index" log line (interface indexes 7001.. do not exist, so no frame is ever sent)']
SRV_ASSUME = ['theorems quantify over all parsed messages (a superset of what the library parser can produce) and arbitrary handler functions; that a datagram actually leaves on the pinned interface is outside the model']
def _srv(pid, text, tech):
    return {'props': 'props/%s.v' % pid, 'run_models': ['model/Server4Run.v'], 'trusted': SRV_TRUSTED, 'assumes': SRV_ASSUME,
            'level_text': text + ' The model of HandleMsg4 / LoadPlugins (coq/model/Server4.v) is run against the real code through the capture hook on: the opcode x option-53 table, the RFC 2131 4.1 addressing table, all chains of <=3 synthetic plugins over 5 behaviours and random chains of <=5 over 9 behaviours registered through plugins.RegisterPlugin and instantiated by plugins.LoadPlugins, malformed datagrams, and LoadPlugins configurations; independent monitors restate the property on what the implementation did.',
            'level_note': 'Trusted: Coq kernel; hand-written Gallina model of server/handle.go HandleMsg4 and plugins.LoadPlugins tied to the code by the differential correspondence through the verif capture hook on every run; the DHCPv4 codec is a library (models take parsed messages). No axioms.',
            'technique': tech}
PROPS['C11'] = _srv('C11', 'Theorems (coq/props/C11.v), for any handlers, listener and control message: reply4_only_to_requests / no_reply_table / unparsed_never_answered (a send happens only for a datagram that parsed, has opcode BOOTREQUEST and message type DISCOVER or REQUEST - over all opcodes and all option-53 values incl. absent and wrong length); reply4_stub (the response handed to the first handler is a BOOTREPLY with the request xid, htype, chaddr, flags, giaddr, options 82/61 echoed, OFFER resp. ACK); reply4_matches_request (through any chain of header-preserving handlers the reply keeps all of that and is OFFER/ACK or NAK).',
                     'Coq proof (case analysis over the model of HandleMsg4 for arbitrary handlers; invariant preserved along the chain) + differential correspondence through the capture hook + monitors')
PROPS['C13'] = _srv('C13', 'Theorems (coq/props/C13.v), for arbitrary handler functions: chain_order (invocation indices are 0,1,..,k consecutive, at most once each), chain_threading (handler i gets the original request and the response returned by handler i-1; after the first stop nothing runs and the result is what was returned last), chain_prefix_no_stop, chain_result_sent (what is sent is the last returned response; nil sends nothing), load_list_ok / load_list_err / load_plugins_exact (handlers = listed plugins with a setup for the protocol, in file order; unknown name, failing setup or nil handler = error).',
                     'Coq proof (induction over the handler list with an invocation log; inductive characterisation of LoadPlugins) + differential correspondence with synthetic plugins through LoadPlugins and the capture hook + monitors')
PROPS['C15'] = _srv('C15', 'Theorems (coq/props/C15.v), one per row of RFC 2131 4.1, for any handlers: dest4_relay (giaddr set: giaddr:67), dest4_nak (else NAK: broadcast:68 pinned), dest4_ciaddr (else ciaddr:68), dest4_bflag (else broadcast flag: broadcast:68 pinned), dest4_l2 (else link-level unicast on the bound interface, else the receiving one; with neither nothing is sent and nothing panics), dest4_port_and_pin (port 67 iff relayed; pinned iff destination is broadcast or link-local), pick_if_table, l2_frame_fields.',
                     'Coq proof (row-by-row characterisation of the destination cascade of the HandleMsg4 model) + differential correspondence over the whole addressing table through the capture hook + monitors')

PROPS['C12'] = {
    'props': 'props/C12.v', 'run_models': ['model/Server6Run.v'],
    'trusted': ['modelled not verified: the insomniacslk/dhcp DHCPv6 codec and constructors (FromBytes, ToBytes, GetInnerMessage, NewAdvertiseFromSolicit, NewReplyFromMessage, NewRelayReplFromRelayForw, Options.GetOne/Add/Update) - models take the parsed packet as relay layers + innermost message; net.IP.IsLinkLocalUnicast; the kernel behind WriteTo',
                'the capture hook server/verif_hook.go (build tag verif) incl. VerifListen6 opening a real socket through listen6'],
    'assumes': ['theorems quantify over all parsed packets (any relay depth, any options) and arbitrary handler functions; that the datagram actually leaves on the pinned interface is outside the model; hop counts of Relay-Reply layers are recomputed, not mirrored (the property does not list them)'],
    'level_text': 'Theorems (coq/props/C12.v), for any handlers: reply6_type_table (the basic response equals the literal RFC table over every message-type value, client-id presence and Rapid Commit), reply6_stub_carries (transaction id, client id; ADVERTISE iff SOLICIT without Rapid Commit; Rapid Commit echoed iff present), reply6_only_supported (a send happens only for a parsed packet with an innermost message of a supported type with a client id; it goes back to the source address and port and is pinned to the bound, else receiving, interface exactly when the source is link-local), reply6_matches_request (through identity-preserving handlers the reply carries xid, client id and the tabled type), relay_reply_mirrors (n Relay-Forward layers, any n, are answered by n Relay-Reply layers mirroring link-address, peer-address, Interface-ID and Remote-ID per layer and enclosing the answer; an outer layer that is not a Relay-Forward is not answered), direct_reply_unwrapped, listener_always_has_interface. The model is run against HandleMsg6 through the capture hook over all type bytes x client-id x Rapid Commit x relay depth 0..4 x source address class x listener/control message, nesting with odd shapes, random handler chains, malformed datagrams and real sockets opened through listen6.',
    'level_note': 'Trusted: Coq kernel; hand-written Gallina model of HandleMsg6 tied to the code by the differential correspondence through the verif capture hook on every run; the DHCPv6 codec and reply constructors are a library (modelled, differentially tested). No axioms.',
    'technique': 'Coq proof (type table by case analysis; relay mirroring by induction on the nesting depth; chain invariant) + differential correspondence through the capture hook + monitors',
}

PROPS['C13']['run_models'] = ['model/Server4Run.v', 'model/Server6Run.v']
