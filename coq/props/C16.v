(* C16 — Concurrent datagram handling is race-free and equivalent to a serial order.
   Three layers.
   (1) lib/Conc.v: threads that each run one critical section (any number of micro-steps on the
       shared state) under one mutex; `run sched` executes ANY schedule (a list of thread numbers,
       each entry = that thread tries its next micro-step; a thread that finds the lock taken does
       not move).  conc_serialisable: every schedule that lets all threads finish leaves the shared
       state and gives every thread the result of the critical sections run one at a time in the
       order the lock was taken; conc_progress: while a thread is unfinished some thread can move
       (nothing wedges).  atomic_serialisable / range_concurrent_serial / range_concurrent_c02
       specialise this to handler calls and to the range plugin model of C02: what concurrent
       requests are answered satisfies C02 under every schedule; prefix_concurrent_c08 does the same
       for the prefix plugin (C08: no panic, disjoint across clients), alloc4_concurrent_distinct for
       concurrent Allocate calls on the IPv4 allocator (C04), file_concurrent for requests handled
       while the lease file is refreshed (C10: each is answered from the last content that loaded at
       its point of the serial order).  lib/ConcRW.v is the same reduction for a reader/writer lock
       (sync.RWMutex, the file plugin): readers' critical sections overlap one another at any
       granularity and do not write, a writer excludes everybody; rw_serialisable: every complete
       schedule equals the sections run one at a time in the order they were left; rw_exclusion;
       rw_atomic_serialisable / file_concurrent_rw: the file plugin's look-ups (RLock) overlapping
       while the watcher reloads (Lock) are each answered from the last content that loaded.
   (2) That the code HAS this shape is computed from /repo's sources on every run: go2v skeleton
       reads, for every function touching lock-protected state (the two allocators, range.Handler4,
       prefix.Handle, the file plugin's handlers and loader) and for HandleMsg4/6 with respect to
       the receive buffer, the tree of lock operations, guarded accesses, calls and returns
       (coq/gen/Skeleton.v); lib/Skel.v checks it by abstract interpretation and checker_sound
       proves the checker right for EVERY path (all branches, loops iterated any number of times).
       skeletons_all_well_locked is the computation on the current sources; every_path_well_locked,
       every_access_under_lock, no_double_release are what it means; skeletons_lock_order: a
       function holding a plugin lock only calls lock-taking functions of a higher rank
       (allocators), so no lock cycle exists; skeletons_one_section / every_path_one_acquisition:
       every analysed function takes its lock at most once per call, i.e. a handler call is one
       critical section and a whole message is atomic with respect to other messages.
   (3) The Go memory model (a data race needs two unsynchronised accesses), goroutine scheduling
       and sync.Mutex/RWMutex/Pool are not modelled: the harness runs concurrent datagrams through
       HandleMsg4/6 with full chains under the Go race detector on every run. *)
From Verif Require Import Base Msg4 Msg6 Setup FilePlugin FileRun FileProofs RangePlugin RangeProofs RangeTheorems RangeExamples Conc ConcProofs ConcRange ConcPrefix ConcAlloc ConcFile ConcRW ConcRWProofs ConcExamples Skel Skeleton SkelProofs SkelGen.
From Coq Require Import Permutation.

Theorem conc_serialisable :
  forall (St Lo Re : Type) (ops : list (op St Lo Re)) (s0 : St) (sched : list nat),
  all_done St Lo Re ops (run St Lo Re ops s0 sched) ->
  exists sigma : list nat,
  Permutation.Permutation sigma (seq 0 (length ops)) /\
  sh St Lo Re (run St Lo Re ops s0 sched) = fst (serial St Lo Re ops sigma s0) /\
  lock St Lo Re (run St Lo Re ops s0 sched) = None /\
  (forall (t : nat) (r : Re),
  nth_error (thr St Lo Re (run St Lo Re ops s0 sched)) t = Some (Done St Lo Re r) ->
  In (t, r) (snd (serial St Lo Re ops sigma s0))).
Proof. exact (@Conc.serialisable). Qed.
Print Assumptions conc_serialisable.

Theorem conc_progress :
  forall (St Lo Re : Type) (ops : list (op St Lo Re)) (s0 : St) (c : cfg St Lo Re),
  Inv St Lo Re ops s0 c ->
  ~ all_done St Lo Re ops c -> exists t : nat, step St Lo Re ops c t <> c.
Proof. exact (@Conc.progress). Qed.
Print Assumptions conc_progress.

Theorem atomic_serialisable :
  forall (St A R : Type) (f : St -> A -> St * R) (l : list A) (s0 : St) (sched : list nat),
  all_done St (option R) (option R) (map (aop St A R f) l)
  (run St (option R) (option R) (map (aop St A R f) l) s0 sched) ->
  exists sigma : list nat,
  Permutation.Permutation sigma (seq 0 (length l)) /\
  (let c := run St (option R) (option R) (map (aop St A R f) l) s0 sched in
  sh St (option R) (option R) c = fst (srun St A R f s0 (pick A l sigma)) /\
  lock St (option R) (option R) c = None /\
  (forall (t : nat) (r : option R),
  nth_error (thr St (option R) (option R) c) t = Some (Done St (option R) (option R) r) ->
  exists k : nat,
  nth_error sigma k = Some t /\
  nth_error (pick A l sigma) k = nth_error l t /\
  r = nth_error (snd (srun St A R f s0 (pick A l sigma))) k /\ r <> None)).
Proof. exact (@ConcProofs.atomic_serialisable). Qed.
Print Assumptions atomic_serialisable.

Theorem range_concurrent_serial :
  forall (s e : bytes) (st0 : rstate) (prev reqs : list hop),
  Forall wf_hop prev ->
  Forall wf_hop reqs ->
  forall sched : list nat,
  all_done rstate (option hout) (option hout) (map (aop rstate hop hout (hstep s e)) reqs)
  (run rstate (option hout) (option hout) (map (aop rstate hop hout (hstep s e)) reqs)
  (fst (hrun s e st0 prev)) sched) ->
  exists sigma : list nat,
  Permutation.Permutation sigma (seq 0 (length reqs)) /\
  (let hist := prev ++ pick hop reqs sigma in
  let c :=
  run rstate (option hout) (option hout) (map (aop rstate hop hout (hstep s e)) reqs)
  (fst (hrun s e st0 prev)) sched in
  Forall wf_hop hist /\
  sh rstate (option hout) (option hout) c = fst (hrun s e st0 hist) /\
  lock rstate (option hout) (option hout) c = None /\
  (forall (t : nat) (r : option hout),
  nth_error (thr rstate (option hout) (option hout) c) t =
  Some (Done rstate (option hout) (option hout) r) ->
  exists k : nat,
  nth_error sigma k = Some t /\
  nth_error hist (length prev + k) = nth_error reqs t /\
  r = nth_error (snd (hrun s e st0 hist)) (length prev + k) /\ r <> None)).
Proof. exact (@ConcRange.range_concurrent_serial). Qed.
Print Assumptions range_concurrent_serial.

Theorem range_concurrent_c02 :
  forall (s e : bytes) (lease : Z) (st0 : rstate),
  wf_bytes s ->
  wf_bytes e ->
  range_setup s e lease [] = Ok st0 ->
  forall prev reqs : list hop,
  Forall wf_hop prev ->
  Forall wf_hop reqs ->
  forall sched : list nat,
  all_done rstate (option hout) (option hout) (map (aop rstate hop hout (hstep s e)) reqs)
  (run rstate (option hout) (option hout) (map (aop rstate hop hout (hstep s e)) reqs)
  (fst (hrun s e st0 prev)) sched) ->
  let c :=
  run rstate (option hout) (option hout) (map (aop rstate hop hout (hstep s e)) reqs)
  (fst (hrun s e st0 prev)) sched in
  (forall t : nat,
  nth_error (thr rstate (option hout) (option hout) c) t <>
  Some (Done rstate (option hout) (option hout) (Some HFail))) /\
  (forall (t1 t2 : nat) (n1 : Z) (c1 h1 : bytes) (n2 : Z) (c2 h2 y1 : bytes)
  (o1 : option bytes) (y2 : bytes) (o2 : option bytes),
  nth_error reqs t1 = Some (HReq n1 c1 h1) ->
  nth_error reqs t2 = Some (HReq n2 c2 h2) ->
  nth_error (thr rstate (option hout) (option hout) c) t1 =
  Some (Done rstate (option hout) (option hout) (Some (HReply y1 o1))) ->
  nth_error (thr rstate (option hout) (option hout) c) t2 =
  Some (Done rstate (option hout) (option hout) (Some (HReply y2 o2))) ->
  wf_bytes c1 ->
  wf_bytes c2 ->
  (c1 = c2 <-> y1 = y2) /\
  length y1 = 4%nat /\ be_val (to4_or_nil s) <= be_val y1 <= be_val (to4_or_nil e)).
Proof. exact (@ConcRange.range_concurrent_c02). Qed.
Print Assumptions range_concurrent_c02.

Theorem prefix_concurrent_serial :
  forall (pip : bytes) (L P : N) (st0 : PrefixPlugin.pstate),
  BaseProofs.wf_ip16 pip /\
  Net.to4 pip = None /\
  L <= P /\ P <= 128 /\ P - L < 64 /\ IpcalcProofs.v pip mod IpcalcProofs.Bsz L = 0 ->
  forall prev msgs : list PrefixTheorems.pmsg,
  Forall PrefixTheorems.wf_pmsg prev ->
  Forall PrefixTheorems.wf_pmsg msgs ->
  forall sched : list nat,
  all_done PrefixPlugin.pstate (option PrefixPlugin.pd_out) (option PrefixPlugin.pd_out)
  (map (aop PrefixPlugin.pstate PrefixTheorems.pmsg PrefixPlugin.pd_out pstep) msgs)
  (run PrefixPlugin.pstate (option PrefixPlugin.pd_out) (option PrefixPlugin.pd_out)
  (map (aop PrefixPlugin.pstate PrefixTheorems.pmsg PrefixPlugin.pd_out pstep) msgs)
  (fst (PrefixTheorems.prun st0 prev)) sched) ->
  exists sigma : list nat,
  Permutation.Permutation sigma (seq 0 (length msgs)) /\
  (let hist := prev ++ pick PrefixTheorems.pmsg msgs sigma in
  let c :=
  run PrefixPlugin.pstate (option PrefixPlugin.pd_out) (option PrefixPlugin.pd_out)
  (map (aop PrefixPlugin.pstate PrefixTheorems.pmsg PrefixPlugin.pd_out pstep) msgs)
  (fst (PrefixTheorems.prun st0 prev)) sched in
  Forall PrefixTheorems.wf_pmsg hist /\
  sh PrefixPlugin.pstate (option PrefixPlugin.pd_out) (option PrefixPlugin.pd_out) c =
  fst (PrefixTheorems.prun st0 hist) /\
  lock PrefixPlugin.pstate (option PrefixPlugin.pd_out) (option PrefixPlugin.pd_out) c =
  None /\
  (forall (t : nat) (r : option PrefixPlugin.pd_out),
  nth_error
  (thr PrefixPlugin.pstate (option PrefixPlugin.pd_out) (option PrefixPlugin.pd_out) c)
  t =
  Some
  (Done PrefixPlugin.pstate (option PrefixPlugin.pd_out) (option PrefixPlugin.pd_out) r) ->
  exists k : nat,
  nth_error sigma k = Some t /\
  nth_error hist (length prev + k) = nth_error msgs t /\
  r = nth_error (snd (PrefixTheorems.prun st0 hist)) (length prev + k) /\ r <> None)).
Proof. exact (@ConcPrefix.prefix_concurrent_serial). Qed.
Print Assumptions prefix_concurrent_serial.

Theorem prefix_concurrent_c08 :
  forall (pip : bytes) (L P : N) (st0 : PrefixPlugin.pstate),
  BaseProofs.wf_ip16 pip /\
  Net.to4 pip = None /\
  L <= P /\ P <= 128 /\ P - L < 64 /\ IpcalcProofs.v pip mod IpcalcProofs.Bsz L = 0 ->
  PrefixPlugin.prefix_setup pip (Net.cidr_bytes 16 L) (Z.of_N P) = Ok st0 ->
  forall prev msgs : list PrefixTheorems.pmsg,
  Forall PrefixTheorems.wf_pmsg prev ->
  Forall PrefixTheorems.wf_pmsg msgs ->
  forall sched : list nat,
  all_done PrefixPlugin.pstate (option PrefixPlugin.pd_out) (option PrefixPlugin.pd_out)
  (map (aop PrefixPlugin.pstate PrefixTheorems.pmsg PrefixPlugin.pd_out pstep) msgs)
  (run PrefixPlugin.pstate (option PrefixPlugin.pd_out) (option PrefixPlugin.pd_out)
  (map (aop PrefixPlugin.pstate PrefixTheorems.pmsg PrefixPlugin.pd_out pstep) msgs)
  (fst (PrefixTheorems.prun st0 prev)) sched) ->
  let c :=
  run PrefixPlugin.pstate (option PrefixPlugin.pd_out) (option PrefixPlugin.pd_out)
  (map (aop PrefixPlugin.pstate PrefixTheorems.pmsg PrefixPlugin.pd_out pstep) msgs)
  (fst (PrefixTheorems.prun st0 prev)) sched in
  (forall t : nat,
  nth_error
  (thr PrefixPlugin.pstate (option PrefixPlugin.pd_out) (option PrefixPlugin.pd_out) c) t <>
  Some
  (Done PrefixPlugin.pstate (option PrefixPlugin.pd_out) (option PrefixPlugin.pd_out)
  (Some PrefixPlugin.PPanic))) /\
  (forall (t1 t2 : nat) (n1 : Z) (c1 : bytes) (p1 : list (bytes * list PrefixPlugin.hint))
  (n2 : Z) (c2 : bytes) (p2 : list (bytes * list PrefixPlugin.hint))
  (o1 o2 : list (bytes * list PrefixPlugin.lease)) (l1 l2 : PrefixPlugin.lease),
  nth_error msgs t1 = Some (PrefixTheorems.PMsg n1 (Some c1) p1) ->
  nth_error msgs t2 = Some (PrefixTheorems.PMsg n2 (Some c2) p2) ->
  nth_error
  (thr PrefixPlugin.pstate (option PrefixPlugin.pd_out) (option PrefixPlugin.pd_out) c) t1 =
  Some
  (Done PrefixPlugin.pstate (option PrefixPlugin.pd_out) (option PrefixPlugin.pd_out)
  (Some (PrefixPlugin.PResp o1))) ->
  nth_error
  (thr PrefixPlugin.pstate (option PrefixPlugin.pd_out) (option PrefixPlugin.pd_out) c) t2 =
  Some
  (Done PrefixPlugin.pstate (option PrefixPlugin.pd_out) (option PrefixPlugin.pd_out)
  (Some (PrefixPlugin.PResp o2))) ->
  In l1 (flat_map snd o1) ->
  In l2 (flat_map snd o2) ->
  c1 <> c2 ->
  IpcalcProofs.v (PrefixPlugin.ls_ip l1) + IpcalcProofs.Bsz P <=
  IpcalcProofs.v (PrefixPlugin.ls_ip l2) \/
  IpcalcProofs.v (PrefixPlugin.ls_ip l2) + IpcalcProofs.Bsz P <=
  IpcalcProofs.v (PrefixPlugin.ls_ip l1)).
Proof. exact (@ConcPrefix.prefix_concurrent_c08). Qed.
Print Assumptions prefix_concurrent_c08.

Theorem alloc4_concurrent_distinct :
  forall (s e : bytes) (a0 : Alloc.a4),
  wf_bytes s ->
  wf_bytes e ->
  Alloc.new4 s e = Ok a0 ->
  forall prev calls : list AllocRun.aop,
  Forall
  (fun o : AllocRun.aop =>
  match o with
  | AllocRun.OAlloc _ _ => True
  | AllocRun.OFree _ _ => False
  end) calls ->
  forall sched : list nat,
  all_done Alloc.a4 (option AllocRun.aout) (option AllocRun.aout)
  (map (aop Alloc.a4 AllocRun.aop AllocRun.aout AllocRun.step4) calls)
  (run Alloc.a4 (option AllocRun.aout) (option AllocRun.aout)
  (map (aop Alloc.a4 AllocRun.aop AllocRun.aout AllocRun.step4) calls)
  (fst (srun Alloc.a4 AllocRun.aop AllocRun.aout AllocRun.step4 a0 prev)) sched) ->
  let c :=
  run Alloc.a4 (option AllocRun.aout) (option AllocRun.aout)
  (map (aop Alloc.a4 AllocRun.aop AllocRun.aout AllocRun.step4) calls)
  (fst (srun Alloc.a4 AllocRun.aop AllocRun.aout AllocRun.step4 a0 prev)) sched in
  forall (t1 t2 : nat) (ip m1 m2 : bytes),
  t1 <> t2 ->
  nth_error (thr Alloc.a4 (option AllocRun.aout) (option AllocRun.aout) c) t1 =
  Some
  (Done Alloc.a4 (option AllocRun.aout) (option AllocRun.aout)
  (Some (AllocRun.RAlloc (Ok (ip, m1))))) ->
  nth_error (thr Alloc.a4 (option AllocRun.aout) (option AllocRun.aout) c) t2 =
  Some
  (Done Alloc.a4 (option AllocRun.aout) (option AllocRun.aout)
  (Some (AllocRun.RAlloc (Ok (ip, m2))))) -> False.
Proof. exact (@ConcAlloc.alloc4_concurrent_distinct). Qed.
Print Assumptions alloc4_concurrent_distinct.

Theorem file_concurrent :
  forall (O0 : oracles) (v6 : bool) (t0 : ftable) (ops : list fop),
  Forall (same_proto v6) ops ->
  forall sched : list nat,
  all_done ftable (option fobs) (option fobs) (map (aop ftable fop fobs (fstep O0)) ops)
  (run ftable (option fobs) (option fobs) (map (aop ftable fop fobs (fstep O0)) ops) t0
  sched) ->
  exists sigma : list nat,
  Permutation.Permutation sigma (seq 0 (length ops)) /\
  (let hist := pick fop ops sigma in
  let c :=
  run ftable (option fobs) (option fobs) (map (aop ftable fop fobs (fstep O0)) ops) t0
  sched in
  sh ftable (option fobs) (option fobs) c = last_good O0 v6 t0 hist /\
  (forall (t : nat) (r : option fobs),
  nth_error (thr ftable (option fobs) (option fobs) c) t =
  Some (Done ftable (option fobs) (option fobs) r) ->
  exists (k : nat) (o : fop),
  nth_error sigma k = Some t /\
  nth_error ops t = Some o /\
  r = Some (snd (fstep O0 (last_good O0 v6 t0 (firstn k hist)) o)))).
Proof. exact (@ConcFile.file_concurrent). Qed.
Print Assumptions file_concurrent.

Theorem rw_serialisable :
  forall (St Lo Re : Type) (ops : list (rwop St Lo Re)) (s0 : St),
  (forall (t : nat) (o : rwop St Lo Re),
  nth_error ops t = Some o ->
  w_kind St Lo Re o = Reader ->
  forall f : St * Lo -> St * Lo,
  In f (w_crit St Lo Re o) -> forall (s : St) (l : Lo), fst (f (s, l)) = s) ->
  forall sched : list nat,
  rall_done St Lo Re ops (rrun St Lo Re ops s0 sched) ->
  exists sigma : list nat,
  Permutation.Permutation sigma (seq 0 (length ops)) /\
  rsh St Lo Re (rrun St Lo Re ops s0 sched) = fst (rserial St Lo Re ops sigma s0) /\
  rlock St Lo Re (rrun St Lo Re ops s0 sched) = LR [] /\
  (forall (t : nat) (r : Re),
  nth_error (rthr St Lo Re (rrun St Lo Re ops s0 sched)) t = Some (RDone St Lo Re r) ->
  In (t, r) (snd (rserial St Lo Re ops sigma s0))).
Proof. exact (@ConcRW.rw_serialisable). Qed.
Print Assumptions rw_serialisable.

Theorem rw_exclusion :
  forall (St Lo Re : Type) (ops : list (rwop St Lo Re)) (s0 : St),
  (forall (t : nat) (o : rwop St Lo Re),
  nth_error ops t = Some o ->
  w_kind St Lo Re o = Reader ->
  forall f : St * Lo -> St * Lo,
  In f (w_crit St Lo Re o) -> forall (s : St) (l : Lo), fst (f (s, l)) = s) ->
  forall sched : list nat,
  match rlock St Lo Re (rrun St Lo Re ops s0 sched) with
  | LR rs =>
  forall (t : nat) (rest : list (St * Lo -> St * Lo)) (l : Lo),
  nth_error (rthr St Lo Re (rrun St Lo Re ops s0 sched)) t =
  Some (RRunning St Lo Re rest l) ->
  In t rs /\
  (exists o : rwop St Lo Re, nth_error ops t = Some o /\ w_kind St Lo Re o = Reader)
  | LW h =>
  forall (t : nat) (rest : list (St * Lo -> St * Lo)) (l : Lo),
  nth_error (rthr St Lo Re (rrun St Lo Re ops s0 sched)) t =
  Some (RRunning St Lo Re rest l) -> t = h
  end.
Proof. exact (@ConcRW.rw_exclusion). Qed.
Print Assumptions rw_exclusion.

Theorem rw_atomic_serialisable :
  forall (St A R : Type) (f : St -> A -> St * R) (is_reader : A -> bool),
  (forall (a : A) (s : St), is_reader a = true -> fst (f s a) = s) ->
  forall (l : list A) (s0 : St) (sched : list nat),
  rall_done St (option R) (option R) (map (rwaop St A R f is_reader) l)
  (rrun St (option R) (option R) (map (rwaop St A R f is_reader) l) s0 sched) ->
  exists sigma : list nat,
  Permutation.Permutation sigma (seq 0 (length l)) /\
  (let c := rrun St (option R) (option R) (map (rwaop St A R f is_reader) l) s0 sched in
  rsh St (option R) (option R) c = fst (srun St A R f s0 (pick A l sigma)) /\
  rlock St (option R) (option R) c = LR [] /\
  (forall (t : nat) (r : option R),
  nth_error (rthr St (option R) (option R) c) t = Some (RDone St (option R) (option R) r) ->
  exists k : nat,
  nth_error sigma k = Some t /\
  nth_error (pick A l sigma) k = nth_error l t /\
  r = nth_error (snd (srun St A R f s0 (pick A l sigma))) k /\ r <> None)).
Proof. exact (@ConcRWProofs.rw_atomic_serialisable). Qed.
Print Assumptions rw_atomic_serialisable.

Theorem file_concurrent_rw :
  forall (O0 : oracles) (v6 : bool) (t0 : ftable) (ops : list fop),
  Forall (same_proto v6) ops ->
  forall sched : list nat,
  rall_done ftable (option fobs) (option fobs)
  (map (rwaop ftable fop fobs (fstep O0) fop_reader) ops)
  (rrun ftable (option fobs) (option fobs)
  (map (rwaop ftable fop fobs (fstep O0) fop_reader) ops) t0 sched) ->
  exists sigma : list nat,
  Permutation.Permutation sigma (seq 0 (length ops)) /\
  (let hist := pick fop ops sigma in
  let c :=
  rrun ftable (option fobs) (option fobs)
  (map (rwaop ftable fop fobs (fstep O0) fop_reader) ops) t0 sched in
  rsh ftable (option fobs) (option fobs) c = last_good O0 v6 t0 hist /\
  (forall (t : nat) (r : option fobs),
  nth_error (rthr ftable (option fobs) (option fobs) c) t =
  Some (RDone ftable (option fobs) (option fobs) r) ->
  exists (k : nat) (o : fop),
  nth_error sigma k = Some t /\
  nth_error ops t = Some o /\
  r = Some (snd (fstep O0 (last_good O0 v6 t0 (firstn k hist)) o)))).
Proof. exact (@ConcRWProofs.file_concurrent_rw). Qed.
Print Assumptions file_concurrent_rw.

Theorem checker_sound :
  forall (s : sk) (tr : list ev) (o : outcome),
  exec s tr o ->
  forall (fuel : nat) (st : lst) (r : res),
  run_sk fuel s st = Some r -> exists st' : lst, tr_run st tr = Some st' /\ post o st' r.
Proof. exact (@SkelProofs.run_sk_sound). Qed.
Print Assumptions checker_sound.

Theorem well_locked_sound :
  forall f : fskel,
  well_locked f = true ->
  forall (tr : list ev) (o : outcome),
  exec (fs_body f) tr o ->
  exists st' : lst, tr_run (init_of f) tr = Some st' /\ o <> Brk /\ ret_ok st' = true.
Proof. exact (@SkelProofs.well_locked_sound). Qed.
Print Assumptions well_locked_sound.

Theorem skeletons_translated :
  skeleton_translated = true.
Proof. exact (@SkelGen.skeletons_translated). Qed.
Print Assumptions skeletons_translated.

Theorem skeletons_cover :
  map fs_name all_skeletons = analysed_functions.
Proof. exact (@SkelGen.skeletons_cover). Qed.
Print Assumptions skeletons_cover.

Theorem census_covered :
  forallb
  (fun f : String.string =>
  mem_str f (map fs_name all_skeletons) || mem_str f exempt_functions) census = true.
Proof. exact (@SkelGen.census_covered). Qed.
Print Assumptions census_covered.

Theorem skeletons_all_well_locked :
  forallb well_locked all_skeletons = true.
Proof. exact (@SkelGen.skeletons_all_well_locked). Qed.
Print Assumptions skeletons_all_well_locked.

Theorem skeletons_lock_order :
  lock_order_ok all_skeletons = true.
Proof. exact (@SkelGen.skeletons_lock_order). Qed.
Print Assumptions skeletons_lock_order.

Theorem every_path_well_locked :
  forall f : fskel,
  In f all_skeletons ->
  forall (tr : list ev) (o : outcome),
  exec (fs_body f) tr o ->
  exists st' : lst, tr_run (init_of f) tr = Some st' /\ o <> Brk /\ ret_ok st' = true.
Proof. exact (@SkelGen.every_path_well_locked). Qed.
Print Assumptions every_path_well_locked.

Theorem every_access_under_lock :
  forall f : fskel,
  In f all_skeletons ->
  forall (tr : list ev) (o : outcome) (pre : list ev) (w : bool) (n : String.string)
  (post_ : list ev),
  exec (fs_body f) tr o ->
  tr = pre ++ EAcc w n :: post_ ->
  exists s : lst,
  tr_run (init_of f) pre = Some s /\
  (held s = Some true \/ held s = Some false /\ w = false).
Proof. exact (@SkelGen.every_access_under_lock). Qed.
Print Assumptions every_access_under_lock.

Theorem no_double_release :
  forall f : fskel,
  In f all_skeletons ->
  forall (tr : list ev) (o : outcome) (pre : list ev) (w : bool) (post_ : list ev),
  exec (fs_body f) tr o ->
  tr = pre ++ EUnlock w :: post_ ->
  exists s : lst, tr_run (init_of f) pre = Some s /\ held s = Some w /\ deferred s = false.
Proof. exact (@SkelGen.no_double_release). Qed.
Print Assumptions no_double_release.

Theorem acquisitions_sound :
  forall (s : sk) (tr : list ev) (o : outcome),
  exec s tr o ->
  forall fuel : nat, (acq fuel s <= 1)%nat -> (count_locks tr <= acq fuel s)%nat.
Proof. exact (@SkelProofs.acq_sound). Qed.
Print Assumptions acquisitions_sound.

Theorem skeletons_one_section :
  forallb one_section all_skeletons = true.
Proof. exact (@SkelGen.skeletons_one_section). Qed.
Print Assumptions skeletons_one_section.

Theorem every_path_one_acquisition :
  forall f : fskel,
  In f all_skeletons ->
  forall (tr : list ev) (o : outcome), exec (fs_body f) tr o -> (count_locks tr <= 1)%nat.
Proof. exact (@SkelGen.every_path_one_acquisition). Qed.
Print Assumptions every_path_one_acquisition.


(* Non-vacuity (proofs/ConcExamples.v): three goroutines - two of them the same client - send a
   request at once to the range plugin on a 2-address range; under the interleaved schedule
   ex_conc_sched (lock attempts while the lock is held included) all three finish, and the two
   copies of one client's request are answered with the same address. *)
Example hypotheses_satisfiable :
  range_setup ex_s ex_e ex_lease [] = Ok ex_st0 /\ Forall wf_hop ex_conc_reqs /\
  all_done _ _ _ (map (aop _ _ _ (hstep ex_s ex_e)) ex_conc_reqs) ex_conc_cfg /\
  thr _ _ _ ex_conc_cfg =
  [Done _ _ _ (Some (HReply [10%N;0%N;0%N;2%N] (Some [0%N;0%N;14%N;16%N])));
   Done _ _ _ (Some (HReply [10%N;0%N;0%N;1%N] (Some [0%N;0%N;14%N;16%N])));
   Done _ _ _ (Some (HReply [10%N;0%N;0%N;2%N] (Some [0%N;0%N;14%N;16%N])))].
Proof. exact (conj ex_setup (conj ex_conc_wf (conj ex_conc_done ex_conc_results))). Qed.
