(* C03 — The lease database the server wrote always restores the same bindings.
   Every prefix of every history is a restart point (the theorems quantify over all `ops`);
   the restart succeeds for every re-marking order and restores a table that contains every
   reply handed out so far, nothing else, as a bijection.  Hardware addresses are arbitrary byte
   strings (any length), hostnames arbitrary bytes; sqlite's NUMERIC affinity on the `mac`
   column is part of the model (mac_affinity). *)
From Verif Require Import Base BaseProofs Net NetProofs Bitset IdxAlloc BitsetProofs Ipcalc IpcalcRun Alloc AllocRun Alloc4Proofs Msg4 RangePlugin RangeRun RangeProofs RangeTheorems RangeExamples.
From Coq Require Import Permutation.
Open Scope N_scope.

Theorem restart_restores :
  forall (s e : bytes) (lease : Z) (st0 : rstate),
  wf_bytes s ->
  wf_bytes e ->
  range_setup s e lease [] = Ok st0 ->
  forall (ops : list hop) (ord : list (bytes * rec) -> list (bytes * rec)),
  Forall wf_hop ops ->
  (forall l : list (bytes * rec), Permutation.Permutation l (ord l)) ->
  let st := fst (hrun s e st0 ops) in
  let outs := snd (hrun s e st0 ops) in
  exists st' : rstate,
  range_setup_ord ord s e lease (rs_db st) = Ok st' /\
  bindings st' = bindings st /\
  (forall c y : bytes, In (c, y) (replies ops outs) -> In (mac_string c, y) (bindings st')) /\
  NoDup (map fst (bindings st')) /\
  NoDup (map snd (bindings st')) /\
  (forall k y : bytes,
  In (k, y) (bindings st') ->
  exists c : bytes, k = mac_string c /\ In (c, y) (replies ops outs)).
Proof. exact RangeTheorems.restart_restores. Qed.
Print Assumptions restart_restores.

Theorem expiry_covers_promise :
  forall (s e : bytes) (lease : Z) (st0 : rstate),
  wf_bytes s ->
  wf_bytes e ->
  range_setup s e lease [] = Ok st0 ->
  forall (ops : list hop) (now : Z) (c host : bytes),
  Forall wf_hop ops ->
  wf_bytes c ->
  let st := fst (hrun s e st0 ops) in
  let (st', h) := hstep s e st (HReq now c host) in
  match h with
  | HReply y _ =>
  exists row0 : row,
  In row0 (rs_db st') /\
  r_mac row0 = mac_affinity (mac_string c) /\
  r_ip row0 = y /\ (now + lease - NS < r_exp row0 * NS)%Z
  | _ => True
  end.
Proof. exact RangeTheorems.expiry_covers_promise. Qed.
Print Assumptions expiry_covers_promise.

Theorem db_text_roundtrip :
  forall hw : bytes, wf_bytes hw -> parse_hw (mac_affinity (mac_string hw)) = Some hw.
Proof. exact RangeProofs.mac_db_roundtrip. Qed.
Print Assumptions db_text_roundtrip.


Example hypotheses_satisfiable :
  range_setup ex_s ex_e ex_lease [] = Ok ex_st0 /\ (wf_bytes ex_s /\ wf_bytes ex_e /\ Forall wf_hop ex_hops) /\
  snd (hrun ex_s ex_e ex_st0 ex_hops) =
  [HReply [10;0;0;1] (Some [0;0;14;16]); HReply [10;0;0;2] (Some [0;0;14;16]); HRestarted;
   HReply [10;0;0;1] (Some [0;0;14;16]); HDrop; HReply [10;0;0;2] (Some [0;0;14;16])].
Proof. exact (conj ex_setup (conj ex_wf ex_run)). Qed.
