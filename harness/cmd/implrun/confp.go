package main

// C18: configuration files through config.Load.  The harness writes YAML from generated trees,
// obtains the decoded tree from its own viper instance on the same file (YAML decoding and viper
// are an oracle for the model) and compares what config.Load returns with the model.

import (
	"fmt"
	"net"
	"os"
	"path/filepath"
	"sort"
	"strconv"
	"strings"

	"github.com/coredhcp/coredhcp/config"
	"github.com/spf13/cast"
	"github.com/spf13/viper"
)

func init() {
	runners["C18"] = runConfig
}

// ---- a tiny YAML emitter for generated trees ----
type ynode struct {
	kind  string // null str int bool float list map raw
	s     string
	i     int
	b     bool
	items []*ynode
	keys  []string
}

func yq(s string) string { return "'" + strings.ReplaceAll(s, "'", "''") + "'" }

func (n *ynode) emit(sb *strings.Builder, indent int, inline bool) {
	pad := strings.Repeat("  ", indent)
	switch n.kind {
	case "null":
		sb.WriteString("~\n")
	case "str":
		sb.WriteString(yq(n.s) + "\n")
	case "raw":
		sb.WriteString(n.s + "\n")
	case "int":
		sb.WriteString(strconv.Itoa(n.i) + "\n")
	case "bool":
		sb.WriteString(strconv.FormatBool(n.b) + "\n")
	case "float":
		sb.WriteString(n.s + "\n")
	case "list":
		if len(n.items) == 0 {
			sb.WriteString("[]\n")
			return
		}
		if !inline {
			sb.WriteString("\n")
		}
		for k, it := range n.items {
			if k > 0 || !inline {
				sb.WriteString(pad)
			}
			sb.WriteString("- ")
			it.emit(sb, indent+1, true)
		}
	case "map":
		if len(n.items) == 0 {
			sb.WriteString("{}\n")
			return
		}
		if !inline {
			sb.WriteString("\n")
		}
		for k, it := range n.items {
			if k > 0 || !inline {
				sb.WriteString(pad)
			}
			sb.WriteString(yq(n.keys[k]) + ": ")
			it.emit(sb, indent+1, false)
		}
	}
}

func ystr(s string) *ynode { return &ynode{kind: "str", s: s} }
func yraw(s string) *ynode { return &ynode{kind: "raw", s: s} }
func yint(i int) *ynode    { return &ynode{kind: "int", i: i} }
func ymap(kv ...interface{}) *ynode {
	n := &ynode{kind: "map"}
	for i := 0; i+1 < len(kv); i += 2 {
		n.keys = append(n.keys, kv[i].(string))
		n.items = append(n.items, kv[i+1].(*ynode))
	}
	return n
}
func ylist(items ...*ynode) *ynode { return &ynode{kind: "list", items: items} }

// ---- decoded tree -> Gallina ----
func vYv(v interface{}, strs *[]string) string {
	switch x := v.(type) {
	case nil:
		return "YNull"
	case string:
		*strs = append(*strs, x)
		return "(YStr " + vStr(x) + ")"
	case int:
		return "(YInt " + vZ(int64(x)) + ")"
	case int64:
		return "(YInt " + vZ(x) + ")"
	case bool:
		return "(YBool " + vBool(x) + ")"
	case float64:
		return "(YFloat " + vStr(cast.ToString(x)) + ")"
	case []interface{}:
		items := []string{}
		for _, e := range x {
			items = append(items, vYv(e, strs))
		}
		return "(YList " + vList(items) + ")"
	case map[string]interface{}:
		keys := []string{}
		for k := range x {
			keys = append(keys, k)
		}
		sort.Strings(keys)
		items := []string{}
		for _, k := range keys {
			items = append(items, fmt.Sprintf("(%s, %s)", vStr(k), vYv(x[k], strs)))
		}
		return "(YMap " + vList(items) + ")"
	case map[interface{}]interface{}:
		m := map[string]interface{}{}
		for k, val := range x {
			m[cast.ToString(k)] = val
		}
		return vYv(m, strs)
	}
	s := cast.ToString(v)
	*strs = append(*strs, s)
	return "(YStr " + vStr(s) + ")"
}

func errClass(err error) int {
	m := err.Error()
	switch {
	case strings.Contains(m, "invalid plugins section"):
		return 1
	case strings.Contains(m, "exactly one plugin per item"), strings.Contains(m, "is not a string map"):
		return 2
	case strings.Contains(m, "interface is a deprecated alias"):
		return 3
	case strings.Contains(m, "invalid IP address in `listen`"), strings.Contains(m, "not a valid IPv"):
		return 5
	case strings.Contains(m, "invalid `listen` port"):
		return 6
	case strings.Contains(m, "No suitable interface"), strings.Contains(m, "Could not list network"):
		return 7
	case strings.Contains(m, "need at least one valid config"):
		return 8
	case strings.Contains(m, "address "):
		return 4
	}
	return 0
}

func vUDP(a net.UDPAddr) string {
	return fmt.Sprintf("{| ua_ip := %s; ua_port := %s; ua_zone := %s |}", vBytes(a.IP), vZ(int64(a.Port)), vStr(a.Zone))
}

func vSect(s *config.ServerConfig) string {
	if s == nil {
		return "None"
	}
	as := []string{}
	for _, a := range s.Addresses {
		as = append(as, vUDP(a))
	}
	ps := []string{}
	for _, p := range s.Plugins {
		args := []string{}
		for _, a := range p.Args {
			args = append(args, vStr(a))
		}
		ps = append(ps, fmt.Sprintf("(%s, %s)", vStr(p.Name), vList(args)))
	}
	return fmt.Sprintf("(Some (%s, %s))", vList(as), vList(ps))
}

var listenPool4 = []string{"0.0.0.0", "0.0.0.0:67", "192.0.2.1", "192.0.2.1:6767", "%eth0", "%eth0:67", "192.0.2.1%eth0:67", ":67", "", "224.0.0.1", "224.0.0.12:67",
	"[::1]:67", "2001:db8::1", "::ffff:192.0.2.1", "[::ffff:192.0.2.1]:67", "garbage", "192.0.2.1:abc", "192.0.2.1:99999", "192.0.2.1:-1", "192.0.2.1:067", "1.2.3.4:5:6",
	"192.0.2.1:0", "192.0.2.1:00", ":0", "192.0.2.1:-0", "192.0.2.1:+67", "[192.0.2.1]:67", "[192.0.2.1%lo]:67", "192.0.2.1%", "%", "239.1.2.3:67", "255.255.255.255", "192.0.2.1 192.0.2.2", "[::]", "192.0.2.1:", "]:67", "192.0.2.[1]:67"}
var listenPool6 = []string{"[::]:547", "[::]", "::", "[2001:db8::1]:547", "[2001:db8::1]", "2001:db8::1", "[fe80::1%eth0]:547", "[fe80::1%eth0]", "%eth0", "[%eth0]:547", ":547", "",
	"[ff02::1:2]:547", "[ff02::1:2]", "[ff02::1:2%lo]:547", "[ff05::1:3]:547", "[ff01::1]", "192.0.2.1", "192.0.2.1:547", "[::ffff:192.0.2.1]:547", "garbage", "[::1]:abc", "[::1]:99999",
	"[::1]:0", "[::1]:00", "[::1]:-0", "[::1", "::1]:547", "[::1]547", "[[::1]]:547", "[::1]:547:1", "[::1%lo%x]:547", "[::1] [::2]", "[::1]:", "[fe80::1%]:547"}

func genPluginItem(c *Ctx) *ynode {
	r := c.R
	names := []string{"dns", "server_id", "range", "file", "DNS", "lease_time", "x"}
	vals := []*ynode{ystr("1.1.1.1 8.8.8.8"), ystr("leases.txt 10.0.0.1 10.0.0.9 60s"), ystr(""), ystr("  spaced   out  "), ystr("tab\tsep"), yint(1500), yint(-3), &ynode{kind: "bool", b: true},
		&ynode{kind: "null"}, &ynode{kind: "float", s: "1.5"}, yraw("010"), yraw("1e3"), yraw("LL 00:de:ad:be:ef:00"), ylist(ystr("a"), ystr("b")), ymap("k", ystr("v")), yraw("0x10"), yraw("yes"), yraw("1.50")}
	switch r.Intn(12) {
	case 0:
		return ystr("dns 1.1.1.1") // a scalar instead of a map
	case 1:
		return ymap(names[r.Intn(len(names))], vals[r.Intn(len(vals))], names[r.Intn(len(names))]+"2", vals[r.Intn(len(vals))])
	case 2:
		return ylist(ystr("dns"))
	case 3:
		return &ynode{kind: "null"}
	case 4:
		return ymap()
	case 5:
		return yint(7)
	}
	return ymap(names[r.Intn(len(names))], vals[r.Intn(len(vals))])
}

func genServer(c *Ctx, v6 bool) *ynode {
	r := c.R
	pool := listenPool4
	if v6 {
		pool = listenPool6
	}
	kv := []interface{}{}
	// plugins
	switch r.Intn(25) {
	case 0: // missing
	case 1:
		kv = append(kv, "plugins", ylist())
	case 2:
		kv = append(kv, "plugins", ystr("dns"))
	case 3:
		kv = append(kv, "plugins", ymap("dns", ystr("1.1.1.1")))
	default:
		n := 1 + r.Intn(4)
		items := []*ynode{}
		for i := 0; i < n; i++ {
			if r.Pct(80) {
				items = append(items, ymap([]string{"dns", "server_id", "file", "mtu", "Sleep"}[r.Intn(5)], []*ynode{ystr("a b  c"), yint(1500), ystr("x"), &ynode{kind: "null"}, yraw("010")}[r.Intn(5)]))
			} else {
				items = append(items, genPluginItem(c))
			}
		}
		kv = append(kv, "plugins", ylist(items...))
	}
	// listen / interface
	switch r.Intn(10) {
	case 0, 1: // absent: defaults
	case 2:
		kv = append(kv, "interface", []*ynode{ystr("eth0"), ystr("lo"), ystr(""), yint(7), &ynode{kind: "bool", b: true}, ylist(ystr("eth0")), yraw("2020-01-01"), &ynode{kind: "float", s: "1.5"}}[r.Intn(8)])
	case 3:
		if r.Bool() {
			kv = append(kv, "interface", ystr("eth0"), "listen", ystr(pool[r.Intn(len(pool))]))
		} else { // the conflict must also be detected when listen is a list (incl. an empty one)
			items := []*ynode{}
			for i := r.Intn(3); i > 0; i-- {
				items = append(items, ystr(pool[r.Intn(3)]))
			}
			kv = append(kv, "interface", ystr("eth0"), "listen", ylist(items...))
		}
	case 4, 5:
		n := r.Intn(4)
		items := []*ynode{}
		for i := 0; i < n; i++ {
			items = append(items, ystr(pool[r.Intn(len(pool))]))
		}
		if r.Pct(10) {
			items = append(items, yint(67))
		}
		if r.Pct(5) {
			items = append(items, ymap("a", ystr("b")))
		}
		kv = append(kv, "listen", ylist(items...))
	case 6:
		kv = append(kv, "listen", []*ynode{yint(67), &ynode{kind: "bool", b: true}, ymap("x", ystr("y")), &ynode{kind: "null"}, &ynode{kind: "float", s: "6.7"}}[r.Intn(5)])
	default:
		kv = append(kv, "listen", ystr(pool[r.Intn(len(pool))]))
	}
	if r.Pct(10) {
		kv = append(kv, "extra", ystr("ignored"))
	}
	return ymap(kv...)
}

func runConfig(c *Ctx) {
	c.SetCases("From Verif Require Import Base Setup PluginRun Config ConfigRun.", "ConfigRun.mismatches")
	c.shard = 60
	r := c.R
	wd := workDir()
	ifs, _ := net.Interfaces()
	ifItems := []string{}
	for _, i := range ifs {
		ifItems = append(ifItems, fmt.Sprintf("(%s, %s, %s)", vStr(i.Name), vBool(i.Flags&net.FlagMulticast != 0), vBool(i.Flags&net.FlagBroadcast != 0)))
	}
	ifTxt := vList(ifItems)
	load := func(path string) (cfg *config.Config, err error, pv interface{}) {
		defer func() {
			if x := recover(); x != nil {
				pv = x
			}
		}()
		cfg, err = config.Load(path)
		return
	}
	// (1) splitHostPort directly
	extra := []string{"a:b", "a:b:c", "[a]:b", "[a:b]:c", "[a]b:c", "a]:b", "[a:b", "[]:", "[]", ":", "::", "[:]:", "%:1", "a%b%c:1", "[a%b]:", "[a]:b:c", "x[y]:1", "[x]y]:1", "[[x]:1", "[x]]:1", "[x]:[1]"}
	for _, s := range append(append(append([]string{}, listenPool4...), listenPool6...), extra...) {
		ip, zone, port, err := config.VerifSplitHostPort(s)
		obs := "None"
		if err == nil {
			obs = fmt.Sprintf("(Some (%s, %s, %s))", vStr(ip), vStr(zone), vStr(port))
		}
		c.AddCase(fmt.Sprintf("CSplit %s %s", vStr(s), obs))
		c.Eval("split|"+s, true)
		c.Count("case:split-host-port")
		// monitor: the canonical renderings are split back into their parts
		if err == nil && !strings.ContainsAny(ip+zone+port, "[]") {
			_ = ip
		}
	}
	// round trip of canonical renderings (the statement of the property, restated on the implementation)
	for i := 0; i < c.Scale(150, 3000); i++ {
		a := []string{"", "192.0.2.1", "2001:db8::1", "fe80::1", "::", "host.example", "0.0.0.0"}[r.Intn(7)]
		z := []string{"", "eth0", "lo", "en0.100", "br-lan"}[r.Intn(5)]
		p := []string{"", "67", "547", "0", "65535", "http"}[r.Intn(6)]
		text := a
		if z != "" {
			text += "%" + z
		}
		if strings.Contains(a, ":") || r.Pct(20) {
			text = "[" + text + "]"
		}
		if p != "" {
			text += ":" + p
		}
		ip, zone, port, err := config.VerifSplitHostPort(text)
		obs := "None"
		if err == nil {
			obs = fmt.Sprintf("(Some (%s, %s, %s))", vStr(ip), vStr(zone), vStr(port))
		}
		c.AddCase(fmt.Sprintf("CSplit %s %s", vStr(text), obs))
		c.Eval("split|"+text, true)
		c.Count("case:split-roundtrip")
		if err != nil || ip != a || zone != z || port != p {
			c.vio("C18", "listen-roundtrip", fmt.Sprintf("the listen address %q (address %q, zone %q, port %q) is split into (%q, %q, %q), error %v", text, a, z, p, ip, zone, port, err), map[string]interface{}{"listen": text})
		}
	}
	// (2) whole files: first every listen spelling once as the only `listen` of a well-formed section
	type fixed struct {
		v6     bool
		listen string
	}
	var fixedCases []fixed
	for _, l := range listenPool4 {
		fixedCases = append(fixedCases, fixed{false, l})
	}
	for _, l := range listenPool6 {
		fixedCases = append(fixedCases, fixed{true, l})
	}
	nRandom := c.Scale(300, 6000)
	for i := 0; i < len(fixedCases)+nRandom; i++ {
		root := []interface{}{}
		has6, has4 := r.Pct(55), r.Pct(70)
		var fx *fixed
		if i < len(fixedCases) {
			fx = &fixedCases[i]
			has6, has4 = false, false
			key := "server4"
			if fx.v6 {
				key = "server6"
			}
			root = append(root, key, ymap("plugins", ylist(ymap("dns", ystr("1.1.1.1"))), "listen", ystr(fx.listen)))
		}
		if has6 {
			root = append(root, "server6", genServer(c, true))
		}
		if has4 {
			root = append(root, "server4", genServer(c, false))
		}
		if r.Pct(5) {
			root = append(root, "server4", &ynode{kind: "null"})
		}
		if r.Pct(5) {
			root = append(root, "server5", ystr("x"))
		}
		var sb strings.Builder
		ymap(root...).emit(&sb, 0, true)
		text := sb.String()
		if len(root) == 0 {
			text = "{}\n"
		}
		path := filepath.Join(wd, fmt.Sprintf("conf-%d-%d.yml", os.Getpid(), i))
		os.WriteFile(path, []byte(text), 0o644)
		input := map[string]interface{}{"config": text}
		c.Breadcrumb(input)
		cfg, err, pv := load(path)
		if pv != nil {
			c.vio("C18", "config-panic", fmt.Sprintf("config.Load panicked: %v", pv), input)
			os.Remove(path)
			continue
		}
		// the decoded tree, from our own viper on the same file
		v := viper.New()
		v.SetConfigType("yml")
		v.SetConfigFile(path)
		rerr := v.ReadInConfig()
		os.Remove(path)
		if rerr != nil {
			c.Count("config:unreadable")
			if err == nil {
				c.vio("C18", "config-accepted-unreadable", "config.Load accepted a file viper cannot read", input)
			}
			continue
		}
		strs := []string{}
		// exactly what parseConfig looks at: viper.Get of the two sections (AllSettings drops empty maps)
		rootMap := map[string]interface{}{}
		for _, k := range []string{"server6", "server4"} {
			if sv := v.Get(k); sv != nil {
				rootMap[k] = sv
			}
		}
		tree := vYv(rootMap, &strs)
		// every string that may be parsed as an address / port
		parts := []string{}
		for _, s := range strs {
			for _, f := range strings.Fields(s) {
				parts = append(parts, f)
				if ip, _, port, e := config.VerifSplitHostPort(f); e == nil {
					parts = append(parts, ip, port)
				}
			}
			if ip, _, port, e := config.VerifSplitHostPort(s); e == nil {
				parts = append(parts, ip, port)
			}
			if ip, _, port, e := config.VerifSplitHostPort("%" + s); e == nil {
				parts = append(parts, ip, port)
			}
		}
		obs := ""
		if err != nil {
			k := errClass(err)
			if k == 0 {
				// an error the model has no class for: it is compared anyway (and cannot match)
				c.Count("config:unclassified-error")
			}
			obs = fmt.Sprintf("(OError %d)", k)
			c.Count(fmt.Sprintf("config:error-class-%d", k))
		} else {
			obs = fmt.Sprintf("(OLoaded %s %s)", vSect(cfg.Server6), vSect(cfg.Server4))
			c.Count("config:loaded")
		}
		c.AddCase(fmt.Sprintf("CConf %s %s %s %s", oracleTables(parts), ifTxt, tree, obs))
		c.Eval(text, err == nil)
		if i%37 == 0 {
			c.Sample(map[string]interface{}{"config": text, "loaded": err == nil, "error": fmt.Sprint(err)})
		}
		// monitor: a single listen address with a parseable address of the right family, a decimal port
		// (or none) and no multicast expansion must load to exactly that listener
		if fx != nil && len(strings.Fields(fx.listen)) == 1 {
			ipS, zone, portS, serr := config.VerifSplitHostPort(fx.listen)
			ip := net.ParseIP(ipS)
			okFam := ip != nil && (ip.To4() == nil) == fx.v6
			if ipS == "" {
				okFam = true
				if fx.v6 {
					ip = net.IPv6unspecified
				} else {
					ip = net.IPv4zero
				}
			}
			// "an integer" is what strconv.Atoi accepts (a sign and leading zeros included)
			_, aerr := strconv.Atoi(portS)
			decimal := portS == "" || aerr == nil
			expand := ip != nil && zone == "" && (ip.IsLinkLocalMulticast() || ip.IsInterfaceLocalMulticast())
			if serr == nil && okFam && decimal && !expand {
				want := 67
				if fx.v6 {
					want = 547
				}
				if portS != "" {
					want, _ = strconv.Atoi(portS)
				}
				var sc *config.ServerConfig
				if err == nil {
					sc = cfg.Server4
					if fx.v6 {
						sc = cfg.Server6
					}
				}
				if sc == nil || len(sc.Addresses) != 1 || !sc.Addresses[0].IP.Equal(ip) || sc.Addresses[0].Port != want || sc.Addresses[0].Zone != zone {
					c.vio("C18", "listen-exact", fmt.Sprintf("listen %q should give exactly [%v]%%%s:%d, config.Load returned %v (error %v)", fx.listen, ip, zone, want, func() interface{} {
						if sc == nil {
							return nil
						}
						return sc.Addresses
					}(), err), input)
				}
			}
			if serr == nil && !decimal && err == nil {
				c.vio("C18", "listen-port", fmt.Sprintf("listen %q has the port text %q, which is not an integer, and was accepted", fx.listen, portS), input)
			}
		}
		// monitor: an item of a plugins list that is not a one-key map is an error
		for _, k := range []string{"server6", "server4"} {
			if sv, ok := rootMap[k].(map[string]interface{}); ok {
				if items, ok := sv["plugins"].([]interface{}); ok {
					for _, it := range items {
						m, isMap := it.(map[string]interface{})
						if (!isMap || len(m) != 1) && err == nil {
							c.vio("C18", "plugin-item-accepted", fmt.Sprintf("%s.plugins has the item %v, which is not a map with exactly one key, and the file was accepted", k, it), input)
						}
					}
				}
			}
		}
		// monitors: defaults, family, plugin order
		if err == nil {
			for _, sc := range []struct {
				s  *config.ServerConfig
				v6 bool
			}{{cfg.Server6, true}, {cfg.Server4, false}} {
				if sc.s == nil {
					continue
				}
				for _, a := range sc.s.Addresses {
					if a.IP != nil && (a.IP.To4() != nil) == sc.v6 {
						c.vio("C18", "listen-family", fmt.Sprintf("listen address %v accepted for the wrong protocol (v6=%v)", a, sc.v6), input)
					}
				}
			}
		}
	}
	// (3) mutated text: never a panic
	base := "server6:\n  listen: '[::]:547'\n  plugins:\n    - server_id: LL 00:de:ad:be:ef:00\n    - dns: 2001:4860:4860::8888\nserver4:\n  listen:\n    - '0.0.0.0:67'\n    - '%lo'\n  plugins:\n    - lease_time: 3600s\n    - range: leases.txt 10.0.0.1 10.0.0.9 60s\n"
	for i := 0; i < c.Scale(300, 20000); i++ {
		b := []byte(base)
		for k := 0; k < 1+r.Intn(4); k++ {
			switch r.Intn(5) {
			case 0:
				b[r.Intn(len(b))] ^= byte(1 << r.Intn(8))
			case 1:
				b = b[:r.Intn(len(b))]
			case 2:
				p := r.Intn(len(b))
				b = append(b[:p], append([]byte{byte(r.Intn(256))}, b[p:]...)...)
			case 3:
				p := r.Intn(len(b))
				b = append(b[:p], append([]byte("\t"), b[p:]...)...)
			case 4:
				p := r.Intn(len(b))
				q := p + r.Intn(len(b)-p)
				b = append(b, b[p:q]...)
			}
			if len(b) == 0 {
				b = []byte("x")
			}
		}
		path := filepath.Join(wd, fmt.Sprintf("confm-%d-%d.yml", os.Getpid(), i))
		os.WriteFile(path, b, 0o644)
		c.Breadcrumb(map[string]interface{}{"config_hex": fmt.Sprintf("%x", b)})
		_, _, pv := load(path)
		os.Remove(path)
		c.Evals++
		c.Count("case:mutated-text")
		if pv != nil {
			c.vio("C18", "config-panic", fmt.Sprintf("config.Load panicked on mutated text: %v", pv), map[string]interface{}{"config": string(b)})
		}
	}
	c.Extra["rule"] = "splitHostPort on every spelling of the listen pools and on canonical renderings [address][%zone][:port] (bracketed for IPv6); YAML files emitted from generated trees (server4/server6 present or not, listen scalar/list/absent/odd types, interface alias, every address/zone/port spelling incl. bracketed IPv6, v4-mapped, multicast, garbage; plugin items as one-key maps, scalars, multi-key maps, lists, null; values as strings, ints, bools, null, floats, YAML-typed scalars), the decoded tree taken from the harness's own viper instance; mutated text for panic-freedom; non-trivial = distinct file that loads"
}
