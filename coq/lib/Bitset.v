(* Bitset.v — the subset of github.com/bits-and-blooms/bitset used by the allocators:
   New, Test, Set (which GROWS the set when the index is beyond its length), Clear,
   NextClear(0).  Represented as (length, list of set indices). *)
From Verif Require Import Base.
Open Scope N_scope.

Record bitset := { blen : N; bits : list N }.

Definition bs_new (n : N) : bitset := {| blen := n; bits := [] |}.

Definition mem (i : N) (l : list N) : bool := existsb (N.eqb i) l.

Definition bs_test (b : bitset) (i : N) : bool := (i <? blen b) && mem i (bits b).

Definition bs_set (b : bitset) (i : N) : bitset :=
  {| blen := if i <? blen b then blen b else i + 1;
     bits := if mem i (bits b) then bits b else i :: bits b |}.

Fixpoint remove_n (i : N) (l : list N) : list N :=
  match l with
  | [] => []
  | x :: l' => if i =? x then remove_n i l' else x :: remove_n i l'
  end.

Definition bs_clear (b : bitset) (i : N) : bitset :=
  if i <? blen b then {| blen := blen b; bits := remove_n i (bits b) |} else b.

(* first clear index >= j and < blen; the first clear index of a set with k members
   is at most k, so fuel k+1 always suffices (proved in BitsetProofs.first_clear_none) *)
Fixpoint find_clear (b : bitset) (j : N) (fuel : nat) : option N :=
  match fuel with
  | O => None
  | S f => if j <? blen b then (if mem j (bits b) then find_clear b (j + 1) f else Some j)
           else None
  end.

Definition bs_next_clear (b : bitset) : option N := find_clear b 0 (S (length (bits b))).
