(* Alloc6Proofs.v — the IPv6 fixed-size prefix allocator refines the index-level allocator *)
From Verif Require Import Base BaseProofs Net NetProofs Bitset IdxAlloc BitsetProofs Ipcalc IpcalcProofs IpcalcRun Alloc AllocRun.
From Coq Require Import Lia ZifyN ZifyNat ZifyBool.
Open Scope N_scope.

(* a pool as net.ParseCIDR produces it: 16-byte native IPv6 base aligned to its /L mask,
   carved into /P blocks, 2^(P-L) of them *)
Record valid6 (a : a6) (L P : N) : Prop := {
  v6_ip : wf_ip16 (a6_ip a);
  v6_native : to4 (a6_ip a) = None;
  v6_mask : a6_mask a = cidr_bytes 16 L;
  v6_page : a6_page a = Z.of_N P;
  v6_LP : L <= P /\ P <= 128 /\ P - L < 64;
  v6_aligned : v (a6_ip a) mod Bsz L = 0;
  v6_bm : binv (a6_bm a) (2 ^ (P - L)) }.

Definition blk_ip (a : a6) (P i : N) : bytes := be_bytes 16 (v (a6_ip a) + i * Bsz P).

Definition hint_idx6 (a : a6) (hip : bytes) : option N :=
  match to16 hip with
  | Some _ => if contains (a6_ip a) (a6_mask a) hip
              then match to_index6 a hip with Ok i => Some i | _ => None end else None
  | None => None
  end.

Definition free_idx6 (a : a6) (pip pmask : bytes) : option N :=
  match ip_mask pip pmask with
  | None => None
  | Some base => if negb (contains (a6_ip a) (a6_mask a) base) then None
                 else match to_index6 a base with Ok i => Some i | _ => None end
  end.

Definition abs_op6 (a : a6) (o : aop) : iop :=
  match o with
  | OAlloc hip _ => IAlloc (hint_idx6 a hip)
  | OFree pip pmask => IFree (free_idx6 a pip pmask)
  end.

(* the mask of the returned prefix: max(page, hint length) for a 128-bit hint mask *)
Definition req_mask (a : a6) (hmask : bytes) : bytes :=
  let '(ones, hbits) := mask_size hmask in
  cidr_mask (if ((ones <? a6_page a) || negb (hbits =? 128))%Z then a6_page a else ones) 128.

Definition conc_out6 (a : a6) (P : N) (o : aop) (r : iout) : aout :=
  match r with
  | IAllocOk i => RAlloc (Ok (blk_ip a P i, req_mask a (match o with OAlloc _ m => m | OFree _ m => m end)))
  | IAllocFull => RAlloc (Err ENoAddr)
  | IFreeOk _ => RFree (Ok tt)
  | IFreeErr true => RFree (Err EDoubleFree)
  | IFreeErr false => RFree (Err ENotInRange)
  end.

Definition wf_op (o : aop) : Prop :=
  match o with OAlloc a m | OFree a m => wf_bytes a /\ wf_bytes m end.

(* ---------- block-size arithmetic ---------- *)
Lemma Bsz_pos p : 0 < Bsz p. Proof. apply pow_pos. Qed.

Lemma Bsz_split L P : L <= P -> P <= 128 -> Bsz L = 2 ^ (P - L) * Bsz P.
Proof. intros H1 H2. unfold Bsz. rewrite <- N.pow_add_r. f_equal. lia. Qed.

Lemma aligned_finer base L P : L <= P -> P <= 128 -> base mod Bsz L = 0 -> base mod Bsz P = 0.
Proof.
  intros H1 H2 H. rewrite (Bsz_split L P H1 H2) in H.
  pose proof (Bsz_pos P) as HP. pose proof (pow_pos (P - L)) as HE.
  apply N.mod_divide in H; [|lia]. apply N.mod_divide; [lia|].
  destruct H as [q Hq]. exists (q * 2 ^ (P - L)). lia.
Qed.

Lemma pool_end base L : L <= 128 -> base < W128 -> base mod Bsz L = 0 -> base + Bsz L <= W128.
Proof.
  intros HL Hb Hal. pose proof (Bsz_pos L) as HS.
  assert (HW : W128 = 2 ^ L * Bsz L).
  { rewrite W128_eq. unfold Bsz. rewrite <- N.pow_add_r. f_equal. lia. }
  apply N.mod_divide in Hal; [|lia]. destruct Hal as [q Hq]. subst base.
  rewrite HW in *. assert (q < 2 ^ L) by (apply (N.mul_lt_mono_pos_r (Bsz L)); assumption).
  assert ((q + 1) * Bsz L <= 2 ^ L * Bsz L) by (apply N.mul_le_mono_r; lia). lia.
Qed.

Lemma cidr_bytes_length n L : length (cidr_bytes n L) = n.
Proof. revert L; induction n as [|n IH]; intros L; cbn [cidr_bytes]; [reflexivity|]. destruct (8 <=? L); cbn; rewrite IH; reflexivity. Qed.

Lemma wf_ip16_bound a : wf_ip16 a -> v a < W128.
Proof. intros [L W]. unfold v. pose proof (be_val_bound a W) as B. rewrite L in B. exact B. Qed.

(* ---------- Contains on a valid pool is a range test ---------- *)
Lemma contains6 a L P ip : valid6 a L P -> wf_bytes ip ->
  (contains (a6_ip a) (a6_mask a) ip = true <->
   length ip = 16%nat /\ to4 ip = None /\ v (a6_ip a) <= v ip < v (a6_ip a) + Bsz L).
Proof.
  intros V W. destruct V as [[Lb Wb] Nat Mk Pg (H1 & H2 & H3) Al Bm].
  unfold contains, network_number_and_mask. rewrite Nat, Mk.
  unfold lenb at 1. rewrite Lb. cbn [Nat.eqb].
  unfold lenb. rewrite cidr_bytes_length, Lb. cbn [Nat.eqb].
  destruct (to4 ip) as [x|] eqn:T.
  - split; [|intros (_ & H & _); discriminate].
    intros H. apply andb_true_iff in H. destruct H as [H _].
    apply Nat.eqb_eq in H. unfold to4, lenb in T.
    destruct (Nat.eqb (length ip) 4) eqn:E4.
    + assert (x = ip) by congruence. subst x. apply Nat.eqb_eq in E4. lia.
    + destruct (Nat.eqb (length ip) 16 && bytes_eqb (firstn 12 ip) v4in6_prefix) eqn:E; [|discriminate].
      assert (x = skipn 12 ip) by congruence. subst x. rewrite skipn_length in H.
      apply andb_true_iff in E. destruct E as [E _]. apply Nat.eqb_eq in E. lia.
  - rewrite andb_true_iff, Nat.eqb_eq, bytes_eqb_eq, Lb. split.
    + intros [Hl He]. split; [exact Hl|]. split; [reflexivity|].
      symmetry in He.
      apply (and_cidr_eq 16 L ip (a6_ip a) Hl Lb W Wb ltac:(cbn; lia)) in He.
      change (8 * N.of_nat 16) with 128 in He. fold (Bsz L) in He. fold (v ip) (v (a6_ip a)) in He.
      apply (div_eq_range _ _ _ (Bsz_pos L) Al). exact He.
    + intros (Hl & _ & Hr). split; [exact Hl|].
      symmetry. apply (and_cidr_eq 16 L ip (a6_ip a) Hl Lb W Wb ltac:(cbn; lia)).
      change (8 * N.of_nat 16) with 128. fold (Bsz L). fold (v ip) (v (a6_ip a)).
      apply (div_eq_range _ _ _ (Bsz_pos L) Al). exact Hr.
Qed.

(* index of an address of the pool *)
Lemma to_index6_in_pool a L P ip : valid6 a L P -> wf_bytes ip -> length ip = 16%nat ->
  v (a6_ip a) <= v ip < v (a6_ip a) + Bsz L ->
  to_index6 a ip = Ok ((v ip - v (a6_ip a)) / Bsz P) /\ (v ip - v (a6_ip a)) / Bsz P < 2 ^ (P - L).
Proof.
  intros V W Hl [R1 R2]. destruct V as [Hb Nat Mk Pg (H1 & H2 & H3) Al Bm].
  assert (Hk : (v ip - v (a6_ip a)) / Bsz P < 2 ^ (P - L)).
  { apply N.div_lt_upper_bound; [pose proof (Bsz_pos P); lia|].
    rewrite N.mul_comm, <- (Bsz_split L P H1 H2). lia. }
  split; [|exact Hk].
  unfold to_index6, to16, lenb. rewrite Hl. cbn [Nat.eqb]. rewrite Pg.
  pose proof (offset_spec ip (a6_ip a) (Z.of_N P) (conj Hl W) Hb ltac:(lia)) as O.
  rewrite N2Z.id in O. specialize (O (aligned_finer _ L P H1 H2 Al) R1).
  destruct O as [O _]. apply O.
  eapply N.lt_le_trans; [exact Hk|]. rewrite W64_eq. apply N.pow_le_mono_r; lia.
Qed.

Lemma to_prefix6_ok a L P i : valid6 a L P -> i < 2 ^ (P - L) ->
  to_prefix6 a i = Ok (blk_ip a P i) /\
  v (a6_ip a) + i * Bsz P + Bsz P <= v (a6_ip a) + Bsz L.
Proof.
  intros V Hi. destruct V as [Hb Nat Mk Pg (H1 & H2 & H3) Al Bm].
  assert (Hin : v (a6_ip a) + i * Bsz P + Bsz P <= v (a6_ip a) + Bsz L).
  { rewrite (Bsz_split L P H1 H2).
    assert ((i + 1) * Bsz P <= 2 ^ (P - L) * Bsz P) by (apply N.mul_le_mono_r; lia). lia. }
  split; [|exact Hin].
  unfold to_prefix6. rewrite Pg.
  assert (E : u64_of_int (Z.of_N P) = P) by (rewrite u64_of_int_small by lia; apply N2Z.id).
  rewrite E.
  assert (Hi64 : i < W64).
  { eapply N.lt_le_trans; [exact Hi|]. rewrite W64_eq. apply N.pow_le_mono_r; lia. }
  destruct (add_prefixes_spec (a6_ip a) i P Hb H2 Hi64) as [A _]. apply A.
  pose proof (pool_end _ L ltac:(lia) (wf_ip16_bound _ Hb) Al). pose proof (Bsz_pos P). lia.
Qed.

(* ---------- the resolved hint / freed block are blocks of the pool ---------- *)
Lemma hint_idx6_lt a L P hip i : valid6 a L P -> wf_bytes hip -> hint_idx6 a hip = Some i -> i < 2 ^ (P - L).
Proof.
  intros V W H. unfold hint_idx6 in H. destruct (to16 hip); [|discriminate].
  destruct (contains (a6_ip a) (a6_mask a) hip) eqn:C; [|discriminate].
  apply (contains6 a L P hip V W) in C. destruct C as (Hl & _ & R).
  destruct (to_index6_in_pool a L P hip V W Hl R) as [E Hk]. rewrite E in H. injection H as <-. exact Hk.
Qed.

Lemma land_lt_256_all :
  forallb (fun x => forallb (fun y => N.land x y <? 256) (nrange 256)) (nrange 256) = true.
Proof. vm_compute. reflexivity. Qed.

Lemma and_bytes_wf a m : wf_bytes a -> wf_bytes m -> wf_bytes (and_bytes a m).
Proof.
  revert m. induction a as [|x a IH]; intros [|y m] Wa Wm; cbn [and_bytes]; try constructor.
  - pose proof land_lt_256_all as H. rewrite forallb_forall in H.
    specialize (H x (nrange_In 256 x (Forall_inv Wa))). rewrite forallb_forall in H.
    specialize (H y (nrange_In 256 y (Forall_inv Wm))). lia.
  - apply IH; [exact (Forall_inv_tail Wa)|exact (Forall_inv_tail Wm)].
Qed.

Lemma wf_if (c : bool) x y : wf_bytes x -> wf_bytes y -> wf_bytes (if c then x else y).
Proof. destruct c; auto. Qed.

Lemma ip_mask_wf ip m base : wf_bytes ip -> wf_bytes m -> ip_mask ip m = Some base -> wf_bytes base.
Proof.
  intros Wi Wm H. unfold ip_mask in H.
  set (m' := if lenb m 16 && lenb ip 4 && forallb (fun b => b =? 255) (firstn 12 m) then skipn 12 m else m) in *.
  set (ip' := if lenb m' 4 && lenb ip 16 && bytes_eqb (firstn 12 ip) v4in6_prefix then skipn 12 ip else ip) in *.
  assert (Wm' : wf_bytes m') by (apply wf_if; [apply wf_bytes_skipn|]; exact Wm).
  assert (Wi' : wf_bytes ip') by (apply wf_if; [apply wf_bytes_skipn|]; exact Wi).
  destruct (Nat.eqb (length ip') (length m')); [|discriminate]. injection H as <-.
  apply and_bytes_wf; assumption.
Qed.

Lemma free_idx6_lt a L P pip pm i : valid6 a L P -> wf_bytes pip -> wf_bytes pm ->
  free_idx6 a pip pm = Some i -> i < 2 ^ (P - L).
Proof.
  intros V Wi Wm H. unfold free_idx6 in H. destruct (ip_mask pip pm) as [base|] eqn:M; [|discriminate].
  pose proof (ip_mask_wf _ _ _ Wi Wm M) as Wb.
  destruct (contains (a6_ip a) (a6_mask a) base) eqn:C; cbn [negb] in H; [|discriminate].
  apply (contains6 a L P base V Wb) in C. destruct C as (Hl & _ & R).
  destruct (to_index6_in_pool a L P base V Wb Hl R) as [E Hk]. rewrite E in H. injection H as <-. exact Hk.
Qed.

Lemma op_ok6 a L P o : valid6 a L P -> wf_op o -> op_ok (2 ^ (P - L)) (abs_op6 a o).
Proof.
  intros V W. destruct o as [hip hm|pip pm]; cbn in *.
  - destruct (hint_idx6 a hip) as [i|] eqn:E; [|exact I]. exact (hint_idx6_lt a L P hip i V (proj1 W) E).
  - destruct (free_idx6 a pip pm) as [i|] eqn:E; [|exact I]. exact (free_idx6_lt a L P pip pm i V (proj1 W) (proj2 W) E).
Qed.

Lemma with_bm6_id a : with_bm6 a (a6_bm a) = a.
Proof. destruct a; reflexivity. Qed.

Lemma valid6_with_bm a L P b : valid6 a L P -> binv b (2 ^ (P - L)) -> valid6 (with_bm6 a b) L P.
Proof. intros [A B C D E F G] Hb. constructor; cbn; assumption. Qed.

(* one concrete step = the index-level step between two pure translations *)
Lemma step6_refines a L P o : valid6 a L P -> wf_op o ->
  step6 a o = (with_bm6 a (fst (istep (a6_bm a) (abs_op6 a o))),
               conc_out6 a P o (snd (istep (a6_bm a) (abs_op6 a o)))).
Proof.
  intros V W. pose proof (op_ok6 a L P o V W) as Hok. pose proof (v6_bm a L P V) as Hb.
  destruct (istep (a6_bm a) (abs_op6 a o)) as [b' r] eqn:E.
  pose proof (istep_spec _ _ _ _ _ Hb Hok E) as (_ & Hr & _).
  destruct o as [hip hm|pip pm]; cbn [step6 abs_op6 wf_op] in *.
  - (* Allocate *)
    assert (FB : forall (rm : bytes),
      ipick (a6_bm a) None = bs_next_clear (a6_bm a)) by reflexivity.
    unfold allocate6. fold (req_mask a hm).
    destruct (mask_size hm) as [ones hbits] eqn:MS.
    assert (RM : cidr_mask (if ((ones <? a6_page a) || negb (hbits =? 128))%Z then a6_page a else ones) 128 = req_mask a hm).
    { unfold req_mask. rewrite MS. reflexivity. }
    rewrite RM. clear RM.
    (* the fallback branch, as a function of what ipick None gives *)
    assert (Fallback : forall b' r, istep (a6_bm a) (IAlloc None) = (b', r) ->
      (match r with IAllocOk i => i < 2 ^ (P - L) | _ => True end) ->
      match bs_next_clear (a6_bm a) with
      | None => (a, Err ENoAddr)
      | Some next =>
          match to_prefix6 a next with
          | Ok ip => (with_bm6 a (bs_set (a6_bm a) next), Ok (ip, req_mask a hm))
          | Err _ => (with_bm6 a (bs_clear (bs_set (a6_bm a) next) next), Err EBug)
          | Panic => (with_bm6 a (bs_set (a6_bm a) next), Panic)
          end
      end = (with_bm6 a b', match conc_out6 a P (OAlloc hip hm) r with RAlloc x => x | RFree _ => Panic end)).
    { intros b0 r0 E0 Hlt. cbn [istep ipick] in E0.
      destruct (bs_next_clear (a6_bm a)) as [next|]; injection E0 as <- <-.
      - destruct (to_prefix6_ok a L P next V Hlt) as [TP _]. rewrite TP. reflexivity.
      - rewrite with_bm6_id. reflexivity. }
    unfold hint_idx6 in E.
    destruct (to16 hip) as [h16|] eqn:T16.
    + destruct (contains (a6_ip a) (a6_mask a) hip) eqn:C.
      * apply (contains6 a L P hip V (proj1 W)) in C. destruct C as (Hl & _ & R).
        destruct (to_index6_in_pool a L P hip V (proj1 W) Hl R) as [EI Hk]. rewrite EI in *.
        set (idx := (v hip - v (a6_ip a)) / Bsz P) in *.
        cbn [istep ipick] in E.
        destruct (negb (bs_test (a6_bm a) idx)) eqn:T.
        -- injection E as <- <-. destruct (to_prefix6_ok a L P idx V Hk) as [TP _]. rewrite TP.
           reflexivity.
        -- assert (E' : istep (a6_bm a) (IAlloc None) = (b', r)) by (cbn [istep ipick]; exact E).
           rewrite (Fallback b' r E').
           ++ destruct r; try reflexivity; exfalso; cbn [istep ipick] in E';
                destruct (bs_next_clear (a6_bm a)); discriminate.
           ++ destruct r; auto. apply Hr.
      * rewrite (Fallback b' r E).
        -- destruct r; try reflexivity; exfalso; cbn [istep ipick] in E;
             destruct (bs_next_clear (a6_bm a)); discriminate.
        -- destruct r; auto. apply Hr.
    + rewrite (Fallback b' r E).
      * destruct r; try reflexivity; exfalso; cbn [istep ipick] in E;
          destruct (bs_next_clear (a6_bm a)); discriminate.
      * destruct r; auto. apply Hr.
  - (* Free *)
    unfold free6. unfold free_idx6 in E.
    destruct (ip_mask pip pm) as [base|] eqn:M.
    + pose proof (ip_mask_wf _ _ _ (proj1 W) (proj2 W) M) as Wb.
      destruct (contains (a6_ip a) (a6_mask a) base) eqn:C; cbn [negb] in *.
      * apply (contains6 a L P base V Wb) in C. destruct C as (Hl & _ & R).
        destruct (to_index6_in_pool a L P base V Wb Hl R) as [EI Hk]. rewrite EI in *.
        cbn [istep] in E.
        destruct (negb (bs_test (a6_bm a) ((v base - v (a6_ip a)) / Bsz P))); injection E as <- <-;
          cbn [fst snd conc_out6]; rewrite ?with_bm6_id; reflexivity.
      * cbn [istep] in E. injection E as <- <-. cbn [fst snd conc_out6]. rewrite with_bm6_id. reflexivity.
    + cbn [istep] in E. injection E as <- <-. cbn [fst snd conc_out6]. rewrite with_bm6_id. reflexivity.
Qed.

Lemma step6_inv a L P o : valid6 a L P -> wf_op o -> valid6 (fst (step6 a o)) L P.
Proof.
  intros V W. rewrite (step6_refines a L P o V W). cbn [fst].
  apply valid6_with_bm; [exact V|]. apply istep_inv; [exact (v6_bm a L P V)|exact (op_ok6 a L P o V W)].
Qed.

Lemma abs_op6_with_bm a b o : abs_op6 (with_bm6 a b) o = abs_op6 a o.
Proof. destruct o; reflexivity. Qed.
Lemma conc_out6_with_bm a b P o r : conc_out6 (with_bm6 a b) P o r = conc_out6 a P o r.
Proof. destruct r; reflexivity. Qed.

Lemma conc_out6_no_panic a P o r : conc_out6 a P o r <> RAlloc Panic /\ conc_out6 a P o r <> RFree Panic.
Proof. destruct r as [| | |[|]]; cbn; split; discriminate. Qed.

(* outputs of a run, op by op: map2 over ops and index-level outputs *)
Fixpoint conc_outs6 (a : a6) (P : N) (ops : list aop) (rs : list iout) : list aout :=
  match ops, rs with
  | o :: ops', r :: rs' => conc_out6 a P o r :: conc_outs6 a P ops' rs'
  | _, _ => []
  end.

Lemma run6_refines a L P ops : valid6 a L P -> Forall wf_op ops ->
  run step6 a ops = conc_outs6 a P ops (irun (a6_bm a) (map (abs_op6 a) ops)).
Proof.
  revert a. induction ops as [|o ops IH]; intros a V W; [reflexivity|].
  pose proof (Forall_inv W) as Wo. pose proof (Forall_inv_tail W) as Ws.
  cbn [run map irun]. rewrite (step6_refines a L P o V Wo).
  destruct (istep (a6_bm a) (abs_op6 a o)) as [b' r] eqn:E. cbn [fst snd conc_outs6].
  assert (V' : valid6 (with_bm6 a b') L P).
  { pose proof (step6_inv a L P o V Wo) as I. rewrite (step6_refines a L P o V Wo), E in I. exact I. }
  specialize (IH (with_bm6 a b') V' Ws). cbn [a6_bm with_bm6] in IH.
  assert (Em : map (abs_op6 (with_bm6 a b')) ops = map (abs_op6 a) ops).
  { apply map_ext. intros; apply abs_op6_with_bm. }
  rewrite Em in IH.
  assert (Ec : forall rs, conc_outs6 (with_bm6 a b') P ops rs = conc_outs6 a P ops rs).
  { clear. induction ops as [|o ops IH]; intros [|r rs]; cbn [conc_outs6]; try reflexivity.
    rewrite conc_out6_with_bm, IH. reflexivity. }
  rewrite Ec in IH. rewrite IH.
  destruct (conc_out6_no_panic a P o r) as [N1 N2].
  destruct (conc_out6 a P o r) as [[?|?|]|[?|?|]]; try reflexivity; congruence.
Qed.

(* ---------- the constructor establishes validity ---------- *)
Lemma all_zero_cidr0 n : all_zero (cidr_bytes n 0) = true.
Proof. induction n as [|n IH]; [reflexivity|]. cbn [cidr_bytes]. cbn. exact IH. Qed.

Lemma byte_ones_mask_byte_all :
  forallb (fun k => match byte_ones (mask_byte k) with Some j => (j =? k) && negb (mask_byte k =? 255) | None => false end) (nrange 8) = true.
Proof. vm_compute. reflexivity. Qed.

Lemma simple_mask_len_cidr n : forall L, L <= 8 * N.of_nat n -> simple_mask_len (cidr_bytes n L) = Some L.
Proof.
  induction n as [|n IH]; intros L HL.
  - cbn. f_equal. lia.
  - cbn [cidr_bytes]. destruct (8 <=? L) eqn:C.
    + cbn [simple_mask_len]. rewrite N.eqb_refl. rewrite IH by lia. cbn [option_map]. f_equal. lia.
    + pose proof byte_ones_mask_byte_all as H. rewrite forallb_forall in H.
      specialize (H L (nrange_In 8 L ltac:(lia))).
      cbn [simple_mask_len]. destruct (byte_ones (mask_byte L)) as [j|] eqn:B; [|discriminate].
      apply andb_true_iff in H. destruct H as [H1 H2].
      apply N.eqb_eq in H1. subst j. apply negb_true_iff in H2. rewrite H2.
      rewrite all_zero_cidr0. reflexivity.
Qed.

Lemma new6_valid pip L P : wf_ip16 pip -> to4 pip = None -> L <= P -> P <= 128 -> P - L < 64 ->
  v pip mod Bsz L = 0 ->
  exists a, new6 pip (cidr_bytes 16 L) (Z.of_N P) = Ok a /\ valid6 a L P /\ bits (a6_bm a) = [].
Proof.
  intros Hw Hn H1 H2 H3 Hal. unfold new6, mask_size.
  rewrite (simple_mask_len_cidr 16 L) by (cbn; lia).
  replace (Z.of_N P - Z.of_N L <? 0)%Z with false by lia.
  replace (Z.of_N P - Z.of_N L >=? 64)%Z with false by lia.
  eexists. split; [reflexivity|]. split; [|reflexivity].
  constructor; cbn; auto.
  replace (Z.to_N (Z.of_N P - Z.of_N L)) with (P - L) by lia. apply binv_new.
Qed.
