(* IpcalcProofs.v — Offset / AddPrefixes are exact or report overflow (C20) *)
From Verif Require Import Base BaseProofs Ipcalc.
From Coq Require Import Lia ZifyN ZifyNat ZifyBool.
Open Scope N_scope.


Definition v (a : bytes) : N := be_val a.
Definition Bsz (p : N) : N := 2 ^ (128 - p).     (* size of a /p block *)
Definition W128 : N := W64 * W64.

Lemma W128_eq : W128 = 2 ^ 128. Proof. reflexivity. Qed.

(* ---------- reading the halves of a well-formed address ---------- *)
Lemma ip16_explicit (a : bytes) : length a = 16%nat ->
  exists a0 a1 a2 a3 a4 a5 a6 a7 a8 a9 a10 a11 a12 a13 a14 a15,
    a = [a0;a1;a2;a3;a4;a5;a6;a7;a8;a9;a10;a11;a12;a13;a14;a15].
Proof.
  intros H.
  do 16 (destruct a as [|? a]; [discriminate H|]).
  destruct a; [|discriminate H]. repeat eexists.
Qed.

Lemma read_hi {A} (a : bytes) (f : N -> res A) : length a = 16%nat ->
  bind (go_slice a 0 8) (fun s => bind (be_u64 s) f) = f (hi a).
Proof.
  intros H. destruct (ip16_explicit a H) as (a0&a1&a2&a3&a4&a5&a6&a7&a8&a9&a10&a11&a12&a13&a14&a15&->).
  reflexivity.
Qed.

Lemma read_lo {A} (a : bytes) (f : N -> res A) : length a = 16%nat ->
  bind (go_slice a 8 (length a)) (fun s => bind (be_u64 s) f) = f (lo a).
Proof.
  intros H. destruct (ip16_explicit a H) as (a0&a1&a2&a3&a4&a5&a6&a7&a8&a9&a10&a11&a12&a13&a14&a15&->).
  reflexivity.
Qed.

(* ---------- 128-bit subtraction through two Sub64 ---------- *)
Lemma sub128 ah al bh bl :
  ah < W64 -> al < W64 -> bh < W64 -> bl < W64 -> bh * W64 + bl <= ah * W64 + al ->
  forall dl bo dh bo', sub64 al bl 0 = (dl, bo) -> sub64 ah bh bo = (dh, bo') ->
  dh * W64 + dl = ah * W64 + al - (bh * W64 + bl) /\ dl < W64 /\ dh < W64.
Proof.
  unfold sub64, W64. intros Ha Hal Hb Hbl Hle dl bo dh bo' E1 E2.
  Ltac Zify.zify_post_hook ::= Z.div_mod_to_equations.
  injection E1 as <- <-. injection E2 as <- _.
  destruct (al <? bl + 0) eqn:C; lia.
Qed.
Ltac Zify.zify_post_hook ::= idtac.

Lemma pow_split (s : N) : s <= 64 -> 2 ^ s * 2 ^ (64 - s) = W64.
Proof. intros H. rewrite <- N.pow_add_r. replace (s + (64 - s)) with 64 by lia. reflexivity. Qed.

Lemma pow_pos (s : N) : 0 < 2 ^ s.
Proof. apply N.neq_0_lt_0, N.pow_nonzero. discriminate. Qed.

(* the > 64 branch of Offset computes D / 2^s exactly, or reports that it needs > 64 bits *)
Lemma offset_high_core (dh dl s : N) : s < 64 -> dh < W64 -> dl < W64 ->
  let D := dh * W64 + dl in
  (2 ^ s <= dh <-> W64 <= D / 2 ^ s) /\
  (dh < 2 ^ s ->
     u64_add (u64_shl dh (64 - s)) (u64_shr dl s) = D / 2 ^ s).
Proof.
  intros Hs Hdh Hdl D.
  pose proof (pow_split s ltac:(lia)) as HW. pose proof (pow_pos s) as HT. pose proof (pow_pos (64 - s)) as HU.
  set (T := 2 ^ s) in *. set (U := 2 ^ (64 - s)) in *.
  assert (HD : D / T = dh * U + dl / T).
  { unfold D. rewrite <- HW. replace (dh * (T * U)) with (dh * U * T) by lia.
    rewrite N.div_add_l by lia. reflexivity. }
  assert (Hq : dl / T < U).
  { apply N.div_lt_upper_bound; lia. }
  split.
  - rewrite HD. split; intros H; nia.
  - intros Hlt. rewrite HD. unfold u64_add, u64_shl, u64_shr.
    destruct (64 - s <? 64) eqn:C1; destruct (s <? 64) eqn:C2; try lia.
    + fold U T. assert (dh * U < W64) by nia.
      rewrite (N.mod_small (dh * U)) by assumption.
      apply N.mod_small. nia.
    + (* s = 0 : shift by 64 gives 0, and dh < 1 *)
      assert (s = 0) by lia. subst s. unfold T in *. change (2 ^ 0) with 1 in *.
      assert (dh = 0) by lia. subst dh. rewrite N.div_1_r. unfold U. cbn. rewrite N.mod_small; lia.
Qed.

Lemma u64_of_int_small (p : Z) : (0 <= p <= 128)%Z -> u64_of_int p = Z.to_N p.
Proof. intros H. unfold u64_of_int. rewrite Z.mod_small by lia. reflexivity. Qed.

Lemma u64_sub_small x y : y <= x -> x < W64 -> u64_sub x y = x - y.
Proof. unfold u64_sub, W64. intros. lia. Qed.


(* ---------- small nonlinear facts, stated once so that the rest is linear ---------- *)
Lemma halves_le (W ah al bh bl : N) : al < W -> bh * W + bl <= ah * W + al -> bh <= ah.
Proof.
  intros Hal H. destruct (N.le_gt_cases bh ah) as [|Hlt]; [assumption|exfalso].
  assert ((ah + 1) * W <= bh * W) by (apply N.mul_le_mono_r; lia). lia.
Qed.

Lemma halves_sub (W ah al bh : N) : bh <= ah -> ah * W + al - bh * W = (ah - bh) * W + al.
Proof.
  intros H. assert (bh * W <= ah * W) by (apply N.mul_le_mono_r; lia).
  rewrite N.mul_sub_distr_r. lia.
Qed.

Lemma mul_lt_split (T U n : N) : n < T -> n * U + U <= T * U.
Proof.
  intros H. assert ((n + 1) * U <= T * U) by (apply N.mul_le_mono_r; lia). lia.
Qed.

Lemma mul_ge_split (T U n : N) : T <= n -> T * U <= n * U.
Proof. intros H. apply N.mul_le_mono_r; lia. Qed.

(* ---------- Offset on ordered, well-formed operands ---------- *)
Lemma aligned_low_zero (bh bl U : N) : bl < W64 -> 0 < U ->
  (bh * W64 + bl) mod (W64 * U) = 0 -> bl = 0.
Proof.
  intros Hbl HU H.
  assert (E := N.mod_mul_r (bh * W64 + bl) W64 U ltac:(unfold W64; lia) ltac:(lia)).
  rewrite H in E. symmetry in E. apply N.eq_add_0 in E. destruct E as [E _].
  rewrite N.add_comm, N.mod_add in E by (unfold W64; lia).
  rewrite N.mod_small in E by assumption. exact E.
Qed.

Lemma offset_low_core (ah al bh pn : N) :
  ah < W64 -> al < W64 -> bh < W64 -> pn <= 64 -> bh * W64 <= ah * W64 + al ->
  (ah * W64 + al - bh * W64) / (W64 * 2 ^ (64 - pn)) = u64_shr (u64_sub ah bh) (u64_sub 64 pn)
  /\ u64_shr (u64_sub ah bh) (u64_sub 64 pn) < W64.
Proof.
  intros Hah Hal Hbh Hpn Hle.
  assert (Hge : bh <= ah) by (apply (halves_le W64 ah al bh 0); lia).
  pose proof (pow_pos (64 - pn)) as HU.
  rewrite (halves_sub W64 ah al bh Hge).
  rewrite <- N.div_div by (first [apply N.pow_nonzero; discriminate | discriminate]).
  rewrite N.div_add_l by discriminate. rewrite (N.div_small al) by assumption.
  rewrite N.add_0_r.
  rewrite (u64_sub_small ah bh) by lia. rewrite (u64_sub_small 64 pn) by (unfold W64; lia).
  assert (Hd : (ah - bh) / 2 ^ (64 - pn) <= ah - bh).
  { rewrite <- (N.div_1_r (ah - bh)) at 2. apply N.div_le_compat_l. lia. }
  unfold u64_shr. destruct (64 - pn <? 64) eqn:C2.
  - split; [reflexivity|]. clear - Hd Hah. lia.
  - assert (E : 64 - pn = 64) by (clear - C2 Hpn; lia). rewrite E. change (2 ^ 64) with W64.
    rewrite N.div_small by (clear - Hah; lia). split; reflexivity.
Qed.

Lemma offset_sorted_spec (a b : bytes) (p : Z) :
  wf_ip16 a -> wf_ip16 b -> (0 <= p <= 128)%Z ->
  v b mod Bsz (Z.to_N p) = 0 -> v b <= v a ->
  let k := (v a - v b) / Bsz (Z.to_N p) in
  (k < W64 -> offset_sorted a b p = Ok k) /\
  (W64 <= k -> offset_sorted a b p = Err EOverflow).
Proof.
  intros Ha Hb Hp Hal Hle k.
  destruct (ip16_split a Ha) as (Va & Hah & Hal').
  destruct (ip16_split b Hb) as (Vb & Hbh & Hbl').
  destruct Ha as [La _]. destruct Hb as [Lb _].
  unfold offset_sorted. rewrite (read_hi a _ La), (read_hi b _ Lb).
  rewrite (read_lo a _ La), (read_lo b _ Lb).
  subst k. unfold v, Bsz in *. rewrite Va, Vb in *.
  remember (hi a) as ah eqn:Eah. remember (lo a) as al eqn:Eal.
  remember (hi b) as bh eqn:Ebh. remember (lo b) as bl eqn:Ebl.
  clear Eah Eal Ebh Ebl Va Vb.
  rewrite (u64_of_int_small p Hp).
  remember (Z.to_N p) as pn eqn:Epn. assert (Hpn : pn <= 128) by lia.
  destruct (p <=? 64)%Z eqn:C.
  - (* only the high halves matter *)
    assert (Hpn' : pn <= 64) by lia.
    assert (E128 : 128 - pn = 64 + (64 - pn)) by lia.
    rewrite E128, N.pow_add_r in *. change (2 ^ 64) with W64 in *.
    assert (Hbl0 : bl = 0) by (apply (aligned_low_zero bh bl (2 ^ (64 - pn)) Hbl' (pow_pos _) Hal)).
    subst bl. rewrite N.add_0_r in *.
    destruct (offset_low_core ah al bh pn Hah Hal' Hbh Hpn' Hle) as [E Hlt].
    rewrite E. split; [reflexivity|]. intros H. exfalso. clear - H Hlt. lia.
  - (* both halves matter *)
    destruct (sub64 al bl 0) as [dl bo] eqn:E1. destruct (sub64 ah bh bo) as [dh bo'] eqn:E2.
    destruct (sub128 ah al bh bl Hah Hal' Hbh Hbl' Hle dl bo dh bo' E1 E2) as (HD & Hdl & Hdh).
    assert (Hs : 128 - pn < 64) by lia.
    rewrite (u64_sub_small 128 pn) by (unfold W64; lia).
    rewrite (u64_sub_small pn 64) by (unfold W64; lia).
    replace (pn - 64) with (64 - (128 - pn)) by lia.
    remember (128 - pn) as s eqn:Es.
    destruct (offset_high_core dh dl s Hs Hdh Hdl) as [Hov Hval].
    assert (H1 : u64_shl 1 s = 2 ^ s).
    { unfold u64_shl. destruct (s <? 64) eqn:C3; [|clear - C3 Hs; lia]. rewrite N.mul_1_l.
      apply N.mod_small. rewrite W64_eq. apply N.pow_lt_mono_r; [reflexivity|exact Hs]. }
    rewrite H1. rewrite <- HD.
    destruct (2 ^ s <=? dh) eqn:C4.
    + split; [|reflexivity]. intros Hk. apply N.leb_le in C4. apply Hov in C4. exfalso. clear - Hk C4. lia.
    + split; [|intros Hk; apply Hov in Hk; apply N.leb_gt in C4; exfalso; clear - Hk C4; lia].
      intros _. f_equal. apply Hval. apply N.leb_gt in C4. exact C4.
Qed.

Lemma offset_spec (x base : bytes) (p : Z) :
  wf_ip16 x -> wf_ip16 base -> (0 <= p <= 128)%Z ->
  v base mod Bsz (Z.to_N p) = 0 -> v base <= v x ->
  let k := (v x - v base) / Bsz (Z.to_N p) in
  (k < W64 -> offset x base p = Ok k /\ offset base x p = Ok k) /\
  (W64 <= k -> offset x base p = Err EOverflow /\ offset base x p = Err EOverflow).
Proof.
  intros Hx Hb Hp Hal Hle k.
  pose proof (offset_sorted_spec x base p Hx Hb Hp Hal Hle) as [S1 S2]. fold k in S1, S2.
  destruct Hx as [Lx Wx]. destruct Hb as [Lb Wb].
  destruct (bytes_compare_spec x base Wx Wb ltac:(congruence)) as (C0 & Cm & Cp).
  destruct (bytes_compare_spec base x Wb Wx ltac:(congruence)) as (D0 & Dm & Dp).
  unfold offset.
  assert (Hr : ((p >? 128) || (p <? 0))%Z = false) by lia. rewrite Hr.
  unfold v in *.
  destruct (N.eq_dec (be_val x) (be_val base)) as [E|NE].
  - (* equal addresses: index 0 *)
    assert (Hk : k = 0). { unfold k, v. rewrite E, N.sub_diag. apply N.div_0_l. unfold Bsz. apply N.pow_nonzero. discriminate. }
    apply C0 in E as E1. symmetry in E. apply D0 in E as E2. rewrite E1, E2. cbn.
    rewrite Hk. split; [auto|]. unfold W64. lia.
  - assert (Hlt : be_val base < be_val x) by lia.
    apply Cp in Hlt as E1. apply Dm in Hlt as E2. rewrite E1, E2. cbn.
    split; intros H; [specialize (S1 H)|specialize (S2 H)]; auto.
Qed.

(* ---------- AddPrefixes ---------- *)
Lemma add128_core (offh offl iph ipl : N) :
  offh < W64 -> offl < W64 -> iph < W64 -> ipl < W64 ->
  forall l' c1 h' c2, add64 offl ipl 0 = (l', c1) -> add64 offh iph c1 = (h', c2) ->
  (iph * W64 + ipl) + (offh * W64 + offl) = c2 * W128 + h' * W64 + l' /\
  l' < W64 /\ h' < W64 /\ (c2 = 0 \/ c2 = 1).
Proof.
  intros H1 H2 H3 H4 l' c1 h' c2 E1 E2. unfold add64 in *.
  injection E1 as <- <-. injection E2 as <- <-.
  assert (W0 : W64 <> 0) by discriminate.
  pose proof (N.div_mod (offl + ipl + 0) W64 W0) as D1.
  pose proof (N.mod_lt (offl + ipl + 0) W64 W0) as L1.
  remember ((offl + ipl + 0) / W64) as c1 eqn:Ec1. remember ((offl + ipl + 0) mod W64) as l' eqn:El'.
  assert (Hc1 : c1 <= 1).
  { rewrite Ec1. apply N.lt_succ_r. apply N.div_lt_upper_bound; [exact W0|]. clear - H2 H4. lia. }
  pose proof (N.div_mod (offh + iph + c1) W64 W0) as D2.
  pose proof (N.mod_lt (offh + iph + c1) W64 W0) as L2.
  remember ((offh + iph + c1) / W64) as c2 eqn:Ec2. remember ((offh + iph + c1) mod W64) as h' eqn:Eh'.
  assert (Hc2 : c2 <= 1).
  { rewrite Ec2. apply N.lt_succ_r. apply N.div_lt_upper_bound; [exact W0|]. clear - H1 H3 Hc1. lia. }
  assert (D2' : (offh + iph + c1) * W64 = (W64 * c2 + h') * W64) by (rewrite <- D2; reflexivity).
  unfold W128. clear Ec1 El' Ec2 Eh'.
  repeat split; try assumption; [|clear - Hc2; lia].
  clear - D1 D2'. lia.
Qed.

Lemma add_finish_spec (offh offl iph ipl : N) :
  offh < W64 -> offl < W64 -> iph < W64 -> ipl < W64 ->
  let S := (iph * W64 + ipl) + (offh * W64 + offl) in
  (S < W128 -> add_finish offh offl iph ipl = Ok (be_bytes 16 S)) /\
  (W128 <= S -> add_finish offh offl iph ipl = Err EOverflow).
Proof.
  intros H1 H2 H3 H4 S. unfold add_finish.
  destruct (add64 offl ipl 0) as [l' c1] eqn:E1. destruct (add64 offh iph c1) as [h' c2] eqn:E2.
  destruct (add128_core offh offl iph ipl H1 H2 H3 H4 l' c1 h' c2 E1 E2) as (HS & Hl & Hh & Hc).
  fold S in HS.
  assert (Hhl : h' * W64 + l' < W128).
  { pose proof (mul_lt_split W64 W64 h' Hh) as M. unfold W128. clear - M Hl. lia. }
  split; intros HSb.
  - assert (c2 = 0) by (destruct Hc as [|Hc]; [assumption|subst c2; exfalso; clear - HS HSb; lia]).
    subst c2. cbn [N.eqb negb].
    assert (E : S = h' * W64 + l') by (clear - HS; lia).
    rewrite E, <- (ip16_of_halves h' l' Hh Hl).
    unfold go_put_u64, zeros. cbn [repeat length Nat.leb Nat.sub andb bind firstn skipn Nat.add app].
    rewrite app_length, be_bytes_length. cbn [length Nat.add Nat.leb Nat.sub andb bind].
    pose proof (be_bytes_length 8 h') as L.
    remember (be_bytes 8 h') as bh eqn:Ebh. clear Ebh.
    do 8 (destruct bh as [|? bh]; [discriminate L|]). destruct bh; [|discriminate L].
    reflexivity.
  - assert (c2 = 1) by (destruct Hc as [Hc|]; [subst c2; exfalso; clear - HS HSb Hhl; lia|assumption]).
    subst c2. reflexivity.
Qed.

Lemma shl_one (s : N) : s < 64 -> u64_shl 1 s = 2 ^ s.
Proof.
  intros Hs. unfold u64_shl. destruct (s <? 64) eqn:C3; [|lia]. rewrite N.mul_1_l.
  apply N.mod_small. rewrite W64_eq. apply N.pow_lt_mono_r; [reflexivity|exact Hs].
Qed.

(* unit <= 64, unit <> 0, n <> 0 *)
Lemma add_low_core (iph ipl n p : N) :
  iph < W64 -> ipl < W64 -> n < W64 -> p <= 64 -> p <> 0 ->
  let S := (iph * W64 + ipl) + n * (2 ^ (64 - p) * W64) in
  let r := if (p <? 64) && negb (u64_shr n p =? 0) then Err EOverflow
           else add_finish (u64_shl n (u64_sub 64 p)) 0 iph ipl in
  (S < W128 -> r = Ok (be_bytes 16 S)) /\ (W128 <= S -> r = Err EOverflow).
Proof.
  intros Hh Hl Hn Hp Hp0 S r.
  pose proof (pow_pos (64 - p)) as HU. pose proof (pow_pos p) as HT.
  pose proof (pow_split p Hp) as HW.
  remember (2 ^ (64 - p)) as U eqn:EU. remember (2 ^ p) as T eqn:ET.
  assert (Hshr : u64_shr n p = if p <? 64 then n / T else 0) by (rewrite ET; reflexivity).
  subst r. destruct ((p <? 64) && negb (u64_shr n p =? 0)) eqn:G.
  - (* n >= 2^p : beyond the address space *)
    assert (Pl : p <? 64 = true) by (clear - G; lia). rewrite Hshr, Pl in G.
    assert (HTn : T <= n).
    { destruct (N.le_gt_cases T n) as [|Hlt]; [assumption|].
      rewrite N.div_small in G by assumption. cbn in G. discriminate. }
    split; intros H; [|reflexivity]. exfalso.
    pose proof (mul_ge_split T U n HTn) as M. rewrite HW in M.
    assert (M' : W64 * W64 <= n * U * W64) by (apply N.mul_le_mono_r; exact M).
    unfold S, W128 in H. clear - H M'. lia.
  - assert (Hn' : n < T).
    { destruct (p <? 64) eqn:Pl.
      - rewrite Hshr in G. cbn [andb] in G.
        assert (E : n / T = 0) by (clear - G; lia). apply N.div_small_iff in E; [exact E|clear - HT; lia].
      - assert (p = 64) by (clear - Pl Hp; lia). subst p. rewrite ET. change (2 ^ 64) with W64. exact Hn. }
    pose proof (mul_lt_split T U n Hn') as M. rewrite HW in M.
    assert (Hlt : n * U < W64) by (clear - M HU; lia).
    assert (Hoff : u64_shl n (u64_sub 64 p) = n * U).
    { rewrite (u64_sub_small 64 p) by (unfold W64; clear - Hp; lia). unfold u64_shl.
      destruct (64 - p <? 64) eqn:C5.
      - rewrite <- EU. apply N.mod_small. exact Hlt.
      - exfalso. clear - C5 Hp0. lia. }
    rewrite Hoff.
    pose proof (add_finish_spec (n * U) 0 iph ipl Hlt ltac:(reflexivity) Hh Hl) as [F1 F2].
    cbn zeta in F1, F2. rewrite N.add_0_r in F1, F2.
    unfold S. replace (n * (U * W64)) with (n * U * W64) by (clear; lia). split; assumption.
Qed.

(* unit > 64 *)
Lemma add_high_core (iph ipl n p : N) :
  iph < W64 -> ipl < W64 -> n < W64 -> 64 < p -> p <= 128 ->
  let S := (iph * W64 + ipl) + n * 2 ^ (128 - p) in
  let r := let '(offh, offl) := mul64 n (u64_shl 1 (u64_sub 128 p)) in add_finish offh offl iph ipl in
  (S < W128 -> r = Ok (be_bytes 16 S)) /\ (W128 <= S -> r = Err EOverflow).
Proof.
  intros Hh Hl Hn Hp Hp' S r. subst r.
  assert (Hs : 128 - p < 64) by (clear - Hp Hp'; lia).
  rewrite (u64_sub_small 128 p) by (unfold W64; clear - Hp'; lia).
  remember (128 - p) as s eqn:Es.
  rewrite (shl_one s Hs). unfold mul64.
  assert (H2s : 2 ^ s < W64) by (rewrite W64_eq; apply N.pow_lt_mono_r; [reflexivity|exact Hs]).
  assert (HM : n * 2 ^ s < W128).
  { unfold W128. apply N.mul_lt_mono; assumption. }
  remember (n * 2 ^ s) as M eqn:EM.
  assert (W0 : W64 <> 0) by discriminate.
  assert (Hoh : M / W64 < W64) by (apply N.div_lt_upper_bound; [exact W0|exact HM]).
  assert (Hol : M mod W64 < W64) by (apply N.mod_lt; exact W0).
  pose proof (add_finish_spec (M / W64) (M mod W64) iph ipl Hoh Hol Hh Hl) as [F1 F2].
  cbn zeta in F1, F2.
  assert (EMd : M / W64 * W64 + M mod W64 = M).
  { rewrite (N.div_mod M W64 W0) at 3. clear; lia. }
  rewrite EMd in F1, F2. unfold S. split; assumption.
Qed.

Lemma add_prefixes_spec (base : bytes) (n p : N) :
  wf_ip16 base -> p <= 128 -> n < W64 ->
  (v base + n * Bsz p < W128 -> add_prefixes base n p = Ok (be_bytes 16 (v base + n * Bsz p))) /\
  (W128 <= v base + n * Bsz p -> add_prefixes base n p = Err EOverflow).
Proof.
  intros Hb Hp Hn.
  destruct (ip16_split base Hb) as (Vb & Hh & Hl).
  destruct Hb as [Lb Wb].
  unfold add_prefixes, v, Bsz in *.
  destruct (n =? 0) eqn:N0.
  - assert (n = 0) by (clear - N0; lia). subst n. rewrite andb_false_r. rewrite N.mul_0_l, N.add_0_r.
    split; intros H.
    + f_equal. rewrite <- Lb. symmetry. apply be_bytes_be_val. exact Wb.
    + pose proof (be_val_bound base Wb) as Bd. rewrite Lb in Bd.
      change (256 ^ N.of_nat 16) with W128 in Bd. exfalso. clear - H Bd. lia.
  - cbn [negb]. rewrite andb_true_r.
    assert (Hn0 : 1 <= n) by (clear - N0; lia).
    destruct (p =? 0) eqn:P0.
    + assert (p = 0) by (clear - P0; lia). subst p. change (2 ^ (128 - 0)) with W128.
      split; intros H; [|reflexivity]. exfalso.
      assert (1 * W128 <= n * W128) by (apply N.mul_le_mono_r; exact Hn0). clear - H H0. lia.
    + assert (Hp0 : p <> 0) by (clear - P0; lia).
      assert (L16 : negb (Z.of_nat (length base) =? 16)%Z = false) by (rewrite Lb; reflexivity).
      rewrite L16.
      rewrite (read_hi base _ Lb). rewrite (read_lo base _ Lb).
      rewrite Vb. clear Vb.
      remember (hi base) as iph eqn:E1. remember (lo base) as ipl eqn:E2. clear E1 E2.
      destruct (p <=? 64) eqn:C.
      * assert (E128 : 128 - p = (64 - p) + 64) by (clear - C; lia).
        rewrite E128, N.pow_add_r. change (2 ^ 64) with W64.
        apply (add_low_core iph ipl n p Hh Hl Hn); [clear - C; lia|exact Hp0].
      * apply (add_high_core iph ipl n p Hh Hl Hn); [clear - C; lia|exact Hp].
Qed.

(* ---------- the two are inverse ---------- *)
Lemma offset_add_prefixes_inverse (base : bytes) (n : N) (p : Z) :
  wf_ip16 base -> (0 <= p <= 128)%Z -> n < W64 ->
  v base mod Bsz (Z.to_N p) = 0 ->
  forall y, add_prefixes base n (Z.to_N p) = Ok y ->
  wf_ip16 y /\ v y = v base + n * Bsz (Z.to_N p) /\ offset y base p = Ok n /\ offset base y p = Ok n.
Proof.
  intros Hb Hp Hn Hal y Hy.
  set (pn := Z.to_N p) in *.
  destruct (add_prefixes_spec base n pn Hb ltac:(lia) Hn) as [A1 A2].
  destruct (N.lt_ge_cases (v base + n * Bsz pn) W128) as [Hlt|Hge].
  2:{ rewrite (A2 Hge) in Hy. discriminate. }
  rewrite (A1 Hlt) in Hy. injection Hy as <-.
  assert (Wy : wf_ip16 (be_bytes 16 (v base + n * Bsz pn))).
  { split; [apply be_bytes_length|apply be_bytes_wf]. }
  assert (Vy : v (be_bytes 16 (v base + n * Bsz pn)) = v base + n * Bsz pn).
  { unfold v at 1. rewrite be_val_be_bytes. change (256 ^ N.of_nat 16) with W128.
    apply N.mod_small. exact Hlt. }
  split; [exact Wy|]. split; [exact Vy|].
  pose proof (offset_spec _ base p Wy Hb Hp Hal ltac:(rewrite Vy; lia)) as [O1 _].
  cbn zeta in O1. fold pn in O1. rewrite Vy in O1.
  assert (Hk : (v base + n * Bsz pn - v base) / Bsz pn = n).
  { replace (v base + n * Bsz pn - v base) with (n * Bsz pn) by lia.
    apply N.div_mul. unfold Bsz. apply N.pow_nonzero. discriminate. }
  rewrite Hk in O1. exact (O1 Hn).
Qed.
