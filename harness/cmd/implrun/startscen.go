package main

// Whole-server scenarios through server.Start (child: startsub.go): two listen addresses per
// protocol, one plugin chain behind them.  What a client was told through one listener must hold
// through the other (C02, C08, C09), the chain is set up once and runs in order (C13), nothing
// crashes or fails to shut down (C01).  Every history also becomes a case of the assembled Coq model
// (AsmRun), which knows nothing of listeners: one server, one history.

import (
	"encoding/hex"
	"fmt"
	"net"
	"os"
	"strings"

	"github.com/insomniacslk/dhcp/dhcpv4"
	"github.com/insomniacslk/dhcp/dhcpv6"
	"github.com/insomniacslk/dhcp/iana"
)

const asmCasesHdr = "From Verif Require Import Base Net Msg4 Msg6 Setup PluginRun Assembly AsmRun."

var startSeq int

func startSpec(p4, p6 []chainPlug) chainSpec {
	startSeq++
	pid := os.Getpid()
	return chainSpec{
		Plugins4: p4, Plugins6: p6, Start: true, Listeners: 2,
		Net4:  fmt.Sprintf("127.%d.%d", 1+(pid>>8)%200, pid&255),
		Port:  20000 + (pid*7+startSeq*5)%20000,
		Files: map[string]string{"leases4.txt": c01Leases4, "leases6.txt": c01Leases6},
		// how long the child waits for the reply to one datagram before it concludes "dropped"; generous,
		// because a reply that arrives late would look like a drop the model does not predict
		WatchdogMs: 1500,
	}
}

func relayOf(spec chainSpec) net.IP { return net.ParseIP(spec.Net4 + ".8").To4() }

// scenario: DHCPv6 prefix delegation through two listeners
func startScenarioPD(c *Ctx) {
	spec := startSpec(nil, []chainPlug{{"server_id", []string{"LL", "00:de:ad:be:ef:00"}}, {"prefix", []string{"2001:db8:0:100::/60", "64"}}, {"dns", []string{"2001:db8::53"}}})
	var labels []string
	type step struct {
		client int
		via    int
		mtype  uint8
		kind   string // "none": IA_PD without hint; "own": hint = what the client was told (filled by position); "two": two IA_PDs
	}
	// (two clients are served through listener 0 before anybody talks to listener 1: were the listeners
	// to keep separate plugin state, listener 1 would start handing out the pool from its first block again)
	steps := []step{{0, 0, 1, "none"}, {1, 0, 1, "none"}, {1, 1, 1, "none"}, {0, 1, 3, "none"}, {2, 1, 1, "two"}, {2, 0, 1, "two"}, {0, 0, 5, "none"}, {3, 1, 1, "none"}, {3, 0, 1, "none"}, {1, 0, 3, "none"}, {0, 1, 1, "none"}}
	for i, st := range steps {
		s := req6spec{mtype: st.mtype}
		s.xid = [3]byte{0x5a, byte(i), byte(st.client)}
		s.cid = &dhcpv6.DUIDLL{HWType: iana.HWTypeEthernet, LinkLayerAddr: net.HardwareAddr{2, 0x5a, 0, 0, 0, byte(st.client + 1)}}
		s.extra = append(s.extra, &dhcpv6.OptionGeneric{OptionCode: dhcpv6.OptionIAPD, OptionData: iapdPayload(pdIA{iaid: [4]byte{0, 0, 0, 1}})})
		if st.mtype == 3 || st.mtype == 5 {
			// REQUEST and RENEW name the server (RFC 8415 section 16; the server_id plugin drops them otherwise)
			s.extra = append(s.extra, dhcpv6.OptServerID(&dhcpv6.DUIDLL{HWType: iana.HWTypeEthernet, LinkLayerAddr: net.HardwareAddr{0, 0xde, 0xad, 0xbe, 0xef, 0}}))
		}
		if st.kind == "two" {
			s.extra = append(s.extra, &dhcpv6.OptionGeneric{OptionCode: dhcpv6.OptionIAPD, OptionData: iapdPayload(pdIA{iaid: [4]byte{0, 0, 0, 2}})})
		}
		spec.Dgrams = append(spec.Dgrams, chainDgram{Proto: 6, Hex: hex.EncodeToString(buildReq6(s)), Oob: -1, Peer: "::1", Via: st.via})
		labels = append(labels, fmt.Sprintf("client %d, type %d, %s, listener %d", st.client, st.mtype, st.kind, st.via))
		if i == 0 {
			// a one-byte datagram (dropped) early on: the receive buffers it went through are reused for the rest
			spec.Dgrams = append(spec.Dgrams, chainDgram{Proto: 6, Hex: "01", Oob: -1, Peer: "::1", Via: 0}, chainDgram{Proto: 6, Hex: "", Oob: -1, Peer: "::1", Via: 1})
			labels = append(labels, "one byte, listener 0", "empty datagram, listener 1")
		}
	}
	stepOf := func(i int) int { // index into steps of datagram i (-1: the two tiny datagrams)
		switch {
		case i == 0:
			return 0
		case i <= 2:
			return -1
		}
		return i - 2
	}
	res := runStart(c, 0, spec, labels, "server.Start, two DHCPv6 listeners, prefix plugin")
	if res == nil {
		return
	}
	// what each client was told, per IA_PD, over the whole history
	told := map[string][]string{}
	owner := map[string]int{}
	for i, o := range res.Outs {
		si := stepOf(i)
		if si < 0 {
			continue
		}
		if len(o.Sends) != 1 {
			c.vio("C09", "start-no-answer", fmt.Sprintf("two DHCPv6 listeners over one prefix plugin: step %d (%s) got %d replies", i, labels[i], len(o.Sends)), c01Replay{Spec: spec, Notes: labels, At: i})
			continue
		}
		pb, _ := hex.DecodeString(o.Sends[0].Payload)
		d, err := dhcpv6.FromBytes(pb)
		if err != nil {
			continue
		}
		m, err := d.GetInnerMessage()
		if err != nil {
			continue
		}
		for _, ia := range m.Options.IAPD() {
			key := fmt.Sprintf("client %d IA_PD %x", steps[si].client, ia.IaId)
			var ps []string
			for _, p := range ia.Options.Prefixes() {
				if p.Prefix != nil {
					ps = append(ps, p.Prefix.String())
					if prev, ok := owner[p.Prefix.String()]; ok && prev != steps[si].client {
						c.vio("C08", "start-shared-prefix", fmt.Sprintf("two DHCPv6 listeners over one prefix plugin: %s was delegated to client %d and to client %d", p.Prefix, prev, steps[si].client), c01Replay{Spec: spec, Notes: labels, At: i})
					}
					owner[p.Prefix.String()] = steps[si].client
				}
			}
			cur := strings.Join(ps, ",")
			if prev, ok := told[key]; ok && len(ps) > 0 && prev[0] != cur {
				c.vio("C09", "start-prefix-changed", fmt.Sprintf("two DHCPv6 listeners over one prefix plugin: %s was told %s, then (step %d: %s) %s", key, prev[0], i, labels[i], cur), c01Replay{Spec: spec, Notes: labels, At: i})
			}
			if len(ps) > 0 {
				told[key] = append(told[key], cur)
			}
		}
	}
}

// scenario: DHCPv4 dynamic leases through two listeners
func startScenarioRange(c *Ctx) {
	spec := startSpec([]chainPlug{{"server_id", []string{"10.0.0.1"}}, {"range", []string{"$DIR/leases.sqlite3", "10.0.0.10", "10.0.0.13", "1h"}}, {"dns", []string{"1.1.1.1"}}, {"router", []string{"10.0.0.254"}}, {"netmask", []string{"255.255.255.0"}}}, nil)
	relay := relayOf(spec)
	type step struct {
		client, via int
		mt          byte
	}
	steps := []step{{0, 0, 1}, {1, 0, 1}, {1, 1, 3}, {0, 1, 3}, {2, 1, 1}, {2, 0, 3}, {3, 0, 1}, {4, 1, 1}, {0, 0, 3}, {4, 0, 1}, {3, 1, 3}, {1, 0, 1}}
	var labels []string
	for i, st := range steps {
		s := req4spec{op: 1, mtype: []byte{st.mt}, giaddr: relay, chaddr: []byte{2, 0x5b, 0, 0, 0, byte(st.client + 1)}, xid: uint32(0x5b0000 + i)}
		spec.Dgrams = append(spec.Dgrams, chainDgram{Proto: 4, Hex: hex.EncodeToString(buildReq4(s)), Oob: -1, Via: st.via})
		labels = append(labels, fmt.Sprintf("client %d, type %d, listener %d", st.client, st.mt, st.via))
		if i == 0 {
			spec.Dgrams = append(spec.Dgrams, chainDgram{Proto: 4, Hex: "01", Oob: -1, Via: 0}, chainDgram{Proto: 4, Hex: "0101", Oob: -1, Via: 1})
			labels = append(labels, "one byte, listener 0", "two bytes, listener 1")
		}
	}
	stepOf4 := func(i int) int {
		switch {
		case i == 0:
			return 0
		case i <= 2:
			return -1
		}
		return i - 2
	}
	res := runStart(c, 0, spec, labels, "server.Start, two DHCPv4 listeners, range plugin")
	if res == nil {
		return
	}
	told := map[int]string{}
	owner := map[string]int{}
	for i, o := range res.Outs {
		si := stepOf4(i)
		if si < 0 || len(o.Sends) != 1 {
			continue // exhausted pool: clients 4.. get nothing (4 addresses)
		}
		pb, _ := hex.DecodeString(o.Sends[0].Payload)
		m, err := dhcpv4.FromBytes(pb)
		if err != nil || m.YourIPAddr == nil || m.YourIPAddr.IsUnspecified() {
			continue
		}
		ip := m.YourIPAddr.String()
		cl := steps[si].client
		if prev, ok := owner[ip]; ok && prev != cl {
			c.vio("C02", "start-shared-address", fmt.Sprintf("two DHCPv4 listeners over one range plugin: %s was given to client %d and to client %d", ip, prev, cl), c01Replay{Spec: spec, Notes: labels, At: i})
		}
		owner[ip] = cl
		if prev, ok := told[cl]; ok && prev != ip {
			c.vio("C02", "start-address-changed", fmt.Sprintf("two DHCPv4 listeners over one range plugin: client %d was given %s, then (step %d: %s) %s", cl, prev, i, labels[i], ip), c01Replay{Spec: spec, Notes: labels, At: i})
		}
		told[cl] = ip
	}
	if len(told) < 4 {
		c.vio("C02", "start-unanswered", fmt.Sprintf("two DHCPv4 listeners over one range plugin with 4 addresses: only %d of 5 clients were given an address", len(told)), c01Replay{Spec: spec, Notes: labels, At: len(steps) - 1})
	}
}

// runStart: runC01Config on a start-mode spec, with the shutdown monitor; nil = no sockets to be had
func runStart(c *Ctx, ci int, spec chainSpec, labels []string, scenario string) *chainResult {
	res := runC01Config(c, ci, spec, labels, scenario)
	if strings.HasPrefix(res.SetupErr, "harness-socket:") {
		c.Count("start:skipped-no-socket")
		return nil
	}
	c.Count("start:configurations")
	if res.CloseHang {
		c.vio("C01", "shutdown-hangs", scenario+": Close followed by Wait did not return within 5 s", c01Replay{Spec: spec, Notes: labels, At: len(spec.Dgrams) - 1})
	}
	if res.SetupErr != "" {
		return nil
	}
	return &res
}

// random configurations and well-formed histories through server.Start
func runStartRandom(c *Ctx, n int) {
	r := c.R
	for i := 0; i < n; i++ {
		var p4, p6 []chainPlug
		switch r.Intn(3) {
		case 0:
			p4 = genChain(c, c01Pool4, "")
		case 1:
			p6 = genChain(c, c01Pool6, "")
		default:
			p4, p6 = genChain(c, c01Pool4, ""), genChain(c, c01Pool6, "file")
		}
		if len(p4) == 0 && len(p6) == 0 {
			continue
		}
		// one list shared by both sections: a plugin listed under a protocol it has no set-up for is
		// skipped with a warning (the model leaves it out), never an empty slot in the chain
		if len(p6) > 0 && r.Pct(35) {
			at := r.Intn(len(p6) + 1)
			extra := []chainPlug{{"lease_time", []string{"1h"}}, {"router", []string{"10.0.0.254"}}, {"netmask", []string{"255.255.255.0"}}, {"range", []string{"$DIR/leases-unused.sqlite3", "10.0.0.10", "10.0.0.12", "1h"}}}[r.Intn(4)]
			p6 = append(p6[:at:at], append([]chainPlug{extra}, p6[at:]...)...)
		}
		if len(p4) > 0 && r.Pct(35) {
			at := r.Intn(len(p4) + 1)
			p4 = append(p4[:at:at], append([]chainPlug{{"prefix", []string{"2001:db8:0:100::/62", "64"}}}, p4[at:]...)...)
		}
		spec := startSpec(p4, p6)
		relay := relayOf(spec)
		var held []net.IPNet
		var labels []string
		k := 6 + r.Intn(10)
		for j := 0; j < k; j++ {
			var raw []byte
			var lab string
			proto := 4
			if len(p4) == 0 || (len(p6) > 0 && r.Bool()) {
				proto = 6
			}
			if proto == 4 {
				raw, lab = genDgram4x(c, relay, false)
			} else {
				raw, lab = genDgram6x(c, &held, false)
			}
			via := r.Intn(2)
			spec.Dgrams = append(spec.Dgrams, chainDgram{Proto: proto, Hex: hex.EncodeToString(raw), Oob: -1, Peer: "::1", Via: via})
			labels = append(labels, fmt.Sprintf("%s via listener %d", lab, via))
		}
		runStart(c, i, spec, labels, "server.Start, generated configuration")
	}
}
