(* C20 — Prefix arithmetic is exact or reports overflow, never wraps.
   The theorems are about IpcalcGen.Offset / IpcalcGen.AddPrefixes, the definitions
   go2v regenerates from plugins/allocators/ipcalc.go on every run. *)
From Verif Require Import Base BaseProofs Ipcalc IpcalcGen IpcalcBridge IpcalcProofs.
Open Scope N_scope.

(* v a : the 128-bit value of a 16-byte address;  Bsz p = 2^(128-p) : size of a /p block;
   wf_ip16 a : 16 bytes, each < 256;  W64 = 2^64;  W128 = 2^128. *)

Theorem offset_exact : forall (x base : bytes) (p : Z),
  wf_ip16 x -> wf_ip16 base -> (0 <= p <= 128)%Z ->
  v base mod Bsz (Z.to_N p) = 0 ->            (* base aligned to a /p boundary *)
  v base <= v x ->                             (* x at or above it *)
  let k := (v x - v base) / Bsz (Z.to_N p) in  (* index of the /p block containing x *)
  (k < W64 -> IpcalcGen.Offset x base p = Ok k /\ IpcalcGen.Offset base x p = Ok k) /\
  (W64 <= k -> IpcalcGen.Offset x base p = Err EOverflow /\ IpcalcGen.Offset base x p = Err EOverflow).
Proof. intros x base p. rewrite !Offset_bridge. exact (offset_spec x base p). Qed.
Print Assumptions offset_exact.

Theorem addprefixes_exact : forall (base : bytes) (n p : N),
  wf_ip16 base -> p <= 128 -> n < W64 ->
  (v base + n * Bsz p < W128 ->
     IpcalcGen.AddPrefixes base n p = Ok (be_bytes 16 (v base + n * Bsz p))) /\
  (W128 <= v base + n * Bsz p ->
     IpcalcGen.AddPrefixes base n p = Err EOverflow).
Proof. intros base n p. rewrite AddPrefixes_bridge. exact (add_prefixes_spec base n p). Qed.
Print Assumptions addprefixes_exact.

Theorem offset_addprefixes_inverse : forall (base : bytes) (n : N) (p : Z),
  wf_ip16 base -> (0 <= p <= 128)%Z -> n < W64 ->
  v base mod Bsz (Z.to_N p) = 0 ->
  forall y, IpcalcGen.AddPrefixes base n (Z.to_N p) = Ok y ->
  wf_ip16 y /\ v y = v base + n * Bsz (Z.to_N p) /\
  IpcalcGen.Offset y base p = Ok n /\ IpcalcGen.Offset base y p = Ok n.
Proof.
  intros base n p H1 H2 H3 H4 y. rewrite AddPrefixes_bridge, !Offset_bridge.
  exact (offset_add_prefixes_inverse base n p H1 H2 H3 H4 y).
Qed.
Print Assumptions offset_addprefixes_inverse.

(* Non-vacuity: the hypotheses are met by concrete non-trivial inputs, on both
   sides of the 64-bit boundary and on both sides of each overflow test. *)
Definition ip_2001_db8 : bytes := [32;1;13;184;0;0;0;0;0;0;0;0;0;0;0;0].
Example offset_hyps_sat :
  wf_ip16 ip_2001_db8 /\ v ip_2001_db8 mod Bsz 56 = 0 /\ v ip_2001_db8 mod Bsz 120 = 0 /\
  IpcalcGen.Offset [32;1;13;184;0;0;5;0;0;0;0;0;0;0;0;7] ip_2001_db8 56 = Ok 5 /\
  IpcalcGen.Offset [32;1;13;184;0;0;0;0;0;0;0;0;0;0;3;7] ip_2001_db8 120 = Ok 3 /\
  IpcalcGen.Offset [32;1;13;185;0;0;0;0;0;0;0;0;0;0;0;0] ip_2001_db8 128 = Err EOverflow.
Proof.
  repeat split; try (vm_compute; reflexivity).
  apply wf_bytesb_spec. vm_compute. reflexivity.
Qed.
Example addprefixes_both_sides :
  IpcalcGen.AddPrefixes ip_2001_db8 5 56 = Ok [32;1;13;184;0;0;5;0;0;0;0;0;0;0;0;0] /\
  (* the former silent wrap (F1): 2^63 /63 blocks now report overflow *)
  IpcalcGen.AddPrefixes ip_2001_db8 9223372036854775808 63 = Err EOverflow /\
  IpcalcGen.AddPrefixes ip_2001_db8 18446744073709551615 128 =
     Ok [32;1;13;184;0;0;0;0;255;255;255;255;255;255;255;255].
Proof. repeat split; vm_compute; reflexivity. Qed.
