(* Server4.v — model of server/handle.go HandleMsg4 on parsed messages, with the handler
   chain as a parameter, and of plugins.LoadPlugins.  Mirrors the code statement by statement:
   parse result, opcode filter, NewReplyFromRequest, the type switch, the dispatch loop, the nil
   test, the peer cascade, the control-message switch, the layer-2 branch. *)
From Verif Require Import Base Net Msg4 Chain.
Open Scope N_scope.

(* a handler: request, response so far (None = nil) -> response, stop *)
Definition handler4 := handler msg4 msg4.

Definition zero4 : bytes := [0;0;0;0].
Definition bcast4 : bytes := [255;255;255;255].

(* dhcpv4.NewReplyFromRequest: WithReply, WithGatewayIP, options 82 and 61 copied when their
   value is non-nil (a zero-length option has a nil value) *)
Definition copy_opt (c : N) (from : opts) (to : opts) : opts :=
  match opt_get c from with
  | Some (b :: v) => opt_update c (b :: v) to
  | _ => to
  end.

Definition reply_stub (req : msg4) : msg4 :=
  {| m_op := if m_op req =? 1 then 2 else 1; m_htype := m_htype req; m_hops := 0; m_xid := m_xid req;
     m_secs := 0; m_flags := m_flags req;
     m_ciaddr := zero4; m_yiaddr := zero4; m_siaddr := zero4; m_giaddr := m_giaddr req;
     m_chaddr := m_chaddr req; m_sname := []; m_file := [];
     m_opts := copy_opt 61 (m_opts req) (copy_opt 82 (m_opts req) []) |}.

(* the dispatch loop is model/Chain.v, instantiated at DHCPv4 messages *)
Notation run_chain4 := (@run_chain msg4 msg4).

(* net.IP.IsLinkLocalUnicast *)
Definition is_link_local (ip : bytes) : bool :=
  match to4 ip with
  | Some (a :: b :: _) => (a =? 169) && (b =? 254)
  | Some _ => false
  | None => match ip with
            | a :: b :: _ => lenb ip 16 && (a =? 254) && (N.land b 192 =? 128)
            | _ => false
            end
  end.

Inductive dest4 :=
| DUdp (ip : bytes) (port : Z) (ifidx : option Z)   (* WriteTo(payload, control message, peer) *)
| DL2 (ifidx : Z).                                  (* sendEthernet on that interface *)

Inductive out4 :=
| Sent (d : dest4) (payload : msg4)
| NoSend (why : N).      (* 1 parse error, 2 not a BOOTREQUEST, 3 message type, 4 nil response, 5 no interface for layer 2 *)

Definition is_broadcast (m : msg4) : bool := N.land (m_flags m) 32768 =? 32768.

(* the peer cascade of HandleMsg4 *)
Definition peer4 (req resp : msg4) : bytes * Z * bool :=
  if negb (is_unspecified (m_giaddr req)) then (m_giaddr req, 67%Z, false)
  else if msg_type resp =? 6 then (bcast4, 68%Z, false)
  else if negb (is_unspecified (m_ciaddr req)) then (m_ciaddr req, 68%Z, false)
  else if is_broadcast req then (bcast4, 68%Z, false)
  else (m_yiaddr resp, 68%Z, true).

(* interface for the control message: the listener's, else the one the request came on *)
Definition pick_if (lif : Z) (oob : option Z) : option Z :=
  if negb (lif =? 0)%Z then Some lif
  else match oob with
       | Some i => if negb (i =? 0)%Z then Some i else None
       | None => None
       end.

Definition handle4 (hs : list handler4) (lif : Z) (oob : option Z) (parsed : option msg4)
  : out4 * list (nat * option msg4) :=
  match parsed with
  | None => (NoSend 1, [])
  | Some req =>
      if negb (m_op req =? 1) then (NoSend 2, [])
      else
        let tmp := reply_stub req in
        let mt := msg_type req in
        let start := if mt =? 1 then Some (upd_opt tmp 53 [2])
                     else if mt =? 3 then Some (upd_opt tmp 53 [5]) else None in
        match start with
        | None => (NoSend 3, [])
        | Some r0 =>
            let '(resp, log) := run_chain4 hs 0 req (Some r0) in
            match resp with
            | None => (NoSend 4, log)
            | Some rsp =>
                let '(ip, port, l2) := peer4 req rsp in
                let woob := if ip_equal ip bcast4 || is_link_local ip || l2 then pick_if lif oob else None in
                if l2 then match woob with
                           | None => (NoSend 5, log)
                           | Some i => (Sent (DL2 i) rsp, log)
                           end
                else (Sent (DUdp ip port woob) rsp, log)
            end
        end
  end.

(* listen4 / listen6 (server/serve.go): a listener given a zone is bound to that interface and
   remembers it; one without a zone is unbound and asks the kernel for per-packet interface
   information, whatever address it listens on.  Result: (Interface.Index, control messages enabled). *)
Definition listen_model (zone_ifindex : option Z) : Z * bool :=
  match zone_ifindex with
  | Some i => (i, false)
  | None => (0%Z, true)
  end.

(* the control message a datagram arrives with: the receiving interface when enabled *)
Definition rx_oob (cm_enabled : bool) (rx_ifindex : Z) : option Z :=
  if cm_enabled then Some rx_ifindex else None.

(* resp.ToBytes panics when an address field is neither nil nor convertible to 4 bytes *)
Definition ip_ser_ok (ip : bytes) : bool :=
  match ip with [] => true | _ => match to4 ip with Some _ => true | None => false end end.
Definition ser_ok (m : msg4) : bool :=
  ip_ser_ok (m_ciaddr m) && ip_ser_ok (m_yiaddr m) && ip_ser_ok (m_siaddr m) && ip_ser_ok (m_giaddr m).

(* sendEthernet: the fields of the frame *)
Record frame := { f_dst_mac : bytes; f_src_ip : bytes; f_dst_ip : bytes; f_sport : Z; f_dport : Z }.
Definition l2_frame (resp : msg4) : frame :=
  {| f_dst_mac := m_chaddr resp; f_src_ip := m_siaddr resp; f_dst_ip := m_yiaddr resp; f_sport := 67%Z; f_dport := 68%Z |}.

(* ---------------- plugins.LoadPlugins ---------------- *)
Inductive setup_res (H : Type) := SOk (h : H) | SErr | SNil.
Arguments SOk {H} h.
Arguments SErr {H}.
Arguments SNil {H}.

(* a registered plugin: per protocol, no setup function or a setup function of the arguments *)
Record plugin (H4 H6 : Type) := {
  p_name : bytes;
  p_setup4 : option (list bytes -> setup_res H4);
  p_setup6 : option (list bytes -> setup_res H6) }.
Arguments p_name {H4 H6} p.
Arguments p_setup4 {H4 H6} p.
Arguments p_setup6 {H4 H6} p.

Fixpoint registry_get {H4 H6} (reg : list (plugin H4 H6)) (name : bytes) : option (plugin H4 H6) :=
  match reg with
  | [] => None
  | p :: reg' => if bytes_eqb (p_name p) name then Some p else registry_get reg' name
  end.

(* one protocol's list: handlers in order; None = start-up error *)
Fixpoint load_list {H4 H6 H} (reg : list (plugin H4 H6)) (sel : plugin H4 H6 -> option (list bytes -> setup_res H))
         (conf : list (bytes * list bytes)) : option (list H) :=
  match conf with
  | [] => Some []
  | (name, args) :: conf' =>
      match registry_get reg name with
      | None => None
      | Some p =>
          match sel p with
          | None => load_list reg sel conf'                     (* no setup for this protocol: skipped *)
          | Some f => match f args with
                      | SOk h => option_map (cons h) (load_list reg sel conf')
                      | SErr | SNil => None
                      end
          end
      end
  end.

(* LoadPlugins: DHCPv6 list first, then DHCPv4; an absent section gives no handlers *)
Definition load_plugins {H4 H6} (reg : list (plugin H4 H6))
           (c6 c4 : option (list (bytes * list bytes))) : option (list H4 * list H6) :=
  match c6, c4 with
  | None, None => None
  | _, _ =>
      match (match c6 with Some l => load_list reg p_setup6 l | None => Some [] end) with
      | None => None
      | Some h6 =>
          match (match c4 with Some l => load_list reg p_setup4 l | None => Some [] end) with
          | None => None
          | Some h4 => Some (h4, h6)
          end
      end
  end.
