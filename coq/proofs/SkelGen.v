(* SkelGen.v — the lock-discipline theorems about the skeletons go2v read off /repo's current
   sources (gen/Skeleton.v, regenerated on every run). *)
From Coq Require Import String List Bool.
From Verif Require Import Skel Skeleton SkelProofs.
Import ListNotations.
Open Scope string_scope.
Open Scope list_scope.

Lemma skeletons_translated : skeleton_translated = true.
Proof. reflexivity. Qed.

(* the functions that touch shared state, by name: the analysis covers exactly these *)
Definition analysed_functions : list string :=
  ["bitmap.Allocator.Allocate"; "bitmap.Allocator.Free"; "bitmap.IPv4Allocator.Allocate"; "bitmap.IPv4Allocator.Free";
   "range.Handler4"; "prefix.Handle"; "file.Handler4"; "file.Handler6"; "file.loadFromFile";
   "file.setupFile"; "file.setupFile.go1"; "file.numRecords"; "server.HandleMsg4"; "server.HandleMsg6"].

Lemma skeletons_cover : map fs_name all_skeletons = analysed_functions.
Proof. reflexivity. Qed.

(* every function of the owning packages that mentions a guarded location at all is either one of
   the analysed functions or listed here with the reason why it needs no lock *)
Definition exempt_functions : list string :=
  ["plugins/allocators/bitmap:NewIPv4Allocator";        (* constructor: the allocator is not shared yet *)
   "plugins/range:setupRange";                          (* set-up: the handler has not been handed to the server yet *)
   "plugins/range:PluginState.registerBackingDB";       (* called by setupRange only *)
   "plugins/range:PluginState.saveIPAddress";           (* called inside Handler4's critical section: counted as a write access there *)
   "server:listener4.Serve"; "server:listener6.Serve"   (* take a buffer out of the pool and hand it to HandleMsg4/6 *)
  ].

Definition mem_str (x : string) (l : list string) : bool := existsb (String.eqb x) l.

Lemma census_covered :
  forallb (fun f => mem_str f (map fs_name all_skeletons) || mem_str f exempt_functions) census = true.
Proof. vm_compute. reflexivity. Qed.

Lemma skeletons_all_well_locked : forallb well_locked all_skeletons = true.
Proof. vm_compute. reflexivity. Qed.

Lemma skeletons_lock_order : lock_order_ok all_skeletons = true.
Proof. vm_compute. reflexivity. Qed.

(* on every path through every one of these functions — any branch of every conditional, every
   loop iterated any number of times — each access to the guarded state happens with the lock held
   (writes with the exclusive lock), no lock is taken twice or released twice, and the function
   returns with the lock released or its release deferred; for HandleMsg4/6 the "lock" is the
   ownership of the receive buffer: used only before it is put back, put back exactly once *)
Theorem every_path_well_locked f :
  In f all_skeletons ->
  forall tr o, exec (fs_body f) tr o ->
  exists st', tr_run (init_of f) tr = Some st' /\ o <> Brk /\ ret_ok st' = true.
Proof.
  intros Hin. apply well_locked_sound.
  pose proof skeletons_all_well_locked as H. rewrite forallb_forall in H. apply H; exact Hin.
Qed.

Theorem every_access_under_lock f :
  In f all_skeletons ->
  forall tr o pre w n post_, exec (fs_body f) tr o -> tr = pre ++ EAcc w n :: post_ ->
  exists s, tr_run (init_of f) pre = Some s /\ (held s = Some true \/ (held s = Some false /\ w = false)).
Proof.
  intros Hin tr o pre w n post_ Hx E.
  destruct (every_path_well_locked f Hin tr o Hx) as [st' [Ht _]].
  exact (tr_run_access _ _ _ _ _ _ _ Ht E).
Qed.

Theorem no_double_release f :
  In f all_skeletons ->
  forall tr o pre w post_, exec (fs_body f) tr o -> tr = pre ++ EUnlock w :: post_ ->
  exists s, tr_run (init_of f) pre = Some s /\ held s = Some w /\ deferred s = false.
Proof.
  intros Hin tr o pre w post_ Hx E.
  destruct (every_path_well_locked f Hin tr o Hx) as [st' [Ht _]].
  exact (tr_run_unlock _ _ _ _ _ _ Ht E).
Qed.

(* every analysed function takes its lock at most once per call: a handler call is ONE critical
   section, so a whole message is handled atomically with respect to the other messages *)
Lemma skeletons_one_section : forallb one_section all_skeletons = true.
Proof. vm_compute. reflexivity. Qed.

Lemma one_section_le f : one_section f = true -> (acq 200 (fs_body f) <= 1)%nat.
Proof. unfold one_section. intros H. apply PeanoNat.Nat.leb_le. exact H. Qed.

Theorem every_path_one_acquisition f :
  In f all_skeletons -> forall tr o, exec (fs_body f) tr o -> (count_locks tr <= 1)%nat.
Proof.
  intros Hin tr o Hx. pose proof skeletons_one_section as H. rewrite forallb_forall in H.
  pose proof (one_section_le f (H f Hin)) as H1.
  pose proof (acq_sound _ _ _ Hx _ H1) as Hc. exact (PeanoNat.Nat.le_trans _ _ _ Hc H1).
Qed.
