(* IpcalcBridge.v — the regenerated translation of ipcalc.go equals the hand model.
   If the Go source changes in any way the translator reflects, one of these two
   lemmas stops checking: the C20 theorems are then no longer about the code. *)
From Verif Require Import Base Ipcalc IpcalcGen.
Open Scope N_scope.

Lemma translated_ok : IpcalcGen.translated = true.
Proof. reflexivity. Qed.

Lemma Offset_bridge a b p : IpcalcGen.Offset a b p = Ipcalc.offset a b p.
Proof. reflexivity. Qed.

Lemma AddPrefixes_bridge ip n u : IpcalcGen.AddPrefixes ip n u = Ipcalc.add_prefixes ip n u.
Proof.
  unfold IpcalcGen.AddPrefixes, Ipcalc.add_prefixes, add_finish.
  repeat match goal with
  | |- context [if ?c then _ else _] => destruct c
  | |- context [bind ?r _] => destruct r; cbn [bind]
  | |- context [let '(_, _) := ?p in _] => destruct p
  end; reflexivity.
Qed.
