module verifharness

go 1.22.0

require github.com/coredhcp/coredhcp v0.0.0

require (
	github.com/bits-and-blooms/bitset v1.22.0 // indirect
	github.com/chappjc/logrus-prefix v0.0.0-20180227015900-3a1d64819adb // indirect
	github.com/mattn/go-colorable v0.1.13 // indirect
	github.com/mattn/go-isatty v0.0.20 // indirect
	github.com/mgutz/ansi v0.0.0-20200706080929-d51e80ef957d // indirect
	github.com/rifflock/lfshook v0.0.0-20180920164130-b9218ef580f5 // indirect
	github.com/sirupsen/logrus v1.9.3 // indirect
	golang.org/x/crypto v0.32.0 // indirect
	golang.org/x/sys v0.29.0 // indirect
	golang.org/x/term v0.28.0 // indirect
)

replace github.com/coredhcp/coredhcp => /repo
