(* ConcAlloc.v — C04 under every schedule: k concurrent Allocate calls on the IPv4 allocator (one
   critical section each, after any sequential history of Allocate/Free) never return the same
   address to two callers. *)
From Coq Require Import List Arith Lia Permutation.
From Verif Require Import Base Net Bitset Alloc AllocRun Alloc4Proofs AllocTheorems Conc ConcProofs.
Import ListNotations.
Local Open Scope nat_scope.

Section RunSrun.
Context {S : Type} (step : S -> AllocRun.aop -> S * aout).

Lemma run_prefix_srun s ops : exists rest, snd (srun _ _ _ step s ops) = AllocRun.run step s ops ++ rest.
Proof.
  revert s; induction ops as [|o ops IH]; intro s; cbn [AllocRun.run srun]; [exists []; reflexivity|].
  destruct (step s o) as [s1 r]. destruct (IH s1) as (rest & E).
  destruct (srun _ _ _ step s1 ops) as [s2 rs]. cbn [snd] in *.
  destruct r as [[x|e|]|[x|e|]]; try (exists rest; cbn [app]; rewrite E; reflexivity); exists rs; reflexivity.
Qed.

Lemma run_eq_srun s ops : length (AllocRun.run step s ops) = length ops -> AllocRun.run step s ops = snd (srun _ _ _ step s ops).
Proof.
  intros L. destruct (run_prefix_srun s ops) as (rest & E).
  assert (Ls : length (snd (srun _ _ _ step s ops)) = length ops) by apply srun_length.
  rewrite E, app_length in Ls. assert (length rest = 0) by lia.
  destruct rest; [|discriminate]. rewrite app_nil_r in E. symmetry; exact E.
Qed.
End RunSrun.

Section ConcAlloc4.
Variables (s e : bytes) (a0 : a4).
Hypothesis Ws : wf_bytes s.
Hypothesis We : wf_bytes e.
Hypothesis Hnew : new4 s e = Ok a0.

Lemma run4_full ops : length (AllocRun.run step4 a0 ops) = length ops.
Proof.
  assert (H : forall i, i < length ops -> nth_error (AllocRun.run step4 a0 ops) i <> None).
  { intros i Hi. destruct (nth_error ops i) as [o|] eqn:Eo; [|apply nth_error_None in Eo; lia].
    rewrite (run4_nth_state s e a0 Ws We Hnew ops i o Eo). discriminate. }
  destruct (run_prefix_srun step4 a0 ops) as (rest & E).
  assert (Ls : length (snd (srun _ _ _ step4 a0 ops)) = length ops) by apply srun_length.
  rewrite E, app_length in Ls.
  destruct (Nat.eq_dec (length (AllocRun.run step4 a0 ops)) (length ops)) as [Eq|Ne]; [exact Eq|].
  exfalso. apply (H (length (AllocRun.run step4 a0 ops))); [lia|]. apply nth_error_None. lia.
Qed.

Variable prev : list AllocRun.aop.            (* earlier calls, one at a time: any mix of Allocate and Free *)
Variable calls : list AllocRun.aop.           (* the calls in flight, one goroutine each *)
Hypothesis Hallocs : Forall (fun o => match o with OAlloc _ _ => True | OFree _ _ => False end) calls.

Let s1 := fst (srun _ _ _ step4 a0 prev).
Let cops := map (ConcProofs.aop _ _ _ step4) calls.

Theorem alloc4_concurrent_distinct sched :
  all_done _ _ _ cops (Conc.run _ _ _ cops s1 sched) ->
  let c := Conc.run _ _ _ cops s1 sched in
  forall t1 t2 ip m1 m2, t1 <> t2 ->
    nth_error (thr _ _ _ c) t1 = Some (Done _ _ _ (Some (RAlloc (Ok (ip, m1))))) ->
    nth_error (thr _ _ _ c) t2 = Some (Done _ _ _ (Some (RAlloc (Ok (ip, m2))))) -> False.
Proof.
  intros Hd. cbn zeta.
  destruct (atomic_serialisable _ _ _ step4 calls s1 sched Hd) as (sigma & Hp & Hs & Hl & Hr).
  assert (Hf : Forall (fun t => t < length calls) sigma).
  { apply Forall_forall. intros t Ht. apply (Permutation_in _ Hp) in Ht. apply in_seq in Ht. lia. }
  set (hist := prev ++ pick _ calls sigma).
  assert (Hrun : AllocRun.run step4 a0 hist = snd (srun _ _ _ step4 a0 hist)).
  { apply run_eq_srun. apply run4_full. }
  assert (Hsplit : snd (srun _ _ _ step4 a0 hist) =
                   snd (srun _ _ _ step4 a0 prev) ++ snd (srun _ _ _ step4 s1 (pick _ calls sigma))).
  { unfold hist. rewrite srun_app. unfold s1.
    destruct (srun _ _ _ step4 a0 prev) as [sp rp]. cbn [fst snd].
    destruct (srun _ _ _ step4 sp (pick _ calls sigma)) as [sq rq]. reflexivity. }
  assert (Lp : length (snd (srun _ _ _ step4 a0 prev)) = length prev) by apply srun_length.
  (* the position of a finished thread in the serial history *)
  assert (Hpos : forall t r, nth_error (thr _ _ _ (Conc.run _ _ _ cops s1 sched)) t = Some (Done _ _ _ (Some r)) ->
            exists k, nth_error sigma k = Some t /\ nth_error (AllocRun.run step4 a0 hist) (length prev + k) = Some r).
  { intros t r Ht. destruct (Hr t _ Ht) as (k & H1 & _ & H3 & _). exists k. split; [exact H1|].
    rewrite Hrun, Hsplit, nth_error_app2 by lia. replace (length prev + k - length _) with k by lia.
    symmetry; exact H3. }
  (* between two positions of the concurrent part there is no Free *)
  assert (Hnofree : forall k pip pm, length prev <= k -> nth_error hist k <> Some (OFree pip pm)).
  { intros k pip pm Hk Hc. unfold hist in Hc. rewrite nth_error_app2 in Hc by lia.
    apply nth_error_In in Hc. unfold pick in Hc. apply in_flat_map in Hc. destruct Hc as (t & _ & Hc).
    destruct (nth_error calls t) as [a|] eqn:Ea; [|destruct Hc]. destruct Hc as [->|[]].
    rewrite Forall_forall in Hallocs. exact (Hallocs _ (nth_error_In _ _ Ea)). }
  assert (Hord : forall i j ip m1 m2, length prev <= i -> i < j ->
            nth_error (AllocRun.run step4 a0 hist) i = Some (RAlloc (Ok (ip, m1))) ->
            nth_error (AllocRun.run step4 a0 hist) j = Some (RAlloc (Ok (ip, m2))) -> False).
  { intros i j ip m1 m2 Hi Hij A B.
    destruct (alloc4_no_double_issue s e a0 Ws We Hnew hist i j ip m1 m2 Hij A B) as (k & pip & pm & ip4 & Hk & Hop & _).
    apply (Hnofree k pip pm); [lia|exact Hop]. }
  intros t1 t2 ip m1 m2 Hne T1 T2.
  destruct (Hpos _ _ T1) as (k1 & S1 & R1). destruct (Hpos _ _ T2) as (k2 & S2 & R2).
  assert (k1 <> k2) by (intros ->; congruence).
  destruct (Nat.lt_ge_cases k1 k2) as [Hlt|Hge].
  - exact (Hord (length prev + k1) (length prev + k2) ip m1 m2 ltac:(lia) ltac:(lia) R1 R2).
  - exact (Hord (length prev + k2) (length prev + k1) ip m2 m1 ltac:(lia) ltac:(lia) R2 R1).
Qed.
End ConcAlloc4.
