(* Msg4.v — the parsed DHCPv4 message (insomniacslk/dhcp dhcpv4.DHCPv4) as the models see it:
   header fields and an option map code -> value bytes.  Models take parsed messages; the
   codec itself is a library (DESIGN.md section 4, "Parser"). *)
From Verif Require Import Base.
Open Scope N_scope.

Definition opts := list (N * bytes).       (* association list; at most one entry per code *)

Fixpoint opt_get (c : N) (o : opts) : option bytes :=
  match o with
  | [] => None
  | (k, v) :: o' => if k =? c then Some v else opt_get c o'
  end.

Definition opt_has (c : N) (o : opts) : bool :=
  match opt_get c o with Some _ => true | None => false end.

Fixpoint opt_del (c : N) (o : opts) : opts :=
  match o with
  | [] => []
  | (k, v) :: o' => if k =? c then opt_del c o' else (k, v) :: opt_del c o'
  end.

(* Options.Update: replace or add *)
Definition opt_update (c : N) (v : bytes) (o : opts) : opts := (c, v) :: opt_del c o.

Record msg4 := {
  m_op : N;  m_htype : N;  m_hops : N;  m_xid : N;  m_secs : N;  m_flags : N;
  m_ciaddr : bytes;  m_yiaddr : bytes;  m_siaddr : bytes;  m_giaddr : bytes;
  m_chaddr : bytes;  m_sname : bytes;  m_file : bytes;
  m_opts : opts }.

Definition set_yiaddr (m : msg4) (ip : bytes) : msg4 :=
  {| m_op := m_op m; m_htype := m_htype m; m_hops := m_hops m; m_xid := m_xid m; m_secs := m_secs m;
     m_flags := m_flags m; m_ciaddr := m_ciaddr m; m_yiaddr := ip; m_siaddr := m_siaddr m;
     m_giaddr := m_giaddr m; m_chaddr := m_chaddr m; m_sname := m_sname m; m_file := m_file m;
     m_opts := m_opts m |}.

Definition set_siaddr (m : msg4) (ip : bytes) : msg4 :=
  {| m_op := m_op m; m_htype := m_htype m; m_hops := m_hops m; m_xid := m_xid m; m_secs := m_secs m;
     m_flags := m_flags m; m_ciaddr := m_ciaddr m; m_yiaddr := m_yiaddr m; m_siaddr := ip;
     m_giaddr := m_giaddr m; m_chaddr := m_chaddr m; m_sname := m_sname m; m_file := m_file m;
     m_opts := m_opts m |}.

Definition set_opts (m : msg4) (o : opts) : msg4 :=
  {| m_op := m_op m; m_htype := m_htype m; m_hops := m_hops m; m_xid := m_xid m; m_secs := m_secs m;
     m_flags := m_flags m; m_ciaddr := m_ciaddr m; m_yiaddr := m_yiaddr m; m_siaddr := m_siaddr m;
     m_giaddr := m_giaddr m; m_chaddr := m_chaddr m; m_sname := m_sname m; m_file := m_file m;
     m_opts := o |}.

Definition set_file_sname (m : msg4) (file sname : bytes) : msg4 :=
  {| m_op := m_op m; m_htype := m_htype m; m_hops := m_hops m; m_xid := m_xid m; m_secs := m_secs m;
     m_flags := m_flags m; m_ciaddr := m_ciaddr m; m_yiaddr := m_yiaddr m; m_siaddr := m_siaddr m;
     m_giaddr := m_giaddr m; m_chaddr := m_chaddr m; m_sname := sname; m_file := file;
     m_opts := m_opts m |}.

Definition upd_opt (m : msg4) (c : N) (v : bytes) : msg4 := set_opts m (opt_update c v (m_opts m)).

(* option maps compared as maps *)
Definition opts_incl (a b : opts) : bool :=
  forallb (fun kv => match opt_get (fst kv) b with
                     | Some v => bytes_eqb v (match opt_get (fst kv) a with Some w => w | None => [] end)
                     | None => false end) a.
Definition opts_eqb (a b : opts) : bool := opts_incl a b && opts_incl b a.

Definition msg4_eqb (a b : msg4) : bool :=
  (m_op a =? m_op b) && (m_htype a =? m_htype b) && (m_hops a =? m_hops b) && (m_xid a =? m_xid b) &&
  (m_secs a =? m_secs b) && (m_flags a =? m_flags b) &&
  bytes_eqb (m_ciaddr a) (m_ciaddr b) && bytes_eqb (m_yiaddr a) (m_yiaddr b) &&
  bytes_eqb (m_siaddr a) (m_siaddr b) && bytes_eqb (m_giaddr a) (m_giaddr b) &&
  bytes_eqb (m_chaddr a) (m_chaddr b) && bytes_eqb (m_sname a) (m_sname b) && bytes_eqb (m_file a) (m_file b) &&
  opts_eqb (m_opts a) (m_opts b).

(* message type: option 53, one byte; 0 (MessageTypeNone) when absent or malformed *)
Definition msg_type (m : msg4) : N :=
  match opt_get 53 (m_opts m) with
  | Some [t] => t
  | _ => 0
  end.

(* outcome of a handler: the response (None = nil) and the stop flag *)
Definition hout4 := (option msg4 * bool)%type.
