(* Frame.v — server/sendEthernet.go byte for byte: the Ethernet II + IPv4 + UDP frame that carries a
   DHCPv4 reply to a client that has no address yet (RFC 2131 section 4.1, last case).  The layers
   are serialised by gopacket (v1.1.19: layers/ethernet.go, ip4.go, udp.go, tcpip.go, dhcpv4.go);
   the DHCP payload is resp.ToBytes() decoded and re-serialised by gopacket's own DHCPv4 layer, which
   writes the 236-byte header, the cookie, the options and End but NOT the padding to 300 bytes. *)
From Coq Require Import List Arith NArith Bool.
From Verif Require Import Base Net Msg4 Opt4Codec Msg4Codec.
Import ListNotations.
Open Scope N_scope.

(* ---- the Internet checksum (RFC 1071) as gopacket computes it ---- *)
(* sum of the big-endian 16-bit words; an odd last byte is the high byte of a last word *)
Fixpoint sum16 (b : bytes) : N :=
  match b with
  | hi :: lo :: r => hi * 256 + lo + sum16 r
  | [hi] => hi * 256
  | [] => 0
  end.

(* one round of "add the carry back in"; the identity on values up to 0xffff *)
Definition fold1 (t : N) : N := t / 65536 + t mod 65536.
(* gopacket loops while the sum exceeds 0xffff; for every uint32 three rounds reach the fixed point *)
Definition fold16 (t : N) : N := fold1 (fold1 (fold1 t)).
(* ^uint16(sum) *)
Definition csum16 (t : N) : N := 65535 - fold16 t.

Definition be2 (x : N) : bytes := [x / 256 mod 256; x mod 256].

(* ---- the three headers ---- *)
Definition eth_hdr (dst src : bytes) : bytes := dst ++ src ++ [8; 0].           (* EtherType IPv4 *)

(* version 4, IHL 5, TOS 0, total length, id 0, flags DF, TTL 64, protocol UDP, checksum, src, dst *)
Definition ip_hdr0 (totlen : N) (src dst : bytes) (ck : N) : bytes :=
  [69; 0] ++ be2 totlen ++ [0; 0; 64; 0; 64; 17] ++ be2 ck ++ src ++ dst.
Definition ip_hdr (totlen : N) (src dst : bytes) : bytes :=
  ip_hdr0 totlen src dst (csum16 (sum16 (ip_hdr0 totlen src dst 0))).

(* ports 67 -> 68, length, checksum over pseudo-header (src, dst, protocol, UDP length), header, payload *)
Definition udp_hdr0 (ulen ck : N) : bytes := [0; 67; 0; 68] ++ be2 ulen ++ be2 ck.
Definition udp_sum (src dst : bytes) (ulen : N) (hdr_and_payload : bytes) : N :=
  sum16 src + sum16 dst + 17 + ulen + sum16 hdr_and_payload.
Definition udp_hdr (src dst p : bytes) : bytes :=
  let ulen := 8 + N.of_nat (length p) in
  udp_hdr0 ulen (csum16 (udp_sum src dst ulen (udp_hdr0 ulen 0 ++ p))).

(* sendEthernet(iface, resp): resp.ToBytes() panics on a non-IPv4 header address; gopacket refuses
   hardware addresses that are not 6 bytes long and source / destination addresses without an IPv4
   form (a nil ServerIPAddr / YourIPAddr included); the IPv4 total length is a uint16, so a payload
   above 65507 bytes cannot be framed (the code would wrap the length - no reply of the built-in
   plugins comes near; the model reports an error and the theorems exclude it openly). *)
Definition enc_frame (src_mac : bytes) (m : msg4) : res bytes :=
  bind (enc_body m) (fun p =>
  match to4 (m_siaddr m), to4 (m_yiaddr m) with
  | Some si, Some yi =>
      if negb (lenb (m_chaddr m) 6) || negb (lenb src_mac 6) then Err EOther
      else if (65507 <? N.of_nat (length p)) then Err EOther
      else Ok (eth_hdr (m_chaddr m) src_mac ++ ip_hdr (28 + N.of_nat (length p)) si yi ++ udp_hdr si yi p ++ p)
  | _, _ => Err EOther
  end).

(* ---- what a receiver reads off a frame ---- *)
Record fview := {
  v_dst_mac : bytes; v_src_mac : bytes; v_etype : N;
  v_vihl : N; v_tos : N; v_totlen : N; v_id : N; v_ff : N; v_ttl : N; v_proto : N; v_ipck_ok : bool;
  v_src_ip : bytes; v_dst_ip : bytes;
  v_sport : N; v_dport : N; v_ulen : N; v_udpck_ok : bool;
  v_payload : bytes }.

Definition dec_frame (f : bytes) : option fview :=
  if Nat.ltb (length f) 42 then None
  else
    let src := fld f 26 4 in let dst := fld f 30 4 in
    let ulen := be_val (fld f 38 2) in
    Some {| v_dst_mac := fld f 0 6; v_src_mac := fld f 6 6; v_etype := be_val (fld f 12 2);
            v_vihl := nth 14 f 0; v_tos := nth 15 f 0; v_totlen := be_val (fld f 16 2);
            v_id := be_val (fld f 18 2); v_ff := be_val (fld f 20 2); v_ttl := nth 22 f 0; v_proto := nth 23 f 0;
            v_ipck_ok := fold16 (sum16 (fld f 14 20)) =? 65535;
            v_src_ip := src; v_dst_ip := dst;
            v_sport := be_val (fld f 34 2); v_dport := be_val (fld f 36 2); v_ulen := ulen;
            v_udpck_ok := fold16 (udp_sum src dst ulen (skipn 34 f)) =? 65535;
            v_payload := skipn 42 f |}.
