(* PrefixProofs.v — the prefix plugin: loop lemmas, the state invariant, one IA_PD (C08, C09) *)
From Verif Require Import Base BaseProofs Net NetProofs Bitset IdxAlloc BitsetProofs Ipcalc IpcalcProofs IpcalcRun Alloc AllocRun Alloc6Proofs AllocTheorems PrefixPlugin.
From Coq Require Import Lia ZifyN ZifyNat ZifyBool.
Open Scope N_scope.

Definition key (l : lease) : bytes * bytes := (ls_ip l, ls_mask l).
Definition wf_hint (h : hint) : Prop := match h with Some (ip, m) => wf_bytes ip /\ wf_bytes m | None => True end.

(* ---------- one Allocate call of a valid pool ---------- *)
Lemma allocate6_spec a L P hip hm : valid6 a L P -> wf_bytes hip -> wf_bytes hm ->
  match allocate6 a hip hm with
  | (a', Ok (ip, m)) => exists x, ip = blk_ip a P x /\ m = req_mask a hm /\ x < 2 ^ (P - L) /\
                        ~ In x (bits (a6_bm a)) /\ bits (a6_bm a') = x :: bits (a6_bm a) /\ valid6 a' L P /\
                        a6_ip a' = a6_ip a /\ a6_mask a' = a6_mask a /\ a6_page a' = a6_page a
  | (a', Err e) => a' = a /\ N.of_nat (length (bits (a6_bm a))) = 2 ^ (P - L)
  | (a', Panic) => False
  end.
Proof.
  intros V Wi Wm. assert (Wo : wf_op (OAlloc hip hm)) by (split; assumption).
  pose proof (step6_refines a L P _ V Wo) as R. pose proof (step6_inv a L P _ V Wo) as I.
  pose proof (op_ok6 a L P _ V Wo) as Hok. cbn [step6 abs_op6] in *.
  destruct (istep (a6_bm a) (IAlloc (hint_idx6 a hip))) as [b' r] eqn:E.
  destruct (istep_spec _ _ _ _ _ (v6_bm _ _ _ V) Hok E) as (_ & Hr & _).
  destruct (allocate6 a hip hm) as [a' o]. cbn [fst snd] in *.
  assert (Ea : a' = with_bm6 a b') by congruence. subst a'.
  destruct r as [x| |x|k]; cbn [conc_out6] in R.
  - destruct o as [[ip m]|e|]; try (exfalso; congruence).
    assert (ip = blk_ip a P x /\ m = req_mask a hm) as [-> ->] by (split; congruence).
    destruct Hr as (H1 & H2 & H3 & _). exists x. split; [reflexivity|]. split; [reflexivity|]. split; [exact H1|].
    split; [exact H2|]. split; [exact H3|]. split; [exact I|]. split; [reflexivity|]. split; reflexivity.
  - destruct o as [[ip m]|e|]; try (exfalso; congruence).
    destruct Hr as (-> & Hf). split; [apply with_bm6_id|exact Hf].
  - exfalso. destruct Hr as (Hr & _). discriminate.
  - exfalso. cbn [istep] in E. destruct (ipick _ _); discriminate.
Qed.

(* ---------- give ---------- *)
Lemma set_nth_length {A} n (x : A) l : length (set_nth n x l) = length l.
Proof. revert n. induction l as [|y l IH]; intros n; [destruct n; reflexivity|]. destruct n; cbn [set_nth length]; [reflexivity|rewrite IH; reflexivity]. Qed.

Lemma map_set_nth {A B} (f : A -> B) n x l y : nth_error l n = Some y -> f x = f y -> map f (set_nth n x l) = map f l.
Proof.
  revert n. induction l as [|z l IH]; intros n H E; [destruct n; discriminate|].
  destruct n; cbn [set_nth map nth_error] in *; [injection H as ->; rewrite E; reflexivity|rewrite (IH n H E); reflexivity].
Qed.

Lemma key_extend now l : key (extend now l) = key l.
Proof. unfold extend. destruct (ls_exp l <? now + LEASE_NS)%Z; reflexivity. Qed.

Lemma give_spec now w li l : nth_error (w_leases w) li = Some l ->
  map key (w_leases (give now w li)) = map key (w_leases w) /\
  length (w_given (give now w li)) = length (w_given w) /\
  w_out (give now w li) = w_out w ++ [extend now l] /\
  (forall j, j <> li -> nth j (w_given (give now w li)) false = nth j (w_given w) false).
Proof.
  intros H. unfold give. rewrite H. cbn [w_leases w_given w_out].
  split; [apply (map_set_nth key li _ _ l H); apply key_extend|]. split; [apply set_nth_length|]. split; [reflexivity|].
  intros j Hj. generalize (w_given w). clear - Hj. revert j Hj. induction li as [|li IH]; intros j Hj g.
  - destruct g; [destruct j; reflexivity|]. destruct j; [contradiction|reflexivity].
  - destruct g; [destruct j; reflexivity|]. destruct j; [reflexivity|]. cbn [set_nth nth]. apply IH. lia.
Qed.

Lemma nth_error_map_key l l' j x : map key l' = map key l -> nth_error l j = Some x ->
  exists y, nth_error l' j = Some y /\ key y = key x.
Proof.
  intros E H. assert (H1 : nth_error (map key l) j = Some (key x)) by (rewrite nth_error_map, H; reflexivity).
  rewrite <- E, nth_error_map in H1. destruct (nth_error l' j) as [y|]; [|discriminate]. exists y. split; [reflexivity|]. cbn in H1. congruence.
Qed.

Lemma same_prefix_key h l l' : key l = key l' -> same_prefix h l = same_prefix h l'.
Proof. unfold key, same_prefix. intros E. injection E as E1 E2. destruct h as [[ip m]|]; [rewrite E1, E2|]; reflexivity. Qed.

(* what a loop may do to the working state: lease keys fixed, output extended by leases of the client *)
Definition wstep (w w' : work) (extra : list lease) : Prop :=
  map key (w_leases w') = map key (w_leases w) /\ length (w_given w') = length (w_given w) /\
  w_out w' = w_out w ++ extra /\ Forall (fun l => In (key l) (map key (w_leases w))) extra.

Lemma wstep_refl w : wstep w w [].
Proof. unfold wstep. rewrite app_nil_r. repeat split; constructor. Qed.

Lemma wstep_trans w1 w2 w3 e1 e2 : wstep w1 w2 e1 -> wstep w2 w3 e2 -> wstep w1 w3 (e1 ++ e2).
Proof.
  intros (A1 & A2 & A3 & A4) (B1 & B2 & B3 & B4). unfold wstep. split; [congruence|]. split; [congruence|].
  split; [rewrite B3, A3, app_assoc; reflexivity|]. apply Forall_app. split; [exact A4|]. rewrite <- A1. exact B4.
Qed.

Lemma wstep_give now w li l : nth_error (w_leases w) li = Some l -> wstep w (give now w li) [extend now l].
Proof.
  intros H. destruct (give_spec now w li l H) as (A & B & C & _). unfold wstep. repeat split; auto.
  constructor; [|constructor]. rewrite key_extend. apply in_map. eapply nth_error_In; eauto.
Qed.

(* ---------- loop 1: every lease that exactly matches a hint is given ---------- *)
Lemma exact_inner_spec now h : forall fuel li w,
  exists extra, wstep w (fst (exact_inner now h w li fuel)) extra /\
    (forall j l, (li <= j < li + fuel)%nat -> nth_error (w_leases w) j = Some l -> same_prefix h l = true ->
       In (key l) (map key extra)).
Proof.
  induction fuel as [|f IH]; intros li w; cbn [exact_inner].
  - exists []. split; [apply wstep_refl|]. intros j l Hj. lia.
  - destruct (nth_error (w_leases w) li) as [l0|] eqn:E0.
    + destruct (same_prefix h l0) eqn:Es.
      * destruct (IH (S li) (give now w li)) as (ex & W & M).
        destruct (exact_inner now h (give now w li) (S li) f) as [w2 hit2]. cbn [fst] in *.
        exists ([extend now l0] ++ ex). split; [eapply wstep_trans; [apply wstep_give; exact E0|exact W]|].
        intros j l Hj Hl Hs. rewrite map_app, in_app_iff. destruct (Nat.eq_dec j li) as [->|Hne].
        -- left. rewrite E0 in Hl. injection Hl as <-. cbn [map In]. left. apply key_extend.
        -- right. destruct (give_spec now w li l0 E0) as (Hk & _).
           destruct (nth_error_map_key _ _ j l Hk Hl) as (y & Hy & Ky).
           rewrite <- Ky. apply (M j y); [lia|exact Hy|]. rewrite (same_prefix_key h y l Ky). exact Hs.
      * destruct (IH (S li) w) as (ex & W & M). destruct (exact_inner now h w (S li) f) as [w2 hit2]. cbn [fst] in *.
        exists ex. split; [exact W|]. intros j l Hj Hl Hs. destruct (Nat.eq_dec j li) as [->|Hne]; [congruence|].
        apply (M j l); [lia|exact Hl|exact Hs].
    + exists []. split; [apply wstep_refl|]. intros j l Hj Hl Hs. exfalso.
      apply nth_error_None in E0. assert (j < length (w_leases w))%nat by (apply nth_error_Some; congruence). lia.
Qed.

Lemma exact_loop_spec now : forall hs w,
  exists extra, wstep w (fst (exact_loop now hs w)) extra /\ length (snd (exact_loop now hs w)) = length hs /\
    (forall h l, In h hs -> In l (w_leases w) -> same_prefix h l = true -> In (key l) (map key extra)).
Proof.
  induction hs as [|h hs IH]; intros w; cbn [exact_loop].
  - exists []. split; [apply wstep_refl|]. split; [reflexivity|]. intros h l [].
  - destruct (exact_inner_spec now h (length (w_leases w)) 0%nat w) as (e1 & W1 & M1).
    destruct (exact_inner now h w 0 (length (w_leases w))) as [w1 hit]. cbn [fst] in *.
    destruct (IH w1) as (e2 & W2 & L2 & M2). destruct (exact_loop now hs w1) as [w2 sat]. cbn [fst snd] in *.
    exists (e1 ++ e2). split; [eapply wstep_trans; eassumption|]. split; [cbn [length]; congruence|].
    intros h' l [<-|Hin] Hl Hs; rewrite map_app, in_app_iff.
    + left. apply In_nth_error in Hl. destruct Hl as (j & Hj). apply (M1 j l); [|exact Hj|exact Hs].
      assert (j < length (w_leases w))%nat by (apply nth_error_Some; congruence). lia.
    + right. destruct W1 as (K1 & _). apply In_nth_error in Hl. destruct Hl as (j & Hj).
      destruct (nth_error_map_key _ _ j l K1 Hj) as (y & Hy & Ky). rewrite <- Ky.
      apply (M2 h' y Hin); [eapply nth_error_In; exact Hy|]. rewrite (same_prefix_key h' y l Ky). exact Hs.
Qed.

(* ---------- loop 2 ---------- *)
Lemma empty_inner_spec now h one : forall fuel li w,
  exists extra, wstep w (fst (empty_inner now h one w li fuel)) extra.
Proof.
  induction fuel as [|f IH]; intros li w; cbn [empty_inner]; [exists []; apply wstep_refl|].
  destruct (nth_error (w_leases w) li) as [l0|] eqn:E0; [|exists []; apply wstep_refl].
  match goal with |- context [if ?c then _ else _] => destruct c end.
  - apply IH.
  - destruct one.
    + eexists. cbn [fst]. apply wstep_give. exact E0.
    + destruct (IH (S li) (give now w li)) as (ex & W). destruct (empty_inner now h false (give now w li) (S li) f). cbn [fst] in *.
      eexists. eapply wstep_trans; [apply wstep_give; exact E0|exact W].
Qed.

Lemma empty_loop_spec now : forall hs sat rem w,
  exists extra, wstep w (fst (empty_loop now hs sat rem w)) extra.
Proof.
  induction hs as [|h hs IH]; intros sat rem w; cbn [empty_loop]; [exists []; apply wstep_refl|].
  destruct sat as [|s sat]; [exists []; apply wstep_refl|].
  destruct (s || negb (empty_hint h)).
  - destruct (IH sat rem w) as (ex & W). destruct (empty_loop now hs sat rem w). exists ex. exact W.
  - destruct (empty_inner_spec now h (Nat.ltb 0 (pred rem)) (length (w_leases w)) 0%nat w) as (e1 & W1).
    destruct (empty_inner now h (Nat.ltb 0 (pred rem)) w 0 (length (w_leases w))) as [w1 hit]. cbn [fst] in *.
    destruct (IH sat (pred rem) w1) as (e2 & W2). destruct (empty_loop now hs sat (pred rem) w1). cbn [fst] in *.
    eexists. eapply wstep_trans; eassumption.
Qed.

(* ---------- loop 3 ---------- *)
Definition static6 (a a' : a6) : Prop := a6_ip a' = a6_ip a /\ a6_mask a' = a6_mask a /\ a6_page a' = a6_page a.

Definition lease_in (a : a6) (P : N) (l : lease) : Prop :=
  exists x, ls_ip l = blk_ip a P x /\ In x (bits (a6_bm a)) /\ exists hm, ls_mask l = req_mask a hm.

Lemma lease_in_mono a a' P l : static6 a a' -> (forall x, In x (bits (a6_bm a)) -> In x (bits (a6_bm a'))) ->
  lease_in a P l -> lease_in a' P l.
Proof.
  intros (S1 & S2 & S3) Hb (x & H1 & H2 & hm & H3). exists x. unfold blk_ip, req_mask in *. rewrite S1, S3.
  split; [exact H1|]. split; [apply Hb; exact H2|]. exists hm. exact H3.
Qed.

(* the allocation loop: the allocator only grows, every new lease is a fresh block of the pool *)
Lemma alloc_loop_spec now L P : forall hs sat a w new, valid6 a L P -> Forall wf_hint hs ->
  match alloc_loop now hs sat a w new with
  | Ok (a', w', new') =>
      valid6 a' L P /\ static6 a a' /\ (forall x, In x (bits (a6_bm a)) -> In x (bits (a6_bm a'))) /\
      exists news, w_leases w' = w_leases w ++ news /\ w_out w' = w_out w ++ news /\ w_given w' = w_given w /\
        Forall (fun l => lease_in a' P l /\ (forall x, ls_ip l = blk_ip a P x -> ~ In x (bits (a6_bm a))) /\
                         ls_exp l = (now + LEASE_NS)%Z) news /\
        (news = [] -> a' = a) /\
        NoDup (map ls_ip news)
  | Err _ => False
  | Panic => False
  end.
Proof.
  induction hs as [|h hs IH]; intros sat a w new V F; cbn [alloc_loop].
  - split; [exact V|]. split; [repeat split|]. split; [auto|]. exists []. rewrite !app_nil_r. repeat split; auto; constructor.
  - destruct sat as [|s sat].
    + split; [exact V|]. split; [repeat split|]. split; [auto|]. exists []. rewrite !app_nil_r. repeat split; auto; constructor.
    + destruct s; [apply IH; [exact V|exact (Forall_inv_tail F)]|].
      set (hh := match h with Some x => x | None => ([], []) end). destruct hh as [hip hmask] eqn:Eh.
      assert (Wh : wf_bytes hip /\ wf_bytes hmask).
      { pose proof (Forall_inv F) as Wf. unfold hh in Eh. destruct h as [[i m]|]; [injection Eh as <- <-; exact Wf|injection Eh as <- <-; split; constructor]. }
      pose proof (allocate6_spec a L P hip hmask V (proj1 Wh) (proj2 Wh)) as A.
      destruct (allocate6 a hip hmask) as [a1 [[ip mask]|e|]].
      * destruct A as (x & -> & -> & Hx & Hfree & Eb & V1 & S1 & S2 & S3).
        set (l := {| ls_ip := blk_ip a P x; ls_mask := req_mask a hmask; ls_exp := (now + LEASE_NS)%Z |}).
        specialize (IH sat a1 {| w_leases := w_leases w ++ [l]; w_given := w_given w; w_out := w_out w ++ [l] |} true V1 (Forall_inv_tail F)).
        destruct (alloc_loop now hs sat a1 _ true) as [[[a' w'] new']|e|]; try contradiction.
        destruct IH as (V' & (T1 & T2 & T3) & Hb' & news & E1 & E2 & E3 & Fn & _ & Nd).
        cbn [w_leases w_out w_given] in *.
        assert (Hb1 : forall y, In y (bits (a6_bm a)) -> In y (bits (a6_bm a1))) by (intros y Hy; rewrite Eb; right; exact Hy).
        split; [exact V'|]. split; [unfold static6; repeat split; congruence|]. split; [auto|].
        exists (l :: news). rewrite E1, E2, <- !app_assoc. cbn [app]. split; [reflexivity|]. split; [reflexivity|]. split; [exact E3|].
        assert (Hinj : forall y, y < 2 ^ (P - L) -> blk_ip a P y = blk_ip a P x -> y = x).
        { intros y Hy E. destruct (N.eq_dec y x) as [->|Hne]; [reflexivity|]. exfalso.
          destruct (blocks_disjoint a L P V y x Hy Hx Hne) as [D|D]; rewrite E in D; pose proof (Bsz_pos P); lia. }
        split; [|split; [discriminate|]].
        -- constructor.
           ++ split; [|split; [|reflexivity]].
              ** exists x. unfold blk_ip, req_mask. rewrite T1, T3, S1, S3. split; [reflexivity|]. split; [apply Hb'; rewrite Eb; left; reflexivity|]. exists hmask. reflexivity.
              ** cbn [ls_ip l]. intros y Ey Hin. assert (y = x); [|subst; contradiction].
                 apply Hinj; [|symmetry; exact Ey]. apply (proj2 (proj2 (v6_bm _ _ _ V))). exact Hin.
           ++ eapply Forall_impl; [|exact Fn]. intros l0 (A1 & A2 & A3). split; [exact A1|]. split; [|exact A3].
              intros y Ey Hin. apply (A2 y); [unfold blk_ip in *; rewrite S1; exact Ey|apply Hb1; exact Hin].
        -- cbn [map]. constructor; [|exact Nd]. intros Hin. apply in_map_iff in Hin. destruct Hin as (l0 & E0 & Hl0).
           rewrite Forall_forall in Fn. destruct (Fn l0 Hl0) as (_ & A2 & _). cbn [ls_ip l] in E0.
           apply (A2 x); [unfold blk_ip in *; rewrite S1; exact E0|rewrite Eb; left; reflexivity].
      * destruct A as (-> & _). apply IH; [exact V|exact (Forall_inv_tail F)].
      * contradiction.
Qed.
