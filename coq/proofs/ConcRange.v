(* ConcRange.v — C02 under every schedule: k concurrent requests through the range plugin (after
   any sequential history) behave as some serial history, so uniqueness, stickiness, range and
   no-failure hold for what the concurrent requests were answered. *)
From Coq Require Import List Arith Lia Permutation.
From Verif Require Import Base RangePlugin RangeProofs RangeTheorems Conc ConcProofs.
Import ListNotations.
Local Open Scope nat_scope.

Lemma hrun_srun s e st ops : hrun s e st ops = srun _ _ _ (hstep s e) st ops.
Proof.
  revert st; induction ops as [|o ops IH]; intro st; cbn [hrun srun]; [reflexivity|].
  destruct (hstep s e st o) as [st1 r]. rewrite IH. reflexivity.
Qed.

Lemma replies_nth ops : forall outs i now c host y o51,
  nth_error ops i = Some (HReq now c host) -> nth_error outs i = Some (HReply y o51) ->
  In (c, y) (replies ops outs).
Proof.
  induction ops as [|o ops IH]; intros outs i now c host y o51 H1 H2; [destruct i; discriminate|].
  destruct outs as [|r outs]; [destruct i; discriminate|].
  destruct i as [|i]; cbn [nth_error] in H1, H2.
  - injection H1 as ->. injection H2 as ->. cbn [replies]. left; reflexivity.
  - pose proof (IH outs i now c host y o51 H1 H2) as Hin.
    cbn [replies]. destruct o as [n0 c0 h0|ord]; [destruct r; try exact Hin; right; exact Hin|exact Hin].
Qed.

Section ConcRange.
Variables (s e : bytes) (lease : Z) (st0 : rstate).
Hypothesis Ws : wf_bytes s.
Hypothesis We : wf_bytes e.
Hypothesis Hsetup : range_setup s e lease [] = Ok st0.
Variable prev : list hop.            (* what was handled before, one at a time *)
Variable reqs : list hop.            (* the requests now in flight, one goroutine each *)
Hypothesis Wprev : Forall wf_hop prev.
Hypothesis Wreqs : Forall wf_hop reqs.

Let s1 := fst (hrun s e st0 prev).
Let cops := map (aop _ _ _ (hstep s e)) reqs.

Theorem range_concurrent_serial sched :
  all_done _ _ _ cops (run _ _ _ cops s1 sched) ->
  exists sigma, Permutation sigma (seq 0 (length reqs)) /\
    let hist := prev ++ pick _ reqs sigma in
    let c := run _ _ _ cops s1 sched in
    Forall wf_hop hist /\
    sh _ _ _ c = fst (hrun s e st0 hist) /\
    lock _ _ _ c = None /\
    forall t r, nth_error (thr _ _ _ c) t = Some (Done _ _ _ r) ->
      exists k, nth_error sigma k = Some t /\
                nth_error hist (length prev + k) = nth_error reqs t /\
                r = nth_error (snd (hrun s e st0 hist)) (length prev + k) /\ r <> None.
Proof.
  intros Hd. destruct (atomic_serialisable _ _ _ (hstep s e) reqs s1 sched Hd) as (sigma & Hp & Hs & Hl & Hr).
  exists sigma. split; [exact Hp|]. cbn zeta.
  assert (Hf : Forall (fun t => t < length reqs) sigma).
  { apply Forall_forall. intros t Ht. apply (Permutation_in _ Hp) in Ht. apply in_seq in Ht. lia. }
  assert (Hw : Forall wf_hop (pick _ reqs sigma)).
  { apply Forall_forall. intros o Ho. unfold pick in Ho. apply in_flat_map in Ho. destruct Ho as (t & _ & Ho).
    destruct (nth_error reqs t) as [a|] eqn:Ea; [|destruct Ho]. destruct Ho as [<-|[]].
    rewrite Forall_forall in Wreqs. apply Wreqs. eapply nth_error_In; exact Ea. }
  split; [apply Forall_app; split; assumption|].
  rewrite !hrun_srun, srun_app. rewrite <- hrun_srun.
  destruct (hrun s e st0 prev) as [sp rp] eqn:Ep.
  assert (Lp : length rp = length prev).
  { pose proof (hrun_length s e st0 prev) as L. rewrite Ep in L. exact L. }
  assert (Es1 : s1 = sp) by (unfold s1; rewrite ?Ep; reflexivity).
  unfold cops. rewrite Es1 in Hs, Hr, Hl |- *.
  destruct (srun _ _ _ (hstep s e) sp (pick _ reqs sigma)) as [sq rq] eqn:Eq. cbn [fst snd] in *.
  split; [exact Hs|]. split; [exact Hl|].
  intros t r Ht. destruct (Hr t r Ht) as (k & H1 & H2 & H3 & H4). exists k.
  split; [exact H1|]. split; [|split; [|exact H4]].
  - rewrite nth_error_app2 by lia. replace (length prev + k - length prev) with k by lia. exact H2.
  - rewrite nth_error_app2 by lia. replace (length prev + k - length rp) with k by lia. exact H3.
Qed.

(* what C02 promises, for requests answered concurrently: two threads were given the same address
   iff they asked for the same hardware address, every address lies in the range, none failed *)
Theorem range_concurrent_c02 sched :
  all_done _ _ _ cops (run _ _ _ cops s1 sched) ->
  let c := run _ _ _ cops s1 sched in
  (forall t, nth_error (thr _ _ _ c) t <> Some (Done _ _ _ (Some HFail))) /\
  forall t1 t2 n1 c1 h1 n2 c2 h2 y1 o1 y2 o2,
    nth_error reqs t1 = Some (HReq n1 c1 h1) -> nth_error reqs t2 = Some (HReq n2 c2 h2) ->
    nth_error (thr _ _ _ c) t1 = Some (Done _ _ _ (Some (HReply y1 o1))) ->
    nth_error (thr _ _ _ c) t2 = Some (Done _ _ _ (Some (HReply y2 o2))) ->
    wf_bytes c1 -> wf_bytes c2 ->
    (c1 = c2 <-> y1 = y2) /\
    length y1 = 4%nat /\ (be_val (to4_or_nil s) <= be_val y1 <= be_val (to4_or_nil e))%N.
Proof.
  intros Hd. destruct (range_concurrent_serial sched Hd) as (sigma & Hp & Hw & Hs & Hl & Hr).
  cbn zeta in *. set (hist := prev ++ pick _ reqs sigma) in *.
  split.
  - intros t Ht. destruct (Hr t _ Ht) as (k & _ & _ & H3 & _).
    apply (range_never_fails s e lease st0 Ws We Hsetup hist Hw).
    symmetry in H3. eapply nth_error_In; exact H3.
  - intros t1 t2 n1 c1 h1 n2 c2 h2 y1 o1 y2 o2 Q1 Q2 T1 T2 W1 W2.
    destruct (Hr t1 _ T1) as (k1 & _ & A1 & B1 & _). destruct (Hr t2 _ T2) as (k2 & _ & A2 & B2 & _).
    rewrite Q1 in A1. rewrite Q2 in A2. symmetry in B1, B2.
    pose proof (replies_nth hist _ _ _ _ _ _ _ A1 B1) as I1.
    pose proof (replies_nth hist _ _ _ _ _ _ _ A2 B2) as I2.
    split; [exact (range_unique_sticky s e lease st0 Ws We Hsetup hist Hw c1 y1 c2 y2 W1 W2 I1 I2)|].
    exact (range_in_range s e lease st0 Ws We Hsetup hist Hw c1 y1 I1).
Qed.
End ConcRange.
