(* RangePlugin.v — model of plugins/range (plugin.go, storage.go): DHCPv4 dynamic leases
   from an IPv4 range, persisted in a sqlite table.  Mirrors Handler4, setupRange,
   loadRecords (with parseHWAddr) and saveIPAddress statement by statement. *)
From Verif Require Import Base Net Bitset Alloc Msg4.
Open Scope N_scope.

(* ---------- text of a hardware address ---------- *)
Definition hexdigit (n : N) : N := if n <? 10 then 48 + n else 87 + n.        (* '0'.. / 'a'.. *)
Definition hex2 (b : N) : bytes := [hexdigit (b / 16); hexdigit (b mod 16)].

(* net.HardwareAddr.String *)
Fixpoint mac_string (hw : bytes) : bytes :=
  match hw with
  | [] => []
  | [b] => hex2 b
  | b :: hw' => hex2 b ++ 58 :: mac_string hw'                                  (* ':' *)
  end.

Definition hexval (c : N) : option N :=
  if (48 <=? c) && (c <=? 57) then Some (c - 48)
  else if (97 <=? c) && (c <=? 102) then Some (c - 87)
  else if (65 <=? c) && (c <=? 70) then Some (c - 55)
  else None.

(* one ':'-separated part: 1 or 2 hex digits (strconv.ParseUint(part, 16, 8)) *)
Definition parse_part (p : bytes) : option N :=
  match p with
  | [c] => hexval c
  | [c1; c2] => match hexval c1, hexval c2 with Some a, Some b => Some (a * 16 + b) | _, _ => None end
  | _ => None
  end.

(* strings.Split(s, ":") for a non-empty s, as (current part, remaining) *)
Fixpoint split_colon (s : bytes) (cur : bytes) : list bytes :=
  match s with
  | [] => [cur]
  | c :: s' => if c =? 58 then cur :: split_colon s' [] else split_colon s' (cur ++ [c])
  end.

Fixpoint parse_parts (ps : list bytes) : option bytes :=
  match ps with
  | [] => Some []
  | p :: ps' => match parse_part p, parse_parts ps' with
                | Some b, Some r => Some (b :: r)
                | _, _ => None
                end
  end.

(* parseHWAddr (storage.go); net.ParseMAC is tried first in the code: it accepts only
   6-, 8- and 20-byte addresses and agrees with this on every text the plugin writes *)
Definition parse_hw (s : bytes) : option bytes :=
  match s with
  | [] => Some []
  | _ => parse_parts (split_colon s [])
  end.

(* sqlite: the `string` column type has NUMERIC affinity.  Of the texts the plugin writes into
   `mac`, only a two-digit all-decimal one ("07", "10") is a number: it comes back without
   leading zeros. *)
Definition is_dec (c : N) : bool := (48 <=? c) && (c <=? 57).
Definition mac_affinity (s : bytes) : bytes :=
  match s with
  | [a; b] => if is_dec a && is_dec b then (if a =? 48 then [b] else [a; b]) else s
  | _ => s
  end.

(* ---------- the lease table ---------- *)
Record row := { r_mac : bytes; r_ip : bytes (* 4 bytes *); r_exp : Z; r_host : bytes }.

(* insert or replace, primary key (mac, ip) *)
Fixpoint db_upsert (t : list row) (r : row) : list row :=
  match t with
  | [] => [r]
  | x :: t' => if bytes_eqb (r_mac x) (r_mac r) && bytes_eqb (r_ip x) (r_ip r) then r :: t'
               else x :: db_upsert t' r
  end.

(* ---------- plugin state ---------- *)
Record rec := { rc_ip : bytes; rc_exp : Z; rc_host : bytes }.   (* rc_ip: 4 or 16 bytes as in Go *)

Record rstate := {
  rs_alloc : a4;
  rs_lease : Z;                       (* LeaseTime, nanoseconds *)
  rs_recs : list (bytes * rec);       (* Recordsv4, keyed by chaddr.String() text *)
  rs_db : list row }.

Definition NS : Z := 1000000000.
Definition trunc_s (t : Z) : Z := (t / NS)%Z.                       (* time.Unix() *)
Definition round_s (t : Z) : Z := ((t + 500000000) / NS)%Z.         (* Round(time.Second).Unix() *)

Fixpoint recs_get (k : bytes) (l : list (bytes * rec)) : option rec :=
  match l with
  | [] => None
  | (k', r) :: l' => if bytes_eqb k' k then Some r else recs_get k l'
  end.

Fixpoint recs_set (k : bytes) (r : rec) (l : list (bytes * rec)) : list (bytes * rec) :=
  match l with
  | [] => [(k, r)]
  | (k', r') :: l' => if bytes_eqb k' k then (k, r) :: l' else (k', r') :: recs_set k r l'
  end.

Definition with_alloc (s : rstate) (a : a4) : rstate :=
  {| rs_alloc := a; rs_lease := rs_lease s; rs_recs := rs_recs s; rs_db := rs_db s |}.

(* OptIPAddressLeaseTime(LeaseTime.Round(time.Second)): uint32 seconds, big endian *)
Definition dur_round_s (d : Z) : Z :=
  if (d <? 0)%Z then (- ((- d + 500000000) / NS))%Z else ((d + 500000000) / NS)%Z.
Definition lease_opt (lease : Z) : bytes := be_bytes 4 (Z.to_N (dur_round_s lease mod 4294967296)).

Definition to4_or_nil (ip : bytes) : bytes := match to4 ip with Some x => x | None => [] end.

(* Handler4; `now` is the clock reading of this call (the code reads the clock up to three
   times within one call; the model uses one reading, see DESIGN.md section 4 "Time") *)
Definition range_handler (s : rstate) (now : Z) (req resp : msg4) : rstate * res hout4 :=
  let key := mac_string (m_chaddr req) in
  let hostname := match opt_get 12 (m_opts req) with Some h => h | None => [] end in
  let finish (s' : rstate) (r : rec) :=
    (s', Ok (Some (upd_opt (set_yiaddr resp (to4_or_nil (rc_ip r))) 51 (lease_opt (rs_lease s))), false)) in
  match recs_get key (rs_recs s) with
  | None =>
      let '(a', r) := allocate4 (rs_alloc s) [] in
      match r with
      | Panic => (with_alloc s a', Panic)
      | Err _ => (with_alloc s a', Ok (None, true))
      | Ok ip =>
          let rc := {| rc_ip := to4_or_nil ip; rc_exp := trunc_s (now + rs_lease s); rc_host := hostname |} in
          let db' := db_upsert (rs_db s) {| r_mac := mac_affinity key; r_ip := rc_ip rc; r_exp := rc_exp rc; r_host := hostname |} in
          finish {| rs_alloc := a'; rs_lease := rs_lease s; rs_recs := recs_set key rc (rs_recs s); rs_db := db' |} rc
      end
  | Some rc =>
      if (rc_exp rc * NS <? now + rs_lease s)%Z then
        let rc' := {| rc_ip := rc_ip rc; rc_exp := round_s (now + rs_lease s); rc_host := hostname |} in
        let db' := db_upsert (rs_db s) {| r_mac := mac_affinity key; r_ip := to4_or_nil (rc_ip rc); r_exp := rc_exp rc'; r_host := hostname |} in
        finish {| rs_alloc := rs_alloc s; rs_lease := rs_lease s; rs_recs := recs_set key rc' (rs_recs s); rs_db := db' |} rc'
      else finish s rc
  end.

(* loadRecords: every row must parse; later rows overwrite earlier ones with the same key *)
Fixpoint load_records (t : list row) (acc : list (bytes * rec)) : option (list (bytes * rec)) :=
  match t with
  | [] => Some acc
  | r :: t' =>
      match parse_hw (r_mac r) with
      | None => None
      | Some hw =>
          if lenb (r_ip r) 4
          then load_records t' (recs_set (mac_string hw)
                 {| rc_ip := v4in6_prefix ++ r_ip r; rc_exp := r_exp r; rc_host := r_host r |} acc)
          else None
      end
  end.

(* the re-marking loop of setupRange, in the order the map iteration delivers the records *)
Fixpoint remark (a : a4) (l : list (bytes * rec)) : res a4 :=
  match l with
  | [] => Ok a
  | (_, r) :: l' =>
      let '(a', o) := allocate4 a (rc_ip r) in
      match o with
      | Ok ip => if bytes_eqb ip (to4_or_nil (rc_ip r)) then remark a' l' else Err EOther
      | Err e => Err e
      | Panic => Panic
      end
  end.

(* setupRange on an existing database; argument parsing is modelled in model/Setup.v.
   `ord` is the order in which Go's map iteration delivers the loaded records to the
   re-marking loop (any permutation; the theorems hold for every one). *)
Definition range_setup_ord (ord : list (bytes * rec) -> list (bytes * rec))
           (s e : bytes) (lease : Z) (db : list row) : res rstate :=
  match to4 s, to4 e with
  | Some s4, Some e4 =>
      if be_u32_of e4 <=? be_u32_of s4 then Err EOther
      else match new4 s e with
           | Ok a =>
               match load_records db [] with
               | None => Err EOther
               | Some recs =>
                   match remark a (ord recs) with
                   | Ok a' => Ok {| rs_alloc := a'; rs_lease := lease; rs_recs := recs; rs_db := db |}
                   | Err er => Err er
                   | Panic => Panic
                   end
               end
           | Err er => Err er
           | Panic => Panic
           end
  | _, _ => Err EOther
  end.

Definition range_setup := range_setup_ord (fun l => l).
