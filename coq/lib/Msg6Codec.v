(* Msg6Codec.v — the DHCPv6 wire format as the library reads and writes it (insomniacslk/dhcp
   dhcpv6.FromBytes / ToBytes), at the level the models use: options as (code, payload) with 16-bit
   code and length; a client/server message = type, 3-byte transaction id, options; a relay message =
   type 12/13, hop count, link-address, peer-address, options, the enclosed packet being the payload of
   its first Relay Message option (code 9).  The parsed form (lib/Msg6.v) keeps a layer's other
   options and forgets where the Relay Message option stood; the encoder writes it first, which is
   what the library's NewRelayReplFromRelayForw / EncapsulateRelay produce for the server's replies. *)
From Coq Require Import List Arith NArith Bool.
From Verif Require Import Base Msg6 Msg4Codec.
Import ListNotations.
Open Scope N_scope.

Definition enc_opt6 (kv : N * bytes) : bytes :=
  be_bytes 2 (fst kv) ++ be_bytes 2 (N.of_nat (length (snd kv))) ++ snd kv.
Definition enc_opts6 (o : opts6) : bytes := flat_map enc_opt6 o.

Fixpoint dec_opts6 (fuel : nat) (b : bytes) : option opts6 :=
  match fuel with
  | O => None
  | S f =>
      match b with
      | [] => Some []
      | c1 :: c0 :: l1 :: l0 :: rest =>
          let n := N.to_nat (l1 * 256 + l0) in
          if Nat.ltb (length rest) n then None
          else match dec_opts6 f (skipn n rest) with
               | Some o => Some ((c1 * 256 + c0, firstn n rest) :: o)
               | None => None
               end
      | _ => None
      end
  end.

Definition enc_imsg (m : imsg) : bytes := [i_type m mod 256] ++ be_bytes 3 (i_xid m) ++ enc_opts6 (i_opts m).

Definition enc_layer (l : layer) (nested : option bytes) : bytes :=
  [l_type l mod 256; l_hop l mod 256] ++ pad_to 16 (l_link l) ++ pad_to 16 (l_peer l) ++
  match nested with Some nb => enc_opt6 (OPT_RELAYMSG, nb) | None => [] end ++ enc_opts6 (l_opts l).

Fixpoint enc_nest (ls : list layer) (inner : option imsg) : option bytes :=
  match ls with
  | [] => option_map enc_imsg inner
  | l :: ls' => Some (enc_layer l (enc_nest ls' inner))
  end.
(* None: neither a layer nor a message - not a packet *)
Definition enc_pkt6 (p : pkt6) : option bytes := enc_nest (p_layers p) (p_inner p).

Definition is_relay_type (t : N) : bool := (t =? MT_RELAYFORW) || (t =? MT_RELAYREPL).

Fixpoint dec_pkt6 (fuel : nat) (b : bytes) : option pkt6 :=
  match fuel with
  | O => None
  | S f =>
      match b with
      | [] => None
      | t :: rest =>
          if is_relay_type t then
            if Nat.ltb (length rest) 33 then None
            else match dec_opts6 (S (length rest)) (skipn 33 rest) with
                 | None => None
                 | Some os =>
                     let ly := {| l_type := t; l_hop := nth 0 rest 0; l_link := fld rest 1 16; l_peer := fld rest 17 16;
                                  l_opts := filter (fun kv => negb (fst kv =? OPT_RELAYMSG)) os |} in
                     match o6_get OPT_RELAYMSG os with
                     | None => Some {| p_layers := [ly]; p_inner := None |}
                     | Some nb => match dec_pkt6 f nb with
                                  | Some q => Some {| p_layers := ly :: p_layers q; p_inner := p_inner q |}
                                  | None => None
                                  end
                     end
                 end
          else
            if Nat.ltb (length rest) 3 then None
            else match dec_opts6 (S (length rest)) (skipn 3 rest) with
                 | None => None
                 | Some os => Some {| p_layers := []; p_inner := Some {| i_type := t; i_xid := be_val (firstn 3 rest); i_opts := os |} |}
                 end
      end
  end.

(* FromBytes on a datagram *)
Definition decode6 (b : bytes) : option pkt6 := dec_pkt6 (S (length b)) b.
