package main

// C14 on whole chains: server_id followed by other built-in plugins (also server_id listed twice).
// Whatever the later plugins do, every reply that leaves carries this server's identifier:
// DHCPv4 option 54 and siaddr, DHCPv6 exactly one Server Identifier option, ours.

import (
	"bytes"
	"encoding/hex"
	"fmt"
	"net"
	"time"

	"github.com/insomniacslk/dhcp/dhcpv4"
	"github.com/insomniacslk/dhcp/dhcpv6"
	"github.com/insomniacslk/dhcp/iana"
)

func runRealChains14(c *Ctx) {
	r := c.R
	c.SetCases(asmCasesHdr, "AsmRun.mismatches")
	c.shard = 12
	files := map[string]string{"leases4.txt": c01Leases4, "leases6.txt": c01Leases6}
	own4 := net.IP{10, 0, 0, 2} // (not the TFTP / DNS / router addresses of the other plugins' arguments)
	own6 := &dhcpv6.DUIDLL{HWType: iana.HWTypeEthernet, LinkLayerAddr: net.HardwareAddr{0, 0xde, 0xad, 0xbe, 0xef, 0}}
	sid4 := chainPlug{"server_id", []string{"10.0.0.2"}}
	sid6 := chainPlug{"server_id", []string{"LL", "00:de:ad:be:ef:00"}}
	without := func(ch []chainPlug) []chainPlug {
		var out []chainPlug
		for _, p := range ch {
			if p.Name != "server_id" {
				out = append(out, p)
			}
		}
		return out
	}
	for k := 0; k < c.Scale(24, 500); k++ {
		spec := chainSpec{Files: files, Lif: []int{0, 7001}[r.Intn(2)], WatchdogMs: 3000}
		v4 := k%2 == 0
		if v4 {
			spec.Plugins4 = append([]chainPlug{sid4}, without(genChain(c, c01Pool4, ""))...)
			if k < 4 || r.Pct(25) { // the first configurations of each protocol always list server_id twice
				spec.Plugins4 = append(spec.Plugins4, sid4)
			}
		} else {
			spec.Plugins6 = append([]chainPlug{sid6}, without(genChain(c, c01Pool6, ""))...)
			if k < 4 || r.Pct(25) {
				spec.Plugins6 = append(spec.Plugins6, sid6)
			}
		}
		if k < 4 {
			// ... and keep the chain between them free of plugins that end it (nbp, file for a listed client)
			keep := func(ch []chainPlug) []chainPlug {
				var out []chainPlug
				for _, p := range ch {
					if p.Name != "nbp" && p.Name != "file" && p.Name != "ipv6only" && p.Name != "autoconfigure" && p.Name != "range" && p.Name != "prefix" {
						out = append(out, p)
					}
				}
				return out
			}
			spec.Plugins4, spec.Plugins6 = keep(spec.Plugins4), keep(spec.Plugins6)
		}
		var held []net.IPNet
		n := 8 + r.Intn(20)
		for i := 0; i < n; i++ {
			if v4 && i%9 == 4 {
				// a BOOTREPLY that looks like a DISCOVER / REQUEST: not a client's message, never answered
				sp := randReq4(c)
				sp.op = 2
				sp.mtype = []byte{[]byte{1, 3}[r.Intn(2)]}
				sp.bflag = true
				spec.Dgrams = append(spec.Dgrams, chainDgram{Proto: 4, Hex: hex.EncodeToString(buildReq4(sp)), Oob: 7001, Peer: "0.0.0.0"})
				continue
			}
			if v4 {
				raw, _ := genDgram4x(c, nil, r.Pct(30))
				spec.Dgrams = append(spec.Dgrams, chainDgram{Proto: 4, Hex: hex.EncodeToString(raw), Oob: []int{-1, 0, 7001}[r.Intn(3)], Peer: "0.0.0.0"})
			} else {
				raw, _ := genDgram6x(c, &held, r.Pct(30))
				spec.Dgrams = append(spec.Dgrams, chainDgram{Proto: 6, Hex: hex.EncodeToString(raw), Oob: []int{-1, 0, 7001}[r.Intn(3)], Peer: []string{"2001:db8::99", "fe80::1"}[r.Intn(2)]})
			}
		}
		res, err := runChainChild(spec, 90*time.Second)
		if err != nil || res.SetupErr != "" {
			continue
		}
		for i, o := range res.Outs {
			if i >= len(spec.Dgrams) || len(o.Sends) == 0 {
				continue
			}
			c.Evals++
			input := map[string]interface{}{"chain v4": chainNames(spec.Plugins4), "chain v6": chainNames(spec.Plugins6), "datagram_hex": spec.Dgrams[i].Hex, "history_length": i}
			pb, _ := hex.DecodeString(o.Sends[0].Payload)
			if v4 {
				rp, err := dhcpv4.FromBytes(pb)
				if err != nil {
					continue
				}
				if !rp.ServerIPAddr.Equal(own4) || !bytes.Equal(rp.Options[54], own4) {
					c.vio("C14", "reply-without-own-id", fmt.Sprintf("chain [%s]: the DHCPv4 reply carries siaddr %v and option 54 %v, not this server's address %v in both", chainNames(spec.Plugins4), rp.ServerIPAddr, net.IP(rp.Options[54]), own4), input)
				}
			} else {
				d, err := dhcpv6.FromBytes(pb)
				if err != nil {
					continue
				}
				m, err := d.GetInnerMessage()
				if err != nil {
					continue
				}
				ids := m.Options.Get(dhcpv6.OptionServerID)
				if len(ids) != 1 || !bytes.Equal(ids[0].ToBytes(), own6.ToBytes()) {
					c.vio("C14", "reply-without-own-id", fmt.Sprintf("chain [%s]: the DHCPv6 reply carries %d Server Identifier options (must be exactly one, this server's DUID)", chainNames(spec.Plugins6), len(ids)), input)
				}
			}
		}
		emitAsmCases(c, spec, res)
		c.Eval(fmt.Sprintf("real14/%s%s/%d", chainNames(spec.Plugins4), chainNames(spec.Plugins6), n), true)
	}
}
