(* RouteCodec.v — the Classless Static Route option (RFC 3442) as dhcpv4.Routes writes it: for
   every configured route list that set-up accepts (IPv4 destination, 4-byte mask, IPv4 gateway)
   the option bytes decode to exactly (mask width, significant destination bytes, gateway) per route. *)
From Coq Require Import List Arith NArith ZArith Lia ZifyN ZifyNat ZifyBool.
From Verif Require Import Base Net Plugins4 PluginProofs.
Import ListNotations.
Open Scope N_scope.

(* RFC 3442 decoder *)
Fixpoint dec_routes (fuel : nat) (b : bytes) : option (list (N * bytes * bytes)) :=
  match fuel with
  | O => None
  | S f =>
      match b with
      | [] => Some []
      | w :: b' =>
          if 32 <? w then None
          else let dl := N.to_nat ((w + 7) / 8) in
               if Nat.ltb (length b') (dl + 4) then None
               else option_map (cons (w, firstn dl b', firstn 4 (skipn dl b')))
                               (dec_routes f (skipn (dl + 4) b'))
      end
  end.

Definition route_ok (r : route) : Prop :=
  to4 (rt_dest r) <> None /\ length (rt_mask r) = 4%nat /\ to4 (rt_router r) <> None.

Definition route_view (r : route) : N * bytes * bytes :=
  let ones := fst (mask_size (rt_mask r)) in
  (Z.to_N ones,
   firstn (Z.to_nat ((ones + 7) / 8)) (match to4 (rt_dest r) with Some d => d | None => [] end),
   match to4 (rt_router r) with Some x => x | None => [] end).

Local Open Scope nat_scope.
Ltac Zify.zify_post_hook ::= Z.div_mod_to_equations.

Lemma to4_len ip x : to4 ip = Some x -> length x = 4.
Proof. exact (Alloc4Proofs.to4_length ip x). Qed.

Theorem dec_enc_routes : forall rs, Forall route_ok rs ->
  exists b, enc_routes rs = Ok b /\ forall fuel, length b < fuel -> dec_routes fuel b = Some (map route_view rs).
Proof.
  induction rs as [|r rs IH]; intros Hok; cbn [enc_routes map].
  - exists []. split; [reflexivity|]. intros [|f] Hf; [cbn [length] in Hf; lia|reflexivity].
  - destruct (IH (Forall_inv_tail Hok)) as (b2 & E2 & D2). rewrite E2.
    destruct (Forall_inv Hok) as (Hd & Hm & Hr).
    unfold enc_route, route_view.
    destruct (to4 (rt_dest r)) as [d4|] eqn:Ed; [|contradiction].
    destruct (to4 (rt_router r)) as [r4|] eqn:Er; [|contradiction].
    pose proof (mask_size4_le _ Hm) as B. set (ones := fst (mask_size (rt_mask r))) in *.
    assert (Hdl : (0 <= (ones + 7) / 8 <= 4)%Z).
    { lia. }
    destruct ((ones + 7) / 8 <=? 4)%Z eqn:E4; [|apply Z.leb_gt in E4; lia].
    cbn [bind]. eexists. split; [reflexivity|].
    intros fuel Hf. destruct fuel as [|fuel]; [lia|].
    pose proof (to4_len _ _ Ed) as Ld. pose proof (to4_len _ _ Er) as Lr.
    assert (Ew : (Z.to_N (ones mod 256)) = Z.to_N ones) by (rewrite Z.mod_small by lia; reflexivity).
    cbn [app dec_routes]. rewrite Ew.
    destruct (32 <? Z.to_N ones)%N eqn:E32; [apply N.ltb_lt in E32; lia|].
    assert (Edl : N.to_nat ((Z.to_N ones + 7) / 8) = Z.to_nat ((ones + 7) / 8)).
    { rewrite <- Z_N_nat. f_equal. rewrite Z2N.inj_div by lia. rewrite Z2N.inj_add by lia. reflexivity. }
    rewrite Edl. set (dl := Z.to_nat ((ones + 7) / 8)) in *.
    assert (Hdl' : dl <= 4) by (unfold dl; lia).
    assert (Lf : length (firstn dl d4) = dl) by (rewrite firstn_length; lia).
    rewrite <- !app_assoc.
    destruct (Nat.ltb_spec (length (firstn dl d4 ++ r4 ++ b2)) (dl + 4)) as [Hlt|_];
      [rewrite !app_length in Hlt; lia|].
    rewrite firstn_app, Lf, Nat.sub_diag, firstn_O, app_nil_r, firstn_firstn, Nat.min_id.
    replace (skipn dl (firstn dl d4 ++ r4 ++ b2)) with (r4 ++ b2)
      by (rewrite skipn_app, Lf, Nat.sub_diag; rewrite (skipn_all2 (firstn dl d4)) by lia; reflexivity).
    rewrite firstn_app, Lr, Nat.sub_diag, firstn_O, app_nil_r. rewrite (firstn_all2 r4) by lia.
    replace (skipn (dl + 4) (firstn dl d4 ++ r4 ++ b2)) with b2.
    2:{ rewrite skipn_app, Lf. rewrite (skipn_all2 (firstn dl d4)) by lia. cbn [app].
        replace (dl + 4 - dl) with 4 by lia. rewrite skipn_app, Lr, Nat.sub_diag.
        rewrite (skipn_all2 r4) by lia. reflexivity. }
    rewrite D2; [reflexivity|]. cbn [length] in Hf. rewrite !app_length in Hf. lia.
Qed.
