(* ConfigProofs.v — config loading: plugin lists, listen addresses (C18) *)
From Verif Require Import Base BaseProofs Net NetProofs Msg4 FilePlugin Setup Config.
From Coq Require Import Lia.
Open Scope N_scope.

(* ---------- plugins ---------- *)
Definition one_key (it : yv) : Prop := exists name v, it = YMap [(name, v)].
Definition item_plugin (it : yv) : bytes * list bytes :=
  match it with
  | YMap [(name, v)] => (name, fields (to_string (match v with YNull => None | _ => Some v end)) [])
  | _ => ([], [])
  end.

(* a list of one-key maps gives exactly (name, whitespace-separated words of the value), in file order *)
Theorem plugins_exact items : Forall one_key items -> parse_plugins items = COk (map item_plugin items).
Proof.
  induction items as [|it items IH]; intros F; [reflexivity|].
  destruct (Forall_inv F) as (name & v & ->). cbn [parse_plugins map item_plugin]. rewrite IH by exact (Forall_inv_tail F). reflexivity.
Qed.

(* an item that is not a map with exactly one key (a scalar, a list, null, an empty or multi-key map) is an error *)
Theorem plugins_reject_item items : Exists (fun it => ~ one_key it) items -> parse_plugins items = CErr 2.
Proof.
  induction items as [|it items IH]; intros E; [inversion E|]. cbn [parse_plugins].
  destruct it as [| | | | | |m]; try reflexivity. destruct m as [|[name v] [|? ?]]; try reflexivity.
  inversion E as [? ? Hb|? ? Hb]; subst; [exfalso; apply Hb; exists name, v; reflexivity|]. rewrite (IH Hb). reflexivity.
Qed.

(* a missing, empty or non-list plugins section is an error *)
Theorem plugins_reject_section server :
  match yget [112;108;117;103;105;110;115] server with Some (YList (_ :: _)) => False | _ => True end ->
  get_plugins server = CErr 1.
Proof.
  unfold get_plugins. destruct (yget _ server) as [[| | | | |[|it l]|]|]; try reflexivity. intros [].
Qed.

Theorem plugins_section_ok server it items : yget [112;108;117;103;105;110;115] server = Some (YList (it :: items)) ->
  Forall one_key (it :: items) -> get_plugins server = COk (map item_plugin (it :: items)).
Proof. intros H F. unfold get_plugins. rewrite H. apply plugins_exact. exact F. Qed.

(* ---------- net.SplitHostPort on canonical renderings ---------- *)
Lemma has_cons c x a : has c (x :: a) = (x =? c) || has c a.
Proof. unfold has. cbn [index_of]. destruct (x =? c); [reflexivity|]. destruct (index_of c a); reflexivity. Qed.

Lemma has_app c a b : has c (a ++ b) = has c a || has c b.
Proof.
  induction a as [|x a IH]; [reflexivity|]. cbn [app]. rewrite !has_cons, IH. apply Bool.orb_assoc.
Qed.

Lemma last_none c b : has c b = false -> last_index_of c b = None.
Proof.
  induction b as [|x b IH]; intros H; [reflexivity|]. rewrite has_cons in H. apply Bool.orb_false_iff in H. destruct H as [H1 H2].
  cbn [last_index_of]. rewrite (IH H2), H1. reflexivity.
Qed.

Lemma last_index_mid c a b : has c b = false -> last_index_of c (a ++ c :: b) = Some (length a).
Proof.
  intros H. induction a as [|x a IH]; cbn [app last_index_of length].
  - rewrite (last_none c b H), N.eqb_refl. reflexivity.
  - rewrite IH. reflexivity.
Qed.

Lemma index_mid c a b : has c a = false -> index_of c (a ++ c :: b) = Some (length a).
Proof.
  intros H. induction a as [|x a IH]; cbn [app index_of length]; [rewrite N.eqb_refl; reflexivity|].
  rewrite has_cons in H. apply Bool.orb_false_iff in H. destruct H as [H1 H2]. rewrite H1, (IH H2). reflexivity.
Qed.

Lemma firstn_app_exact {A} (a b : list A) : firstn (length a) (a ++ b) = a.
Proof. rewrite firstn_app, Nat.sub_diag, firstn_O, app_nil_r. apply firstn_all. Qed.

Lemma skipn_app_exact {A} (a b : list A) : skipn (length a) (a ++ b) = b.
Proof. rewrite skipn_app, Nat.sub_diag, skipn_all. reflexivity. Qed.

Lemma skipn_len1 {A} (a : list A) x b : skipn (S (length a)) (a ++ x :: b) = b.
Proof. induction a as [|y a IH]; [reflexivity|exact IH]. Qed.
Lemma skipn_len2 {A} (a : list A) x y b : skipn (S (S (length a))) (a ++ x :: y :: b) = b.
Proof. induction a as [|z a IH]; [reflexivity|exact IH]. Qed.
Lemma firstn_len {A} (a b : list A) : firstn (length a) (a ++ b) = a.
Proof. induction a as [|y a IH]; [reflexivity|]. cbn [length app firstn]. rewrite IH. reflexivity. Qed.

(* [H]:P *)
Lemma nshp_bracket_port H P : has LBR H = false -> has RBR H = false ->
  has COLON P = false -> has LBR P = false -> has RBR P = false ->
  net_split_host_port ([LBR] ++ H ++ [RBR; COLON] ++ P) = Some (H, P).
Proof.
  intros H1 H2 P1 P2 P3. unfold net_split_host_port.
  assert (Ei : last_index_of COLON ([LBR] ++ H ++ [RBR; COLON] ++ P) = Some (S (S (length H)))).
  { replace ([LBR] ++ H ++ [RBR; COLON] ++ P) with (([LBR] ++ H ++ [RBR]) ++ COLON :: P) by (rewrite <- !app_assoc; reflexivity).
    rewrite (last_index_mid COLON _ P P1). rewrite !app_length. cbn [length]. f_equal. lia. }
  rewrite Ei. cbn [app]. rewrite N.eqb_refl.
  assert (Ee : index_of RBR (LBR :: H ++ RBR :: COLON :: P) = Some (S (length H))).
  { cbn [index_of]. change (LBR =? RBR) with false. cbv iota. rewrite (index_mid RBR H (COLON :: P) H2). reflexivity. }
  rewrite Ee. cbn [length]. rewrite app_length. cbn [length].
  replace (Nat.eqb (S (S (length H))) (S (length H + S (S (length P))))) with false by (symmetry; apply Nat.eqb_neq; lia).
  rewrite Nat.eqb_refl. change (skipn 1 (LBR :: H ++ RBR :: COLON :: P)) with (H ++ RBR :: COLON :: P).
  replace (S (length H) - 1)%nat with (length H) by lia. rewrite firstn_len.
  change (skipn (S (S (length H))) (LBR :: H ++ RBR :: COLON :: P)) with (skipn (S (length H)) (H ++ RBR :: COLON :: P)).
  change (skipn (S (S (S (length H)))) (LBR :: H ++ RBR :: COLON :: P)) with (skipn (S (S (length H))) (H ++ RBR :: COLON :: P)).
  rewrite skipn_len1, skipn_len2.
  rewrite has_app, H1, !has_cons, P2, P3. change (RBR =? LBR) with false. change (COLON =? LBR) with false.
  change (COLON =? RBR) with false. reflexivity.
Qed.

(* [H] without a port: SplitHostPort reports a missing port *)
Lemma nshp_bracket_noport H : has LBR H = false -> has RBR H = false ->
  net_split_host_port ([LBR] ++ H ++ [RBR]) = None.
Proof.
  intros H1 H2. unfold net_split_host_port. destruct (last_index_of COLON ([LBR] ++ H ++ [RBR])) as [i|]; [|reflexivity].
  cbn [app]. rewrite N.eqb_refl.
  assert (Ee : index_of RBR (LBR :: H ++ [RBR]) = Some (S (length H))).
  { cbn [index_of]. change (LBR =? RBR) with false. cbv iota. rewrite (index_mid RBR H [] H2). reflexivity. }
  rewrite Ee. cbn [length]. rewrite app_length. cbn [length].
  replace (Nat.eqb (S (S (length H))) (S (length H + 1))) with true by (symmetry; apply Nat.eqb_eq; lia). reflexivity.
Qed.

(* A:P and A, for an address without colons and brackets *)
Lemma nshp_plain_port A P : has COLON A = false -> has LBR A = false -> has RBR A = false ->
  has COLON P = false -> has LBR P = false -> has RBR P = false ->
  net_split_host_port (A ++ COLON :: P) = Some (A, P).
Proof.
  intros A1 A2 A3 P1 P2 P3. unfold net_split_host_port. rewrite (last_index_mid COLON A P P1).
  destruct (A ++ COLON :: P) as [|c0 rest] eqn:E; [destruct A; discriminate|].
  assert (Hc0 : (c0 =? LBR) = false).
  { destruct A as [|a A']; cbn [app] in E; injection E as <- _; [reflexivity|]. rewrite has_cons in A2. apply Bool.orb_false_iff in A2. exact (proj1 A2). }
  rewrite Hc0, <- E, firstn_len, A1, has_app, A2, !has_cons, P2, has_app, A3, has_cons, P3, skipn_len1.
  change (COLON =? LBR) with false. change (COLON =? RBR) with false. reflexivity.
Qed.

Lemma nshp_plain_noport A : has COLON A = false -> net_split_host_port A = None.
Proof. intros H. unfold net_split_host_port. rewrite (last_none COLON A H). reflexivity. Qed.

(* ---------- config.splitHostPort: the canonical rendering of (address, zone, port) splits back ---------- *)
Definition render (A Z P : bytes) (bracket : bool) : bytes :=
  let host := A ++ match Z with [] => [] | _ => PCT :: Z end in
  (if bracket then [LBR] ++ host ++ [RBR] else host) ++ match P with [] => [] | _ => COLON :: P end.

Definition clean (s : bytes) : Prop := has LBR s = false /\ has RBR s = false.

(* For every address text A (without '%' and brackets; with colons only when bracketed), zone Z
   (without '%', ':' and brackets) and port text P (without ':' and brackets), each part optional,
   the rendering [A%Z]:P (brackets optional when A has no colon) is split back into exactly (A, Z, P). *)
Theorem listen_roundtrip A Z P bracket :
  clean A -> has PCT A = false -> clean Z -> has PCT Z = false -> has COLON Z = false ->
  clean P -> has COLON P = false -> (bracket = false -> has COLON A = false) ->
  split_host_port (render A Z P bracket) = Some (A, Z, P).
Proof.
  intros (A1 & A2) A3 (Z1 & Z2) Z3 Z4 (P1 & P2) P3 Hb.
  set (host := A ++ match Z with [] => [] | _ => PCT :: Z end).
  assert (Hh1 : has LBR host = false /\ has RBR host = false /\ (bracket = false -> has COLON host = false)).
  { unfold host. destruct Z as [|z Z']; [rewrite app_nil_r; auto|].
    rewrite !has_app, A1, A2, !has_cons. rewrite !has_cons in Z1, Z2, Z4.
    apply Bool.orb_false_iff in Z1, Z2, Z4. destruct Z1 as [Z1a Z1b], Z2 as [Z2a Z2b], Z4 as [Z4a Z4b].
    rewrite Z1a, Z1b, Z2a, Z2b, Z4a, Z4b. change (PCT =? LBR) with false. change (PCT =? RBR) with false. change (PCT =? COLON) with false.
    cbn [orb]. repeat split; auto. intros Hbr. rewrite (Hb Hbr). reflexivity. }
  destruct Hh1 as (Hl & Hr & Hc).
  assert (Hzone : match last_index_of PCT host with
                  | Some i => Some (firstn i host, skipn (S i) host, P)
                  | None => Some (host, [], P)
                  end = Some (A, Z, P)).
  { unfold host. destruct Z as [|z Z']; [rewrite app_nil_r, (last_none PCT A A3); reflexivity|].
    rewrite (last_index_mid PCT A (z :: Z') Z3), firstn_len, skipn_len1. reflexivity. }
  assert (Hsplit : match net_split_host_port (render A Z P bracket) with
                   | Some (h, p) => Some (h, p)
                   | None => match net_split_host_port (render A Z P bracket ++ [COLON; 48]) with
                             | Some (h, _) => Some (h, [])
                             | None => None
                             end
                   end = Some (host, P)).
  { unfold render. fold host. destruct bracket.
    - destruct P as [|p P'].
      + rewrite app_nil_r, (nshp_bracket_noport host Hl Hr).
        replace (([LBR] ++ host ++ [RBR]) ++ [COLON; 48]) with ([LBR] ++ host ++ [RBR; COLON] ++ [48]) by (rewrite <- !app_assoc; reflexivity).
        rewrite (nshp_bracket_port host [48] Hl Hr); reflexivity.
      + replace (([LBR] ++ host ++ [RBR]) ++ COLON :: p :: P') with ([LBR] ++ host ++ [RBR; COLON] ++ p :: P') by (rewrite <- !app_assoc; reflexivity).
        rewrite (nshp_bracket_port host (p :: P') Hl Hr P3 P1 P2). reflexivity.
    - specialize (Hc eq_refl). destruct P as [|p P'].
      + rewrite app_nil_r, (nshp_plain_noport host Hc).
        change (host ++ [COLON; 48]) with (host ++ COLON :: [48]). rewrite (nshp_plain_port host [48] Hc Hl Hr); reflexivity.
      + rewrite (nshp_plain_port host (p :: P') Hc Hl Hr P3 P1 P2). reflexivity. }
  unfold split_host_port. rewrite Hsplit. exact Hzone.
Qed.

(* ---------- getListenAddress / parseListen ---------- *)
Section Listen.
Variable O : oracles.
Variable ifaces : list (bytes * bool * bool).

(* defaults: the protocol's wildcard address and port 67 / 547 are filled in *)
Theorem listen_defaults v6 addr zone : split_host_port addr = Some ([], zone, []) ->
  get_listen_address O v6 addr =
  COk {| ua_ip := if v6 then zeros 16 else v4in6_prefix ++ [0;0;0;0]; ua_port := if v6 then 547%Z else 67%Z; ua_zone := zone |}.
Proof. intros H. unfold get_listen_address. rewrite H. destruct v6; reflexivity. Qed.

(* an unparseable address, an address of the wrong family, a port that is not an integer: errors *)
Theorem listen_family v6 addr ipstr zone portstr : split_host_port addr = Some (ipstr, zone, portstr) -> ipstr <> [] ->
  (o_parse_ip O ipstr = None -> get_listen_address O v6 addr = CErr 5) /\
  (forall ip, o_parse_ip O ipstr = Some ip -> (match to4 ip with Some _ => negb v6 | None => v6 end) = false ->
     get_listen_address O v6 addr = CErr 5) /\
  (forall ip, o_parse_ip O ipstr = Some ip -> (match to4 ip with Some _ => negb v6 | None => v6 end) = true ->
     get_listen_address O v6 addr =
     match portstr with
     | [] => COk {| ua_ip := ip; ua_port := if v6 then 547%Z else 67%Z; ua_zone := zone |}
     | _ => match o_atoi O portstr with
            | Some p => COk {| ua_ip := ip; ua_port := p; ua_zone := zone |}
            | None => CErr 6
            end
     end).
Proof.
  intros H Hne. unfold get_listen_address. rewrite H. destruct ipstr as [|c s]; [contradiction|]. split; [|split].
  - intros ->. reflexivity.
  - intros ip -> Hf. destruct (to4 ip), v6; cbn in *; try discriminate; reflexivity.
  - intros ip -> Hf. destruct (to4 ip), v6; cbn in *; try discriminate; reflexivity.
Qed.

Theorem listen_syntax_error v6 addr : split_host_port addr = None -> get_listen_address O v6 addr = CErr 4.
Proof. intros H. unfold get_listen_address. rewrite H. reflexivity. Qed.

(* `listen` together with `interface` is rejected *)
Theorem listen_and_interface_exclusive v6 server l i :
  yget [108;105;115;116;101;110] server = Some l -> yget [105;110;116;101;114;102;97;99;101] server = Some i ->
  parse_listen O ifaces v6 server = CErr 3.
Proof. intros H1 H2. unfold parse_listen. rewrite H1, H2. reflexivity. Qed.

(* a link-local (or interface-local) multicast address without a zone becomes one listener per
   interface with the multicast (and, for IPv4, broadcast) flag; none is an error *)
Theorem listen_multicast_expand a :
  expand_mc ifaces a =
  let need_bc := match to4 (ua_ip a) with Some _ => true | None => false end in
  match filter (fun i => let '(_, mc, bc) := i in mc && (negb need_bc || bc)) ifaces with
  | [] => CErr 7
  | sel => COk (map (fun i => {| ua_ip := ua_ip a; ua_port := ua_port a; ua_zone := fst (fst i) |}) sel)
  end.
Proof. unfold expand_mc. cbv zeta. destruct (filter _ ifaces); reflexivity. Qed.

Theorem listen_absent_defaults v6 server :
  yget [108;105;115;116;101;110] server = None -> yget [105;110;116;101;114;102;97;99;101] server = None ->
  parse_listen O ifaces v6 server = default_listen ifaces v6.
Proof. intros H1 H2. unfold parse_listen. rewrite H1, H2. reflexivity. Qed.

(* Load: at least one protocol section *)
Theorem load_needs_a_section root : yget [115;101;114;118;101;114;54] (Some root) = None -> yget [115;101;114;118;101;114;52] (Some root) = None ->
  load_config O ifaces root = CErr 8.
Proof. intros H6 H4. unfold load_config, parse_proto. rewrite H6, H4. reflexivity. Qed.
End Listen.

(* The model of config.go has no panic outcome: the two panic("BUG: Unknown protocol version")
   sites are guarded by protoVersionCheck and the protocol is only ever 4 or 6 (a bool here);
   every function of the model is total and returns COk or CErr. *)
Theorem config_model_total O ifs root : exists r, load_config O ifs root = r /\ match r with COk _ | CErr _ => True end.
Proof. eexists. split; [reflexivity|]. destruct (load_config O ifs root); exact I. Qed.
