(* Server6.v — model of server/handle.go HandleMsg6 on parsed packets, with the handler chain
   as a parameter: inner-message extraction, the type switch, NewAdvertiseFromSolicit /
   NewReplyFromMessage (client-id required, Rapid Commit echoed), the dispatch loop, the
   re-encapsulation by NewRelayReplFromRelayForw, link-local pinning. *)
From Verif Require Import Base Net Msg6 Chain Server4.
Open Scope N_scope.

Definition handler6 := handler pkt6 pkt6.
Notation run_chain6 := (@run_chain pkt6 pkt6).

(* the basic response for an inner message: None = "not supported" / error, nothing is sent *)
Definition stub6 (m : imsg) : option imsg :=
  let t := i_type m in
  let reply (extra : opts6) :=
    match o6_get OPT_CLIENTID (i_opts m) with
    | None => None
    | Some cid => Some {| i_type := MT_REPLY; i_xid := i_xid m; i_opts := (OPT_CLIENTID, cid) :: extra |}
    end in
  if t =? MT_SOLICIT then
    match o6_get OPT_RAPID (i_opts m) with
    | Some _ => reply [(OPT_RAPID, [])]
    | None =>
        match o6_get OPT_CLIENTID (i_opts m) with
        | None => None
        | Some cid => Some {| i_type := MT_ADVERTISE; i_xid := i_xid m; i_opts := [(OPT_CLIENTID, cid)] |}
        end
    end
  else if (t =? MT_REQUEST) || (t =? MT_CONFIRM) || (t =? MT_RENEW) || (t =? MT_REBIND) ||
          (t =? MT_RELEASE) || (t =? MT_INFOREQ) then reply []
  else None.

(* NewRelayReplFromRelayForw(relay, msg): one Relay-Reply layer per Relay-Forward layer, same
   link-address and peer-address, the layer's first Interface-ID and Remote-ID options copied,
   hop counts recomputed from the inside out *)
Definition reply_layer_opts (l : layer) : opts6 :=
  (match o6_get OPT_IFACEID (l_opts l) with Some v => [(OPT_IFACEID, v)] | None => [] end) ++
  (match o6_get OPT_REMOTEID (l_opts l) with Some v => [(OPT_REMOTEID, v)] | None => [] end).

Fixpoint relay_reply_layers (ls : list layer) : list layer :=
  match ls with
  | [] => []
  | l :: ls' => {| l_type := MT_RELAYREPL; l_hop := N.of_nat (length ls'); l_link := l_link l;
                   l_peer := l_peer l; l_opts := reply_layer_opts l |} :: relay_reply_layers ls'
  end.

Inductive out6 :=
| Sent6 (payload : pkt6) (dst_ip : bytes) (dst_port : Z) (ifidx : option Z)
| NoSend6 (why : N).   (* 1 parse error, 2 no inner message, 3 unsupported type / no client id, 4 nil response, 5 outer layer not a Relay-Forward *)

Definition handle6 (hs : list handler6) (lif : Z) (oob : option Z) (peer_ip : bytes) (peer_port : Z) (parsed : option pkt6)
  : out6 * list (nat * option pkt6) :=
  match parsed with
  | None => (NoSend6 1, [])
  | Some d =>
      match p_inner d with
      | None => (NoSend6 2, [])
      | Some msg =>
          match stub6 msg with
          | None => (NoSend6 3, [])
          | Some r0 =>
              let '(resp, log) := run_chain6 hs 0 d (Some {| p_layers := []; p_inner := Some r0 |}) in
              match resp with
              | None => (NoSend6 4, log)
              | Some rsp =>
                  let woob := if is_link_local peer_ip then pick_if lif oob else None in
                  if is_relay d then
                    match p_layers rsp, p_inner rsp with
                    | [], Some rm =>
                        (* the response is a plain message: re-encapsulate *)
                        match p_layers d with
                        | l0 :: _ =>
                            if l_type l0 =? MT_RELAYFORW
                            then (Sent6 {| p_layers := relay_reply_layers (p_layers d); p_inner := Some rm |} peer_ip peer_port woob, log)
                            else (NoSend6 5, log)
                        | [] => (NoSend6 5, log)
                        end
                    | _, _ => (Sent6 rsp peer_ip peer_port woob, log)    (* a relay message as response is sent as is *)
                    end
                  else (Sent6 rsp peer_ip peer_port woob, log)
              end
          end
      end
  end.
