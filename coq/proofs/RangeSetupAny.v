(* RangeSetupAny.v — start-up of the range plugin on ANY lease database (one written under another
   configured range, edited by hand, ...): either set-up fails, or every stored lease that will be
   served lies inside the configured range and no two clients share an address.  (An operator who
   moves the range and restarts on the old database gets an error, not out-of-range leases.) *)
From Coq Require Import List Arith NArith Bool Lia.
From Verif Require Import Base BaseProofs Net NetProofs Bitset Alloc Msg4 RangePlugin BitsetProofs Alloc4Proofs RangeProofs.
Import ListNotations.
Open Scope N_scope.

Lemma remark_converse l : forall a a', ainv4 a -> remark a l = Ok a' ->
  ainv4 a' /\ a4_start a' = a4_start a /\ a4_end a' = a4_end a /\
  exists idxs, map (fun kr => to4_or_nil (rc_ip (snd kr))) l = map (fun i => be_bytes 4 (a4_start a + i)) idxs /\
               NoDup idxs /\ (forall i, In i idxs -> i < n4 a /\ ~ In i (bits (a4_bm a))) /\
               (forall i, In i (bits (a4_bm a')) <-> In i idxs \/ In i (bits (a4_bm a))).
Proof.
  induction l as [|[k r] l IH]; intros a a' Ha H.
  - cbn [remark] in H. injection H as <-. split; [exact Ha|]. split; [reflexivity|]. split; [reflexivity|].
    exists []. split; [reflexivity|]. split; [constructor|]. split; [intros i []|]. intros i. cbn [In]. tauto.
  - cbn [remark snd] in H.
    pose proof (allocate4_spec a (rc_ip r) Ha) as A.
    destruct (allocate4 a (rc_ip r)) as [a1 [ip|er|]]; [|discriminate|discriminate].
    destruct A as (x & -> & Hx & Hxf & Eb & Ha1 & Es & Ee & _).
    destruct (bytes_eqb (be_bytes 4 (a4_start a + x)) (to4_or_nil (rc_ip r))) eqn:Eq; [|discriminate].
    apply bytes_eqb_eq in Eq.
    destruct (IH a1 a' Ha1 H) as (Ha' & Es' & Ee' & idxs & Em & Nd & Hi & Hb).
    split; [exact Ha'|]. split; [congruence|]. split; [congruence|].
    exists (x :: idxs). split; [|split; [|split]].
    + cbn [map snd]. rewrite <- Eq. f_equal. rewrite Em, Es. reflexivity.
    + constructor; [|exact Nd]. intros Hin. destruct (Hi x Hin) as [_ Hnf]. apply Hnf. rewrite Eb. left. reflexivity.
    + intros i [<-|Hin]; [split; assumption|].
      destruct (Hi i Hin) as [Hl Hnf]. unfold n4 in *. rewrite Es, Ee in Hl. split; [exact Hl|].
      intros Hc. apply Hnf. rewrite Eb. right. exact Hc.
    + intros i. rewrite Hb, Eb. cbn [In]. tauto.
Qed.

Theorem setup_any_db_in_range s e lease db st : wf_bytes s -> wf_bytes e ->
  range_setup s e lease db = Ok st ->
  exists s4 e4, to4 s = Some s4 /\ to4 e = Some e4 /\ be_u32_of s4 < be_u32_of e4 /\
    exists idxs, map (fun kr => to4_or_nil (rc_ip (snd kr))) (rs_recs st) = map (fun i => be_bytes 4 (be_u32_of s4 + i)) idxs /\
                 NoDup idxs /\ (forall i, In i idxs -> be_u32_of s4 + i <= be_u32_of e4) /\
                 (forall i, In i (bits (a4_bm (rs_alloc st))) <-> In i idxs).
Proof.
  intros Ws We H. unfold range_setup, range_setup_ord in H.
  destruct (to4 s) as [s4|] eqn:Es; [|discriminate]. destruct (to4 e) as [e4|] eqn:Ee; [|discriminate].
  destruct (be_u32_of e4 <=? be_u32_of s4) eqn:Hlt; [discriminate|]. apply N.leb_gt in Hlt.
  destruct (new4 s e) as [a0|er|] eqn:Hnew; try discriminate.
  destruct (load_records db []) as [recs|] eqn:Hload; [|discriminate].
  destruct (remark a0 recs) as [a'|er|] eqn:Hrm; try discriminate.
  injection H as <-. cbn [rs_recs rs_alloc].
  pose proof (new4_inv s e a0 Ws We Hnew) as Ha0.
  assert (Hs0 : a4_start a0 = be_u32_of s4 /\ a4_end a0 = be_u32_of e4 /\ bits (a4_bm a0) = []).
  { unfold new4 in Hnew. rewrite Es, Ee in Hnew. destruct (be_u32_of e4 <? be_u32_of s4); [discriminate|].
    injection Hnew as <-. repeat split. }
  destruct Hs0 as (Hs0 & He0 & Hb0).
  destruct (remark_converse recs a0 a' Ha0 Hrm) as (_ & _ & _ & idxs & Em & Nd & Hi & Hb).
  exists s4, e4. split; [reflexivity|]. split; [reflexivity|]. split; [exact Hlt|].
  exists idxs. rewrite Hs0 in Em. split; [exact Em|]. split; [exact Nd|]. split.
  - intros i Hin. destruct (Hi i Hin) as [Hl _]. unfold n4 in Hl. rewrite Hs0, He0 in Hl. lia.
  - intros i. rewrite Hb, Hb0. cbn [In]. tauto.
Qed.

(* non-vacuity: a database written under 10.0.0.1-10.0.0.9 loads under that range, and is refused
   under 10.0.0.5-10.0.0.9 because client 02:00:00:00:00:01 holds 10.0.0.1 *)
Definition ex_db : list row :=
  [ {| r_mac := [48;50;58;48;48;58;48;48;58;48;48;58;48;48;58;48;49]; r_ip := [10;0;0;1]; r_exp := 1000; r_host := [] |};
    {| r_mac := [48;50;58;48;48;58;48;48;58;48;48;58;48;48;58;48;50]; r_ip := [10;0;0;7]; r_exp := 1000; r_host := [] |} ].
Example setup_other_range :
  (match range_setup [10;0;0;1] [10;0;0;9] 3600 ex_db with Ok st => length (rs_recs st) = 2%nat | _ => False end) /\
  (match range_setup [10;0;0;5] [10;0;0;9] 3600 ex_db with Err _ => True | _ => False end).
Proof. vm_compute. split; [reflexivity|exact I]. Qed.
