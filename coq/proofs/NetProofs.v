(* NetProofs.v — the byte-wise masked comparison of net.IPNet.Contains is a numeric
   range test when the mask is a CIDR mask. *)
From Verif Require Import Base BaseProofs Net.
From Coq Require Import Lia ZifyN ZifyNat ZifyBool.
Open Scope N_scope.

Fixpoint nrange (n : nat) : list N :=
  match n with O => [] | S n' => nrange n' ++ [N.of_nat n'] end.

Lemma nrange_In n x : x < N.of_nat n -> In x (nrange n).
Proof.
  induction n as [|n IH]; intros H; [lia|]. cbn [nrange]. apply in_or_app.
  destruct (N.eq_dec x (N.of_nat n)) as [->|]; [right; left; reflexivity|left; apply IH; lia].
Qed.

Lemma land_mask_byte_all :
  forallb (fun k => forallb (fun x => N.land x (mask_byte k) =? (x / 2 ^ (8 - k)) * 2 ^ (8 - k)) (nrange 256)) (nrange 9) = true.
Proof. vm_compute. reflexivity. Qed.

Lemma land_mask_byte k x : k <= 8 -> x < 256 ->
  N.land x (mask_byte k) = (x / 2 ^ (8 - k)) * 2 ^ (8 - k).
Proof.
  intros Hk Hx. pose proof land_mask_byte_all as H.
  rewrite forallb_forall in H. specialize (H k (nrange_In 9 k ltac:(lia))).
  rewrite forallb_forall in H. specialize (H x (nrange_In 256 x ltac:(lia))).
  apply N.eqb_eq in H. exact H.
Qed.

Lemma land_255 x : x < 256 -> N.land x 255 = x.
Proof.
  intros Hx. pose proof (land_mask_byte 8 x ltac:(lia) Hx) as H.
  change (mask_byte 8) with 255 in H. rewrite H. change (2 ^ (8 - 8)) with 1. rewrite N.div_1_r. lia.
Qed.

Lemma pow256 n : 256 ^ N.of_nat n = 2 ^ (8 * N.of_nat n).
Proof. change 256 with (2 ^ 8). rewrite <- N.pow_mul_r. reflexivity. Qed.

Lemma pow_pos2 s : 0 < 2 ^ s.
Proof. apply N.neq_0_lt_0, N.pow_nonzero. discriminate. Qed.

(* (x * P + r) / D  where P = D * E and r < P *)
Lemma div_split x r D E : 0 < D -> (x * (D * E) + r) / D = x * E + r / D.
Proof.
  intros HD. replace (x * (D * E) + r) with (x * E * D + r) by lia.
  rewrite N.div_add_l by lia. reflexivity.
Qed.

Lemma and_cidr_eq n : forall L a b,
  length a = n -> length b = n -> wf_bytes a -> wf_bytes b -> L <= 8 * N.of_nat n ->
  (and_bytes a (cidr_bytes n L) = and_bytes b (cidr_bytes n L) <->
   be_val a / 2 ^ (8 * N.of_nat n - L) = be_val b / 2 ^ (8 * N.of_nat n - L)).
Proof.
  induction n as [|n IH]; intros L a b La Lb Wa Wb HL.
  - destruct a; [|discriminate]. destruct b; [|discriminate]. cbn. tauto.
  - destruct a as [|x a]; [discriminate|]. destruct b as [|y b]; [discriminate|].
    injection La as La. injection Lb as Lb.
    pose proof (Forall_inv Wa) as Hx. pose proof (Forall_inv_tail Wa) as Wa'.
    pose proof (Forall_inv Wb) as Hy. pose proof (Forall_inv_tail Wb) as Wb'.
    cbn beta in Hx, Hy. fold (wf_bytes a) in Wa'. fold (wf_bytes b) in Wb'.
    subst n. rewrite !be_val_cons, Lb.
    pose proof (be_val_bound a Wa') as Ba. pose proof (be_val_bound b Wb') as Bb.
    rewrite Lb in Bb. rewrite !pow256 in *.
    set (m := N.of_nat (length a)) in *.
    replace (N.of_nat (S (length a))) with (m + 1) in * by lia.
    cbn [cidr_bytes and_bytes].
    destruct (8 <=? L) eqn:C.
    + (* a full mask byte *)
      cbn [and_bytes]. rewrite !land_255 by assumption.
      specialize (IH (L - 8) a b eq_refl Lb Wa' Wb' ltac:(lia)). fold m in IH.
      replace (8 * (m + 1) - L) with (8 * m - (L - 8)) by lia.
      set (D := 2 ^ (8 * m - (L - 8))) in *.
      assert (HP : 2 ^ (8 * m) = D * 2 ^ (L - 8)).
      { unfold D. rewrite <- N.pow_add_r. f_equal. lia. }
      pose proof (pow_pos2 (8 * m - (L - 8))) as HD. fold D in HD.
      pose proof (pow_pos2 (L - 8)) as HE. set (E := 2 ^ (L - 8)) in *.
      rewrite HP in *. clearbody D E. rewrite !div_split by assumption.
      assert (Qa : be_val a / D < E) by (apply N.div_lt_upper_bound; lia).
      assert (Qb : be_val b / D < E) by (apply N.div_lt_upper_bound; lia).
      set (qa := be_val a / D) in *. set (qb := be_val b / D) in *. clearbody qa qb.
      split.
      * intros H. injection H as -> H. apply IH in H. rewrite H. reflexivity.
      * intros H.
        assert (x = y).
        { destruct (N.lt_trichotomy x y) as [Hlt|[->|Hlt]]; [exfalso|reflexivity|exfalso].
          - assert ((x + 1) * E <= y * E) by (apply N.mul_le_mono_r; lia). lia.
          - assert ((y + 1) * E <= x * E) by (apply N.mul_le_mono_r; lia). lia. }
        subst y. f_equal. apply IH. lia.
    + (* the partial byte; everything after it is masked out *)
      assert (HL8 : L < 8) by lia.
      specialize (IH 0 a b eq_refl Lb Wa' Wb' ltac:(lia)). fold m in IH. rewrite N.sub_0_r in IH.
      assert (Z1 : be_val a / 2 ^ (8 * m) = 0) by (apply N.div_small; assumption).
      assert (Z2 : be_val b / 2 ^ (8 * m) = 0) by (apply N.div_small; assumption).
      rewrite Z1, Z2 in IH.
      rewrite !land_mask_byte by (try assumption; lia).
      replace (8 * (m + 1) - L) with (8 * m + (8 - L)) by lia.
      rewrite N.pow_add_r. pose proof (pow_pos2 (8 * m)) as HP. pose proof (pow_pos2 (8 - L)) as HE.
      set (P := 2 ^ (8 * m)) in *. set (E := 2 ^ (8 - L)) in *. clearbody P E.
      rewrite <- !N.div_div by lia.
      rewrite !N.div_add_l by lia. rewrite Z1, Z2, !N.add_0_r.
      split.
      * intros H. injection H as H _. apply N.mul_cancel_r in H; [exact H|lia].
      * intros H. rewrite H. f_equal. apply IH. reflexivity.
Qed.

Lemma bytes_eqb_eq a b : bytes_eqb a b = true <-> a = b.
Proof.
  revert b; induction a as [|x a IH]; intros [|y b]; cbn; split; intros H; try discriminate; try reflexivity.
  - apply andb_true_iff in H. destruct H as [H1 H2]. apply N.eqb_eq in H1. apply IH in H2. congruence.
  - injection H as -> ->. rewrite N.eqb_refl. apply IH. reflexivity.
Qed.

(* quotient by a block size, for an aligned base: a range test *)
Lemma div_eq_range (base x S : N) : 0 < S -> base mod S = 0 ->
  (x / S = base / S <-> base <= x < base + S).
Proof.
  intros HS Hal.
  pose proof (N.div_mod base S ltac:(lia)) as Eb. rewrite Hal, N.add_0_r in Eb.
  pose proof (N.div_mod x S ltac:(lia)) as Ex. pose proof (N.mod_lt x S ltac:(lia)) as Lx.
  split.
  - intros H. rewrite H in Ex. lia.
  - intros [H1 H2].
    set (q := base / S) in *. set (p := x / S) in *.
    destruct (N.lt_trichotomy p q) as [Hlt|[E|Hlt]]; [exfalso|exact E|exfalso].
    + assert (S * (p + 1) <= S * q) by (apply N.mul_le_mono_l; lia). lia.
    + assert (S * (q + 1) <= S * p) by (apply N.mul_le_mono_l; lia). lia.
Qed.
