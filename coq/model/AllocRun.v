(* AllocRun.v — histories for the allocator correspondence check (C04–C07) *)
From Verif Require Import Base Net Bitset Ipcalc IpcalcRun Alloc.
Open Scope N_scope.

Inductive aop :=
| OAlloc (hip hmask : bytes)
| OFree (pip pmask : bytes).

(* observed outcome of one op: allocation result (ip, mask) or free result *)
Inductive aout :=
| RAlloc (r : res (bytes * bytes))
| RFree (r : res unit).

Definition pair_eqb (x y : bytes * bytes) := bytes_eqb (fst x) (fst y) && bytes_eqb (snd x) (snd y).
Definition unit_eqb (x y : unit) := true.

Definition aout_eqb (x y : aout) : bool :=
  match x, y with
  | RAlloc a, RAlloc b => res_eqb pair_eqb a b
  | RFree a, RFree b => res_eqb unit_eqb a b
  | _, _ => false
  end.

Definition mask32 : bytes := [255;255;255;255].

Definition step4 (a : a4) (o : aop) : a4 * aout :=
  match o with
  | OAlloc hip _ => let '(a', r) := allocate4 a hip in
                    (a', RAlloc (match r with Ok ip => Ok (ip, mask32) | Err e => Err e | Panic => Panic end))
  | OFree pip _ => let '(a', r) := free4 a pip in (a', RFree r)
  end.

Definition step6 (a : a6) (o : aop) : a6 * aout :=
  match o with
  | OAlloc hip hmask => let '(a', r) := allocate6 a hip hmask in (a', RAlloc r)
  | OFree pip pmask => let '(a', r) := free6 a pip pmask in (a', RFree r)
  end.

(* run a history, stop at the first panic (the Go harness stops there too) *)
Fixpoint run {S} (step : S -> aop -> S * aout) (s : S) (ops : list aop) : list aout :=
  match ops with
  | [] => []
  | o :: ops' => let '(s', r) := step s o in
                 r :: match r with
                      | RAlloc Panic | RFree Panic => []
                      | _ => run step s' ops'
                      end
  end.

Fixpoint outs_eqb (x y : list aout) : bool :=
  match x, y with
  | [], [] => true
  | a :: x', b :: y' => aout_eqb a b && outs_eqb x' y'
  | _, _ => false
  end.

Inductive acase :=
| CA4 (s e : bytes) (ops : list aop) (ctor_ok : bool) (outs : list aout)
| CA6 (pip pmask : bytes) (size : Z) (ops : list aop) (ctor_ok : bool) (outs : list aout).

Definition check_acase (c : acase) : bool :=
  match c with
  | CA4 s e ops ok outs =>
      match new4 s e with
      | Ok a => ok && outs_eqb (run step4 a ops) outs
      | _ => negb ok
      end
  | CA6 pip pmask size ops ok outs =>
      match new6 pip pmask size with
      | Ok a => ok && outs_eqb (run step6 a ops) outs
      | _ => negb ok
      end
  end.

Definition mismatches (l : list acase) : list nat := mismatch_idx check_acase l 0.
