(* FrameWf.v — the serialisation of a message whose fields are byte strings is a byte string, so the
   frame theorems (FrameProofs.v) need no hypothesis about the serialised form. *)
From Coq Require Import List Arith NArith Bool Lia ZifyN ZifyNat ZifyBool Permutation.
From Verif Require Import Base BaseProofs Net Msg4 Opt4Codec Msg4Codec Frame Opt4Proofs Msg4CodecProofs FrameProofs.
Import ListNotations.
Open Scope N_scope.
Ltac Zify.zify_post_hook ::= Z.div_mod_to_equations.

Record bytes_msg (m : msg4) : Prop := {
  bm_ci : wf_bytes (m_ciaddr m); bm_yi : wf_bytes (m_yiaddr m); bm_si : wf_bytes (m_siaddr m);
  bm_gi : wf_bytes (m_giaddr m); bm_ch : wf_bytes (m_chaddr m); bm_sn : wf_bytes (m_sname m);
  bm_fl : wf_bytes (m_file m);
  bm_opts : Forall (fun kv => fst kv < 256 /\ wf_bytes (snd kv)) (m_opts m) }.

Lemma wf_app a b : wf_bytes a -> wf_bytes b -> wf_bytes (a ++ b).
Proof. unfold wf_bytes. intros. apply Forall_app. split; assumption. Qed.

Lemma wf_firstn n (l : bytes) : wf_bytes l -> wf_bytes (firstn n l).
Proof.
  unfold wf_bytes. revert l. induction n as [|n IH]; intros l H; [constructor|].
  destruct l as [|x l]; [constructor|]. cbn [firstn]. inversion H; subst. constructor; [assumption|apply IH; assumption].
Qed.

Lemma wf_repeat0 n : wf_bytes (repeat 0 n).
Proof. unfold wf_bytes. induction n; cbn; constructor; [lia|assumption]. Qed.

Lemma wf_pad_to n b : wf_bytes b -> wf_bytes (pad_to n b).
Proof. intros H. unfold pad_to. apply wf_app; [apply wf_firstn; exact H|apply wf_repeat0]. Qed.

Lemma wf_be_bytes n x : wf_bytes (be_bytes n x).
Proof.
  unfold wf_bytes. revert x. induction n as [|n IH]; intros x; cbn [be_bytes]; [constructor|].
  apply Forall_app. split; [apply IH|]. constructor; [lia|constructor].
Qed.

Lemma wf_enc_ip4 ip x : wf_bytes ip -> enc_ip4 ip = Ok x -> wf_bytes x.
Proof.
  unfold enc_ip4. intros W. destruct ip as [|b ip'].
  - intros H. apply Ok_inj in H. subst x. unfold wf_bytes. repeat constructor; lia.
  - destruct (to4 (b :: ip')) as [y|] eqn:E; [|discriminate]. intros H. apply Ok_inj in H. subst y.
    exact (to4_wf _ _ W E).
Qed.

Lemma wf_chunks fuel c v : c < 256 -> wf_bytes v -> wf_bytes (chunks fuel c v).
Proof.
  intros Hc. revert v. induction fuel as [|f IH]; intros v Hv; cbn [chunks]; [constructor|].
  destruct v as [|x v']; [constructor|].
  set (n := Nat.min (length (x :: v')) 255).
  unfold wf_bytes. constructor; [exact Hc|]. constructor; [unfold n; lia|].
  apply Forall_app. split; [apply wf_firstn; exact Hv|apply IH, wf_skipn; exact Hv].
Qed.

Lemma wf_enc_opt kv : fst kv < 256 -> wf_bytes (snd kv) -> wf_bytes (enc_opt kv).
Proof.
  destruct kv as [c v]. cbn [fst snd]. intros Hc Hv. unfold enc_opt.
  destruct ((c =? 0) || (c =? 255)); [constructor|].
  destruct v as [|x v']; [unfold wf_bytes; repeat constructor; lia|].
  apply wf_chunks; assumption.
Qed.

Lemma wf_enc_list l : Forall (fun kv => fst kv < 256 /\ wf_bytes (snd kv)) l -> wf_bytes (enc_list l).
Proof.
  unfold enc_list. induction 1 as [|kv l [Hc Hv] _ IH]; cbn [flat_map]; [constructor|].
  apply wf_app; [apply wf_enc_opt; assumption|exact IH].
Qed.

Lemma wf_enc_opts o : Forall (fun kv => fst kv < 256 /\ wf_bytes (snd kv)) o -> wf_bytes (enc_opts o).
Proof.
  intros H. unfold enc_opts. apply wf_enc_list.
  eapply Permutation_Forall; [|exact H]. apply Permutation_sym, order_perm.
Qed.

Theorem enc_body_wf m p : bytes_msg m -> enc_body m = Ok p -> wf_bytes p.
Proof.
  intros [Wci Wyi Wsi Wgi Wch Wsn Wfl Wo]. unfold enc_body.
  destruct (enc_ip4 (m_ciaddr m)) as [ci|e|] eqn:Eci; try discriminate.
  destruct (enc_ip4 (m_yiaddr m)) as [yi|e|] eqn:Eyi; try discriminate.
  destruct (enc_ip4 (m_siaddr m)) as [si|e|] eqn:Esi; try discriminate.
  destruct (enc_ip4 (m_giaddr m)) as [gi|e|] eqn:Egi; try discriminate.
  cbn [bind]. intros H. apply Ok_inj in H. subst p.
  repeat (match goal with |- wf_bytes (_ ++ _) => apply wf_app end);
    try apply wf_be_bytes; try (apply wf_pad_to; try apply wf_firstn; assumption);
    try exact (wf_enc_ip4 _ _ Wci Eci); try exact (wf_enc_ip4 _ _ Wyi Eyi); try exact (wf_enc_ip4 _ _ Wsi Esi);
    try exact (wf_enc_ip4 _ _ Wgi Egi); try (apply wf_enc_opts; assumption).
  - unfold wf_bytes. repeat constructor; lia.
  - unfold wf_bytes, cookie. repeat constructor; lia.
  - unfold wf_bytes. repeat constructor; lia.
Qed.

(* the frame theorem with hypotheses on the reply only *)
Theorem frame_view_of_reply src_mac m f :
  bytes_msg m -> enc_frame src_mac m = Ok f ->
  exists p si yi, enc_body m = Ok p /\ to4 (m_siaddr m) = Some si /\ to4 (m_yiaddr m) = Some yi /\
                  length f = (42 + length p)%nat /\
                  dec_frame f = Some (expected_view src_mac m si yi p).
Proof.
  intros B E. destruct (enc_body m) as [p|e|] eqn:Eb.
  - destruct (frame_view src_mac m p f Eb (enc_body_wf m p B Eb) (bm_si m B) (bm_yi m B) E) as (si & yi & H).
    exists p, si, yi. split; [reflexivity|exact H].
  - unfold enc_frame in E. rewrite Eb in E. discriminate.
  - unfold enc_frame in E. rewrite Eb in E. discriminate.
Qed.

(* one statement: header fields, checksums, and the payload read back as the reply *)
Theorem l2_reply_reaches_client src_mac m f :
  bytes_msg m -> wf_msg m -> enc_frame src_mac m = Ok f ->
  exists v, dec_frame f = Some v /\
            v_dst_mac v = m_chaddr m /\ v_etype v = 2048 /\ v_proto v = 17 /\
            to4 (m_siaddr m) = Some (v_src_ip v) /\ to4 (m_yiaddr m) = Some (v_dst_ip v) /\
            v_sport v = 67 /\ v_dport v = 68 /\ v_ipck_ok v = true /\ v_udpck_ok v = true /\
            N.of_nat (length f) = 14 + v_totlen v /\ v_totlen v = 20 + v_ulen v /\
            dec_msg (v_payload v) = Some (wire_msg m).
Proof.
  intros B W E. destruct (frame_view_of_reply src_mac m f B E) as (p & si & yi & Eb & Hs & Hy & Hl & Hd).
  eexists. split; [exact Hd|]. cbn [expected_view v_dst_mac v_etype v_proto v_src_ip v_dst_ip v_sport v_dport v_ipck_ok v_udpck_ok v_totlen v_ulen v_payload].
  repeat split; try assumption; try lia.
  exact (msg4_roundtrip_body m p W Eb).
Qed.
