(* Ipcalc.v — hand-written model of plugins/allocators/ipcalc.go (Offset, AddPrefixes).
   Same branches, same order of effects, same panic points as the Go code; the
   regenerated gen/IpcalcGen.v is proved equal to it in proofs/IpcalcBridge.v. *)
From Verif Require Import Base.
Open Scope N_scope.

(* the part of Offset after the operands have been ordered (a >= b) *)
Definition offset_sorted (a b : bytes) (p : Z) : res N :=
  bind (go_slice a 0 8) (fun s1 =>
  bind (be_u64 s1) (fun ah =>
  bind (go_slice b 0 8) (fun s2 =>
  bind (be_u64 s2) (fun bh =>
  if (p <=? 64)%Z then
    Ok (u64_shr (u64_sub ah bh) (u64_sub 64 (u64_of_int p)))
  else
    bind (go_slice a 8 (length a)) (fun s3 =>
    bind (be_u64 s3) (fun al =>
    bind (go_slice b 8 (length b)) (fun s4 =>
    bind (be_u64 s4) (fun bl =>
    let '(distanceLow, borrow) := sub64 al bl 0 in
    let '(distanceHigh, _) := sub64 ah bh borrow in
    if u64_shl 1 (u64_sub 128 (u64_of_int p)) <=? distanceHigh then Err EOverflow
    else
      Ok (u64_add (u64_shl distanceHigh (u64_sub (u64_of_int p) 64))
                  (u64_shr distanceLow (u64_sub 128 (u64_of_int p)))))))))))).

Definition offset (a b : bytes) (p : Z) : res N :=
  if ((p >? 128) || (p <? 0))%Z then Err EPrefixRange else
  let reverse := bytes_compare a b in
  if (reverse =? 0)%Z then Ok 0 else
  if (reverse <? 0)%Z then offset_sorted b a p else offset_sorted a b p.

Definition add_finish (offh offl iph ipl : N) : res bytes :=
  let '(ipl', carry) := add64 offl ipl 0 in
  let '(iph', carry) := add64 offh iph carry in
  if negb (carry =? 0) then Err EOverflow
  else
    let ret := zeros 16 in
    bind (go_put_u64 ret 0 8 iph') (fun ret =>
    bind (go_put_u64 ret 8 (length ret) ipl') (fun ret => Ok ret)).

Definition add_prefixes (ip : bytes) (n unit : N) : res bytes :=
  if (unit =? 0) && negb (n =? 0) then Err EOverflow else
  if n =? 0 then Ok ip else
  if negb (Z.of_nat (length ip) =? 16)%Z then Err ENeed128 else
  bind (go_slice ip 0 8) (fun s1 =>
  bind (be_u64 s1) (fun iph =>
  bind (go_slice ip 8 (length ip)) (fun s2 =>
  bind (be_u64 s2) (fun ipl =>
  if unit <=? 64 then
    if (unit <? 64) && negb (u64_shr n unit =? 0) then Err EOverflow
    else add_finish (u64_shl n (u64_sub 64 unit)) 0 iph ipl
  else
    let '(offh, offl) := mul64 n (u64_shl 1 (u64_sub 128 unit)) in
    add_finish offh offl iph ipl)))).
