package main

// C01: whole-server histories.  Every configuration (a chain of built-in plugins with valid
// arguments for DHCPv4 and/or DHCPv6, any subset in any order) is set up once in a fresh child
// process (`implrun chainsub`) and fed a history of raw datagrams through HandleMsg4/HandleMsg6:
// well-formed, truncated, bit-flipped, option-permuted, oversized, relay-nested, wire-only
// encodings, from a small set of clients so that the lease plugins' state matters.
// Monitors: no panic, no handler that does not come back (watchdog), at most one reply per
// datagram, and the server still answers afterwards.

import (
	"bytes"
	"encoding/binary"
	"encoding/hex"
	"encoding/json"
	"fmt"
	"net"
	"os"
	"os/exec"
	"strings"
	"time"

	"github.com/insomniacslk/dhcp/dhcpv4"
	"github.com/insomniacslk/dhcp/dhcpv6"
	"github.com/insomniacslk/dhcp/iana"
)

func init() {
	runners["C01"] = runC01
	replayers["C01"] = replayC01
}

func runChainChild(spec chainSpec, budget time.Duration) (chainResult, error) {
	var res chainResult
	in, _ := json.Marshal(spec)
	cmd := exec.Command(os.Args[0], "chainsub")
	cmd.Stdin = bytes.NewReader(in)
	var out, errb bytes.Buffer
	cmd.Stdout, cmd.Stderr = &out, &errb
	done := make(chan error, 1)
	if err := cmd.Start(); err != nil {
		return res, err
	}
	go func() { done <- cmd.Wait() }()
	select {
	case err := <-done:
		if err != nil {
			return res, fmt.Errorf("child failed: %v: %s", err, tailStr(errb.String(), 1500))
		}
	case <-time.After(budget):
		cmd.Process.Kill()
		return res, fmt.Errorf("child timed out")
	}
	if err := json.Unmarshal(out.Bytes(), &res); err != nil {
		return res, fmt.Errorf("child output: %v: %s", err, tailStr(out.String()+errb.String(), 600))
	}
	return res, nil
}

// ---- configurations ----

const c01Leases4 = "02:aa:00:00:00:01 10.8.0.1\n02:aa:00:00:00:02 10.8.0.2\n"
const c01Leases6 = "02:aa:00:00:00:01 2001:db8:8::1\n02:aa:00:00:00:02 2001:db8:8::2\n"

type plugChoice struct {
	name string
	args [][]string // alternatives
}

var c01Pool4 = []plugChoice{
	{"server_id", [][]string{{"10.0.0.1"}}},
	{"dns", [][]string{{"1.1.1.1", "8.8.8.8"}, {"10.0.0.53"}}},
	{"router", [][]string{{"10.0.0.254"}}},
	{"netmask", [][]string{{"255.255.255.0"}}},
	{"mtu", [][]string{{"1500"}, {"576"}}},
	{"lease_time", [][]string{{"1h"}, {"90s"}}},
	{"searchdomains", [][]string{{"example.com", "a.b.c"}, {"sub.example.net"}}},
	{"staticroute", [][]string{{"10.0.0.0/8,10.0.0.254"}, {"192.168.5.0/24,10.0.0.1", "0.0.0.0/0,10.0.0.1"}}},
	{"nbp", [][]string{{"tftp://10.0.0.1/boot.efi"}, {"http://host/path?params=a+b"}}},
	{"ipv6only", [][]string{{"30m"}, {}}},
	{"autoconfigure", [][]string{{"DoNotAutoConfigure"}, {"AutoConfigure"}}},
	{"file", [][]string{{"$DIR/leases4.txt"}, {"$DIR/leases4.txt", "autorefresh"}}},
	{"range", [][]string{{"$DIR/leases.sqlite3", "10.0.0.10", "10.0.0.12", "1h"}, {"$DIR/leases.sqlite3", "10.0.0.10", "10.0.0.40", "30s"}}},
	{"sleep", [][]string{{"1ms"}}},
}

var c01Pool6 = []plugChoice{
	{"server_id", [][]string{{"LL", "00:de:ad:be:ef:00"}, {"LLT", "00:de:ad:be:ef:00"}}},
	{"dns", [][]string{{"2001:db8::53"}, {"2001:db8::53", "2001:4860:4860::8888"}}},
	{"nbp", [][]string{{"tftp://[2001:db8::1]/boot.efi"}, {"http://host/path?params=a+b"}, {"http://boot.example/ipxe"}}},
	{"searchdomains", [][]string{{"example.com", "a.b.c"}}},
	{"file", [][]string{{"$DIR/leases6.txt"}, {"$DIR/leases6.txt", "autorefresh"}}},
	{"prefix", [][]string{{"2001:db8:0:100::/62", "64"}, {"2001:db8:0:100::/56", "60"}, {"fd00::/48", "64"}}},
	{"sleep", [][]string{{"1ms"}}},
}

func genChain(c *Ctx, pool []plugChoice, forbid string) []chainPlug {
	r := c.R
	n := r.Intn(len(pool) + 1)
	if r.Pct(50) {
		n = 1 + r.Intn(5)
	}
	idx := make([]int, len(pool))
	for i := range idx {
		idx[i] = i
	}
	for i := len(idx) - 1; i > 0; i-- { // any order
		j := r.Intn(i + 1)
		idx[i], idx[j] = idx[j], idx[i]
	}
	out := []chainPlug{}
	for _, i := range idx {
		if len(out) >= n {
			break
		}
		if pool[i].name == forbid {
			continue
		}
		alts := pool[i].args
		out = append(out, chainPlug{pool[i].name, alts[r.Intn(len(alts))]})
	}
	return out
}

func hasPlug(ch []chainPlug, name string) bool {
	for _, p := range ch {
		if p.Name == name {
			return true
		}
	}
	return false
}

func chainNames(ch []chainPlug) string {
	s := []string{}
	for _, p := range ch {
		s = append(s, p.Name+"("+strings.Join(p.Args, " ")+")")
	}
	return strings.Join(s, " ")
}

// ---- datagrams ----

var c01Clients4 = [][]byte{
	{2, 0xaa, 0, 0, 0, 1}, {2, 0xaa, 0, 0, 0, 2}, // static
	{2, 1, 0, 0, 0, 1}, {2, 1, 0, 0, 0, 2}, {2, 1, 0, 0, 0, 3}, {2, 1, 0, 0, 0, 4}, {2, 1, 0, 0, 0, 5},
	{}, {7}, {1, 2, 3, 4, 5, 6, 7, 8, 9, 10, 11, 12, 13, 14, 15, 16},
}

func genDgram4(c *Ctx) ([]byte, string) { return genDgram4x(c, nil, true) }

// genDgram4x: with relay set, a datagram relayed by that agent (the start-mode harness holds its
// port 67); mut = false leaves the datagram well-formed
func genDgram4x(c *Ctx, relay net.IP, mut bool) ([]byte, string) {
	r := c.R
	s := randReq4(c)
	if relay != nil {
		s.giaddr = relay
	}
	s.chaddr = c01Clients4[r.Intn(len(c01Clients4))]
	s.extra = map[uint8][]byte{}
	mts := [][]byte{{1}, {3}, {1}, {3}, {4}, {7}, {8}, {2}, {5}, {0}, {200}, nil, {}, {1, 1}}
	s.mtype = mts[r.Intn(len(mts))]
	if !mut && r.Pct(85) {
		s.mtype = [][]byte{{1}, {3}}[r.Intn(2)] // (start mode waits for each reply on a real socket: mostly answerable requests)
	}
	if r.Pct(5) && mut {
		s.op = byte(r.Intn(4))
	}
	prls := [][]byte{nil, {}, {1, 3, 6}, {6, 26, 15, 119, 121}, {108}, {66, 67}, {1, 3, 6, 15, 26, 66, 67, 108, 119, 121, 116}}
	if p := prls[r.Intn(len(prls))]; p != nil {
		s.extra[55] = p
	}
	if r.Pct(25) {
		s.extra[116] = [][]byte{{1}, {0}, {1, 1}, {}}[r.Intn(4)]
	}
	if r.Pct(30) {
		s.extra[12] = [][]byte{[]byte("host"), []byte("123"), {0}, {0xff, 0xfe}, {}}[r.Intn(5)]
	}
	if r.Pct(20) {
		s.extra[50] = [][]byte{{10, 0, 0, 10}, {10, 8, 0, 1}, {1, 2, 3}}[r.Intn(3)]
	}
	if r.Pct(20) {
		s.extra[54] = [][]byte{{10, 0, 0, 1}, {10, 9, 9, 9}, {0, 0, 0, 0}, {1, 2}}[r.Intn(4)]
	}
	if r.Pct(15) { // PXE clients: architecture, network interface id, machine identifier
		s.extra[[]uint8{97, 97, 93, 94, 60}[r.Intn(5)]] = [][]byte{{0, 1, 2, 3, 4, 5, 6, 7, 8, 9, 10, 11, 12, 13, 14, 15, 16}, {0, 7}, {1, 2, 1}, []byte("PXEClient")}[r.Intn(4)]
	}
	raw := buildReq4(s)
	label := fmt.Sprintf("v4 mt=%x chaddr=%x", s.mtype, s.chaddr)
	if !mut {
		return raw, label
	}
	return mutate(c, raw, 240, 1, label)
}

var c01MACs6 = []net.HardwareAddr{{2, 0xaa, 0, 0, 0, 1}, {2, 0xaa, 0, 0, 0, 2}, {2, 6, 0, 0, 0, 1}, {2, 6, 0, 0, 0, 2}, {2, 6, 0, 0, 0, 3}, {2, 6, 0, 0, 0, 4}, {2, 6, 0, 0, 0, 5}, {2, 6, 0, 0, 0, 6}}

func genDgram6(c *Ctx, held *[]net.IPNet) ([]byte, string) { return genDgram6x(c, held, true) }

func genDgram6x(c *Ctx, held *[]net.IPNet, mut bool) ([]byte, string) {
	r := c.R
	types := []uint8{1, 1, 1, 3, 3, 5, 6, 4, 8, 9, 11, 2, 7, 10, 12, 13, 0, 200}
	s := req6spec{mtype: types[r.Intn(len(types))]}
	if !mut && r.Pct(85) {
		s.mtype = []uint8{1, 1, 3, 5, 6, 8, 11, 4}[r.Intn(8)]
	}
	copy(s.xid[:], r.Bytes(3))
	mac := c01MACs6[r.Intn(len(c01MACs6))]
	switch r.Intn(10) {
	case 0:
		s.cid = nil
	case 1:
		s.cid = &dhcpv6.DUIDLLT{HWType: iana.HWTypeEthernet, Time: 7, LinkLayerAddr: mac}
	case 2:
		s.cid = &dhcpv6.DUIDEN{EnterpriseNumber: 9, EnterpriseIdentifier: []byte(mac)}
	default:
		s.cid = &dhcpv6.DUIDLL{HWType: iana.HWTypeEthernet, LinkLayerAddr: mac}
	}
	s.rapid = r.Pct(20)
	oros := [][]dhcpv6.OptionCode{nil, {23}, {24}, {59}, {60}, {59, 60}, {60, 59, 23, 24}, {}}
	if o := oros[r.Intn(len(oros))]; o != nil {
		s.extra = append(s.extra, dhcpv6.OptRequestedOption(o...))
	}
	if r.Pct(40) {
		s.extra = append(s.extra, &dhcpv6.OptIANA{IaId: [4]byte{0, 0, 0, byte(r.Intn(3))}})
	}
	npd := 0
	if r.Pct(70) {
		npd = 1 + r.Intn(2)
	}
	for i := 0; i < npd; i++ {
		ia := pdIA{iaid: [4]byte{0, 0, 0, byte(i + 1)}}
		nh := []int{0, 0, 1, 1, 2, 3}[r.Intn(6)]
		for j := 0; j < nh; j++ {
			var h pdHint
			switch r.Intn(7) {
			case 0:
				h = pdHint{absentPrefix: true} // IAPrefix of length 0: parses to a nil prefix (wire-only)
			case 1:
				h = pdHint{ip: net.IPv6zero, plen: 64}
			case 2:
				h = pdHint{ip: net.IPv6zero, plen: 200}
			case 3:
				h = pdHint{ip: net.ParseIP("2001:db8:0:101::"), plen: 64}
			case 4:
				h = []pdHint{{ip: net.ParseIP("2001:db8:ffff::"), plen: 48}, {ip: net.ParseIP("fdff:ffff:ffff:ffff::"), plen: 8}, {ip: net.ParseIP("fd00:0:0:ffff:ffff::"), plen: 40}}[r.Intn(3)]
			case 5:
				if len(*held) > 0 {
					p := (*held)[r.Intn(len(*held))]
					ones, _ := p.Mask.Size()
					h = pdHint{ip: p.IP, plen: ones}
				} else {
					h = pdHint{ip: net.IPv6zero, plen: 0}
				}
			default:
				h = pdHint{ip: net.IPv6zero, plen: 0}
				h.absentPrefix = false
			}
			ia.hints = append(ia.hints, h)
		}
		s.extra = append(s.extra, &dhcpv6.OptionGeneric{OptionCode: dhcpv6.OptionIAPD, OptionData: iapdPayload(ia)})
	}
	if r.Pct(35) {
		s.layers = randLayers(c, 1+r.Intn(3))
		if r.Pct(10) {
			s.noInner = true
		}
	}
	raw := buildReq6(s)
	label := fmt.Sprintf("v6 type=%d relay=%d pd=%d", s.mtype, len(s.layers), npd)
	optOff := 4
	if len(s.layers) > 0 {
		optOff = 34
	}
	if !mut {
		return raw, label
	}
	return mutate(c, raw, optOff, 2, label)
}

// mutate: mostly leaves the datagram alone; otherwise truncates, flips bits, permutes the options,
// pads to the largest datagram, or replaces it by noise
func mutate(c *Ctx, raw []byte, optOff int, lenBytes int, label string) ([]byte, string) {
	r := c.R
	if r.Pct(62) {
		c.Count("dgram:well-formed")
		return raw, label
	}
	out := append([]byte{}, raw...)
	switch r.Intn(7) {
	case 0:
		c.Count("dgram:truncated")
		if len(out) > 0 {
			out = out[:r.Intn(len(out))]
		}
		label += " truncated"
	case 1, 2:
		c.Count("dgram:bit-flipped")
		for k := 1 + r.Intn(4); k > 0 && len(out) > 0; k-- {
			out[r.Intn(len(out))] ^= 1 << uint(r.Intn(8))
		}
		label += " bit-flipped"
	case 3:
		c.Count("dgram:options-permuted")
		out = permuteOptions(c, out, optOff, lenBytes)
		label += " options-permuted"
	case 4:
		c.Count("dgram:oversized")
		out = append(out, make([]byte, 65535-len(out))...)
		if r.Bool() {
			for i := len(raw); i < len(out); i++ {
				out[i] = byte(r.U64())
			}
		}
		label += " padded-to-65535"
	case 5:
		c.Count("dgram:noise")
		out = r.Bytes(r.Intn(400))
		label = "noise"
	default:
		c.Count("dgram:empty-or-tiny")
		out = out[:[]int{0, 1, 3, 4}[r.Intn(4)]%(len(out)+1)]
		label += " tiny"
	}
	return out, label
}

func permuteOptions(c *Ctx, raw []byte, off int, lenBytes int) []byte {
	if len(raw) <= off {
		return raw
	}
	var opts [][]byte
	p := off
	for p < len(raw) {
		if lenBytes == 1 {
			if raw[p] == 255 || raw[p] == 0 || p+2 > len(raw) {
				break
			}
			l := int(raw[p+1])
			if p+2+l > len(raw) {
				break
			}
			opts = append(opts, raw[p:p+2+l])
			p += 2 + l
		} else {
			if p+4 > len(raw) {
				break
			}
			l := int(binary.BigEndian.Uint16(raw[p+2:]))
			if p+4+l > len(raw) {
				break
			}
			opts = append(opts, raw[p:p+4+l])
			p += 4 + l
		}
	}
	for i := len(opts) - 1; i > 0; i-- {
		j := c.R.Intn(i + 1)
		opts[i], opts[j] = opts[j], opts[i]
	}
	out := append([]byte{}, raw[:off]...)
	for _, o := range opts {
		out = append(out, o...)
	}
	return append(out, raw[p:]...)
}

// ---- one configuration, one history ----

type c01Replay struct {
	Spec  chainSpec `json:"spec"`
	Notes []string  `json:"labels"`
	At    int       `json:"failing_datagram"`
}

func runC01Config(c *Ctx, ci int, spec chainSpec, labels []string, scenario string) chainResult {
	c.Breadcrumb(map[string]interface{}{"scenario": scenario, "v4": chainNames(spec.Plugins4), "v6": chainNames(spec.Plugins6), "datagrams": len(spec.Dgrams)})
	res, err := runChainChild(spec, time.Duration(30+len(spec.Dgrams)/4)*time.Second)
	for try := 0; try < 4 && err == nil && spec.Start && strings.HasPrefix(res.SetupErr, "harness-socket:"); try++ {
		spec.Port += 17 // another run holds these ports: move on
		res, err = runChainChild(spec, time.Duration(30+len(spec.Dgrams)/4)*time.Second)
	}
	if err == nil && strings.HasPrefix(res.SetupErr, "harness-socket:") {
		return res
	}
	rep := func(at int) c01Replay {
		sp := spec
		if at+1 < len(sp.Dgrams) {
			sp.Dgrams = sp.Dgrams[:at+1]
		}
		return c01Replay{Spec: sp, Notes: labels[:len(sp.Dgrams)], At: at}
	}
	if err != nil {
		c.vio("C01", "server-process-died", fmt.Sprintf("%s: the process handling the datagrams did not survive: %v", scenario, err), rep(len(spec.Dgrams)-1))
		return res
	}
	if res.SetupErr != "" {
		c.Violate("harness-setup", fmt.Sprintf("%s: valid configuration rejected: %s", scenario, res.SetupErr), rep(0))
		return res
	}
	answered := 0
	for i, o := range res.Outs {
		c.Evals++
		what := fmt.Sprintf("%s; chains v4[%s] v6[%s]; datagram %d (%s)", scenario, chainNames(spec.Plugins4), chainNames(spec.Plugins6), i, labels[i])
		switch {
		case o.Skipped:
			continue
		case o.Panic != "":
			c.Count("outcome:panic")
			kind := "panic"
			if hasPlug(spec.Plugins4, "file") && hasPlug(spec.Plugins6, "file") && spec.Dgrams[i].Proto == 4 && strings.Contains(o.Panic, "slice bounds out of range [:4]") {
				// the DHCPv4 reply carries an IPv6 yiaddr from the table the DHCPv6 instance loaded (F10)
				kind = "dual-stack-file-panic"
			}
			c.vio("C01", kind, fmt.Sprintf("%s: panic: %s", what, o.Panic), rep(i))
		case o.Hang:
			c.Count("outcome:hang")
			c.vio("C01", "handler-blocks", fmt.Sprintf("%s: handling did not return within the watchdog time (a lock left held, or a loop)", what), rep(i))
		case len(o.Sends) == 0:
			c.Count("outcome:dropped")
		case len(o.Sends) == 1:
			c.Count("outcome:one-reply")
			answered++
		default:
			c.vio("C01", "more-than-one-reply", fmt.Sprintf("%s: %d replies were sent for one datagram", what, len(o.Sends)), rep(i))
		}
	}
	if !(hasPlug(spec.Plugins4, "file") && hasPlug(spec.Plugins6, "file")) { // (one table for both protocols: C10's finding)
		emitAsmCases(c, spec, res)
	}
	c.Eval(fmt.Sprintf("%s|%s|%s|%d", scenario, chainNames(spec.Plugins4), chainNames(spec.Plugins6), len(spec.Dgrams)), answered >= 1 && len(spec.Dgrams) >= 3)
	if ci%25 == 0 {
		k := len(labels)
		if k > 4 {
			k = 4
		}
		c.Sample(map[string]interface{}{"scenario": scenario, "v4": chainNames(spec.Plugins4), "v6": chainNames(spec.Plugins6), "datagrams": len(spec.Dgrams), "answered": answered, "first": labels[:k]})
	}
	return res
}

func heldFrom(res chainResult, held *[]net.IPNet) {
	for _, o := range res.Outs {
		for _, s := range o.Sends {
			b, _ := hex.DecodeString(s.Payload)
			d, err := dhcpv6.FromBytes(b)
			if err != nil {
				continue
			}
			m, err := d.GetInnerMessage()
			if err != nil {
				continue
			}
			for _, ia := range m.Options.IAPD() {
				for _, p := range ia.Options.Prefixes() {
					if p.Prefix != nil && len(*held) < 32 {
						*held = append(*held, *p.Prefix)
					}
				}
			}
		}
	}
}

// IA_PD options in the canonical form the run model understands (model/AsmRun.v)
func canonPDReq(ia *dhcpv6.OptIAPD) []byte {
	out := append([]byte{}, ia.IaId[:]...)
	for _, h := range ia.Options.Prefixes() {
		if h.Prefix == nil {
			out = append(out, 0)
			continue
		}
		out = append(out, 1, byte(len(h.Prefix.IP)))
		out = append(out, h.Prefix.IP...)
		out = append(out, byte(len(h.Prefix.Mask)))
		out = append(out, h.Prefix.Mask...)
	}
	return out
}

func canonPDResp(ia *dhcpv6.OptIAPD) []byte {
	out := append([]byte{}, ia.IaId[:]...)
	for _, h := range ia.Options.Prefixes() {
		if h.Prefix == nil {
			continue
		}
		out = append(out, h.Prefix.IP.To16()...)
		m := h.Prefix.Mask
		out = append(out, m...)
	}
	return out
}

// vPkt6Canon prints a packet like vPkt6, with the IA_PD options of the innermost message canonical
func vPkt6Canon(d dhcpv6.DHCPv6, reply bool) string {
	old := optCanon
	optCanon = func(o dhcpv6.Option) ([]byte, bool) {
		if ia, ok := o.(*dhcpv6.OptIAPD); ok {
			if reply {
				return canonPDResp(ia), true
			}
			return canonPDReq(ia), true
		}
		return nil, false
	}
	defer func() { optCanon = old }()
	t, _ := vPkt6(d)
	return t
}

func optZ(i int) string {
	if i < 0 {
		return "None"
	}
	return "(Some " + vZ(int64(i)) + ")"
}

func emitAsmCases(c *Ctx, spec chainSpec, res chainResult) {
	for _, o := range res.Outs {
		if o.Hang || o.Skipped {
			return // no complete observation to compare
		}
	}
	var strs []string
	fileTokens := func(content string) {
		for _, ln := range strings.Split(content, "\n") {
			strs = append(strs, strings.Fields(ln)...)
		}
	}
	args := func(a []string) string {
		it := []string{}
		for _, x := range a {
			it = append(it, vStr(x))
		}
		return vList(it)
	}
	for proto, plugs := range map[int][]chainPlug{4: spec.Plugins4, 6: spec.Plugins6} {
		n := 0
		for _, dg := range spec.Dgrams {
			if dg.Proto == proto {
				n++
			}
		}
		if n == 0 {
			continue
		}
		strs = nil
		var chain []string
		supported := true
		for _, p := range plugs {
			if pl := builtin[p.Name]; pl != nil && ((proto == 4 && pl.Setup4 == nil) || (proto == 6 && pl.Setup6 == nil)) {
				continue // no set-up function for this protocol: LoadPlugins skips it
			}
			switch p.Name {
			case "range":
				d, _ := time.ParseDuration(p.Args[3])
				chain = append(chain, fmt.Sprintf("SRange %s %s %s", vBytes(net.ParseIP(p.Args[1]).To4()), vBytes(net.ParseIP(p.Args[2]).To4()), vZ(int64(d))))
			case "prefix":
				_, pn, _ := net.ParseCIDR(p.Args[0])
				var sz int
				fmt.Sscanf(p.Args[1], "%d", &sz)
				chain = append(chain, fmt.Sprintf("S6Prefix %s %s %s", vBytes(pn.IP), vBytes(pn.Mask), vZ(int64(sz))))
			case "file":
				content := spec.Files[strings.TrimPrefix(p.Args[0], "$DIR/")]
				fileTokens(content)
				if proto == 4 {
					chain = append(chain, "SFile "+vStr(content))
				} else {
					chain = append(chain, "S6File "+vStr(content))
				}
			default:
				cn, ok := pnameCoq[p.Name]
				if !ok {
					supported = false
				}
				strs = append(strs, oracleStrings(p.Name, p.Args)...)
				if proto == 4 {
					chain = append(chain, fmt.Sprintf("SPlug %s %s", cn, args(p.Args)))
				} else {
					chain = append(chain, fmt.Sprintf("S6Plug %s %s", cn, args(p.Args)))
				}
			}
		}
		if !supported {
			continue
		}
		var hist, obs []string
		for i, dg := range spec.Dgrams {
			if dg.Proto != proto || i >= len(res.Outs) {
				continue
			}
			raw, _ := hex.DecodeString(dg.Hex)
			o := res.Outs[i]
			if proto == 4 {
				parsed := "None"
				if m, err := dhcpv4.FromBytes(raw); err == nil {
					parsed = "(Some " + vMsg4(m) + ")"
				}
				hist = append(hist, fmt.Sprintf("(0%%Z, %s, %s)", optZ(dg.Oob), parsed))
				l2 := -1
				for _, m := range o.L2 {
					if mm := reL2.FindStringSubmatch(m); mm != nil {
						fmt.Sscanf(mm[1], "%d", &l2)
					}
				}
				switch {
				case o.Panic != "":
					obs = append(obs, "APanic")
				case len(o.Sends) == 1:
					sd := o.Sends[0]
					pb, _ := hex.DecodeString(sd.Payload)
					rm, err := dhcpv4.FromBytes(pb)
					ua, err2 := net.ResolveUDPAddr("udp", sd.Dst)
					if err != nil || err2 != nil {
						return
					}
					ip := ua.IP.To4()
					if ip == nil {
						ip = net.IP{0, 0, 0, 0}
					}
					obs = append(obs, fmt.Sprintf("AUdp %s %s %s %s", vBytes(ip), vZ(int64(ua.Port)), optZ(sd.IfIndex), vMsg4(rm)))
				case l2 >= 0:
					obs = append(obs, fmt.Sprintf("AL2 %s", vZ(int64(l2))))
				default:
					obs = append(obs, "ADrop")
				}
			} else {
				parsed := "None"
				if d, err := dhcpv6.FromBytes(raw); err == nil {
					parsed = "(Some " + vPkt6Canon(d, false) + ")"
				}
				peer := net.ParseIP(dg.Peer).To16()
				pport := 546
				if res.Peer6Port != 0 {
					pport = res.Peer6Port
				}
				hist = append(hist, fmt.Sprintf("(0%%Z, %s, %s, %s, %s)", optZ(dg.Oob), vBytes(peer), vZ(int64(pport)), parsed))
				switch {
				case o.Panic != "":
					obs = append(obs, "A6Panic")
				case len(o.Sends) == 1:
					sd := o.Sends[0]
					pb, _ := hex.DecodeString(sd.Payload)
					rd, err := dhcpv6.FromBytes(pb)
					ua, err2 := net.ResolveUDPAddr("udp", sd.Dst)
					if err != nil || err2 != nil {
						return
					}
					obs = append(obs, fmt.Sprintf("A6Sent %s %s %s %s", vPkt6Canon(rd, true), vBytes(ua.IP.To16()), vZ(int64(ua.Port)), optZ(sd.IfIndex)))
				default:
					obs = append(obs, "A6Drop")
				}
			}
		}
		term := fmt.Sprintf("CAsm%d %s %s %s %s %s", proto, oracleTables(strs), vList(chain), vZ(int64(spec.Lif)), vList(hist), vList(obs))
		if len(term) > 400000 {
			c.Count("asm-case-skipped:term-too-large") // (a datagram that parses into a very large message; the monitors still judged it)
			continue
		}
		c.AddCase(term)
	}
}

func runC01(c *Ctx) {
	c.SetCases("From Verif Require Import Base Net Msg4 Msg6 Setup PluginRun Assembly AsmRun.", "AsmRun.mismatches")
	c.shard = 12
	r := c.R
	files := map[string]string{"leases4.txt": c01Leases4, "leases6.txt": c01Leases6}
	// --- scripted scenarios: the histories the property's text singles out ---
	mk6 := func(mt uint8, mac net.HardwareAddr, oro []dhcpv6.OptionCode, ias ...pdIA) chainDgram {
		s := req6spec{mtype: mt, cid: &dhcpv6.DUIDLL{HWType: iana.HWTypeEthernet, LinkLayerAddr: mac}}
		copy(s.xid[:], r.Bytes(3))
		if oro != nil {
			s.extra = append(s.extra, dhcpv6.OptRequestedOption(oro...))
		}
		for _, ia := range ias {
			s.extra = append(s.extra, &dhcpv6.OptionGeneric{OptionCode: dhcpv6.OptionIAPD, OptionData: iapdPayload(ia)})
		}
		return chainDgram{Proto: 6, Hex: hex.EncodeToString(buildReq6(s)), Oob: 3, Peer: "fe80::1"}
	}
	mk4 := func(mt byte, chaddr []byte, bcast bool) chainDgram {
		s := req4spec{op: 1, mtype: []byte{mt}, chaddr: chaddr, xid: uint32(r.U64()), bflag: bcast}
		return chainDgram{Proto: 4, Hex: hex.EncodeToString(buildReq4(s)), Oob: 7001, Peer: "0.0.0.0"}
	}
	nilHint := pdIA{iaid: [4]byte{0, 0, 0, 1}, hints: []pdHint{{absentPrefix: true}}}
	lenHint := pdIA{iaid: [4]byte{0, 0, 0, 1}, hints: []pdHint{{ip: net.IPv6zero, plen: 64}}}
	noHint := pdIA{iaid: [4]byte{0, 0, 0, 1}}
	ci := 0
	scen := func(name string, spec chainSpec) {
		labels := make([]string, len(spec.Dgrams))
		for i := range labels {
			labels[i] = fmt.Sprintf("scripted #%d", i)
		}
		spec.Files = files
		runC01Config(c, ci, spec, labels, name)
		ci++
	}
	macA, macB := net.HardwareAddr{2, 6, 0, 0, 0, 1}, net.HardwareAddr{2, 6, 0, 0, 0, 2}
	scen("prefix: nil-prefix hints on the first and on later exchanges", chainSpec{
		Plugins6: []chainPlug{{"server_id", []string{"LL", "00:de:ad:be:ef:00"}}, {"prefix", []string{"2001:db8:0:100::/62", "64"}}},
		Dgrams: []chainDgram{mk6(1, macA, nil, nilHint), mk6(1, macA, nil, nilHint), mk6(3, macA, nil, nilHint, lenHint), mk6(1, macB, nil, noHint), mk6(3, macB, nil, nilHint),
			mk6(5, macB, nil, lenHint, nilHint, noHint), mk6(1, macA, nil, noHint)}})
	{
		// a client that holds the first block renews it with hints in every order relative to prefixes it does not hold
		h := func(ip string) pdHint { return pdHint{ip: net.ParseIP(ip), plen: 64} }
		own, free, other := h("2001:db8:0:100::"), h("2001:db8:0:102::"), h("2001:db8:0:101::")
		ia := func(hs ...pdHint) pdIA { return pdIA{iaid: [4]byte{0, 0, 0, 1}, hints: hs} }
		scen("prefix: renewals listing the held prefix after, before and between prefixes not held", chainSpec{
			Plugins6: []chainPlug{{"server_id", []string{"LL", "00:de:ad:be:ef:00"}}, {"prefix", []string{"2001:db8:0:100::/62", "64"}}},
			Dgrams: []chainDgram{mk6(1, macA, nil, noHint), mk6(1, macB, nil, noHint), mk6(1, macA, nil, ia(free, own)), mk6(1, macA, nil, ia(own, other)),
				mk6(1, macA, nil, ia(other, own, free)), mk6(1, macB, nil, ia(own, other)), mk6(1, macA, nil, ia(h("2001:dead::"), own)), mk6(1, macB, nil, ia(free, free, other))}})
	}
	{
		var dg []chainDgram
		for i := 0; i < 6; i++ { // exhaust a 3-address range, then new and known clients
			dg = append(dg, mk4(1, []byte{2, 1, 0, 0, 0, byte(i)}, true))
		}
		dg = append(dg, mk4(3, []byte{2, 1, 0, 0, 0, 0}, true), mk4(1, []byte{2, 1, 0, 0, 0, 9}, true), mk4(3, []byte{2, 1, 0, 0, 0, 1}, false))
		scen("range: requests after the range is exhausted", chainSpec{
			Plugins4: []chainPlug{{"server_id", []string{"10.0.0.1"}}, {"range", []string{"$DIR/leases.sqlite3", "10.0.0.10", "10.0.0.12", "1h"}}, {"dns", []string{"1.1.1.1"}}}, Dgrams: dg})
	}
	{
		// the layer-2 reply path (broadcast flag clear, no ciaddr, no relay) with every kind of interface information
		var dg []chainDgram
		for _, oob := range []int{0, -1, 7001, 0} {
			d := mk4(1, []byte{2, 1, 0, 0, 0, byte(10 + oob%5)}, false)
			d.Oob = oob
			dg = append(dg, d)
		}
		scen("layer-2 reply path on an unbound listener, control message absent / without interface / with interface", chainSpec{
			Plugins4: []chainPlug{{"server_id", []string{"10.0.0.1"}}, {"range", []string{"$DIR/leases.sqlite3", "10.0.0.10", "10.0.0.40", "1h"}}}, Dgrams: dg})
		// a Relay-Reply (not a Relay-Forward) wrapping a valid SOLICIT, sent to the server
		rr := req6spec{mtype: 1, cid: &dhcpv6.DUIDLL{HWType: iana.HWTypeEthernet, LinkLayerAddr: macA},
			layers: []relaySpec{{mtype: dhcpv6.MessageTypeRelayReply, link: net.ParseIP("2001:db8::1"), peer: net.ParseIP("fe80::2")}}}
		rr2 := rr
		rr2.layers = []relaySpec{{mtype: dhcpv6.MessageTypeRelayForward, link: net.ParseIP("2001:db8::1"), peer: net.ParseIP("fe80::2")},
			{mtype: dhcpv6.MessageTypeRelayReply, link: net.ParseIP("2001:db8::1"), peer: net.ParseIP("fe80::3")}}
		scen("a Relay-Reply sent to the server", chainSpec{
			Plugins6: []chainPlug{{"server_id", []string{"LL", "00:de:ad:be:ef:00"}}, {"dns", []string{"2001:db8::53"}}},
			Dgrams: []chainDgram{{Proto: 6, Hex: hex.EncodeToString(buildReq6(rr)), Oob: 3, Peer: "fe80::1"}, {Proto: 6, Hex: hex.EncodeToString(buildReq6(rr2)), Oob: 3, Peer: "fe80::1"},
				mk6(1, macA, nil, noHint)}})
	}
	for _, url := range []string{"http://boot.example/ipxe", "http://host/path?params=a+b", "tftp://[2001:db8::1]/boot.efi"} {
		var dg []chainDgram
		for _, oro := range [][]dhcpv6.OptionCode{nil, {59}, {60}, {59, 60}, {60, 59, 23}, {}} {
			dg = append(dg, mk6(1, macA, oro), mk6(3, macB, oro))
		}
		scen("nbp: every option-request list against "+url, chainSpec{
			Plugins6: []chainPlug{{"server_id", []string{"LL", "00:de:ad:be:ef:00"}}, {"nbp", []string{url}}, {"dns", []string{"2001:db8::53"}}}, Dgrams: dg})
	}
	scen("dual stack: the file plugin configured for both protocols", chainSpec{
		Plugins4: []chainPlug{{"file", []string{"$DIR/leases4.txt"}}}, Plugins6: []chainPlug{{"file", []string{"$DIR/leases6.txt"}}},
		Dgrams: []chainDgram{mk4(1, []byte{2, 0xaa, 0, 0, 0, 1}, true), mk4(3, []byte{2, 0xaa, 0, 0, 0, 2}, true), mk4(1, []byte{2, 1, 0, 0, 0, 1}, true)}})

	// --- generated configurations and histories ---
	ncfg := c.Scale(70, 2500)
	for k := 0; k < ncfg; k++ {
		spec := chainSpec{Files: files, Lif: []int{0, 0, 7001}[r.Intn(3)], WatchdogMs: 3000}
		which := r.Intn(3) // 0: DHCPv4 only, 1: DHCPv6 only, 2: both
		if which != 1 {
			spec.Plugins4 = genChain(c, c01Pool4, "")
		}
		if which != 0 {
			forbid := ""
			for _, p := range spec.Plugins4 {
				if p.Name == "file" {
					forbid = "file" // both protocols sharing the file plugin is the scripted scenario above (known finding F10)
				}
			}
			spec.Plugins6 = genChain(c, c01Pool6, forbid)
		}
		n := 4 + r.Intn(c.Scale(40, 120))
		labels := []string{}
		var held []net.IPNet
		// histories are generated in two halves so that the second half can ask for what the first was given
		for half := 0; half < 2; half++ {
			cnt := n / 2
			var dgs []chainDgram
			for i := 0; i < cnt; i++ {
				proto := 4
				if which == 1 || (which == 2 && r.Bool()) {
					proto = 6
				}
				var raw []byte
				var label string
				if proto == 4 {
					raw, label = genDgram4(c)
				} else {
					raw, label = genDgram6(c, &held)
				}
				oob := []int{-1, 0, 7001, 7002}[r.Intn(4)]
				peer := []string{"fe80::1", "2001:db8::99", "10.0.0.200", "0.0.0.0"}[r.Intn(4)]
				dgs = append(dgs, chainDgram{Proto: proto, Hex: hex.EncodeToString(raw), Oob: oob, Peer: peer})
				labels = append(labels, label)
				c.Count(fmt.Sprintf("proto:%d", proto))
			}
			if half == 0 && len(spec.Plugins6) > 0 {
				// dry run of the first half to learn which prefixes were delegated
				probe := spec
				probe.Dgrams = dgs
				if pr, err := runChainChild(probe, 60*time.Second); err == nil {
					heldFrom(pr, &held)
				}
			}
			spec.Dgrams = append(spec.Dgrams, dgs...)
		}
		c.Count(fmt.Sprintf("chain-length-v4:%d", len(spec.Plugins4)))
		c.Count(fmt.Sprintf("chain-length-v6:%d", len(spec.Plugins6)))
		runC01Config(c, ci, spec, labels, "generated")
		ci++
	}
	// the whole server as cmds/coredhcp starts it: server.Start, two listen addresses per protocol, real sockets
	startScenarioPD(c)
	startScenarioRange(c)
	runStartRandom(c, c.Scale(10, 120))
	c.Extra["start_mode"] = "server.Start with two listen addresses per protocol on the loopback interface (DHCPv4: relayed datagrams, replies return to the relay's port 67; DHCPv6: replies return to the client socket), scripted prefix / range histories across the listeners and generated configurations with well-formed histories; Close + Wait must return"
	c.Extra["rule"] = "configurations: any subset, in any order, of the built-in plugins with valid arguments for DHCPv4 (server_id dns router netmask mtu lease_time searchdomains staticroute nbp ipv6only autoconfigure file range sleep) and/or DHCPv6 (server_id dns nbp searchdomains file prefix sleep), each set up once in a fresh process; histories of 4..44 (thorough ..124) raw datagrams from 10 DHCPv4 / 8 DHCPv6 clients (static and dynamic; hardware addresses of 0, 1, 6, 16 bytes) through HandleMsg4/HandleMsg6 via the capture hook, each in its own goroutine with a 3 s watchdog: all message types, option-request lists, IA_NA, 0..2 IA_PD with 0..3 hints (::/0, length-only, length 0 on the wire = nil prefix, length 200, foreign, and prefixes the server delegated in the first half of the history), relay nesting 0..3; 38% mutated (truncated, 1-4 bits flipped, options permuted, padded to 65535 bytes, noise, 0-4 bytes); scripted histories for nil-prefix hints after a first exchange, an exhausted range, nbp with/without params against every option-request list, and the dual-stack file configuration. non-trivial = distinct configuration+history with >= 3 datagrams and >= 1 reply"
}

func replayC01(path string) int {
	b, err := os.ReadFile(path)
	if err != nil {
		fmt.Println(err)
		return 2
	}
	var doc struct {
		Violations []struct {
			Kind  string    `json:"kind"`
			What  string    `json:"what"`
			Input c01Replay `json:"input"`
		} `json:"violations"`
	}
	if err := json.Unmarshal(b, &doc); err != nil {
		fmt.Println(err)
		return 2
	}
	bad := 0
	for _, v := range doc.Violations {
		if len(v.Input.Spec.Dgrams) == 0 {
			continue
		}
		res, err := runChainChild(v.Input.Spec, 120*time.Second)
		fmt.Printf("replay [%s] v4[%s] v6[%s] %d datagrams: ", v.Kind, chainNames(v.Input.Spec.Plugins4), chainNames(v.Input.Spec.Plugins6), len(v.Input.Spec.Dgrams))
		if err != nil {
			fmt.Println("process died:", err)
			bad++
			continue
		}
		last := res.Outs[len(res.Outs)-1]
		fmt.Printf("last datagram: panic=%q hang=%v replies=%d\n", last.Panic, last.Hang, len(last.Sends))
		if last.Panic != "" || last.Hang || len(last.Sends) > 1 {
			bad++
		}
	}
	if bad > 0 {
		return 1
	}
	return 0
}


// runRealChains11: C11 on the real plugin chains (not only the synthetic handlers): a scripted
// history that exhausts a range, and generated DHCPv4 configurations, through HandleMsg4 in fresh
// processes; every reply is held against its request.
func runRealChains11(c *Ctx) {
	r := c.R
	c.SetCases("From Verif Require Import Base Net Msg4 Msg6 Setup PluginRun Assembly AsmRun.", "AsmRun.mismatches")
	c.shard = 12
	files := map[string]string{"leases4.txt": c01Leases4, "leases6.txt": c01Leases6}
	judge := func(spec chainSpec, res chainResult, scenario string) {
		for i, o := range res.Outs {
			if i >= len(spec.Dgrams) || spec.Dgrams[i].Proto != 4 {
				continue
			}
			raw, _ := hex.DecodeString(spec.Dgrams[i].Hex)
			req, perr := dhcpv4.FromBytes(raw)
			input := map[string]interface{}{"scenario": scenario, "chain": chainNames(spec.Plugins4), "datagram_hex": spec.Dgrams[i].Hex, "history_length": i}
			c.Evals++
			answerable := perr == nil && req.OpCode == dhcpv4.OpcodeBootRequest &&
				(req.MessageType() == dhcpv4.MessageTypeDiscover || req.MessageType() == dhcpv4.MessageTypeRequest)
			if len(o.Sends) == 0 {
				continue
			}
			if !answerable {
				c.vio("C11", "reply-to-non-request", fmt.Sprintf("%s: chain [%s] answered a datagram that is not a parseable BOOTREQUEST of type DISCOVER/REQUEST", scenario, chainNames(spec.Plugins4)), input)
				continue
			}
			pb, _ := hex.DecodeString(o.Sends[0].Payload)
			rp, err := dhcpv4.FromBytes(pb)
			if err != nil {
				c.vio("C11", "reply-unparseable", err.Error(), input)
				continue
			}
			bad := ""
			switch {
			case rp.OpCode != dhcpv4.OpcodeBootReply:
				bad = "not a BOOTREPLY"
			case rp.TransactionID != req.TransactionID:
				bad = "transaction id"
			case rp.HWType != req.HWType || !bytes.Equal(rp.ClientHWAddr, req.ClientHWAddr):
				bad = "hardware type / address"
			case rp.Flags != req.Flags:
				bad = "flags"
			case !rp.GatewayIPAddr.Equal(req.GatewayIPAddr):
				bad = "giaddr"
			case req.MessageType() == dhcpv4.MessageTypeDiscover && rp.MessageType() != dhcpv4.MessageTypeOffer:
				bad = fmt.Sprintf("DISCOVER answered with message type %d (must be an OFFER)", rp.MessageType())
			case req.MessageType() == dhcpv4.MessageTypeRequest && rp.MessageType() != dhcpv4.MessageTypeAck && rp.MessageType() != dhcpv4.MessageTypeNak:
				bad = fmt.Sprintf("REQUEST answered with message type %d (must be an ACK or a NAK)", rp.MessageType())
			}
			for _, code := range []uint8{61, 82} {
				if v := req.Options[code]; len(v) > 0 && !bytes.Equal(rp.Options[code], v) {
					bad = fmt.Sprintf("option %d not echoed", code)
				}
			}
			if v, had := req.Options[61]; (!had || len(v) == 0) && len(rp.Options[61]) > 0 {
				bad = fmt.Sprintf("the reply carries a client identifier (%x) although the request had none", rp.Options[61])
			}
			if bad != "" {
				c.vio("C11", "reply-mismatch", fmt.Sprintf("%s: chain [%s]: the reply does not match its request: %s", scenario, chainNames(spec.Plugins4), bad), input)
			}
		}
	}
	mk4 := func(mt byte, chaddr []byte) chainDgram {
		s := req4spec{op: 1, mtype: []byte{mt}, chaddr: chaddr, xid: uint32(r.U64()), bflag: true}
		return chainDgram{Proto: 4, Hex: hex.EncodeToString(buildReq4(s)), Oob: 7001, Peer: "0.0.0.0"}
	}
	{
		var dg []chainDgram
		for i := 0; i < 6; i++ { // a 3-address range: the fourth and later clients find it exhausted
			dg = append(dg, mk4([]byte{1, 3}[i%2], []byte{2, 1, 0, 0, 0, byte(i)}))
		}
		dg = append(dg, mk4(1, []byte{2, 1, 0, 0, 0, 9}), mk4(3, []byte{2, 1, 0, 0, 0, 0}), mk4(8, []byte{2, 1, 0, 0, 0, 1}))
		spec := chainSpec{Files: files, WatchdogMs: 3000, Dgrams: dg,
			Plugins4: []chainPlug{{"server_id", []string{"10.0.0.1"}}, {"range", []string{"$DIR/leases.sqlite3", "10.0.0.10", "10.0.0.12", "1h"}}, {"dns", []string{"1.1.1.1"}}}}
		if res, err := runChainChild(spec, 60*time.Second); err == nil && res.SetupErr == "" {
			judge(spec, res, "range exhausted")
			emitAsmCases(c, spec, res)
		}
	}
	{
		// a static client asks (option 50) for an address other than the one its lease-file entry gives it,
		// through a relay and with a client identifier: whatever the answer is, it is addressed like any other
		var dg []chainDgram
		for i, want := range [][]byte{{10, 8, 0, 1}, {10, 8, 0, 77}, {10, 0, 0, 10}, {1, 2, 3}} {
			s := req4spec{op: 1, mtype: []byte{3}, chaddr: []byte{2, 0xaa, 0, 0, 0, 1}, xid: uint32(0x5e0000 + i), giaddr: net.IP{10, 8, 0, 254},
				opt61: []byte{1, 2, 0xaa, 0, 0, 0, 1}, opt82: []byte{1, 4, 9, 9, 9, 9}, extra: map[uint8][]byte{50: want}}
			dg = append(dg, chainDgram{Proto: 4, Hex: hex.EncodeToString(buildReq4(s)), Oob: 7001, Peer: "10.8.0.254"})
		}
		spec := chainSpec{Files: files, WatchdogMs: 3000, Dgrams: dg,
			Plugins4: []chainPlug{{"server_id", []string{"10.0.0.1"}}, {"file", []string{"$DIR/leases4.txt"}}, {"dns", []string{"1.1.1.1"}}}}
		if res, err := runChainChild(spec, 60*time.Second); err == nil && res.SetupErr == "" {
			judge(spec, res, "static client requesting another address")
			emitAsmCases(c, spec, res)
		}
	}
	{
		// PXE clients (machine identifier, architecture, NIC id) with and without a client identifier, booting through nbp
		var dg []chainDgram
		for i, ex := range []map[uint8][]byte{
			{97: {0, 1, 2, 3, 4, 5, 6, 7, 8, 9, 10, 11, 12, 13, 14, 15, 16}, 55: {66, 67, 1, 3}},
			{97: {0, 9, 9, 9, 9, 9, 9, 9, 9, 9, 9, 9, 9, 9, 9, 9, 9}, 93: {0, 7}, 94: {1, 2, 1}, 60: []byte("PXEClient"), 55: {67}},
			{55: {66, 67}}, {97: {0, 1}}} {
			s := req4spec{op: 1, mtype: []byte{[]byte{1, 3}[i%2]}, chaddr: []byte{2, 0x97, 0, 0, 0, byte(i)}, xid: uint32(0x970000 + i), bflag: true, extra: ex}
			if i%2 == 1 {
				s.opt61 = []byte{1, 2, 0x97, 0, 0, 0, byte(i)}
			}
			dg = append(dg, chainDgram{Proto: 4, Hex: hex.EncodeToString(buildReq4(s)), Oob: 7001, Peer: "0.0.0.0"})
		}
		spec := chainSpec{Files: files, WatchdogMs: 3000, Dgrams: dg,
			Plugins4: []chainPlug{{"server_id", []string{"10.0.0.1"}}, {"dns", []string{"1.1.1.1"}}, {"nbp", []string{"tftp://10.0.0.1/boot.efi"}}}}
		if res, err := runChainChild(spec, 60*time.Second); err == nil && res.SetupErr == "" {
			judge(spec, res, "PXE clients through nbp")
			emitAsmCases(c, spec, res)
		}
	}
	for k := 0; k < c.Scale(25, 600); k++ {
		spec := chainSpec{Files: files, Lif: []int{0, 7001}[r.Intn(2)], WatchdogMs: 3000, Plugins4: genChain(c, c01Pool4, "")}
		n := 6 + r.Intn(30)
		for i := 0; i < n; i++ {
			raw, _ := genDgram4(c)
			spec.Dgrams = append(spec.Dgrams, chainDgram{Proto: 4, Hex: hex.EncodeToString(raw), Oob: []int{-1, 0, 7001, 7002}[r.Intn(4)], Peer: "0.0.0.0"})
		}
		res, err := runChainChild(spec, 90*time.Second)
		if err != nil || res.SetupErr != "" {
			continue
		}
		judge(spec, res, "generated")
		emitAsmCases(c, spec, res)
		c.Eval(fmt.Sprintf("real11/%s/%d", chainNames(spec.Plugins4), n), true)
	}
}
