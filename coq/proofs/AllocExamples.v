(* AllocExamples.v — concrete pools and histories showing that the hypotheses of the
   C04–C07 theorems are met by non-trivial reachable states (non-vacuity). *)
From Verif Require Import Base BaseProofs Net NetProofs Bitset IdxAlloc BitsetProofs Ipcalc IpcalcProofs IpcalcRun Alloc AllocRun Alloc4Proofs Alloc6Proofs AllocTheorems.
Open Scope N_scope.

Definition ex_pool : bytes := [32;1;13;184;0;0;1;0;0;0;0;0;0;0;0;0].      (* 2001:db8:0:100::/56, /64 blocks *)
Definition ex_a6 : a6 := {| a6_ip := ex_pool; a6_mask := cidr_bytes 16 56; a6_page := 64; a6_bm := bs_new 256 |}.
Definition m64 : bytes := cidr_bytes 16 64.
Definition blk (i : N) : bytes := [32;1;13;184;0;0;1;i;0;0;0;0;0;0;0;0].

Lemma ex_valid : new6 ex_pool (cidr_bytes 16 56) 64 = Ok ex_a6 /\ valid6 ex_a6 56 64.
Proof.
  split; [vm_compute; reflexivity|].
  constructor; cbn [a6_ip a6_mask a6_page a6_bm ex_a6]; try (vm_compute; reflexivity).
  - split; [reflexivity|]. apply wf_bytesb_spec. vm_compute. reflexivity.
  - repeat split; vm_compute; congruence.
  - change (2 ^ (64 - 56)) with 256. apply binv_new.
Qed.

(* allocate, free the block, allocate again (C04: re-issue only after a Free);
   a hint inside block 7 (C07); a free 2 blocks below the base fails (C06, the former F2);
   a hint longer than the page keeps its length (C05) *)
Definition ex_ops : list aop :=
  [OAlloc [] []; OFree (blk 0) m64; OAlloc [] [];
   OAlloc [32;1;13;184;0;0;1;7;0;0;0;0;0;0;0;9] (cidr_bytes 16 72);
   OFree [32;1;13;184;0;0;0;254;0;0;0;0;0;0;0;0] m64;
   OFree (blk 7) m64; OFree (blk 7) m64].

Lemma ex_run : run step6 ex_a6 ex_ops =
  [RAlloc (Ok (blk 0, m64)); RFree (Ok tt); RAlloc (Ok (blk 0, m64));
   RAlloc (Ok (blk 7, cidr_bytes 16 72)); RFree (Err ENotInRange); RFree (Ok tt); RFree (Err EDoubleFree)].
Proof. vm_compute. reflexivity. Qed.

Lemma ex_ops_wf : Forall wf_op ex_ops.
Proof.
  repeat constructor; try (apply wf_bytesb_spec; vm_compute; reflexivity).
Qed.

(* IPv4: 10.0.0.1 .. 10.0.0.2, exhausted by two allocations, hint honoured in both spellings *)
Definition ex_a4 : a4 := {| a4_start := 167772161; a4_end := 167772162; a4_bm := bs_new 2 |}.
Lemma ex4_new : new4 [10;0;0;1] [10;0;0;2] = Ok ex_a4.
Proof. vm_compute. reflexivity. Qed.
Lemma ex4_run : run step4 ex_a4
    [OAlloc [0;0;0;0;0;0;0;0;0;0;255;255;10;0;0;2] []; OAlloc [] []; OAlloc [] [];
     OFree [10;0;0;2] []; OAlloc [10;0;0;2] []; OFree [10;0;0;9] []] =
  [RAlloc (Ok ([10;0;0;2], mask32)); RAlloc (Ok ([10;0;0;1], mask32)); RAlloc (Err ENoAddr);
   RFree (Ok tt); RAlloc (Ok ([10;0;0;2], mask32)); RFree (Err ENotInRange)].
Proof. vm_compute. reflexivity. Qed.
