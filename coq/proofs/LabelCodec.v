(* LabelCodec.v — the Domain Search option (RFC 1035 labels without compression, as the library's
   rfc1035label writes them): for every list of configured domains whose dot-separated parts are
   1..63 bytes long, the option bytes decode to exactly those parts, name by name. *)
From Coq Require Import List Arith NArith Lia ZifyN ZifyNat ZifyBool.
From Verif Require Import Base Plugins4.
Import ListNotations.
Open Scope N_scope.

(* decoder: a name is a sequence of length-prefixed parts ended by a zero byte *)
Fixpoint dec_names (fuel : nat) (b : bytes) (cur : list bytes) : option (list (list bytes)) :=
  match fuel with
  | O => None
  | S f =>
      match b with
      | [] => match cur with [] => Some [] | _ => None end        (* a name must be terminated *)
      | n :: b' =>
          if n =? 0 then option_map (cons cur) (dec_names f b' [])
          else if 63 <? n then None                                  (* compression pointers / reserved types are not written *)
          else if Nat.ltb (length b') (N.to_nat n) then None
          else dec_names f (skipn (N.to_nat n) b') (cur ++ [firstn (N.to_nat n) b'])
      end
  end.

Definition part_ok (p : bytes) : Prop := (1 <= length p <= 63)%nat.

Local Open Scope nat_scope.

Lemma decn_fuel : forall f1 f2 b cur, length b < f1 -> length b < f2 -> dec_names f1 b cur = dec_names f2 b cur.
Proof.
  induction f1 as [|f1 IH]; intros f2 b cur H1 H2; [lia|]. destruct f2 as [|f2]; [lia|].
  cbn [dec_names]. destruct b as [|n b]; [reflexivity|]. cbn [length] in H1, H2.
  destruct (n =? 0)%N; [rewrite (IH f2 b []) by lia; reflexivity|].
  destruct (63 <? n)%N; [reflexivity|]. destruct (Nat.ltb (length b) (N.to_nat n)); [reflexivity|].
  apply IH; rewrite skipn_length; lia.
Qed.

Lemma dec_parts : forall parts rest cur fuel, Forall part_ok parts ->
  length (flat_map (fun part => (N.of_nat (length part) mod 256)%N :: part) parts ++ rest) < fuel ->
  dec_names fuel (flat_map (fun part => (N.of_nat (length part) mod 256)%N :: part) parts ++ rest) cur =
  dec_names (S (length rest)) rest (cur ++ parts).
Proof.
  induction parts as [|p parts IH]; intros rest cur fuel Hok Hf; cbn [flat_map app length] in *.
  - rewrite app_nil_r. apply decn_fuel; lia.
  - pose proof (Forall_inv Hok) as [H1 H63].
    destruct fuel as [|fuel]; [lia|]. cbn [dec_names].
    assert (Em : (N.of_nat (length p) mod 256)%N = N.of_nat (length p)) by (apply N.mod_small; lia).
    rewrite Em. destruct (N.of_nat (length p) =? 0)%N eqn:E0; [apply N.eqb_eq in E0; lia|].
    destruct (63 <? N.of_nat (length p))%N eqn:E63; [apply N.ltb_lt in E63; lia|].
    rewrite Nat2N.id. rewrite <- !app_assoc.
    destruct (Nat.ltb_spec (length (p ++ flat_map (fun part => (N.of_nat (length part) mod 256)%N :: part) parts ++ rest)) (length p)) as [Hlt|_];
      [rewrite app_length in Hlt; lia|].
    rewrite firstn_app, Nat.sub_diag, firstn_O, app_nil_r, firstn_all.
    rewrite skipn_app, Nat.sub_diag, skipn_all. cbn [skipn app].
    rewrite <- app_assoc in Hf. rewrite app_length in Hf.
    rewrite IH; [|exact (Forall_inv_tail Hok)|lia].
    rewrite <- app_assoc. reflexivity.
Qed.

Lemma decn_zero f b cur : dec_names (S f) (0%N :: b) cur = option_map (cons cur) (dec_names f b []).
Proof. reflexivity. Qed.

Lemma split_dot_nonempty s cur : split_dot s cur <> [].
Proof. revert cur; induction s as [|c s IH]; intro cur; cbn [split_dot]; [discriminate|]. destruct (c =? 46)%N; [discriminate|apply IH]. Qed.

Definition domain_ok (d : bytes) : Prop := d <> [] /\ Forall part_ok (split_dot d []).

Theorem dec_enc_labels : forall ds fuel, Forall domain_ok ds ->
  length (enc_labels ds) < fuel ->
  dec_names fuel (enc_labels ds) [] = Some (map (fun d => split_dot d []) ds).
Proof.
  induction ds as [|d ds IH]; intros fuel Hok Hf; cbn [enc_labels flat_map map] in *.
  - destruct fuel; [lia|]. reflexivity.
  - fold (enc_labels ds) in *. destruct (Forall_inv Hok) as [Hne Hparts].
    unfold enc_label in *. destruct d as [|c d]; [contradiction|].
    set (parts := split_dot (c :: d) []) in *.
    rewrite <- app_assoc in Hf |- *.
    rewrite dec_parts by (try exact Hparts; exact Hf).
    cbn [app length]. rewrite decn_zero.
    rewrite IH; [reflexivity|exact (Forall_inv_tail Hok)|lia].
Qed.
