#!/usr/bin/env python3
"""mkprops.py <out.v> <header-file> name=lemma ... : writes a props file whose theorems restate,
in full, the types of the given lemmas (as printed by Check) and are closed by `exact`."""
import sys, subprocess, re
out, header = sys.argv[1], open(sys.argv[2]).read()
pairs = [a.split('=') for a in sys.argv[3:]]
imports = re.search(r'^(From Verif Require Import [^.]*\.)', header, re.M).group(1)
src = imports + '\nSet Printing Width 100.\n' + ''.join('Check @%s.\n' % l for _, l in pairs)
p = subprocess.run(['coqtop', '-Q', 'lib', 'Verif', '-Q', 'model', 'Verif', '-Q', 'gen', 'Verif', '-Q', 'proofs', 'Verif', '-quiet'],
                   input=src, capture_output=True, text=True, cwd='/verif/coq')
txt = p.stdout
body = header.rstrip() + '\n\n'
for name, lemma in pairs:
    short = lemma.split('.')[-1]
    m = re.search(r'^(?:Coq < )*@?' + re.escape(short) + r'\n\s+: (.*?)(?=\n\S|\n\n|\Z)', txt, re.S | re.M)
    if not m:
        sys.exit('no type for ' + lemma + '\n' + txt[-2000:])
    ty = m.group(1)
    ty = '\n'.join('  ' + l.strip() if i else l.strip() for i, l in enumerate(ty.splitlines()))
    body += 'Theorem %s :\n  %s.\nProof. exact (@%s). Qed.\nPrint Assumptions %s.\n\n' % (name, ty, lemma, name)
open(out, 'w').write(body)
