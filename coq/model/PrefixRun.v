(* PrefixRun.v — histories for the prefix-plugin correspondence check (C08, C09) *)
From Verif Require Import Base Net Bitset Ipcalc Alloc IpcalcRun PrefixPlugin.
Open Scope N_scope.

Inductive pop := PReq (now : Z) (client : option bytes) (pds : list (bytes * list hint)).

(* observed: per IA_PD the IAID and the delegated (ip, mask) pairs, in order *)
Inductive pobs := ODrop | OResp (iapds : list (bytes * list (bytes * bytes))) | OPanic.

Definition pair_list_eqb (a b : list (bytes * bytes)) : bool :=
  Nat.eqb (length a) (length b) &&
  forallb (fun xy => bytes_eqb (fst (fst xy)) (fst (snd xy)) && bytes_eqb (snd (fst xy)) (snd (snd xy))) (combine a b).

Definition iapds_eqb (a : list (bytes * list lease)) (b : list (bytes * list (bytes * bytes))) : bool :=
  Nat.eqb (length a) (length b) &&
  forallb (fun xy => bytes_eqb (fst (fst xy)) (fst (snd xy)) &&
                     pair_list_eqb (map (fun l => (ls_ip l, ls_mask l)) (snd (fst xy))) (snd (snd xy))) (combine a b).

Fixpoint prun_ok (st : pstate) (ops : list pop) (outs : list pobs) : bool :=
  match ops, outs with
  | [], [] => true
  | PReq now c pds :: ops', o :: outs' =>
      let '(st', r) := prefix_handle now st c pds in
      match r, o with
      | PDrop, ODrop => prun_ok st' ops' outs'
      | PResp x, OResp y => iapds_eqb x y && prun_ok st' ops' outs'
      | PPanic, OPanic => match outs' with [] => true | _ => false end
      | _, _ => false
      end
  | _, _ => false
  end.

Inductive pcase6 := CPfx (pip pmask : bytes) (size : Z) (ops : list pop) (outs : list pobs).

Definition check_pcase6 (c : pcase6) : bool :=
  match c with
  | CPfx pip pmask size ops outs =>
      match prefix_setup pip pmask size with
      | Ok st => prun_ok st ops outs
      | _ => match outs with [] => true | _ => false end
      end
  end.

Definition mismatches (l : list pcase6) : list nat := mismatch_idx check_pcase6 l 0.
