(* Config.v — model of config/config.go over the DECODED configuration tree (what viper.Get
   returns: YAML decoding and viper are outside, an oracle): parseConfig per protocol,
   getPlugins / parsePlugins with the cast semantics, parseListen (interface alias, scalar or
   list, defaults, link-local multicast expansion over a given interface list),
   getListenAddress, splitHostPort with a faithful net.SplitHostPort. *)
From Verif Require Import Base Net Msg4 FilePlugin Setup.
Open Scope N_scope.

(* a decoded YAML value; YFloat carries the text cast.ToString renders; YOther: anything cast cannot render *)
Inductive yv :=
| YNull | YStr (s : bytes) | YInt (z : Z) | YBool (b : bool) | YFloat (txt : bytes)
| YList (l : list yv) | YMap (m : list (bytes * yv)).

Fixpoint ymap_get (k : bytes) (m : list (bytes * yv)) : option yv :=
  match m with
  | [] => None
  | (k', v) :: m' => if bytes_eqb k' k then Some v else ymap_get k m'
  end.

(* viper.Get("a.b") on the tree: nil for a missing key and for an explicit null *)
Definition yget (k : bytes) (v : option yv) : option yv :=
  match v with
  | Some (YMap m) => match ymap_get k m with Some YNull => None | r => r end
  | _ => None
  end.

(* decimal rendering of an int (strconv) *)
Fixpoint dec_digits (fuel : nat) (n : N) (acc : bytes) : bytes :=
  match fuel with
  | O => acc
  | S f => let acc' := (48 + n mod 10) :: acc in
           if n / 10 =? 0 then acc' else dec_digits f (n / 10) acc'
  end.
Definition dec_of_Z (z : Z) : bytes :=
  if (z <? 0)%Z then 45 :: dec_digits 80 (Z.to_N (- z)) [] else dec_digits 80 (Z.to_N z) [].

(* cast.ToString: "" for nil and for values it cannot render *)
Definition to_string (v : option yv) : bytes :=
  match v with
  | Some (YStr s) => s
  | Some (YInt z) => dec_of_Z z
  | Some (YBool true) => [116;114;117;101]
  | Some (YBool false) => [102;97;108;115;101]
  | Some (YFloat t) => t
  | _ => []
  end.

(* cast.ToStringE succeeds? *)
Definition stringable (v : yv) : bool :=
  match v with YList _ | YMap _ => false | _ => true end.

Inductive cres (A : Type) := COk (a : A) | CErr (why : N).
Arguments COk {A} a.
Arguments CErr {A} why.
(* error classes: 1 plugins section, 2 plugin item, 3 listen+interface, 4 address syntax, 5 address value/family,
   6 port, 7 multicast expansion, 8 no protocol section *)

(* parsePlugins: every item a map with exactly one key; args = Fields(ToString(value)) *)
Fixpoint parse_plugins (items : list yv) : cres (list (bytes * list bytes)) :=
  match items with
  | [] => COk []
  | it :: items' =>
      match it with
      | YMap [(name, v)] =>
          match parse_plugins items' with
          | COk r => COk ((name, fields (to_string (match v with YNull => None | _ => Some v end)) []) :: r)
          | CErr e => CErr e
          end
      | _ => CErr 2
      end
  end.

(* getPlugins: cast.ToSlice gives nil for anything but a non-empty list *)
Definition get_plugins (server : option yv) : cres (list (bytes * list bytes)) :=
  match yget [112;108;117;103;105;110;115] server with      (* "plugins" *)
  | Some (YList (it :: items)) => parse_plugins (it :: items)
  | _ => CErr 1
  end.

(* ---------- net.SplitHostPort ---------- *)
Fixpoint index_of (c : N) (s : bytes) : option nat :=
  match s with
  | [] => None
  | x :: s' => if x =? c then Some O else option_map S (index_of c s')
  end.

Fixpoint last_index_of (c : N) (s : bytes) : option nat :=
  match s with
  | [] => None
  | x :: s' => match last_index_of c s' with
               | Some i => Some (S i)
               | None => if x =? c then Some O else None
               end
  end.

Definition has (c : N) (s : bytes) : bool := match index_of c s with Some _ => true | None => false end.

Definition COLON : N := 58.  Definition LBR : N := 91.  Definition RBR : N := 93.  Definition PCT : N := 37.

(* (host, port) or an error *)
Definition net_split_host_port (hp : bytes) : option (bytes * bytes) :=
  match last_index_of COLON hp with
  | None => None                                               (* missing port *)
  | Some i =>
      match hp with
      | c0 :: _ =>
          if c0 =? LBR then
            match index_of RBR hp with
            | None => None                                     (* missing ']' *)
            | Some e =>
                if Nat.eqb (S e) (length hp) then None         (* missing port *)
                else if Nat.eqb (S e) i then
                  let host := firstn (e - 1) (skipn 1 hp) in
                  if has LBR (skipn 1 hp) then None            (* unexpected '[' *)
                  else if has RBR (skipn (S e) hp) then None   (* unexpected ']' *)
                  else Some (host, skipn (S i) hp)
                else None                                      (* too many colons / missing port *)
            end
          else
            let host := firstn i hp in
            if has COLON host then None                        (* too many colons *)
            else if has LBR hp then None
            else if has RBR hp then None
            else Some (host, skipn (S i) hp)
      | [] => None
      end
  end.

(* config.splitHostPort: ip, zone, port; a missing port is not an error *)
Definition split_host_port (hp : bytes) : option (bytes * bytes * bytes) :=
  let r := match net_split_host_port hp with
           | Some (h, p) => Some (h, p)
           | None => match net_split_host_port (hp ++ [COLON; 48]) with
                     | Some (h, _) => Some (h, [])
                     | None => None
                     end
           end in
  match r with
  | None => None
  | Some (h, p) =>
      match last_index_of PCT h with
      | Some i => Some (firstn i h, skipn (S i) h, p)
      | None => Some (h, [], p)
      end
  end.

(* ---------- listen addresses ---------- *)
Record udpaddr := { ua_ip : bytes; ua_port : Z; ua_zone : bytes }.

Section Listen.
Variable O : oracles.
(* the interfaces of the host, as net.Interfaces() lists them: (name, multicast flag, broadcast flag) *)
Variable ifaces : list (bytes * bool * bool).

Definition is_multicast_ll (ip : bytes) : bool :=      (* IsLinkLocalMulticast || IsInterfaceLocalMulticast *)
  match to4 ip with
  | Some (a :: b :: c :: _) => (a =? 224) && (b =? 0) && (c =? 0)
  | Some _ => false
  | None => match ip with
            | a :: b :: _ => lenb ip 16 && (a =? 255) && ((N.land b 15 =? 2) || (N.land b 15 =? 1))
            | _ => false
            end
  end.

Definition get_listen_address (v6 : bool) (addr : bytes) : cres udpaddr :=
  match split_host_port addr with
  | None => CErr 4
  | Some (ipstr, zone, portstr) =>
      let ip := match ipstr with
                | [] => Some (if v6 then zeros 16 else v4in6_prefix ++ [0;0;0;0])
                | _ => o_parse_ip O ipstr
                end in
      match ip with
      | None => CErr 5
      | Some ip =>
          let is4 := match to4 ip with Some _ => true | None => false end in
          if (v6 && is4) || (negb v6 && negb is4) then CErr 5
          else
            match portstr with
            | [] => COk {| ua_ip := ip; ua_port := if v6 then 547%Z else 67%Z; ua_zone := zone |}
            | _ => match o_atoi O portstr with
                   | Some p => COk {| ua_ip := ip; ua_port := p; ua_zone := zone |}
                   | None => CErr 6
                   end
            end
      end
  end.

(* expandLLMulticast: one listener per interface with the needed flags *)
Definition expand_mc (a : udpaddr) : cres (list udpaddr) :=
  let need_bc := match to4 (ua_ip a) with Some _ => true | None => false end in
  let sel := filter (fun i => let '(_, mc, bc) := i in mc && (negb need_bc || bc)) ifaces in
  match sel with
  | [] => CErr 7
  | _ => COk (map (fun i => {| ua_ip := ua_ip a; ua_port := ua_port a; ua_zone := fst (fst i) |}) sel)
  end.

Definition ALL_RELAYS_SERVERS : bytes := [255;2;0;0;0;0;0;0;0;0;0;0;0;1;0;2].   (* ff02::1:2 *)
Definition ALL_SERVERS : bytes := [255;5;0;0;0;0;0;0;0;0;0;0;0;1;0;3].          (* ff05::1:3 *)

Definition default_listen (v6 : bool) : cres (list udpaddr) :=
  if v6 then
    match expand_mc {| ua_ip := ALL_RELAYS_SERVERS; ua_port := 547; ua_zone := [] |} with
    | COk l => COk (l ++ [{| ua_ip := ALL_SERVERS; ua_port := 547; ua_zone := [] |}])
    | CErr e => CErr e
    end
  else COk [{| ua_ip := []; ua_port := 67; ua_zone := [] |}].

Fixpoint listen_addrs (v6 : bool) (addrs : list bytes) : cres (list udpaddr) :=
  match addrs with
  | [] => COk []
  | a :: addrs' =>
      match get_listen_address v6 a with
      | CErr e => CErr e
      | COk l =>
          let this := if match ua_zone l with [] => true | _ => false end && is_multicast_ll (ua_ip l)
                      then expand_mc l else COk [l] in
          match this with
          | CErr e => CErr e
          | COk ls => match listen_addrs v6 addrs' with
                      | COk r => COk (ls ++ r)
                      | CErr e => CErr e
                      end
          end
      end
  end.

(* cast.ToStringSliceE(listen), falling back to []string{cast.ToString(listen)} *)
Definition listen_strings (v : yv) : list bytes :=
  match v with
  | YList l => if forallb (fun _ => true) l then map (fun x => to_string (match x with YNull => None | _ => Some x end)) l else []
  | YStr s => fields s []
  | YMap _ => [[]]
  | other => [to_string (Some other)]
  end.

Definition parse_listen (v6 : bool) (server : option yv) : cres (list udpaddr) :=
  let listen := yget [108;105;115;116;101;110] server in                    (* "listen" *)
  let iface := yget [105;110;116;101;114;102;97;99;101] server in           (* "interface" *)
  match iface, listen with
  | Some _, Some _ => CErr 3
  | _, _ =>
      let listen := match iface with Some i => Some (YStr (PCT :: to_string (Some i))) | None => listen end in
      match listen with
      | None => default_listen v6
      | Some l => listen_addrs v6 (listen_strings l)
      end
  end.

(* parseConfig for one protocol: None = no section (valid) *)
Definition parse_proto (v6 : bool) (root : yv) : cres (option (list udpaddr * list (bytes * list bytes))) :=
  let key := if v6 then [115;101;114;118;101;114;54] else [115;101;114;118;101;114;52] in   (* "server6" / "server4" *)
  match yget key (Some root) with
  | None => COk None
  | Some s =>
      match get_plugins (Some s) with
      | CErr e => CErr e
      | COk pl => match parse_listen v6 (Some s) with
                  | CErr e => CErr e
                  | COk ls => COk (Some (ls, pl))
                  end
      end
  end.

(* Load: DHCPv6 first, then DHCPv4; at least one section *)
Definition load_config (root : yv)
  : cres (option (list udpaddr * list (bytes * list bytes)) * option (list udpaddr * list (bytes * list bytes))) :=
  match parse_proto true root with
  | CErr e => CErr e
  | COk s6 => match parse_proto false root with
              | CErr e => CErr e
              | COk s4 => match s6, s4 with
                          | None, None => CErr 8
                          | _, _ => COk (s6, s4)
                          end
              end
  end.
End Listen.
