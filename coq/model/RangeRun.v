(* RangeRun.v — histories for the range-plugin correspondence check (C02, C03) *)
From Verif Require Import Base Net Bitset Alloc Msg4 IpcalcRun RangePlugin.
Open Scope N_scope.

Inductive rop :=
| RReq (t0 t1 : Z) (chaddr host : bytes)       (* clock readings taken just before and after the call *)
| RRestart (table : list (bytes * bytes))     (* restart; carries the (mac, ip) rows the harness read *)
| RRestartAs (s' e' : bytes) (table : list (bytes * bytes)).   (* restart on the same database with another configured range *)

Inductive rout :=
| ROut (yiaddr : bytes) (opt51 : bytes) (expiry : option Z)   (* expiry: the client's row in leases4 after the call *)
| RDrop
| RRestartOk (table_agrees : bool)
| RRestartErr
| RPanic.

Definition empty_msg : msg4 :=
  {| m_op := 2; m_htype := 1; m_hops := 0; m_xid := 0; m_secs := 0; m_flags := 0;
     m_ciaddr := [0;0;0;0]; m_yiaddr := [0;0;0;0]; m_siaddr := [0;0;0;0]; m_giaddr := [0;0;0;0];
     m_chaddr := []; m_sname := []; m_file := []; m_opts := [] |}.

Definition req_of (chaddr host : bytes) : msg4 :=
  {| m_op := 1; m_htype := 1; m_hops := 0; m_xid := 0; m_secs := 0; m_flags := 0;
     m_ciaddr := [0;0;0;0]; m_yiaddr := [0;0;0;0]; m_siaddr := [0;0;0;0]; m_giaddr := [0;0;0;0];
     m_chaddr := chaddr; m_sname := []; m_file := [];
     m_opts := match host with [] => [] | _ => [(12, host)] end |}.

Definition pair_in (p : bytes * bytes) (l : list (bytes * bytes)) : bool :=
  existsb (fun q => bytes_eqb (fst p) (fst q) && bytes_eqb (snd p) (snd q)) l.
Definition table_eqb (a b : list (bytes * bytes)) : bool :=
  Nat.eqb (length a) (length b) && forallb (fun p => pair_in p b) a && forallb (fun p => pair_in p a) b.

(* The implementation reads its own clock somewhere between t0 and t1.  Stored expiries are
   monotone in the clock readings, so the model is run twice - on the readings before (lo) and
   after (hi) each call - and the observed expiry must lie between the two. *)
Definition exp_of (st : rstate) (ch : bytes) : option Z :=
  option_map rc_exp (recs_get (mac_string ch) (rs_recs st)).

Definition rstep1 (s e : bytes) (st : rstate) (now : Z) (ch host : bytes) : rstate * rout :=
  let '(st', r) := range_handler st now (req_of ch host) empty_msg in
  (st', match r with
        | Ok (Some m, _) => ROut (m_yiaddr m) (match opt_get 51 (m_opts m) with Some x => x | None => [] end) (exp_of st' ch)
        | Ok (None, _) => RDrop
        | _ => RPanic
        end).

Definition restart1 (s e : bytes) (st : rstate) : option rstate :=
  match range_setup s e (rs_lease st) (rs_db st) with Ok st' => Some st' | _ => None end.

(* does the observation agree with the two model runs? *)
Definition rout_ok (lo hi obs : rout) : bool :=
  match lo, hi, obs with
  | ROut y o el, ROut y' o' eh, ROut y'' o'' ex =>
      bytes_eqb y y'' && bytes_eqb y' y'' && bytes_eqb o o'' && bytes_eqb o' o'' &&
      match ex, el, eh with
      | Some x, Some l, Some h => (l <=? x)%Z && (x <=? h)%Z
      | None, _, _ => true
      | _, _, _ => false
      end
  | RDrop, RDrop, RDrop | RPanic, RPanic, RPanic => true
  | _, _, _ => false
  end.

Fixpoint rrun_ok (s e : bytes) (lo hi : rstate) (ops : list rop) (outs : list rout) : bool :=
  match ops, outs with
  | [], [] => true
  | RReq t0 t1 ch host :: ops', obs :: outs' =>
      let '(lo', rl) := rstep1 s e lo t0 ch host in
      let '(hi', rh) := rstep1 s e hi t1 ch host in
      rout_ok rl rh obs && match obs with RPanic => match outs' with [] => true | _ => false end | _ => rrun_ok s e lo' hi' ops' outs' end
  | RRestart tbl :: ops', obs :: outs' =>
      let agrees := table_eqb tbl (map (fun r => (r_mac r, r_ip r)) (rs_db lo)) in
      match restart1 s e lo, restart1 s e hi, obs with
      | Some lo', Some hi', RRestartOk a => Bool.eqb a agrees && rrun_ok s e lo' hi' ops' outs'
      | None, None, RRestartErr => match outs' with [] => true | _ => false end
      | _, _, _ => false
      end
  | RRestartAs s2 e2 tbl :: ops', obs :: outs' =>
      let agrees := table_eqb tbl (map (fun r => (r_mac r, r_ip r)) (rs_db lo)) in
      match restart1 s2 e2 lo, restart1 s2 e2 hi, obs with
      | Some lo', Some hi', RRestartOk a => Bool.eqb a agrees && rrun_ok s2 e2 lo' hi' ops' outs'
      | None, None, RRestartErr => match outs' with [] => true | _ => false end
      | _, _, _ => false
      end
  | _, _ => false
  end.

Inductive rcase := CR (s e : bytes) (lease : Z) (ops : list rop) (outs : list rout).

Definition check_rcase (c : rcase) : bool :=
  match c with
  | CR s e lease ops outs =>
      match range_setup s e lease [] with
      | Ok st => rrun_ok s e st st ops outs
      | _ => match outs with [RRestartErr] => true | _ => false end
      end
  end.

Definition mismatches (l : list rcase) : list nat := mismatch_idx check_rcase l 0.
