package main

// Child mode `implrun chainsub`: one server configuration (a DHCPv4 and/or a DHCPv6 plugin chain,
// set up in this fresh process exactly once, as the server does at start-up) fed a history of raw
// datagrams through HandleMsg4/HandleMsg6 via the capture hook.  Every datagram is handled in its
// own goroutine, as Serve does; a watchdog reports a handler that does not come back.

import (
	"encoding/hex"
	"encoding/json"
	"fmt"
	"net"
	"os"
	"path/filepath"
	"strings"
	"sync"
	"sync/atomic"
	"time"

	"github.com/coredhcp/coredhcp/handler"
	"github.com/coredhcp/coredhcp/logger"
	"github.com/coredhcp/coredhcp/server"
	"golang.org/x/net/ipv4"
	"golang.org/x/net/ipv6"
)

type chainPlug struct {
	Name string   `json:"name"`
	Args []string `json:"args"` // "$DIR" is replaced by the child's scratch directory
}

type chainDgram struct {
	Proto int    `json:"proto"`
	Hex   string `json:"hex"`
	Oob   int    `json:"oob"`  // interface index of the control message, -1 = no control message
	Peer  string `json:"peer"` // source address (DHCPv6: decides nothing for direct messages, used for relays)
	Via   int    `json:"via"`  // start mode: index of the listen address the datagram is sent to
}

type chainSpec struct {
	Plugins4   []chainPlug       `json:"plugins4"`
	Plugins6   []chainPlug       `json:"plugins6"`
	Lif        int               `json:"lif"`
	Files      map[string]string `json:"files"`
	Dgrams     []chainDgram      `json:"dgrams"`
	WatchdogMs int               `json:"watchdog_ms"`
	// start mode: the whole server is started with server.Start on Listeners loopback addresses per
	// protocol (DHCPv4: Net4+".1", ".2", .. port Port; DHCPv6: [::1] ports Port+1, Port+2, ..) and the
	// datagrams travel through real sockets; DHCPv4 datagrams are relayed ones (giaddr Net4+".8")
	Start     bool   `json:"start"`
	Listeners int    `json:"listeners"`
	Net4      string `json:"net4"`
	Port      int    `json:"port"`
}

type chainSend struct {
	Payload string `json:"payload"`
	Dst     string `json:"dst"`
	IfIndex int    `json:"ifindex"` // -1 = no control message
}

type chainOut struct {
	Sends   []chainSend `json:"sends"`
	Panic   string      `json:"panic"`
	Hang    bool        `json:"hang"`
	Skipped bool        `json:"skipped"`
	L2      []string    `json:"l2"`
	Millis  int64       `json:"ms"`
}

type chainResult struct {
	SetupErr  string     `json:"setup_err"`
	Outs      []chainOut `json:"outs"`
	Peer6Port int        `json:"peer6_port"` // start mode: the source port of the DHCPv6 client socket
	CloseHang bool       `json:"close_hang"` // start mode: Close + Wait did not return
}

func init() {
	if len(os.Args) >= 2 && os.Args[1] == "chainsub" {
		chainsubMain()
		os.Exit(0)
	}
}

func chainsubMain() {
	logger.WithNoStdOutErr(logger.GetLogger("verif"))
	hook := installHook()
	var spec chainSpec
	if err := json.NewDecoder(os.Stdin).Decode(&spec); err != nil {
		fmt.Fprintln(os.Stderr, "chainsub: bad spec:", err)
		os.Exit(4)
	}
	res := chainResult{Outs: []chainOut{}}
	emit := func() { json.NewEncoder(os.Stdout).Encode(res) }
	if spec.Start {
		startMain(spec, &res)
		emit()
		return
	}
	dir, err := os.MkdirTemp(workDir(), "chain")
	if err != nil {
		res.SetupErr = "harness: " + err.Error()
		emit()
		return
	}
	defer os.RemoveAll(dir)
	for name, content := range spec.Files {
		os.WriteFile(filepath.Join(dir, name), []byte(content), 0o644)
	}
	sub := func(args []string) []string {
		out := make([]string, len(args))
		for i, a := range args {
			out[i] = strings.ReplaceAll(a, "$DIR", dir)
		}
		return out
	}
	var hs4 []handler.Handler4
	var hs6 []handler.Handler6
	setupErr := func() (msg string) {
		defer func() {
			if r := recover(); r != nil {
				msg = fmt.Sprintf("setup panic: %v", r)
			}
		}()
		for _, p := range spec.Plugins4 {
			pl := builtin[p.Name]
			if pl == nil || pl.Setup4 == nil {
				return "no DHCPv4 setup for " + p.Name
			}
			h, err := pl.Setup4(sub(p.Args)...)
			if err != nil || h == nil {
				return fmt.Sprintf("%s%v: %v", p.Name, p.Args, err)
			}
			hs4 = append(hs4, h)
		}
		for _, p := range spec.Plugins6 {
			pl := builtin[p.Name]
			if pl == nil || pl.Setup6 == nil {
				return "no DHCPv6 setup for " + p.Name
			}
			h, err := pl.Setup6(sub(p.Args)...)
			if err != nil || h == nil {
				return fmt.Sprintf("%s%v: %v", p.Name, p.Args, err)
			}
			hs6 = append(hs6, h)
		}
		return ""
	}()
	if setupErr != "" {
		res.SetupErr = setupErr
		emit()
		return
	}
	var mu sync.Mutex
	var sends []chainSend
	sink4 := func(payload []byte, cm *ipv4.ControlMessage, dst net.Addr) {
		mu.Lock()
		defer mu.Unlock()
		s := chainSend{Payload: hex.EncodeToString(payload), Dst: dst.String(), IfIndex: -1}
		if cm != nil {
			s.IfIndex = cm.IfIndex
		}
		sends = append(sends, s)
	}
	sink6 := func(payload []byte, cm *ipv6.ControlMessage, dst net.Addr) {
		mu.Lock()
		defer mu.Unlock()
		s := chainSend{Payload: hex.EncodeToString(payload), Dst: dst.String(), IfIndex: -1}
		if cm != nil {
			s.IfIndex = cm.IfIndex
		}
		sends = append(sends, s)
	}
	ifi := net.Interface{Index: spec.Lif}
	l4 := server.NewVerifListener4(hs4, ifi, sink4)
	l6 := server.NewVerifListener6(hs6, ifi, sink6)
	wd := time.Duration(spec.WatchdogMs) * time.Millisecond
	if wd == 0 {
		wd = 3 * time.Second
	}
	// a file plugin with autorefresh: its lease file is rewritten (same content, in place) again and
	// again while datagrams are handled, so that reloads and lookups interleave
	var stopRefresh int32
	var rwg sync.WaitGroup
	for _, pl := range append(append([]chainPlug{}, spec.Plugins4...), spec.Plugins6...) {
		if pl.Name == "file" && len(pl.Args) >= 2 && pl.Args[1] == "autorefresh" {
			path := sub(pl.Args[:1])[0]
			content, err := os.ReadFile(path)
			if err != nil {
				continue
			}
			rwg.Add(1)
			go func() {
				defer rwg.Done()
				for atomic.LoadInt32(&stopRefresh) == 0 {
					if f, err := os.OpenFile(path, os.O_WRONLY, 0); err == nil {
						f.WriteAt(content, 0)
						f.Close()
					}
					time.Sleep(300 * time.Microsecond)
				}
			}()
		}
	}
	defer func() {
		atomic.StoreInt32(&stopRefresh, 1)
		rwg.Wait()
	}()
	hung := 0
	for _, dg := range spec.Dgrams {
		var o chainOut
		if hung >= 2 {
			o.Skipped = true
			res.Outs = append(res.Outs, o)
			continue
		}
		raw, _ := hex.DecodeString(dg.Hex)
		mu.Lock()
		sends = nil
		mu.Unlock()
		hook.take()
		done := make(chan string, 1)
		t0 := time.Now()
		go func() {
			msg := ""
			defer func() {
				if r := recover(); r != nil {
					msg = fmt.Sprintf("%v", r)
					if msg == "" {
						msg = "panic"
					}
				}
				done <- msg
			}()
			peer := &net.UDPAddr{IP: net.ParseIP(dg.Peer), Port: 68}
			if dg.Proto == 4 {
				var cm *ipv4.ControlMessage
				if dg.Oob >= 0 {
					cm = &ipv4.ControlMessage{IfIndex: dg.Oob}
				}
				l4.Handle(raw, cm, peer)
			} else {
				var cm *ipv6.ControlMessage
				if dg.Oob >= 0 {
					cm = &ipv6.ControlMessage{IfIndex: dg.Oob}
				}
				peer.Port = 546
				l6.Handle(raw, cm, peer)
			}
		}()
		select {
		case msg := <-done:
			o.Panic = msg
		case <-time.After(wd):
			o.Hang = true
			hung++
		}
		o.Millis = time.Since(t0).Milliseconds()
		mu.Lock()
		o.Sends = append([]chainSend{}, sends...)
		mu.Unlock()
		for _, m := range hook.take() {
			if reL2.MatchString(m) {
				o.L2 = append(o.L2, m)
			}
		}
		res.Outs = append(res.Outs, o)
	}
	emit()
}
