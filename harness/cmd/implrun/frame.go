package main

// C15, last case of the table ("unicast at link level to the client's hardware address and the
// offered address"): the frame server/sendEthernet.go really emits.  sendEthernet is called (through
// the hook wrapper VerifSendEthernet) on the loopback interface with a 6-byte source address of our
// choosing; an AF_PACKET socket bound to the loopback interface reads the frame back.  Each frame
// (or error, or panic) is compared byte for byte with the Coq model lib/Frame.v (CFrame cases), and
// independent monitors restate the property on the bytes: destination MAC = chaddr, IPv4 source =
// siaddr, destination = yiaddr, UDP 67 -> 68, both checksums verify, lengths agree, and the payload
// parses back (dhcpv4.FromBytes) to the reply that was to be sent.

import (
	"bytes"
	"encoding/binary"
	"fmt"
	"net"
	"sync"
	"sync/atomic"
	"syscall"
	"time"

	"github.com/coredhcp/coredhcp/server"
	"github.com/insomniacslk/dhcp/dhcpv4"
)

func htons(v uint16) uint16 { return v<<8 | v>>8 }

type sniffer struct{ fd int }

func openSniffer(ifindex int) (*sniffer, error) {
	fd, err := syscall.Socket(syscall.AF_PACKET, syscall.SOCK_RAW, int(htons(syscall.ETH_P_ALL)))
	if err != nil {
		return nil, err
	}
	if err := syscall.Bind(fd, &syscall.SockaddrLinklayer{Protocol: htons(syscall.ETH_P_ALL), Ifindex: ifindex}); err != nil {
		syscall.Close(fd)
		return nil, err
	}
	tv := syscall.Timeval{Usec: 20000}
	syscall.SetsockoptTimeval(fd, syscall.SOL_SOCKET, syscall.SO_RCVTIMEO, &tv)
	syscall.SetsockoptInt(fd, syscall.SOL_SOCKET, syscall.SO_RCVBUF, 4<<20)
	return &sniffer{fd}, nil
}

func (s *sniffer) close() { syscall.Close(s.fd) }

// next outgoing frame accepted by match, waiting at most d
func (s *sniffer) next(d time.Duration, match func([]byte) bool) []byte {
	buf := make([]byte, 70000)
	deadline := time.Now().Add(d)
	for time.Now().Before(deadline) {
		n, from, err := syscall.Recvfrom(s.fd, buf, 0)
		if err != nil || n <= 0 {
			continue
		}
		if ll, ok := from.(*syscall.SockaddrLinklayer); ok && ll.Pkttype != 4 { // PACKET_OUTGOING only
			continue
		}
		if match(buf[:n]) {
			return append([]byte{}, buf[:n]...)
		}
	}
	return nil
}

// the Internet checksum of RFC 1071 over data with an initial sum (written independently of gopacket)
func inetSum(data []byte, init uint64) uint16 {
	s := init
	for i := 0; i+1 < len(data); i += 2 {
		s += uint64(binary.BigEndian.Uint16(data[i:]))
	}
	if len(data)%2 == 1 {
		s += uint64(data[len(data)-1]) << 8
	}
	for s>>16 != 0 {
		s = s&0xffff + s>>16
	}
	return uint16(s)
}

func runFrames(c *Ctx) {
	r := c.R
	lo, err := net.InterfaceByName("lo")
	if err != nil {
		c.Count("frame:skipped-no-loopback")
		return
	}
	sn, err := openSniffer(lo.Index)
	if err != nil {
		c.Count("frame:skipped-no-packet-socket")
		c.Extra["frame_capture"] = "AF_PACKET socket unavailable: " + err.Error()
		return
	}
	defer sn.close()
	c.SetCases("From Verif Require Import Base Msg4 Frame FrameRun.", "FrameRun.mismatches")
	c.shard = 40
	n := c.Scale(300, 6000)
	for i := 0; i < n; i++ {
		s := randReq4(c)
		s.op = 1
		s.chaddr = r.Bytes([]int{6, 6, 6, 6, 6, 6, 6, 6, 6, 6, 6, 6, 6, 6, 6, 6, 0, 1, 5, 7, 16}[r.Intn(21)])
		s.xid = uint32(0xf0000000) | uint32(r.U64()&0xfffffff)
		req, err := dhcpv4.FromBytes(buildReq4(s))
		if err != nil {
			continue
		}
		resp, err := dhcpv4.NewReplyFromRequest(req)
		if err != nil {
			continue
		}
		resp.UpdateOption(dhcpv4.OptMessageType([]dhcpv4.MessageType{dhcpv4.MessageTypeOffer, dhcpv4.MessageTypeAck}[r.Intn(2)]))
		resp.YourIPAddr = net.IP{10, byte(r.Intn(256)), byte(r.Intn(256)), byte(r.Intn(256))}
		resp.ServerIPAddr = net.IP{192, 168, byte(r.Intn(256)), byte(1 + r.Intn(254))}
		switch r.Intn(24) {
		case 0:
			resp.ServerIPAddr = net.ParseIP("10.0.0.1") // 16-byte form
		case 1:
			resp.YourIPAddr = net.ParseIP("10.9.8.7")
		case 2:
			resp.ServerIPAddr = nil
		case 3:
			resp.YourIPAddr = nil
		case 4:
			resp.YourIPAddr = net.ParseIP("2001:db8::1") // ToBytes panics (F10's shape)
		case 5:
			resp.ServerIPAddr = net.IPv4zero
		case 6:
			resp.YourIPAddr = net.IP{255, 255, 255, 255}
		}
		resp.HopCount = byte(r.Intn(3))
		if r.Pct(30) {
			resp.ServerHostName = []string{"srv", "boot.example"}[r.Intn(2)]
		}
		if r.Pct(30) {
			resp.BootFileName = []string{"pxelinux.0", "a/b/c.efi"}[r.Intn(2)]
		}
		k := r.Intn(7)
		for j := 0; j < k; j++ {
			code := uint8([]int{1, 3, 6, 12, 15, 26, 51, 54, 66, 67, 119, 121, 224, 250}[r.Intn(14)])
			l := []int{0, 1, 2, 4, 4, 8, 16, 17, 33, 254, 255, 256, 300, 600}[r.Intn(14)]
			resp.Options[code] = r.Bytes(l)
		}
		mac := r.Bytes(6)
		switch r.Intn(16) {
		case 0:
			mac = nil // the loopback interface itself: no hardware address
		case 1:
			mac = r.Bytes(8)
		}
		model := vMsg4(resp)
		var sendErr error
		panicked := ""
		func() {
			defer func() {
				if x := recover(); x != nil {
					panicked = fmt.Sprint(x)
				}
			}()
			sendErr = server.VerifSendEthernet(net.Interface{Index: lo.Index, Name: "lo", HardwareAddr: mac}, resp)
		}()
		in := map[string]interface{}{"reply": resp.Summary(), "source mac": fmt.Sprintf("%x", mac)}
		c.Evals++
		switch {
		case panicked != "":
			c.AddCase(fmt.Sprintf("CFrame %s %s FPanic", vBytes(mac), model))
			c.Count("frame:panic")
			continue
		case sendErr != nil:
			c.AddCase(fmt.Sprintf("CFrame %s %s FErr", vBytes(mac), model))
			c.Count("frame:error")
			continue
		}
		xid := resp.TransactionID
		match := func(b []byte) bool {
			return len(b) >= 50 && b[12] == 8 && b[13] == 0 && bytes.Equal(b[46:50], xid[:])
		}
		f := sn.next(500*time.Millisecond, match)
		for try := 0; f == nil && try < 3; try++ {
			// a packet socket may drop under load: hand the same reply over again before concluding
			c.Count("frame:capture-retry")
			if err := server.VerifSendEthernet(net.Interface{Index: lo.Index, Name: "lo", HardwareAddr: mac}, resp); err != nil {
				break
			}
			f = sn.next(time.Second, match)
		}
		if f == nil {
			c.vio("C15", "frame-not-emitted", "sendEthernet returned no error but no frame left on the interface", in)
			continue
		}
		c.Count("frame:captured")
		c.AddCase(fmt.Sprintf("CFrame %s %s (FBytes %s)", vBytes(mac), model, vBytes(f)))
		in["frame"] = fmt.Sprintf("%x", f)
		bad := func(what string) { c.vio("C15", "l2-frame", "layer-2 reply: "+what, in) }
		ip, udp := f[14:34], f[34:42]
		if !bytes.Equal(f[0:6], resp.ClientHWAddr) {
			bad(fmt.Sprintf("destination MAC %x is not the client's hardware address %x", f[0:6], []byte(resp.ClientHWAddr)))
		}
		if !bytes.Equal(f[6:12], mac) {
			bad(fmt.Sprintf("source MAC %x is not the interface's %x", f[6:12], mac))
		}
		if ip[0] != 0x45 || ip[9] != 17 {
			bad(fmt.Sprintf("not an option-less IPv4 header carrying UDP (version/IHL %#x, protocol %d)", ip[0], ip[9]))
		}
		if ip[8] == 0 {
			bad("TTL 0")
		}
		if !bytes.Equal(ip[16:20], resp.YourIPAddr.To4()) {
			bad(fmt.Sprintf("IP destination %v is not the offered address %v", net.IP(ip[16:20]), resp.YourIPAddr))
		}
		if !bytes.Equal(ip[12:16], resp.ServerIPAddr.To4()) {
			bad(fmt.Sprintf("IP source %v is not the reply's siaddr %v", net.IP(ip[12:16]), resp.ServerIPAddr))
		}
		if int(binary.BigEndian.Uint16(ip[2:])) != len(f)-14 {
			bad(fmt.Sprintf("IPv4 total length %d but %d bytes follow the Ethernet header", binary.BigEndian.Uint16(ip[2:]), len(f)-14))
		}
		if inetSum(ip, 0) != 0xffff {
			bad("IPv4 header checksum does not verify")
		}
		if sp, dp := binary.BigEndian.Uint16(udp[0:]), binary.BigEndian.Uint16(udp[2:]); sp != 67 || dp != 68 {
			bad(fmt.Sprintf("UDP ports %d -> %d, not 67 -> 68", sp, dp))
		}
		ulen := int(binary.BigEndian.Uint16(udp[4:]))
		if ulen != len(f)-34 {
			bad(fmt.Sprintf("UDP length %d but %d bytes follow the IPv4 header", ulen, len(f)-34))
		}
		if binary.BigEndian.Uint16(udp[6:]) != 0 {
			pseudo := uint64(binary.BigEndian.Uint16(ip[12:])) + uint64(binary.BigEndian.Uint16(ip[14:])) +
				uint64(binary.BigEndian.Uint16(ip[16:])) + uint64(binary.BigEndian.Uint16(ip[18:])) + 17 + uint64(ulen)
			if inetSum(f[34:], pseudo) != 0xffff {
				bad("UDP checksum does not verify")
			}
		}
		back, err := dhcpv4.FromBytes(f[42:])
		if err != nil {
			bad("payload does not parse as DHCPv4: " + err.Error())
		} else if !bytes.Equal(back.ToBytes(), resp.ToBytes()) {
			bad("payload is not the reply that was to be sent")
		}
	}
	c.Extra["frame_capture"] = "sendEthernet called on the loopback interface with chosen 6-byte (sometimes absent / 8-byte) source addresses; frames read back from an AF_PACKET socket (outgoing copies only)"
}

// runFramesConcurrent (C16): several layer-2 replies leave at the same moment (as they do when
// datagrams of several address-less clients are handled concurrently).  Every frame read back must
// be one client's frame as a whole - destination MAC, offered address and DHCP payload of the same
// reply - and every reply must produce its frame.
func runFramesConcurrent(c *Ctx, rounds int) {
	lo, err := net.InterfaceByName("lo")
	if err != nil {
		c.Count("frame-conc:skipped-no-loopback")
		return
	}
	sn, err := openSniffer(lo.Index)
	if err != nil {
		c.Count("frame-conc:skipped-no-packet-socket")
		return
	}
	defer sn.close()
	const G = 8
	mac := []byte{2, 0xc1, 0x6c, 0, 0, 1}
	for r := 0; r < rounds; r++ {
		resps := make([]*dhcpv4.DHCPv4, G)
		want := map[[4]byte]int{}
		for g := 0; g < G; g++ {
			s := req4spec{op: 1, mtype: []byte{1}, chaddr: []byte{2, 0xc1, 0x6c, byte(r), byte(r >> 8), byte(g)}, xid: 0xc1600000 | uint32(r&0xfff)<<8 | uint32(g)}
			req, _ := dhcpv4.FromBytes(buildReq4(s))
			resp, _ := dhcpv4.NewReplyFromRequest(req)
			resp.UpdateOption(dhcpv4.OptMessageType(dhcpv4.MessageTypeOffer))
			resp.YourIPAddr = net.IP{10, 16, byte(r), byte(g + 1)}
			resp.ServerIPAddr = net.IP{10, 16, 0, 254}
			resp.Options[12] = bytes.Repeat([]byte{byte('a' + g)}, 20+g*13) // replies of different lengths
			resps[g] = resp
			want[resp.TransactionID] = g
		}
		var start int32
		var wg sync.WaitGroup
		errs := make([]string, G)
		for g := 0; g < G; g++ {
			wg.Add(1)
			go func(g int) {
				defer wg.Done()
				defer func() {
					if x := recover(); x != nil {
						errs[g] = fmt.Sprint("panic: ", x)
					}
				}()
				for atomic.LoadInt32(&start) == 0 {
				}
				if err := server.VerifSendEthernet(net.Interface{Index: lo.Index, Name: "lo", HardwareAddr: mac}, resps[g]); err != nil {
					errs[g] = err.Error()
				}
			}(g)
		}
		atomic.StoreInt32(&start, 1)
		wg.Wait()
		c.Evals++
		in := map[string]interface{}{"round": r, "simultaneous layer-2 replies": G}
		for g := 0; g < G; g++ {
			if errs[g] != "" {
				c.vio("C16", "concurrent-l2-send-fails", fmt.Sprintf("one of %d simultaneous layer-2 replies failed: %s", G, errs[g]), in)
			}
		}
		seen := map[int]bool{}
		deadline := time.Now().Add(400 * time.Millisecond)
		for len(seen) < G && time.Now().Before(deadline) {
			f := sn.next(50*time.Millisecond, func(b []byte) bool {
				return len(b) >= 50 && b[12] == 8 && b[13] == 0 && b[46] == 0xc1 && b[47] >= 0x60 && b[47] <= 0x6f
			})
			if f == nil {
				continue
			}
			var xid [4]byte
			copy(xid[:], f[46:50])
			g, ok := want[xid]
			if !ok {
				continue // a frame of an earlier round
			}
			seen[g] = true
			exp := resps[g]
			bad := ""
			switch {
			case !bytes.Equal(f[0:6], exp.ClientHWAddr):
				bad = fmt.Sprintf("destination MAC %x, but the DHCP payload is the reply for %x", f[0:6], []byte(exp.ClientHWAddr))
			case !bytes.Equal(f[30:34], exp.YourIPAddr.To4()):
				bad = fmt.Sprintf("IP destination %v, but the DHCP payload offers %v", net.IP(f[30:34]), exp.YourIPAddr)
			case int(binary.BigEndian.Uint16(f[16:])) != len(f)-14:
				bad = "IPv4 total length does not match the frame"
			case inetSum(f[14:34], 0) != 0xffff:
				bad = "IPv4 header checksum does not verify"
			default:
				if back, err := dhcpv4.FromBytes(f[42:]); err != nil || !bytes.Equal(back.ToBytes(), exp.ToBytes()) {
					bad = "the DHCP payload is not the reply that was handed to sendEthernet"
				}
			}
			if bad != "" {
				in["frame"] = fmt.Sprintf("%x", f)
				c.vio("C16", "concurrent-l2-frame-mixed", fmt.Sprintf("%d layer-2 replies sent at the same moment: a frame left whose parts belong to different replies: %s", G, bad), in)
			}
		}
	}
	c.Count("frame-conc:rounds")
	c.Dist["frame-conc:rounds"] = rounds
}
