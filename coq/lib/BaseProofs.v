(* BaseProofs.v — facts about big-endian byte strings and Go's 64-bit arithmetic *)
From Verif Require Import Base.
From Coq Require Import Lia ZifyN ZifyNat ZifyBool.
Open Scope N_scope.

Lemma W64_eq : W64 = 2 ^ 64. Proof. reflexivity. Qed.
Lemma W64_pos : 0 < W64. Proof. reflexivity. Qed.

(* ---------- be_val ---------- *)
Lemma fold_be_acc (l : bytes) (acc : N) :
  fold_left (fun a b => a * 256 + b) l acc = acc * 256 ^ N.of_nat (length l) + be_val l.
Proof.
  unfold be_val. revert acc.
  induction l as [|x l IH]; intros acc.
  - cbn [fold_left length]. change (N.of_nat 0) with 0. rewrite N.pow_0_r. lia.
  - cbn [fold_left length]. rewrite IH. rewrite (IH (0 * 256 + x)).
    rewrite Nat2N.inj_succ, N.pow_succ_r'. lia.
Qed.

Lemma be_val_nil : be_val [] = 0. Proof. reflexivity. Qed.

Lemma be_val_cons x l : be_val (x :: l) = x * 256 ^ N.of_nat (length l) + be_val l.
Proof. unfold be_val at 1. cbn [fold_left]. rewrite fold_be_acc. lia. Qed.

Lemma be_val_app l1 l2 :
  be_val (l1 ++ l2) = be_val l1 * 256 ^ N.of_nat (length l2) + be_val l2.
Proof.
  unfold be_val at 1. rewrite fold_left_app. fold (be_val l1). apply fold_be_acc.
Qed.

Lemma be_val_bound l : wf_bytes l -> be_val l < 256 ^ N.of_nat (length l).
Proof.
  induction l as [|x l IH]; intros H.
  - reflexivity.
  - inversion H as [|? ? Hx Hl]; subst. rewrite be_val_cons. cbn [length].
    rewrite Nat2N.inj_succ, N.pow_succ_r'. specialize (IH Hl). nia.
Qed.

Lemma wf_bytes_app l1 l2 : wf_bytes (l1 ++ l2) <-> wf_bytes l1 /\ wf_bytes l2.
Proof. unfold wf_bytes. apply Forall_app. Qed.


Lemma in_firstn {A} n (l : list A) x : In x (firstn n l) -> In x l.
Proof.
  revert l; induction n as [|n IH]; intros l H.
  - destruct l; cbn in H; contradiction.
  - destruct l as [|y l]; cbn in H; [contradiction|].
    destruct H as [H|H]; [left; exact H|right; apply IH; exact H].
Qed.
Lemma in_skipn {A} n (l : list A) x : In x (skipn n l) -> In x l.
Proof.
  revert l; induction n as [|n IH]; intros l H.
  - exact H.
  - destruct l as [|y l]; cbn in H; [contradiction|]. right; apply IH; exact H.
Qed.

Lemma wf_bytes_firstn n l : wf_bytes l -> wf_bytes (firstn n l).
Proof.
  unfold wf_bytes. rewrite !Forall_forall. intros H x Hx. apply H. eapply in_firstn; eauto.
Qed.
Lemma wf_bytes_skipn n l : wf_bytes l -> wf_bytes (skipn n l).
Proof.
  unfold wf_bytes. rewrite !Forall_forall. intros H x Hx. apply H. eapply in_skipn; eauto.
Qed.

Lemma wf_bytesb_spec l : wf_bytesb l = true <-> wf_bytes l.
Proof.
  unfold wf_bytesb, wf_bytes. rewrite forallb_forall, Forall_forall.
  split; intros H x Hx; specialize (H x Hx); lia.
Qed.

(* ---------- bytes_compare is numeric comparison on equal lengths ---------- *)
Lemma bytes_compare_spec a b :
  wf_bytes a -> wf_bytes b -> length a = length b ->
  (bytes_compare a b = 0%Z <-> be_val a = be_val b) /\
  (bytes_compare a b = (-1)%Z <-> be_val a < be_val b) /\
  (bytes_compare a b = 1%Z <-> be_val b < be_val a).
Proof.
  revert b. induction a as [|x a IH]; intros [|y b] Ha Hb Hlen; try discriminate.
  - cbn. repeat split; intros; try lia; try discriminate.
  - inversion Ha as [|? ? Hx Ha']; inversion Hb as [|? ? Hy Hb']; subst.
    injection Hlen as Hlen.
    specialize (IH b Ha' Hb' Hlen).
    pose proof (be_val_bound a Ha') as Ba. pose proof (be_val_bound b Hb') as Bb.
    rewrite !be_val_cons. rewrite <- Hlen in *.
    set (P := 256 ^ N.of_nat (length a)) in *.
    cbn [bytes_compare].
    destruct (x <? y) eqn:Hxy; [|destruct (y <? x) eqn:Hyx].
    + repeat split; intros; try lia; try discriminate; nia.
    + repeat split; intros; try lia; try discriminate; nia.
    + assert (x = y) by lia. subst y.
      destruct IH as (I0 & I1 & I2).
      repeat split; intros H.
      * apply I0 in H. lia.
      * apply I0. lia.
      * apply I1 in H. lia.
      * apply I1. lia.
      * apply I2 in H. lia.
      * apply I2. lia.
Qed.

Lemma bytes_compare_range a b :
  bytes_compare a b = 0%Z \/ bytes_compare a b = (-1)%Z \/ bytes_compare a b = 1%Z.
Proof.
  revert b; induction a as [|x a IH]; intros [|y b]; cbn; auto.
  destruct (x <? y); auto. destruct (y <? x); auto.
Qed.

(* ---------- be_bytes ---------- *)
Lemma be_bytes_length n x : length (be_bytes n x) = n.
Proof.
  revert x; induction n as [|n IH]; intros x; cbn [be_bytes]; [reflexivity|].
  rewrite app_length, IH. cbn. lia.
Qed.

Lemma be_bytes_wf n x : wf_bytes (be_bytes n x).
Proof.
  revert x; induction n as [|n IH]; intros x; cbn [be_bytes]; [constructor|].
  apply wf_bytes_app. split; [apply IH|]. constructor; [|constructor].
  apply N.mod_lt. discriminate.
Qed.

Lemma be_val_be_bytes n x : be_val (be_bytes n x) = x mod 256 ^ N.of_nat n.
Proof.
  revert x; induction n as [|n IH]; intros x; cbn [be_bytes].
  - cbn. rewrite N.mod_1_r. reflexivity.
  - rewrite be_val_app, IH. cbn [length]. change (N.of_nat 1) with 1. rewrite N.pow_1_r.
    unfold be_val at 1; cbn [fold_left].
    rewrite Nat2N.inj_succ, N.pow_succ_r'.
    rewrite N.mod_mul_r by (try apply N.pow_nonzero; discriminate).
    (* x mod (P*256) = x mod 256 + 256 * ((x/256) mod P)  *)
    lia.
Qed.

Lemma be_bytes_be_val l : wf_bytes l -> be_bytes (length l) (be_val l) = l.
Proof.
  induction l as [|x l IH] using rev_ind; intros H; [reflexivity|].
  apply wf_bytes_app in H. destruct H as [Hl Hx]. inversion Hx as [|? ? Hx' _]; subst.
  rewrite app_length. cbn [length]. rewrite Nat.add_1_r. cbn [be_bytes].
  rewrite be_val_app. cbn [length]. change (256 ^ N.of_nat 1) with 256.
  unfold be_val at 2 4; cbn [fold_left].
  replace ((be_val l * 256 + (0 * 256 + x)) / 256) with (be_val l).
  2:{ symmetry. rewrite N.mul_0_l, N.add_0_l. rewrite N.div_add_l by discriminate.
      rewrite N.div_small by assumption. lia. }
  replace ((be_val l * 256 + (0 * 256 + x)) mod 256) with x.
  2:{ symmetry. rewrite N.mul_0_l, N.add_0_l. rewrite N.add_comm, N.mod_add by discriminate.
      apply N.mod_small; assumption. }
  rewrite IH by assumption. reflexivity.
Qed.

(* ---------- splitting a 16-byte address into two 64-bit halves ---------- *)
Definition hi (a : bytes) : N := be_val (firstn 8 a).
Definition lo (a : bytes) : N := be_val (firstn 8 (skipn 8 a)).
Definition wf_ip16 (a : bytes) : Prop := length a = 16%nat /\ wf_bytes a.

Lemma ip16_split a : wf_ip16 a -> be_val a = hi a * W64 + lo a /\ hi a < W64 /\ lo a < W64.
Proof.
  intros [Hlen Hwf]. unfold hi, lo.
  assert (Hs : length (skipn 8 a) = 8%nat) by (rewrite skipn_length; lia).
  rewrite (firstn_all2 (skipn 8 a)) by lia.
  rewrite <- (firstn_skipn 8 a) at 1. rewrite be_val_app, Hs.
  pose proof (be_val_bound (firstn 8 a) (wf_bytes_firstn 8 a Hwf)) as B1.
  pose proof (be_val_bound (skipn 8 a) (wf_bytes_skipn 8 a Hwf)) as B2.
  rewrite firstn_length_le in B1 by lia. rewrite Hs in B2.
  change (256 ^ N.of_nat 8) with W64 in *. auto.
Qed.

Lemma ip16_of_halves h l : h < W64 -> l < W64 ->
  be_bytes 8 h ++ be_bytes 8 l = be_bytes 16 (h * W64 + l).
Proof.
  intros Hh Hl.
  assert (E : be_bytes 16 (h * W64 + l) =
              be_bytes (length (be_bytes 8 h ++ be_bytes 8 l)) (be_val (be_bytes 8 h ++ be_bytes 8 l))).
  { rewrite app_length, !be_bytes_length. f_equal.
    rewrite be_val_app, !be_val_be_bytes, be_bytes_length.
    change (256 ^ N.of_nat 8) with W64. rewrite !N.mod_small by assumption. reflexivity. }
  rewrite E. symmetry. apply be_bytes_be_val.
  apply wf_bytes_app; split; apply be_bytes_wf.
Qed.
