(* C02 — DHCPv4 dynamic leases: in range, one client per address, stable per client.
   Histories: any finite sequence of requests (HReq now chaddr hostname; DISCOVER and REQUEST take
   the same path through Handler4) and restarts on the lease database (HRestart ord, ord = the
   order in which Go's map iteration re-marks the stored leases, any permutation), starting
   from Setup4 on an empty database.  `replies ops outs` are the (chaddr, yiaddr) pairs of the
   replies.  All schedules: Handler4 is one critical section under the plugin mutex (C16). *)
From Verif Require Import Base BaseProofs Net NetProofs Bitset IdxAlloc BitsetProofs Ipcalc IpcalcRun Alloc AllocRun Alloc4Proofs Msg4 RangePlugin RangeRun RangeProofs RangeTheorems RangeExamples RangeSetupAny.
From Coq Require Import Permutation.
Open Scope N_scope.

Theorem range_never_fails :
  forall (s e : bytes) (lease : Z) (st0 : rstate),
  wf_bytes s ->
  wf_bytes e ->
  range_setup s e lease [] = Ok st0 ->
  forall ops : list hop, Forall wf_hop ops -> ~ In HFail (snd (hrun s e st0 ops)).
Proof. exact RangeTheorems.range_never_fails. Qed.
Print Assumptions range_never_fails.

Theorem range_in_range :
  forall (s e : bytes) (lease : Z) (st0 : rstate),
  wf_bytes s ->
  wf_bytes e ->
  range_setup s e lease [] = Ok st0 ->
  forall ops : list hop,
  Forall wf_hop ops ->
  forall c y : bytes,
  In (c, y) (replies ops (snd (hrun s e st0 ops))) ->
  length y = 4%nat /\ be_val (to4_or_nil s) <= be_val y <= be_val (to4_or_nil e).
Proof. exact RangeTheorems.range_in_range. Qed.
Print Assumptions range_in_range.

Theorem range_unique_sticky :
  forall (s e : bytes) (lease : Z) (st0 : rstate),
  wf_bytes s ->
  wf_bytes e ->
  range_setup s e lease [] = Ok st0 ->
  forall ops : list hop,
  Forall wf_hop ops ->
  forall c1 y1 c2 y2 : bytes,
  wf_bytes c1 ->
  wf_bytes c2 ->
  In (c1, y1) (replies ops (snd (hrun s e st0 ops))) ->
  In (c2, y2) (replies ops (snd (hrun s e st0 ops))) -> c1 = c2 <-> y1 = y2.
Proof. exact RangeTheorems.range_unique_sticky. Qed.
Print Assumptions range_unique_sticky.

Theorem range_lease_time :
  forall (s e : bytes) (lease : Z) (st0 : rstate),
  wf_bytes s ->
  wf_bytes e ->
  range_setup s e lease [] = Ok st0 ->
  forall ops : list hop,
  Forall wf_hop ops ->
  Forall
  (fun r : hout =>
  match r with
  | HReply _ o51 => o51 = Some (lease_opt lease)
  | _ => True
  end) (snd (hrun s e st0 ops)).
Proof. exact RangeTheorems.range_lease_time. Qed.
Print Assumptions range_lease_time.

Theorem range_exhaustion :
  forall (s e : bytes) (lease : Z) (st0 : rstate),
  wf_bytes s ->
  wf_bytes e ->
  range_setup s e lease [] = Ok st0 ->
  forall (ops : list hop) (now : Z) (c host : bytes),
  Forall wf_hop ops ->
  wf_bytes c ->
  let st := fst (hrun s e st0 ops) in
  let outs := snd (hrun s e st0 ops) in
  let known := In (mac_string c) (map fst (bindings st)) in
  let full :=
  N.of_nat (length (bindings st)) = be_val (to4_or_nil e) - be_val (to4_or_nil s) + 1 in
  ((exists y : bytes, In (c, y) (replies ops outs)) -> known) /\
  match snd (hstep s e st (HReq now c host)) with
  | HReply _ _ => known \/ ~ full
  | HDrop => ~ known /\ full
  | _ => False
  end.
Proof. exact RangeTheorems.range_exhaustion. Qed.
Print Assumptions range_exhaustion.


Theorem restart_on_any_database_in_range :
  forall (s e : bytes) (lease : Z) (db : list row) (st : rstate),
  wf_bytes s ->
  wf_bytes e ->
  range_setup s e lease db = Ok st ->
  exists s4 e4 : bytes,
  to4 s = Some s4 /\
  to4 e = Some e4 /\
  be_u32_of s4 < be_u32_of e4 /\
  (exists idxs : list N,
  map (fun kr : bytes * rec => to4_or_nil (rc_ip (snd kr))) (rs_recs st) =
  map (fun i : N => be_bytes 4 (be_u32_of s4 + i)) idxs /\
  NoDup idxs /\
  (forall i : N, In i idxs -> be_u32_of s4 + i <= be_u32_of e4) /\
  (forall i : N, In i (bits (a4_bm (rs_alloc st))) <-> In i idxs)).
Proof. exact (@RangeSetupAny.setup_any_db_in_range). Qed.
Print Assumptions restart_on_any_database_in_range.

(* Non-vacuity: a concrete set-up and history meet the hypotheses (proofs/RangeExamples.v):
   two clients with a 5-byte and a 1-byte hardware address on a 2-address range, a restart
   re-marking in reverse order, then a third client that is dropped while both keep their address. *)
Example hypotheses_satisfiable :
  range_setup ex_s ex_e ex_lease [] = Ok ex_st0 /\ (wf_bytes ex_s /\ wf_bytes ex_e /\ Forall wf_hop ex_hops) /\
  snd (hrun ex_s ex_e ex_st0 ex_hops) =
  [HReply [10;0;0;1] (Some [0;0;14;16]); HReply [10;0;0;2] (Some [0;0;14;16]); HRestarted;
   HReply [10;0;0;1] (Some [0;0;14;16]); HDrop; HReply [10;0;0;2] (Some [0;0;14;16])].
Proof. exact (conj ex_setup (conj ex_wf ex_run)). Qed.
