(* ConcExamples.v — non-vacuity for C16: three goroutines (two of them the same client) send
   requests at once to the range plugin on a 2-address range; under an interleaved schedule all
   of them finish, and the two copies of one client's request get the same address. *)
From Coq Require Import List Arith Lia.
From Verif Require Import Base RangePlugin RangeProofs RangeTheorems RangeExamples Conc ConcProofs ConcRange.
Import ListNotations.
Local Open Scope nat_scope.

Definition ex_conc_reqs : list hop :=
  [HReq 1000%Z [1%N;2%N;3%N;4%N;5%N] []; HReq 1000%Z [7%N] []; HReq 1000%Z [1%N;2%N;3%N;4%N;5%N] []].
(* thread 1 takes the lock; 0 and 2 find it taken; 1 runs and releases; 2 gets in before 0 *)
Definition ex_conc_sched : list nat := [1; 0; 2; 1; 0; 1; 2; 0; 2; 2; 0; 0; 0].
Definition ex_conc_cfg := run _ _ _ (map (aop _ _ _ (hstep ex_s ex_e)) ex_conc_reqs) ex_st0 ex_conc_sched.

Lemma ex_conc_done : all_done _ _ _ (map (aop _ _ _ (hstep ex_s ex_e)) ex_conc_reqs) ex_conc_cfg.
Proof.
  intros t Ht. cbn [map length ex_conc_reqs] in Ht.
  destruct t as [|[|[|t]]]; [eexists; vm_compute; reflexivity..|lia].
Qed.

Lemma ex_conc_results :
  thr _ _ _ ex_conc_cfg =
  [Done _ _ _ (Some (HReply [10%N;0%N;0%N;2%N] (Some [0%N;0%N;14%N;16%N])));
   Done _ _ _ (Some (HReply [10%N;0%N;0%N;1%N] (Some [0%N;0%N;14%N;16%N])));
   Done _ _ _ (Some (HReply [10%N;0%N;0%N;2%N] (Some [0%N;0%N;14%N;16%N])))].
Proof. vm_compute. reflexivity. Qed.

Lemma ex_conc_wf : Forall wf_hop ex_conc_reqs.
Proof. repeat constructor. Qed.
