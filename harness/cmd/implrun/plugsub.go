package main

// Child mode: one plugin configuration in a fresh process (the plugins keep package-level
// state, so "set up once in a fresh process" needs a process of its own).
//   implrun plugsub  < spec.json  > result.json

import (
	"bytes"
	"encoding/hex"
	"encoding/json"
	"fmt"
	"os"
	"time"

	"github.com/coredhcp/coredhcp/config"
	"github.com/coredhcp/coredhcp/handler"
	"github.com/coredhcp/coredhcp/logger"
	"github.com/coredhcp/coredhcp/plugins"
	"github.com/coredhcp/coredhcp/plugins/autoconfigure"
	"github.com/coredhcp/coredhcp/plugins/dns"
	"github.com/coredhcp/coredhcp/plugins/file"
	"github.com/coredhcp/coredhcp/plugins/ipv6only"
	"github.com/coredhcp/coredhcp/plugins/leasetime"
	"github.com/coredhcp/coredhcp/plugins/mtu"
	"github.com/coredhcp/coredhcp/plugins/nbp"
	"github.com/coredhcp/coredhcp/plugins/netmask"
	"github.com/coredhcp/coredhcp/plugins/prefix"
	rangepl "github.com/coredhcp/coredhcp/plugins/range"
	"github.com/coredhcp/coredhcp/plugins/router"
	"github.com/coredhcp/coredhcp/plugins/searchdomains"
	"github.com/coredhcp/coredhcp/plugins/serverid"
	"github.com/coredhcp/coredhcp/plugins/sleep"
	"github.com/coredhcp/coredhcp/plugins/staticroute"
	"github.com/insomniacslk/dhcp/dhcpv4"
	"github.com/insomniacslk/dhcp/dhcpv6"
)

var builtin = map[string]*plugins.Plugin{
	"autoconfigure": &autoconfigure.Plugin, "dns": &dns.Plugin, "file": &file.Plugin, "ipv6only": &ipv6only.Plugin,
	"lease_time": &leasetime.Plugin, "mtu": &mtu.Plugin, "nbp": &nbp.Plugin, "netmask": &netmask.Plugin,
	"prefix": &prefix.Plugin, "range": &rangepl.Plugin, "router": &router.Plugin, "searchdomains": &searchdomains.Plugin,
	"server_id": &serverid.Plugin, "sleep": &sleep.Plugin, "staticroute": &staticroute.Plugin,
}

type subRun struct {
	Req  string `json:"req"`
	Resp string `json:"resp"`
}
type subSpec struct {
	Proto int      `json:"proto"`
	Name  string   `json:"name"`
	Args  []string `json:"args"`
	Runs  []subRun `json:"runs"`
}
type subOut struct {
	Panic    bool   `json:"panic"`
	PanicMsg string `json:"panic_msg"`
	Nil      bool   `json:"nil"`
	Stop     bool   `json:"stop"`
	Out      string `json:"out"`
	SerPanic bool   `json:"ser_panic"`
	RTOk     bool   `json:"rt_ok"`
	RTDetail string `json:"rt_detail"`
}
type subResult struct {
	NoSetup    bool     `json:"no_setup"` // the plugin has no setup function for the protocol
	SetupErr   string   `json:"setup_err"`
	SetupPanic string   `json:"setup_panic"`
	NilHandler bool     `json:"nil_handler"`
	Runs       []subOut `json:"runs"`
	// the configuration setup rejected, handed to plugins.LoadPlugins (what the server does at start-up): accepted there?
	LoadAccepted bool `json:"load_accepted"`
	// server_id: the same request answered differently after later, rejected set-up calls
	ReconfigChanged string `json:"reconfig_changed"`
}

func init() {
	if len(os.Args) >= 2 && os.Args[1] == "plugsub" {
		plugsubMain()
		os.Exit(0)
	}
}

func plugsubMain() {
	logger.WithNoStdOutErr(logger.GetLogger("verif"))
	var spec subSpec
	if err := json.NewDecoder(os.Stdin).Decode(&spec); err != nil {
		fmt.Fprintln(os.Stderr, "plugsub: bad spec:", err)
		os.Exit(4)
	}
	res := subResult{Runs: []subOut{}}
	defer func() {
		json.NewEncoder(os.Stdout).Encode(res)
	}()
	p := builtin[spec.Name]
	if p == nil {
		res.SetupErr = "unknown plugin"
		return
	}
	var h4 handler.Handler4
	var h6 handler.Handler6
	var err error
	func() {
		defer func() {
			if r := recover(); r != nil {
				res.SetupPanic = fmt.Sprint(r)
			}
		}()
		if spec.Proto == 4 {
			if p.Setup4 == nil {
				res.NoSetup = true
				return
			}
			h4, err = p.Setup4(spec.Args...)
		} else {
			if p.Setup6 == nil {
				res.NoSetup = true
				return
			}
			h6, err = p.Setup6(spec.Args...)
		}
	}()
	if res.NoSetup || res.SetupPanic != "" {
		return
	}
	if err != nil {
		res.SetupErr = err.Error()
		func() {
			defer func() { recover() }()
			if plugins.RegisterPlugin(p) != nil {
				return
			}
			conf := &config.Config{}
			pc := []config.PluginConfig{{Name: p.Name, Args: spec.Args}}
			if spec.Proto == 4 {
				conf.Server4 = &config.ServerConfig{Plugins: pc}
			} else {
				conf.Server6 = &config.ServerConfig{Plugins: pc}
			}
			_, _, lerr := plugins.LoadPlugins(conf)
			res.LoadAccepted = lerr == nil
		}()
		return
	}
	if (spec.Proto == 4 && h4 == nil) || (spec.Proto == 6 && h6 == nil) {
		res.NilHandler = true
		return
	}
	hung := false
	for _, r := range spec.Runs {
		if hung {
			break // one handler call never returned: the rest of the battery would only wait again
		}
		rb, _ := hex.DecodeString(r.Req)
		pb, _ := hex.DecodeString(r.Resp)
		var o subOut
		if spec.Proto == 4 {
			req, e1 := dhcpv4.FromBytes(rb)
			resp, e2 := dhcpv4.FromBytes(pb)
			if e1 != nil || e2 != nil {
				o.PanicMsg = "harness: unparseable input"
				res.Runs = append(res.Runs, o)
				continue
			}
			var out *dhcpv4.DHCPv4
			func() {
				defer func() {
					if x := recover(); x != nil {
						o.Panic, o.PanicMsg = true, fmt.Sprint(x)
					}
				}()
				// a handler that does not come back (a wait that never ends) is reported, not waited for
				type ret4 struct {
					out  *dhcpv4.DHCPv4
					stop bool
					pan  interface{}
				}
				ch := make(chan ret4, 1)
				go func() {
					var rr ret4
					defer func() {
						rr.pan = recover()
						ch <- rr
					}()
					rr.out, rr.stop = h4(req, resp)
				}()
				select {
				case rr := <-ch:
					if rr.pan != nil {
						panic(rr.pan)
					}
					out, o.Stop = rr.out, rr.stop
				case <-time.After(5 * time.Second):
					hung = true
					panic("the handler did not return within 5 s")
				}
			}()
			if !o.Panic {
				if out == nil {
					o.Nil = true
				} else {
					func() {
						defer func() {
							if x := recover(); x != nil {
								o.SerPanic, o.RTDetail = true, fmt.Sprint(x)
							}
						}()
						wire := out.ToBytes()
						o.Out = hex.EncodeToString(wire)
						back, err := dhcpv4.FromBytes(wire)
						if err != nil {
							o.RTDetail = "does not parse back: " + err.Error()
							return
						}
						o.RTOk = true
						for c, v := range out.Options {
							if !bytes.Equal(back.Options[c], v) {
								o.RTOk = false
								o.RTDetail = fmt.Sprintf("option %d: sent %x, parsed back %x", c, v, back.Options[c])
							}
						}
						for c := range back.Options {
							if _, ok := out.Options[c]; !ok {
								o.RTOk = false
								o.RTDetail = fmt.Sprintf("option %d appears after the round trip", c)
							}
						}
					}()
				}
			}
		} else {
			req, e1 := dhcpv6.FromBytes(rb)
			resp, e2 := dhcpv6.FromBytes(pb)
			if e1 != nil || e2 != nil {
				o.PanicMsg = "harness: unparseable input"
				res.Runs = append(res.Runs, o)
				continue
			}
			var out dhcpv6.DHCPv6
			func() {
				defer func() {
					if x := recover(); x != nil {
						o.Panic, o.PanicMsg = true, fmt.Sprint(x)
					}
				}()
				type ret6 struct {
					out  dhcpv6.DHCPv6
					stop bool
					pan  interface{}
				}
				ch := make(chan ret6, 1)
				go func() {
					var rr ret6
					defer func() {
						rr.pan = recover()
						ch <- rr
					}()
					rr.out, rr.stop = h6(req, resp)
				}()
				select {
				case rr := <-ch:
					if rr.pan != nil {
						panic(rr.pan)
					}
					out, o.Stop = rr.out, rr.stop
				case <-time.After(5 * time.Second):
					hung = true
					panic("the handler did not return within 5 s")
				}
			}()
			if !o.Panic {
				if out == nil {
					o.Nil = true
				} else {
					func() {
						defer func() {
							if x := recover(); x != nil {
								o.SerPanic, o.RTDetail = true, fmt.Sprint(x)
							}
						}()
						wire := out.ToBytes()
						o.Out = hex.EncodeToString(wire)
						back, err := dhcpv6.FromBytes(wire)
						if err != nil {
							o.RTDetail = "does not parse back: " + err.Error()
							return
						}
						if !bytes.Equal(back.ToBytes(), wire) {
							o.RTDetail = "re-serialised reply differs"
							return
						}
						o.RTOk = true
					}()
				}
			}
		}
		res.Runs = append(res.Runs, o)
	}
	// server_id: a later set-up call that is REJECTED (what a failed reload amounts to) must leave the
	// identifier of the instance that is serving untouched: the first answered request is run again
	if spec.Name == "server_id" && !hung {
		var rejected [][]string
		if spec.Proto == 6 {
			rejected = [][]string{{"uuid", "00:11:22:33:44:55"}, {"en", "0a:0b:0c:0d:0e:0f"}, {"bogus", "02:02:02:02:02:02"}}
		} else {
			rejected = [][]string{{"not-an-address"}, {"2001:db8::9"}, {}}
		}
		for _, a := range rejected {
			func() {
				defer func() { recover() }()
				if spec.Proto == 6 {
					p.Setup6(a...)
				} else {
					p.Setup4(a...)
				}
			}()
		}
		for i, r := range spec.Runs {
			if i >= len(res.Runs) || res.Runs[i].Out == "" {
				continue
			}
			rb, _ := hex.DecodeString(r.Req)
			pb, _ := hex.DecodeString(r.Resp)
			again := ""
			func() {
				defer func() { recover() }()
				if spec.Proto == 4 {
					req, e1 := dhcpv4.FromBytes(rb)
					resp, e2 := dhcpv4.FromBytes(pb)
					if e1 == nil && e2 == nil {
						if out, _ := h4(req, resp); out != nil {
							again = hex.EncodeToString(out.ToBytes())
						}
					}
				} else {
					req, e1 := dhcpv6.FromBytes(rb)
					resp, e2 := dhcpv6.FromBytes(pb)
					if e1 == nil && e2 == nil {
						if out, _ := h6(req, resp); out != nil {
							again = hex.EncodeToString(out.ToBytes())
						}
					}
				}
			}()
			if again != res.Runs[i].Out {
				res.ReconfigChanged = fmt.Sprintf("request %d: before %s, after the rejected set-up calls %s", i, res.Runs[i].Out, again)
			}
			break
		}
	}
}
