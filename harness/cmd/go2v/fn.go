package main

// go2v fn: shallow embedding of a small, first-order subset of Go into Gallina.
// It is used for plugins/allocators/ipcalc.go (Offset, AddPrefixes): the C20
// theorems are proved about the *generated* definitions through bridge lemmas,
// so they are re-checked against what the source says on every run.
//
// Supported: parameters/locals of type int, uint, uint64, []byte / net.IP, error;
// if / else-if / else with early return; :=, =, tuple assignment, op=; var decls;
// conversions; + - << >> & | comparisons && || !; a whitelist of library calls
// whose meanings are written by hand in coq/lib/Base.v. Statement lists are
// translated in continuation style: the remainder of a block is duplicated into
// both arms of a non-returning `if`.  Anything else -> error "unsupported".

import (
	"fmt"
	"go/ast"
	"go/constant"
	"go/importer"
	"go/parser"
	"go/token"
	"go/types"
	"path/filepath"
	"sort"
	"strings"
)

type unsupported struct{ msg string }

func (u unsupported) Error() string { return "unsupported: " + u.msg }

func unsup(format string, a ...interface{}) { panic(unsupported{fmt.Sprintf(format, a...)}) }

type fnTr struct {
	fset *token.FileSet
	info *types.Info
	n    int
	// error expression text -> err constructor
	errs map[string]string
}

func (t *fnTr) fresh() string { t.n++; return fmt.Sprintf("t%d_", t.n) }

type kind int

const (
	kInt kind = iota
	kU64
	kBytes
	kBool
	kErr
	kOther
)

func (t *fnTr) kindOf(ty types.Type) kind {
	if ty == nil {
		return kOther
	}
	switch u := ty.Underlying().(type) {
	case *types.Basic:
		switch u.Kind() {
		case types.Int, types.UntypedInt:
			return kInt
		case types.Uint, types.Uint64:
			return kU64
		case types.Bool, types.UntypedBool:
			return kBool
		}
	case *types.Slice:
		if b, ok := u.Elem().Underlying().(*types.Basic); ok && b.Kind() == types.Uint8 {
			return kBytes
		}
	case *types.Interface:
		if ty.String() == "error" {
			return kErr
		}
	}
	return kOther
}

func (t *fnTr) kindE(e ast.Expr) kind {
	tv, ok := t.info.Types[e]
	if !ok {
		return kOther
	}
	return t.kindOf(tv.Type)
}

func coqType(k kind) string {
	switch k {
	case kInt:
		return "Z"
	case kU64:
		return "N"
	case kBytes:
		return "bytes"
	case kBool:
		return "bool"
	}
	return "unit"
}

// binds are monadic prefixes "bind (X) (fun v =>" collected while translating an
// expression; wrap closes them around a body.
type binds struct{ pre []string }

func (b *binds) add(term, v string) { b.pre = append(b.pre, fmt.Sprintf("bind (%s) (fun %s =>", term, v)) }
func (b *binds) wrap(body string) string {
	s := body
	for i := len(b.pre) - 1; i >= 0; i-- {
		s = b.pre[i] + "\n  " + s + ")"
	}
	return s
}

func (t *fnTr) constInt(e ast.Expr) (int64, bool) {
	tv, ok := t.info.Types[e]
	if !ok || tv.Value == nil || tv.Value.Kind() != constant.Int {
		return 0, false
	}
	v, ok := constant.Int64Val(tv.Value)
	return v, ok
}

func (t *fnTr) lit(v int64, k kind) string {
	if k == kInt {
		return fmt.Sprintf("(%d)%%Z", v)
	}
	if v < 0 {
		unsup("negative unsigned constant")
	}
	return fmt.Sprintf("%d", v)
}

func (t *fnTr) expr(e ast.Expr, b *binds) string {
	// constants first (covers net.IPv6len, untyped arithmetic, literals)
	if v, ok := t.constInt(e); ok {
		k := t.kindE(e)
		if k == kInt || k == kU64 {
			return t.lit(v, k)
		}
	}
	switch x := e.(type) {
	case *ast.ParenExpr:
		return t.expr(x.X, b)
	case *ast.Ident:
		if x.Name == "nil" {
			return "[]"
		}
		return x.Name
	case *ast.UnaryExpr:
		if x.Op == token.NOT {
			return "(negb " + t.expr(x.X, b) + ")"
		}
		unsup("unary %s", x.Op)
	case *ast.BinaryExpr:
		return t.binary(x, b)
	case *ast.SliceExpr:
		if x.Slice3 {
			unsup("3-index slice")
		}
		base := t.expr(x.X, b)
		lo, hi := "0", fmt.Sprintf("(length %s)", base)
		if x.Low != nil {
			v, ok := t.constInt(x.Low)
			if !ok {
				unsup("non-constant slice bound")
			}
			lo = fmt.Sprintf("%d", v)
		}
		if x.High != nil {
			v, ok := t.constInt(x.High)
			if !ok {
				unsup("non-constant slice bound")
			}
			hi = fmt.Sprintf("%d", v)
		}
		v := t.fresh()
		b.add(fmt.Sprintf("go_slice %s %s %s", base, lo, hi), v)
		return v
	case *ast.CompositeLit:
		if t.kindE(x) == kBytes && len(x.Elts) == 0 {
			return "[]"
		}
		unsup("composite literal")
	case *ast.CallExpr:
		return t.call(x, b)
	}
	unsup("expression %T at %s", e, t.fset.Position(e.Pos()))
	return ""
}

func (t *fnTr) binary(x *ast.BinaryExpr, b *binds) string {
	switch x.Op {
	case token.LAND, token.LOR:
		l := t.expr(x.X, b)
		var rb binds
		r := t.expr(x.Y, &rb)
		if len(rb.pre) > 0 {
			unsup("effectful right operand of %s", x.Op)
		}
		if x.Op == token.LAND {
			return fmt.Sprintf("(andb %s %s)", l, r)
		}
		return fmt.Sprintf("(orb %s %s)", l, r)
	}
	l := t.expr(x.X, b)
	r := t.expr(x.Y, b)
	ko := t.kindE(x.X) // operand kind
	if x.Op == token.SHL || x.Op == token.SHR {
		if t.kindE(x) != kU64 || t.kindE(x.Y) != kU64 {
			unsup("shift on non-uint64 at %s", t.fset.Position(x.Pos()))
		}
		if x.Op == token.SHL {
			return fmt.Sprintf("(u64_shl %s %s)", l, r)
		}
		return fmt.Sprintf("(u64_shr %s %s)", l, r)
	}
	switch ko {
	case kInt:
		m := map[token.Token]string{token.ADD: "Z.add", token.SUB: "Z.sub", token.MUL: "Z.mul",
			token.EQL: "Z.eqb", token.LSS: "Z.ltb", token.LEQ: "Z.leb", token.GTR: "Z.gtb", token.GEQ: "Z.geb"}
		if f, ok := m[x.Op]; ok {
			return fmt.Sprintf("(%s %s %s)", f, l, r)
		}
		if x.Op == token.NEQ {
			return fmt.Sprintf("(negb (Z.eqb %s %s))", l, r)
		}
	case kU64:
		switch x.Op {
		case token.ADD:
			return fmt.Sprintf("(u64_add %s %s)", l, r)
		case token.SUB:
			return fmt.Sprintf("(u64_sub %s %s)", l, r)
		case token.AND:
			return fmt.Sprintf("(N.land %s %s)", l, r)
		case token.OR:
			return fmt.Sprintf("(N.lor %s %s)", l, r)
		case token.EQL:
			return fmt.Sprintf("(N.eqb %s %s)", l, r)
		case token.NEQ:
			return fmt.Sprintf("(negb (N.eqb %s %s))", l, r)
		case token.LSS:
			return fmt.Sprintf("(N.ltb %s %s)", l, r)
		case token.LEQ:
			return fmt.Sprintf("(N.leb %s %s)", l, r)
		case token.GTR:
			return fmt.Sprintf("(N.ltb %s %s)", r, l)
		case token.GEQ:
			return fmt.Sprintf("(N.leb %s %s)", r, l)
		}
	}
	unsup("operator %s on %s at %s", x.Op, coqType(ko), t.fset.Position(x.Pos()))
	return ""
}

func selName(e ast.Expr) string {
	switch x := e.(type) {
	case *ast.Ident:
		return x.Name
	case *ast.SelectorExpr:
		return selName(x.X) + "." + x.Sel.Name
	}
	return "?"
}

func (t *fnTr) call(x *ast.CallExpr, b *binds) string {
	// conversion?
	if tv, ok := t.info.Types[x.Fun]; ok && tv.IsType() {
		to := t.kindOf(tv.Type)
		from := t.kindE(x.Args[0])
		a := t.expr(x.Args[0], b)
		switch {
		case to == kU64 && from == kInt:
			return fmt.Sprintf("(u64_of_int %s)", a)
		case to == from:
			return a
		case to == kInt && from == kU64:
			return fmt.Sprintf("(int_of_u64 %s)", a)
		}
		unsup("conversion at %s", t.fset.Position(x.Pos()))
	}
	name := selName(x.Fun)
	args := make([]string, len(x.Args))
	for i, a := range x.Args {
		if name == "make" && i == 0 {
			continue
		}
		args[i] = t.expr(a, b)
	}
	switch name {
	case "bytes.Compare":
		return fmt.Sprintf("(bytes_compare %s %s)", args[0], args[1])
	case "binary.BigEndian.Uint64":
		v := t.fresh()
		b.add("be_u64 "+args[0], v)
		return v
	case "bits.Sub64":
		return fmt.Sprintf("(sub64 %s %s %s)", args[0], args[1], args[2])
	case "bits.Add64":
		return fmt.Sprintf("(add64 %s %s %s)", args[0], args[1], args[2])
	case "bits.Mul64":
		return fmt.Sprintf("(mul64 %s %s)", args[0], args[1])
	case "len":
		return fmt.Sprintf("(Z.of_nat (length %s))", args[0])
	case "make":
		if t.kindE(x) == kBytes && len(x.Args) == 2 {
			if v, ok := t.constInt(x.Args[1]); ok {
				return fmt.Sprintf("(zeros %d)", v)
			}
		}
	}
	unsup("call %s at %s", name, t.fset.Position(x.Pos()))
	return ""
}

func (t *fnTr) errExpr(e ast.Expr) string {
	key := ""
	switch x := e.(type) {
	case *ast.Ident:
		key = x.Name
	case *ast.CallExpr:
		if selName(x.Fun) == "errors.New" && len(x.Args) == 1 {
			if l, ok := x.Args[0].(*ast.BasicLit); ok {
				key = l.Value
			}
		}
	}
	if c, ok := t.errs[key]; ok {
		return c
	}
	return "EOther"
}

func terminates(stmts []ast.Stmt) bool {
	if len(stmts) == 0 {
		return false
	}
	switch s := stmts[len(stmts)-1].(type) {
	case *ast.ReturnStmt:
		return true
	case *ast.IfStmt:
		if s.Else == nil {
			return false
		}
		var els []ast.Stmt
		switch e := s.Else.(type) {
		case *ast.BlockStmt:
			els = e.List
		case *ast.IfStmt:
			els = []ast.Stmt{e}
		}
		return terminates(s.Body.List) && terminates(els)
	}
	return false
}

// pattern for a bound name; `_` is a legal Coq pattern too
func pat(names []string) string {
	if len(names) == 1 {
		return names[0]
	}
	return "'(" + strings.Join(names, ", ") + ")"
}

func (t *fnTr) stmts(list []ast.Stmt, rest []ast.Stmt) string {
	if len(list) == 0 {
		if len(rest) == 0 {
			unsup("fall off the end of a function")
		}
		return t.stmts(rest, nil)
	}
	s, tail := list[0], list[1:]
	cont := func() string { return t.stmts(tail, rest) }
	switch x := s.(type) {
	case *ast.ReturnStmt:
		if len(x.Results) != 2 {
			unsup("return arity")
		}
		var b binds
		if id, ok := x.Results[1].(*ast.Ident); ok && id.Name == "nil" {
			return b.wrap("Ok " + t.expr(x.Results[0], &b))
		}
		return "Err " + t.errExpr(x.Results[1])
	case *ast.IfStmt:
		if x.Init != nil {
			unsup("if with init")
		}
		var b binds
		c := t.expr(x.Cond, &b)
		restAll := append(append([]ast.Stmt{}, tail...), rest...)
		thn := t.stmts(x.Body.List, restAll)
		var els string
		switch e := x.Else.(type) {
		case nil:
			els = t.stmts(restAll, nil)
		case *ast.BlockStmt:
			els = t.stmts(e.List, restAll)
		case *ast.IfStmt:
			els = t.stmts([]ast.Stmt{e}, restAll)
		}
		return b.wrap(fmt.Sprintf("if %s then\n  %s\nelse\n  %s", c, thn, els))
	case *ast.DeclStmt:
		gd := x.Decl.(*ast.GenDecl)
		out := ""
		for _, sp := range gd.Specs {
			vs := sp.(*ast.ValueSpec)
			if len(vs.Values) != 0 {
				unsup("var with initialiser")
			}
			for _, n := range vs.Names {
				k := t.kindOf(t.info.Defs[n].Type())
				z := map[kind]string{kInt: "0%Z", kU64: "0", kBytes: "[]"}[k]
				if z == "" {
					unsup("var of this type")
				}
				out += fmt.Sprintf("let %s := %s in\n  ", n.Name, z)
			}
		}
		return out + cont()
	case *ast.AssignStmt:
		var b binds
		names := make([]string, len(x.Lhs))
		for i, l := range x.Lhs {
			id, ok := l.(*ast.Ident)
			if !ok {
				unsup("assignment to non-identifier")
			}
			names[i] = id.Name
		}
		switch x.Tok {
		case token.DEFINE, token.ASSIGN:
			var rhs string
			if len(x.Rhs) == 1 {
				rhs = t.expr(x.Rhs[0], &b)
			} else {
				if len(x.Rhs) != len(x.Lhs) {
					unsup("assignment arity")
				}
				parts := make([]string, len(x.Rhs))
				for i, r := range x.Rhs {
					parts[i] = t.expr(r, &b)
				}
				rhs = "(" + strings.Join(parts, ", ") + ")"
			}
			return b.wrap(fmt.Sprintf("let %s := %s in\n  %s", pat(names), rhs, cont()))
		case token.SHL_ASSIGN, token.SHR_ASSIGN:
			if t.kindE(x.Lhs[0]) != kU64 {
				unsup("op= on non-uint64")
			}
			r := t.expr(x.Rhs[0], &b)
			f := "u64_shl"
			if x.Tok == token.SHR_ASSIGN {
				f = "u64_shr"
			}
			return b.wrap(fmt.Sprintf("let %s := %s %s %s in\n  %s", names[0], f, names[0], r, cont()))
		}
		unsup("assignment operator %s", x.Tok)
	case *ast.ExprStmt:
		// binary.BigEndian.PutUint64(X[lo:hi], v): the only supported mutation
		if c, ok := x.X.(*ast.CallExpr); ok && selName(c.Fun) == "binary.BigEndian.PutUint64" {
			if sl, ok := c.Args[0].(*ast.SliceExpr); ok {
				if id, ok := sl.X.(*ast.Ident); ok {
					var b binds
					lo, hi := "0", fmt.Sprintf("(length %s)", id.Name)
					if sl.Low != nil {
						v, ok := t.constInt(sl.Low)
						if !ok {
							unsup("slice bound")
						}
						lo = fmt.Sprintf("%d", v)
					}
					if sl.High != nil {
						v, ok := t.constInt(sl.High)
						if !ok {
							unsup("slice bound")
						}
						hi = fmt.Sprintf("%d", v)
					}
					v := t.expr(c.Args[1], &b)
					b.add(fmt.Sprintf("go_put_u64 %s %s %s %s", id.Name, lo, hi, v), id.Name)
					return b.wrap(cont())
				}
			}
		}
		unsup("expression statement at %s", t.fset.Position(x.Pos()))
	}
	unsup("statement %T at %s", s, t.fset.Position(s.Pos()))
	return ""
}

func (t *fnTr) fn(fd *ast.FuncDecl) string {
	var ps []string
	for _, f := range fd.Type.Params.List {
		k := t.kindOf(t.info.TypeOf(f.Type))
		if k == kOther || k == kErr || k == kBool {
			unsup("parameter type")
		}
		for _, n := range f.Names {
			ps = append(ps, fmt.Sprintf("(%s : %s)", n.Name, coqType(k)))
		}
	}
	rs := fd.Type.Results.List
	if len(rs) != 2 || t.kindOf(t.info.TypeOf(rs[1].Type)) != kErr || len(rs[0].Names) != 0 {
		unsup("result signature")
	}
	rk := t.kindOf(t.info.TypeOf(rs[0].Type))
	body := t.stmts(fd.Body.List, nil)
	return fmt.Sprintf("Definition %s %s : res %s :=\n  %s.\n", fd.Name.Name, strings.Join(ps, " "), coqType(rk), body)
}

// translateFns translates the named functions of the package in dir.
// On an unsupported construct it returns stub=true with the reason.
func translateFns(dir string, names []string, errs map[string]string) (out string, reason string) {
	fset := token.NewFileSet()
	matches, _ := filepath.Glob(filepath.Join(dir, "*.go"))
	sort.Strings(matches)
	var files []*ast.File
	for _, m := range matches {
		if strings.HasSuffix(m, "_test.go") {
			continue
		}
		f, err := parser.ParseFile(fset, m, nil, 0)
		if err != nil {
			return "", "parse error: " + err.Error()
		}
		files = append(files, f)
	}
	info := &types.Info{Types: map[ast.Expr]types.TypeAndValue{}, Defs: map[*ast.Ident]types.Object{}, Uses: map[*ast.Ident]types.Object{}}
	conf := types.Config{Importer: importer.ForCompiler(fset, "source", nil), Error: func(error) {}}
	if _, err := conf.Check("p", fset, files, info); err != nil {
		return "", "type error: " + err.Error()
	}
	t := &fnTr{fset: fset, info: info, errs: errs}
	var sb strings.Builder
	defer func() {
		if r := recover(); r != nil {
			if u, ok := r.(unsupported); ok {
				out, reason = "", u.Error()
				return
			}
			panic(r)
		}
	}()
	for _, name := range names {
		var fd *ast.FuncDecl
		for _, f := range files {
			for _, d := range f.Decls {
				if x, ok := d.(*ast.FuncDecl); ok && x.Recv == nil && x.Name.Name == name {
					fd = x
				}
			}
		}
		if fd == nil {
			return "", "function " + name + " not found"
		}
		t.n = 0
		sb.WriteString(t.fn(fd))
		sb.WriteString("\n")
	}
	return sb.String(), ""
}
