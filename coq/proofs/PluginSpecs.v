(* PluginSpecs.v — what each stateless plugin emits and to whom (C17), the server_id tables (C14) *)
From Verif Require Import Base BaseProofs Net NetProofs Bitset IdxAlloc BitsetProofs Ipcalc IpcalcRun Alloc AllocRun Alloc4Proofs Msg4 Msg6 Chain Server4 Server4Proofs Server6 Server6Proofs Plugins4 Plugins6 Setup PluginProofs.
From Coq Require Import Lia ZifyN ZifyNat ZifyBool.
Open Scope N_scope.

(* ---------- "adds exactly (code -> value), once" ---------- *)
Definition count_code (c : N) (o : opts) : nat := length (filter (fun kv => fst kv =? c) o).

Lemma count_code_del c o : count_code c (opt_del c o) = 0%nat.
Proof.
  unfold count_code. induction o as [|[k v] o IH]; cbn [opt_del filter]; [reflexivity|].
  destruct (k =? c) eqn:E; [exact IH|]. cbn [filter fst]. rewrite E. exact IH.
Qed.

(* upd_opt r c v: option c is present exactly once with value v, every other option and every
   header field is what it was *)
Theorem upd_opt_exactly r c v :
  opt_get c (m_opts (upd_opt r c v)) = Some v /\ count_code c (m_opts (upd_opt r c v)) = 1%nat /\
  (forall c', c' <> c -> opt_get c' (m_opts (upd_opt r c v)) = opt_get c' (m_opts r)) /\
  m_op (upd_opt r c v) = m_op r /\ m_xid (upd_opt r c v) = m_xid r /\ m_yiaddr (upd_opt r c v) = m_yiaddr r /\
  m_siaddr (upd_opt r c v) = m_siaddr r /\ m_giaddr (upd_opt r c v) = m_giaddr r /\ m_ciaddr (upd_opt r c v) = m_ciaddr r /\
  m_chaddr (upd_opt r c v) = m_chaddr r /\ m_flags (upd_opt r c v) = m_flags r /\ m_htype (upd_opt r c v) = m_htype r /\
  m_file (upd_opt r c v) = m_file r /\ m_sname (upd_opt r c v) = m_sname r.
Proof.
  unfold upd_opt, set_opts. cbn [m_opts m_op m_xid m_yiaddr m_siaddr m_giaddr m_ciaddr m_chaddr m_flags m_htype m_file m_sname].
  split; [apply opt_get_update_same|]. split.
  - unfold opt_update, count_code. cbn [filter fst]. rewrite N.eqb_refl. cbn [length]. f_equal. apply count_code_del.
  - split; [intros c' H; apply opt_get_update_other; exact H|]. repeat split.
Qed.

(* ---------- C17: per-plugin contracts (entitlement -> exactly the configured option) ---------- *)
Section Contracts.
Variables (req resp : msg4).

Theorem dns4_adds_exactly ips : plug4_handler (PDns ips) req resp =
  Ok (Some (if is_requested 6 req then upd_opt resp 6 (enc_ips4 ips) else resp), false).
Proof. reflexivity. Qed.
Theorem mtu_adds_exactly mtu : plug4_handler (PMtu mtu) req resp =
  Ok (Some (if is_requested 26 req then upd_opt resp 26 (enc_u16 mtu) else resp), false).
Proof. reflexivity. Qed.
Theorem netmask_adds_exactly mask : plug4_handler (PNetmask mask) req resp = Ok (Some (upd_opt resp 1 mask), false).
Proof. reflexivity. Qed.
Theorem router_adds_exactly ips : plug4_handler (PRouter ips) req resp = Ok (Some (upd_opt resp 3 (enc_ips4 ips)), false).
Proof. reflexivity. Qed.
Theorem searchdomains4_adds_exactly ls : plug4_handler (PSearch ls) req resp = Ok (Some (upd_opt resp 119 (enc_labels ls)), false).
Proof. reflexivity. Qed.
Theorem staticroute_adds_exactly rs v : rs <> [] -> enc_routes rs = Ok v ->
  plug4_handler (PStaticRoute rs) req resp = Ok (Some (upd_opt resp 121 v), false).
Proof. intros H E. cbn [plug4_handler]. destruct rs; [contradiction|]. rewrite E. reflexivity. Qed.
(* a default lease time only when none is set yet *)
Theorem leasetime_adds_exactly d : m_op req = 1 -> plug4_handler (PLeaseTime d) req resp =
  Ok (Some (if opt_has 51 (m_opts resp) then resp else upd_opt resp 51 (enc_dur d)), false).
Proof. intros H. cbn [plug4_handler]. rewrite H. reflexivity. Qed.
(* IPv6-only preferred: sent - and processing stopped - only to clients that explicitly list option 108 *)
Theorem ipv6only_table w : plug4_handler (PIPv6Only w) req resp =
  if is_listed 108 req then Ok (Some (upd_opt resp 108 (enc_dur w)), true) else Ok (Some resp, false).
Proof. reflexivity. Qed.
Theorem ipv6only_needs_explicit_list w : prl req = None -> plug4_handler (PIPv6Only w) req resp = Ok (Some resp, false).
Proof. intros H. cbn [plug4_handler]. unfold is_listed. rewrite H. reflexivity. Qed.
(* autoconfigure: only an OFFER without an address is affected; answered iff the client sent option 116 *)
Theorem autoconfigure_table v : plug4_handler (PAutoconf v) req resp =
  if negb (msg_type resp =? 2) || negb (is_unspecified (m_yiaddr resp)) then Ok (Some resp, false)
  else match opt_get 116 (m_opts req) with
       | Some [_] => Ok (Some (upd_opt resp 116 [v]), false)
       | _ => Ok (None, true)
       end.
Proof. reflexivity. Qed.
(* nbp: TFTP server name / boot file name only when requested (or no list), then the chain ends *)
Theorem nbp4_table o66 v67 : plug4_handler (PNbp o66 (Some v67)) req resp =
  Ok (Some (let r1 := match o66 with Some v66 => if is_requested 66 req then upd_opt resp 66 v66 else resp | None => resp end in
            if is_requested 67 req then upd_opt r1 67 v67 else r1), true).
Proof. reflexivity. Qed.
Theorem sleep4_unchanged d : plug4_handler (PSleep d) req resp = Ok (Some resp, false).
Proof. reflexivity. Qed.
End Contracts.

(* entitlement by request list: requested = listed, or no list at all *)
Theorem is_requested_spec c req :
  is_requested c req = match prl req with None => true | Some l => existsb (N.eqb c) l end /\
  is_listed c req = match prl req with None => false | Some l => existsb (N.eqb c) l end.
Proof. split; reflexivity. Qed.

(* ---------- the encodings decode to the configured values ---------- *)
Theorem enc_u16_decodes m : (0 <= m < 65536)%Z -> length (enc_u16 m) = 2%nat /\ be_val (enc_u16 m) = Z.to_N m.
Proof.
  intros H. unfold enc_u16. split; [apply be_bytes_length|]. rewrite be_val_be_bytes.
  rewrite Z.mod_small by lia. change (256 ^ N.of_nat 2) with 65536. apply N.mod_small. lia.
Qed.

Theorem enc_dur_decodes d : (0 <= d)%Z -> (Z.quot d 1000000000 < 4294967296)%Z ->
  length (enc_dur d) = 4%nat /\ be_val (enc_dur d) = Z.to_N (Z.quot d 1000000000).
Proof.
  intros H0 H1. unfold enc_dur, dur_secs. split; [apply be_bytes_length|]. rewrite be_val_be_bytes.
  assert (0 <= Z.quot d 1000000000)%Z by (apply Z.quot_pos; lia).
  rewrite Z.mod_small by lia. change (256 ^ N.of_nat 4) with 4294967296. apply N.mod_small. lia.
Qed.

Lemma enc_ips4_cons ip ips x : to4 ip = Some x -> enc_ips4 (ip :: ips) = x ++ enc_ips4 ips.
Proof. intros H. unfold enc_ips4. cbn [flat_map]. rewrite H. reflexivity. Qed.

(* the i-th 4-byte block of the option is the i-th configured address *)
Theorem enc_ips4_decodes ips : Forall (fun ip => to4 ip <> None) ips ->
  length (enc_ips4 ips) = (4 * length ips)%nat /\
  forall i ip, nth_error ips i = Some ip -> Some (firstn 4 (skipn (4 * i) (enc_ips4 ips))) = to4 ip.
Proof.
  induction ips as [|ip0 ips IH]; intros F.
  - split; [reflexivity|]. intros i ip H. destruct i; discriminate.
  - destruct (to4 ip0) as [x|] eqn:E; [|exfalso; exact (Forall_inv F E)].
    pose proof (to4_length _ _ E) as Lx. destruct (IH (Forall_inv_tail F)) as (L & D).
    rewrite (enc_ips4_cons _ _ _ E). split; [rewrite app_length, L, Lx; cbn [length]; lia|].
    intros i ip H. destruct i as [|i].
    + cbn [nth_error] in H. injection H as <-. rewrite E. change (4 * 0)%nat with 0%nat. cbn [skipn].
      rewrite firstn_app, Lx, Nat.sub_diag, firstn_O, app_nil_r, firstn_all2 by lia. reflexivity.
    + cbn [nth_error] in H. replace (4 * S i)%nat with (length x + 4 * i)%nat by lia.
      rewrite skipn_app, skipn_all2 by lia. replace (length x + 4 * i - length x)%nat with (4 * i)%nat by lia.
      cbn [app]. apply D. exact H.
Qed.

(* ---------- C14: server_id ---------- *)
(* DHCPv6, RFC 8415 section 16, literally: discarded iff (SOLICIT/CONFIRM/REBIND with any Server
   Identifier) or (REQUEST/RENEW/DECLINE/RELEASE with none) or (a Server Identifier that differs) *)
Definition sid6_discard (own : bytes) (m : imsg) : Prop :=
  (In (i_type m) [MT_SOLICIT; MT_CONFIRM; MT_REBIND] /\ o6_get OPT_SERVERID (i_opts m) <> None) \/
  (In (i_type m) [MT_REQUEST; MT_RENEW; MT_DECLINE; MT_RELEASE] /\ o6_get OPT_SERVERID (i_opts m) = None) \/
  (exists sid, o6_get OPT_SERVERID (i_opts m) = Some sid /\ sid <> own).

Lemma existsb_In_N t l : existsb (N.eqb t) l = true <-> In t l.
Proof.
  rewrite existsb_exists. split.
  - intros (x & Hx & E). apply N.eqb_eq in E. subst. exact Hx.
  - intros H. exists t. split; [exact H|apply N.eqb_refl].
Qed.

Theorem sid6_table own req resp m : p_inner req = Some m ->
  (sid6_discard own m -> plug6_handler (P6ServerID own) req resp = Ok (None, true)) /\
  (~ sid6_discard own m -> plug6_handler (P6ServerID own) req resp = Ok (Some (resp_update OPT_SERVERID own resp), false)).
Proof.
  intros Hm. cbn [plug6_handler]. rewrite Hm. unfold sid6_discard, drop_types_with_sid, drop_types_without_sid.
  destruct (o6_get OPT_SERVERID (i_opts m)) as [sid|] eqn:Es.
  - destruct (existsb (N.eqb (i_type m)) [MT_SOLICIT; MT_CONFIRM; MT_REBIND]) eqn:E1.
    + apply existsb_In_N in E1. split; [reflexivity|]. intros H. exfalso. apply H. left. split; [exact E1|discriminate].
    + destruct (bytes_eqb sid own) eqn:E2; cbn [negb].
      * apply bytes_eqb_eq in E2. subst sid. split; [|reflexivity]. intros [(H & _)|[(_ & H)|(s & Hs & Hne)]].
        -- apply existsb_In_N in H. congruence.
        -- discriminate.
        -- injection Hs as <-. contradiction.
      * split; [reflexivity|]. intros H. exfalso. apply H. right. right. exists sid. split; [reflexivity|].
        intros ->. rewrite (proj2 (bytes_eqb_eq own own) eq_refl) in E2. discriminate.
  - destruct (existsb (N.eqb (i_type m)) [MT_REQUEST; MT_RENEW; MT_DECLINE; MT_RELEASE]) eqn:E1.
    + apply existsb_In_N in E1. split; [reflexivity|]. intros H. exfalso. apply H. right. left. split; [exact E1|reflexivity].
    + split; [|reflexivity]. intros [(_ & H)|[(H & _)|(s & Hs & _)]].
      * contradiction.
      * apply existsb_In_N in H. congruence.
      * discriminate.
Qed.

(* a request without an inner message is dropped; the decision only looks at the innermost message,
   whatever the relay depth *)
Theorem sid6_no_inner own req resp : p_inner req = None -> plug6_handler (P6ServerID own) req resp = Ok (None, true).
Proof. intros H. cbn [plug6_handler]. rewrite H. reflexivity. Qed.

Lemma o6_get_update_same c v o : o6_get c (o6_update c v o) = Some v.
Proof.
  induction o as [|[k w] o IH]; cbn [o6_update o6_get]; [rewrite N.eqb_refl; reflexivity|].
  destruct (k =? c) eqn:E; cbn [o6_get]; [rewrite N.eqb_refl; reflexivity|rewrite E; exact IH].
Qed.

Lemma o6_all_update_absent c v o : o6_get c o = None -> o6_all c (o6_update c v o) = [v].
Proof.
  unfold o6_all. induction o as [|[k w] o IH]; cbn [o6_update o6_get filter map]; intros H.
  - cbn [fst]. rewrite N.eqb_refl. reflexivity.
  - destruct (k =? c) eqn:E; [discriminate|]. cbn [filter fst]. rewrite E. apply IH. exact H.
Qed.

(* every reply that passes the plugin carries this server's DUID - exactly once when the
   response had none before (the basic response has none) *)
Theorem sid6_reply_carries_own own (resp : pkt6) m : p_layers resp = [] -> p_inner resp = Some m ->
  match p_inner (resp_update OPT_SERVERID own resp) with
  | Some m' => o6_get OPT_SERVERID (i_opts m') = Some own /\
               (o6_get OPT_SERVERID (i_opts m) = None -> o6_all OPT_SERVERID (i_opts m') = [own]) /\
               i_type m' = i_type m /\ i_xid m' = i_xid m
  | None => False
  end.
Proof.
  intros Hl Hm. unfold resp_update. rewrite Hl, Hm. cbn [p_inner i_opts i_type i_xid].
  split; [apply o6_get_update_same|]. split; [apply o6_all_update_absent|]. split; reflexivity.
Qed.

(* DHCPv4: discarded iff the server-address field or the server-identifier option names another server *)
Definition names_other (sid ip : bytes) : Prop := ip <> [] /\ ip_equal ip [0;0;0;0] = false /\ ip_equal ip sid = false.
Definition opt54_of (req : msg4) : bytes :=
  match opt_get 54 (m_opts req) with Some v => if lenb v 4 then v else [] | None => [] end.

Theorem sid4_drop_iff_other sid req resp : m_op req = 1 ->
  ((names_other sid (m_siaddr req) \/ names_other sid (opt54_of req)) ->
     plug4_handler (PServerID sid) req resp = Ok (None, true)) /\
  (~ (names_other sid (m_siaddr req) \/ names_other sid (opt54_of req)) ->
     plug4_handler (PServerID sid) req resp =
     Ok (Some (upd_opt (set_siaddr resp (firstn 4 (sid ++ [0;0;0;0]))) 54 (match to4 sid with Some x => x | None => [] end)), false)).
Proof.
  intros Hop. cbn [plug4_handler]. rewrite Hop. cbn [N.eqb Pos.eqb negb]. fold (opt54_of req).
  assert (T : forall ip, (match ip with [] => false | _ => negb (ip_equal ip [0;0;0;0]) && negb (ip_equal ip sid) end) = true <-> names_other sid ip).
  { intros ip. unfold names_other. destruct ip as [|b ip]; [split; [discriminate|intros (H & _); contradiction]|].
    rewrite andb_true_iff, !negb_true_iff. split; [intros (A & B); split; [discriminate|split; assumption]|intros (_ & A & B); split; assumption]. }
  destruct (match m_siaddr req with [] => false | _ => negb (ip_equal (m_siaddr req) [0;0;0;0]) && negb (ip_equal (m_siaddr req) sid) end) eqn:E1.
  - apply T in E1. split; [reflexivity|]. intros H. exfalso. apply H. left. exact E1.
  - destruct (match opt54_of req with [] => false | _ => negb (ip_equal (opt54_of req) [0;0;0;0]) && negb (ip_equal (opt54_of req) sid) end) eqn:E2.
    + apply T in E2. split; [reflexivity|]. intros H. exfalso. apply H. right. exact E2.
    + split; [|reflexivity]. intros [H|H]; apply T in H; congruence.
Qed.

(* every DHCPv4 reply that passes the plugin carries the server's address in siaddr and option 54 *)
Theorem sid4_reply_carries_own sid resp : length sid = 4%nat -> to4 sid = Some sid ->
  let r := upd_opt (set_siaddr resp (firstn 4 (sid ++ [0;0;0;0]))) 54 (match to4 sid with Some x => x | None => [] end) in
  m_siaddr r = sid /\ opt_get 54 (m_opts r) = Some sid /\ count_code 54 (m_opts r) = 1%nat.
Proof.
  intros L T. cbv zeta. rewrite T.
  destruct (upd_opt_exactly (set_siaddr resp (firstn 4 (sid ++ [0;0;0;0]))) 54 sid) as (A & B & _ & _ & _ & _ & S & _).
  split; [rewrite S; unfold set_siaddr; cbn [m_siaddr]; rewrite firstn_app, L, Nat.sub_diag, firstn_O, app_nil_r; apply firstn_all2; lia|].
  split; assumption.
Qed.

(* requests that are not BOOTREQUESTs pass unchanged *)
Theorem sid4_not_request sid req resp : m_op req <> 1 -> plug4_handler (PServerID sid) req resp = Ok (Some resp, false).
Proof. intros H. cbn [plug4_handler]. apply N.eqb_neq in H. rewrite H. reflexivity. Qed.
