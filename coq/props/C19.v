(* C19 — A configuration accepted at start-up cannot crash or corrupt replies later.
   setup4/setup6 model every stateless plugin's setup function over ANY argument vector (any
   strings, any arity) and ANY answers of the text parsers (oracles O). *)
From Verif Require Import Base BaseProofs Net NetProofs Msg4 Msg6 Chain ChainProofs Server4 Server4Proofs Server6 Server6Proofs Plugins4 Plugins6 Setup PluginRun PluginProofs PluginSpecs PluginExamples Opt4Codec Opt4Proofs Msg4Codec Msg4CodecProofs PrefixPlugin PrefixProofs PrefixTheorems Msg6Codec Msg6CodecProofs Skel Skeleton SkelProofs SkelGen.
Open Scope N_scope.

Theorem setup4_ok_handler_safe :
  forall (O : oracles) (n : pname) (args : list bytes) (p : plug4),
  setup4 O n args = SetOk p -> forall req resp : msg4, plug4_handler p req resp <> Panic.
Proof. exact (@PluginProofs.setup4_ok_handler_safe). Qed.
Print Assumptions setup4_ok_handler_safe.

Theorem setup6_ok_handler_safe :
  forall (O : oracles) (n : pname) (args : list bytes) (p : plug6),
  setup6 O n args = Some (SetOk p) ->
  forall req resp : pkt6, plug6_handler p req resp <> Panic.
Proof. exact (@PluginProofs.setup6_ok_handler_safe). Qed.
Print Assumptions setup6_ok_handler_safe.

Theorem setup4_ok_reply_serialisable :
  forall (O : oracles) (n : pname) (args : list bytes) (p : plug4),
  setup4 O n args = SetOk p ->
  forall (req resp r' : msg4) (st : bool),
  ser_ok resp = true -> plug4_handler p req resp = Ok (Some r', st) -> ser_ok r' = true.
Proof. exact (@PluginProofs.setup4_ok_reply_serialisable). Qed.
Print Assumptions setup4_ok_reply_serialisable.

Theorem setup4_serverid_v4 :
  forall (O0 : oracles) (args : list bytes) (sid : bytes),
  setup4 O0 NServerID args = SetOk (PServerID sid) -> length sid = 4%nat.
Proof. exact (@PluginProofs.setup4_serverid_v4). Qed.
Print Assumptions setup4_serverid_v4.

Theorem builtin4_nil_implies_stop :
  forall (p : plug4) (req : msg4) (r : option msg4),
  fst (lift4 p req r) = None -> snd (lift4 p req r) = true.
Proof. exact (@PluginProofs.builtin4_nil_implies_stop). Qed.
Print Assumptions builtin4_nil_implies_stop.


Theorem opt4_roundtrip :
  forall (l : list (N * bytes)) (pad : list N),
  Forall (fun kv : N * bytes => code_ok (fst kv)) l ->
  NoDup (map fst l) -> decode (enc_list l ++ 255 :: pad) = Some l.
Proof. exact (@Opt4Proofs.opt4_roundtrip). Qed.
Print Assumptions opt4_roundtrip.

Theorem opt4_roundtrip_map :
  forall (o : list (N * bytes)) (pad : list N),
  Forall (fun kv : N * bytes => code_ok (fst kv)) o ->
  NoDup (map fst o) ->
  decode (enc_opts o ++ 255 :: pad) = Some (order o) /\ Permutation.Permutation (order o) o.
Proof. exact (@Opt4Proofs.opt4_roundtrip_map). Qed.
Print Assumptions opt4_roundtrip_map.

Theorem msg4_roundtrip :
  forall (m : msg4) (b : bytes), wf_msg m -> enc_msg m = Ok b -> dec_msg b = Some (wire_msg m).
Proof. exact (@Msg4CodecProofs.msg4_roundtrip). Qed.
Print Assumptions msg4_roundtrip.

Theorem prefix_pool_must_be_ipv6 :
  forall (pip pmask : bytes) (size : Z) (st : pstate),
  prefix_setup pip pmask size = Ok st -> length pip = 16%nat.
Proof. exact (@PrefixTheorems.prefix_setup_ok_ipv6). Qed.
Print Assumptions prefix_pool_must_be_ipv6.

Theorem dhcp6_wire_roundtrip :
  forall (p : pkt6) (b : bytes),
  Forall wf_layer (p_layers p) ->
  (forall m : imsg, p_inner p = Some m -> wf_imsg m) ->
  fits (p_layers p) (p_inner p) -> enc_pkt6 p = Some b -> decode6 b = Some p.
Proof. exact (@Msg6CodecProofs.decode6_encode6). Qed.
Print Assumptions dhcp6_wire_roundtrip.

Theorem handlers_release_their_locks :
  forall f : fskel,
  In f all_skeletons ->
  forall (tr : list ev) (o : outcome),
  exec (fs_body f) tr o ->
  exists st' : lst, tr_run (init_of f) tr = Some st' /\ o <> Brk /\ ret_ok st' = true.
Proof. exact (@SkelGen.every_path_well_locked). Qed.
Print Assumptions handlers_release_their_locks.

Theorem handlers_cannot_lock_themselves_out :
  lock_order_ok all_skeletons = true.
Proof. exact (@SkelGen.skeletons_lock_order). Qed.
Print Assumptions handlers_cannot_lock_themselves_out.

(* Non-vacuity (proofs/PluginExamples.v): accepted configurations exist *)
Example hypotheses_satisfiable :
  (setup4 (oracles_of ex_tables) NStaticRoute [[49;48;46;48;46;48;46;48;47;56;44;49;48;46;48;46;48;46;49]] =
    SetOk (PStaticRoute [{| rt_dest := [10;0;0;0]; rt_mask := [255;0;0;0]; rt_router := v4in6_prefix ++ [10;0;0;1] |}]) /\
   enc_routes [{| rt_dest := [10;0;0;0]; rt_mask := [255;0;0;0]; rt_router := v4in6_prefix ++ [10;0;0;1] |}] = Ok [8;10;10;0;0;1]) /\
  setup6 (oracles_of ex_tables) NServerID [[76;76]; [48;48;58;49;49;58;50;50;58;51;51;58;52;52;58;53;53]] =
    Some (SetOk (P6ServerID [0;3;0;1;0;17;34;51;68;85])) /\
  setup4 (oracles_of ex_tables) NServerID [[49;48;46;48;46;48;46;49]] = SetOk (PServerID [10;0;0;1]).
Proof. exact (conj ex_staticroute (conj ex_serverid6 ex_serverid4)). Qed.
