(* C01 — No datagram, in any history, can crash or wedge the server.
   model/Assembly.v is the whole server as a transition system: a listener with a chain of plugin
   INSTANCES (any stateless built-in accepted by its set-up; the range plugin with its lease
   state; the file plugin with its table; for DHCPv6 the prefix plugin with its delegation state),
   stepped by srv4_step / srv6_step = HandleMsg4 / HandleMsg6 on the parse result of a datagram
   (None = the library rejected the bytes).  Every panic the models know of is an explicit outcome:
   a handler handed a nil response, the slips inside plugins and allocators, resp.ToBytes on an
   address without a 4-byte form.
     srv4_history_safe / srv6_history_safe: for EVERY chain of valid instances and EVERY history of
       datagrams (any bytes, clock readings, control messages, peers) no outcome is a panic, every
       datagram has exactly one outcome (one reply or a drop), and the instances stay valid -
       by an invariant per instance kind (C02's rinv, C08's pinv, "what some set-up accepted",
       "a table of IPv4 addresses") preserved along the dispatch loop (run_insts_safe).
     plug4_inst_ok, range_inst_ok, file_v4_inst_ok, prefix_inst_ok: set-up establishes validity.
     srv4_refines_handle4 / srv6_refines_handle6: when no panic occurs the assembled step IS
       HandleMsg4 / HandleMsg6 of C11-C15 over the instances' handler functions, so those
       properties' theorems hold of the real chains (assembled_reply4/6_matches_request).
     Termination: the step functions are total Gallina functions (every loop of the handlers is a
       structural recursion over the message or the record list).
     No lock left held: every_path_well_locked (C16) over the skeletons regenerated from the
       sources - every return path of every lock-taking function releases the lock.
   Stated openly: the DHCPv4 theorem requires the file instance's table to hold IPv4 addresses,
   which the DHCPv4 loader guarantees (file_v4_inst_ok) but a DHCPv6 instance of the same plugin
   in the same process breaks (one global table): known finding F10, replayed by the harness.
   The decoding of IA_PD options (dec_pds) is an oracle assumed to deliver byte lists. *)
From Verif Require Import Base BaseProofs Net NetProofs Msg4 Msg6 Chain Server4 Server6 Plugins4 Plugins6 Setup PluginRun RangePlugin RangeRun RangeProofs RangeExamples FilePlugin PrefixPlugin PrefixProofs PrefixTheorems Assembly AssemblyProofs AsmRefine AsmRefine6 AssemblyExamples Skel Skeleton SkelProofs SkelGen.

Theorem chain_loop_safe :
  forall (I Q R : Type) (call : I -> Q -> option R -> I * Base.res (option R * bool))
  (okI : I -> Prop) (okR : R -> Prop) (req : Q),
  (forall (i : I) (r : R),
  okI i ->
  okR r ->
  let
  '(i', o) := call i req (Some r) in
  okI i' /\
  match o with
  | Ok (Some r', _) => okR r'
  | Ok (None, stop) => stop = true
  | _ => False
  end) ->
  forall (is : list I) (r : R),
  Forall okI is ->
  okR r ->
  let
  '(is', o) := run_insts call is req (Some r) in
  Forall okI is' /\
  length is' = length is /\
  match o with
  | Ok (Some r') => okR r'
  | Ok None => True
  | _ => False
  end.
Proof. exact (@AssemblyProofs.run_insts_safe). Qed.
Print Assumptions chain_loop_safe.

Theorem instance4_call_safe :
  forall (now : Z) (req : msg4),
  wf_bytes (m_chaddr req) ->
  forall (i : inst4) (r : msg4),
  inst4_ok i ->
  ser_ok r = true ->
  let
  '(i', o) := inst4_call now i req (Some r) in
  inst4_ok i' /\
  match o with
  | Ok (Some r', _) => ser_ok r' = true
  | Ok (None, stop) => stop = true
  | _ => False
  end.
Proof. exact (@AssemblyProofs.inst4_call_safe). Qed.
Print Assumptions instance4_call_safe.

Theorem srv4_step_safe :
  forall (is : list inst4) (lif now : Z) (oob : option Z) (parsed : option msg4),
  Forall inst4_ok is ->
  match parsed with
  | Some m => wf_req4 m
  | None => True
  end ->
  let
  '(is', o) := srv4_step is lif now oob parsed in
  Forall inst4_ok is' /\ length is' = length is /\ o <> O4Panic.
Proof. exact (@AssemblyProofs.srv4_step_safe). Qed.
Print Assumptions srv4_step_safe.

Theorem srv4_history_safe :
  forall (lif : Z) (h : list dgram4) (is : list inst4),
  Forall inst4_ok is ->
  Forall wf_dgram4 h ->
  let
  '(is', os) := srv4_run is lif h in
  Forall inst4_ok is' /\ length os = length h /\ ~ In O4Panic os.
Proof. exact (@AssemblyProofs.srv4_history_safe). Qed.
Print Assumptions srv4_history_safe.

Theorem instance6_call_safe :
  forall (dec_pds : imsg -> list (bytes * list hint)) (enc_iapd : bytes * list lease -> bytes),
  (forall m : imsg, Forall (fun p : bytes * list hint => Forall wf_hint (snd p)) (dec_pds m)) ->
  forall (L P : N) (now : Z) (req : pkt6) (i : inst6) (r : pkt6),
  inst6_ok L P i ->
  True ->
  let
  '(i', o) := inst6_call dec_pds enc_iapd now i req (Some r) in
  inst6_ok L P i' /\
  match o with
  | Ok (Some _, _) => True
  | Ok (None, stop) => stop = true
  | _ => False
  end.
Proof. exact (@AssemblyProofs.inst6_call_safe). Qed.
Print Assumptions instance6_call_safe.

Theorem srv6_step_safe :
  forall (dec_pds : imsg -> list (bytes * list hint)) (enc_iapd : bytes * list lease -> bytes),
  (forall m : imsg, Forall (fun p : bytes * list hint => Forall wf_hint (snd p)) (dec_pds m)) ->
  forall (L P : N) (is : list inst6) (lif now : Z) (oob : option Z)
  (pip : bytes) (pport : Z) (parsed : option pkt6),
  Forall (inst6_ok L P) is ->
  let
  '(is', o) := srv6_step dec_pds enc_iapd is lif now oob pip pport parsed in
  Forall (inst6_ok L P) is' /\ length is' = length is /\ o <> O6Panic.
Proof. exact (@AssemblyProofs.srv6_step_safe). Qed.
Print Assumptions srv6_step_safe.

Theorem srv6_history_safe :
  forall (dec_pds : imsg -> list (bytes * list hint)) (enc_iapd : bytes * list lease -> bytes),
  (forall m : imsg, Forall (fun p : bytes * list hint => Forall wf_hint (snd p)) (dec_pds m)) ->
  forall (L P : N) (lif : Z) (h : list dgram6) (is : list inst6),
  Forall (inst6_ok L P) is ->
  let
  '(is', os) := srv6_run dec_pds enc_iapd is lif h in
  Forall (inst6_ok L P) is' /\ length os = length h /\ ~ In O6Panic os.
Proof. exact (@AssemblyProofs.srv6_history_safe). Qed.
Print Assumptions srv6_history_safe.

Theorem plug4_inst_ok :
  forall (O : oracles) (n : pname) (args : list bytes) (p : plug4),
  setup4 O n args = SetOk p -> inst4_ok (I4Plug p).
Proof. exact (@AssemblyProofs.plug4_inst_ok). Qed.
Print Assumptions plug4_inst_ok.

Theorem range_inst_ok :
  forall (s e : bytes) (lease : Z) (st0 : rstate),
  wf_bytes s -> wf_bytes e -> range_setup s e lease [] = Ok st0 -> inst4_ok (I4Range st0).
Proof. exact (@AssemblyProofs.range_inst_ok). Qed.
Print Assumptions range_inst_ok.

Theorem file_v4_inst_ok :
  forall (O : oracles) (data : bytes) (l : list (bytes * bytes)),
  load_file O false data = Some l -> inst4_ok (I4File (Some l)).
Proof. exact (@AssemblyProofs.file_v4_inst_ok). Qed.
Print Assumptions file_v4_inst_ok.

Theorem prefix_inst_ok :
  forall (pip : bytes) (L P : N) (st0 : pstate),
  wf_ip16 pip /\
  to4 pip = None /\
  L <= P /\ P <= 128 /\ P - L < 64 /\ IpcalcProofs.v pip mod IpcalcProofs.Bsz L = 0 ->
  prefix_setup pip (cidr_bytes 16 L) (Z.of_N P) = Ok st0 -> inst6_ok L P (I6Prefix st0).
Proof. exact (@AssemblyProofs.prefix_inst_ok). Qed.
Print Assumptions prefix_inst_ok.

Theorem srv4_refines_handle4 :
  forall (is : list inst4) (lif now : Z) (oob : option Z) (parsed : option msg4)
  (is' : list inst4) (o : outcome4),
  srv4_step is lif now oob parsed = (is', o) ->
  o <> O4Panic -> fst (handle4 (map (as_handler4 now) is) lif oob parsed) = out4_of o.
Proof. exact (@AsmRefine.srv4_refines_handle4). Qed.
Print Assumptions srv4_refines_handle4.

Theorem srv6_refines_handle6 :
  forall (dec_pds : imsg -> list (bytes * list hint)) (enc_iapd : bytes * list lease -> bytes)
  (is : list inst6) (lif now : Z) (oob : option Z) (pip : bytes)
  (pport : Z) (parsed : option pkt6) (is' : list inst6) (o : outcome6),
  srv6_step dec_pds enc_iapd is lif now oob pip pport parsed = (is', o) ->
  o <> O6Panic ->
  fst (handle6 (map (as_handler6 dec_pds enc_iapd now) is) lif oob pip pport parsed) =
  out6_of o.
Proof. exact (@AsmRefine6.srv6_refines_handle6). Qed.
Print Assumptions srv6_refines_handle6.

Theorem assembled_reply4_matches_request :
  forall (is : list inst4) (lif now : Z) (oob : option Z) (req : msg4)
  (is' : list inst4) (d : dest4) (m : msg4),
  srv4_step is lif now oob (Some req) = (is', O4Sent d m) ->
  m_op req = 1 /\
  m_op m = 2 /\
  m_xid m = m_xid req /\
  m_htype m = m_htype req /\
  m_chaddr m = m_chaddr req /\
  m_flags m = m_flags req /\
  m_giaddr m = m_giaddr req /\
  (forall c : N,
  c = 61 \/ c = 82 ->
  opt_get c (m_opts m) =
  match opt_get c (m_opts req) with
  | Some (b :: v) => Some (b :: v)
  | _ => None
  end) /\
  (msg_type req = 1 /\ (msg_type m = 2 \/ msg_type m = 6) \/
  msg_type req = 3 /\ (msg_type m = 5 \/ msg_type m = 6)).
Proof. exact (@AsmRefine.assembled_reply4_matches_request). Qed.
Print Assumptions assembled_reply4_matches_request.

Theorem assembled_reply6_matches_request :
  forall (dec_pds : imsg -> list (bytes * list hint)) (enc_iapd : bytes * list lease -> bytes)
  (is : list inst6) (lif now : Z) (oob : option Z) (pip : bytes)
  (pport : Z) (d : pkt6) (is' : list inst6) (p : pkt6) (dip : bytes)
  (dport : Z) (ifx : option Z),
  srv6_step dec_pds enc_iapd is lif now oob pip pport (Some d) = (is', O6Sent p dip dport ifx) ->
  exists msg rm : imsg,
  p_inner d = Some msg /\
  p_inner p = Some rm /\
  i_xid rm = i_xid msg /\
  o6_get OPT_CLIENTID (i_opts rm) = o6_get OPT_CLIENTID (i_opts msg) /\
  o6_get OPT_CLIENTID (i_opts msg) <> None /\
  (i_type msg = MT_SOLICIT /\
  o6_get OPT_RAPID (i_opts msg) = None /\
  i_type rm = MT_ADVERTISE /\ o6_get OPT_RAPID (i_opts rm) = None \/
  i_type msg = MT_SOLICIT /\
  o6_get OPT_RAPID (i_opts msg) <> None /\
  i_type rm = MT_REPLY /\ o6_get OPT_RAPID (i_opts rm) <> None \/
  In (i_type msg) Server6Proofs.reply_types /\ i_type rm = MT_REPLY).
Proof. exact (@AsmRefine6.assembled_reply6_matches_request). Qed.
Print Assumptions assembled_reply6_matches_request.

Theorem no_lock_left_held :
  forall f : fskel,
  In f all_skeletons ->
  forall (tr : list ev) (o : outcome),
  exec (fs_body f) tr o ->
  exists st' : lst, tr_run (init_of f) tr = Some st' /\ o <> Brk /\ ret_ok st' = true.
Proof. exact (@SkelGen.every_path_well_locked). Qed.
Print Assumptions no_lock_left_held.

Theorem lock_order :
  lock_order_ok all_skeletons = true.
Proof. exact (@SkelGen.skeletons_lock_order). Qed.
Print Assumptions lock_order.


(* Non-vacuity (proofs/AssemblyExamples.v): the chain dns, range (2 addresses), router is valid,
   and a history of an unparseable datagram, a BOOTREQUEST of type OFFER, three new clients (the
   third finds the range exhausted) and a renewal gives: drop, drop, .1, .2, drop, .1 *)
Example hypotheses_satisfiable :
  Forall inst4_ok ex_chain /\ Forall wf_dgram4 ex_hist /\
  map ex_kind (snd (srv4_run ex_chain 0 ex_hist)) =
  [(0, [1]); (0, [3]); (1, [10;0;0;1]); (1, [10;0;0;2]); (0, [4]); (1, [10;0;0;1])].
Proof. exact (conj ex_chain_ok (conj ex_hist_wf ex_outcomes)). Qed.
