(* RangeRun.v — histories for the range-plugin correspondence check (C02, C03) *)
From Verif Require Import Base Net Bitset Alloc Msg4 IpcalcRun RangePlugin.
Open Scope N_scope.

Inductive rop :=
| RReq (now : Z) (chaddr host : bytes)
| RRestart (table : list (bytes * bytes)).    (* restart; carries the (mac, ip) rows the harness read *)

Inductive rout :=
| ROut (yiaddr : bytes) (opt51 : bytes)
| RDrop
| RRestartOk (table_agrees : bool)
| RRestartErr
| RPanic.

Definition rout_eqb (a b : rout) : bool :=
  match a, b with
  | ROut y o, ROut y' o' => bytes_eqb y y' && bytes_eqb o o'
  | RDrop, RDrop | RRestartErr, RRestartErr | RPanic, RPanic => true
  | RRestartOk x, RRestartOk y => Bool.eqb x y
  | _, _ => false
  end.

Definition empty_msg : msg4 :=
  {| m_op := 2; m_htype := 1; m_hops := 0; m_xid := 0; m_secs := 0; m_flags := 0;
     m_ciaddr := [0;0;0;0]; m_yiaddr := [0;0;0;0]; m_siaddr := [0;0;0;0]; m_giaddr := [0;0;0;0];
     m_chaddr := []; m_sname := []; m_file := []; m_opts := [] |}.

Definition req_of (chaddr host : bytes) : msg4 :=
  {| m_op := 1; m_htype := 1; m_hops := 0; m_xid := 0; m_secs := 0; m_flags := 0;
     m_ciaddr := [0;0;0;0]; m_yiaddr := [0;0;0;0]; m_siaddr := [0;0;0;0]; m_giaddr := [0;0;0;0];
     m_chaddr := chaddr; m_sname := []; m_file := [];
     m_opts := match host with [] => [] | _ => [(12, host)] end |}.

Definition pair_in (p : bytes * bytes) (l : list (bytes * bytes)) : bool :=
  existsb (fun q => bytes_eqb (fst p) (fst q) && bytes_eqb (snd p) (snd q)) l.
Definition table_eqb (a b : list (bytes * bytes)) : bool :=
  Nat.eqb (length a) (length b) && forallb (fun p => pair_in p b) a && forallb (fun p => pair_in p a) b.

Definition rstep (s e : bytes) (st : rstate) (o : rop) : rstate * rout :=
  match o with
  | RReq now ch host =>
      let '(st', r) := range_handler st now (req_of ch host) empty_msg in
      (st', match r with
            | Ok (Some m, _) => ROut (m_yiaddr m) (match opt_get 51 (m_opts m) with Some x => x | None => [] end)
            | Ok (None, _) => RDrop
            | _ => RPanic
            end)
  | RRestart tbl =>
      let agrees := table_eqb tbl (map (fun r => (r_mac r, r_ip r)) (rs_db st)) in
      match range_setup s e (rs_lease st) (rs_db st) with
      | Ok st' => (st', RRestartOk agrees)
      | _ => (st, RRestartErr)
      end
  end.

Fixpoint rrun (s e : bytes) (st : rstate) (ops : list rop) : list rout :=
  match ops with
  | [] => []
  | o :: ops' => let '(st', r) := rstep s e st o in
                 r :: match r with RPanic | RRestartErr => [] | _ => rrun s e st' ops' end
  end.

Fixpoint routs_eqb (x y : list rout) : bool :=
  match x, y with
  | [], [] => true
  | a :: x', b :: y' => rout_eqb a b && routs_eqb x' y'
  | _, _ => false
  end.

Inductive rcase := CR (s e : bytes) (lease : Z) (ops : list rop) (outs : list rout).

Definition check_rcase (c : rcase) : bool :=
  match c with
  | CR s e lease ops outs =>
      match range_setup s e lease [] with
      | Ok st => routs_eqb (rrun s e st ops) outs
      | _ => match outs with [RRestartErr] => true | _ => false end
      end
  end.

Definition mismatches (l : list rcase) : list nat := mismatch_idx check_rcase l 0.
