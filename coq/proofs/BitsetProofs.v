(* BitsetProofs.v — invariant of the bitset model and the index-level allocator:
   the facts behind C04–C07, proved once for both allocators. *)
From Verif Require Import Base Bitset IdxAlloc.
From Coq Require Import Lia ZifyN ZifyNat ZifyBool FinFun.
Open Scope N_scope.

Definition binv (b : bitset) (n : N) : Prop :=
  blen b = n /\ NoDup (bits b) /\ (forall i, In i (bits b) -> i < n).

Lemma mem_In i l : mem i l = true <-> In i l.
Proof.
  unfold mem. rewrite existsb_exists. split.
  - intros (x & Hx & E). apply N.eqb_eq in E. subst. exact Hx.
  - intros H. exists i. split; [exact H|apply N.eqb_refl].
Qed.

Lemma mem_false i l : mem i l = false <-> ~ In i l.
Proof.
  rewrite <- mem_In. destruct (mem i l); split; intros H.
  - discriminate H.
  - exfalso. apply H. reflexivity.
  - intros H'. discriminate H'.
  - reflexivity.
Qed.

Lemma binv_new n : binv (bs_new n) n.
Proof. repeat split; cbn; [constructor|intros i []]. Qed.

Lemma test_spec b n i : binv b n -> (bs_test b i = true <-> In i (bits b)).
Proof.
  intros (Hl & Hn & Hb). unfold bs_test. rewrite andb_true_iff, mem_In. split.
  - intros [_ H]; exact H.
  - intros H. split; [|exact H]. apply Hb in H. lia.
Qed.

Lemma test_false b n i : binv b n -> (bs_test b i = false <-> ~ In i (bits b)).
Proof.
  intros H. rewrite <- (test_spec b n i H). destruct (bs_test b i); split; intros H0.
  - discriminate H0.
  - exfalso. apply H0. reflexivity.
  - intros H'. discriminate H'.
  - reflexivity.
Qed.

Lemma set_spec b n i : binv b n -> i < n -> ~ In i (bits b) ->
  binv (bs_set b i) n /\ bits (bs_set b i) = i :: bits b.
Proof.
  intros (Hl & Hn & Hb) Hi Hni. unfold bs_set, binv. cbn.
  apply mem_false in Hni as Hm. rewrite Hm.
  replace (i <? blen b) with true by lia.
  repeat split; auto.
  - constructor; assumption.
  - intros j [<-|Hj]; auto.
Qed.

Lemma remove_n_In i l j : In j (remove_n i l) <-> j <> i /\ In j l.
Proof.
  induction l as [|x l IH]; cbn.
  - tauto.
  - destruct (i =? x) eqn:E.
    + apply N.eqb_eq in E. subst x. rewrite IH. split; [tauto|]. intros [H1 [H2|H2]]; [congruence|tauto].
    + apply N.eqb_neq in E. cbn. rewrite IH. split.
      * intros [<-|[H1 H2]]; split; auto.
      * intros [H1 [H2|H2]]; auto.
Qed.

Lemma remove_n_NoDup i l : NoDup l -> NoDup (remove_n i l).
Proof.
  induction 1 as [|x l Hx Hl IH]; cbn; [constructor|].
  destruct (i =? x); [exact IH|]. constructor; [|exact IH].
  rewrite remove_n_In. tauto.
Qed.

Lemma remove_n_length i l : NoDup l -> In i l -> S (length (remove_n i l)) = length l.
Proof.
  induction 1 as [|x l Hx Hl IH]; cbn; [tauto|]. intros [E|Hi].
  - subst x. rewrite N.eqb_refl.
    assert (R : remove_n i l = l).
    { clear - Hx. induction l as [|y l IH]; cbn; [reflexivity|].
      destruct (i =? y) eqn:E; [apply N.eqb_eq in E; subst; exfalso; apply Hx; left; reflexivity|].
      f_equal. apply IH. intros H; apply Hx; right; exact H. }
    rewrite R. reflexivity.
  - destruct (i =? x) eqn:E; [apply N.eqb_eq in E; subst; tauto|]. cbn. rewrite IH; auto.
Qed.

Lemma clear_spec b n i : binv b n -> In i (bits b) ->
  binv (bs_clear b i) n /\ (forall j, In j (bits (bs_clear b i)) <-> j <> i /\ In j (bits b)).
Proof.
  intros (Hl & Hn & Hb) Hi. unfold bs_clear. apply Hb in Hi as Hlt.
  replace (i <? blen b) with true by lia. unfold binv; cbn.
  split; [split; [exact Hl|split]|].
  - apply remove_n_NoDup; exact Hn.
  - intros j Hj. apply remove_n_In in Hj. apply Hb; tauto.
  - intros j. apply remove_n_In.
Qed.

(* ---------- NextClear ---------- *)
Lemma pigeon (l : list N) (m : nat) : (forall k, k < N.of_nat m -> In k l) -> (m <= length l)%nat.
Proof.
  intros H.
  assert (Hnd : NoDup (map N.of_nat (seq 0 m))).
  { apply FinFun.Injective_map_NoDup; [intros x y; lia|apply seq_NoDup]. }
  assert (Hincl : incl (map N.of_nat (seq 0 m)) l).
  { intros x Hx. apply in_map_iff in Hx. destruct Hx as (y & <- & Hy). apply in_seq in Hy. apply H. lia. }
  pose proof (NoDup_incl_length Hnd Hincl) as L. rewrite map_length, seq_length in L. exact L.
Qed.

Lemma find_clear_spec b fuel j :
  (forall k, k < j -> In k (bits b)) ->
  match find_clear b j fuel with
  | Some r => r < blen b /\ ~ In r (bits b) /\ (forall k, k < r -> In k (bits b))
  | None => (forall k, k < blen b -> In k (bits b)) \/ (forall k, k < j + N.of_nat fuel -> In k (bits b))
  end.
Proof.
  revert j. induction fuel as [|f IH]; intros j Hj; cbn [find_clear].
  - right. intros k Hk. apply Hj. lia.
  - destruct (j <? blen b) eqn:Hlt.
    + destruct (mem j (bits b)) eqn:Hm.
      * apply mem_In in Hm.
        assert (Hj' : forall k, k < j + 1 -> In k (bits b)).
        { intros k Hk. destruct (N.eq_dec k j) as [->|]; [exact Hm|apply Hj; lia]. }
        specialize (IH (j + 1) Hj'). destruct (find_clear b (j + 1) f); [exact IH|].
        destruct IH as [IH|IH]; [left; exact IH|right]. intros k Hk. apply IH. lia.
      * apply mem_false in Hm. split; [lia|]. split; [exact Hm|exact Hj].
    + left. intros k Hk. apply Hj. lia.
Qed.

Lemma next_clear_some b n r : binv b n -> bs_next_clear b = Some r ->
  r < n /\ ~ In r (bits b) /\ (forall k, k < r -> In k (bits b)).
Proof.
  intros (Hl & _) H. unfold bs_next_clear in H.
  pose proof (find_clear_spec b (S (length (bits b))) 0 ltac:(intros k Hk; lia)) as Sp.
  rewrite H in Sp. rewrite Hl in Sp. exact Sp.
Qed.

Lemma next_clear_none b n : binv b n -> bs_next_clear b = None ->
  forall k, k < n -> In k (bits b).
Proof.
  intros (Hl & _) H. unfold bs_next_clear in H.
  pose proof (find_clear_spec b (S (length (bits b))) 0 ltac:(intros k Hk; lia)) as Sp.
  rewrite H in Sp. destruct Sp as [Sp|Sp]; [rewrite <- Hl; exact Sp|].
  exfalso. pose proof (pigeon (bits b) (S (length (bits b))) ltac:(intros k Hk; apply Sp; lia)). lia.
Qed.

(* all n blocks outstanding <-> the set has n members *)
Lemma full_iff_count b n : binv b n ->
  ((forall k, k < n -> In k (bits b)) <-> N.of_nat (length (bits b)) = n).
Proof.
  intros (Hl & Hnd & Hb). split.
  - intros Hall.
    assert (L1 : (N.to_nat n <= length (bits b))%nat).
    { apply pigeon. intros k Hk. apply Hall. lia. }
    assert (L2 : (length (bits b) <= N.to_nat n)%nat).
    { assert (Hincl : incl (bits b) (map N.of_nat (seq 0 (N.to_nat n)))).
      { intros x Hx. apply in_map_iff. exists (N.to_nat x). split; [lia|]. apply in_seq. apply Hb in Hx. lia. }
      pose proof (NoDup_incl_length Hnd Hincl) as L. rewrite map_length, seq_length in L. exact L. }
    lia.
  - intros Hc k Hk.
    (* a duplicate-free list of n members below n contains every index below n *)
    assert (Hnd' : NoDup (map N.of_nat (seq 0 (N.to_nat n)))).
    { apply FinFun.Injective_map_NoDup; [intros x y; lia|apply seq_NoDup]. }
    assert (Hincl : incl (bits b) (map N.of_nat (seq 0 (N.to_nat n)))).
    { intros x Hx. apply in_map_iff. exists (N.to_nat x). split; [lia|]. apply in_seq. apply Hb in Hx. lia. }
    assert (Hlen : (length (map N.of_nat (seq 0 (N.to_nat n))) <= length (bits b))%nat).
    { rewrite map_length, seq_length. lia. }
    pose proof (NoDup_length_incl Hnd Hlen Hincl) as Hrev.
    apply Hrev. apply in_map_iff. exists (N.to_nat k). split; [lia|]. apply in_seq. lia.
Qed.

(* ---------- the index-level allocator ---------- *)
Definition op_ok (n : N) (o : iop) : Prop :=
  match o with
  | IAlloc (Some i) | IFree (Some i) => i < n
  | _ => True
  end.

Lemma ipick_spec b n h r : binv b n -> op_ok n (IAlloc h) -> ipick b h = Some r ->
  r < n /\ ~ In r (bits b) /\
  (forall i, h = Some i -> ~ In i (bits b) -> r = i).
Proof.
  intros Hb Hok H. unfold ipick in H. destruct h as [i|].
  - destruct (bs_test b i) eqn:T; cbn [negb] in H.
    + destruct (next_clear_some b n r Hb H) as (A & B & _). repeat split; auto.
      intros i' E Hni. injection E as <-. apply (test_spec b n i Hb) in T. contradiction.
    + injection H as <-. apply (test_false b n i Hb) in T. cbn in Hok. repeat split; auto.
      intros i' E _. congruence.
  - destruct (next_clear_some b n r Hb H) as (A & B & _). repeat split; auto. discriminate.
Qed.

Lemma ipick_none b n h : binv b n -> ipick b h = None ->
  forall k, k < n -> In k (bits b).
Proof.
  intros Hb H. unfold ipick in H. destruct h as [i|].
  - destruct (bs_test b i); cbn [negb] in H; [|discriminate]. exact (next_clear_none b n Hb H).
  - exact (next_clear_none b n Hb H).
Qed.

(* one step: invariant, and the exact effect on the set of outstanding indices *)
Lemma istep_spec b n o b' r : binv b n -> op_ok n o -> istep b o = (b', r) ->
  binv b' n /\
  match r with
  | IAllocOk i => i < n /\ ~ In i (bits b) /\ bits b' = i :: bits b /\
                  (forall h, o = IAlloc (Some h) -> ~ In h (bits b) -> i = h)
  | IAllocFull => b' = b /\ N.of_nat (length (bits b)) = n
  | IFreeOk i => o = IFree (Some i) /\ In i (bits b) /\
                 (forall j, In j (bits b') <-> j <> i /\ In j (bits b))
  | IFreeErr _ => b' = b /\ (forall i, o = IFree (Some i) -> ~ In i (bits b))
  end /\
  (* conversely: what decides the outcome *)
  match o with
  | IAlloc _ => (N.of_nat (length (bits b)) = n <-> r = IAllocFull)
  | IFree (Some i) => (In i (bits b) <-> r = IFreeOk i)
  | IFree None => r = IFreeErr false
  end.
Proof.
  intros Hb Hok H. destruct o as [h|[i|]]; cbn [istep] in H.
  - destruct (ipick b h) as [p|] eqn:P; injection H as <- <-.
    + destruct (ipick_spec b n h p Hb Hok P) as (A & B & C).
      destruct (set_spec b n p Hb A B) as (I & E).
      split; [exact I|]. split.
      * repeat split; auto. intros h' Eo. injection Eo as ->. apply C. reflexivity.
      * split; [|discriminate]. intros Hfull. exfalso.
        apply B. apply (proj2 (full_iff_count b n Hb) Hfull). exact A.
    + pose proof (ipick_none b n h Hb P) as F. apply (proj1 (full_iff_count b n Hb)) in F.
      split; [exact Hb|]. split; [split; [reflexivity|exact F]|]. split; auto.
  - destruct (bs_test b i) eqn:T; cbn [negb] in H; injection H as <- <-.
    + apply (test_spec b n i Hb) in T. destruct (clear_spec b n i Hb T) as (I & E).
      split; [exact I|]. split; [split; [reflexivity|split; [exact T|exact E]]|].
      split; intros _; [reflexivity|exact T].
    + apply (test_false b n i Hb) in T. split; [exact Hb|]. split.
      * split; [reflexivity|]. intros i' E. injection E as <-. exact T.
      * split; [intros Hin; contradiction|discriminate].
  - injection H as <- <-. split; [exact Hb|]. split; [|reflexivity]. split; [reflexivity|discriminate].
Qed.

Lemma istep_inv b n o : binv b n -> op_ok n o -> binv (fst (istep b o)) n.
Proof.
  intros Hb Hok. destruct (istep b o) as [b' r] eqn:E.
  exact (proj1 (istep_spec b n o b' r Hb Hok E)).
Qed.

Lemma ifinal_inv b n ops : binv b n -> Forall (op_ok n) ops -> binv (ifinal b ops) n.
Proof.
  revert b. induction ops as [|o ops IH]; intros b Hb Hok; cbn [ifinal]; [exact Hb|].
  inversion Hok as [|? ? Ho Hops]; subst. apply IH; [|exact Hops]. apply istep_inv; assumption.
Qed.

(* ---------- histories: a block is never issued twice without a Free in between ---------- *)
(* if i is outstanding and a later step of the run issues i, a successful Free of i came first *)
Lemma issued_again_needs_free b n ops i j :
  binv b n -> Forall (op_ok n) ops -> In i (bits b) ->
  nth_error (irun b ops) j = Some (IAllocOk i) ->
  exists k, (k < j)%nat /\ nth_error (irun b ops) k = Some (IFreeOk i).
Proof.
  revert b j. induction ops as [|o ops IH]; intros b j Hb Hok Hi Hj.
  - destruct j; discriminate.
  - inversion Hok as [|? ? Ho Hops]; subst.
    cbn [irun] in *. destruct (istep b o) as [b' r] eqn:E.
    destruct (istep_spec b n o b' r Hb Ho E) as (Hb' & Hr & _).
    destruct j as [|j]; cbn [nth_error] in Hj.
    + injection Hj as ->. destruct Hr as (_ & Hni & _). contradiction.
    + (* is i still outstanding after this step? *)
      destruct r as [x| |x|kn].
      * destruct Hr as (_ & _ & Eb & _).
        destruct (IH b' j Hb' Hops ltac:(rewrite Eb; right; exact Hi) Hj) as (k & Hk & Hn).
        exists (S k). split; [lia|exact Hn].
      * destruct Hr as (-> & _).
        destruct (IH b j Hb Hops Hi Hj) as (k & Hk & Hn). exists (S k). split; [lia|exact Hn].
      * destruct Hr as (_ & _ & Eb).
        destruct (N.eq_dec x i) as [->|Hne].
        -- exists 0%nat. split; [lia|reflexivity].
        -- destruct (IH b' j Hb' Hops ltac:(apply Eb; split; [congruence|exact Hi]) Hj) as (k & Hk & Hn).
           exists (S k). split; [lia|exact Hn].
      * destruct Hr as (-> & _).
        destruct (IH b j Hb Hops Hi Hj) as (k & Hk & Hn). exists (S k). split; [lia|exact Hn].
Qed.

Theorem irun_no_double_issue b n ops i j x :
  binv b n -> Forall (op_ok n) ops -> (i < j)%nat ->
  nth_error (irun b ops) i = Some (IAllocOk x) ->
  nth_error (irun b ops) j = Some (IAllocOk x) ->
  exists k, (i < k < j)%nat /\ nth_error (irun b ops) k = Some (IFreeOk x).
Proof.
  revert b i j. induction ops as [|o ops IH]; intros b i j Hb Hok Hij Hi Hj.
  - destruct i; discriminate.
  - inversion Hok as [|? ? Ho Hops]; subst.
    cbn [irun] in *. destruct (istep b o) as [b' r] eqn:E.
    destruct (istep_spec b n o b' r Hb Ho E) as (Hb' & Hr & _).
    destruct j as [|j]; [lia|]. cbn [nth_error] in Hj.
    destruct i as [|i]; cbn [nth_error] in Hi.
    + injection Hi as ->. destruct Hr as (_ & _ & Eb & _).
      destruct (issued_again_needs_free b' n ops x j Hb' Hops ltac:(rewrite Eb; left; reflexivity) Hj) as (k & Hk & Hn).
      exists (S k). split; [lia|exact Hn].
    + destruct (IH b' i j Hb' Hops ltac:(lia) Hi Hj) as (k & Hk & Hn).
      exists (S k). split; [lia|exact Hn].
Qed.

(* the outstanding set at every point of a history is duplicate-free: pairwise distinct blocks *)
Theorem outstanding_distinct b n ops : binv b n -> Forall (op_ok n) ops ->
  NoDup (bits (ifinal b ops)) /\ (forall i, In i (bits (ifinal b ops)) -> i < n).
Proof.
  intros Hb Hok. destruct (ifinal_inv b n ops Hb Hok) as (_ & A & B). split; assumption.
Qed.
