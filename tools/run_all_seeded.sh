#!/bin/bash
# run_all_seeded.sh [Cxx-mi ...] : apply every stored seeded change to /repo in turn, run the quick check of its
# property, undo, and record what caught it in seeded/RESULTS.tsv (id, rc, verdict line, first violation).
cd /verif
OUT=seeded/RESULTS.tsv
[ $# -eq 0 ] && : > $OUT
LIST="$@"; [ -z "$LIST" ] && LIST=$(ls seeded | grep -E '^C[0-9]+-m[0-9]+$')
for ID in $LIST; do
  P=${ID%%-*}
  if ! git -C /repo apply --check /verif/seeded/$ID/patch.diff 2>/dev/null; then echo -e "$ID\tNA\tpatch does not apply\t" >> $OUT; continue; fi
  git -C /repo apply /verif/seeded/$ID/patch.diff
  LOG=$(VERIF_NOEVIDENCE=1 timeout 3000 ./check $P --tier quick 2>&1); RC=$?
  git -C /repo checkout -- .
  V=$(echo "$LOG" | grep -E '^VIOLATION|^OK|^BUILD-ERROR' | head -1)
  F=$(echo "$LOG" | grep -E '^violation:|^proof error|^correspondence' | head -1 | cut -c1-260)
  echo -e "$ID\t$RC\t$V\t$F" >> $OUT
  echo "$ID rc=$RC $V"
done
# leave generated files in the state of the clean tree
.bin/go2v -repo /repo -out coq/gen >/dev/null 2>&1
